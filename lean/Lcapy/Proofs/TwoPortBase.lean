/-
  Helper lemmas for C08 (two-port parameter sets).  Only helper material lives here; the
  property theorems are in Lcapy/Props/C08.lean.
-/
import Lcapy.Spec.TwoPort
import Lcapy.Generated.TwoPort
import Mathlib.Tactic.FieldSimp
import Mathlib.Tactic.Ring
import Mathlib.Tactic.LinearCombination
namespace Lcapy.TwoPort
open Lcapy Lcapy.Spec Lcapy.Gen
variable {K : Type} [Field K]

-- both relations explicit in their left-hand sides: substitute and normalise
set_option hygiene false in
macro "tp_both" : tactic => `(tactic|
  (try simp only [neg_eq_iff_eq_neg]
   constructor <;> (rintro ⟨rfl, rfl⟩; constructor <;> (field_simp; ring))))

-- same, with the determinant kept as an atom d (hd : d = a11*a22 - a12*a21, h : d ≠ 0)
set_option hygiene false in
macro "tp_both_det" : tactic => `(tactic|
  (try simp only [neg_eq_iff_eq_neg]
   constructor <;> (rintro ⟨rfl, rfl⟩; constructor <;> (field_simp; rw [hd]; ring))))

/-- A conversion `f` from representation `X` to representation `P` is sound under the
    side condition `ok` when both matrices describe the same set of port quantities. -/
def SoundConv (X P : Rep) (f : M2 K → K → M2 K) (ok : M2 K → K → Prop) : Prop :=
  ∀ m Z0 p, ok m Z0 → (rel X m Z0 p ↔ rel P (f m Z0) Z0 p)

theorem SoundConv.id (X : Rep) (f : M2 K → K → M2 K) (hf : ∀ m Z0, f m Z0 = m) :
    SoundConv X X f (fun _ _ => True) := by
  intro m Z0 p _; rw [hf]

theorem SoundConv.comp {X Q P : Rep} {f g h : M2 K → K → M2 K} {ok1 ok2 : M2 K → K → Prop}
    (h1 : SoundConv X Q h ok1) (h2 : SoundConv Q P g ok2)
    (hfg : ∀ m Z0, f m Z0 = g (h m Z0) Z0) :
    SoundConv X P f (fun m Z0 => ok1 m Z0 ∧ ok2 (h m Z0) Z0) := by
  intro m Z0 p ⟨o1, o2⟩
  rw [hfg, h1 m Z0 p o1, h2 (h m Z0) Z0 p o2]

/-- `Matrix.inv` swaps the roles of the two sides of `lin`. -/
theorem lin_inv (m : M2 K) (h : m.det ≠ 0) (l1 l2 r1 r2 : K) :
    lin m l1 l2 r1 r2 ↔ lin (M2.inv m) r1 r2 l1 l2 := by
  obtain ⟨d, hd⟩ : ∃ d, d = m.det := ⟨_, rfl⟩
  rw [← hd] at h
  simp only [lin, M2.inv, ← hd]
  simp only [M2.det] at hd
  constructor
  · rintro ⟨rfl, rfl⟩; constructor <;> (field_simp; rw [hd]; ring)
  · rintro ⟨rfl, rfl⟩; constructor <;> (field_simp; rw [hd]; ring)

theorem det_inv (m : M2 K) (h : m.det ≠ 0) : (M2.inv m).det = 1 / m.det := by
  obtain ⟨d, hd⟩ : ∃ d, d = m.det := ⟨_, rfl⟩
  rw [← hd] at h
  simp only [M2.inv, ← hd]
  simp only [M2.det] at hd ⊢
  field_simp; rw [hd]; ring

/-- `lin` determines its matrix: feed it the two unit vectors. -/
theorem lin_inj (m m' : M2 K)
    (h : ∀ l1 l2 r1 r2, lin m l1 l2 r1 r2 ↔ lin m' l1 l2 r1 r2) : m = m' := by
  have e1 := (h m.a11 m.a21 1 0).mp (by simp [lin])
  have e2 := (h m.a12 m.a22 0 1).mp (by simp [lin])
  obtain ⟨a, b, c, d⟩ := m
  obtain ⟨a', b', c', d'⟩ := m'
  simp only [lin, mul_one, mul_zero, add_zero, zero_add] at e1 e2
  simp only [M2.mk.injEq]
  exact ⟨e1.1, e2.1, e1.2, e2.2⟩

theorem inv_inv (m : M2 K) (h : m.det ≠ 0) : M2.inv (M2.inv m) = m := by
  have h2 : (M2.inv m).det ≠ 0 := by rw [det_inv m h]; exact one_div_ne_zero h
  apply lin_inj
  intro l1 l2 r1 r2
  rw [← lin_inv (M2.inv m) h2, ← lin_inv m h]

end Lcapy.TwoPort

namespace Lcapy.TwoPort
open Lcapy Lcapy.Spec Lcapy.Gen
variable {K : Type} [Field K]

/-- a derived attribute `q` computed from representation `X` meets its port definition -/
def DerivedSound (X : Rep) (d : Derived) (q : M2 K → K → K) (ok : M2 K → K → Prop) : Prop :=
  ∀ m Z0 p, ok m Z0 → rel X m Z0 p → d.holds (q m Z0) p

theorem DerivedSound.via {X Q : Rep} {d : Derived} {f : M2 K → K → M2 K} {q q' : M2 K → K → K}
    {ok1 ok2 : M2 K → K → Prop}
    (hc : SoundConv X Q f ok1) (hd : DerivedSound Q d q' ok2) (hq : ∀ m Z0, q m Z0 = q' (f m Z0) Z0) :
    DerivedSound X d q (fun m Z0 => ok1 m Z0 ∧ ok2 (f m Z0) Z0) := by
  intro m Z0 p ⟨o1, o2⟩ h
  rw [hq]
  exact hd (f m Z0) Z0 p o2 ((hc m Z0 p o1).mp h)

/-- the port whose wave variables are prescribed -/
def wavePort (Z0 a1 b1 a2 b2 : K) : Port K :=
  ⟨(a1 + b1) / 2, (a1 - b1) / (2 * Z0), (a2 + b2) / 2, (a2 - b2) / (2 * Z0)⟩

theorem wavePort_spec (Z0 : K) (hz : Z0 ≠ 0) (h2 : (2 : K) ≠ 0) (a1 b1 a2 b2 : K) :
    wa1 Z0 (wavePort Z0 a1 b1 a2 b2) = a1 ∧ wb1 Z0 (wavePort Z0 a1 b1 a2 b2) = b1 ∧
    wa2 Z0 (wavePort Z0 a1 b1 a2 b2) = a2 ∧ wb2 Z0 (wavePort Z0 a1 b1 a2 b2) = b2 := by
  simp only [wa1, wb1, wa2, wb2, wavePort]
  refine ⟨?_, ?_, ?_, ?_⟩ <;> (field_simp; ring)

/-- a V/I representation determines its matrix -/
theorem rel_inj_VI (X : Rep) (hX : X ≠ .S ∧ X ≠ .T) (Z0 : K) (m m' : M2 K)
    (h : ∀ p, rel X m Z0 p ↔ rel X m' Z0 p) : m = m' := by
  apply lin_inj
  intro l1 l2 r1 r2
  cases X
  · simpa [rel] using h ⟨l1, l2, r1, -r2⟩
  · simpa [rel] using h ⟨r1, r2, l1, -l2⟩
  · simpa [rel] using h ⟨r1, l1, l2, r2⟩
  · simpa [rel] using h ⟨l1, r1, r2, l2⟩
  · exact absurd rfl hX.1
  · exact absurd rfl hX.2
  · simpa [rel] using h ⟨r1, l1, r2, l2⟩
  · simpa [rel] using h ⟨l1, r1, l2, r2⟩

/-- every representation determines its matrix (wave representations need Z0 ≠ 0, 2 ≠ 0) -/
theorem rel_inj (X : Rep) (Z0 : K) (hz : Z0 ≠ 0) (h2 : (2 : K) ≠ 0) (m m' : M2 K)
    (h : ∀ p, rel X m Z0 p ↔ rel X m' Z0 p) : m = m' := by
  by_cases hX : X ≠ .S ∧ X ≠ .T
  · exact rel_inj_VI X hX Z0 m m' h
  · apply lin_inj
    intro l1 l2 r1 r2
    have hX' : X = .S ∨ X = .T := by
      cases X <;> simp_all
    rcases hX' with rfl | rfl
    · obtain ⟨e1, e2, e3, e4⟩ := wavePort_spec Z0 hz h2 r1 l1 r2 l2
      have := h (wavePort Z0 r1 l1 r2 l2)
      simpa only [rel, e1, e2, e3, e4] using this
    · obtain ⟨e1, e2, e3, e4⟩ := wavePort_spec Z0 hz h2 l2 l1 r1 r2
      have := h (wavePort Z0 l2 l1 r1 r2)
      simpa only [rel, e1, e2, e3, e4] using this

end Lcapy.TwoPort
