/-
  Helper lemmas for C15 `ss_time_domain`: the time-domain laws of a circuit (Spec/LawsTD.lean: i = C dv/dt,
  v = L di/dt, KCL, instantaneous relations) over functions of time with an arbitrary derivative operator are, instant
  by instant, the resistive laws of StateSpaceMaker's substituted circuit plus the integrator laws.
-/
import Lcapy.Proofs.StateSpaceMaker
import Lcapy.Spec.LawsTD
namespace Lcapy.SSMaker
open Lcapy.MNA Lcapy.TDS Ix
variable {K : Type} [Field K] {T : Type}

set_option linter.unusedSimpArgs false
set_option linter.unusedVariables false
set_option linter.unusedSectionVars false
set_option linter.unnecessarySeqFocus false

/-- functions of time with pointwise operations and ANY operator `D` in the role of d/dt -/
def fnOps (D : (T → K) → (T → K)) : SigOps K (T → K) where
  zero := fun _ => 0
  add u v := fun t => u t + v t
  sub u v := fun t => u t - v t
  neg u := fun t => -u t
  smul r u := fun t => r * u t
  D := D

/-- the netlist with the waveform `uw p` attached to the component at position `p` (read for V and I only) -/
def withWaveFrom (uw : Nat → T → K) : Nat → List (Cpt K) → List (SCpt K (T → K))
  | _, [] => []
  | p, c :: t => (c, uw p) :: withWaveFrom uw (p + 1) t

/-- value at the instant `t` of the state variable / source of the component at position `p` -/
def stateVal (z : Ix → T → K) (uw : Nat → T → K) (t : T) (p : Nat) : Cpt K → K
  | .Cap n1 n2 _ _ => vd (fun i => z i t) n1 n2
  | .Ind _ _ m _ _ _ => z (br m) t
  | .V _ _ _ _ => uw p t
  | .I _ _ _ => uw p t
  | _ => 0

/-- time derivative at `t` of the state variable of the component: d v_C/dt, d i_L/dt -/
def stateDeriv (D : (T → K) → (T → K)) (z : Ix → T → K) (t : T) : Cpt K → K
  | .Cap n1 n2 _ _ => D (vdS (fnOps D) z n1 n2) t
  | .Ind _ _ m _ _ _ => D (z (br m)) t
  | _ => 0

/-- branch indices a component mentions -/
def brRefs : Cpt K → List Nat
  | .Ind _ _ m _ _ _ => [m]
  | .V _ _ m _ => [m]
  | .E _ _ _ _ m _ _ => [m]
  | .F _ _ mc _ => [mc]
  | .H _ _ m mc _ => [m, mc]
  | .TF _ _ _ _ m _ => [m]
  | .GY _ _ _ _ m1 m2 _ => [m1, m2]
  | .AM _ _ m => [m]
  | .TR _ _ m _ => [m]
  | .TPA _ _ _ _ m _ _ _ _ => [m]
  | .HY _ _ m _ _ mc _ _ _ => [m, mc]
  | .SP _ _ _ _ m _ _ _ => [m]
  | _ => []

/-- the component is one the time-domain reading covers: inductors uncoupled, every branch index below `base` -/
def TimeOk (base : Nat) (c : Cpt K) : Prop :=
  (∀ m ∈ brRefs c, m < base) ∧ (match c with | .Ind _ _ _ _ _ coup => coup = [] | _ => True)

/-- the instantaneous solution `zx` of the substituted circuit that belongs to the signals `z`: same node voltages,
    same branch currents below `base`, and the current C·dv/dt on the fresh branch of every capacitor -/
def ExtendsAt (base : Nat) (D : (T → K) → (T → K)) (z : Ix → T → K) (t : T) (p0 : Nat) (cs : List (Cpt K))
    (zx : Ix → K) : Prop :=
  (∀ k, zx (node k) = z (node k) t) ∧ (∀ m, m < base → zx (br m) = z (br m) t) ∧
  (∀ pc ∈ enumFrom p0 cs, match pc.2 with
    | .Cap n1 n2 cv _ => zx (br (base + pc.1)) = cv * D (vdS (fnOps D) z n1 n2) t
    | _ => True)

@[simp] theorem fnOps_zero (D : (T → K) → (T → K)) (t : T) : (fnOps (K := K) D).zero t = 0 := rfl
@[simp] theorem fnOps_add (D : (T → K) → (T → K)) (u v : T → K) (t : T) : (fnOps D).add u v t = u t + v t := rfl
@[simp] theorem fnOps_sub (D : (T → K) → (T → K)) (u v : T → K) (t : T) : (fnOps D).sub u v t = u t - v t := rfl
@[simp] theorem fnOps_neg (D : (T → K) → (T → K)) (u : T → K) (t : T) : (fnOps D).neg u t = -u t := rfl
@[simp] theorem fnOps_smul (D : (T → K) → (T → K)) (r : K) (u : T → K) (t : T) : (fnOps D).smul r u t = r * u t := rfl
@[simp] theorem fnOps_D (D : (T → K) → (T → K)) (u : T → K) : (fnOps D).D u = D u := rfl

theorem voltS_at (D : (T → K) → (T → K)) (z : Ix → T → K) (n : Nat) (t : T) :
    voltS (fnOps D) z n t = volt (fun i => z i t) n := by
  cases n <;> simp [voltS, volt, fnOps]

theorem vdS_at (D : (T → K) → (T → K)) (z : Ix → T → K) (a b : Nat) (t : T) :
    vdS (fnOps D) z a b t = vd (fun i => z i t) a b := by
  show voltS (fnOps D) z a t - voltS (fnOps D) z b t = vd _ a b
  rw [voltS_at, voltS_at]; rfl

theorem volt_ext (z : Ix → T → K) (t : T) (zx : Ix → K) (h : ∀ k, zx (node k) = z (node k) t) (n : Nat) :
    volt zx n = volt (fun i => z i t) n := by
  cases n <;> simp [volt, h]

theorem vd_ext (z : Ix → T → K) (t : T) (zx : Ix → K) (h : ∀ k, zx (node k) = z (node k) t) (a b : Nat) :
    vd zx a b = vd (fun i => z i t) a b := by
  simp [vd, volt_ext z t zx h]

theorem twoTermS_at (D : (T → K) → (T → K)) (n1 n2 k : Nat) (i : T → K) (t : T) :
    twoTermS (fnOps D) n1 n2 k i t = twoTerm n1 n2 k (i t) := by
  simp only [twoTermS, twoTerm, fnOps]
  split_ifs <;> rfl

theorem sumS_at (D : (T → K) → (T → K)) (l : List (T → K)) (t : T) :
    sumS (fnOps D) l t = lsum (l.map (fun f => f t)) := by
  induction l with
  | nil => rfl
  | cons h tl ih => simp only [sumS, List.map_cons, lsum, fnOps] at *; rw [← ih]

/-- one component: its time-domain outflow at the instant `t` is the outflow of its substitute -/
theorem outflow_at (base : Nat) (D : (T → K) → (T → K)) (z : Ix → T → K) (uw : Nat → T → K) (t : T) (zx : Ix → K)
    (w : Nat → K) (p k : Nat) (c : Cpt K)
    (hn : ∀ k, zx (node k) = z (node k) t) (hb : ∀ m, m < base → zx (br m) = z (br m) t)
    (hc : match c with
      | .Cap n1 n2 cv _ => zx (br (base + p)) = cv * D (vdS (fnOps D) z n1 n2) t
      | _ => True)
    (hok : TimeOk base c) (hw : w p = stateVal z uw t p c) :
    outflowS (fnOps D) z k (c, uw p) t = outflow .time 0 zx k (substC base w p c) := by
  have hvd := vd_ext z t zx hn
  obtain ⟨hbr, hcoup⟩ := hok
  cases c <;> simp only [outflowS, substC, outflow, twoTermS_at, stateVal] at * <;>
    simp only [brRefs, List.mem_cons, List.mem_singleton, List.not_mem_nil, or_false, forall_eq_or_imp, forall_eq] at hbr
  all_goals try simp only [fnOps_zero, fnOps_add, fnOps_sub, fnOps_neg, fnOps_smul, fnOps_D, twoTermS_at, vdS_at, hvd]
  case Cap => rw [hc]
  case Ind => rw [hw]; simp
  case I => rw [hw]
  case R => congr 1; ring
  all_goals (first | rfl | (rw [hb _ hbr]) | (rw [hb _ hbr.1, hb _ hbr.2]) | (rw [hb _ hbr.1]) | (rw [hb _ hbr.2]))

/-- the inductor's law v = L di/dt at the instant `t` -/
def IndLaw (D : (T → K) → (T → K)) (z : Ix → T → K) (t : T) : Cpt K → Prop
  | .Ind n1 n2 m l _ _ => l * D (z (br m)) t = vd (fun i => z i t) n1 n2
  | _ => True

/-- one component: its time-domain relations at the instant `t` are the relations of its substitute, plus
    v = L di/dt for an inductor (a capacitor's substitute adds only the definition of its state) -/
theorem laws_at (base : Nat) (D : (T → K) → (T → K)) (z : Ix → T → K) (uw : Nat → T → K) (t : T) (zx : Ix → K)
    (w : Nat → K) (p : Nat) (c : Cpt K)
    (hn : ∀ k, zx (node k) = z (node k) t) (hb : ∀ m, m < base → zx (br m) = z (br m) t)
    (hok : TimeOk base c) (hw : w p = stateVal z uw t p c) :
    (∀ q ∈ lawsS (fnOps D) z (c, uw p), q.2 t = 0) ↔
      ((∀ q ∈ laws .time 0 zx (substC base w p c), q.2 = 0) ∧ IndLaw D z t c) := by
  have hvd := vd_ext z t zx hn
  have hvo := volt_ext z t zx hn
  obtain ⟨hbr, hcoup⟩ := hok
  cases c <;> simp only [lawsS, substC, laws, stateVal, IndLaw] at * <;>
    simp only [brRefs, List.mem_cons, List.mem_singleton, List.not_mem_nil, or_false, forall_eq_or_imp, forall_eq] at hbr
  all_goals try simp only [List.mem_cons, List.mem_singleton, List.not_mem_nil, or_false, forall_eq_or_imp, forall_eq,
    fnOps_zero, fnOps_add, fnOps_sub, fnOps_neg, fnOps_smul, fnOps_D, vdS_at, voltS_at, hvd, hvo, and_true, true_and,
    IsEmpty.forall_iff, implies_true]
  case Cap => rw [hw]; simp
  case Ind =>
    subst hcoup
    simp only [mutualDropS, List.map_nil, sumS, fnOps_zero, add_zero]
    constructor <;> intro h <;> linear_combination (-1 : K) * h
  case V => rw [hw]
  case E => constructor <;> intro h <;> linear_combination h
  case H => rw [hb _ hbr.2]
  case GY => rw [hb _ hbr.1, hb _ hbr.2]
  case TPA => rw [hb _ hbr]
  case HY => rw [hb _ hbr.2, sub_zero]

/-! ### the whole netlist at one instant -/

theorem extendsAt_tail (base : Nat) (D : (T → K) → (T → K)) (z : Ix → T → K) (t : T) (p0 : Nat) (c : Cpt K)
    (cs : List (Cpt K)) (zx : Ix → K) (h : ExtendsAt base D z t p0 (c :: cs) zx) : ExtendsAt base D z t (p0 + 1) cs zx :=
  ⟨h.1, h.2.1, fun pc hpc => h.2.2 pc (by simp [enumFrom, hpc])⟩

theorem kcl_at (base : Nat) (D : (T → K) → (T → K)) (z : Ix → T → K) (uw : Nat → T → K) (t : T) (zx : Ix → K)
    (w : Nat → K) (k : Nat) (cs : List (Cpt K)) (p0 : Nat)
    (hext : ExtendsAt base D z t p0 cs zx)
    (hok : ∀ c ∈ cs, TimeOk base c) (hw : ∀ pc ∈ enumFrom p0 cs, w pc.1 = stateVal z uw t pc.1 pc.2) :
    sumS (fnOps D) ((withWaveFrom uw p0 cs).map (outflowS (fnOps D) z k)) t =
      lsum ((substFrom base w p0 cs).map (outflow .time 0 zx k)) := by
  induction cs generalizing p0 with
  | nil => rfl
  | cons c tl ih =>
    simp only [withWaveFrom, substFrom, List.map_cons, sumS, lsum, fnOps_add]
    rw [ih (p0 + 1) (extendsAt_tail base D z t p0 c tl zx hext) (fun c' hc' => hok c' (by simp [hc']))
      (fun pc hpc => hw pc (by simp [enumFrom, hpc]))]
    congr 1
    apply outflow_at base D z uw t zx w p0 k c hext.1 hext.2.1
    · have := hext.2.2 (p0, c) (by simp [enumFrom])
      cases c <;> first | trivial | exact this
    · exact hok c (by simp)
    · exact hw (p0, c) (by simp [enumFrom])

theorem laws_list_at (base : Nat) (D : (T → K) → (T → K)) (z : Ix → T → K) (uw : Nat → T → K) (t : T) (zx : Ix → K)
    (w : Nat → K) (cs : List (Cpt K)) (p0 : Nat)
    (hext : ExtendsAt base D z t p0 cs zx)
    (hok : ∀ c ∈ cs, TimeOk base c) (hw : ∀ pc ∈ enumFrom p0 cs, w pc.1 = stateVal z uw t pc.1 pc.2) :
    (∀ sc ∈ withWaveFrom uw p0 cs, ∀ q ∈ lawsS (fnOps D) z sc, q.2 t = 0) ↔
      ((∀ c' ∈ substFrom base w p0 cs, ∀ q ∈ laws .time 0 zx c', q.2 = 0) ∧
       (∀ pc ∈ enumFrom p0 cs, IndLaw D z t pc.2)) := by
  induction cs generalizing p0 with
  | nil => simp [withWaveFrom, substFrom, enumFrom]
  | cons c tl ih =>
    have ih' := ih (p0 + 1) (extendsAt_tail base D z t p0 c tl zx hext) (fun c' hc' => hok c' (by simp [hc']))
      (fun pc hpc => hw pc (by simp [enumFrom, hpc]))
    have h1 := laws_at base D z uw t zx w p0 c hext.1 hext.2.1 (hok c (by simp)) (hw (p0, c) (by simp [enumFrom]))
    simp only [withWaveFrom, substFrom, enumFrom, List.forall_mem_cons]
    rw [ih', h1]
    tauto

/-! ### the values that belong to given signals -/

def lookupFrom : Nat → List (Cpt K) → Nat → Option (Cpt K)
  | _, [], _ => none
  | p0, c :: t, q => if q = p0 then some c else lookupFrom (p0 + 1) t q

/-- state variables and source values (by netlist position) at the instant `t` -/
def wAt (cs : List (Cpt K)) (z : Ix → T → K) (uw : Nat → T → K) (t : T) : Nat → K :=
  fun p => match lookupFrom 0 cs p with
    | some c => stateVal z uw t p c
    | none => 0

/-- their time derivatives -/
def dvAt (D : (T → K) → (T → K)) (cs : List (Cpt K)) (z : Ix → T → K) (t : T) : Nat → K :=
  fun p => match lookupFrom 0 cs p with
    | some c => stateDeriv D z t c
    | none => 0

/-- the instantaneous solution of the substituted circuit: the signals at `t`, and C·dv/dt on a capacitor's branch -/
def zxAt (base : Nat) (D : (T → K) → (T → K)) (cs : List (Cpt K)) (z : Ix → T → K) (t : T) : Ix → K
  | node k => z (node k) t
  | br m =>
    if m < base then z (br m) t
    else match lookupFrom 0 cs (m - base) with
      | some (.Cap n1 n2 cv _) => cv * D (vdS (fnOps D) z n1 n2) t
      | _ => z (br m) t

theorem enumFrom_ge (cs : List (Cpt K)) (p0 q : Nat) (c : Cpt K) (h : (q, c) ∈ enumFrom p0 cs) : p0 ≤ q := by
  induction cs generalizing p0 with
  | nil => simp [enumFrom] at h
  | cons a t ih =>
    simp only [enumFrom, List.mem_cons, Prod.mk.injEq] at h
    rcases h with ⟨rfl, _⟩ | h
    · exact le_refl _
    · exact Nat.le_of_succ_le (ih _ h)

theorem lookupFrom_enum (cs : List (Cpt K)) (p0 q : Nat) (c : Cpt K) (h : (q, c) ∈ enumFrom p0 cs) :
    lookupFrom p0 cs q = some c := by
  induction cs generalizing p0 with
  | nil => simp [enumFrom] at h
  | cons a t ih =>
    simp only [enumFrom, List.mem_cons, Prod.mk.injEq] at h
    simp only [lookupFrom]
    rcases h with ⟨rfl, rfl⟩ | h
    · simp
    · have := enumFrom_ge t _ _ _ h
      rw [if_neg (by omega)]
      exact ih _ h

theorem wAt_spec (cs : List (Cpt K)) (z : Ix → T → K) (uw : Nat → T → K) (t : T) :
    ∀ pc ∈ enumFrom 0 cs, wAt cs z uw t pc.1 = stateVal z uw t pc.1 pc.2 := by
  rintro ⟨q, c⟩ h
  simp only [wAt, lookupFrom_enum cs 0 q c h]

theorem dvAt_spec (D : (T → K) → (T → K)) (cs : List (Cpt K)) (z : Ix → T → K) (t : T) :
    ∀ pc ∈ enumFrom 0 cs, dvAt D cs z t pc.1 = stateDeriv D z t pc.2 := by
  rintro ⟨q, c⟩ h
  simp only [dvAt, lookupFrom_enum cs 0 q c h]

theorem zxAt_extends (base : Nat) (D : (T → K) → (T → K)) (cs : List (Cpt K)) (z : Ix → T → K) (t : T) :
    ExtendsAt base D z t 0 cs (zxAt base D cs z t) := by
  refine ⟨fun k => rfl, fun m hm => by simp [zxAt, hm], ?_⟩
  rintro ⟨q, c⟩ h
  cases c <;> try trivial
  simp only [zxAt]
  rw [if_neg (by omega), Nat.add_sub_cancel_left, lookupFrom_enum cs 0 q _ h]

end Lcapy.SSMaker
