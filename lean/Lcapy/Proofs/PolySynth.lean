/-
  Lemmas for the synthesis model (`Lcapy/Model/PolySynth.lean`): pattern realisations, Cauer ladders,
  Foster sums.  Used by Props/C19.lean.
-/
import Lcapy.Model.PolySynth
import Lcapy.Proofs.Poly
import Lcapy.Proofs.PolyCF
namespace Lcapy.Synth
open Lcapy.Poly
variable {K : Type} [Field K] [DecidableEq K]
set_option linter.unusedSimpArgs false
set_option linter.unusedVariables false
set_option linter.unusedSectionVars false

/-- impedance of an optional network (`None` counts as 0 in series, and as an open circuit, admittance 0,
    in parallel: the two readings are kept apart by `ZserO` / `YparO`) -/
def ZserO (x : K) : Option (Net K) → K
  | none => 0
  | some n => n.Z x

def YparO (x : K) : Option (Net K) → K
  | none => 0
  | some n => 1 / n.Z x

theorem Z_serO (a b : Option (Net K)) (x : K) : ZserO x (serO a b) = ZserO x a + ZserO x b := by
  cases a <;> cases b <;> simp [serO, ZserO, Net.Z]

theorem Y_parO (a b : Option (Net K)) (x : K) : YparO x (parO a b) = YparO x a + YparO x b := by
  cases a <;> cases b <;> simp [parO, YparO, Net.Z]

theorem Z_optNet_R (o : Option K) (x : K) : ZserO x (optNet .R o) = o.getD 0 := by
  cases o <;> simp [optNet, ZserO, Net.Z]
theorem Z_optNet_L (o : Option K) (x : K) : ZserO x (optNet .L o) = o.getD 0 * x := by
  cases o <;> simp [optNet, ZserO, Net.Z]
theorem Z_optNet_Cinv (o : Option K) (x : K) : ZserO x (optNet (fun a => .C (1 / a)) o) = o.getD 0 / x := by
  cases o <;> simp [optNet, ZserO, Net.Z]; ring
theorem Z_optNet_Ginv (o : Option K) (x : K) : ZserO x (optNet (fun a => .G (1 / a)) o) = o.getD 0 := by
  cases o <;> simp [optNet, ZserO, Net.Z]
theorem Y_optNet_Rinv (o : Option K) (x : K) : YparO x (optNet (fun a => .R (1 / a)) o) = o.getD 0 := by
  cases o <;> simp [optNet, YparO, Net.Z]
theorem Y_optNet_Linv (o : Option K) (x : K) : YparO x (optNet (fun a => .L (1 / a)) o) = o.getD 0 / x := by
  cases o <;> simp [optNet, YparO, Net.Z]; ring
theorem Y_optNet_C (o : Option K) (x : K) : YparO x (optNet .C o) = o.getD 0 * x := by
  cases o <;> simp [optNet, YparO, Net.Z]
theorem Y_optNet_G (o : Option K) (x : K) : YparO x (optNet .G o) = o.getD 0 := by
  cases o <;> simp [optNet, YparO, Net.Z]

/-- a series-type pattern realises the collected impedance -/
theorem series_forms_value (d : Coll K) (x : K) (net : Option (Net K)) :
    (seriesRL d = some net ∨ seriesRC d = some net ∨ seriesGC d = some net ∨ seriesLC d = some net ∨
      seriesRLC d = some net) → ZserO x net = d.value x := by
  rintro (h | h | h | h | h)
  · simp only [seriesRL] at h
    split at h
    · simp at h
    · rename_i hc
      simp only [Bool.or_eq_true, not_or, Bool.not_eq_true, Option.isSome_eq_false_iff,
        Option.isNone_iff_eq_none] at hc
      simp only [Option.some.injEq] at h; subst h
      simp only [Z_serO, Z_optNet_R, Z_optNet_L, Coll.value, hc.2, Option.getD_none]; ring
  · simp only [seriesRC] at h
    split at h
    · simp at h
    · rename_i hc
      simp only [Bool.or_eq_true, not_or, Bool.not_eq_true, Option.isSome_eq_false_iff,
        Option.isNone_iff_eq_none] at hc
      simp only [Option.some.injEq] at h; subst h
      simp only [Z_serO, Z_optNet_R, Z_optNet_Cinv, Coll.value, hc.2, Option.getD_none]; ring
  · simp only [seriesGC] at h
    split at h
    · simp at h
    · rename_i hc
      simp only [Bool.or_eq_true, not_or, Bool.not_eq_true, Option.isSome_eq_false_iff,
        Option.isNone_iff_eq_none] at hc
      simp only [Option.some.injEq] at h; subst h
      simp only [Z_serO, Z_optNet_Ginv, Z_optNet_Cinv, Coll.value, hc.2, Option.getD_none]; ring
  · simp only [seriesLC] at h
    split at h
    · simp at h
    · rename_i hc
      simp only [Bool.or_eq_true, not_or, Bool.not_eq_true, bne_eq_false_iff_eq] at hc
      simp only [Option.some.injEq] at h; subst h
      simp only [Z_serO, Z_optNet_L, Z_optNet_Cinv, Coll.value, hc.2, Option.getD_none]; ring
  · simp only [seriesRLC] at h
    split at h
    · simp at h
    · simp only [Option.some.injEq] at h; subst h
      simp only [Z_serO, Z_optNet_R, Z_optNet_L, Z_optNet_Cinv, Coll.value, Option.getD_none]; ring

/-- a parallel-type pattern realises the collected ADMITTANCE -/
theorem parallel_forms_value (d : Coll K) (x : K) (net : Option (Net K)) :
    (parallelRL d = some net ∨ parallelRC d = some net ∨ parallelGC d = some net ∨ parallelLC d = some net ∨
      parallelRLC d = some net) → YparO x net = d.value x := by
  rintro (h | h | h | h | h)
  · simp only [parallelRL] at h
    split at h
    · simp at h
    · rename_i hc
      simp only [Bool.or_eq_true, not_or, Bool.not_eq_true, Option.isSome_eq_false_iff,
        Option.isNone_iff_eq_none] at hc
      simp only [Option.some.injEq] at h; subst h
      simp only [Y_parO, Y_optNet_Rinv, Y_optNet_Linv, Coll.value, hc.2, Option.getD_none]; ring
  · simp only [parallelRC] at h
    split at h
    · simp at h
    · rename_i hc
      simp only [Bool.or_eq_true, not_or, Bool.not_eq_true, Option.isSome_eq_false_iff,
        Option.isNone_iff_eq_none] at hc
      simp only [Option.some.injEq] at h; subst h
      simp only [Y_parO, Y_optNet_Rinv, Y_optNet_C, Coll.value, hc.2, Option.getD_none]; ring
  · simp only [parallelGC] at h
    split at h
    · simp at h
    · rename_i hc
      simp only [Bool.or_eq_true, not_or, Bool.not_eq_true, Option.isSome_eq_false_iff,
        Option.isNone_iff_eq_none] at hc
      simp only [Option.some.injEq] at h; subst h
      simp only [Y_parO, Y_optNet_G, Y_optNet_C, Coll.value, hc.2, Option.getD_none]; ring
  · simp only [parallelLC] at h
    split at h
    · simp at h
    · rename_i hc
      simp only [Bool.or_eq_true, not_or, Bool.not_eq_true, bne_eq_false_iff_eq] at hc
      simp only [Option.some.injEq] at h; subst h
      simp only [Y_parO, Y_optNet_C, Y_optNet_Linv, Coll.value, hc.2, Option.getD_none]; ring
  · simp only [parallelRLC] at h
    split at h
    · simp at h
    · simp only [Option.some.injEq] at h; subst h
      simp only [Y_parO, Y_optNet_Rinv, Y_optNet_C, Y_optNet_Linv, Coll.value, Option.getD_none]; ring

/-- leftover keys make every pattern raise -/
theorem reject_other (d : Coll K) (h : d.other = true) :
    seriesRL d = none ∧ seriesRC d = none ∧ seriesGC d = none ∧ seriesLC d = none ∧ seriesRLC d = none ∧
    parallelRL d = none ∧ parallelRC d = none ∧ parallelGC d = none ∧ parallelLC d = none ∧ parallelRLC d = none := by
  simp [seriesRL, seriesRC, seriesGC, seriesLC, seriesRLC, parallelRL, parallelRC, parallelGC, parallelLC,
    parallelRLC, h]

theorem monoColl_value (inv : Bool) (q : K) (k : Nat) (x : K) (h : (monoColl inv q k).other = false) :
    (monoColl inv q k).value x = monoVal inv q k x := by
  match k with
  | 0 => cases inv <;> simp [monoColl, Coll.value, monoVal, npow]
  | 1 => cases inv <;> simp [monoColl, Coll.value, monoVal, npow]
  | k + 2 => simp [monoColl] at h

theorem monoCollInv_value (inv : Bool) (q : K) (k : Nat) (x : K) (h : (monoCollInv inv q k).other = false) :
    (monoCollInv inv q k).value x = 1 / monoVal inv q k x := by
  match k with
  | 0 => cases inv <;> simp [monoCollInv, Coll.value, monoVal, npow]
  | 1 => cases inv <;> simp [monoCollInv, Coll.value, monoVal, npow] <;> ring
  | k + 2 => simp [monoCollInv] at h

theorem other_false_of_seriesRL {d : Coll K} {n : Option (Net K)} (h : seriesRL d = some n) : d.other = false := by
  simp only [seriesRL] at h
  split at h
  · simp at h
  · rename_i hc; simp only [Bool.or_eq_true, not_or, Bool.not_eq_true] at hc; exact hc.1

theorem other_false_of_parallelGC {d : Coll K} {n : Option (Net K)} (h : parallelGC d = some n) : d.other = false := by
  simp only [parallelGC] at h
  split at h
  · simp at h
  · rename_i hc; simp only [Bool.or_eq_true, not_or, Bool.not_eq_true] at hc; exact hc.1

/-- Cauer I ladder: at an even position the built network has IMPEDANCE `cfVal`, at an odd position
    ADMITTANCE `cfVal` -/
theorem cauerI_value (x : K) (cs : List (K × Nat)) (even : Bool) (net : Option (Net K))
    (h : cauerI even cs = some net) (hne : cs ≠ []) :
    (even = true → ZserO x net = cfVal false x cs) ∧ (even = false → YparO x net = cfVal false x cs) := by
  induction cs generalizing even net with
  | nil => exact absurd rfl hne
  | cons c rest ih =>
    obtain ⟨q, k⟩ := c
    simp only [cauerI] at h
    cases ht : cauerI (!even) rest with
    | none => simp [ht] at h
    | some tail =>
      simp only [ht] at h
      cases even with
      | true =>
        simp only [if_true, Option.map_eq_some_iff] at h
        obtain ⟨s, hs, rfl⟩ := h
        refine ⟨fun _ => ?_, fun h0 => by simp at h0⟩
        have hsv : ZserO x s = monoVal false q k x := by
          by_cases hq : q = 0
          · simp only [hq, if_true, Option.some.injEq] at hs; subst hs
            simp [ZserO, monoVal, hq]
          · simp only [hq, if_false] at hs
            rw [series_forms_value _ x s (Or.inl hs), monoColl_value _ _ _ _ (other_false_of_seriesRL hs)]
        rw [Z_serO, hsv]
        cases rest with
        | nil =>
          simp only [cauerI, Option.some.injEq] at ht; subst ht
          simp [ZserO, cfVal]
        | cons r rs =>
          have := (ih (!true) tail ht (by simp)).2 (by simp)
          -- the tail is an admittance `cfVal rest`, i.e. an impedance `1/cfVal rest`
          cases tail with
          | none => simp only [YparO] at this; simp [ZserO, cfVal, ← this]; 
          | some tn =>
            simp only [YparO] at this
            simp only [ZserO, cfVal]
            rw [← this]; simp; ring
      | false =>
        simp only [Bool.false_eq_true, if_false, Option.map_eq_some_iff] at h
        obtain ⟨s, hs, rfl⟩ := h
        refine ⟨fun h0 => by simp at h0, fun _ => ?_⟩
        have hsv : YparO x s = monoVal false q k x := by
          by_cases hq : q = 0
          · simp [hq] at hs
          · simp only [hq, if_false] at hs
            rw [parallel_forms_value _ x s (Or.inr (Or.inr (Or.inl hs))),
              monoColl_value _ _ _ _ (other_false_of_parallelGC hs)]
        rw [Y_parO, hsv]
        cases rest with
        | nil =>
          simp only [cauerI, Option.some.injEq] at ht; subst ht
          simp [YparO, cfVal]
        | cons r rs =>
          have := (ih (!false) tail ht (by simp)).1 (by simp)
          cases tail with
          | none => simp only [ZserO] at this; simp [YparO, cfVal, ← this]
          | some tn =>
            simp only [ZserO] at this
            simp only [YparO, cfVal]
            rw [← this]; ring

/-- series connection of sections adds impedances; parallel connection adds admittances -/
theorem Z_serAll (nets : List (Net K)) (x : K) : ZserO x (serAll nets) = (nets.map (fun n => n.Z x)).sum := by
  induction nets with
  | nil => simp [serAll, ZserO]
  | cons n rest ih =>
    show ZserO x (serO (some n) (serAll rest)) = _
    rw [Z_serO, ih]; simp [ZserO]

theorem Y_parAll (nets : List (Net K)) (x : K) : YparO x (parAll nets) = (nets.map (fun n => 1 / n.Z x)).sum := by
  induction nets with
  | nil => simp [parAll, YparO]
  | cons n rest ih =>
    show YparO x (parO (some n) (parAll rest)) = _
    rw [Y_parO, ih]; simp [YparO]

theorem Y_of_Z (t : Option (Net K)) (x : K) : YparO x t = 1 / ZserO x t := by
  cases t <;> simp [YparO, ZserO]

theorem Z_of_Y (t : Option (Net K)) (x : K) : ZserO x t = 1 / YparO x t := by
  cases t <;> simp [YparO, ZserO]

/-- Cauer II ladder (coefficients `q·x^(−k)` of the ADMITTANCE): at an even position the built network
    has admittance `cfVal`, at an odd position impedance `cfVal` -/
theorem cauerII_value (x : K) (cs : List (K × Nat)) (first even : Bool) (net : Option (Net K))
    (h : cauerII first even cs = some net) (hne : cs ≠ []) :
    (even = true → YparO x net = cfVal true x cs) ∧ (even = false → ZserO x net = cfVal true x cs) := by
  induction cs generalizing first even net with
  | nil => exact absurd rfl hne
  | cons c rest ih =>
    obtain ⟨q, k⟩ := c
    simp only [cauerII] at h
    cases ht : cauerII false (!even) rest with
    | none => simp [ht] at h
    | some tail =>
      simp only [ht] at h
      -- value of the tail (absent when `rest = []`)
      have htail : rest ≠ [] → ((!even) = true → YparO x tail = cfVal true x rest) ∧
          ((!even) = false → ZserO x tail = cfVal true x rest) := fun hr => ih false (!even) tail ht hr
      have htail0 : rest = [] → tail = none := by
        intro hr; subst hr; simpa [cauerII] using ht.symm
      cases even with
      | true =>
        refine ⟨fun _ => ?_, fun h0 => by simp at h0⟩
        simp only [if_true] at h
        have hcf : cfVal true x ((q, k) :: rest) = monoVal true q k x + YparO x tail := by
          cases rest with
          | nil => simp [cfVal, htail0 rfl, YparO]
          | cons r rs =>
            have := (htail (by simp)).2 (by simp)
            simp only [cfVal]; rw [Y_of_Z, this]
        rw [hcf]
        by_cases hfq : (first && decide (q = 0)) = true
        · simp only [hfq, if_true, Option.some.injEq] at h
          subst h
          have hq : q = 0 := by
            simp only [Bool.and_eq_true, decide_eq_true_eq] at hfq; exact hfq.2
          simp [monoVal, hq]
        · simp only [hfq, if_false, Bool.false_eq_true] at h
          by_cases hq : q = 0
          · simp [hq] at h
          · simp only [hq, if_false, Option.map_eq_some_iff] at h
            obtain ⟨s, hs, rfl⟩ := h
            have hz := series_forms_value _ x s (Or.inl hs)
            rw [monoCollInv_value _ _ _ _ (other_false_of_seriesRL hs)] at hz
            rw [Y_parO, Y_of_Z s x, hz]; simp; ring
      | false =>
        refine ⟨fun h0 => by simp at h0, fun _ => ?_⟩
        simp only [Bool.false_eq_true, if_false] at h
        have hcf : cfVal true x ((q, k) :: rest) = monoVal true q k x + ZserO x tail := by
          cases rest with
          | nil => simp [cfVal, htail0 rfl, ZserO]
          | cons r rs =>
            have := (htail (by simp)).1 (by simp)
            simp only [cfVal]; rw [Z_of_Y, this]
        rw [hcf]
        by_cases hq : q = 0
        · simp [hq] at h
        · simp only [hq, if_false, Option.map_eq_some_iff] at h
          obtain ⟨s, hs, rfl⟩ := h
          have hy := parallel_forms_value _ x s (Or.inr (Or.inr (Or.inl hs)))
          rw [monoCollInv_value _ _ _ _ (other_false_of_parallelGC hs)] at hy
          rw [Z_serO, Z_of_Y s x, hy]; simp; ring


/-! ### inverse continued fraction: `continued_fraction_inverse_coeffs` is the forward expansion in `1/var` -/
open Lcapy.Ratfun in
/-- the swapping expansion is defined at `y`: no denominator met on the way vanishes there -/
def cfDefinedSwap : Nat → List K → List K → K → Bool
  | 0, _, _, _ => true
  | fuel + 1, N, D, y =>
    decide (Poly.eval D y ≠ 0) &&
    match cfStep N D with
    | none => decide (Poly.eval N y ≠ 0) && cfDefinedSwap fuel D N y
    | some (_, _, N2) => if isZero N2 then true else cfDefinedSwap fuel D N2 y

open Lcapy.Ratfun in
theorem cfRunSwap_ne_nil (fuel : Nat) (N D : List K) (cs : List (K × Nat)) (h : cfRunSwap fuel N D = .ok cs) :
    cs ≠ [] := by
  cases fuel with
  | zero => simp [cfRunSwap] at h
  | succ fuel =>
    simp only [cfRunSwap] at h
    cases hs : cfStep N D with
    | none =>
      simp only [hs] at h
      cases hr : cfRunSwap fuel D N with
      | ok rest => simp only [hr, CFRes.ok.injEq] at h; subst h; simp
      | negPower => simp [hr] at h
      | fuelOut => simp [hr] at h
    | some v =>
      obtain ⟨q, k, N2⟩ := v
      simp only [hs] at h
      by_cases hz : isZero N2 = true
      · simp only [hz, if_true, CFRes.ok.injEq] at h; subst h; simp
      · simp only [hz, if_false, Bool.false_eq_true] at h
        cases hr : cfRunSwap fuel D N2 with
        | ok rest => simp only [hr, CFRes.ok.injEq] at h; subst h; simp
        | negPower => simp [hr] at h
        | fuelOut => simp [hr] at h

open Lcapy.Ratfun in
/-- value of the swapping expansion (in its own variable `y`) -/
theorem cfRunSwap_value (fuel : Nat) (N D : List K) (cs : List (K × Nat)) (y : K)
    (h : cfRunSwap fuel N D = .ok cs) (hdef : cfDefinedSwap fuel N D y = true) :
    cfVal false y cs = Poly.eval N y / Poly.eval D y := by
  induction fuel generalizing N D cs with
  | zero => simp [cfRunSwap] at h
  | succ fuel ih =>
    simp only [cfRunSwap] at h
    simp only [cfDefinedSwap, Bool.and_eq_true, decide_eq_true_eq] at hdef
    obtain ⟨hDy, hrest⟩ := hdef
    have hD := lc_ne_zero_of_eval hDy
    cases hs : cfStep N D with
    | none =>
      simp only [hs] at h hrest
      simp only [Bool.and_eq_true, decide_eq_true_eq] at hrest
      cases hr : cfRunSwap fuel D N with
      | ok rest =>
        simp only [hr, CFRes.ok.injEq] at h
        subst h
        have hv := ih D N rest hr hrest.2
        have hne := cfRunSwap_ne_nil fuel D N rest hr
        cases rest with
        | nil => exact absurd rfl hne
        | cons r rs =>
          simp only [cfVal, hv, monoVal, npow]
          have := hrest.1
          field_simp
          simp
      | negPower => simp [hr] at h
      | fuelOut => simp [hr] at h
    | some v =>
      obtain ⟨q, k, N2⟩ := v
      simp only [hs] at h hrest
      have hev := cfStep_eval hs hD y
      by_cases hz : isZero N2 = true
      · simp only [hz, if_true, CFRes.ok.injEq] at h
        subst h
        simp only [cfVal, monoVal, npow_eq, Bool.false_eq_true, if_false]
        rw [hev, eval_of_isZero hz]; field_simp; ring
      · simp only [hz, if_false, Bool.false_eq_true] at h hrest
        cases hr : cfRunSwap fuel D N2 with
        | ok rest =>
          simp only [hr, CFRes.ok.injEq] at h
          subst h
          have hne := cfRunSwap_ne_nil fuel D N2 rest hr
          have hv := ih D N2 rest hr hrest
          have hN2y : Poly.eval N2 y ≠ 0 := by
            cases fuel with
            | zero => simp [cfRunSwap] at hr
            | succ f =>
              simp only [cfDefinedSwap, Bool.and_eq_true, decide_eq_true_eq] at hrest
              exact hrest.1
          cases rest with
          | nil => exact absurd rfl hne
          | cons r rs =>
            simp only [cfVal, hv, monoVal, npow_eq, Bool.false_eq_true, if_false]
            rw [hev]; field_simp
        | negPower => simp [hr] at h
        | fuelOut => simp [hr] at h


open Lcapy.Ratfun in
theorem cfStep_none_iff (N D : List K) : cfStep N D = none ↔ (trim N).length < (trim D).length := by
  unfold cfStep
  simp only
  split <;> simp_all

open Lcapy.Ratfun in
/-- **termination of the inverse expansion**: a swap is always followed by a genuine step, which strictly
    shortens the dividend; `2(|N| + |D|) + 1` fuel is never exhausted. -/
theorem cfRunSwap_fuel (fuel : Nat) (N D : List K) (hN : lc N ≠ 0) (hD : lc D ≠ 0)
    (hf : 2 * ((trim N).length + (trim D).length) + (if (trim N).length < (trim D).length then 1 else 0) ≤ fuel) :
    cfRunSwap fuel N D ≠ .fuelOut := by
  induction fuel generalizing N D with
  | zero =>
    exfalso
    have : trim D = [] := List.length_eq_zero_iff.1 (by omega)
    exact hD ((lc_eq_zero_iff D).2 this)
  | succ fuel ih =>
    simp only [cfRunSwap]
    cases hs : cfStep N D with
    | none =>
      have hlt := (cfStep_none_iff N D).1 hs
      simp only [hlt, if_true] at hf
      have hnot : ¬ (trim D).length < (trim N).length := by omega
      have := ih D N hD hN (by simp only [hnot, if_false]; omega)
      simp only
      cases hr : cfRunSwap fuel D N with
      | ok rest => simp
      | negPower => simp
      | fuelOut => exact absurd hr this
    | some v =>
      obtain ⟨q, k, N2⟩ := v
      simp only
      by_cases hz : isZero N2 = true
      · simp [hz]
      · simp only [hz, if_false, Bool.false_eq_true]
        have hl := cfStep_length hs hD
        have hN2 : lc N2 ≠ 0 := by
          intro h0
          apply hz
          simp [isZero, (lc_eq_zero_iff N2).1 h0]
        have hnot : ¬ (trim N).length < (trim D).length := by omega
        simp only [hnot, if_false] at hf
        have := ih D N2 hD hN2 (by split <;> omega)
        cases hr : cfRunSwap fuel D N2 with
        | ok rest => simp
        | negPower => simp
        | fuelOut => exact absurd hr this

/-- reversing the coefficient list evaluates the polynomial at the reciprocal point -/
theorem eval_reverse (P : List K) (x y : K) (hxy : x * y = 1) (hP : P ≠ []) :
    Poly.eval P.reverse y * x ^ (P.length - 1) = Poly.eval P x := by
  induction P with
  | nil => exact absurd rfl hP
  | cons a P ih =>
    cases P with
    | nil => simp
    | cons b Q =>
      have := ih (by simp)
      simp only [List.reverse_cons, List.length_cons, Nat.add_sub_cancel] at this ⊢
      rw [eval_append]
      simp only [List.length_append, List.length_reverse, List.length_cons, List.length_nil, eval_cons,
        eval_nil, mul_zero, add_zero] at this ⊢
      have hp : y ^ (Q.length + 1) * x ^ (Q.length + 1) = 1 := by
        rw [← mul_pow, mul_comm y x, hxy, one_pow]
      linear_combination x * this + a * hp

open Lcapy.Ratfun in
theorem eval_revPad (P : List K) (m : Nat) (x y : K) (hxy : x * y = 1) (hm : 0 < m) (hl : P.length ≤ m) :
    Poly.eval (revPad P m) y * x ^ (m - 1) = Poly.eval P x := by
  have hlen : (P ++ List.replicate (m - P.length) (0 : K)).length = m := by
    simp only [List.length_append, List.length_replicate]; omega
  have hne : P ++ List.replicate (m - P.length) (0 : K) ≠ [] := by
    intro h0; rw [h0] at hlen; simp at hlen; omega
  have := eval_reverse _ x y hxy hne
  rw [hlen, eval_append, eval_replicate_zero] at this
  simpa [revPad] using this

theorem cfVal_inv (x y : K) (hxy : x * y = 1) (cs : List (K × Nat)) : cfVal true x cs = cfVal false y cs := by
  have hx : x ≠ 0 := left_ne_zero_of_mul_eq_one hxy
  have hy : y = x⁻¹ := by field_simp; rw [mul_comm]; exact hxy
  have hm : ∀ q k, monoVal true q k x = monoVal false q k y := by
    intro q k
    simp only [monoVal, npow_eq, if_true, Bool.false_eq_true, if_false, hy, inv_pow]
    field_simp
  induction cs with
  | nil => simp [cfVal]
  | cons c rest ih =>
    obtain ⟨q, k⟩ := c
    cases rest with
    | nil => simp only [cfVal, hm]
    | cons r rs => simp only [cfVal, hm, ih]

open Lcapy.Ratfun in
/-- **value of the inverse continued fraction**: the coefficients `q·x^(−k)` of `cfiCoeffs N D` give back `N/D` -/
theorem cfi_value' (N D : List K) (cs : List (K × Nat)) (x : K) (hx : x ≠ 0)
    (h : cfiCoeffs N D = .ok cs) (hD : D ≠ [])
    (hdef : cfDefinedSwap (2 * (max N.length D.length + max N.length D.length) + 3)
      (revPad N (max N.length D.length)) (revPad D (max N.length D.length)) (1 / x) = true) :
    cfVal true x cs = Poly.eval N x / Poly.eval D x := by
  have hxy : x * (1 / x) = 1 := by field_simp
  have hm : 0 < max N.length D.length := by
    have : 0 < D.length := List.length_pos_iff.mpr hD
    omega
  rw [cfVal_inv x (1 / x) hxy, cfRunSwap_value _ _ _ cs (1 / x) h hdef]
  have e1 := eval_revPad N _ x (1 / x) hxy hm (le_max_left _ _)
  have e2 := eval_revPad D _ x (1 / x) hxy hm (le_max_right _ _)
  rw [← e1, ← e2]
  have hp : x ^ (max N.length D.length - 1) ≠ 0 := pow_ne_zero _ hx
  rw [mul_div_mul_right _ _ hp]

end Lcapy.Synth
