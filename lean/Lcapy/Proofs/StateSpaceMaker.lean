/-
  Helper lemmas for C15 `ss_from_circuit`: the substituted netlist of StateSpaceMaker is linear in the values of the
  state variables / sources, so every unit solution scales and adds (Proofs/Linear.lean); soundness of the row check.
-/
import Lcapy.Model.StateSpaceMaker
import Lcapy.Model.Sources
import Lcapy.Proofs.Linear
import Lcapy.Proofs.MNA
import Mathlib.Tactic.Ring
import Mathlib.Tactic.LinearCombination
import Mathlib.Algebra.Field.Basic
namespace Lcapy.SSMaker
open Lcapy.MNA Ix
variable {K : Type} [Field K]

set_option linter.unusedSimpArgs false
set_option linter.unusedVariables false
set_option linter.unusedSectionVars false

/-! ### one component -/

theorem substC_add (base : Nat) (w1 w2 : Nat → K) (p : Nat) (c : Cpt K) :
    substC base (fun q => w1 q + w2 q) p c = (substC base w1 p c).addSrc (substC base w2 p c) := by
  cases c <;> simp [substC, Cpt.addSrc] <;> ring

theorem substC_sameShape (base : Nat) (w1 w2 : Nat → K) (p : Nat) (c : Cpt K) :
    SameShape (substC base w1 p c) (substC base w2 p c) := by
  cases c <;> simp [SameShape, substC, Cpt.mapSrc]

theorem substC_smul (base : Nat) (a : K) (w : Nat → K) (p : Nat) (c : Cpt K) :
    substC base (fun q => a * w q) p c = (substC base w p c).mapSrc (fun v => a * v) := by
  cases c <;> simp [substC, Cpt.mapSrc]

/-! ### the whole netlist -/

theorem residual_subst_add (base : Nat) (w1 w2 : Nat → K) (z1 z2 : Ix → K) (r : Ix) (cs : List (Cpt K)) (p : Nat) :
    residual (stampAll .time 0 (substFrom base (fun q => w1 q + w2 q) p cs)) (fun i => z1 i + z2 i) r =
      residual (stampAll .time 0 (substFrom base w1 p cs)) z1 r + residual (stampAll .time 0 (substFrom base w2 p cs)) z2 r := by
  induction cs generalizing p with
  | nil => simp [substFrom, stampAll, residual, lhsSum, rhsSum]
  | cons c t ih =>
    simp only [substFrom]
    rw [residual_stampAll, residual_stampAll, residual_stampAll]
    simp only [List.map_cons, lsum]
    rw [← residual_stampAll, ← residual_stampAll, ← residual_stampAll, ih (p + 1), substC_add,
      residual_add_cpt .time 0 _ _ (substC_sameShape base w1 w2 p c)]
    ring

theorem residual_subst_smul (base : Nat) (a : K) (w : Nat → K) (z : Ix → K) (r : Ix) (cs : List (Cpt K)) (p : Nat) :
    residual (stampAll .time 0 (substFrom base (fun q => a * w q) p cs)) (fun i => a * z i) r =
      a * residual (stampAll .time 0 (substFrom base w p cs)) z r := by
  induction cs generalizing p with
  | nil => simp [substFrom, stampAll, residual, lhsSum, rhsSum]
  | cons c t ih =>
    simp only [substFrom]
    rw [residual_stampAll, residual_stampAll]
    simp only [List.map_cons, lsum]
    rw [← residual_stampAll, ← residual_stampAll, ih (p + 1), substC_smul, residual_scale_cpt]
    ring

theorem solves_add (base : Nat) (w1 w2 : Nat → K) (z1 z2 : Ix → K) (cs : List (Cpt K))
    (h1 : Solves .time 0 (subst base w1 cs) z1) (h2 : Solves .time 0 (subst base w2 cs) z2) :
    Solves .time 0 (subst base (fun q => w1 q + w2 q) cs) (fun i => z1 i + z2 i) := by
  intro r hr
  simp only [subst] at *
  rw [residual_subst_add, h1 r hr, h2 r hr, add_zero]

theorem solves_smul (base : Nat) (a : K) (w : Nat → K) (z : Ix → K) (cs : List (Cpt K))
    (h : Solves .time 0 (subst base w cs) z) :
    Solves .time 0 (subst base (fun q => a * w q) cs) (fun i => a * z i) := by
  intro r hr
  simp only [subst] at *
  rw [residual_subst_smul, h r hr, mul_zero]

/-- `subst` reads the values only at the positions of reactive components and independent sources -/
theorem substFrom_congr (base : Nat) (w w' : Nat → K) (cs : List (Cpt K)) (p : Nat)
    (h : ∀ q, q ∈ posFrom .ind p cs ∨ q ∈ posFrom .cap p cs ∨ q ∈ posFrom .vsrc p cs ∨ q ∈ posFrom .isrc p cs → w q = w' q) :
    substFrom base w p cs = substFrom base w' p cs := by
  induction cs generalizing p with
  | nil => rfl
  | cons c t ih =>
    simp only [substFrom]
    congr 1
    · cases c <;> simp [substC] <;> (try (apply h; simp [posFrom, role]))
    · apply ih
      intro q hq
      apply h
      simp only [posFrom]
      rcases hq with hq | hq | hq | hq
      · left; split_ifs <;> simp [hq]
      · right; left; split_ifs <;> simp [hq]
      · right; right; left; split_ifs <;> simp [hq]
      · right; right; right; split_ifs <;> simp [hq]

/-! ### linear combinations of unit solutions -/

/-- Σ_{q ∈ L} w q · ind q -/
def wsum (L : List Nat) (w : Nat → K) : Nat → K := fun p => lsum (L.map (fun q => w q * ind q p))

/-- Σ_{q ∈ L} w q · zs q -/
def zsum (L : List Nat) (w : Nat → K) (zs : Nat → Ix → K) : Ix → K := fun i => lsum (L.map (fun q => w q * zs q i))

theorem solves_zero (base : Nat) (cs : List (Cpt K)) :
    Solves .time 0 (subst base (fun _ => 0) cs) (fun _ => 0) := by
  intro r hr
  have h := residual_subst_smul base (0 : K) (fun _ => 0) (fun _ => 0) r cs 0
  simp only [zero_mul] at h
  exact h

theorem solves_zsum (base : Nat) (cs : List (Cpt K)) (zs : Nat → Ix → K) (w : Nat → K) (L : List Nat)
    (h : ∀ q ∈ L, Solves .time 0 (subst base (ind q) cs) (zs q)) :
    Solves .time 0 (subst base (wsum L w) cs) (zsum L w zs) := by
  induction L with
  | nil => exact solves_zero base cs
  | cons q t ih =>
    have h1 := solves_smul base (w q) (ind q) (zs q) cs (h q (by simp))
    have h2 := ih (fun q' hq' => h q' (by simp [hq']))
    exact solves_add base _ _ _ _ cs h1 h2

theorem lsum_ind_notin (l : List Nat) (w : Nat → K) (p : Nat) (h : p ∉ l) :
    lsum (l.map (fun q => w q * ind q p)) = 0 := by
  induction l with
  | nil => simp [lsum]
  | cons a l ih =>
    simp only [List.mem_cons, not_or] at h
    simp only [List.map_cons, lsum, ih h.2, add_zero]
    simp [ind, h.1]

theorem wsum_mem (L : List Nat) (hnd : L.Nodup) (w : Nat → K) (p : Nat) (hp : p ∈ L) : wsum L w p = w p := by
  induction L with
  | nil => simp at hp
  | cons q t ih =>
    simp only [List.nodup_cons] at hnd
    show w q * ind q p + lsum (t.map (fun q => w q * ind q p)) = w p
    rcases List.mem_cons.mp hp with rfl | hpt
    · rw [lsum_ind_notin t w p hnd.1]
      simp [ind]
    · have hne : p ≠ q := fun h => hnd.1 (h ▸ hpt)
      have := ih hnd.2 hpt
      simp only [wsum] at this
      rw [this]
      simp [ind, hne]

/-! ### positions -/

theorem posFrom_ge (r : Role) (cs : List (Cpt K)) (p q : Nat) (hq : q ∈ posFrom r p cs) : p ≤ q := by
  induction cs generalizing p with
  | nil => simp [posFrom] at hq
  | cons c t ih =>
    simp only [posFrom] at hq
    split_ifs at hq
    · rcases List.mem_cons.mp hq with rfl | h
      · exact le_refl _
      · exact Nat.le_of_succ_le (ih (p + 1) h)
    · exact Nat.le_of_succ_le (ih (p + 1) hq)

theorem posFrom_nodup (r : Role) (cs : List (Cpt K)) (p : Nat) : (posFrom r p cs).Nodup := by
  induction cs generalizing p with
  | nil => simp [posFrom]
  | cons c t ih =>
    simp only [posFrom]
    split_ifs
    · refine List.nodup_cons.mpr ⟨fun h => ?_, ih (p + 1)⟩
      have := posFrom_ge r t (p + 1) p h
      omega
    · exact ih (p + 1)

theorem posFrom_role (r : Role) (cs : List (Cpt K)) (p q : Nat) (hq : q ∈ posFrom r p cs) :
    ∃ c, (q, c) ∈ enumFrom p cs ∧ role c = r := by
  induction cs generalizing p with
  | nil => simp [posFrom] at hq
  | cons c t ih =>
    simp only [posFrom] at hq
    simp only [enumFrom]
    split_ifs at hq with hr
    · rcases List.mem_cons.mp hq with rfl | h
      · exact ⟨c, by simp, hr⟩
      · obtain ⟨c', hc', hr'⟩ := ih (p + 1) h
        exact ⟨c', by simp [hc'], hr'⟩
    · obtain ⟨c', hc', hr'⟩ := ih (p + 1) hq
      exact ⟨c', by simp [hc'], hr'⟩

theorem enumFrom_fun (cs : List (Cpt K)) (p q : Nat) (c c' : Cpt K) (h : (q, c) ∈ enumFrom p cs)
    (h' : (q, c') ∈ enumFrom p cs) : c = c' := by
  induction cs generalizing p with
  | nil => simp [enumFrom] at h
  | cons a t ih =>
    have hge : ∀ (l : List (Cpt K)) (p q : Nat) (c : Cpt K), (q, c) ∈ enumFrom p l → p ≤ q := by
      intro l
      induction l with
      | nil => intro p q c h; simp [enumFrom] at h
      | cons a l ihl =>
        intro p q c h
        simp only [enumFrom, List.mem_cons, Prod.mk.injEq] at h
        rcases h with ⟨rfl, _⟩ | h
        · exact le_refl _
        · exact Nat.le_of_succ_le (ihl _ _ _ h)
    simp only [enumFrom, List.mem_cons, Prod.mk.injEq] at h h'
    rcases h with ⟨rfl, rfl⟩ | h <;> rcases h' with ⟨h1, rfl⟩ | h'
    · rfl
    · have := hge t _ _ _ h'; omega
    · have := hge t _ _ _ h; omega
    · exact ih (p + 1) h h'

theorem srcPos_nodup (cs : List (Cpt K)) : (srcPos cs).Nodup := by
  have hdis : ∀ (r r' : Role), r ≠ r' → ∀ q, q ∈ posFrom r 0 cs → q ∈ posFrom r' 0 cs → False := by
    intro r r' hne q h h'
    obtain ⟨c, hc, hr⟩ := posFrom_role r cs 0 q h
    obtain ⟨c', hc', hr'⟩ := posFrom_role r' cs 0 q h'
    have := enumFrom_fun cs 0 q c c' hc hc'
    subst this
    exact hne (hr.symm.trans hr')
  simp only [srcPos, statePos, inputPos]
  rw [List.nodup_append, List.nodup_append, List.nodup_append]
  refine ⟨⟨posFrom_nodup _ _ _, posFrom_nodup _ _ _, ?_⟩, ⟨posFrom_nodup _ _ _, posFrom_nodup _ _ _, ?_⟩, ?_⟩
  · intro a ha b hb hab; subst hab; exact hdis .ind .cap (by decide) a ha hb
  · intro a ha b hb hab; subst hab; exact hdis .vsrc .isrc (by decide) a ha hb
  · intro a ha b hb hab
    subst hab
    rcases List.mem_append.mp ha with ha | ha <;> rcases List.mem_append.mp hb with hb | hb
    · exact hdis .ind .vsrc (by decide) a ha hb
    · exact hdis .ind .isrc (by decide) a ha hb
    · exact hdis .cap .vsrc (by decide) a ha hb
    · exact hdis .cap .isrc (by decide) a ha hb

/-- the substituted netlist for any values is the one for their restriction to the source positions -/
theorem subst_wsum (base : Nat) (cs : List (Cpt K)) (w : Nat → K) :
    subst base (wsum (srcPos cs) w) cs = subst base w cs := by
  apply substFrom_congr
  intro q hq
  apply wsum_mem _ (srcPos_nodup cs)
  simp only [srcPos, statePos, inputPos, List.mem_append]
  tauto

/-! ### quantities read off the solution -/

/-- `F z w` is linear in (solution, values) jointly -/
structure LinFun (F : (Ix → K) → (Nat → K) → K) : Prop where
  add : ∀ z1 z2 w1 w2, F (fun i => z1 i + z2 i) (fun q => w1 q + w2 q) = F z1 w1 + F z2 w2
  smul : ∀ a z w, F (fun i => a * z i) (fun q => a * w q) = a * F z w

/-- `F` reads the solution only at indices in `U` -/
def ReadsIn (U : Ix → Prop) (F : (Ix → K) → (Nat → K) → K) : Prop :=
  ∀ z z' w, (∀ i, U i → z i = z' i) → F z w = F z' w

theorem linfun_sum (F : (Ix → K) → (Nat → K) → K) (hF : LinFun F) (L : List Nat) (w : Nat → K) (zs : Nat → Ix → K) :
    F (zsum L w zs) (wsum L w) = lsum (L.map (fun q => w q * F (zs q) (ind q))) := by
  induction L with
  | nil =>
    have h := hF.smul 0 (fun _ => 0) (fun _ => 0)
    simp only [zero_mul] at h
    show F (fun _ => 0) (fun _ => 0) = 0
    exact h
  | cons q t ih =>
    show F (fun i => w q * zs q i + zsum t w zs i) (fun p => w q * ind q p + wsum t w p) = _
    rw [hF.add, hF.smul, ih]
    simp [lsum]

theorem volt_add (z1 z2 : Ix → K) (k : Nat) : volt (fun i => z1 i + z2 i) k = volt z1 k + volt z2 k := by
  cases k <;> simp [volt]

theorem volt_smul (a : K) (z : Ix → K) (k : Nat) : volt (fun i => a * z i) k = a * volt z k := by
  cases k <;> simp [volt]

theorem volt_congr (z z' : Ix → K) (k : Nat) (h : k ≠ 0 → z (node k) = z' (node k)) : volt z k = volt z' k := by
  cases k with
  | zero => rfl
  | succ n => simpa [volt] using h (by omega)

theorem linfun_outV (k : Nat) : LinFun (K := K) (outV k) :=
  ⟨fun z1 z2 _ _ => volt_add z1 z2 k, fun a z _ => volt_smul a z k⟩

theorem linfun_dotx (base p : Nat) (c : Cpt K) : LinFun (dotx base p c) := by
  constructor
  · intro z1 z2 w1 w2
    cases c <;> simp [dotx, vd, volt_add] <;> ring
  · intro a z w
    cases c <;> simp [dotx, vd, volt_smul] <;> ring

theorem linfun_outI (base p : Nat) (c : Cpt K) : LinFun (outI base p c) := by
  constructor
  · intro z1 z2 w1 w2
    cases c <;> simp [outI, vd, volt_add] <;> ring
  · intro a z w
    cases c <;> simp [outI, vd, volt_smul] <;> ring

/-- the indices the quantities of component `c` at position `p` read -/
def readsC (base p : Nat) : Cpt K → List Ix
  | .R n1 n2 _ => [node n1, node n2]
  | .Y n1 n2 _ => [node n1, node n2]
  | .Cap _ _ _ _ => [br (base + p)]
  | .Ind n1 n2 _ _ _ _ => [node n1, node n2]
  | .V _ _ m _ => [br m]
  | .E _ _ _ _ m _ _ => [br m]
  | .H _ _ m _ _ => [br m]
  | .TF _ _ _ _ m _ => [br m]
  | .AM _ _ m => [br m]
  | _ => []

theorem reads_dotx (base p : Nat) (c : Cpt K) : ReadsIn (fun i => i ∈ readsC base p c) (dotx base p c) := by
  intro z z' w h
  cases c <;> simp only [dotx]
  case Cap n1 n2 cv v0 => rw [h _ (by simp [readsC])]
  case Ind n1 n2 m l i0 coup =>
    simp only [vd]
    rw [volt_congr z z' n1 (fun _ => h _ (by simp [readsC])), volt_congr z z' n2 (fun _ => h _ (by simp [readsC]))]

theorem reads_outI (base p : Nat) (c : Cpt K) : ReadsIn (fun i => i ∈ readsC base p c) (outI base p c) := by
  intro z z' w h
  cases c <;> simp only [outI]
  case R n1 n2 r =>
    simp only [vd]
    rw [volt_congr z z' n1 (fun _ => h _ (by simp [readsC])), volt_congr z z' n2 (fun _ => h _ (by simp [readsC]))]
  case Y n1 n2 r =>
    simp only [vd]
    rw [volt_congr z z' n1 (fun _ => h _ (by simp [readsC])), volt_congr z z' n2 (fun _ => h _ (by simp [readsC]))]
  all_goals (rw [h _ (by simp [readsC])])

theorem reads_outV (k : Nat) : ReadsIn (K := K) (fun i => i = node k) (outV k) := by
  intro z z' w h
  exact volt_congr z z' k (fun _ => h _ rfl)

theorem mem_posFrom (r : Role) (cs : List (Cpt K)) (p q : Nat) (c : Cpt K) (h : (q, c) ∈ enumFrom p cs)
    (hr : role c = r) : q ∈ posFrom r p cs := by
  induction cs generalizing p with
  | nil => simp [enumFrom] at h
  | cons a t ih =>
    simp only [enumFrom, List.mem_cons, Prod.mk.injEq] at h
    simp only [posFrom]
    rcases h with ⟨rfl, rfl⟩ | h
    · simp [hr]
    · split_ifs
      · exact List.mem_cons_of_mem _ (ih (p + 1) h)
      · exact ih (p + 1) h

/-- the outputs read the values only at the component's own position, where the restriction agrees -/
theorem outI_wsum (base : Nat) (cs : List (Cpt K)) (w : Nat → K) (z : Ix → K) (p : Nat) (c : Cpt K)
    (h : (p, c) ∈ enumFrom 0 cs) : outI base p c z (wsum (srcPos cs) w) = outI base p c z w := by
  cases c <;> simp only [outI]
  case Ind n1 n2 m l i0 coup =>
    apply wsum_mem _ (srcPos_nodup cs)
    simp only [srcPos, statePos, List.mem_append]
    exact Or.inl (Or.inl (mem_posFrom .ind cs 0 p _ h rfl))
  case I n1 n2 i =>
    congr 1
    apply wsum_mem _ (srcPos_nodup cs)
    simp only [srcPos, inputPos, List.mem_append]
    exact Or.inr (Or.inr (mem_posFrom .isrc cs 0 p _ h rfl))

/-! ### the row check -/

theorem lhsSum_notin (r : Ix) (x : Ix → K) (l : List (Ix × Ix × K)) (h : ∀ e ∈ l, e.1 ≠ r) : lhsSum r x l = 0 := by
  induction l with
  | nil => rfl
  | cons e t ih =>
    obtain ⟨r', c, v⟩ := e
    have h1 : r' ≠ r := h (r', c, v) (by simp)
    simp only [lhsSum, h1, if_false, zero_add]
    exact ih (fun e he => h e (by simp [he]))

theorem rhsSum_notin (r : Ix) (l : List (Ix × K)) (h : ∀ e ∈ l, e.1 ≠ r) : rhsSum r l = 0 := by
  induction l with
  | nil => rfl
  | cons e t ih =>
    obtain ⟨r', v⟩ := e
    have h1 : r' ≠ r := h (r', v) (by simp)
    simp only [rhsSum, h1, if_false, zero_add]
    exact ih (fun e he => h e (by simp [he]))

theorem checkSolves_sound [DecidableEq K] (cs : List (Cpt K)) (z : Ix → K) (h : checkSolves cs z = true) :
    Solves .time 0 cs z := by
  intro r hr
  by_cases hmem : r ∈ rowsOf (stampAll .time 0 cs)
  · simp only [checkSolves, List.all_eq_true] at h
    have := h r hmem
    simpa [hr] using this
  · simp only [rowsOf, List.mem_append, List.mem_map, not_or, not_exists, not_and] at hmem
    simp only [residual]
    rw [lhsSum_notin, rhsSum_notin, sub_zero]
    · intro e he h'; exact hmem.2 e he h'
    · intro e he h'; exact hmem.1 e he h'

theorem ssModel_solves [DecidableEq K] (solver : List (Cpt K) → Ix → K) (cs : List (Cpt K)) (M : SSM K)
    (h : ssModel solver cs = some M) :
    ∀ q ∈ srcPos cs, Solves .time 0 (subst M.base (ind q) cs) (M.zs q) := by
  simp only [ssModel] at h
  split_ifs at h with hall
  simp only [Option.some.injEq] at h
  subst h
  intro q hq
  exact checkSolves_sound _ _ (List.all_eq_true.mp hall q hq)

/-- existence: the linear combination of the unit solutions solves the substituted circuit for any values -/
theorem ss_solution [DecidableEq K] (solver : List (Cpt K) → Ix → K) (cs : List (Cpt K)) (M : SSM K)
    (h : ssModel solver cs = some M) (w : Nat → K) :
    Solves .time 0 (subst M.base w cs) (zsum (srcPos cs) w M.zs) := by
  have := solves_zsum M.base cs M.zs w (srcPos cs) (ssModel_solves solver cs M h)
  rwa [subst_wsum] at this

/-- what any linear quantity is at that solution: the state-space value -/
theorem ssValue_eq (F : (Ix → K) → (Nat → K) → K) (hF : LinFun F) (M : SSM K) (cs : List (Cpt K)) (w : Nat → K) :
    F (zsum (srcPos cs) w M.zs) (wsum (srcPos cs) w) = ssValue F M cs w := by
  rw [linfun_sum F hF]
  simp only [ssValue, srcPos, List.map_append, lsum_append, entry]
  congr 1 <;> (apply congrArg; apply List.map_congr_left; intro q _; ring)

/-! ### the matrix does not depend on the values -/

theorem stamp_lhs_substC (base : Nat) (w w' : Nat → K) (p : Nat) (c : Cpt K) :
    (stamp .time 0 (substC base w p c)).lhs = (stamp .time 0 (substC base w' p c)).lhs := by
  cases c <;> simp [substC, stamp]

theorem owned_substC (base : Nat) (w w' : Nat → K) (p : Nat) (c : Cpt K) :
    owned (substC base w p c) = owned (substC base w' p c) := by
  cases c <;> simp [substC, owned]

theorem stampAll_lhs_subst (base : Nat) (w w' : Nat → K) (cs : List (Cpt K)) (p : Nat) :
    (stampAll .time 0 (substFrom base w p cs)).lhs = (stampAll .time 0 (substFrom base w' p cs)).lhs := by
  induction cs generalizing p with
  | nil => rfl
  | cons c t ih =>
    simp only [substFrom]
    show ((stamp .time 0 (substC base w p c)).append (stampAll .time 0 (substFrom base w (p + 1) t))).lhs =
      ((stamp .time 0 (substC base w' p c)).append (stampAll .time 0 (substFrom base w' (p + 1) t))).lhs
    simp only [Stamp.append]
    rw [ih (p + 1), stamp_lhs_substC base w w' p c]

theorem owned_subst (base : Nat) (w w' : Nat → K) (cs : List (Cpt K)) (p : Nat) :
    (substFrom base w p cs).flatMap owned = (substFrom base w' p cs).flatMap owned := by
  induction cs generalizing p with
  | nil => rfl
  | cons c t ih => simp only [substFrom, List.flatMap_cons, ih (p + 1), owned_substC base w w' p c]

/-- two solutions of one substituted circuit differ by a solution of the homogeneous system -/
theorem solves_diff_hom (cs : List (Cpt K)) (x y : Ix → K) (hx : Solves .time 0 cs x) (hy : Solves .time 0 cs y) :
    ∀ r, r ≠ node 0 → lhsSum r (ground (fun i => x i - y i)) (stampAll .time 0 cs).lhs = 0 := by
  intro r hr
  have h1 := hx r hr
  have h2 := hy r hr
  simp only [residual] at h1 h2
  have hg : ground (fun i => x i - y i) = fun i => ground x i - ground y i := by
    funext i
    cases i with
    | node k => cases k <;> simp [ground]
    | br m => simp [ground]
  rw [hg, lhsSum_sub]
  rw [sub_eq_zero] at h1 h2
  rw [h1, h2, sub_self]

end Lcapy.SSMaker
