/-
  Helper lemmas for Props/C03Groups.lean: source valuations by netlist position (`assignAt`), their sums, and the
  indicator sum over a duplicate-free key list.
-/
import Lcapy.Proofs.LinearN
import Lcapy.Model.Groups
import Mathlib.Algebra.BigOperators.Group.List.Basic
import Mathlib.Data.List.Dedup
namespace Lcapy.MNA
open Ix
variable {K : Type} [Field K]
set_option linter.unusedSimpArgs false
set_option linter.unusedSectionVars false

/-- the netlist `cs` with every independent quantity of the component at position `p + i` set to `w (p + i)`:
    the sub-netlist of one analysis group, in which each source carries the part of its value that the group takes
    (`select(kind)`), positions without independent quantities are unaffected -/
def assignAt (w : Nat → K) : Nat → List (Cpt K) → List (Cpt K)
  | _, [] => []
  | p, c :: t => c.mapSrc (fun _ => w p) :: assignAt w (p + 1) t

/-- pointwise sum of a family of valuations -/
def sumW : List (Nat → K) → Nat → K
  | [] => fun _ => 0
  | w :: t => fun p => w p + sumW t p

theorem coupMap_coupMap (f g : K → K) (coup : List (Nat × K × Option K)) :
    coupMap g (coupMap f coup) = coupMap (fun v => g (f v)) coup := by
  induction coup with
  | nil => rfl
  | cons p t ih =>
    obtain ⟨b, M, o⟩ := p
    simp only [coupMap, List.map_cons] at ih ⊢
    rw [ih]; cases o <;> simp

theorem mapSrc_mapSrc (f g : K → K) (c : Cpt K) : (c.mapSrc f).mapSrc g = c.mapSrc (fun v => g (f v)) := by
  cases c <;> simp [Cpt.mapSrc, coupMap_coupMap, Option.map_map, Function.comp_def]

theorem coupAdd_const (a b : K) (coup : List (Nat × K × Option K)) :
    coupAdd (coupMap (fun _ => a) coup) (coupMap (fun _ => b) coup) = coupMap (fun _ => a + b) coup := by
  induction coup with
  | nil => rfl
  | cons p t ih =>
    obtain ⟨m, M, o⟩ := p
    simp only [coupMap, List.map_cons, coupAdd, List.zipWith_cons_cons] at ih ⊢
    rw [ih]; cases o <;> simp [optAdd]

theorem addSrc_const (a b : K) (c : Cpt K) :
    (c.mapSrc (fun _ => a)).addSrc (c.mapSrc (fun _ => b)) = c.mapSrc (fun _ => a + b) := by
  cases c with
  | Cap n1 n2 cc v0 => cases v0 <;> simp [Cpt.mapSrc, Cpt.addSrc, optAdd]
  | Ind n1 n2 m l i0 coup => cases i0 <;> simp [Cpt.mapSrc, Cpt.addSrc, optAdd, coupAdd_const]
  | _ => simp [Cpt.mapSrc, Cpt.addSrc]

theorem sameShape_const (a b : K) (c : Cpt K) : SameShape (c.mapSrc (fun _ => a)) (c.mapSrc (fun _ => b)) := by
  unfold SameShape
  rw [mapSrc_mapSrc, mapSrc_mapSrc]

theorem assignAt_add (w1 w2 : Nat → K) (p : Nat) (cs : List (Cpt K)) :
    List.zipWith Cpt.addSrc (assignAt w1 p cs) (assignAt w2 p cs) = assignAt (fun i => w1 i + w2 i) p cs := by
  induction cs generalizing p with
  | nil => rfl
  | cons c t ih => simp only [assignAt, List.zipWith_cons_cons, addSrc_const, ih]

theorem assignAt_sameShape (w1 w2 : Nat → K) (p : Nat) (cs : List (Cpt K)) :
    List.Forall₂ SameShape (assignAt w1 p cs) (assignAt w2 p cs) := by
  induction cs generalizing p with
  | nil => exact List.Forall₂.nil
  | cons c t ih => exact List.Forall₂.cons (sameShape_const _ _ c) (ih (p + 1))

theorem assignAt_zero (p : Nat) (cs : List (Cpt K)) : assignAt (fun _ => (0 : K)) p cs = killAll cs := by
  induction cs generalizing p with
  | nil => rfl
  | cons c t ih => simp only [assignAt, killAll, List.map_cons, ih (p + 1)]

/-- a netlist without sources is solved by the zero assignment -/
theorem killAll_solved_by_zero (kind : Kind) (s : K) (cs : List (Cpt K)) : Solves kind s (killAll cs) (fun _ => 0) := by
  intro r _
  rw [residual_killAll, homogAll_zero]

/-- Σ_{k ∈ G} (if k = k₀ then v else 0) = v for a duplicate-free list containing k₀ -/
theorem sum_indicator {α : Type} [DecidableEq α] (G : List α) (hG : G.Nodup) (k0 : α) (hk : k0 ∈ G) (v : K) :
    (G.map (fun k => if k0 = k then v else 0)).sum = v := by
  induction G with
  | nil => simp at hk
  | cons g t ih =>
    simp only [List.nodup_cons] at hG
    simp only [List.map_cons, List.sum_cons]
    rcases List.mem_cons.mp hk with rfl | hk'
    · have : (t.map (fun k => if k0 = k then v else 0)).sum = 0 := by
        have hz : ∀ k ∈ t, (if k0 = k then v else 0) = (0 : K) := by
          intro k hkt; have : k0 ≠ k := fun h => hG.1 (h ▸ hkt); simp [this]
        rw [List.map_congr_left hz]; simp
      simp [this]
    · have : k0 ≠ g := fun h => hG.1 (h ▸ hk')
      simp [this, ih hG.2 hk']

end Lcapy.MNA

namespace Lcapy.Groups
open Lcapy.Decompose

/-- frequencies keyed in an accumulator -/
def acKeys (l : List (Rat × Rat × Rat)) : List Rat := l.map (·.1)

theorem acInsert_keys (w a b : Rat) (l : List (Rat × Rat × Rat)) : ∀ v ∈ acKeys (acInsert w a b l), v ∈ acKeys l ∨ v = w := by
  induction l with
  | nil => intro v hv; simp [acInsert, acKeys] at hv; exact Or.inr hv
  | cons h t ih =>
    obtain ⟨w', a', b'⟩ := h
    intro v hv
    by_cases hw : w' = w
    · simp only [acInsert, hw, if_true, acKeys, List.map_cons, List.mem_cons] at hv ⊢
      rcases hv with h1 | h1
      · exact Or.inr h1
      · exact Or.inl (Or.inr h1)
    · simp only [acInsert, hw, if_false, acKeys, List.map_cons, List.mem_cons] at hv ⊢
      rcases hv with h1 | h1
      · exact Or.inl (Or.inl h1)
      · rcases ih v h1 with h2 | h2
        · exact Or.inl (Or.inr h2)
        · exact Or.inr h2

/-- a kind absent from the term list leaves its part of the accumulator untouched -/
theorem fold_dc_unchanged (ts : List (Term Rat)) (d : Decomp Rat) (h : ∀ t ∈ ts, kindOf t ≠ Key.dc) :
    (ts.foldl step d).dc = d.dc := by
  induction ts generalizing d with
  | nil => rfl
  | cons t rest ih =>
    simp only [List.foldl_cons]
    rw [ih _ (fun u hu => h u (by simp [hu]))]
    cases t with
    | dc c => exact absurd rfl (h (Term.dc c) (by simp))
    | ac w a b => rfl
    | tr i c => rfl

theorem fold_tr_unchanged (ts : List (Term Rat)) (d : Decomp Rat) (h : ∀ t ∈ ts, kindOf t ≠ Key.transient) :
    (ts.foldl step d).tr = d.tr := by
  induction ts generalizing d with
  | nil => rfl
  | cons t rest ih =>
    simp only [List.foldl_cons]
    rw [ih _ (fun u hu => h u (by simp [hu]))]
    cases t with
    | dc c => rfl
    | ac w a b => rfl
    | tr i c => exact absurd rfl (h (Term.tr i c) (by simp))

theorem fold_ac_keys (ts : List (Term Rat)) (d : Decomp Rat) (w : Rat) (h : ∀ t ∈ ts, kindOf t ≠ Key.ac w)
    (hw : w ∈ acKeys (ts.foldl step d).ac) : w ∈ acKeys d.ac := by
  induction ts generalizing d with
  | nil => exact hw
  | cons t rest ih =>
    simp only [List.foldl_cons] at hw
    have h1 := ih _ (fun u hu => h u (by simp [hu])) hw
    cases t with
    | dc c => exact h1
    | tr i c => exact h1
    | ac w' a b =>
      simp only [step] at h1
      rcases acInsert_keys w' a b d.ac w h1 with h2 | h2
      · exact h2
      · exact absurd (by rw [h2]; rfl) (h (Term.ac w' a b) (by simp))

end Lcapy.Groups
