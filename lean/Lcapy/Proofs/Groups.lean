/-
  Helper lemmas for Props/C03Groups.lean: source valuations by netlist position (`assignAt`), their sums, and the
  indicator sum over a duplicate-free key list.
-/
import Lcapy.Proofs.LinearN
import Lcapy.Model.Groups
import Mathlib.Algebra.BigOperators.Group.List.Basic
import Mathlib.Data.List.Dedup
namespace Lcapy.MNA
open Ix
variable {K : Type} [Field K]
set_option linter.unusedSimpArgs false
set_option linter.unusedSectionVars false

/-- the netlist `cs` with every independent quantity of the component at position `p + i` set to `w (p + i)`:
    the sub-netlist of one analysis group, in which each source carries the part of its value that the group takes
    (`select(kind)`), positions without independent quantities are unaffected -/
def assignAt (w : Nat → K) : Nat → List (Cpt K) → List (Cpt K)
  | _, [] => []
  | p, c :: t => c.mapSrc (fun _ => w p) :: assignAt w (p + 1) t

/-- pointwise sum of a family of valuations -/
def sumW : List (Nat → K) → Nat → K
  | [] => fun _ => 0
  | w :: t => fun p => w p + sumW t p

theorem coupMap_coupMap (f g : K → K) (coup : List (Nat × K × Option K)) :
    coupMap g (coupMap f coup) = coupMap (fun v => g (f v)) coup := by
  induction coup with
  | nil => rfl
  | cons p t ih =>
    obtain ⟨b, M, o⟩ := p
    simp only [coupMap, List.map_cons] at ih ⊢
    rw [ih]; cases o <;> simp

theorem mapSrc_mapSrc (f g : K → K) (c : Cpt K) : (c.mapSrc f).mapSrc g = c.mapSrc (fun v => g (f v)) := by
  cases c <;> simp [Cpt.mapSrc, coupMap_coupMap, Option.map_map, Function.comp_def]

theorem coupAdd_const (a b : K) (coup : List (Nat × K × Option K)) :
    coupAdd (coupMap (fun _ => a) coup) (coupMap (fun _ => b) coup) = coupMap (fun _ => a + b) coup := by
  induction coup with
  | nil => rfl
  | cons p t ih =>
    obtain ⟨m, M, o⟩ := p
    simp only [coupMap, List.map_cons, coupAdd, List.zipWith_cons_cons] at ih ⊢
    rw [ih]; cases o <;> simp [optAdd]

theorem addSrc_const (a b : K) (c : Cpt K) :
    (c.mapSrc (fun _ => a)).addSrc (c.mapSrc (fun _ => b)) = c.mapSrc (fun _ => a + b) := by
  cases c with
  | Cap n1 n2 cc v0 => cases v0 <;> simp [Cpt.mapSrc, Cpt.addSrc, optAdd]
  | Ind n1 n2 m l i0 coup => cases i0 <;> simp [Cpt.mapSrc, Cpt.addSrc, optAdd, coupAdd_const]
  | _ => simp [Cpt.mapSrc, Cpt.addSrc]

theorem sameShape_const (a b : K) (c : Cpt K) : SameShape (c.mapSrc (fun _ => a)) (c.mapSrc (fun _ => b)) := by
  unfold SameShape
  rw [mapSrc_mapSrc, mapSrc_mapSrc]

theorem assignAt_add (w1 w2 : Nat → K) (p : Nat) (cs : List (Cpt K)) :
    List.zipWith Cpt.addSrc (assignAt w1 p cs) (assignAt w2 p cs) = assignAt (fun i => w1 i + w2 i) p cs := by
  induction cs generalizing p with
  | nil => rfl
  | cons c t ih => simp only [assignAt, List.zipWith_cons_cons, addSrc_const, ih]

theorem assignAt_sameShape (w1 w2 : Nat → K) (p : Nat) (cs : List (Cpt K)) :
    List.Forall₂ SameShape (assignAt w1 p cs) (assignAt w2 p cs) := by
  induction cs generalizing p with
  | nil => exact List.Forall₂.nil
  | cons c t ih => exact List.Forall₂.cons (sameShape_const _ _ c) (ih (p + 1))

theorem assignAt_zero (p : Nat) (cs : List (Cpt K)) : assignAt (fun _ => (0 : K)) p cs = killAll cs := by
  induction cs generalizing p with
  | nil => rfl
  | cons c t ih => simp only [assignAt, killAll, List.map_cons, ih (p + 1)]

/-- a netlist without sources is solved by the zero assignment -/
theorem killAll_solved_by_zero (kind : Kind) (s : K) (cs : List (Cpt K)) : Solves kind s (killAll cs) (fun _ => 0) := by
  intro r _
  rw [residual_killAll, homogAll_zero]

/-- Σ_{k ∈ G} (if k = k₀ then v else 0) = v for a duplicate-free list containing k₀ -/
theorem sum_indicator {α : Type} [DecidableEq α] (G : List α) (hG : G.Nodup) (k0 : α) (hk : k0 ∈ G) (v : K) :
    (G.map (fun k => if k0 = k then v else 0)).sum = v := by
  induction G with
  | nil => simp at hk
  | cons g t ih =>
    simp only [List.nodup_cons] at hG
    simp only [List.map_cons, List.sum_cons]
    rcases List.mem_cons.mp hk with rfl | hk'
    · have : (t.map (fun k => if k0 = k then v else 0)).sum = 0 := by
        have hz : ∀ k ∈ t, (if k0 = k then v else 0) = (0 : K) := by
          intro k hkt; have : k0 ≠ k := fun h => hG.1 (h ▸ hkt); simp [this]
        rw [List.map_congr_left hz]; simp
      simp [this]
    · have : k0 ≠ g := fun h => hG.1 (h ▸ hk')
      simp [this, ih hG.2 hk']

theorem killAll_scale (a : K) (t : List (Cpt K)) : (killAll t).map (Cpt.mapSrc (fun v => a * v)) = killAll t := by
  simp only [killAll, List.map_map]
  apply List.map_congr_left
  intro c _
  simp [Function.comp, mapSrc_mapSrc]

theorem sameShape_killAll (l : List (Cpt K)) : List.Forall₂ SameShape l (killAll l) := by
  induction l with
  | nil => exact List.Forall₂.nil
  | cons c t ih =>
    refine List.Forall₂.cons ?_ ih
    unfold SameShape; rw [mapSrc_mapSrc]

end Lcapy.MNA

namespace Lcapy.Groups
open Lcapy.Decompose

/-- frequencies keyed in an accumulator -/
def acKeys (l : List (Rat × Rat × Rat)) : List Rat := l.map (·.1)

theorem acInsert_keys (w a b : Rat) (l : List (Rat × Rat × Rat)) : ∀ v ∈ acKeys (acInsert w a b l), v ∈ acKeys l ∨ v = w := by
  induction l with
  | nil => intro v hv; simp [acInsert, acKeys] at hv; exact Or.inr hv
  | cons h t ih =>
    obtain ⟨w', a', b'⟩ := h
    intro v hv
    by_cases hw : w' = w
    · simp only [acInsert, hw, if_true, acKeys, List.map_cons, List.mem_cons] at hv ⊢
      rcases hv with h1 | h1
      · exact Or.inr h1
      · exact Or.inl (Or.inr h1)
    · simp only [acInsert, hw, if_false, acKeys, List.map_cons, List.mem_cons] at hv ⊢
      rcases hv with h1 | h1
      · exact Or.inl (Or.inl h1)
      · rcases ih v h1 with h2 | h2
        · exact Or.inl (Or.inr h2)
        · exact Or.inr h2

/-- a kind absent from the term list leaves its part of the accumulator untouched -/
theorem fold_dc_unchanged (ts : List (Term Rat)) (d : Decomp Rat) (h : ∀ t ∈ ts, kindOf t ≠ Key.dc) :
    (ts.foldl step d).dc = d.dc := by
  induction ts generalizing d with
  | nil => rfl
  | cons t rest ih =>
    simp only [List.foldl_cons]
    rw [ih _ (fun u hu => h u (by simp [hu]))]
    cases t with
    | dc c => exact absurd rfl (h (Term.dc c) (by simp))
    | ac w a b => rfl
    | tr i c => rfl

theorem fold_tr_unchanged (ts : List (Term Rat)) (d : Decomp Rat) (h : ∀ t ∈ ts, kindOf t ≠ Key.transient) :
    (ts.foldl step d).tr = d.tr := by
  induction ts generalizing d with
  | nil => rfl
  | cons t rest ih =>
    simp only [List.foldl_cons]
    rw [ih _ (fun u hu => h u (by simp [hu]))]
    cases t with
    | dc c => rfl
    | ac w a b => rfl
    | tr i c => exact absurd rfl (h (Term.tr i c) (by simp))

theorem fold_ac_keys (ts : List (Term Rat)) (d : Decomp Rat) (w : Rat) (h : ∀ t ∈ ts, kindOf t ≠ Key.ac w)
    (hw : w ∈ acKeys (ts.foldl step d).ac) : w ∈ acKeys d.ac := by
  induction ts generalizing d with
  | nil => exact hw
  | cons t rest ih =>
    simp only [List.foldl_cons] at hw
    have h1 := ih _ (fun u hu => h u (by simp [hu])) hw
    cases t with
    | dc c => exact h1
    | tr i c => exact h1
    | ac w' a b =>
      simp only [step] at h1
      rcases acInsert_keys w' a b d.ac w h1 with h2 | h2
      · exact h2
      · exact absurd (by rw [h2]; rfl) (h (Term.ac w' a b) (by simp))

/-! ### the executed functions `srcKinds`, `sourceGroups`, `analysisGroups`, `partLap` -/

theorem acInsert_keys_nodup (w a b : Rat) (l : List (Rat × Rat × Rat)) (h : (acKeys l).Nodup) :
    (acKeys (acInsert w a b l)).Nodup := by
  induction l with
  | nil => simp [acInsert, acKeys]
  | cons p t ih =>
    obtain ⟨w', a', b'⟩ := p
    simp only [acKeys, List.map_cons, List.nodup_cons] at h
    by_cases hw : w' = w
    · simp only [acInsert, hw, if_true, acKeys, List.map_cons, List.nodup_cons]
      rw [← hw]; exact h
    · simp only [acInsert, hw, if_false, acKeys, List.map_cons, List.nodup_cons]
      refine ⟨fun hmem => ?_, ih h.2⟩
      rcases acInsert_keys w a b t w' hmem with h1 | h1
      · exact h.1 h1
      · exact hw h1

theorem fold_ac_nodup (ts : List (Term Rat)) (d : Decomp Rat) (h : (acKeys d.ac).Nodup) :
    (acKeys (ts.foldl step d).ac).Nodup := by
  induction ts generalizing d with
  | nil => exact h
  | cons t rest ih =>
    simp only [List.foldl_cons]
    apply ih
    cases t with
    | dc c => exact h
    | tr i c => exact h
    | ac w a b => exact acInsert_keys_nodup w a b d.ac h

theorem decompose_ac_nodup (ts : List (Term Rat)) : (acKeys (decompose ts).ac).Nodup :=
  fold_ac_nodup ts ⟨0, [], []⟩ (by simp [acKeys])

theorem find_of_nodup (l : List (Rat × Rat × Rat)) (h : (acKeys l).Nodup) (p : Rat × Rat × Rat) (hp : p ∈ l) :
    l.find? (fun q => decide (q.1 = p.1)) = some p := by
  induction l with
  | nil => simp at hp
  | cons q t ih =>
    simp only [acKeys, List.map_cons, List.nodup_cons] at h
    rcases List.mem_cons.mp hp with rfl | hpt
    · simp [List.find?_cons]
    · have hne : q.1 ≠ p.1 := fun he => h.1 (he ▸ List.mem_map.mpr ⟨p, hpt, rfl⟩)
      simp only [List.find?_cons, hne, decide_false]
      exact ih h.2 hpt

theorem acPart_of_mem (d : Decomp Rat) (h : (acKeys d.ac).Nodup) (p : Rat × Rat × Rat) (hp : p ∈ d.ac) :
    acPart d p.1 = p.2 := by
  simp only [acPart, find_of_nodup d.ac h p hp]

theorem sumK_eq_sum (l : List Rat) : sumK l = l.sum := by
  induction l with
  | nil => rfl
  | cons a t ih => simp [sumK, ih]

theorem sum_filter_of_zero {α : Type} (q : α → Bool) (g : α → Rat) (l : List α) (h : ∀ a ∈ l, q a = false → g a = 0) :
    ((l.filter q).map g).sum = (l.map g).sum := by
  induction l with
  | nil => rfl
  | cons a t ih =>
    have iht := ih (fun b hb => h b (by simp [hb]))
    by_cases hq : q a = true
    · simp [List.filter_cons, hq, iht]
    · have hq' : q a = false := by simpa using hq
      simp [List.filter_cons, hq', iht, h a (by simp) hq']

/-- the ω-groups take exactly the accumulated phasors: Σ over the reported ω keys of the transform of the part
    taken = Σ over ALL accumulated entries (the dropped ones are zero phasors) -/
theorem ac_parts_sum (XL : Nat → Rat) (s0 : Rat) (d : Decomp Rat) (h : (acKeys d.ac).Nodup) :
    (((d.ac.filter (fun p => p.2.1 != 0 || p.2.2 != 0)).map (fun p => Key.ac p.1)).map (partLap XL s0 d)).sum =
      sumK (d.ac.map (fun p => phasorLap p.2.1 (-p.2.2) p.1 s0)) := by
  rw [sumK_eq_sum, List.map_map]
  have hcongr : ∀ l : List (Rat × Rat × Rat), (∀ p ∈ l, p ∈ d.ac) →
      (l.map ((partLap XL s0 d) ∘ (fun p => Key.ac p.1))) = l.map (fun p => phasorLap p.2.1 (-p.2.2) p.1 s0) := by
    intro l hl
    apply List.map_congr_left
    intro p hp
    simp only [Function.comp, partLap, acPart_of_mem d h p (hl p hp)]
  rw [hcongr _ (fun p hp => (List.mem_filter.mp hp).1)]
  apply sum_filter_of_zero
  intro p _ hq
  simp only [Bool.or_eq_false_iff, bne_eq_false_iff_eq] at hq
  simp [phasorLap, hq.1, hq.2]

theorem insertG_listed (g : List (Key × List String)) (k : Key) (n : String) (k' : Key) (n' : String) :
    listed (insertG g k n) k' n' ↔ listed g k' n' ∨ (k' = k ∧ n' = n) := by
  induction g with
  | nil => simp [insertG, listed]
  | cons p t ih =>
    obtain ⟨k0, l0⟩ := p
    by_cases hk : k0 = k
    · subst hk
      simp only [insertG, if_true, listed, List.mem_cons, Prod.mk.injEq]
      constructor
      · rintro ⟨l, (⟨rfl, rfl⟩ | hl), hn⟩
        · rcases List.mem_append.mp hn with h1 | h1
          · exact Or.inl ⟨l0, Or.inl ⟨rfl, rfl⟩, h1⟩
          · simp only [List.mem_singleton] at h1; exact Or.inr ⟨rfl, h1⟩
        · exact Or.inl ⟨l, Or.inr hl, hn⟩
      · rintro (⟨l, (⟨rfl, rfl⟩ | hl), hn⟩ | ⟨rfl, rfl⟩)
        · exact ⟨l ++ [n], Or.inl ⟨rfl, rfl⟩, List.mem_append.mpr (Or.inl hn)⟩
        · exact ⟨l, Or.inr hl, hn⟩
        · exact ⟨l0 ++ [n'], Or.inl ⟨rfl, rfl⟩, by simp⟩
    · simp only [insertG, hk, if_false]
      have hcons : ∀ (g' : List (Key × List String)), listed ((k0, l0) :: g') k' n' ↔ ((k' = k0 ∧ n' ∈ l0) ∨ listed g' k' n') := by
        intro g'
        simp only [listed, List.mem_cons, Prod.mk.injEq]
        constructor
        · rintro ⟨l, (⟨rfl, rfl⟩ | hl), hn⟩
          · exact Or.inl ⟨rfl, hn⟩
          · exact Or.inr ⟨l, hl, hn⟩
        · rintro (⟨rfl, hn⟩ | ⟨l, hl, hn⟩)
          · exact ⟨l0, Or.inl ⟨rfl, rfl⟩, hn⟩
          · exact ⟨l, Or.inr hl, hn⟩
      rw [hcons, hcons, ih]; tauto

theorem foldKinds_listed (ks : List Key) (nm : String) (g : List (Key × List String)) (k' : Key) (n' : String) :
    listed (ks.foldl (fun g k => insertG g k nm) g) k' n' ↔ listed g k' n' ∨ (k' ∈ ks ∧ n' = nm) := by
  induction ks generalizing g with
  | nil => simp
  | cons k t ih =>
    simp only [List.foldl_cons, ih, insertG_listed, List.mem_cons]; tauto

theorem foldSrcs_listed (srcs : List Src) (g : List (Key × List String)) (k' : Key) (n' : String) :
    listed (srcs.foldl (fun g s => (srcKinds s).foldl (fun g k => insertG g k s.name) g) g) k' n' ↔
      listed g k' n' ∨ ∃ s ∈ srcs, k' ∈ srcKinds s ∧ n' = s.name := by
  induction srcs generalizing g with
  | nil => simp
  | cons s t ih =>
    simp only [List.foldl_cons, ih, foldKinds_listed, List.mem_cons]
    constructor
    · rintro ((h | h) | ⟨s', hs', h⟩)
      · exact Or.inl h
      · exact Or.inr ⟨s, Or.inl rfl, h⟩
      · exact Or.inr ⟨s', Or.inr hs', h⟩
    · rintro (h | ⟨s', (rfl | hs'), h⟩)
      · exact Or.inl (Or.inl h)
      · exact Or.inl (Or.inr h)
      · exact Or.inr ⟨s', hs', h⟩

end Lcapy.Groups
