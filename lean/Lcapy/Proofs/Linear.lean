/-
  Helper lemmas: linearity of the MNA system in the unknowns and in the independent
  quantities (used by C03 superposition, C04 Thevenin/Norton, C14 phasors).
-/
import Lcapy.Proofs.MNA
import Lcapy.Model.Sources
namespace Lcapy.MNA
open Ix
variable {K : Type} [Field K]
set_option linter.unusedSimpArgs false
set_option linter.unusedTactic false
set_option linter.unreachableTactic false
set_option linter.unnecessarySeqFocus false

theorem ground_add (x y : Ix → K) : ground (fun i => x i + y i) = fun i => ground x i + ground y i := by
  funext i
  cases i with
  | node k => cases k <;> simp [ground]
  | br m => simp [ground]

theorem ground_smul (a : K) (x : Ix → K) : ground (fun i => a * x i) = fun i => a * ground x i := by
  funext i
  cases i with
  | node k => cases k <;> simp [ground]
  | br m => simp [ground]

theorem lhsSum_add (r : Ix) (x y : Ix → K) (l : List (Ix × Ix × K)) :
    lhsSum r (fun i => x i + y i) l = lhsSum r x l + lhsSum r y l := by
  induction l with
  | nil => simp [lhsSum]
  | cons h t ih => obtain ⟨r', c, v⟩ := h; simp [lhsSum, ih]; split_ifs <;> ring

theorem lhsSum_smul (r : Ix) (a : K) (x : Ix → K) (l : List (Ix × Ix × K)) :
    lhsSum r (fun i => a * x i) l = a * lhsSum r x l := by
  induction l with
  | nil => simp [lhsSum]
  | cons h t ih => obtain ⟨r', c, v⟩ := h; simp [lhsSum, ih]; split_ifs <;> ring

theorem icFlux_scale (a M : K) (o : Option K) : icFlux M (o.map (fun v => a * v)) = a * icFlux M o := by
  cases o <;> simp [icFlux]; ring

theorem rhsSum_icRhs_scale (r : Ix) (a : K) (m : Nat) (coup : List (Nat × K × Option K)) :
    rhsSum r ((coupMap (fun v => a * v) coup).map (fun p => (br m, -(icFlux p.2.1 p.2.2)))) =
      a * rhsSum r (coup.map (fun p => (br m, -(icFlux p.2.1 p.2.2)))) := by
  induction coup with
  | nil => simp [coupMap, rhsSum]
  | cons h t ih =>
    simp only [coupMap, List.map_cons, rhsSum] at ih ⊢
    rw [ih, icFlux_scale]
    split_ifs <;> ring

theorem coupMap_lhs (f : K → K) (s : K) (m : Nat) (coup : List (Nat × K × Option K)) :
    (coupMap f coup).map (fun p => (br m, br p.1, -(s * p.2.1))) =
      coup.map (fun p => (br m, br p.1, -(s * p.2.1))) := by
  simp [coupMap, List.map_map, Function.comp]

theorem icFlux_optAdd (M : K) (o o' : Option K) (h : o'.map (fun _ => (0 : K)) = o.map (fun _ => (0 : K))) :
    icFlux M (optAdd o o') = icFlux M o + icFlux M o' := by
  cases o <;> cases o' <;> simp [icFlux, optAdd] at h ⊢
  ring

theorem rhsSum_icRhs_add (r : Ix) (m : Nat) (c c' : List (Nat × K × Option K))
    (h : coupMap (fun _ => (0 : K)) c' = coupMap (fun _ => (0 : K)) c) :
    rhsSum r ((coupAdd c c').map (fun p => (br m, -(icFlux p.2.1 p.2.2)))) =
      rhsSum r (c.map (fun p => (br m, -(icFlux p.2.1 p.2.2)))) +
      rhsSum r (c'.map (fun p => (br m, -(icFlux p.2.1 p.2.2)))) := by
  induction c generalizing c' with
  | nil =>
    cases c' with
    | nil => simp [coupAdd, rhsSum]
    | cons _ _ => simp [coupMap] at h
  | cons p t ih =>
    cases c' with
    | nil => simp [coupMap] at h
    | cons q t' =>
      simp only [coupMap, List.map_cons, List.cons.injEq, Prod.mk.injEq] at h
      obtain ⟨⟨h1, h2, h3⟩, h4⟩ := h
      have := ih t' (by simpa [coupMap] using h4)
      simp only [coupAdd, List.zipWith_cons_cons, List.map_cons, rhsSum] at this ⊢
      rw [this, icFlux_optAdd _ _ _ h3, h2]
      split_ifs <;> ring

theorem coupAdd_lhs (s : K) (m : Nat) (c c' : List (Nat × K × Option K))
    (h : coupMap (fun _ => (0 : K)) c' = coupMap (fun _ => (0 : K)) c) :
    (coupAdd c c').map (fun p => (br m, br p.1, -(s * p.2.1))) =
      c.map (fun p => (br m, br p.1, -(s * p.2.1))) := by
  induction c generalizing c' with
  | nil => simp [coupAdd]
  | cons p t ih =>
    cases c' with
    | nil => simp [coupMap] at h
    | cons q t' =>
      simp only [coupMap, List.map_cons, List.cons.injEq, Prod.mk.injEq] at h
      obtain ⟨_, h4⟩ := h
      have := ih t' (by simpa [coupMap] using h4)
      simp only [coupAdd, List.zipWith_cons_cons, List.map_cons] at this ⊢
      rw [this]

theorem coupAdd_kill_scaled (a : K) (coup : List (Nat × K × Option K)) :
    coupAdd coup (coupMap (fun v => a * v) (coupMap (fun _ => 0) coup)) = coup := by
  induction coup with
  | nil => rfl
  | cons p t ih =>
    obtain ⟨b, M, o⟩ := p
    simp only [coupMap, List.map_cons, coupAdd, List.zipWith_cons_cons] at ih ⊢
    rw [ih]
    cases o <;> simp [optAdd]

theorem coupMap_zero_idem (a : K) (coup : List (Nat × K × Option K)) :
    coupMap (fun _ => (0 : K)) (coupMap (fun v => a * v) (coupMap (fun _ => 0) coup)) = coupMap (fun _ => 0) coup := by
  induction coup with
  | nil => rfl
  | cons p t ih =>
    obtain ⟨b, M, o⟩ := p
    simp only [coupMap, List.map_cons] at ih ⊢
    rw [ih]; cases o <;> simp

theorem coupMap_zero_zero (coup : List (Nat × K × Option K)) :
    coupMap (fun _ => (0 : K)) (coupMap (fun _ => 0) coup) = coupMap (fun _ => 0) coup := by
  induction coup with
  | nil => rfl
  | cons p t ih =>
    obtain ⟨b, M, o⟩ := p
    simp only [coupMap, List.map_cons] at ih ⊢
    rw [ih]; cases o <;> simp

theorem stamp_lhs_mapSrc (kind : Kind) (s : K) (f : K → K) (c : Cpt K) :
    (stamp kind s (c.mapSrc f)).lhs = (stamp kind s c).lhs := by
  cases c <;> simp [Cpt.mapSrc, stamp, coupMap_lhs]

theorem stamp_rhs_scale (kind : Kind) (s a : K) (c : Cpt K) (r : Ix) :
    rhsSum r (stamp kind s (c.mapSrc (fun v => a * v))).rhs = a * rhsSum r (stamp kind s c).rhs := by
  cases c with
  | Cap n1 n2 c v0 => cases kind <;> cases v0 <;> simp [Cpt.mapSrc, stamp, rhsSum] <;> split_ifs <;> ring
  | Ind n1 n2 m l i0 coup =>
    cases kind <;> cases i0 <;>
      simp [Cpt.mapSrc, stamp, rhsSum, rhsSum_append, rhsSum_icRhs_scale] <;> (try split_ifs) <;> ring
  | _ => simp [Cpt.mapSrc, stamp, rhsSum] <;> split_ifs <;> ring

/-- scaling every independent quantity of one component scales its residual -/
theorem residual_scale_cpt (kind : Kind) (s a : K) (c : Cpt K) (x : Ix → K) (r : Ix) :
    residual (stamp kind s (c.mapSrc (fun v => a * v))) (fun i => a * x i) r =
      a * residual (stamp kind s c) x r := by
  simp only [residual, stamp_lhs_mapSrc, stamp_rhs_scale, ground_smul, lhsSum_smul]; ring

theorem lsum_smul (a : K) (l : List K) : lsum (l.map (fun v => a * v)) = a * lsum l := by
  induction l with
  | nil => simp [lsum]
  | cons h t ih => simp [lsum, ih]; ring

theorem residual_scale (kind : Kind) (s a : K) (cs : List (Cpt K)) (x : Ix → K) (r : Ix) :
    residual (stampAll kind s (cs.map (Cpt.mapSrc (fun v => a * v)))) (fun i => a * x i) r =
      a * residual (stampAll kind s cs) x r := by
  rw [residual_stampAll, residual_stampAll, ← lsum_smul, List.map_map, List.map_map]
  congr 1
  apply List.map_congr_left
  intro c _
  simp only [Function.comp]
  exact residual_scale_cpt kind s a c x r

/-- two components have the same shape: they differ at most in the VALUES of their independent
    quantities (source values, initial-condition values) -/
def SameShape (c c' : Cpt K) : Prop := c'.mapSrc (fun _ => 0) = c.mapSrc (fun _ => 0)

/-- superposition at the level of one component -/
theorem residual_add_cpt (kind : Kind) (s : K) (c c' : Cpt K) (h : SameShape c c')
    (x y : Ix → K) (r : Ix) :
    residual (stamp kind s (c.addSrc c')) (fun i => x i + y i) r =
      residual (stamp kind s c) x r + residual (stamp kind s c') y r := by
  unfold SameShape at h
  cases c <;> cases c' <;> (try (simp [Cpt.mapSrc] at h; done))
  case Cap.Cap n1 n2 c v0 n1' n2' c' v0' =>
    simp [Cpt.mapSrc] at h
    obtain ⟨rfl, rfl, rfl, h4⟩ := h
    cases kind <;> cases v0 <;> cases v0' <;> simp at h4 <;>
      simp [residual, ground_add, lhsSum_add, Cpt.addSrc, optAdd, stamp, rhsSum] <;> split_ifs <;> ring
  case Ind.Ind n1 n2 m l i0 coup n1' n2' m' l' i0' coup' =>
    simp [Cpt.mapSrc] at h
    obtain ⟨rfl, rfl, rfl, rfl, h4, h5⟩ := h
    have hl := fun m => coupAdd_lhs s m coup coup' h5
    have hl' : ∀ m, List.map (fun p => (br m, br p.1, -(s * p.2.1))) coup' =
        List.map (fun p => (br m, br p.1, -(s * p.2.1))) coup := by
      intro m
      have := coupMap_lhs (fun _ => (0 : K)) s m coup'
      rw [h5, coupMap_lhs] at this
      exact this.symm
    cases kind <;> cases i0 <;> cases i0' <;> simp at h4 <;>
      simp [residual, ground_add, lhsSum_add, Cpt.addSrc, optAdd, stamp, rhsSum, rhsSum_append,
            rhsSum_icRhs_add _ _ _ _ h5, hl, hl'] <;> (try split_ifs) <;> ring
  all_goals
    simp [Cpt.mapSrc] at h
    (try obtain ⟨rfl, rfl⟩ := h)
    simp_all [residual, ground_add, lhsSum_add, Cpt.addSrc, stamp, rhsSum]
    (try (split_ifs <;> ring))
end Lcapy.MNA
