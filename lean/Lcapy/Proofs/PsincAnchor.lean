/-
  C17 -- real-analysis anchor for the Spec's value of psinc at integer points.
  psinc(M, t) = sin(M pi t) / (M sin(pi t)) is 0/0 at an integer t = n; the Spec commits to
  (-1)^(n (M-1)).  This file proves, over the reals, that translating the argument by an integer n
  multiplies psinc by exactly that sign, wherever the quotient is defined; so the value at n is that sign
  times the (documented) value 1 at the origin.
-/
import Mathlib.Analysis.SpecialFunctions.Trigonometric.Basic
import Lcapy.Spec.SpecialFn

namespace Lcapy.C17
open Real

theorem psinc_shift_real (M n : ℤ) (h : ℝ) (hM : (M : ℝ) ≠ 0) (hs : sin (π * h) ≠ 0) :
    sin (M * π * (n + h)) / (M * sin (π * (n + h))) =
      (-1 : ℝ) ^ (n * (M - 1)) * (sin (M * π * h) / (M * sin (π * h))) := by
  have e1 : (M : ℝ) * π * (n + h) = M * π * h + ((M * n : ℤ) : ℝ) * π := by push_cast; ring
  have e2 : π * ((n : ℝ) + h) = π * h + (n : ℝ) * π := by ring
  rw [e1, e2, Real.sin_add_int_mul_pi, Real.sin_add_int_mul_pi]
  have hpow : (-1 : ℝ) ^ (M * n) = (-1 : ℝ) ^ (n * (M - 1)) * (-1 : ℝ) ^ n := by
    rw [← zpow_add₀ (by norm_num : (-1 : ℝ) ≠ 0)]
    congr 1; ring
  have hn : (-1 : ℝ) ^ n ≠ 0 := zpow_ne_zero _ (by norm_num)
  rw [hpow]
  field_simp

/-- the Spec's sign function is `(-1)^k` -/
theorem negOnePowInt_cast (k : ℤ) : ((Lcapy.Spec.SpecialFn.negOnePowInt k : ℚ) : ℝ) = (-1 : ℝ) ^ k := by
  unfold Lcapy.Spec.SpecialFn.negOnePowInt
  rcases Int.even_or_odd k with hk | hk
  · have : k % 2 = 0 := Int.even_iff.mp hk
    simp [this, hk.neg_one_zpow]
  · have : k % 2 = 1 := Int.odd_iff.mp hk
    simp [this, hk.neg_one_zpow]

end Lcapy.C17
