/-
  C10 helper lemmas: polynomial evaluation is a ring homomorphism on coefficient lists, soundness of the
  partial-fraction checker, the transform of the synthesised time function, the conjugate-pair formulas.
-/
import Lcapy.Proofs.Laplace
import Lcapy.Model.ILT
import Mathlib.Tactic.LinearCombination
namespace Lcapy.Laplace
variable {K : Type} [Field K]

namespace Poly
@[simp] theorem eval_nil (x : K) : eval ([] : Poly K) x = 0 := rfl
@[simp] theorem eval_cons (a : K) (p : Poly K) (x : K) : eval (a :: p) x = a + x * eval p x := rfl

theorem eval_add (p q : Poly K) (x : K) : eval (add p q) x = eval p x + eval q x := by
  induction p generalizing q with
  | nil => simp [add]
  | cons a p ih =>
    cases q with
    | nil => simp [add]
    | cons b q => simp [add, ih]; ring

theorem eval_smul (c : K) (p : Poly K) (x : K) : eval (smul c p) x = c * eval p x := by
  induction p with
  | nil => simp [smul]
  | cons a p ih => simp only [smul, List.map_cons, eval_cons] at ih ⊢; rw [ih]; ring

theorem eval_mul (p q : Poly K) (x : K) : eval (mul p q) x = eval p x * eval q x := by
  induction p with
  | nil => simp [mul]
  | cons a p ih => simp [mul, eval_add, eval_smul, ih]; ring

theorem eval_linPow (p x : K) (n : Nat) : eval (linPow p n) x = (x - p) ^ n := by
  induction n with
  | zero => simp [linPow]
  | succ n ih => simp [linPow, eval_mul, ih]; ring

theorem eval_eqv_nil [DecidableEq K] (p : Poly K) (x : K) :
    (eqv p [] = true → eval p x = 0) ∧ (eqv [] p = true → eval p x = 0) := by
  induction p with
  | nil => simp
  | cons a p ih =>
    constructor
    · intro h; simp [eqv] at h; simp [h.1, ih.1 h.2]
    · intro h; simp [eqv] at h; simp [h.1, ih.2 h.2]

theorem eval_eqv [DecidableEq K] (p q : Poly K) (x : K) (h : eqv p q = true) : eval p x = eval q x := by
  induction p generalizing q with
  | nil => rw [(eval_eqv_nil q x).2 h]; rfl
  | cons a p ih =>
    cases q with
    | nil => rw [(eval_eqv_nil (a :: p) x).1 h]; rfl
    | cons b q => simp [eqv] at h; simp [h.1, ih q h.2]
end Poly

/-! ### the checker -/

theorem sumCof_eval [DecidableEq K] (A : Poly K) (s : K) (hA : Poly.eval A s ≠ 0) :
    ∀ (R : List (K × K × Nat)) (cs : List (Poly K)), checkCofs A R cs = true →
      Poly.eval (sumCof R cs) s = Poly.eval A s * sumPF R s := by
  intro R
  induction R with
  | nil => intro cs _; cases cs <;> simp [sumCof, sumPF]
  | cons x R ih =>
    intro cs h
    obtain ⟨r, p, o⟩ := x
    cases cs with
    | nil => simp [checkCofs] at h
    | cons c cs =>
      simp only [checkCofs, Bool.and_eq_true] at h
      have h1 := Poly.eval_eqv _ _ s h.1
      rw [Poly.eval_mul, Poly.eval_linPow] at h1
      have hp : (s - p) ^ o ≠ 0 := by
        intro h0; rw [h0, mul_zero] at h1; exact hA h1.symm
      simp only [sumCof, sumPF, Poly.eval_add, Poly.eval_smul, ih cs h.2, pw_eq]
      rw [← h1]; field_simp

theorem pf_check_sound' [DecidableEq K] (B A Q : Poly K) (R : List (K × K × Nat)) (cofs : List (Poly K))
    (h : pfCheck B A Q R cofs = true) (s : K) (hA : Poly.eval A s ≠ 0) :
    Poly.eval B s / Poly.eval A s = Poly.eval Q s + sumPF R s := by
  simp only [pfCheck, Bool.and_eq_true] at h
  have h2 := Poly.eval_eqv _ _ s h.2
  rw [Poly.eval_add, Poly.eval_mul, sumCof_eval A s hA R cofs h.1] at h2
  rw [h2]; field_simp

/-- the checker also certifies that no listed pole is a zero of anything but `A` -/
theorem pf_check_nonpole [DecidableEq K] (A : Poly K) (s : K) (hA : Poly.eval A s ≠ 0) :
    ∀ (R : List (K × K × Nat)) (cs : List (Poly K)), checkCofs A R cs = true →
      ∀ x ∈ R, 0 < x.2.2 → s - x.2.1 ≠ 0 := by
  intro R
  induction R with
  | nil => intro cs _ x hx; simp at hx
  | cons y R ih =>
    intro cs h x hx ho
    obtain ⟨r, p, o⟩ := y
    cases cs with
    | nil => simp [checkCofs] at h
    | cons c cs =>
      simp only [checkCofs, Bool.and_eq_true] at h
      rcases List.mem_cons.mp hx with rfl | hx'
      · have h1 := Poly.eval_eqv _ _ s h.1
        rw [Poly.eval_mul, Poly.eval_linPow] at h1
        intro h0
        simp only at h0 ho
        rw [h0, zero_pow (Nat.pos_iff_ne_zero.mp ho), mul_zero] at h1
        exact hA h1.symm
      · exact ih cs h.2 x hx' ho

/-! ### transform of the synthesised time function -/

variable (E : K → K)

theorem L_iltQ (T s : K) (q : Poly K) (n : Nat) :
    L E (iltQ T n q) s = E (-(s * T)) * (s ^ n * Poly.eval q s) := by
  induction q generalizing n with
  | nil => simp [iltQ]
  | cons c q ih => simp [iltQ, Term.L, pw_eq, ih (n + 1)]; ring

theorem L_iltR (T s : K) (R : List (K × K × Nat)) (ho : ∀ x ∈ R, 0 < x.2.2) :
    L E (iltR T R) s = E (-(s * T)) * sumPF R s := by
  induction R with
  | nil => simp [iltR, sumPF]
  | cons x R ih =>
    obtain ⟨r, p, o⟩ := x
    have h1 : o - 1 + 1 = o := Nat.sub_add_cancel (ho (r, p, o) (by simp))
    have := ih (fun y hy => ho y (by simp [hy]))
    simp only [iltR, List.map_cons, L_cons, Term.L, sumPF, pw_eq, h1] at this ⊢
    rw [this]; ring

theorem ilt_laplace' (pf : PF K) (s : K) (ho : ∀ x ∈ pf.R, 0 < x.2.2) :
    L E (ilt pf) s = evalPF E pf s := by
  simp only [ilt, evalPF, L_append, L_iltQ, L_iltR E pf.T s pf.R ho]; ring

theorem L_cosSin {J : K} (hJ : J * J = -1) (h20 : (1 + 1 : K) ≠ 0) (Ac As al om T s : K)
    (h1 : s - (-al + J * om) ≠ 0) (h2 : s - (-al - J * om) ≠ 0) :
    L E (cosSin J Ac As al om T) s
      = E (-(s * T)) * ((Ac * (s + al) + As * om) / ((s + al) ^ 2 + om ^ 2)) := by
  have hJ0 : J ≠ 0 := by intro h; rw [h] at hJ; simp at hJ
  have h1' : s + al - J * om ≠ 0 := by intro h; apply h1; linear_combination h
  have h2' : s + al + J * om ≠ 0 := by intro h; apply h2; linear_combination h
  have hden : (s + al) ^ 2 + om ^ 2 = (s + al - J * om) * (s + al + J * om) := by
    linear_combination (om * om) * hJ
  rw [hden]
  simp only [cosSin, L_cons, L_nil, Term.L, pw_eq]
  rw [show s - (-al + J * om) = s + al - J * om by ring, show s - (-al - J * om) = s + al + J * om by ring]
  field_simp
  grind

/-- the conjugate-pair combination of `ratfun` has the transform of the two partial fractions it replaces
    (no conjugacy of `r, rc` is needed, only `p ≠ pc`) -/
theorem conj_pair_combine' [DecidableEq K] {J : K} (hJ : J * J = -1) (h20 : (1 + 1 : K) ≠ 0)
    (r rc p pc T s : K) (hp : p ≠ pc) (h1 : s - p ≠ 0) (h2 : s - pc ≠ 0) :
    L E (conjPair J r rc p pc T) s = E (-(s * T)) * (r / (s - p) + rc / (s - pc)) := by
  have hJ0 : J ≠ 0 := by intro h; rw [h] at hJ; simp at hJ
  have hpp : p - pc ≠ 0 := sub_ne_zero.mpr hp
  have hom : -(p - pc) / ((1 + 1) * J) ≠ 0 := by
    apply div_ne_zero (neg_ne_zero.mpr hpp) (mul_ne_zero h20 hJ0)
  have e1 : -(-(p + pc) / (1 + 1)) + J * (-(p - pc) / ((1 + 1) * J)) = pc := by field_simp; ring
  have e2 : -(-(p + pc) / (1 + 1)) - J * (-(p - pc) / ((1 + 1) * J)) = p := by field_simp; ring
  have hden : (s + -(p + pc) / (1 + 1)) ^ 2 + (-(p - pc) / ((1 + 1) * J)) ^ 2 = (s - p) * (s - pc) := by
    field_simp
    linear_combination ((p - pc) ^ 2) * hJ
  unfold conjPair
  simp only
  split
  · rename_i hb
    rw [L_cosSin E hJ h20 _ _ _ _ _ _ (by rw [e1]; exact h2) (by rw [e2]; exact h1), hden]
    congr 1
    have hrc : rc = -r := by linear_combination hb
    subst hrc
    field_simp
    ring
  · rw [L_cosSin E hJ h20 _ _ _ _ _ _ (by rw [e1]; exact h2) (by rw [e2]; exact h1), hden]
    congr 1
    field_simp
    ring

/-! ### the residue loop -/

section loop
variable [DecidableEq K]

theorem sumPF_erase (s : K) (R : List (K × K × Nat)) (x : K × K × Nat) (hx : x ∈ R) :
    sumPF R s = x.1 / pw (s - x.2.1) x.2.2 + sumPF (R.erase x) s := by
  induction R with
  | nil => simp at hx
  | cons y R ih =>
    by_cases hxy : y = x
    · subst hxy; obtain ⟨r, p, o⟩ := y; simp [sumPF]
    · have hx' : x ∈ R := by
        rcases List.mem_cons.mp hx with h | h
        · exact absurd h.symm hxy
        · exact h
      obtain ⟨r, p, o⟩ := y
      have : ((r, p, o) :: R).erase x = (r, p, o) :: R.erase x := by
        rw [List.erase_cons_tail]; simpa using hxy
      rw [this]; simp only [sumPF, ih hx']; ring

/-- the whole residue loop of `ratfun`: when the partner search only accepts first-order entries
    (`Gen.conjPartnerMustBeSimple`), its output has the transform `e^{−sT} Σ r/(s−p)^o`. -/
theorem ratfun_loop_sound' (hflag : Gen.conjPartnerMustBeSimple = true) {J : K} (hJ : J * J = -1)
    (h20 : (1 + 1 : K) ≠ 0) (conj : K → K) (T s : K) :
    ∀ (fuel : Nat) (R : List (K × K × Nat)), R.length ≤ fuel → (∀ x ∈ R, 0 < x.2.2) → (∀ x ∈ R, s - x.2.1 ≠ 0) →
      L E (ratfunLoop J conj T fuel R) s = E (-(s * T)) * sumPF R s := by
  intro fuel
  induction fuel with
  | zero =>
    intro R hl _ _
    have : R = [] := List.eq_nil_of_length_eq_zero (Nat.le_zero.mp hl)
    subst this; simp [ratfunLoop, sumPF]
  | succ fuel ih =>
    intro R hl ho hn
    cases R with
    | nil => simp [ratfunLoop, sumPF]
    | cons y R =>
      obtain ⟨r, p, o⟩ := y
      have hl' : R.length ≤ fuel := by simpa using hl
      have ho' : ∀ x ∈ R, 0 < x.2.2 := fun x hx => ho x (by simp [hx])
      have hn' : ∀ x ∈ R, s - x.2.1 ≠ 0 := fun x hx => hn x (by simp [hx])
      have hp : s - p ≠ 0 := hn (r, p, o) (by simp)
      have hop : 0 < o := ho (r, p, o) (by simp)
      simp only [ratfunLoop]
      split
      · rename_i ho1
        subst ho1
        split
        · rename_i rc pc oc hfind
          have hmem : (rc, pc, oc) ∈ R := List.mem_of_find?_eq_some hfind
          have hprop := List.find?_some hfind
          simp only [hflag, Bool.not_true, Bool.or_false, decide_eq_true_eq, Bool.and_eq_true, Bool.decide_and] at hprop
          obtain ⟨hpc, hne, hoc⟩ := hprop
          have hoc1 : oc = 1 := by rcases hoc with h | h; exact h; exact absurd h (by simp)
          subst hoc1
          have hpc' : s - pc ≠ 0 := hn' _ hmem
          rw [L_append, conj_pair_combine' E hJ h20 r rc p pc T s (Ne.symm hne) hp hpc',
            ih (R.erase (rc, pc, 1)) (by
              have := List.length_erase_of_mem hmem; omega)
              (fun x hx => ho' x (List.mem_of_mem_erase hx)) (fun x hx => hn' x (List.mem_of_mem_erase hx))]
          rw [show sumPF ((r, p, 1) :: R) s = r / pw (s - p) 1 + sumPF R s from rfl,
            sumPF_erase s R (rc, pc, 1) hmem]
          simp [pw]; ring
        · rw [L_cons, ih R hl' ho' hn']
          simp [Term.L, sumPF, pw]; ring
      · rw [L_cons, ih R hl' ho' hn']
        have : o - 1 + 1 = o := Nat.sub_add_cancel hop
        simp only [Term.L, sumPF, pw_eq, this]; ring
end loop

/-! ### causality bookkeeping -/

theorem make_guard' [DecidableEq K] (parts : List (ExpPoly K × ExpPoly K))
    (h : ∃ x ∈ parts, x.2 ≠ []) : (makeModel false parts).guarded = true := by
  obtain ⟨x, hx, hne⟩ := h
  have hu : (parts.flatMap (fun x => x.2)).isEmpty = false := by
    rw [List.isEmpty_eq_false_iff]
    intro h0
    exact hne (List.flatMap_eq_nil_iff.mp h0 x hx)
  simp [makeModel, hu]

/-- depends on the GENERATED flag `Gen.makeGuardOnlyIfNotCausal` (the `if not kwargs.get('causal', False)` around the
    Piecewise in the source of `make`): without that condition in the source this fails -/
theorem make_causal' [DecidableEq K] (parts : List (ExpPoly K × ExpPoly K)) :
    (makeModel true parts).guarded = false := by
  simp [makeModel, show Gen.makeGuardOnlyIfNotCausal = true from rfl]

theorem termModel_causal [DecidableEq K] (hasDelay : Bool) (c u : ExpPoly K) :
    (termModel true hasDelay c u).2 = [] := by
  cases hasDelay <;> simp [termModel]

end Lcapy.Laplace
