/-
  Analytic anchors: the term-wise definition of the formal transform `L` (Spec/Signal.lean) agrees
  with the defining integral  ∫_{0}^{∞} x(t) e^{−st} dt  on the basis signals.
  (Only this file imports analysis from Mathlib; first load ≈ 90 s.)
-/
import Lcapy.Spec.Signal
import Lcapy.Proofs.Laplace
import Mathlib.Analysis.SpecialFunctions.Gamma.Basic
import Mathlib.Analysis.SpecialFunctions.ImproperIntegrals
namespace Lcapy.Laplace
open Real MeasureTheory Set

/-- Laplace integral of `t^k e^{pt}` at real `s > p` (region of convergence). -/
theorem anchor_real (k : ℕ) (p s : ℝ) (h : p < s) :
    ∫ t in Ioi (0:ℝ), t ^ k * exp (p * t) * exp (-(s * t)) = (k.factorial : ℝ) / (s - p) ^ (k + 1) := by
  have hr : 0 < s - p := sub_pos.mpr h
  have key := Real.integral_rpow_mul_exp_neg_mul_Ioi (a := (k:ℝ) + 1) (r := s - p) (by positivity) hr
  have hG : Real.Gamma ((k:ℝ) + 1) = k.factorial := Real.Gamma_nat_eq_factorial k
  rw [hG] at key
  have hint : ∫ t in Ioi (0:ℝ), t ^ k * exp (p * t) * exp (-(s * t))
      = ∫ t in Ioi (0:ℝ), t ^ ((k:ℝ) + 1 - 1) * exp (-((s - p) * t)) := by
    apply setIntegral_congr_fun measurableSet_Ioi
    intro t ht
    have : (t:ℝ) ^ ((k:ℝ) + 1 - 1) = t ^ k := by
      rw [add_sub_cancel_right]; exact Real.rpow_natCast t k
    simp only [this, mul_assoc]
    congr 1
    rw [← Real.exp_add]; congr 1; ring
  rw [hint, key]
  rw [Real.rpow_add_one (by positivity : (1 / (s - p)) ≠ 0), Real.rpow_natCast]
  have hne : (s - p) ≠ 0 := hr.ne'
  field_simp
  rw [pow_succ, ← mul_assoc, ← mul_pow, one_div, inv_mul_cancel₀ hne, one_pow, one_mul]

/-- the same, stated with the formal transform: for the basis signal `t^k/k! e^{pt} u(t)`
    the integral of `x(t) e^{−st}` over `t > 0` is `L x s`. -/
theorem anchor_real_L (c : ℝ) (k : ℕ) (p s : ℝ) (h : p < s) :
    ∫ t in Ioi (0:ℝ), (c * t ^ k / (k.factorial : ℝ) * exp (p * t)) * exp (-(s * t))
      = L Real.exp [Term.ep c k p 0] s := by
  have hk : (k.factorial : ℝ) ≠ 0 := by positivity
  have hne : (s - p) ≠ 0 := (sub_pos.mpr h).ne'
  have : ∀ t : ℝ, (c * t ^ k / (k.factorial : ℝ) * exp (p * t)) * exp (-(s * t))
      = (c / (k.factorial : ℝ)) * (t ^ k * exp (p * t) * exp (-(s * t))) := by
    intro t; field_simp
  simp only [this, integral_const_mul, anchor_real k p s h]
  simp [L, Term.L, pw_eq]; field_simp

/-- complex rate, order 0: `∫_0^∞ e^{pt} e^{−st} dt = 1/(s−p)` for `Re p < Re s`. -/
theorem anchor_complex_k0 (p s : ℂ) (h : p.re < s.re) :
    ∫ t : ℝ in Ioi (0:ℝ), Complex.exp (p * t) * Complex.exp (-(s * t)) = 1 / (s - p) := by
  have ha : (p - s).re < 0 := by simp; linarith
  have key := integral_exp_mul_complex_Ioi ha 0
  have : ∀ t : ℝ, Complex.exp (p * t) * Complex.exp (-(s * t)) = Complex.exp ((p - s) * t) := by
    intro t; rw [← Complex.exp_add]; congr 1; ring
  simp only [this, key]
  have hne : s - p ≠ 0 := by
    intro h0; have := congrArg Complex.re h0; simp at this; linarith
  have hne' : p - s ≠ 0 := by
    intro h0; apply hne; rw [← neg_sub, h0, neg_zero]
  simp; field_simp; ring

end Lcapy.Laplace
