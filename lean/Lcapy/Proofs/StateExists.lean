/-
  Helper for C15 `ss_transfer` (existence half): when s is not a natural frequency the state equation
  (sI − A) X = B has a solution.  Finite-dimensional linear algebra: an injective endomorphism of Kⁿ is surjective.
-/
import Lcapy.Proofs.Realisations
import Mathlib.LinearAlgebra.FiniteDimensional.Basic
import Mathlib.Algebra.BigOperators.Fin
namespace Lcapy.StateSpace
variable {K : Type} [Field K]

theorem sumTo_eq_fin (n : Nat) (g : Nat → K) : sumTo n g = ∑ j : Fin n, g j := by
  induction n with
  | zero => simp [sumTo]
  | succ n ih => rw [Fin.sum_univ_castSucc, sumTo, ih]; simp

/-- the map v ↦ (sI − A) v on Kⁿ -/
def stateMap (sys : SS K) (s : K) : (Fin sys.n → K) →ₗ[K] (Fin sys.n → K) where
  toFun v := fun i => s * v i - ∑ j : Fin sys.n, sys.A i j * v j
  map_add' v w := by
    funext i
    simp only [Pi.add_apply, mul_add, Finset.sum_add_distrib]
    ring
  map_smul' c v := by
    funext i
    simp only [Pi.smul_apply, smul_eq_mul, RingHom.id_apply]
    have : ∀ j : Fin sys.n, sys.A i j * (c * v j) = c * (sys.A i j * v j) := fun j => by ring
    simp only [this, ← Finset.mul_sum]
    ring

def extend (n : Nat) (v : Fin n → K) : Nat → K := fun k => if h : k < n then v ⟨k, h⟩ else 0

theorem extend_row (sys : SS K) (s : K) (v : Fin sys.n → K) (i : Fin sys.n) :
    s * extend sys.n v i - sumTo sys.n (fun j => sys.A i j * extend sys.n v j) = stateMap sys s v i := by
  rw [sumTo_eq_fin]
  simp [stateMap, extend]

theorem state_exists (sys : SS K) (s : K) (hns : ¬ IsNaturalFreq sys s) : ∃ X, StateEq sys s X := by
  have hinj : Function.Injective (stateMap sys s) := by
    rw [← LinearMap.ker_eq_bot, LinearMap.ker_eq_bot']
    intro v hv
    by_contra hne
    apply hns
    obtain ⟨i, hi⟩ : ∃ i, v i ≠ 0 := by
      by_contra h; exact hne (funext fun i => by_contra fun hi => h ⟨i, hi⟩)
    refine ⟨extend sys.n v, ⟨i, i.2, by simpa [extend] using hi⟩, ?_⟩
    intro k hk
    have := extend_row sys s v ⟨k, hk⟩
    simp only at this
    rw [this, hv]; rfl
  obtain ⟨v, hv⟩ := (LinearMap.injective_iff_surjective.mp hinj) (fun i => sys.B i)
  refine ⟨extend sys.n v, fun k hk => ?_⟩
  have := extend_row sys s v ⟨k, hk⟩
  simp only [stateRow]
  simp only at this
  rw [this, hv]
end Lcapy.StateSpace
