/-
  Helper lemmas for C05, round 3: componentwise rewrites.
    * `componentwise_simulates`: per-component simulations with pairwise separated private unknowns
      compose to a simulation of the whole netlist (induction over the component list);
    * kind-independence of `Laws` for netlists without reactive components;
    * per-component simulations for `_s_model` and the killed noise model.
-/
import Lcapy.Model.RewriteCW
import Lcapy.Proofs.Rewrite
namespace Lcapy.MNA
open Ix
variable {K : Type} [Field K]

/-- one step of a componentwise rewrite: the components `orig` are replaced by `rep`; `hid` are
    the unknowns private to either side (interior nodes, branch currents that appear or vanish) -/
structure Rw (K : Type) where
  orig : List (Cpt K)
  rep : List (Cpt K)
  hid : List Ix

/-- everything is retained except the listed unknowns -/
def AllBut' (hidden : List Ix) : Ix → Prop := fun i => i ∉ hidden

/-- nothing of step `q` reads a private unknown of step `p` -/
def Rw.Sep (p q : Rw K) : Prop := SupportedIn (AllBut' p.hid) (q.orig ++ q.rep)

theorem SupportedIn_append {R : Ix → Prop} (a b : List (Cpt K)) :
    SupportedIn R (a ++ b) ↔ SupportedIn R a ∧ SupportedIn R b := by
  simp only [SupportedIn, List.mem_append]
  constructor
  · intro h; exact ⟨fun c hc => h c (Or.inl hc), fun c hc => h c (Or.inr hc)⟩
  · rintro ⟨h1, h2⟩ c (hc | hc)
    · exact h1 c hc
    · exact h2 c hc

theorem SupportedIn_mono {R R' : Ix → Prop} (h : ∀ i, R i → R' i) {a : List (Cpt K)}
    (ha : SupportedIn R a) : SupportedIn R' a := fun c hc i hi => h i (ha c hc i hi)

/-- **componentwise_simulates**: if every step is a simulation on everything but its private
    unknowns and no step reads another step's private unknowns, the rewritten netlist simulates
    the original one on everything but the private unknowns -- for netlists of any length. -/
theorem componentwise_simulates (kind : Kind) (s : K) (ps : List (Rw K))
    (h1 : ∀ p ∈ ps, Simulates kind s (AllBut' p.hid) p.orig p.rep)
    (h2 : ps.Pairwise (fun p q => p.Sep q ∧ q.Sep p)) :
    Simulates kind s (AllBut' (ps.flatMap (·.hid))) (ps.flatMap (·.orig)) (ps.flatMap (·.rep)) := by
  induction ps with
  | nil => exact Simulates.refl kind s _ []
  | cons p t ih =>
    have hp := h1 p List.mem_cons_self
    have ht := ih (fun q hq => h1 q (List.mem_cons_of_mem _ hq)) (List.pairwise_cons.mp h2).2
    have hsep := (List.pairwise_cons.mp h2).1
    simp only [List.flatMap_cons]
    -- the rest of the netlist (in either form) does not read the private unknowns of `p`
    have hrest_o : SupportedIn (AllBut' p.hid) (t.flatMap (·.orig)) := by
      intro c hc
      obtain ⟨q, hq, hcq⟩ := List.mem_flatMap.mp hc
      exact ((SupportedIn_append _ _).mp (hsep q hq).1).1 c hcq
    -- `p.rep` does not read the private unknowns of the rest
    have hp_rep : SupportedIn (AllBut' (t.flatMap (·.hid))) p.rep := by
      intro c hc i hi hmem
      obtain ⟨q, hq, hiq⟩ := List.mem_flatMap.mp hmem
      exact ((SupportedIn_append _ _).mp (hsep q hq).2).2 c hc i hi hiq
    have hsub1 : ∀ i, AllBut' (p.hid ++ t.flatMap (·.hid)) i → AllBut' p.hid i := by
      intro i hi hm; exact hi (List.mem_append_left _ hm)
    have hsub2 : ∀ i, AllBut' (p.hid ++ t.flatMap (·.hid)) i → AllBut' (t.flatMap (·.hid)) i := by
      intro i hi hm; exact hi (List.mem_append_right _ hm)
    have s1 : Simulates kind s (AllBut' p.hid) (p.orig ++ t.flatMap (·.orig)) (p.rep ++ t.flatMap (·.orig)) := by
      have := Simulates.context hp [] (t.flatMap (·.orig)) (by intro c hc; cases hc) hrest_o
      simpa using this
    have s2 : Simulates kind s (AllBut' (t.flatMap (·.hid))) (p.rep ++ t.flatMap (·.orig)) (p.rep ++ t.flatMap (·.rep)) := by
      have := Simulates.context ht p.rep [] hp_rep (by intro c hc; cases hc)
      simpa using this
    exact (s1.mono hsub1).trans (s2.mono hsub2)

/-! ### kind independence -/

/-- the component's equations do not depend on the analysis kind -/
def Cpt.kindFree : Cpt K → Bool
  | .Cap _ _ _ _ => false
  | .Ind _ _ _ _ _ _ => false
  | _ => true

theorem outflow_kindFree (k1 k2 : Kind) (s : K) (x : Ix → K) (k : Nat) (c : Cpt K) (h : c.kindFree = true) :
    outflow k1 s x k c = outflow k2 s x k c := by
  cases c <;> simp [Cpt.kindFree] at h <;> rfl

theorem laws_kindFree (k1 k2 : Kind) (s : K) (x : Ix → K) (c : Cpt K) (h : c.kindFree = true) :
    laws k1 s x c = laws k2 s x c := by
  cases c <;> simp [Cpt.kindFree] at h <;> rfl

theorem Laws_kindFree (k1 k2 : Kind) (s : K) (cs : List (Cpt K)) (h : ∀ c ∈ cs, c.kindFree = true) (x : Ix → K) :
    Laws k1 s cs x ↔ Laws k2 s cs x := by
  have hk : ∀ k, lsum (cs.map (outflow k1 s x k)) = lsum (cs.map (outflow k2 s x k)) := by
    intro k; congr 1; apply List.map_congr_left; intro c hc; exact outflow_kindFree k1 k2 s x k c (h c hc)
  simp only [Laws, hk]
  constructor
  · rintro ⟨a, b⟩; exact ⟨a, fun c hc p hp => b c hc p (by rwa [laws_kindFree k1 k2 s x c (h c hc)])⟩
  · rintro ⟨a, b⟩; exact ⟨a, fun c hc p hp => b c hc p (by rwa [← laws_kindFree k1 k2 s x c (h c hc)])⟩

/-- the component carries no initial condition (absent, not merely zero) -/
def Cpt.noIC : Cpt K → Bool
  | .Cap _ _ _ v0 => v0.isNone
  | .Ind _ _ _ _ i0 coup => i0.isNone && coup.all (fun p => p.2.2.isNone)
  | _ => true

theorem mutualIC_none (coup : List (Nat × K × Option K)) (h : coup.all (fun p => p.2.2.isNone) = true) :
    mutualIC coup = 0 := by
  induction coup with
  | nil => rfl
  | cons p t ih =>
    simp only [List.all_cons, Bool.and_eq_true] at h
    obtain ⟨a, b, c⟩ := p
    cases c with
    | some _ => simp at h
    | none =>
      simp only [mutualIC, List.map_cons, lsum, icFlux, zero_add] at ih ⊢
      exact ih h.2

/-- without initial conditions the initial-value analysis IS the zero-state Laplace analysis (phasor analysis at s = jω) -/
theorem Laws_lap_ivp_noIC (s : K) (cs : List (Cpt K)) (h : ∀ c ∈ cs, c.noIC = true) (x : Ix → K) :
    Laws .lap s cs x ↔ Laws .ivp s cs x := by
  have ho : ∀ c ∈ cs, ∀ k, outflow .lap s x k c = outflow .ivp s x k c := by
    intro c hc k
    have := h c hc
    cases c <;> try rfl
    case Cap n1 n2 cc v0 =>
      cases v0 with
      | some _ => simp [Cpt.noIC] at this
      | none => simp [outflow, capCurrent]
  have hl : ∀ c ∈ cs, laws .lap s x c = laws .ivp s x c := by
    intro c hc
    have := h c hc
    cases c <;> try rfl
    case Ind n1 n2 m l i0 coup =>
      simp only [Cpt.noIC, Bool.and_eq_true] at this
      cases i0 with
      | some _ => simp at this
      | none => simp [laws, mutualIC_none coup this.2]
  have hk : ∀ k, lsum (cs.map (outflow .lap s x k)) = lsum (cs.map (outflow .ivp s x k)) := by
    intro k; congr 1; apply List.map_congr_left; intro c hc; exact ho c hc k
  simp only [Laws, hk]
  constructor
  · rintro ⟨a, b⟩; exact ⟨a, fun c hc p hp => b c hc p (by rwa [hl c hc])⟩
  · rintro ⟨a, b⟩; exact ⟨a, fun c hc p hp => b c hc p (by rwa [← hl c hc])⟩

/-! ### a series pair Z + V on an interior node, as one two-terminal element -/

theorem lawsOf_pair (kind : Kind) (s : K) (c1 c2 : Cpt K) (x : Ix → K) :
    lawsOf kind s [c1, c2] x ↔ lawsOf kind s [c1] x ∧ lawsOf kind s [c2] x := lawsOf_cons kind s c1 [c2] x


/-- identical equations: the identity map of unknowns is a simulation -/
theorem Simulates_of_eq (kind : Kind) (s : K) (R : Ix → Prop) (a b : List (Cpt K))
    (hk : ∀ x k, kclAt kind s b x k = kclAt kind s a x k)
    (hl : ∀ x, lawsOf kind s a x → lawsOf kind s b x) : Simulates kind s R a b :=
  fun x hla hka => ⟨x, fun _ _ => rfl, hl x hla, fun k hk0 hR => by rw [hk]; exact hka k hk0 hR, fun k _ _ => hk x k⟩

/-- a resistor is the admittance 1/R (`ZR1 n1 n2 R`), in every analysis kind -/
theorem sim_R_Y (kind : Kind) (s : K) (R : Ix → Prop) (n1 n2 : Nat) (r : K) :
    Simulates kind s R [.R n1 n2 r] [.Y n1 n2 (1 / r)] ∧ Simulates kind s R [.Y n1 n2 (1 / r)] [.R n1 n2 r] := by
  constructor <;> apply Simulates_of_eq
  · intro x k; simp only [kclAt, List.map_cons, List.map_nil, lsum, outflow]; congr 2; ring
  · intro x _; simp [lawsOf, laws]
  · intro x k; simp only [kclAt, List.map_cons, List.map_nil, lsum, outflow]; congr 2; ring
  · intro x _; simp [lawsOf, laws]

/-- an admittance re-emitted as the impedance 1/Y (`ZY1 n1 n2 {1/y}`) -/
theorem sim_Y_Y (kind : Kind) (s : K) (R : Ix → Prop) (n1 n2 : Nat) (y : K) :
    Simulates kind s R [.Y n1 n2 y] [.Y n1 n2 (1 / (1 / y))] ∧ Simulates kind s R [.Y n1 n2 (1 / (1 / y))] [.Y n1 n2 y] := by
  rw [one_div_one_div]; exact ⟨Simulates.refl _ _ _ _, Simulates.refl _ _ _ _⟩

/-- a capacitor whose initial voltage is zero or absent is the admittance 1/(1/(sC)) in Laplace
    analysis with or without initial conditions -/
theorem sim_C_Y (kind : Kind) (hk : kind = .lap ∨ kind = .ivp) (s : K) (R : Ix → Prop) (n1 n2 : Nat) (c : K) (v0 : Option K)
    (h0 : icv v0 = 0) :
    Simulates kind s R [.Cap n1 n2 c v0] [.Y n1 n2 (1 / (1 / (s * c)))] ∧
    Simulates kind s R [.Y n1 n2 (1 / (1 / (s * c)))] [.Cap n1 n2 c v0] := by
  have hc : ∀ v : K, capCurrent kind s c v0 v = 1 / (1 / (s * c)) * v := by
    intro v
    rcases hk with rfl | rfl
    · simp [capCurrent]
    · rw [capCurrent_ivp, h0]; simp
  constructor <;> apply Simulates_of_eq
  · intro x k; simp only [kclAt, List.map_cons, List.map_nil, lsum, outflow, hc]
  · intro x _; simp [lawsOf, laws]
  · intro x k; simp only [kclAt, List.map_cons, List.map_nil, lsum, outflow, hc]
  · intro x _; simp [lawsOf, laws]

theorem laws_Ind_ivp (s : K) (x : Ix → K) (n1 n2 m : Nat) (l : K) (i0 : Option K) :
    laws .ivp s x (.Ind n1 n2 m l i0 []) = [(m, vd x n1 n2 - (s * l * x (br m) - l * icv i0))] := by
  cases i0 <;> simp [laws, icv, mutualDrop, mutualIC, lsum]

/-- an uncoupled inductor whose initial current contributes nothing is the admittance 1/(sL);
    its branch current disappears from the unknowns -/
theorem sim_L_Y (s : K) (n1 n2 m : Nat) (l : K) (i0 : Option K) (h0 : l * icv i0 = 0) (hsl : s * l ≠ 0) :
    Simulates .ivp s (AllBut' [br m]) [.Ind n1 n2 m l i0 []] [.Y n1 n2 (1 / (s * l))] ∧
    Simulates .ivp s (AllBut' [br m]) [.Y n1 n2 (1 / (s * l))] [.Ind n1 n2 m l i0 []] := by
  have hcancel : ∀ a : K, 1 / (s * l) * (s * l * a) = a := fun a => by rw [one_div, inv_mul_cancel_left₀ hsl]
  constructor
  · intro x hl hk
    have hlaw : vd x n1 n2 = s * l * x (br m) := by
      have := hl _ List.mem_cons_self (m, _) (by rw [laws_Ind_ivp]; exact List.mem_cons_self)
      simp only [h0] at this
      linear_combination this
    refine ⟨x, fun _ _ => rfl, by simp [lawsOf, laws], fun k hk0 hR => ?_, fun k _ _ => ?_⟩
    · have := hk k hk0 hR
      simp only [kclAt, List.map_cons, List.map_nil, lsum, outflow] at this ⊢
      rw [hlaw, hcancel]; exact this
    · simp only [kclAt, List.map_cons, List.map_nil, lsum, outflow]
      rw [hlaw, hcancel]
  · intro y _ hk
    let x : Ix → K := fun j => if j = br m then 1 / (s * l) * vd y n1 n2 else y j
    have hvd : vd x n1 n2 = vd y n1 n2 := by
      simp only [vd]
      rw [volt_of_nodes_eq (y := x) (x := y) n1 (by simp [x]), volt_of_nodes_eq (y := x) (x := y) n2 (by simp [x])]
    have hxm : x (br m) = 1 / (s * l) * vd y n1 n2 := by simp [x]
    refine ⟨x, ?_, ?_, fun k hk0 hR => ?_, fun k _ _ => ?_⟩
    · intro j hj
      have : j ≠ br m := by intro h; subst h; simp [AllBut'] at hj
      simp [x, this]
    · intro c hc p hp
      simp only [List.mem_cons, List.mem_nil_iff, or_false] at hc
      subst hc
      rw [laws_Ind_ivp] at hp
      simp only [List.mem_cons, List.mem_nil_iff, or_false] at hp
      subst hp
      simp only [h0, hvd, hxm]
      rw [show s * l * (1 / (s * l) * vd y n1 n2) = vd y n1 n2 by rw [one_div, mul_inv_cancel_left₀ hsl]]
      ring
    · have := hk k hk0 hR
      simp only [kclAt, List.map_cons, List.map_nil, lsum, outflow, hxm] at this ⊢
      exact this
    · simp only [kclAt, List.map_cons, List.map_nil, lsum, outflow, hxm]

/-! ### substitution: value maps that respect the arithmetic -/

section subs
variable {A : Type} [Add A] [Mul A] [Neg A] [Sub A] [Div A] [OfNat A 0] [OfNat A 1] [OfNat A 2]

/-- `φ` (substitute, then evaluate) respects the arithmetic of the value domain; division only
    where the image of the divisor does not vanish (evaluation of rational functions away from
    their poles; pointwise evaluation of functions of the parameters satisfies it everywhere) -/
structure ValHom (φ : A → K) : Prop where
  zero : φ 0 = 0
  two : φ 2 = 2
  add : ∀ a b, φ (a + b) = φ a + φ b
  mul : ∀ a b, φ (a * b) = φ a * φ b
  neg : ∀ a, φ (-a) = -φ a
  sub : ∀ a b, φ (a - b) = φ a - φ b
  div : ∀ a b, φ b ≠ 0 → φ (a / b) = φ a / φ b

/-- the divisions `Laws` performs on this component are respected by `φ` -/
def Cpt.divOK (φ : A → K) : Cpt A → Prop
  | .R _ _ r => φ r ≠ 0
  | .E _ _ _ _ _ _ _ => (2 : K) ≠ 0
  | _ => True

variable {φ : A → K}

theorem ValHom.volt (h : ValHom φ) (x : Ix → A) (n : Nat) : volt (fun i => φ (x i)) n = φ (volt x n) := by
  cases n <;> simp [MNA.volt, h.zero]

theorem ValHom.vd (h : ValHom φ) (x : Ix → A) (a b : Nat) : vd (fun i => φ (x i)) a b = φ (vd x a b) := by
  simp [MNA.vd, h.volt, h.sub]

theorem ValHom.twoTerm (h : ValHom φ) (n1 n2 k : Nat) (i : A) : twoTerm n1 n2 k (φ i) = φ (twoTerm n1 n2 k i) := by
  simp only [MNA.twoTerm, h.sub]
  split_ifs <;> simp [h.zero]

theorem ValHom.lsum (h : ValHom φ) (l : List A) : lsum (l.map φ) = φ (lsum l) := by
  induction l with
  | nil => simp [MNA.lsum, h.zero]
  | cons a t ih => simp [MNA.lsum, h.add, ih]

theorem ValHom.icv (h : ValHom φ) (o : Option A) : icv (o.map φ) = φ (icv o) := by
  cases o <;> simp [MNA.icv, h.zero]

theorem ValHom.capCurrent (h : ValHom φ) (kind : Kind) (s c : A) (v0 : Option A) (v : A) :
    capCurrent kind (φ s) (φ c) (v0.map φ) (φ v) = φ (capCurrent kind s c v0 v) := by
  cases kind <;> cases v0 <;> simp [MNA.capCurrent, h.zero, h.mul, h.sub]

theorem ValHom.mutualDrop (h : ValHom φ) (s : A) (x : Ix → A) (coup : List (Nat × A × Option A)) :
    mutualDrop (φ s) (fun i => φ (x i)) (coup.map (fun p => (p.1, φ p.2.1, p.2.2.map φ))) = φ (mutualDrop s x coup) := by
  simp only [MNA.mutualDrop, ← h.lsum, List.map_map]
  congr 1
  apply List.map_congr_left
  intro p _
  simp [h.mul]

theorem ValHom.mutualIC (h : ValHom φ) (coup : List (Nat × A × Option A)) :
    mutualIC (coup.map (fun p => (p.1, φ p.2.1, p.2.2.map φ))) = φ (mutualIC coup) := by
  simp only [MNA.mutualIC, ← h.lsum, List.map_map]
  congr 1
  apply List.map_congr_left
  intro p _
  obtain ⟨a, b, c⟩ := p
  cases c <;> simp [icFlux, h.mul, h.zero]

theorem ValHom.outflow (h : ValHom φ) (kind : Kind) (s : A) (x : Ix → A) (k : Nat) (c : Cpt A) (hc : c.divOK φ) :
    outflow kind (φ s) (fun i => φ (x i)) k (c.mapVal φ) = φ (outflow kind s x k c) := by
  cases c <;>
    simp only [MNA.outflow, Cpt.mapVal, h.vd, h.capCurrent, ← h.twoTerm, h.add, h.mul, h.neg, h.sub, h.zero]
  · simp only [Cpt.divOK] at hc; rw [h.div _ _ hc]

theorem ValHom.laws (h : ValHom φ) (kind : Kind) (s : A) (x : Ix → A) (c : Cpt A) (hc : c.divOK φ) :
    laws kind (φ s) (fun i => φ (x i)) (c.mapVal φ) = (laws kind s x c).map (fun p => (p.1, φ p.2)) := by
  cases c with
  | Ind n1 n2 m l i0 coup =>
    cases kind <;> cases i0 <;>
      simp [MNA.laws, Cpt.mapVal, h.vd, h.mutualDrop, h.mutualIC, h.add, h.mul, h.sub, h.zero]
  | E n1 n2 n3 n4 m a b =>
    simp only [Cpt.divOK] at hc
    have h2 : φ 2 ≠ 0 := by rw [h.two]; exact hc
    simp [MNA.laws, Cpt.mapVal, h.vd, h.volt, h.add, h.mul, h.sub, h.div _ _ h2, h.two]
  | _ => simp [MNA.laws, Cpt.mapVal, h.vd, h.volt, h.add, h.mul, h.sub, h.neg]

/-- the substituted solution solves the substituted netlist -/
theorem ValHom.Laws (h : ValHom φ) (kind : Kind) (s : A) (cs : List (Cpt A)) (x : Ix → A)
    (hc : ∀ c ∈ cs, c.divOK φ) (hx : Laws kind s cs x) :
    MNA.Laws kind (φ s) (cs.map (Cpt.mapVal φ)) (fun i => φ (x i)) := by
  constructor
  · intro k hk
    have := hx.1 k hk
    rw [List.map_map]
    have e : (cs.map ((MNA.outflow kind (φ s) (fun i => φ (x i)) k) ∘ Cpt.mapVal φ)) = (cs.map (MNA.outflow kind s x k)).map φ := by
      rw [List.map_map]
      apply List.map_congr_left
      intro c hcm
      exact h.outflow kind s x k c (hc c hcm)
    rw [e, h.lsum, this, h.zero]
  · intro c' hc' p hp
    obtain ⟨c, hcm, rfl⟩ := List.mem_map.mp hc'
    rw [h.laws kind s x c (hc c hcm)] at hp
    obtain ⟨q, hq, rfl⟩ := List.mem_map.mp hp
    simp only
    rw [hx.2 c hcm q hq, h.zero]

end subs

end Lcapy.MNA
