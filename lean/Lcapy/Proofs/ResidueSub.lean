/-
  C10-G1: the residues computed by `Ratfun._find_residues_sub` (substitution, repeated differentiation with the 1/k!
  factor) ARE the partial-fraction coefficients, for poles of any multiplicity.

  Part 1 (Mathlib polynomials `K[X]`, characteristic zero):
    * `mult_step`          R(p) = 0, D(p) ≠ 0, (X−p)^n ∣ R'D − RD'  ⇒  (X−p)^{n+1} ∣ R          (induction on n)
    * `taylor_fraction`    N ≡ D · Σ_{m<n} c_m (X−p)^m  (mod (X−p)^n),  c_m = (N/D)^{(m)}(p)/m! by the quotient rule
                           (induction on the order n, generalising the fraction)
    * `sum_principal_parts` strictly proper B over Π (X−p)^{n_p}, distinct p: B = Σ_p cof_p · T_p   (coprime factors, degrees)
  Part 2: bridge from the executable coefficient-list model (Model/ResidueSub.lean) to `K[X]`.
-/
import Lcapy.Proofs.LaplaceILT
import Lcapy.Model.ResidueSub
import Mathlib.Algebra.Polynomial.Derivative
import Mathlib.Algebra.Polynomial.Div
import Mathlib.Algebra.Polynomial.RingDivision
import Mathlib.Algebra.CharZero.Defs
import Mathlib.RingTheory.Coprime.Lemmas
import Mathlib.RingTheory.Polynomial.Basic
import Mathlib.Tactic.Ring
import Mathlib.Tactic.FieldSimp
import Mathlib.Tactic.LinearCombination
open Polynomial

namespace Lcapy.Residue
variable {K : Type} [Field K]

/-- quotient rule on (numerator, denominator) pairs -/
noncomputable def qd (g : K[X] × K[X]) : K[X] × K[X] :=
  (derivative g.1 * g.2 - g.1 * derivative g.2, g.2 * g.2)

theorem mult_step [CharZero K] (p : K) (D : K[X]) (hD : D.eval p ≠ 0) :
    ∀ (n : ℕ) (R : K[X]), R.eval p = 0 → (X - C p) ^ n ∣ derivative R * D - R * derivative D →
      (X - C p) ^ (n + 1) ∣ R := by
  intro n
  induction n with
  | zero =>
    intro R hR _
    simpa using (dvd_iff_isRoot.mpr hR)
  | succ n ih =>
    intro R hR hdiv
    obtain ⟨U, hU⟩ := ih R hR (dvd_trans (pow_dvd_pow _ (Nat.le_succ n)) hdiv)
    have key : derivative R * D - R * derivative D
        = (X - C p) ^ n * (C ((n : K) + 1) * U * D + (X - C p) * (derivative U * D - U * derivative D)) := by
      rw [hU]
      simp only [derivative_mul, derivative_pow, derivative_sub, derivative_X, derivative_C, sub_zero, mul_one]
      simp only [Nat.add_sub_cancel, Nat.cast_add, Nat.cast_one, map_add, map_natCast, map_one]
      ring
    rw [key, pow_succ] at hdiv
    have hne : (X - C p) ^ n ≠ 0 := pow_ne_zero _ (X_sub_C_ne_zero p)
    have h1 := (mul_dvd_mul_iff_left hne).mp hdiv
    have h2 : (X - C p) ∣ C ((n : K) + 1) * U * D := by
      have := (dvd_add_left (dvd_mul_right (X - C p) (derivative U * D - U * derivative D))).mp h1
      exact this
    have h3 : (C ((n : K) + 1) * U * D).eval p = 0 := dvd_iff_isRoot.mp h2
    simp only [eval_mul, eval_C] at h3
    have hn : ((n : K) + 1) ≠ 0 := by exact_mod_cast Nat.succ_ne_zero n
    have hUp : U.eval p = 0 := by
      rcases mul_eq_zero.mp h3 with h | h
      · rcases mul_eq_zero.mp h with h | h
        · exact absurd h hn
        · exact h
      · exact absurd h hD
    obtain ⟨V, hV⟩ := dvd_iff_isRoot.mpr hUp
    refine ⟨V, ?_⟩
    rw [hU, hV]; ring


/-- m-th Taylor coefficient at `p` of the fraction `g`, computed as the code does: differentiate `m` times by the
    quotient rule, substitute, divide by `m!` -/
noncomputable def tc (p : K) (g : K[X] × K[X]) (m : ℕ) : K :=
  (qd^[m] g).1.eval p / (qd^[m] g).2.eval p / (m.factorial : K)

noncomputable def taylorPoly (p : K) (g : K[X] × K[X]) (n : ℕ) : K[X] :=
  ∑ m ∈ Finset.range n, C (tc p g m) * (X - C p) ^ m

theorem tc_qd [CharZero K] (p : K) (g : K[X] × K[X]) (m : ℕ) :
    tc p (qd g) m = ((m : K) + 1) * tc p g (m + 1) := by
  have hf : ((m.factorial : ℕ) : K) ≠ 0 := by exact_mod_cast Nat.factorial_ne_zero m
  have hm : ((m : K) + 1) ≠ 0 := by exact_mod_cast Nat.succ_ne_zero m
  simp only [tc, Function.iterate_succ_apply, Nat.factorial_succ, Nat.cast_mul, Nat.cast_add, Nat.cast_one]
  field_simp

theorem derivative_taylorPoly [CharZero K] (p : K) (g : K[X] × K[X]) (n : ℕ) :
    derivative (taylorPoly p g (n + 1)) = taylorPoly p (qd g) n := by
  unfold taylorPoly
  rw [Finset.sum_range_succ', derivative_add]
  simp only [pow_zero, mul_one, derivative_C, add_zero, derivative_sum]
  apply Finset.sum_congr rfl
  intro m _
  rw [tc_qd]
  simp only [derivative_mul, derivative_C, zero_mul, zero_add, derivative_pow, derivative_sub, derivative_X,
    sub_zero, mul_one, Nat.add_sub_cancel, Nat.cast_add, Nat.cast_one, map_add, map_natCast, map_one, map_mul]
  ring

theorem eval_taylorPoly (p : K) (g : K[X] × K[X]) (n : ℕ) :
    (taylorPoly p g (n + 1)).eval p = g.1.eval p / g.2.eval p := by
  unfold taylorPoly
  rw [Finset.sum_range_succ', eval_add, eval_finsetSum]
  have : ∀ m ∈ Finset.range n, (C (tc p g (m + 1)) * (X - C p) ^ (m + 1)).eval p = 0 := by
    intro m _; simp
  rw [Finset.sum_eq_zero this]
  simp [tc]

/-- Taylor's theorem for a fraction `N/D` with `D(p) ≠ 0`, algebraic form:
    `N ≡ D · Σ_{m<n} c_m (X−p)^m  (mod (X−p)^n)` with `c_m = (N/D)^{(m)}(p)/m!`. -/
theorem taylor_fraction [CharZero K] (p : K) :
    ∀ (n : ℕ) (g : K[X] × K[X]), g.2.eval p ≠ 0 → (X - C p) ^ n ∣ g.1 - g.2 * taylorPoly p g n := by
  intro n
  induction n with
  | zero => intro g _; simp
  | succ n ih =>
    intro g hD
    have hD1 : (qd g).2.eval p ≠ 0 := by simp [qd, hD]
    have h := ih (qd g) hD1
    apply mult_step p g.2 hD n
    · rw [eval_sub, eval_mul, eval_taylorPoly]; field_simp; ring
    · have e : derivative (g.1 - g.2 * taylorPoly p g (n + 1)) * g.2 - (g.1 - g.2 * taylorPoly p g (n + 1)) * derivative g.2
          = (qd g).1 - (qd g).2 * taylorPoly p (qd g) n := by
        rw [← derivative_taylorPoly]
        simp only [qd, derivative_sub, derivative_mul]
        ring
      rw [e]; exact h


/-! ### all poles together -/

noncomputable def fac (x : K × ℕ) : K[X] := (X - C x.1) ^ x.2
noncomputable def Am (ps : List (K × ℕ)) : K[X] := (ps.map fac).prod
noncomputable def cof [DecidableEq K] (ps : List (K × ℕ)) (p : K) : K[X] := ((ps.filter (fun x => x.1 ≠ p)).map fac).prod

theorem Am_split [DecidableEq K] (ps : List (K × ℕ)) (p : K) (n : ℕ) (hm : (p, n) ∈ ps) (hnd : (ps.map Prod.fst).Nodup) :
    Am ps = cof ps p * (X - C p) ^ n := by
  induction ps with
  | nil => simp at hm
  | cons x ps ih =>
    simp only [List.map_cons, List.nodup_cons] at hnd
    rcases List.mem_cons.mp hm with h | h
    · subst h
      have hall : ps.filter (fun x => x.1 ≠ p) = ps := by
        apply List.filter_eq_self.mpr
        intro y hy
        have : y.1 ≠ p := fun e => hnd.1 (List.mem_map.mpr ⟨y, hy, e⟩)
        simpa using this
      have hdrop : ((p, n) :: ps).filter (fun x => x.1 ≠ p) = ps := by
        rw [List.filter_cons_of_neg (by simp), hall]
      simp only [Am, cof, hdrop, List.map_cons, List.prod_cons, fac]; ring
    · have hx : x.1 ≠ p := fun e => hnd.1 (List.mem_map.mpr ⟨(p, n), h, e.symm⟩)
      have := ih h hnd.2
      simp only [Am, cof, List.map_cons, List.prod_cons] at this ⊢
      rw [this, List.filter_cons_of_pos (by simpa using hx)]
      simp only [List.map_cons, List.prod_cons]; ring

theorem fac_dvd_cof [DecidableEq K] (ps : List (K × ℕ)) (p : K) (x : K × ℕ) (hx : x ∈ ps) (hne : x.1 ≠ p) :
    fac x ∣ cof ps p := by
  apply List.dvd_prod
  exact List.mem_map_of_mem (List.mem_filter.mpr ⟨hx, by simpa using hne⟩)

theorem coprime_fac (x y : K × ℕ) (h : x.1 ≠ y.1) : IsCoprime (fac x) (fac y) := by
  apply IsCoprime.pow
  apply isCoprime_X_sub_C_of_isUnit_sub
  exact (sub_ne_zero.mpr h).isUnit

theorem Am_dvd (ps : List (K × ℕ)) (hnd : (ps.map Prod.fst).Nodup) (E : K[X]) (h : ∀ x ∈ ps, fac x ∣ E) :
    Am ps ∣ E := by
  induction ps with
  | nil => simp [Am]
  | cons x ps ih =>
    simp only [List.map_cons, List.nodup_cons] at hnd
    simp only [Am, List.map_cons, List.prod_cons]
    apply IsCoprime.mul_dvd
    · have : ∀ (l : List (K × ℕ)), (∀ y ∈ l, x.1 ≠ y.1) → IsCoprime (fac x) (l.map fac).prod := by
        intro l
        induction l with
        | nil => intro _; simp [isCoprime_one_right]
        | cons y l ihl =>
          intro hl
          simp only [List.map_cons, List.prod_cons]
          exact IsCoprime.mul_right (coprime_fac x y (hl y (by simp))) (ihl (fun z hz => hl z (by simp [hz])))
      exact this ps (fun y hy e => hnd.1 (List.mem_map.mpr ⟨y, hy, e.symm⟩))
    · exact h x (by simp)
    · exact ih hnd.2 (fun y hy => h y (by simp [hy]))

theorem degree_taylorPoly_lt (p : K) (g : K[X] × K[X]) (n : ℕ) : (taylorPoly p g n).degree < n := by
  unfold taylorPoly
  apply lt_of_le_of_lt (degree_sum_le _ _)
  rw [Finset.sup_lt_iff (by exact_mod_cast WithBot.bot_lt_coe n)]
  intro m hm
  have hm' : m < n := Finset.mem_range.mp hm
  calc (C (tc p g m) * (X - C p) ^ m).degree ≤ (C (tc p g m)).degree + ((X - C p) ^ m).degree := degree_mul_le _ _
    _ ≤ 0 + (m : WithBot ℕ) := by
        apply add_le_add degree_C_le
        rw [degree_pow, degree_X_sub_C]; simp
    _ < n := by rw [zero_add]; exact_mod_cast hm'

omit [Field K] in
theorem sum_split {M : Type} [AddCommMonoid M] [DecidableEq K] (F : K × ℕ → M) (ps : List (K × ℕ)) (x : K × ℕ) (hx : x ∈ ps)
    (hnd : (ps.map Prod.fst).Nodup) :
    (ps.map F).sum = F x + (ps.map (fun y => if y.1 = x.1 then 0 else F y)).sum := by
  induction ps with
  | nil => simp at hx
  | cons z ps ih =>
    simp only [List.map_cons, List.nodup_cons] at hnd
    rcases List.mem_cons.mp hx with h | h
    · subst h
      have : ps.map (fun y => if y.1 = x.1 then 0 else F y) = ps.map F := by
        apply List.map_congr_left
        intro y hy
        have : y.1 ≠ x.1 := fun e => hnd.1 (List.mem_map.mpr ⟨y, hy, e⟩)
        simp [this]
      simp [this]
    · have hz : z.1 ≠ x.1 := fun e => hnd.1 (List.mem_map.mpr ⟨x, h, e.symm⟩)
      simp only [List.map_cons, List.sum_cons, hz, if_false]
      rw [ih h hnd.2]
      abel

/-- the global statement in `K[X]`: a strictly proper `B/Π(X−p)^n` is the sum of the principal parts whose coefficients are
    computed by repeated differentiation -/
theorem sum_principal_parts [DecidableEq K] [CharZero K] (ps : List (K × ℕ)) (hnd : (ps.map Prod.fst).Nodup) (B : K[X])
    (hdeg : B.degree < (Am ps).degree) :
    B = (ps.map (fun x => cof ps x.1 * taylorPoly x.1 (B, cof ps x.1) x.2)).sum := by
  have hmon : Am ps ≠ 0 := by
    unfold Am
    apply List.prod_ne_zero
    intro h0
    obtain ⟨x, _, hx⟩ := List.mem_map.mp h0
    exact pow_ne_zero _ (X_sub_C_ne_zero x.1) hx
  have hcof0 : ∀ x ∈ ps, (cof ps x.1).eval x.1 ≠ 0 := by
    intro x hx
    unfold cof
    rw [eval_list_prod]
    apply List.prod_ne_zero
    intro h0
    obtain ⟨y, hy, hy0⟩ := List.mem_map.mp h0
    obtain ⟨z, hz, rfl⟩ := List.mem_map.mp hy
    have hzne : z.1 ≠ x.1 := by simpa using (List.mem_filter.mp hz).2
    simp [fac, sub_eq_zero] at hy0
    exact hzne hy0.1.symm
  set F : K × ℕ → K[X] := fun x => cof ps x.1 * taylorPoly x.1 (B, cof ps x.1) x.2 with hF
  have hdiv : Am ps ∣ B - (ps.map F).sum := by
    apply Am_dvd ps hnd
    intro x hx
    have hsum : ∀ (l : List (K × ℕ)), (∀ y ∈ l, y ∈ ps) →
        fac x ∣ (l.map (fun y => if y.1 = x.1 then 0 else F y)).sum := by
      intro l
      induction l with
      | nil => intro _; simp
      | cons y l ihl =>
        intro hl
        simp only [List.map_cons, List.sum_cons]
        apply dvd_add
        · split
          · exact dvd_zero _
          · rename_i hne
            exact Dvd.dvd.mul_right (fac_dvd_cof ps y.1 x hx (fun e => hne e.symm)) _
        · exact ihl (fun z hz => hl z (by simp [hz]))
    rw [sum_split F ps x hx hnd, ← sub_sub]
    apply dvd_sub
    · exact taylor_fraction x.1 x.2 (B, cof ps x.1) (hcof0 x hx)
    · exact hsum ps (fun y hy => hy)
  have hterm : ∀ x ∈ ps, (F x).degree < (Am ps).degree := by
    intro x hx
    have hc0 : cof ps x.1 ≠ 0 := fun h0 => hcof0 x hx (by simp [h0])
    rw [Am_split ps x.1 x.2 hx hnd, hF, degree_mul, degree_mul, degree_pow, degree_X_sub_C]
    apply WithBot.add_lt_add_left (degree_ne_bot.mpr hc0)
    simpa using degree_taylorPoly_lt x.1 (B, cof ps x.1) x.2
  have hS : ∀ (l : List (K × ℕ)), (∀ y ∈ l, y ∈ ps) → ((l.map F).sum).degree < (Am ps).degree := by
    intro l
    induction l with
    | nil => intro _; simpa using bot_lt_iff_ne_bot.mpr (degree_ne_bot.mpr hmon)
    | cons y l ihl =>
      intro hl
      simp only [List.map_cons, List.sum_cons]
      exact lt_of_le_of_lt (degree_add_le _ _) (max_lt (hterm y (hl y (by simp))) (ihl (fun z hz => hl z (by simp [hz]))))
  have hlt : (B - (ps.map F).sum).degree < (Am ps).degree :=
    lt_of_le_of_lt (degree_sub_le _ _) (max_lt hdeg (hS ps (fun y hy => hy)))
  have := eq_zero_of_dvd_of_degree_lt hdiv hlt
  exact sub_eq_zero.mp this

end Lcapy.Residue

/-! ## Part 2: the coefficient-list model -/
namespace Lcapy.Laplace
open Lcapy.Residue
variable {K : Type} [Field K]

/-- coefficient list (constant term first) ↦ Mathlib polynomial -/
noncomputable def toP : Poly K → K[X]
  | [] => 0
  | a :: p => C a + X * toP p

@[simp] theorem toP_nil : toP ([] : Poly K) = 0 := rfl
@[simp] theorem toP_cons (a : K) (p : Poly K) : toP (a :: p) = C a + X * toP p := rfl

theorem eval_toP (p : Poly K) (x : K) : (toP p).eval x = Poly.eval p x := by
  induction p with
  | nil => simp
  | cons a p ih => simp [ih]

theorem toP_add (p q : Poly K) : toP (Poly.add p q) = toP p + toP q := by
  induction p generalizing q with
  | nil => simp [Poly.add]
  | cons a p ih =>
    cases q with
    | nil => simp [Poly.add]
    | cons b q => simp [Poly.add, ih]; ring

theorem toP_smul (c : K) (p : Poly K) : toP (Poly.smul c p) = C c * toP p := by
  induction p with
  | nil => simp [Poly.smul]
  | cons a p ih => simp only [Poly.smul, List.map_cons, toP_cons] at ih ⊢; rw [ih]; simp; ring

theorem toP_mul (p q : Poly K) : toP (Poly.mul p q) = toP p * toP q := by
  induction p with
  | nil => simp [Poly.mul]
  | cons a p ih => simp [Poly.mul, toP_add, toP_smul, ih]; ring

theorem toP_sub (p q : Poly K) : toP (Poly.sub p q) = toP p - toP q := by
  simp [Poly.sub, toP_add, toP_smul]; ring

theorem toP_linPow (p : K) (n : Nat) : toP (Poly.linPow p n) = (X - C p) ^ n := by
  induction n with
  | zero => simp [Poly.linPow]
  | succ n ih => simp [Poly.linPow, toP_mul, ih]; ring

theorem toP_derivAux (n : Nat) (p : Poly K) :
    toP (Poly.derivAux n p) = C (n : K) * toP p + X * derivative (toP p) := by
  induction p generalizing n with
  | nil => simp [Poly.derivAux]
  | cons a p ih =>
    simp only [Poly.derivAux, toP_cons, ih (n + 1), ofN_eq, derivative_add, derivative_C, derivative_mul,
      derivative_X, map_mul]
    push_cast
    simp only [map_add, map_one]
    ring

theorem toP_deriv (p : Poly K) : toP (Poly.deriv p) = derivative (toP p) := by
  cases p with
  | nil => simp [Poly.deriv]
  | cons a p => simp [Poly.deriv, toP_derivAux]

theorem degree_toP_lt (p : Poly K) : (toP p).degree < (p.length : WithBot ℕ) := by
  induction p with
  | nil => simp
  | cons a p ih =>
    simp only [toP_cons, List.length_cons]
    apply lt_of_le_of_lt (degree_add_le _ _)
    apply max_lt
    · exact lt_of_le_of_lt degree_C_le (by exact_mod_cast Nat.succ_pos _)
    · by_cases h0 : toP p = 0
      · simp [h0]
      · rw [degree_mul, degree_X, add_comm]
        have := WithBot.add_lt_add_right (z := (1 : WithBot ℕ)) (by simp) ih
        simpa using this

/-- the pair of a fraction -/
noncomputable def toPP (g : Poly K × Poly K) : K[X] × K[X] := (toP g.1, toP g.2)

theorem toPP_ratDiff (g : Poly K × Poly K) : toPP (ratDiff g) = qd (toPP g) := by
  simp [toPP, ratDiff, qd, toP_sub, toP_mul, toP_deriv]

theorem toPP_ratDiffN (m : Nat) (g : Poly K × Poly K) : toPP (ratDiffN m g) = qd^[m] (toPP g) := by
  induction m with
  | zero => rfl
  | succ m ih => rw [ratDiffN, toPP_ratDiff, ih, Function.iterate_succ_apply']

/-- the model's `expr^{(m)}(p)/m!` is the Taylor coefficient `tc` of Part 1 -/
theorem tc_model (p : K) (g : Poly K × Poly K) (m : Nat) :
    ratAt (ratDiffN m g) p / Gen.residueDivisor m = tc p (toPP g) m := by
  rw [tc, ← toPP_ratDiffN]
  simp [toPP, eval_toP, ratAt, Gen.residueDivisor, fact_eq]

theorem sumPF_append (R1 R2 : List (K × K × Nat)) (s : K) : sumPF (R1 ++ R2) s = sumPF R1 s + sumPF R2 s := by
  induction R1 with
  | nil => simp [sumPF]
  | cons x R1 ih => obtain ⟨r, p, o⟩ := x; simp [sumPF, ih]; ring

theorem sumPF_residuesGo (p s : K) (hs : s - p ≠ 0) (n : Nat) (g0 : Poly K × Poly K) :
    ∀ (k m : Nat), m + k ≤ n →
      sumPF (residuesGo p n k m (ratDiffN m g0)) s * (s - p) ^ n
        = ∑ i ∈ Finset.range k, tc p (toPP g0) (m + i) * (s - p) ^ (m + i) := by
  intro k
  induction k with
  | zero => intro m _; simp [residuesGo, sumPF]
  | succ k ih =>
    intro m hm
    have hmn : m ≤ n := by omega
    have hpow : (s - p) ^ n = (s - p) ^ (n - m) * (s - p) ^ m := by rw [← pow_add]; congr 1; omega
    have h1 : (s - p) ^ (n - m) ≠ 0 := pow_ne_zero _ hs
    simp only [residuesGo, sumPF, pw_eq, add_mul]
    rw [show ratDiff (ratDiffN m g0) = ratDiffN (m + 1) g0 from rfl, ih (m + 1) (by omega), Finset.sum_range_succ', tc_model]
    simp only [Nat.add_zero]
    rw [add_comm]
    congr 1
    · apply Finset.sum_congr rfl
      intro i _
      rw [show m + 1 + i = m + (i + 1) by omega]
    · rw [hpow]; field_simp

theorem toP_foldr_fac (l : List (K × Nat)) :
    toP (l.foldr (fun x acc => Poly.mul (Poly.linPow x.1 x.2) acc) [1]) = (l.map fac).prod := by
  induction l with
  | nil => simp
  | cons x l ih => simp [toP_mul, toP_linPow, ih, fac]

theorem toP_otherFactors [DecidableEq K] (poles : List (K × Nat)) (p : K) : toP (otherFactors poles p) = cof poles p := by
  unfold otherFactors cof
  exact toP_foldr_fac _

theorem degree_Am (ps : List (K × Nat)) : (Am ps).degree = ((ps.map Prod.snd).sum : ℕ) := by
  induction ps with
  | nil => simp [Am]
  | cons x ps ih =>
    simp only [Am, List.map_cons, List.prod_cons, List.sum_cons] at ih ⊢
    rw [degree_mul, ih, fac, degree_pow, degree_X_sub_C]
    push_cast
    simp

theorem eval_Am (ps : List (K × Nat)) (s : K) : (Am ps).eval s = (ps.map (fun x => (s - x.1) ^ x.2)).prod := by
  induction ps with
  | nil => simp [Am]
  | cons x ps ih => simp only [Am, List.map_cons, List.prod_cons, eval_mul] at ih ⊢; rw [ih]; simp [fac]

/-- C10-G1: `_find_residues_sub` computes the partial-fraction coefficients — all poles, any multiplicities. -/
theorem find_residues_sub_sound' [DecidableEq K] [CharZero K] (B : Poly K) (poles : List (K × Nat))
    (hnd : (poles.map Prod.fst).Nodup) (hdeg : B.length ≤ (poles.map Prod.snd).sum)
    (s : K) (hs : ∀ x ∈ poles, s - x.1 ≠ 0) :
    Poly.eval B s / (poles.map (fun x => (s - x.1) ^ x.2)).prod = sumPF (findResiduesSub B poles) s := by
  have hdeg' : (toP B).degree < (Am poles).degree := by
    rw [degree_Am]
    exact lt_of_lt_of_le (degree_toP_lt B) (by exact_mod_cast hdeg)
  have hsum := sum_principal_parts poles hnd (toP B) hdeg'
  have hev := congrArg (fun q => q.eval s) hsum
  simp only [eval_toP] at hev
  rw [← eval_Am]
  have hA0 : (Am poles).eval s ≠ 0 := by
    rw [eval_Am]
    apply List.prod_ne_zero
    intro h0
    obtain ⟨x, hx, hx0⟩ := List.mem_map.mp h0
    exact hs x hx (pow_eq_zero_iff (by
      intro hpos; rw [hpos] at hx0; simp at hx0) |>.mp hx0)
  -- each pole's block of entries against its term of the sum
  have hblock : ∀ x ∈ poles, sumPF (residuesAt B poles x.1 x.2) s
      = (cof poles x.1 * taylorPoly x.1 (toP B, cof poles x.1) x.2).eval s / (Am poles).eval s := by
    intro x hx
    have hsx := hs x hx
    have h := sumPF_residuesGo x.1 s hsx x.2 (B, otherFactors poles x.1) x.2 0 (by omega)
    simp only [Nat.zero_add, ratDiffN] at h
    have hT : (taylorPoly x.1 (toP B, cof poles x.1) x.2).eval s
        = ∑ i ∈ Finset.range x.2, tc x.1 (toPP (B, otherFactors poles x.1)) i * (s - x.1) ^ i := by
      simp [taylorPoly, eval_finsetSum, toPP, toP_otherFactors]
    rw [Am_split poles x.1 x.2 hx hnd] at hA0 ⊢
    simp only [eval_mul, eval_pow, eval_sub, eval_X, eval_C] at hA0 ⊢
    have hc : (cof poles x.1).eval s ≠ 0 := left_ne_zero_of_mul hA0
    have hp : (s - x.1) ^ x.2 ≠ 0 := right_ne_zero_of_mul hA0
    rw [hT, ← h, residuesAt]
    field_simp
  have hflat : ∀ (l : List (K × Nat)), (∀ x ∈ l, x ∈ poles) →
      sumPF (l.flatMap (fun x => residuesAt B poles x.1 x.2)) s
        = ((l.map (fun x => cof poles x.1 * taylorPoly x.1 (toP B, cof poles x.1) x.2)).sum).eval s / (Am poles).eval s := by
    intro l
    induction l with
    | nil => intro _; simp [sumPF]
    | cons x l ih =>
      intro hl
      simp only [List.flatMap_cons, sumPF_append, List.map_cons, List.sum_cons, eval_add, add_div]
      rw [hblock x (hl x (by simp)), ih (fun y hy => hl y (by simp [hy]))]
  rw [findResiduesSub, hflat poles (fun x hx => hx), ← hev]


/-- one pole, ANY cofactor `D` with `D(p) ≠ 0` (no assumption on the other poles or on properness): the `n` numbers
    computed by repeated differentiation are the principal part of `B/(D·(x−p)^n)` at `p` — what is left over,
    `W/D`, has no pole at `p`. -/
theorem residues_principal_part' [CharZero K] (B D : Poly K) (p : K) (n : Nat) (hD : Poly.eval D p ≠ 0) :
    ∃ W : K[X], ∀ s, s - p ≠ 0 → Poly.eval D s ≠ 0 →
      Poly.eval B s / (Poly.eval D s * (s - p) ^ n) = sumPF (residuesGo p n n 0 (B, D)) s + W.eval s / Poly.eval D s := by
  obtain ⟨W, hW⟩ := taylor_fraction p n (toP B, toP D) (by simpa [eval_toP] using hD)
  refine ⟨W, ?_⟩
  intro s hs hDs
  have hev := congrArg (fun q => q.eval s) hW
  simp only [eval_sub, eval_mul, eval_toP, eval_pow, eval_X, eval_C] at hev
  have h := sumPF_residuesGo p s hs n (B, D) n 0 (by omega)
  simp only [Nat.zero_add, ratDiffN] at h
  have hT : (taylorPoly p (toP B, toP D) n).eval s
      = ∑ i ∈ Finset.range n, tc p (toPP (B, D)) i * (s - p) ^ i := by
    simp [taylorPoly, eval_finsetSum, toPP]
  rw [hT, ← h] at hev
  have hp : (s - p) ^ n ≠ 0 := pow_ne_zero _ hs
  field_simp
  linear_combination hev

end Lcapy.Laplace
