/-
  Helper lemmas for C03 (Props/C03Wire.lean): a 0 V source (= wire, what `kill` leaves of a voltage
  source) between the nodes a and b is equivalent to merging node b into node a.

  With ρ = `mergeNode a b` (b ↦ a, everything else fixed), under `volt x a = volt x b`:
    * every potential is unchanged by the renaming (`volt_merge`), hence every `vd` and every law;
    * the current a component sends into the merged node a is the SUM of what it sent into a and b,
      it sends nothing into b any more, and the other nodes are untouched
      (`twoTerm_merge_*`, `outflow_merge_*`, `kcl_merge_*`);
    * `outflow` / `laws` of a component only read the branch currents listed in `branchRefs`
      (`outflow_mapNodes_congr`, `laws_mapNodes_congr`).
  The theorems `kill_V_equiv_aux` … at the end are the statements of Props/C03Wire.lean phrased with
  the definitions of this file.
-/
import Lcapy.Spec.PortRel
import Mathlib.Tactic.Ring
import Mathlib.Tactic.LinearCombination
import Mathlib.Algebra.Field.Basic
namespace Lcapy.MNA
namespace WireMerge
open Ix
variable {K : Type} [Field K]
set_option linter.unusedSimpArgs false
set_option linter.unusedTactic false
set_option linter.unreachableTactic false
set_option linter.unnecessarySeqFocus false
set_option linter.unusedVariables false

/-- node b is renamed to a -/
def mergeNode (a b : Nat) : Nat → Nat := fun k => if k = b then a else k

/-- branch indices whose current a component's outflow / laws read -/
def branchRefs : Cpt K → List Nat
  | .Ind _ _ m _ _ coup => m :: coup.map (fun p => p.1)
  | .V _ _ m _ => [m]
  | .E _ _ _ _ m _ _ => [m]
  | .F _ _ mc _ => [mc]
  | .H _ _ m mc _ => [m, mc]
  | .TF _ _ _ _ m _ => [m]
  | .GY _ _ _ _ m1 m2 _ => [m1, m2]
  | .AM _ _ m => [m]
  | .TR _ _ m _ => [m]
  | .TPA _ _ _ _ m _ _ _ _ => [m]
  | .SP _ _ _ _ m _ _ _ => [m]
  | .HY _ _ m _ _ mc _ _ _ => [m, mc]
  | .R _ _ _ => []
  | .Cap _ _ _ _ => []
  | .I _ _ _ => []
  | .G _ _ _ _ _ => []
  | .Y _ _ _ => []
  | .Open _ _ => []
  | .TPY _ _ _ _ _ _ _ _ => []

/-- `y` with node b := V(a), then branch m := the current that KCL at b asks for -/
def unmergeAsg (kind : Kind) (s : K) (cs : List (Cpt K)) (a b m : Nat) (y : Ix → K) : Ix → K :=
  fun i => if i = br m then lsum (cs.map (outflow kind s (fun j => if j = node b then volt y a else y j) b))
    else if i = node b then volt y a else y i

/-! ### potentials -/

theorem volt_of_ne_zero (x : Ix → K) (n : Nat) (h : n ≠ 0) : volt x n = x (node n) := by
  cases n with
  | zero => exact absurd rfl h
  | succ k => rfl

theorem volt_congr (x y : Ix → K) (n : Nat) (h : n ≠ 0 → x (node n) = y (node n)) : volt x n = volt y n := by
  cases n with
  | zero => rfl
  | succ k => exact h (Nat.succ_ne_zero k)

theorem mergeNode_zero {a b : Nat} (hb : b ≠ 0) : mergeNode a b 0 = 0 := by
  simp [mergeNode, Ne.symm hb]

theorem mergeNode_ne {a b : Nat} (hab : a ≠ b) (n : Nat) : mergeNode a b n ≠ b := by
  unfold mergeNode
  by_cases h : n = b
  · rw [if_pos h]; exact hab
  · rw [if_neg h]; exact h

theorem volt_merge {a b : Nat} {x : Ix → K} (hv : volt x a = volt x b) (n : Nat) :
    volt x (mergeNode a b n) = volt x n := by
  unfold mergeNode
  by_cases h : n = b
  · rw [if_pos h, h]; exact hv
  · rw [if_neg h]

theorem vd_merge {a b : Nat} {x : Ix → K} (hv : volt x a = volt x b) (n1 n2 : Nat) :
    vd x (mergeNode a b n1) (mergeNode a b n2) = vd x n1 n2 := by
  simp only [vd, volt_merge hv]

/-! ### the indicator sums -/

theorem ite_merge_a {a b : Nat} (hab : a ≠ b) (n : Nat) (i : K) :
    (if mergeNode a b n = a then i else 0) = (if n = a then i else 0) + (if n = b then i else 0) := by
  unfold mergeNode
  by_cases h1 : n = b
  · have h2 : n ≠ a := fun h => hab (h.symm.trans h1)
    simp [h1, h2, Ne.symm hab]
  · by_cases h2 : n = a <;> simp [h1, h2, hab]

theorem ite_merge_b {a b : Nat} (hab : a ≠ b) (n : Nat) (i : K) :
    (if mergeNode a b n = b then i else 0) = 0 := by
  rw [if_neg (mergeNode_ne hab n)]

theorem ite_merge_other {a b k : Nat} (hka : k ≠ a) (hkb : k ≠ b) (n : Nat) (i : K) :
    (if mergeNode a b n = k then i else 0) = (if n = k then i else 0) := by
  unfold mergeNode
  by_cases h1 : n = b
  · have h2 : ¬ n = k := fun h => hkb (h.symm.trans h1)
    rw [if_pos h1, if_neg (Ne.symm hka), if_neg h2]
  · rw [if_neg h1]

theorem twoTerm_merge_a {a b : Nat} (hab : a ≠ b) (n1 n2 : Nat) (i : K) :
    twoTerm (mergeNode a b n1) (mergeNode a b n2) a i = twoTerm n1 n2 a i + twoTerm n1 n2 b i := by
  simp only [twoTerm, ite_merge_a hab]; ring

theorem twoTerm_merge_b {a b : Nat} (hab : a ≠ b) (n1 n2 : Nat) (i : K) :
    twoTerm (mergeNode a b n1) (mergeNode a b n2) b i = 0 := by
  simp only [twoTerm, ite_merge_b hab]; ring

theorem twoTerm_merge_other {a b k : Nat} (hka : k ≠ a) (hkb : k ≠ b) (n1 n2 : Nat) (i : K) :
    twoTerm (mergeNode a b n1) (mergeNode a b n2) k i = twoTerm n1 n2 k i := by
  simp only [twoTerm, ite_merge_other hka hkb]

/-- the same with the literal ground node of `TR` and `SP` (b ≠ 0, so ground is not renamed) -/
theorem twoTerm_merge_a0 {a b : Nat} (hb : b ≠ 0) (hab : a ≠ b) (n : Nat) (i : K) :
    twoTerm (mergeNode a b n) 0 a i = twoTerm n 0 a i + twoTerm n 0 b i := by
  have h := twoTerm_merge_a hab n 0 i
  rwa [mergeNode_zero hb] at h

theorem twoTerm_merge_b0 {a b : Nat} (hb : b ≠ 0) (hab : a ≠ b) (n : Nat) (i : K) :
    twoTerm (mergeNode a b n) 0 b i = 0 := by
  have h := twoTerm_merge_b hab n 0 i
  rwa [mergeNode_zero hb] at h

theorem twoTerm_merge_other0 {a b k : Nat} (hb : b ≠ 0) (hka : k ≠ a) (hkb : k ≠ b) (n : Nat) (i : K) :
    twoTerm (mergeNode a b n) 0 k i = twoTerm n 0 k i := by
  have h := twoTerm_merge_other hka hkb n 0 i
  rwa [mergeNode_zero hb] at h

theorem twoTerm_add_cur (n1 n2 k : Nat) (i j : K) :
    twoTerm n1 n2 k (i + j) = twoTerm n1 n2 k i + twoTerm n1 n2 k j := by
  unfold twoTerm
  by_cases h1 : n1 = k <;> by_cases h2 : n2 = k <;> simp [h1, h2] <;> ring

theorem twoTerm_self (n k : Nat) (i : K) : twoTerm n n k i = 0 := by
  simp [twoTerm]

/-! ### one component -/

variable (kind : Kind) (s : K)

theorem outflow_merge_a {a b : Nat} {x : Ix → K} (hb : b ≠ 0) (hab : a ≠ b) (hv : volt x a = volt x b)
    (c : Cpt K) :
    outflow kind s x a (c.mapNodes (mergeNode a b)) = outflow kind s x a c + outflow kind s x b c := by
  cases c <;>
    simp only [Cpt.mapNodes, outflow, twoTerm_merge_a hab, twoTerm_merge_a0 hb hab, vd, volt_merge hv] <;>
    ring

theorem outflow_merge_b {a b : Nat} {x : Ix → K} (hb : b ≠ 0) (hab : a ≠ b) (c : Cpt K) :
    outflow kind s x b (c.mapNodes (mergeNode a b)) = 0 := by
  cases c <;>
    simp only [Cpt.mapNodes, outflow, twoTerm_merge_b hab, twoTerm_merge_b0 hb hab, add_zero]

theorem outflow_merge_other {a b k : Nat} {x : Ix → K} (hb : b ≠ 0) (hka : k ≠ a) (hkb : k ≠ b)
    (hv : volt x a = volt x b) (c : Cpt K) :
    outflow kind s x k (c.mapNodes (mergeNode a b)) = outflow kind s x k c := by
  cases c <;>
    simp only [Cpt.mapNodes, outflow, twoTerm_merge_other hka hkb, twoTerm_merge_other0 hb hka hkb, vd,
      volt_merge hv]

theorem laws_merge {a b : Nat} {x : Ix → K} (hv : volt x a = volt x b) (c : Cpt K) :
    laws kind s x (c.mapNodes (mergeNode a b)) = laws kind s x c := by
  cases c with
  | Ind n1 n2 m l i0 coup => cases kind <;> simp only [Cpt.mapNodes, laws, vd, volt_merge hv]
  | _ => simp only [Cpt.mapNodes, laws, vd, volt_merge hv]

/-! ### what a component reads -/

theorem mutualDrop_congr_refs (x y : Ix → K) (coup : List (Nat × K × Option K))
    (h : ∀ p ∈ coup, x (br p.1) = y (br p.1)) : mutualDrop s x coup = mutualDrop s y coup := by
  induction coup with
  | nil => rfl
  | cons p t ih =>
    have ih' := ih (fun q hq => h q (List.mem_cons_of_mem _ hq))
    simp only [mutualDrop, List.map_cons, lsum] at ih' ⊢
    rw [h p (List.mem_cons_self ..), ih']

theorem outflow_mapNodes_congr (ρ : Nat → Nat) (x y : Ix → K) (c : Cpt K)
    (hv : ∀ n, volt x (ρ n) = volt y (ρ n)) (hbr : ∀ j ∈ branchRefs c, x (br j) = y (br j)) (k : Nat) :
    outflow kind s x k (c.mapNodes ρ) = outflow kind s y k (c.mapNodes ρ) := by
  cases c <;> simp [branchRefs] at hbr <;> simp [Cpt.mapNodes, outflow, vd, hv, hbr]

theorem laws_mapNodes_congr (ρ : Nat → Nat) (x y : Ix → K) (c : Cpt K)
    (hv : ∀ n, volt x (ρ n) = volt y (ρ n)) (hbr : ∀ j ∈ branchRefs c, x (br j) = y (br j)) :
    laws kind s x (c.mapNodes ρ) = laws kind s y (c.mapNodes ρ) := by
  cases c with
  | Ind n1 n2 m l i0 coup =>
    have hm : x (br m) = y (br m) := hbr m (by simp [branchRefs])
    have hmd : mutualDrop s x coup = mutualDrop s y coup :=
      mutualDrop_congr_refs s x y coup (fun p hp => hbr p.1 (by
        simp only [branchRefs, List.mem_cons, List.mem_map]
        exact Or.inr ⟨p, hp, rfl⟩))
    cases kind <;> simp [Cpt.mapNodes, laws, vd, hv, hm, hmd]
  | _ => simp [branchRefs] at hbr <;> simp [Cpt.mapNodes, laws, vd, hv, hbr]

omit [Field K] in
theorem mapNodes_id (c : Cpt K) : c.mapNodes (fun n => n) = c := by
  cases c <;> rfl

theorem outflow_congr_refs (x y : Ix → K) (c : Cpt K)
    (hv : ∀ n, volt x n = volt y n) (hbr : ∀ j ∈ branchRefs c, x (br j) = y (br j)) (k : Nat) :
    outflow kind s x k c = outflow kind s y k c := by
  have h := outflow_mapNodes_congr kind s (fun n => n) x y c hv hbr k
  rwa [mapNodes_id] at h

theorem laws_congr_refs (x y : Ix → K) (c : Cpt K)
    (hv : ∀ n, volt x n = volt y n) (hbr : ∀ j ∈ branchRefs c, x (br j) = y (br j)) :
    laws kind s x c = laws kind s y c := by
  have h := laws_mapNodes_congr kind s (fun n => n) x y c hv hbr
  rwa [mapNodes_id] at h

/-! ### the netlist -/

theorem kcl_congr (cs : List (Cpt K)) (x y : Ix → K) (k : Nat)
    (h : ∀ c ∈ cs, outflow kind s x k c = outflow kind s y k c) :
    lsum (cs.map (outflow kind s x k)) = lsum (cs.map (outflow kind s y k)) := by
  induction cs with
  | nil => rfl
  | cons c t ih =>
    simp only [List.map_cons, lsum]
    rw [h c (List.mem_cons_self ..), ih (fun c' hc' => h c' (List.mem_cons_of_mem _ hc'))]

theorem Laws_congr (cs : List (Cpt K)) (x y : Ix → K)
    (ho : ∀ c ∈ cs, ∀ k, outflow kind s x k c = outflow kind s y k c)
    (hl : ∀ c ∈ cs, laws kind s x c = laws kind s y c) (h : Laws kind s cs x) : Laws kind s cs y := by
  refine ⟨fun k hk0 => ?_, fun c hc p hp => ?_⟩
  · rw [← kcl_congr kind s cs x y k (fun c hc => ho c hc k)]; exact h.1 k hk0
  · rw [← hl c hc] at hp; exact h.2 c hc p hp

theorem kcl_merge_a {a b : Nat} {x : Ix → K} (hb : b ≠ 0) (hab : a ≠ b) (hv : volt x a = volt x b)
    (cs : List (Cpt K)) :
    lsum ((cs.map (Cpt.mapNodes (mergeNode a b))).map (outflow kind s x a)) =
      lsum (cs.map (outflow kind s x a)) + lsum (cs.map (outflow kind s x b)) := by
  induction cs with
  | nil => simp [lsum]
  | cons c t ih => simp only [List.map_cons, lsum, ih, outflow_merge_a kind s hb hab hv]; ring

theorem kcl_merge_b {a b : Nat} {x : Ix → K} (hb : b ≠ 0) (hab : a ≠ b) (cs : List (Cpt K)) :
    lsum ((cs.map (Cpt.mapNodes (mergeNode a b))).map (outflow kind s x b)) = 0 := by
  induction cs with
  | nil => rfl
  | cons c t ih => simp only [List.map_cons, lsum, ih, outflow_merge_b kind s hb hab, add_zero]

theorem kcl_merge_other {a b k : Nat} {x : Ix → K} (hb : b ≠ 0) (hka : k ≠ a) (hkb : k ≠ b)
    (hv : volt x a = volt x b) (cs : List (Cpt K)) :
    lsum ((cs.map (Cpt.mapNodes (mergeNode a b))).map (outflow kind s x k)) =
      lsum (cs.map (outflow kind s x k)) := by
  induction cs with
  | nil => rfl
  | cons c t ih => simp only [List.map_cons, lsum, ih, outflow_merge_other kind s hb hka hkb hv]

/-- the core: any component `w` that carries a current `J` from a to b and whose laws say exactly
    V(a) = V(b) can be traded for the merge of b into a -/
theorem wire_core {a b : Nat} (cs : List (Cpt K)) (x : Ix → K) (hb : b ≠ 0) (hab : a ≠ b) (w : Cpt K) (J : K)
    (hout : ∀ k, outflow kind s x k w = twoTerm a b k J)
    (hlaw : (∀ p ∈ laws kind s x w, p.2 = 0) ↔ volt x a = volt x b) :
    Laws kind s (w :: cs) x ↔
      (volt x a = volt x b ∧ J = lsum (cs.map (outflow kind s x b)) ∧
       Laws kind s (cs.map (Cpt.mapNodes (mergeNode a b))) x) := by
  have hVb : twoTerm a b b J = -J := by simp [twoTerm, hab]
  have hVa : twoTerm a b a J = J := by simp [twoTerm, Ne.symm hab]
  have hVk : ∀ k, k ≠ a → k ≠ b → twoTerm a b k J = 0 := by
    intro k hka hkb; simp [twoTerm, Ne.symm hka, Ne.symm hkb]
  constructor
  · rintro ⟨hk, hl⟩
    have hv : volt x a = volt x b := hlaw.mp (hl w (List.mem_cons_self ..))
    have hkb := hk b hb
    simp only [List.map_cons, lsum, hout, hVb] at hkb
    refine ⟨hv, by linear_combination -hkb, ?_, ?_⟩
    · intro k hk0
      by_cases hkb' : k = b
      · rw [hkb']; exact kcl_merge_b kind s hb hab cs
      · by_cases hka : k = a
        · have hka' := hk k hk0
          rw [hka] at hka' ⊢
          simp only [List.map_cons, lsum, hout, hVa] at hka'
          rw [kcl_merge_a kind s hb hab hv]
          linear_combination hka' + hkb
        · have hkk := hk k hk0
          simp only [List.map_cons, lsum, hout, hVk k hka hkb'] at hkk
          rw [kcl_merge_other kind s hb hka hkb' hv]
          linear_combination hkk
    · intro c' hc' p hp
      obtain ⟨c, hc, rfl⟩ := List.mem_map.mp hc'
      rw [laws_merge kind s hv c] at hp
      exact hl c (List.mem_cons_of_mem _ hc) p hp
  · rintro ⟨hv, hJ, hk, hl⟩
    refine ⟨?_, ?_⟩
    · intro k hk0
      simp only [List.map_cons, lsum, hout]
      by_cases hkb : k = b
      · rw [hkb, hVb]; linear_combination -hJ
      · by_cases hka : k = a
        · have hkk := hk k hk0
          rw [hka] at hkk ⊢
          rw [kcl_merge_a kind s hb hab hv] at hkk
          rw [hVa]; linear_combination hJ + hkk
        · have hkk := hk k hk0
          rw [kcl_merge_other kind s hb hka hkb hv] at hkk
          rw [hVk k hka hkb]; linear_combination hkk
    · intro c hc p hp
      rcases List.mem_cons.mp hc with rfl | hc
      · exact hlaw.mpr hv p hp
      · rw [← laws_merge kind s hv c] at hp
        exact hl _ (List.mem_map.mpr ⟨c, hc, rfl⟩) p hp

theorem laws_V0 (x : Ix → K) (n1 n2 m : Nat) :
    (∀ p ∈ laws kind s x (Cpt.V n1 n2 m 0), p.2 = 0) ↔ volt x n1 = volt x n2 := by
  simp only [laws, List.mem_singleton, forall_eq, vd, sub_zero]
  exact sub_eq_zero

theorem twoTerm_flip (n1 n2 k : Nat) (i : K) : twoTerm n2 n1 k i = twoTerm n1 n2 k (-i) := by
  unfold twoTerm
  by_cases h1 : n1 = k <;> by_cases h2 : n2 = k <;> simp [h1, h2]

theorem kill_V_equiv_aux {a b : Nat} (m : Nat) (cs : List (Cpt K)) (x : Ix → K) (hb : b ≠ 0) (hab : a ≠ b) :
    Laws kind s (Cpt.V a b m 0 :: cs) x ↔
      (volt x a = volt x b ∧ x (br m) = lsum (cs.map (outflow kind s x b)) ∧
       Laws kind s (cs.map (Cpt.mapNodes (mergeNode a b))) x) :=
  wire_core kind s cs x hb hab (Cpt.V a b m 0) (x (br m)) (fun _ => rfl) (laws_V0 kind s x a b m)

theorem kill_V_equiv_aux' {a b : Nat} (m : Nat) (cs : List (Cpt K)) (x : Ix → K) (hb : b ≠ 0) (hab : a ≠ b) :
    Laws kind s (Cpt.V b a m 0 :: cs) x ↔
      (volt x a = volt x b ∧ x (br m) = -lsum (cs.map (outflow kind s x b)) ∧
       Laws kind s (cs.map (Cpt.mapNodes (mergeNode a b))) x) := by
  rw [wire_core kind s cs x hb hab (Cpt.V b a m 0) (-x (br m)) (fun k => twoTerm_flip a b k _)
    ((laws_V0 kind s x b a m).trans eq_comm)]
  constructor
  · rintro ⟨h1, h2, h3⟩; exact ⟨h1, by linear_combination -h2, h3⟩
  · rintro ⟨h1, h2, h3⟩; exact ⟨h1, by linear_combination -h2, h3⟩

/-! ### back from the merged netlist -/

theorem wire_merge_sound_aux {a b : Nat} (m : Nat) (cs : List (Cpt K)) (hb : b ≠ 0) (hab : a ≠ b)
    (hm : ∀ c ∈ cs, m ∉ branchRefs c) (y : Ix → K)
    (h : Laws kind s (cs.map (Cpt.mapNodes (mergeNode a b))) y) :
    Laws kind s (Cpt.V a b m 0 :: cs) (unmergeAsg kind s cs a b m y) := by
  rw [kill_V_equiv_aux kind s m cs _ hb hab]
  have hxb : volt (unmergeAsg kind s cs a b m y) b = volt y a := by
    rw [volt_of_ne_zero _ _ hb]; simp [unmergeAsg]
  have hxa : volt (unmergeAsg kind s cs a b m y) a = volt y a :=
    volt_congr _ y a (fun _ => by simp [unmergeAsg, hab])
  have hvx : ∀ n, volt (unmergeAsg kind s cs a b m y) (mergeNode a b n) = volt y (mergeNode a b n) :=
    fun n => volt_congr _ _ _ (fun _ => by
      have := mergeNode_ne hab n
      simp [unmergeAsg, this])
  have hbrx : ∀ j, j ≠ m → unmergeAsg kind s cs a b m y (br j) = y (br j) := by
    intro j hj; simp [unmergeAsg, hj]
  refine ⟨hxa.trans hxb.symm, ?_, ?_⟩
  · have h0 : unmergeAsg kind s cs a b m y (br m) =
        lsum (cs.map (outflow kind s (fun j => if j = node b then volt y a else y j) b)) := by
      simp [unmergeAsg]
    rw [h0]
    apply kcl_congr
    intro c hc
    apply outflow_congr_refs
    · intro n; apply volt_congr; intro _; simp [unmergeAsg]
    · intro j hj
      have hjm : j ≠ m := fun e => hm c hc (e ▸ hj)
      simp [unmergeAsg, hjm]
  · refine Laws_congr kind s _ y _ ?_ ?_ h
    · intro c' hc' k
      obtain ⟨c, hc, rfl⟩ := List.mem_map.mp hc'
      exact (outflow_mapNodes_congr kind s _ _ _ c hvx
        (fun j hj => hbrx j (fun e => hm c hc (e ▸ hj))) k).symm
    · intro c' hc'
      obtain ⟨c, hc, rfl⟩ := List.mem_map.mp hc'
      exact (laws_mapNodes_congr kind s _ _ _ c hvx
        (fun j hj => hbrx j (fun e => hm c hc (e ▸ hj)))).symm

theorem unmergeAsg_node (cs : List (Cpt K)) (a b m : Nat) (y : Ix → K) (k : Nat) (hk : k ≠ b) :
    unmergeAsg kind s cs a b m y (node k) = y (node k) := by
  simp [unmergeAsg, hk]

theorem unmergeAsg_br (cs : List (Cpt K)) (a b m : Nat) (y : Ix → K) (k : Nat) (hk : k ≠ m) :
    unmergeAsg kind s cs a b m y (br k) = y (br k) := by
  simp [unmergeAsg, hk]

theorem wire_current_unique_aux {a b : Nat} (m : Nat) (cs : List (Cpt K)) (hb : b ≠ 0) (hab : a ≠ b)
    (hm : ∀ c ∈ cs, m ∉ branchRefs c) (x x' : Ix → K)
    (hx : Laws kind s (Cpt.V a b m 0 :: cs) x) (hx' : Laws kind s (Cpt.V a b m 0 :: cs) x')
    (hagree : ∀ i, i ≠ br m → x i = x' i) : x (br m) = x' (br m) := by
  rw [((kill_V_equiv_aux kind s m cs x hb hab).mp hx).2.1, ((kill_V_equiv_aux kind s m cs x' hb hab).mp hx').2.1]
  apply kcl_congr
  intro c hc
  apply outflow_congr_refs
  · intro n; apply volt_congr; intro _; exact hagree _ (by simp)
  · intro j hj
    exact hagree _ (fun e => hm c hc (by rw [← Ix.br.inj e]; exact hj))

/-! ### loops of wires -/

theorem twoTerm_circ (n1 n2 k : Nat) (i j d : K) :
    twoTerm n1 n2 k (i + d) + twoTerm n1 n2 k (j - d) = twoTerm n1 n2 k i + twoTerm n1 n2 k j := by
  unfold twoTerm
  by_cases h1 : n1 = k <;> by_cases h2 : n2 = k <;> simp [h1, h2] <;> ring

theorem parallel_wires_aux {a b : Nat} (m m' : Nat) (cs : List (Cpt K)) (x : Ix → K) (hmm : m ≠ m')
    (hm : ∀ c ∈ cs, m ∉ branchRefs c) (hm' : ∀ c ∈ cs, m' ∉ branchRefs c) (d : K)
    (h : Laws kind s (Cpt.V a b m 0 :: Cpt.V a b m' 0 :: cs) x) :
    Laws kind s (Cpt.V a b m 0 :: Cpt.V a b m' 0 :: cs)
      (fun i => if i = br m then x i + d else if i = br m' then x i - d else x i) := by
  have hvolt : ∀ n, volt (fun i => if i = br m then x i + d else if i = br m' then x i - d else x i) n = volt x n :=
    fun n => volt_congr _ _ _ (fun _ => by simp)
  have hbr : ∀ c ∈ cs, ∀ j ∈ branchRefs c,
      (fun i => if i = br m then x i + d else if i = br m' then x i - d else x i) (br j) = x (br j) := by
    intro c hc j hj
    have h1 : j ≠ m := fun e => hm c hc (e ▸ hj)
    have h2 : j ≠ m' := fun e => hm' c hc (e ▸ hj)
    simp [h1, h2]
  obtain ⟨hk, hl⟩ := h
  refine ⟨fun k hk0 => ?_, fun c hc p hp => ?_⟩
  · have hkk := hk k hk0
    simp only [List.map_cons, lsum, outflow] at hkk ⊢
    rw [kcl_congr kind s cs _ x k (fun c hc => outflow_congr_refs kind s _ x c hvolt (hbr c hc) k)]
    have e2 : ¬ (br m' : Ix) = br m := fun e => hmm (Ix.br.inj e).symm
    simp only [if_true, if_neg e2]
    linear_combination hkk + twoTerm_circ a b k (x (br m)) (x (br m')) d
  · rcases List.mem_cons.mp hc with rfl | hc
    · have := hl _ (List.mem_cons_self ..) p
      simp only [laws, vd, hvolt] at hp this
      exact this hp
    · rcases List.mem_cons.mp hc with rfl | hc
      · have := hl _ (List.mem_cons_of_mem _ (List.mem_cons_self ..)) p
        simp only [laws, vd, hvolt] at hp this
        exact this hp
      · rw [laws_congr_refs kind s _ x c hvolt (hbr c hc)] at hp
        exact hl c (List.mem_cons_of_mem _ (List.mem_cons_of_mem _ hc)) p hp

theorem self_loop_aux {a : Nat} (m : Nat) (cs : List (Cpt K)) (x : Ix → K)
    (hm : ∀ c ∈ cs, m ∉ branchRefs c) (J : K) (h : Laws kind s (Cpt.V a a m 0 :: cs) x) :
    Laws kind s (Cpt.V a a m 0 :: cs) (fun i => if i = br m then J else x i) := by
  have hvolt : ∀ n, volt (fun i => if i = br m then J else x i) n = volt x n :=
    fun n => volt_congr _ _ _ (fun _ => by simp)
  have hbr : ∀ c ∈ cs, ∀ j ∈ branchRefs c, (fun i => if i = br m then J else x i) (br j) = x (br j) := by
    intro c hc j hj
    have h1 : j ≠ m := fun e => hm c hc (e ▸ hj)
    simp [h1]
  obtain ⟨hk, hl⟩ := h
  refine ⟨fun k hk0 => ?_, fun c hc p hp => ?_⟩
  · have hkk := hk k hk0
    simp only [List.map_cons, lsum, outflow, twoTerm_self] at hkk ⊢
    rw [kcl_congr kind s cs _ x k (fun c hc => outflow_congr_refs kind s _ x c hvolt (hbr c hc) k)]
    exact hkk
  · rcases List.mem_cons.mp hc with rfl | hc
    · have := hl _ (List.mem_cons_self ..) p
      simp only [laws, vd, hvolt] at hp this
      exact this hp
    · rw [laws_congr_refs kind s _ x c hvolt (hbr c hc)] at hp
      exact hl c (List.mem_cons_of_mem _ hc) p hp

end WireMerge
end Lcapy.MNA
