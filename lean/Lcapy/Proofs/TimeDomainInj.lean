/-
  C02 — injectivity of the formal unilateral Laplace transform on normal forms.

  A formal signal whose transform vanishes at all but finitely many points of an infinite field has the empty normal
  form (`FormalZero`): the functions  1/(s−p)^{k+1}  (distinct (p,k)) and  s^n  are linearly independent.

  Route.  For a pole `p0` and a bound `m` on the orders at `p0`, `hNum p0 m f` and `dOther p0 f` are polynomials with

        eval s (hNum f) · e(s)  =  eval s (dOther f) · (s − p0)^m · L E f s          (s regular, `hNum_eval`)
        eval p0 (hNum f)        =  eval p0 (dOther f) · (coefficient of f on t^{m−1} e^{p0 t}/(m−1)!)   (`hNum_eval_p0`)
        eval p0 (dOther f) ≠ 0

  (`dOther` = product of the denominators at the OTHER poles; the list need not be in normal form — like terms are
  summed by `coefOf`).  If `L E f` vanishes off a finite set then `hNum f` has infinitely many roots, so it is the zero
  polynomial (`Polynomial.eq_zero_of_infinite_isRoot`) and evaluation at `p0` gives that the top coefficient is 0
  (`top_coef_zero`).  Removing that class of terms lowers the bound: induction on `m` (`ep_coefs_zero`).  Once every
  exponential-polynomial coefficient is 0 the impulsive part  Σ c·s^n  is a polynomial with infinitely many roots
  (`dl_coefs_zero`).  All coefficients 0 ⇒ the normal form is empty (`formalZero_of_coefOf`).

  Delays.  The above is for signals whose terms carry ONE delay `d0` (the common factor e(s) = E(−s·d0) ≠ 0 is divided
  out); for `d0 = 0` these are the responses of lumped circuits without delayed sources.  For several delays the
  factors e^{−s d} are treated as independent indeterminates: `LW w f s` is the transform with e^{−s d} replaced by the
  value `w d`, and vanishing for EVERY assignment `w` gives `FormalZero` (`formalZero_of_LW`).  That the real exponential
  has this independence (`DelayIndep Real.exp`) is proved in Proofs/TimeDomainInjReal.lean.
-/
import Lcapy.Proofs.TimeDomain
import Mathlib.Algebra.Polynomial.Roots
import Mathlib.Algebra.Polynomial.Eval.Degree
namespace Lcapy.TD
open Lcapy.MNA Lcapy.Laplace Polynomial

section inj
variable {K : Type} [Field K] [DecidableEq K]

/-- every term of `f` carries the delay `d0` -/
def AllDelay (d0 : K) (f : ExpPoly K) : Prop := ∀ t ∈ f, t.delayOf = d0

/-- the orders (k+1) of the terms of `f` at the pole `p0` are at most `m` -/
def OrdLe (p0 : K) (m : Nat) (f : ExpPoly K) : Prop :=
  ∀ t ∈ f, match t with
    | .ep _ k p _ => p = p0 → k + 1 ≤ m
    | .dl _ _ _ => True

/-- the poles of `f` -/
def polesOf : ExpPoly K → List K
  | [] => []
  | .ep _ _ p _ :: f => p :: polesOf f
  | .dl _ _ _ :: f => polesOf f

theorem nonPole_of_not_mem {f : ExpPoly K} {s : K} (h : s ∉ polesOf f) : NonPole f s := by
  induction f with
  | nil => intro t ht; simp at ht
  | cons t f ih =>
    intro u hu
    rcases List.mem_cons.mp hu with rfl | hu'
    · cases u with
      | ep c k p d =>
        simp only [polesOf, List.mem_cons, not_or] at h
        exact sub_ne_zero.mpr h.1
      | dl c n d => trivial
    · cases t with
      | ep c k p d =>
        simp only [polesOf, List.mem_cons, not_or] at h
        exact ih h.2 u hu'
      | dl c n d => exact ih h u hu'

/-! ### polynomials that clear the denominators -/

/-- denominator of a term, poles at `p0` excluded -/
noncomputable def tDen (p0 : K) : Term K → K[X]
  | .ep _ k p _ => if p = p0 then 1 else (X - C p) ^ (k + 1)
  | .dl _ _ _ => 1

/-- numerator of `(s − p0)^m · (term)` over `tDen` -/
noncomputable def tNum (p0 : K) (m : Nat) : Term K → K[X]
  | .ep c k p _ => if p = p0 then C c * (X - C p0) ^ (m - (k + 1)) else C c * (X - C p0) ^ m
  | .dl c n _ => C c * X ^ n * (X - C p0) ^ m

/-- product of the denominators at the poles other than `p0` -/
noncomputable def dOther (p0 : K) : ExpPoly K → K[X]
  | [] => 1
  | t :: f => tDen p0 t * dOther p0 f

/-- numerator of `(s − p0)^m · L f` over `dOther` -/
noncomputable def hNum (p0 : K) (m : Nat) : ExpPoly K → K[X]
  | [] => 0
  | t :: f => tNum p0 m t * dOther p0 f + tDen p0 t * hNum p0 m f

variable (E : K → K)

theorem tNum_eval (p0 d0 : K) (m : Nat) (t : Term K) (s : K) (hd : t.delayOf = d0) (ho : OrdLe p0 m [t])
    (hs : NonPole [t] s) (hp : s - p0 ≠ 0) :
    (tNum p0 m t).eval s * E (-(s * d0)) = (tDen p0 t).eval s * (s - p0) ^ m * t.L E s := by
  cases t with
  | ep c k p d =>
    have hd' : d = d0 := hd
    subst hd'
    have hsp : s - p ≠ 0 := hs (.ep c k p d) (by simp)
    by_cases h : p = p0
    · subst h
      have hk : k + 1 ≤ m := ho (.ep c k p d) (by simp) rfl
      obtain ⟨j, rfl⟩ := Nat.exists_eq_add_of_le hk
      simp only [tNum, tDen, if_true, Term.L, pw_eq, eval_mul, eval_C, eval_pow, eval_sub, eval_X, eval_one,
        Nat.add_sub_cancel_left]
      field_simp
      ring
    · simp only [tNum, tDen, h, if_false, Term.L, pw_eq, eval_mul, eval_C, eval_pow, eval_sub, eval_X]
      field_simp
  | dl c n d =>
    have hd' : d = d0 := hd
    subst hd'
    simp only [tNum, tDen, Term.L, pw_eq, eval_mul, eval_C, eval_pow, eval_sub, eval_X, eval_one]
    ring

theorem OrdLe.cons {p0 : K} {m : Nat} {t : Term K} {f : ExpPoly K} (h : OrdLe p0 m (t :: f)) :
    OrdLe p0 m [t] ∧ OrdLe p0 m f := by
  constructor
  · intro x hx; simp at hx; subst hx; exact h _ (by simp)
  · intro x hx; exact h x (by simp [hx])

theorem AllDelay.cons {d0 : K} {t : Term K} {f : ExpPoly K} (h : AllDelay d0 (t :: f)) :
    t.delayOf = d0 ∧ AllDelay d0 f :=
  ⟨h _ (by simp), fun x hx => h x (by simp [hx])⟩

/-- `hNum / dOther` is `(s − p0)^m · L f` at every regular point -/
theorem hNum_eval (p0 d0 : K) (m : Nat) (f : ExpPoly K) (s : K) (hd : AllDelay d0 f) (ho : OrdLe p0 m f)
    (hs : NonPole f s) (hp : s - p0 ≠ 0) :
    (hNum p0 m f).eval s * E (-(s * d0)) = (dOther p0 f).eval s * (s - p0) ^ m * L E f s := by
  induction f with
  | nil => simp [hNum, dOther]
  | cons t f ih =>
    have h1 := tNum_eval E p0 d0 m t s hd.cons.1 ho.cons.1 hs.cons.1 hp
    have h2 := ih hd.cons.2 ho.cons.2 hs.cons.2
    simp only [hNum, dOther, eval_add, eval_mul, L_cons]
    linear_combination (dOther p0 f).eval s * h1 + (tDen p0 t).eval s * h2

theorem tDen_eval_p0 (p0 : K) (t : Term K) : (tDen p0 t).eval p0 ≠ 0 := by
  cases t with
  | ep c k p d =>
    by_cases h : p = p0
    · simp [tDen, h]
    · simp only [tDen, h, if_false, eval_pow, eval_sub, eval_X, eval_C]
      exact pow_ne_zero _ (sub_ne_zero.mpr (fun e => h e.symm))
  | dl c n d => simp [tDen]

theorem dOther_eval_p0 (p0 : K) (f : ExpPoly K) : (dOther p0 f).eval p0 ≠ 0 := by
  induction f with
  | nil => simp [dOther]
  | cons t f ih => simp only [dOther, eval_mul]; exact mul_ne_zero (tDen_eval_p0 p0 t) ih

theorem tNum_eval_p0 (p0 d0 : K) (k : Nat) (t : Term K) (hd : t.delayOf = d0) (ho : OrdLe p0 (k + 1) [t]) :
    (tNum p0 (k + 1) t).eval p0
      = (tDen p0 t).eval p0 * (if sameKey (.ep 0 k p0 d0) t then t.coef else 0) := by
  cases t with
  | ep c k' p d =>
    have hd' : d = d0 := hd
    subst hd'
    by_cases h : p = p0
    · subst h
      have hk : k' + 1 ≤ k + 1 := ho (.ep c k' p d) (by simp) rfl
      by_cases hkk : k = k'
      · subst hkk
        simp [tNum, tDen, sameKey, Term.coef]
      · have : k - k' ≠ 0 := by omega
        simp [tNum, tDen, sameKey, hkk, this]
    · have h' : ¬ p0 = p := fun e => h e.symm
      simp [tNum, tDen, sameKey, h, h']
  | dl c n d => simp [tNum, tDen, sameKey]

/-- at `p0` only the terms of top order survive -/
theorem hNum_eval_p0 (p0 d0 : K) (k : Nat) (f : ExpPoly K) (hd : AllDelay d0 f) (ho : OrdLe p0 (k + 1) f) :
    (hNum p0 (k + 1) f).eval p0 = (dOther p0 f).eval p0 * coefOf (.ep 0 k p0 d0) f := by
  induction f with
  | nil => simp [hNum, coefOf]
  | cons t f ih =>
    have h1 := tNum_eval_p0 p0 d0 k t hd.cons.1 ho.cons.1
    have h2 := ih hd.cons.2 ho.cons.2
    simp only [hNum, dOther, eval_add, eval_mul, coefOf, h1, h2]
    split_ifs <;> ring

/-- a polynomial that vanishes off a finite set of an infinite field is zero -/
theorem poly_zero_of_cofinite [Infinite K] (P : K[X]) (bad : Finset K) (h : ∀ s, s ∉ bad → P.eval s = 0) : P = 0 := by
  apply Polynomial.eq_zero_of_infinite_isRoot
  have hfin : (↑bad : Set K).Finite := bad.finite_toSet
  refine hfin.infinite_compl.mono ?_
  intro s hs
  exact h s (by simpa using hs)

/-- **top coefficient**: if `L E f` vanishes off a finite set and `k+1` bounds the orders at `p0`, then the
    coefficient of `f` on `t^k e^{p0 t}/k!` (delay `d0`) is zero -/
theorem top_coef_zero [Infinite K] (p0 d0 : K) (k : Nat) (f : ExpPoly K) (hd : AllDelay d0 f)
    (ho : OrdLe p0 (k + 1) f) (hE : ∀ s, E (-(s * d0)) ≠ 0) (bad : Finset K) (hz : ∀ s, s ∉ bad → L E f s = 0) :
    coefOf (.ep 0 k p0 d0) f = 0 := by
  have hP : hNum p0 (k + 1) f = 0 := by
    apply poly_zero_of_cofinite _ (bad ∪ (polesOf f).toFinset ∪ {p0})
    intro s hs
    simp only [Finset.mem_union, List.mem_toFinset, Finset.mem_singleton, not_or] at hs
    obtain ⟨⟨hb, hpole⟩, hp0⟩ := hs
    have := hNum_eval E p0 d0 (k + 1) f s hd ho (nonPole_of_not_mem hpole) (sub_ne_zero.mpr hp0)
    rw [hz s hb, mul_zero] at this
    exact (mul_eq_zero.mp this).resolve_right (hE s)
  have := hNum_eval_p0 p0 d0 k f hd ho
  rw [hP, eval_zero] at this
  exact (mul_eq_zero.mp this.symm).resolve_left (dOther_eval_p0 p0 f)

theorem coefOf_eq_zero_of_noKey (κ : Term K) (f : ExpPoly K) (h : ∀ t ∈ f, sameKey κ t = false) : coefOf κ f = 0 := by
  induction f with
  | nil => rfl
  | cons t f ih =>
    simp only [coefOf, h t (by simp)]
    exact ih (fun u hu => h u (by simp [hu]))

theorem L_filter_sameKey_zero (κ : Term K) (f : ExpPoly K) (h : coefOf κ f = 0) (s : K) :
    L E (f.filter (fun u => !sameKey κ u)) s = L E f s := by
  have := L_split E κ f s
  rw [h, zero_mul, zero_add] at this
  exact this.symm

theorem exists_ordLe (p0 : K) (f : ExpPoly K) : ∃ m, OrdLe p0 m f := by
  induction f with
  | nil => exact ⟨0, fun t ht => by simp at ht⟩
  | cons t f ih =>
    obtain ⟨m, hm⟩ := ih
    cases t with
    | ep c k p d =>
      refine ⟨max m (k + 1), ?_⟩
      intro u hu
      rcases List.mem_cons.mp hu with rfl | hu
      · intro _; exact le_max_right _ _
      · have := hm u hu
        cases u with
        | ep c' k' p' d' => intro e; exact le_trans (this e) (le_max_left _ _)
        | dl _ _ _ => trivial
    | dl c n d =>
      refine ⟨m, ?_⟩
      intro u hu
      rcases List.mem_cons.mp hu with rfl | hu
      · trivial
      · exact hm u hu

/-- **all exponential-polynomial coefficients at one pole vanish** (induction on the order bound) -/
theorem ep_coefs_zero [Infinite K] (p0 d0 : K) (hE : ∀ s, E (-(s * d0)) ≠ 0) :
    ∀ (m : Nat) (f : ExpPoly K), AllDelay d0 f → OrdLe p0 m f →
      ∀ bad : Finset K, (∀ s, s ∉ bad → L E f s = 0) → ∀ k, coefOf (.ep 0 k p0 d0) f = 0 := by
  intro m
  induction m with
  | zero =>
    intro f _ ho bad _ k
    apply coefOf_eq_zero_of_noKey
    intro t ht
    cases t with
    | ep c k' p d =>
      have := ho _ ht
      simp only at this
      by_cases hp : p0 = p
      · exact absurd (this hp.symm) (by omega)
      · simp [sameKey, hp]
    | dl c n d => rfl
  | succ m ih =>
    intro f hd ho bad hz k
    have htop := top_coef_zero E p0 d0 m f hd ho hE bad hz
    by_cases hk : k = m
    · subst hk; exact htop
    · -- remove the (cancelled) top class and use the induction hypothesis
      have hd' : AllDelay d0 (f.filter (fun u => !sameKey (.ep 0 m p0 d0) u)) :=
        fun t ht => hd t (List.mem_of_mem_filter ht)
      have ho' : OrdLe p0 m (f.filter (fun u => !sameKey (.ep 0 m p0 d0) u)) := by
        intro t ht
        have hmem := List.mem_of_mem_filter ht
        have hnk : sameKey (.ep 0 m p0 d0) t = false := by
          have := (List.mem_filter.mp ht).2
          simpa using this
        cases t with
        | ep c k' p d =>
          intro hp
          have hle : k' + 1 ≤ m + 1 := ho _ hmem hp
          have hdel : d = d0 := hd _ hmem
          have : m ≠ k' := by
            intro e
            subst e hp hdel
            simp [sameKey] at hnk
          omega
        | dl _ _ _ => trivial
      have hz' : ∀ s, s ∉ bad → L E (f.filter (fun u => !sameKey (.ep 0 m p0 d0) u)) s = 0 := by
        intro s hs
        rw [L_filter_sameKey_zero E _ f htop s]
        exact hz s hs
      have := ih _ hd' ho' bad hz' k
      rw [coefOf_filter_ne] at this
      · exact this
      · simp [sameKey, hk]

/-! ### all coefficients zero ⇒ empty normal form -/

theorem normalForm_of_coefOf : ∀ (fuel : Nat) (f : ExpPoly K), (∀ κ, coefOf κ f = 0) → normalForm fuel f = [] := by
  intro fuel
  induction fuel with
  | zero => intro f _; cases f <;> rfl
  | succ fuel ih =>
    intro f h
    cases f with
    | nil => rfl
    | cons t f =>
      simp only [normalForm, h t, if_true]
      apply ih
      intro κ
      by_cases hk : sameKey κ t = true
      · exact coefOf_filter_eq κ t hk f
      · simp only [Bool.not_eq_true] at hk
        rw [coefOf_filter_ne κ t hk f]
        have := h κ
        simpa [coefOf, hk] using this

theorem formalZero_of_coefOf {f : ExpPoly K} (h : ∀ κ, coefOf κ f = 0) : FormalZero f :=
  normalForm_of_coefOf _ f h

theorem formalZero_iff_coefOf {f : ExpPoly K} : FormalZero f ↔ ∀ κ, coefOf κ f = 0 :=
  ⟨fun h κ => coefOf_of_formalZero h κ, formalZero_of_coefOf⟩

/-! ### the impulsive part -/

def isEp : Term K → Bool
  | .ep _ _ _ _ => true
  | .dl _ _ _ => false

theorem L_filter_split (q : Term K → Bool) (f : ExpPoly K) (s : K) :
    L E f s = L E (f.filter q) s + L E (f.filter (fun t => !q t)) s := by
  induction f with
  | nil => simp
  | cons t f ih =>
    by_cases h : q t = true
    · simp [List.filter, h, ih]; ring
    · simp only [Bool.not_eq_true] at h
      simp [List.filter, h, ih]; ring

theorem coefOf_filter_isEp (κ : Term K) (f : ExpPoly K) :
    coefOf κ (f.filter isEp) = if isEp κ then coefOf κ f else 0 := by
  induction f with
  | nil => simp [coefOf]
  | cons t f ih =>
    cases t <;> cases κ <;> simp [List.filter, isEp, coefOf, sameKey, ih] at ih ⊢ <;> simp [ih]

theorem coefOf_filter_isDl (κ : Term K) (f : ExpPoly K) :
    coefOf κ (f.filter (fun t => !isEp t)) = if isEp κ then 0 else coefOf κ f := by
  induction f with
  | nil => simp [coefOf]
  | cons t f ih =>
    cases t <;> cases κ <;> simp [List.filter, isEp, coefOf, sameKey, ih] at ih ⊢ <;> simp [ih]

/-- the polynomial  Σ c·X^n  of a purely impulsive signal -/
noncomputable def dlPoly : ExpPoly K → K[X]
  | [] => 0
  | .dl c n _ :: f => C c * X ^ n + dlPoly f
  | .ep _ _ _ _ :: f => dlPoly f

theorem dlPoly_eval (d0 : K) (f : ExpPoly K) (hd : AllDelay d0 f) (hdl : ∀ t ∈ f, isEp t = false) (s : K) :
    L E f s = (dlPoly f).eval s * E (-(s * d0)) := by
  induction f with
  | nil => simp [dlPoly]
  | cons t f ih =>
    have ih' := ih hd.cons.2 (fun u hu => hdl u (by simp [hu]))
    cases t with
    | ep c k p d => exact absurd (hdl (.ep c k p d) (by simp)) (by simp [isEp])
    | dl c n d =>
      have : d = d0 := hd.cons.1
      subst this
      simp only [L_cons, Term.L, pw_eq, dlPoly, eval_add, eval_mul, eval_C, eval_pow, eval_X, ih']
      ring

theorem dlPoly_coeff (d0 : K) (f : ExpPoly K) (hd : AllDelay d0 f) (n : Nat) :
    (dlPoly f).coeff n = coefOf (.dl 0 n d0) f := by
  induction f with
  | nil => simp [dlPoly, coefOf]
  | cons t f ih =>
    have ih' := ih hd.cons.2
    cases t with
    | ep c k p d => simp [dlPoly, coefOf, sameKey, ih']
    | dl c n' d =>
      have : d = d0 := hd.cons.1
      subst this
      simp only [dlPoly, coeff_add, coeff_C_mul, coeff_X_pow, ih', coefOf, sameKey, Term.coef]
      by_cases h : n = n' <;> simp [h]

/-- **the coefficients of the impulsive part vanish** once those of the exponential-polynomial part do -/
theorem dl_coefs_zero [Infinite K] (d0 : K) (f : ExpPoly K) (hd : AllDelay d0 f) (hE : ∀ s, E (-(s * d0)) ≠ 0)
    (hep : ∀ κ, isEp κ = true → coefOf κ f = 0) (bad : Finset K) (hz : ∀ s, s ∉ bad → L E f s = 0) (n : Nat) :
    coefOf (.dl 0 n d0) f = 0 := by
  have hfe : FormalZero (f.filter isEp) := by
    apply formalZero_of_coefOf
    intro κ
    rw [coefOf_filter_isEp]
    split_ifs with h
    · exact hep κ h
    · rfl
  have hd' : AllDelay d0 (f.filter (fun t => !isEp t)) := fun t ht => hd t (List.mem_of_mem_filter ht)
  have hdl : ∀ t ∈ f.filter (fun t => !isEp t), isEp t = false := by
    intro t ht
    have := (List.mem_filter.mp ht).2
    simpa using this
  have hP : dlPoly (f.filter (fun t => !isEp t)) = 0 := by
    apply poly_zero_of_cofinite _ bad
    intro s hs
    have h1 := L_filter_split E isEp f s
    rw [hz s hs, L_of_formalZero E hfe s, zero_add, dlPoly_eval E d0 _ hd' hdl s] at h1
    exact (mul_eq_zero.mp h1.symm).resolve_right (hE s)
  have := dlPoly_coeff d0 _ hd' n
  rw [hP, coeff_zero, coefOf_filter_isDl] at this
  simpa [isEp] using this.symm

/-! ### injectivity for signals with one delay -/

/-- **injectivity, one delay**: a signal whose terms all carry the delay `d0` and whose transform vanishes off a finite
    set is formally zero.  (`d0 = 0`: lumped circuits without delayed sources.) -/
theorem formalZero_of_L_zero [Infinite K] (d0 : K) (f : ExpPoly K) (hd : AllDelay d0 f)
    (hE : ∀ s, E (-(s * d0)) ≠ 0) (bad : Finset K) (hz : ∀ s, s ∉ bad → L E f s = 0) : FormalZero f := by
  have hep : ∀ κ, isEp κ = true → coefOf κ f = 0 := by
    intro κ hκ
    cases κ with
    | dl _ _ _ => simp [isEp] at hκ
    | ep c k p d =>
      by_cases hdd : d = d0
      · subst hdd
        obtain ⟨m, hm⟩ := exists_ordLe p f
        have := ep_coefs_zero E p d hE m f hd hm bad hz k
        rw [← this]
        exact coefOf_congr (by simp [sameKey]) f
      · apply coefOf_eq_zero_of_noKey
        intro t ht
        have := hd t ht
        cases t with
        | ep c' k' p' d' =>
          have hd' : d' = d0 := this
          have : ¬ d = d' := by rw [hd']; exact hdd
          simp [sameKey, this]
        | dl _ _ _ => rfl
  apply formalZero_of_coefOf
  intro κ
  cases κ with
  | ep c k p d => exact hep _ rfl
  | dl c n d =>
    by_cases hdd : d = d0
    · subst hdd
      have := dl_coefs_zero E d f hd hE hep bad hz n
      rw [← this]
      exact coefOf_congr (by simp [sameKey]) f
    · apply coefOf_eq_zero_of_noKey
      intro t ht
      have := hd t ht
      cases t with
      | dl c' n' d' =>
        have hd' : d' = d0 := this
        have : ¬ d = d' := by rw [hd']; exact hdd
        simp [sameKey, this]
      | ep _ _ _ _ => rfl

theorem isExp_ne_zero {E : K → K} (hE : IsExp E) (x : K) : E x ≠ 0 := by
  intro h
  have := hE.add x (-x)
  rw [add_neg_cancel, hE.zero, h, zero_mul] at this
  exact one_ne_zero this

/-! ### several delays: the delay factors as independent indeterminates -/

/-- the part of `f` delayed by `d` -/
def delayPart (d : K) (f : ExpPoly K) : ExpPoly K := f.filter (fun t => decide (t.delayOf = d))

theorem allDelay_delayPart (d : K) (f : ExpPoly K) : AllDelay d (delayPart d f) := by
  intro t ht
  have := (List.mem_filter.mp ht).2
  simpa using this

theorem coefOf_delayPart (κ : Term K) (f : ExpPoly K) : coefOf κ (delayPart κ.delayOf f) = coefOf κ f := by
  induction f with
  | nil => rfl
  | cons t f ih =>
    by_cases h : t.delayOf = κ.delayOf
    · simp only [delayPart, List.filter, h, decide_true, coefOf] at ih ⊢
      rw [ih]
    · have hk : sameKey κ t = false := by
        cases κ <;> cases t <;> simp [sameKey, Term.delayOf] at h ⊢
        · intro _ _ e; exact h e.symm
        · intro _ e; exact h e.symm
      simp only [delayPart, List.filter, h, decide_false, coefOf, hk] at ih ⊢
      exact ih

/-- `FormalZero` can be checked delay class by delay class -/
theorem formalZero_of_delayParts {f : ExpPoly K} (h : ∀ d, FormalZero (delayPart d f)) : FormalZero f := by
  apply formalZero_of_coefOf
  intro κ
  rw [← coefOf_delayPart]
  exact coefOf_of_formalZero (h _) κ

/-! ### the transform with independent delay indeterminates -/

/-- sum of a term functional -/
def tsum (φ : Term K → K) : ExpPoly K → K
  | [] => 0
  | t :: f => φ t + tsum φ f

theorem tsum_split (φ : Term K → K) (hφ : ∀ (t : Term K) (c : K), φ (t.withCoef c) = c * φ (t.withCoef 1)) (κ : Term K) (f : ExpPoly K) :
    tsum φ f = coefOf κ f * φ (κ.withCoef 1) + tsum φ (f.filter (fun u => !sameKey κ u)) := by
  induction f with
  | nil => simp [tsum, coefOf]
  | cons t f ih =>
    by_cases h : sameKey κ t = true
    · have ht := withCoef_of_sameKey h
      simp only [tsum, coefOf, h, if_true, List.filter, Bool.not_true]
      rw [ih]
      conv_lhs => rw [ht, hφ]
      ring
    · simp only [Bool.not_eq_true] at h
      simp only [tsum, coefOf, h, List.filter, Bool.not_false]
      rw [ih]; simp; ring

theorem tsum_normalForm (φ : Term K → K) (hφ : ∀ (t : Term K) (c : K), φ (t.withCoef c) = c * φ (t.withCoef 1)) :
    ∀ (fuel : Nat) (f : ExpPoly K), f.length ≤ fuel → tsum φ (normalForm fuel f) = tsum φ f := by
  intro fuel
  induction fuel with
  | zero => intro f hf; cases f with
    | nil => rfl
    | cons t f => simp at hf
  | succ fuel ih =>
    intro f hf
    cases f with
    | nil => rfl
    | cons t f =>
      have hlen : (f.filter (fun u => !sameKey t u)).length ≤ fuel :=
        le_trans (length_filter_le' t f) (by simpa using hf)
      have ihf := ih _ hlen
      have hs := tsum_split φ hφ t (t :: f)
      simp only [List.filter, sameKey_refl, Bool.not_true] at hs
      simp only [normalForm]
      split_ifs with hc
      · rw [ihf, hs, hc]; ring
      · rw [tsum, ihf, hs, hφ]

theorem LW_eq_tsum (w : K → K) (f : ExpPoly K) (s : K) : LW w f s = tsum (Term.LW w s) f := by
  induction f with
  | nil => rfl
  | cons t f ih => simp [LW, tsum, ih]

theorem Term_LW_withCoef (w : K → K) (s : K) (t : Term K) (c : K) :
    (t.withCoef c).LW w s = c * (t.withCoef 1).LW w s := by
  cases t <;> simp [Term.withCoef, Term.LW] <;> ring

/-- a formally zero signal has the zero transform whatever values the delay indeterminates take -/
theorem LW_of_formalZero (w : K → K) {f : ExpPoly K} (h : FormalZero f) (s : K) : LW w f s = 0 := by
  have := tsum_normalForm (Term.LW w s) (Term_LW_withCoef w s) f.length f le_rfl
  unfold FormalZero nf at h
  rw [h] at this
  rw [LW_eq_tsum, ← this]; rfl

/-- the transform is `LW` at the values `w d = E(−s·d)` -/
theorem L_eq_LW (f : ExpPoly K) (s : K) : L E f s = LW (fun d => E (-(s * d))) f s := by
  induction f with
  | nil => rfl
  | cons t f ih => cases t <;> simp [LW, Term.LW, Term.L, ih]

/-- giving the indeterminate of delay `d0` the value 1 and all others 0 selects the part delayed by `d0` -/
theorem LW_indicator (d0 : K) (f : ExpPoly K) (s : K) :
    LW (fun d => if d = d0 then 1 else 0) f s = L (fun _ => (1 : K)) (delayPart d0 f) s := by
  induction f with
  | nil => rfl
  | cons t f ih =>
    cases t with
    | ep c k p d =>
      by_cases h : d = d0
      · simp [LW, Term.LW, delayPart, List.filter, Term.delayOf, h, Term.L] at ih ⊢; rw [ih]
      · simp [LW, Term.LW, delayPart, List.filter, Term.delayOf, h] at ih ⊢; rw [ih]
    | dl c n d =>
      by_cases h : d = d0
      · simp [LW, Term.LW, delayPart, List.filter, Term.delayOf, h, Term.L] at ih ⊢; rw [ih]
      · simp [LW, Term.LW, delayPart, List.filter, Term.delayOf, h] at ih ⊢; rw [ih]

/-- **injectivity, any delays**: a signal whose transform vanishes off a finite set for EVERY value of the delay
    indeterminates is formally zero -/
theorem formalZero_of_LW [Infinite K] (f : ExpPoly K) (bad : Finset K)
    (h : ∀ (w : K → K) (s : K), s ∉ bad → LW w f s = 0) : FormalZero f := by
  apply formalZero_of_delayParts
  intro d
  apply formalZero_of_L_zero (fun _ => (1 : K)) d _ (allDelay_delayPart d f) (fun _ => one_ne_zero) bad
  intro s hs
  rw [← LW_indicator]
  exact h _ s hs

/-- the delay factors of `E` are independent over the rational functions: a vanishing transform vanishes delay class
    by delay class.  (Holds for the real exponential, Proofs/TimeDomainInjReal.lean; fails e.g. for `E = 1`.) -/
def DelayIndep (E : K → K) : Prop :=
  ∀ (f : ExpPoly K) (bad : Finset K), (∀ s, s ∉ bad → L E f s = 0) →
    ∀ d, ∃ bad' : Finset K, ∀ s, s ∉ bad' → L E (delayPart d f) s = 0

theorem formalZero_of_delayIndep [Infinite K] (hE : IsExp E) (hI : DelayIndep E) (f : ExpPoly K) (bad : Finset K)
    (hz : ∀ s, s ∉ bad → L E f s = 0) : FormalZero f := by
  apply formalZero_of_delayParts
  intro d
  obtain ⟨bad', h'⟩ := hI f bad hz d
  exact formalZero_of_L_zero E d _ (allDelay_delayPart d f) (fun s => isExp_ne_zero hE _) bad' h'

/-! ### residuals of delay-free problems are delay-free -/

theorem AllDelay.nil (d0 : K) : AllDelay d0 ([] : ExpPoly K) := fun t ht => by simp at ht

theorem AllDelay.append {d0 : K} {f g : ExpPoly K} (hf : AllDelay d0 f) (hg : AllDelay d0 g) : AllDelay d0 (f ++ g) := by
  intro t ht
  rcases List.mem_append.mp ht with h | h
  · exact hf t h
  · exact hg t h

theorem AllDelay.smul {d0 : K} {f : ExpPoly K} (a : K) (hf : AllDelay d0 f) : AllDelay d0 (smul a f) := by
  intro t ht
  simp only [Laplace.smul, List.mem_map] at ht
  obtain ⟨u, hu, rfl⟩ := ht
  have := hf u hu
  cases u <;> simpa [Term.smul, Term.delayOf] using this

theorem AllDelay.subP {d0 : K} {f g : ExpPoly K} (hf : AllDelay d0 f) (hg : AllDelay d0 g) : AllDelay d0 (subP f g) :=
  hf.append (hg.smul _)

theorem AllDelay.deriv {d0 : K} {f : ExpPoly K} (hf : AllDelay d0 f) : AllDelay d0 (deriv f) := by
  intro t ht
  simp only [Laplace.deriv, List.mem_flatMap] at ht
  obtain ⟨u, hu, htu⟩ := ht
  have := hf u hu
  cases u with
  | ep c k p d =>
    cases k <;> simp [Term.deriv] at htu <;> rcases htu with rfl | rfl <;> simpa [Term.delayOf] using this
  | dl c n d =>
    simp [Term.deriv] at htu
    subst htu
    simpa [Term.delayOf] using this

theorem AllDelay.stateDeriv {f : ExpPoly K} (st : K) (hf : AllDelay 0 f) : AllDelay 0 (stateDeriv st f) := by
  apply AllDelay.append hf.deriv
  intro t ht
  simp at ht
  subst ht
  rfl

theorem AllDelay.twoTermT {d0 : K} {i : ExpPoly K} (n1 n2 k : Nat) (hi : AllDelay d0 i) : AllDelay d0 (twoTermT n1 n2 k i) := by
  unfold TD.twoTermT
  apply AllDelay.subP <;> (split_ifs <;> first | exact hi | exact AllDelay.nil d0)

theorem AllDelay.voltT {x : Ix → Signal K} (hx : ∀ ix, AllDelay 0 (x ix).post) (k : Nat) : AllDelay 0 (voltT x k).post := by
  cases k with
  | zero => exact AllDelay.nil 0
  | succ k => exact hx _

theorem AllDelay.vpost {x : Ix → Signal K} (hx : ∀ ix, AllDelay 0 (x ix).post) (a b : Nat) : AllDelay 0 (vpost x a b) :=
  (AllDelay.voltT hx a).subP (AllDelay.voltT hx b)

theorem AllDelay.flatMap {α : Type} {d0 : K} (l : List α) (g : α → ExpPoly K) (h : ∀ a ∈ l, AllDelay d0 (g a)) :
    AllDelay d0 (l.flatMap g) := by
  intro t ht
  obtain ⟨a, ha, hta⟩ := List.mem_flatMap.mp ht
  exact h a ha t hta

theorem AllDelay.single_dl (c : K) (n : Nat) : AllDelay 0 ([.dl c n 0] : ExpPoly K) := by
  intro t ht; simp at ht; subst ht; rfl

theorem AllDelay.mutualDropT {x : Ix → Signal K} (hx : ∀ ix, AllDelay 0 (x ix).post) (coup : List (Nat × K × Option K)) :
    AllDelay 0 (mutualDropT x coup) :=
  AllDelay.flatMap _ _ (fun _ _ => ((hx _).stateDeriv _).smul _)

set_option hygiene false in
macro "alldelay" : tactic => `(tactic| repeat' (first
  | exact AllDelay.nil 0
  | exact hx _
  | exact hw
  | exact AllDelay.single_dl _ _
  | exact AllDelay.voltT hx _
  | exact AllDelay.vpost hx _ _
  | exact AllDelay.mutualDropT hx _
  | apply AllDelay.twoTermT
  | apply AllDelay.stateDeriv
  | apply AllDelay.smul
  | apply AllDelay.subP
  | apply AllDelay.append))

theorem allDelay_outflowT (x : Ix → Signal K) (hx : ∀ ix, AllDelay 0 (x ix).post) (k : Nat) (c : TCpt K)
    (hw : AllDelay 0 c.2.post) : AllDelay 0 (outflowT x k c) := by
  obtain ⟨c, w⟩ := c
  cases c <;> simp only [outflowT, capCurrentT] <;> alldelay

theorem allDelay_lawsT (x : Ix → Signal K) (hx : ∀ ix, AllDelay 0 (x ix).post) (c : TCpt K)
    (hw : AllDelay 0 c.2.post) : ∀ p ∈ lawsT x c, AllDelay 0 p.2 := by
  obtain ⟨c, w⟩ := c
  intro p hp
  cases c <;> simp only [lawsT, List.mem_cons, List.not_mem_nil, or_false] at hp
  all_goals first
    | (rcases hp with rfl | rfl <;> simp only <;> alldelay)
    | (subst hp; simp only; alldelay)

theorem allDelay_kclT (x : Ix → Signal K) (hx : ∀ ix, AllDelay 0 (x ix).post) (tcs : List (TCpt K))
    (hw : ∀ c ∈ tcs, AllDelay 0 c.2.post) (k : Nat) : AllDelay 0 (kclT x k tcs) :=
  AllDelay.flatMap _ _ (fun c hc => allDelay_outflowT x hx k c (hw c hc))

end inj
end Lcapy.TD
