/-
  C10 helper lemmas, round 3: the polynomial-part loop as written in the source, `do_damped_sin` (generated
  arithmetic), the exclusive assumptions.
-/
import Lcapy.Proofs.LaplaceILT
namespace Lcapy.Laplace
variable {K : Type} [Field K]
variable (E : K → K)

/-! ### polynomial part -/

theorem L_iltQgo (b : Bool) (T s : K) : ∀ (C : List K) (n : Nat),
    L E (iltQgo b (n + C.length) (n + C.length - 1) T n C) s = E (-(s * T)) * evalHF C s := by
  intro C
  induction C with
  | nil => intro n; simp [iltQgo, evalHF]
  | cons c cs ih =>
    intro n
    have h1 : n + (c :: cs).length - n - 1 = cs.length := by simp
    have h2 : n + (c :: cs).length - 1 - n = cs.length := by simp
    have h3 : n + (c :: cs).length = (n + 1) + cs.length := by simp; omega
    simp only [iltQgo, L_cons, Term.L, evalHF, h1, h2, ite_self]
    rw [h3, ih (n + 1)]
    ring

theorem evalHF_append_single (l : List K) (a s : K) : evalHF (l ++ [a]) s = s * evalHF l s + a := by
  induction l with
  | nil => simp [evalHF, pw]
  | cons c cs ih => simp only [List.cons_append, evalHF, ih, List.length_append, List.length_cons, List.length_nil, pw]; ring

theorem evalHF_reverse (q : Poly K) (s : K) : evalHF q.reverse s = Poly.eval q s := by
  induction q with
  | nil => simp [evalHF]
  | cons a q ih => simp [evalHF_append_single, ih]; ring

theorem L_iltQsrc [DecidableEq K] (hd : Gen.qCoeffsDense = true) (T s : K) (q : Poly K) :
    L E (iltQsrc T q) s = E (-(s * T)) * Poly.eval q s := by
  unfold iltQsrc
  simp only [hd, if_true]
  have := L_iltQgo E Gen.qOrderByLen T s q.reverse 0
  simp only [Nat.zero_add, List.length_reverse] at this ⊢
  rw [this, evalHF_reverse]

/-! ### damped sinusoids -/

theorem L_expCos {J : K} (hJ : J * J = -1) (h20 : (1 + 1 : K) ≠ 0) (c rate om T s : K)
    (h1 : s - (rate + J * om) ≠ 0) (h2 : s - (rate - J * om) ≠ 0) :
    L E (expCos J c rate om T) s = E (-(s * T)) * (c * (s - rate) / ((s - rate) ^ 2 + om ^ 2)) := by
  have h1' : s - rate - J * om ≠ 0 := by intro h; apply h1; linear_combination h
  have h2' : s - rate + J * om ≠ 0 := by intro h; apply h2; linear_combination h
  have hden : (s - rate) ^ 2 + om ^ 2 = (s - rate - J * om) * (s - rate + J * om) := by
    linear_combination (om * om) * hJ
  rw [hden]
  simp only [expCos, L_cons, L_nil, Term.L, pw_eq]
  rw [show s - (rate + J * om) = s - rate - J * om by ring, show s - (rate - J * om) = s - rate + J * om by ring]
  field_simp
  grind

theorem L_expSin {J : K} (hJ : J * J = -1) (h20 : (1 + 1 : K) ≠ 0) (c rate om T s : K)
    (h1 : s - (rate + J * om) ≠ 0) (h2 : s - (rate - J * om) ≠ 0) :
    L E (expSin J c rate om T) s = E (-(s * T)) * (c * om / ((s - rate) ^ 2 + om ^ 2)) := by
  have hJ0 : J ≠ 0 := by intro h; rw [h] at hJ; simp at hJ
  have h1' : s - rate - J * om ≠ 0 := by intro h; apply h1; linear_combination h
  have h2' : s - rate + J * om ≠ 0 := by intro h; apply h2; linear_combination h
  have hden : (s - rate) ^ 2 + om ^ 2 = (s - rate - J * om) * (s - rate + J * om) := by
    linear_combination (om * om) * hJ
  rw [hden]
  simp only [expSin, L_cons, L_nil, Term.L, pw_eq]
  rw [show s - (rate + J * om) = s - rate - J * om by ring, show s - (rate - J * om) = s - rate + J * om by ring]
  field_simp
  grind

theorem L_dsSignal {J : K} (hJ : J * J = -1) (h20 : (1 + 1 : K) ≠ 0) (f : Gen.DSIn K → K) (x : Gen.DSIn K) (T s : K)
    (h1 : s - (Gen.dsRate x + J * Gen.dsFreqC x) ≠ 0) (h2 : s - (Gen.dsRate x - J * Gen.dsFreqC x) ≠ 0)
    (h3 : s - (Gen.dsRate x + J * Gen.dsFreqS x) ≠ 0) (h4 : s - (Gen.dsRate x - J * Gen.dsFreqS x) ≠ 0) :
    L E (dsSignal J f x T) s = E (-(s * T)) * (f { x with Dl := 1 }
      + f { x with C := 1 } * (s - Gen.dsRate x) / ((s - Gen.dsRate x) ^ 2 + Gen.dsFreqC x ^ 2)
      + f { x with S := 1 } * Gen.dsFreqS x / ((s - Gen.dsRate x) ^ 2 + Gen.dsFreqS x ^ 2)) := by
  unfold dsSignal
  rw [L_cons, L_append, L_expCos E hJ h20 _ _ _ _ _ h1 h2, L_expSin E hJ h20 _ _ _ _ _ h3 h4]
  simp only [Term.L, pw]
  ring

/-- both parts of a `do_damped_sin` result, with the generated rate / frequencies evaluated:
    `ρ = −d1/2`, `ω = sq1·sq2`, `(s−ρ)² + ω² = (rd0 s² + rd1 s + rd2)/rd0` -/
theorem L_ds_pair {J : K} (hJ : J * J = -1) (h20 : (1 + 1 : K) ≠ 0) (fc fu : Gen.DSIn K → K)
    (rn0 rn1 rn2 rd0 rd1 rd2 sq1 sq2 T s : K) (hd0 : rd0 ≠ 0) (hsq1 : sq1 ≠ 0)
    (hsq : (sq1 * sq2) ^ 2 = rd2 / rd0 - (rd1 / rd0 / 2) ^ 2)
    (hden : rd0 * s ^ 2 + rd1 * s + rd2 ≠ 0) :
    let x := dsInput rn0 rn1 rn2 rd0 rd1 rd2 sq1 sq2
    L E (dsSignal J fc x T ++ dsSignal J fu x T) s = E (-(s * T)) * (
      (fc { x with Dl := 1 } + fu { x with Dl := 1 })
      + (fc { x with C := 1 } + fu { x with C := 1 }) * (s + rd1 / rd0 / 2) / ((rd0 * s ^ 2 + rd1 * s + rd2) / rd0)
      + (fc { x with S := 1 } + fu { x with S := 1 }) * (sq1 * sq2) / ((rd0 * s ^ 2 + rd1 * s + rd2) / rd0)) := by
  intro x
  have h2' : (2 : K) ≠ 0 := by rw [show (2 : K) = 1 + 1 by norm_num]; exact h20
  have hrate : Gen.dsRate x = -(rd1 / rd0 / 2) := by
    simp [x, Gen.dsRate, dsInput, Gen.dsDenNormalised, ofN]; field_simp; ring
  have hfs : Gen.dsFreqS x = sq1 * sq2 := by simp [x, Gen.dsFreqS, dsInput]
  have hfc : Gen.dsFreqC x = sq1 * sq2 := by simp [x, Gen.dsFreqC, dsInput]
  have hq : (s - -(rd1 / rd0 / 2)) ^ 2 + (sq1 * sq2) ^ 2 = (rd0 * s ^ 2 + rd1 * s + rd2) / rd0 := by
    rw [hsq]; field_simp; ring
  have hq0 : (s - -(rd1 / rd0 / 2)) ^ 2 + (sq1 * sq2) ^ 2 ≠ 0 := by
    rw [hq]; exact div_ne_zero hden hd0
  have hfac : (s - (-(rd1 / rd0 / 2) + J * (sq1 * sq2))) * (s - (-(rd1 / rd0 / 2) - J * (sq1 * sq2)))
      = (s - -(rd1 / rd0 / 2)) ^ 2 + (sq1 * sq2) ^ 2 := by
    linear_combination (-(sq1 * sq2) ^ 2) * hJ
  have hp1 : s - (-(rd1 / rd0 / 2) + J * (sq1 * sq2)) ≠ 0 := by
    intro h0; rw [h0, zero_mul] at hfac; exact hq0 hfac.symm
  have hp2 : s - (-(rd1 / rd0 / 2) - J * (sq1 * sq2)) ≠ 0 := by
    intro h0; rw [h0, mul_zero] at hfac; exact hq0 hfac.symm
  rw [L_append, L_dsSignal E hJ h20 _ _ _ _ (by rw [hrate, hfc]; exact hp1) (by rw [hrate, hfc]; exact hp2)
    (by rw [hrate, hfs]; exact hp1) (by rw [hrate, hfs]; exact hp2),
    L_dsSignal E hJ h20 _ _ _ _ (by rw [hrate, hfc]; exact hp1) (by rw [hrate, hfc]; exact hp2)
    (by rw [hrate, hfs]; exact hp1) (by rw [hrate, hfs]; exact hp2)]
  rw [hrate, hfs, hfc, hq]
  ring

theorem damped_sin_value3' [DecidableEq K] {J : K} (hJ : J * J = -1) (h20 : (1 + 1 : K) ≠ 0)
    (rn0 rn1 rn2 rd0 rd1 rd2 sq1 sq2 T s : K) (c u : ExpPoly K)
    (h : dampedSin J [rn0, rn1, rn2] [rd0, rd1, rd2] sq1 sq2 T = some (c, u))
    (hn0 : rn0 ≠ 0) (hd0 : rd0 ≠ 0) (hsq1 : sq1 ≠ 0) (hsq2 : sq2 ≠ 0)
    (hsq : (sq1 * sq2) ^ 2 = rd2 / rd0 - (rd1 / rd0 / 2) ^ 2)
    (hden : rd0 * s ^ 2 + rd1 * s + rd2 ≠ 0) :
    L E (c ++ u) s = E (-(s * T)) * ((rn0 * s ^ 2 + rn1 * s + rn2) / (rd0 * s ^ 2 + rd1 * s + rd2)) := by
  simp only [dampedSin] at h
  split at h
  · exact absurd h (by simp)
  · simp only [Option.some.injEq, Prod.mk.injEq] at h
    obtain ⟨rfl, rfl⟩ := h
    rw [L_ds_pair E hJ h20 _ _ _ _ _ _ _ _ _ _ _ _ hd0 hsq1 hsq hden]
    congr 1
    have h2' : (2 : K) ≠ 0 := by rw [show (2 : K) = 1 + 1 by norm_num]; exact h20
    have h4' : (4 : K) ≠ 0 := by rw [show (4 : K) = 2 * 2 by norm_num]; exact mul_ne_zero h2' h2'
    have hw : sq1 ^ 2 * sq2 ^ 2 * (4 * rd0 ^ 2) = 4 * rd2 * rd0 - rd1 ^ 2 := by
      have : sq1 ^ 2 * sq2 ^ 2 = rd2 / rd0 - (rd1 / rd0 / 2) ^ 2 := by rw [← hsq]; ring
      rw [this]; field_simp; ring
    simp [Gen.dsRet3c, Gen.dsRet3u, dsInput, Gen.dsNumNormalised, Gen.dsDenNormalised, ofN, pw]
    obtain ⟨D, hD⟩ : ∃ D, D = rd0 * s ^ 2 + rd1 * s + rd2 := ⟨_, rfl⟩
    rw [← hD] at hden ⊢
    field_simp
    rw [hD]
    linear_combination (-2 * rn0) * hw

theorem damped_sin_value2' [DecidableEq K] {J : K} (hJ : J * J = -1) (h20 : (1 + 1 : K) ≠ 0)
    (rn0 rn1 rd0 rd1 rd2 sq1 sq2 T s : K) (c u : ExpPoly K)
    (h : dampedSin J [rn0, rn1] [rd0, rd1, rd2] sq1 sq2 T = some (c, u))
    (hn0 : rn0 ≠ 0) (hd0 : rd0 ≠ 0) (hsq1 : sq1 ≠ 0) (hsq2 : sq2 ≠ 0)
    (hsq : (sq1 * sq2) ^ 2 = rd2 / rd0 - (rd1 / rd0 / 2) ^ 2)
    (hden : rd0 * s ^ 2 + rd1 * s + rd2 ≠ 0) :
    L E (c ++ u) s = E (-(s * T)) * ((rn0 * s + rn1) / (rd0 * s ^ 2 + rd1 * s + rd2)) := by
  simp only [dampedSin] at h
  split at h
  · exact absurd h (by simp)
  · simp only [Option.some.injEq, Prod.mk.injEq] at h
    obtain ⟨rfl, rfl⟩ := h
    rw [L_ds_pair E hJ h20 _ _ _ _ _ _ _ _ _ _ _ _ hd0 hsq1 hsq hden]
    congr 1
    have h2' : (2 : K) ≠ 0 := by rw [show (2 : K) = 1 + 1 by norm_num]; exact h20
    have h4' : (4 : K) ≠ 0 := by rw [show (4 : K) = 2 * 2 by norm_num]; exact mul_ne_zero h2' h2'
    simp [Gen.dsRet2c, Gen.dsRet2u, dsInput, Gen.dsNumNormalised, Gen.dsDenNormalised, ofN]
    obtain ⟨D, hD⟩ : ∃ D, D = rd0 * s ^ 2 + rd1 * s + rd2 := ⟨_, rfl⟩
    rw [← hD] at hden ⊢
    field_simp
    ring

theorem damped_sin_value1' [DecidableEq K] {J : K} (hJ : J * J = -1) (h20 : (1 + 1 : K) ≠ 0)
    (rn0 rd0 rd1 rd2 sq1 sq2 T s : K) (c u : ExpPoly K)
    (h : dampedSin J [rn0] [rd0, rd1, rd2] sq1 sq2 T = some (c, u))
    (hd0 : rd0 ≠ 0) (hsq1 : sq1 ≠ 0) (hsq2 : sq2 ≠ 0)
    (hsq : (sq1 * sq2) ^ 2 = rd2 / rd0 - (rd1 / rd0 / 2) ^ 2)
    (hden : rd0 * s ^ 2 + rd1 * s + rd2 ≠ 0) :
    L E (c ++ u) s = E (-(s * T)) * (rn0 / (rd0 * s ^ 2 + rd1 * s + rd2)) := by
  simp only [dampedSin] at h
  split at h
  · exact absurd h (by simp)
  · simp only [Option.some.injEq, Prod.mk.injEq] at h
    obtain ⟨rfl, rfl⟩ := h
    rw [L_ds_pair E hJ h20 _ _ _ _ _ _ _ _ _ _ _ _ hd0 hsq1 hsq hden]
    congr 1
    have h2' : (2 : K) ≠ 0 := by rw [show (2 : K) = 1 + 1 by norm_num]; exact h20
    have h4' : (4 : K) ≠ 0 := by rw [show (4 : K) = 2 * 2 by norm_num]; exact mul_ne_zero h2' h2'
    simp [Gen.dsRet1c, Gen.dsRet1u, dsInput, Gen.dsNumNormalised, Gen.dsDenNormalised]
    obtain ⟨D, hD⟩ : ∃ D, D = rd0 * s ^ 2 + rd1 * s + rd2 := ⟨_, rfl⟩
    rw [← hD] at hden ⊢
    field_simp

/-! ### sums of delayed terms, products with an undefined transform -/

/-- regular (no impulses), undelayed -/
def Regular0 (f : ExpPoly K) : Prop := NoDelta f ∧ ∀ t ∈ f, t.delayOf = 0

theorem L_derivC [DecidableEq K] (hE : IsExp E) (f : ExpPoly K) (s : K) (hn : NonPole f s) (hr : Regular0 f) :
    L E (derivC f) s = s * L E f s - val0plus f := by
  obtain ⟨hd, h0⟩ := hr
  rw [← L_deriv E s f hn]
  induction f with
  | nil => simp [deriv, derivC, val0plus]
  | cons t f ih =>
    have ih' := ih (NonPole.cons hn).2 (fun x hx => hd x (by simp [hx])) (fun x hx => h0 x (by simp [hx]))
    simp only [derivC, deriv, List.flatMap_cons, L_append, List.filter_append] at ih' ⊢
    rw [ih']
    cases t with
    | dl c n d => exact absurd (hd (.dl c n d) (by simp)) (by simp)
    | ep c k p d =>
      have hd0 : d = 0 := h0 (.ep c k p d) (by simp)
      subst hd0
      cases k with
      | zero => simp [Term.deriv, val0plus, List.filter, Term.isEp, Term.L, pw, hE.zero]; ring
      | succ k => simp [Term.deriv, val0plus, List.filter, Term.isEp]; ring

theorem derivC_regular (f : ExpPoly K) (hr : Regular0 f) : Regular0 (derivC f) := by
  obtain ⟨hd, h0⟩ := hr
  constructor
  · intro t ht
    simp only [derivC, List.mem_filter] at ht
    cases t with
    | ep => trivial
    | dl c n d => simp [Term.isEp] at ht
  · intro t ht
    simp only [derivC, List.mem_filter, deriv, List.mem_flatMap] at ht
    obtain ⟨⟨x, hx, htx⟩, _⟩ := ht
    have hx0 := h0 x hx
    cases x with
    | dl c n d => exact absurd (hd _ hx) (by simp)
    | ep c k p d =>
      cases k with
      | zero => simp [Term.deriv] at htx; rcases htx with rfl | rfl <;> simpa [Term.delayOf] using hx0
      | succ k => simp [Term.deriv] at htx; rcases htx with rfl | rfl <;> simpa [Term.delayOf] using hx0

theorem derivC_nonpole {s : K} (f : ExpPoly K) (hn : NonPole f s) : NonPole (derivC f) s := by
  intro t ht
  simp only [derivC, List.mem_filter] at ht
  exact NonPole_deriv hn t ht.1

theorem derivCN_inv {s : K} (n : Nat) (f : ExpPoly K) (hn : NonPole f s) (hr : Regular0 f) :
    NonPole (derivCN n f) s ∧ Regular0 (derivCN n f) := by
  induction n with
  | zero => exact ⟨hn, hr⟩
  | succ n ih => exact ⟨derivC_nonpole _ ih.1, derivC_regular _ ih.2⟩

theorem L_initImpulses (s : K) (hE : IsExp E) (v : Nat → K) (n : Nat) (l : List Nat) :
    L E (l.map (fun m => Term.dl (v m) (n - 1 - m) 0)) s = (l.map (fun m => v m * s ^ (n - 1 - m))).sum := by
  induction l with
  | nil => simp
  | cons a l ih => simp [ih, Term.L, pw_eq, hE.zero]

theorem list_sum_mul_left (c : K) (f : Nat → K) (l : List Nat) :
    (l.map (fun m => c * f m)).sum = c * (l.map f).sum := by
  induction l with
  | nil => simp
  | cons a l ih => simp [ih]; ring

theorem L_derivCN [DecidableEq K] (hE : IsExp E) (g : ExpPoly K) (s : K) (hn : NonPole g s) (hr : Regular0 g) (n : Nat) :
    L E (derivCN n g) s + ((List.range n).map (fun m => val0plus (derivCN m g) * s ^ (n - 1 - m))).sum = s ^ n * L E g s := by
  induction n with
  | zero => simp [derivCN]
  | succ n ih =>
    have inv := derivCN_inv n g hn hr
    rw [derivCN, L_derivC E hE _ s inv.1 inv.2, List.range_succ, List.map_append, List.sum_append]
    have : ((List.range n).map (fun m => val0plus (derivCN m g) * s ^ (n + 1 - 1 - m))).sum
        = s * ((List.range n).map (fun m => val0plus (derivCN m g) * s ^ (n - 1 - m))).sum := by
      rw [← list_sum_mul_left]
      congr 1
      apply List.map_congr_left
      intro m hm
      have hm' : m < n := List.mem_range.mp hm
      rw [show n + 1 - 1 - m = (n - 1 - m) + 1 by omega, pow_succ]; ring
    rw [this]
    simp only [List.map_cons, List.map_nil, List.sum_cons, List.sum_nil, Nat.add_sub_cancel, Nat.sub_self, pow_zero, mul_one, add_zero]
    linear_combination s * ih

/-- `s^n V(s)` with the initial-condition impulses -/
theorem L_derivEntry [DecidableEq K] (hE : IsExp E) (g : ExpPoly K) (s : K) (hn : NonPole g s) (hr : Regular0 g) (n : Nat) :
    L E (derivEntry false n g) s = s ^ n * L E g s := by
  simp only [derivEntry, Bool.false_eq_true, if_false, L_append]
  rw [L_initImpulses E s hE (fun m => val0plus (derivCN m g)) n]
  exact L_derivCN E hE g s hn hr n

/-- `zero_initial_conditions=True` is right exactly when the initial values vanish -/
theorem L_derivEntry_zic [DecidableEq K] (hE : IsExp E) (g : ExpPoly K) (s : K) (hn : NonPole g s) (hr : Regular0 g) (n : Nat)
    (h0 : ∀ m < n, val0plus (derivCN m g) = 0) :
    L E (derivEntry true n g) s = s ^ n * L E g s := by
  simp only [derivEntry, if_true, List.append_nil]
  rw [← L_derivCN E hE g s hn hr n]
  have : (List.range n).map (fun m => val0plus (derivCN m g) * s ^ (n - 1 - m)) = (List.range n).map (fun _ => (0 : K)) := by
    apply List.map_congr_left
    intro m hm
    rw [h0 m (List.mem_range.mp hm)]; ring
  rw [this]; simp

theorem L_iltSum (pfs : List (PF K)) (s : K) (ho : ∀ pf ∈ pfs, ∀ x ∈ pf.R, 0 < x.2.2) :
    L E (iltSum pfs) s = (pfs.map (fun pf => evalPF E pf s)).sum := by
  induction pfs with
  | nil => simp [iltSum]
  | cons pf pfs ih =>
    simp only [iltSum, List.flatMap_cons, L_append, List.map_cons, List.sum_cons] at ih ⊢
    rw [ilt_laplace' E pf s (ho pf (by simp)), ih (fun q hq => ho q (by simp [hq]))]


/-! ### every term the synthesis produces carries the delay of its factor -/

/-- every term of the signal carries the delay `T` -/
def AllDelay (T : K) (f : ExpPoly K) : Prop := ∀ t ∈ f, t.delayOf = T

theorem AllDelay.append {T : K} {f g : ExpPoly K} (hf : AllDelay T f) (hg : AllDelay T g) : AllDelay T (f ++ g) := by
  intro t ht; rcases List.mem_append.mp ht with h | h
  · exact hf t h
  · exact hg t h

theorem allDelay_iltQgo (b : Bool) (len deg : Nat) (T : K) : ∀ (C : List K) (n : Nat), AllDelay T (iltQgo b len deg T n C) := by
  intro C
  induction C with
  | nil => intro n t ht; simp [iltQgo] at ht
  | cons c cs ih =>
    intro n t ht
    simp only [iltQgo, List.mem_cons] at ht
    rcases ht with rfl | h
    · rfl
    · exact ih (n + 1) t h

theorem allDelay_iltQsrc [DecidableEq K] (T : K) (q : Poly K) : AllDelay T (iltQsrc T q) := by
  unfold iltQsrc; exact allDelay_iltQgo _ _ _ _ _ _

theorem allDelay_cosSin (J Ac As al om T : K) : AllDelay T (cosSin J Ac As al om T) := by
  intro t ht; simp [cosSin] at ht; rcases ht with rfl | rfl <;> rfl

theorem allDelay_conjPair [DecidableEq K] (J r rc p pc T : K) : AllDelay T (conjPair J r rc p pc T) := by
  unfold conjPair; simp only; split <;> exact allDelay_cosSin _ _ _ _ _ _

theorem allDelay_ratfunLoop [DecidableEq K] (J : K) (conj : K → K) (T : K) :
    ∀ (fuel : Nat) (R : List (K × K × Nat)), AllDelay T (ratfunLoop J conj T fuel R) := by
  intro fuel
  induction fuel with
  | zero => intro R t ht; simp [ratfunLoop] at ht
  | succ fuel ih =>
    intro R
    cases R with
    | nil => intro t ht; simp [ratfunLoop] at ht
    | cons y R =>
      obtain ⟨r, p, o⟩ := y
      simp only [ratfunLoop]
      split
      · split
        · exact (allDelay_conjPair _ _ _ _ _ _).append (ih _)
        · intro t ht; rcases List.mem_cons.mp ht with rfl | h
          · rfl
          · exact ih _ t h
      · intro t ht; rcases List.mem_cons.mp ht with rfl | h
        · rfl
        · exact ih _ t h

theorem allDelay_dsSignal (J : K) (f : Gen.DSIn K → K) (x : Gen.DSIn K) (T : K) : AllDelay T (dsSignal J f x T) := by
  intro t ht
  simp only [dsSignal, expCos, expSin, List.mem_cons, List.mem_append, List.mem_nil_iff, or_false] at ht
  rcases ht with rfl | (rfl | rfl) | (rfl | rfl) <;> rfl

theorem allDelay_dampedSin [DecidableEq K] (J : K) (nc dc : List K) (sq1 sq2 T : K) (c u : ExpPoly K)
    (h : dampedSin J nc dc sq1 sq2 T = some (c, u)) : AllDelay T (c ++ u) := by
  unfold dampedSin at h
  split at h
  · dsimp only at h
    split at h
    · exact absurd h (by simp)
    · simp only [Option.some.injEq, Prod.mk.injEq] at h
      obtain ⟨rfl, rfl⟩ := h
      exact (allDelay_dsSignal _ _ _ _).append (allDelay_dsSignal _ _ _ _)
  · dsimp only at h
    split at h
    · exact absurd h (by simp)
    · simp only [Option.some.injEq, Prod.mk.injEq] at h
      obtain ⟨rfl, rfl⟩ := h
      exact (allDelay_dsSignal _ _ _ _).append (allDelay_dsSignal _ _ _ _)
  · dsimp only at h
    split at h
    · exact absurd h (by simp)
    · simp only [Option.some.injEq, Prod.mk.injEq] at h
      obtain ⟨rfl, rfl⟩ := h
      exact (allDelay_dsSignal _ _ _ _).append (allDelay_dsSignal _ _ _ _)
  · exact absurd h (by simp)


/-! ### the exclusive assumptions -/
section assumptions
omit [Field K]
theorem assumeMerge_append (st : List String) (k1 k2 : List (String × Bool)) :
    assumeMerge st (k1 ++ k2) = assumeMerge (assumeMerge st k1) k2 := by
  induction k1 generalizing st with
  | nil => rfl
  | cons x k1 ih => obtain ⟨a, v⟩ := x; simp [assumeMerge, ih]

theorem assumeSet_true_mem (st : List String) (a b : String) (ha : a ∈ exclusiveAssumptions)
    (hb : b ∈ exclusiveAssumptions) : b ∈ assumeSet st a true ↔ b = a := by
  simp [assumeSet, ha, hb]

/-- invariant: at most one of the exclusive assumptions is present -/
def AtMostOneExclusive (st : List String) : Prop :=
  (st.filter (fun b => b ∈ exclusiveAssumptions)).length ≤ 1

theorem assumeSet_inv (st : List String) (a : String) (v : Bool) (h : AtMostOneExclusive st) :
    AtMostOneExclusive (assumeSet st a v) := by
  unfold assumeSet
  split
  · rename_i ha
    cases v with
    | true =>
      simp only [if_true, AtMostOneExclusive, List.filter_cons, ha, decide_true, List.length_cons]
      simp
    | false =>
      simp only [AtMostOneExclusive] at h ⊢
      simp only [Bool.false_eq_true, if_false]
      refine le_trans ?_ h
      apply List.Sublist.length_le
      exact List.Sublist.filter _ List.filter_sublist
  · exact h

theorem assumeMerge_inv (kw : List (String × Bool)) (st : List String) (h : AtMostOneExclusive st) :
    AtMostOneExclusive (assumeMerge st kw) := by
  induction kw generalizing st with
  | nil => exact h
  | cons x kw ih => obtain ⟨a, v⟩ := x; exact ih _ (assumeSet_inv st a v h)

end assumptions

end Lcapy.Laplace
