/-
  Helper lemmas for C07, round 3: the n-ary scan of `ParSer.simplify` preserves the relation.
    * the relation of a Ser / Par argument list is a congruence, is invariant under exchanging
      neighbours, and is associative (nesting / splicing of a same-class sub-list);
    * `absorb` (inner loop) and `scan` (outer loop) preserve it, by induction over the list / fuel;
    * `flatten` (first loop of `simplify`) preserves it given that `simplify` does on sub-networks.
-/
import Lcapy.Proofs.OnePortSimplify
import Lcapy.Model.OnePortGuard
namespace Lcapy.OnePort
set_option linter.unusedSectionVars false
variable {K : Type} [Field K] [DecidableEq K]

/-- relation of an argument list under `op` -/
def relArgs (s : K) (op : Op) (l : List (Net K)) : K → K → Prop :=
  match op with
  | .ser => relSer s l
  | .par => relPar s l

/-- two relations admit the same pairs -/
def REq (R1 R2 : K → K → Prop) : Prop := ∀ v i, R1 v i ↔ R2 v i

theorem REq.refl (R : K → K → Prop) : REq R R := fun _ _ => Iff.rfl
theorem REq.symm {R1 R2 : K → K → Prop} (h : REq R1 R2) : REq R2 R1 := fun v i => (h v i).symm
theorem REq.trans {R1 R2 R3 : K → K → Prop} (h1 : REq R1 R2) (h2 : REq R2 R3) : REq R1 R3 :=
  fun v i => (h1 v i).trans (h2 v i)

theorem mk_rel (s : K) (op : Op) (l : List (Net K)) : (mk op l).rel s = relArgs s op l := by
  cases op <;> rfl

theorem relArgs_cons (s : K) (op : Op) (a : Net K) (t : List (Net K)) :
    relArgs s op (a :: t) = match op with
      | .ser => SerRel (a.rel s) (relArgs s .ser t)
      | .par => ParRel (a.rel s) (relArgs s .par t) := by
  cases op <;> rfl

theorem SerRel_congr {A A' B B' : K → K → Prop} (ha : REq A A') (hb : REq B B') : REq (SerRel A B) (SerRel A' B') := by
  intro v i
  simp only [SerRel]
  constructor
  · rintro ⟨v1, v2, h1, h2, rfl⟩; exact ⟨v1, v2, (ha _ _).mp h1, (hb _ _).mp h2, rfl⟩
  · rintro ⟨v1, v2, h1, h2, rfl⟩; exact ⟨v1, v2, (ha _ _).mpr h1, (hb _ _).mpr h2, rfl⟩

theorem ParRel_congr {A A' B B' : K → K → Prop} (ha : REq A A') (hb : REq B B') : REq (ParRel A B) (ParRel A' B') := by
  intro v i
  simp only [ParRel]
  constructor
  · rintro ⟨v1, v2, h1, h2, rfl⟩; exact ⟨v1, v2, (ha _ _).mp h1, (hb _ _).mp h2, rfl⟩
  · rintro ⟨v1, v2, h1, h2, rfl⟩; exact ⟨v1, v2, (ha _ _).mpr h1, (hb _ _).mpr h2, rfl⟩

theorem SerRel_assoc (A B C : K → K → Prop) : REq (SerRel A (SerRel B C)) (SerRel (SerRel A B) C) := by
  intro v i
  simp only [SerRel]
  constructor
  · rintro ⟨v1, v2, h1, ⟨v3, v4, h3, h4, rfl⟩, rfl⟩
    exact ⟨v1 + v3, v4, ⟨v1, v3, h1, h3, rfl⟩, h4, by ring⟩
  · rintro ⟨v1, v2, ⟨v3, v4, h3, h4, rfl⟩, h2, rfl⟩
    exact ⟨v3, v4 + v2, h3, ⟨v4, v2, h4, h2, rfl⟩, by ring⟩

theorem ParRel_assoc (A B C : K → K → Prop) : REq (ParRel A (ParRel B C)) (ParRel (ParRel A B) C) := by
  intro v i
  simp only [ParRel]
  constructor
  · rintro ⟨v1, v2, h1, ⟨v3, v4, h3, h4, rfl⟩, rfl⟩
    exact ⟨v1 + v3, v4, ⟨v1, v3, h1, h3, rfl⟩, h4, by ring⟩
  · rintro ⟨v1, v2, ⟨v3, v4, h3, h4, rfl⟩, h2, rfl⟩
    exact ⟨v3, v4 + v2, h3, ⟨v4, v2, h4, h2, rfl⟩, by ring⟩

theorem SerRel_comm (A B : K → K → Prop) : REq (SerRel A B) (SerRel B A) := by
  intro v i
  simp only [SerRel]
  constructor <;> (rintro ⟨v1, v2, h1, h2, rfl⟩; exact ⟨v2, v1, h2, h1, by ring⟩)

theorem ParRel_comm (A B : K → K → Prop) : REq (ParRel A B) (ParRel B A) := by
  intro v i
  simp only [ParRel]
  constructor <;> (rintro ⟨v1, v2, h1, h2, rfl⟩; exact ⟨v2, v1, h2, h1, by ring⟩)

theorem SerRel_zero_right (A : K → K → Prop) : REq (SerRel A (fun v _ => v = 0)) A := by
  intro v i
  simp only [SerRel]
  constructor
  · rintro ⟨v1, v2, h1, rfl, rfl⟩; simpa using h1
  · intro h; exact ⟨v, 0, h, rfl, by ring⟩

theorem ParRel_zero_right (A : K → K → Prop) : REq (ParRel A (fun _ i => i = 0)) A := by
  intro v i
  simp only [ParRel]
  constructor
  · rintro ⟨v1, v2, h1, rfl, rfl⟩; simpa using h1
  · intro h; exact ⟨i, 0, h, rfl, by ring⟩

/-! ### the list-level facts, for both classes -/

theorem relArgs_congr_tail (s : K) (op : Op) (a : Net K) {t t' : List (Net K)} (h : REq (relArgs s op t) (relArgs s op t')) :
    REq (relArgs s op (a :: t)) (relArgs s op (a :: t')) := by
  cases op
  · exact SerRel_congr (REq.refl _) h
  · exact ParRel_congr (REq.refl _) h

theorem relArgs_congr_head (s : K) (op : Op) {a a' : Net K} (t : List (Net K)) (h : REq (a.rel s) (a'.rel s)) :
    REq (relArgs s op (a :: t)) (relArgs s op (a' :: t)) := by
  cases op
  · exact SerRel_congr h (REq.refl _)
  · exact ParRel_congr h (REq.refl _)

theorem relArgs_swap (s : K) (op : Op) (a b : Net K) (t : List (Net K)) :
    REq (relArgs s op (a :: b :: t)) (relArgs s op (b :: a :: t)) := by
  cases op
  · exact ((SerRel_assoc _ _ _).trans (SerRel_congr (SerRel_comm _ _) (REq.refl _))).trans (SerRel_assoc _ _ _).symm
  · exact ((ParRel_assoc _ _ _).trans (ParRel_congr (ParRel_comm _ _) (REq.refl _))).trans (ParRel_assoc _ _ _).symm

theorem relArgs_singleton (s : K) (op : Op) (x : Net K) : REq (relArgs s op [x]) (x.rel s) := by
  cases op
  · exact SerRel_zero_right _
  · exact ParRel_zero_right _

/-- splicing the arguments of a nested network of the same class (the flattening of `simplify`) -/
theorem relArgs_append (s : K) (op : Op) (xs r : List (Net K)) :
    REq (relArgs s op (xs ++ r)) (relArgs s op (mk op xs :: r)) := by
  induction xs with
  | nil =>
    cases op
    · intro v i
      simp only [List.nil_append, relArgs, relSer, mk, Net.rel, SerRel]
      constructor
      · intro h; exact ⟨0, v, rfl, h, by ring⟩
      · rintro ⟨v1, v2, rfl, h2, rfl⟩; simpa using h2
    · intro v i
      simp only [List.nil_append, relArgs, relPar, mk, Net.rel, ParRel]
      constructor
      · intro h; exact ⟨0, i, rfl, h, by ring⟩
      · rintro ⟨v1, v2, rfl, h2, rfl⟩; simpa using h2
  | cons x xs ih =>
    cases op
    · have : REq (relArgs s .ser (x :: (xs ++ r))) (SerRel (x.rel s) (SerRel (relArgs s .ser xs) (relArgs s .ser r))) :=
        SerRel_congr (REq.refl _) ih
      exact this.trans (SerRel_assoc _ _ _)
    · have : REq (relArgs s .par (x :: (xs ++ r))) (ParRel (x.rel s) (ParRel (relArgs s .par xs) (relArgs s .par r))) :=
        ParRel_congr (REq.refl _) ih
      exact this.trans (ParRel_assoc _ _ _)

/-- the first two arguments as a nested pair -/
theorem relArgs_pair (s : K) (op : Op) (a b : Net K) (t : List (Net K)) :
    REq (relArgs s op (a :: b :: t)) (relArgs s op (mk op [a, b] :: t)) :=
  relArgs_append s op [a, b] t

/-! ### `_combine` on the head pair -/

theorem combGuardB_sound (s : K) (op : Op) (a b : Leaf K) (h : combGuardB s op a b = true) : combGuard s op a b := by
  cases op <;> cases a <;> cases b <;> simp_all [combGuardB, combGuard]

theorem combine_pair_sound (s : K) (op : Op) (a b y : Leaf K) (h : combine op a b = .one y)
    (hg : combGuardB s op a b = true) : REq ((mk op [.leaf a, .leaf b]).rel s) ((Net.leaf y).rel s) := by
  intro v i
  rw [pairRel_mk]
  simp only [Net.rel]
  unfold combine at h
  split at h
  · exact combineDiff_sound s op a b y h v i
  · exact combineSame_sound s op a b y h (combGuardB_sound s op a b hg) v i

/-! ### inner loop -/

theorem absorb_sound (s : K) (op : Op) : ∀ (l : List (Net K)) (acc acc' : Leaf K) (l' : List (Net K)) (ch : Bool),
    absorb op acc l = .ok (acc', l', ch) → absorbGuard s op acc l = true →
    REq (relArgs s op (.leaf acc :: l)) (relArgs s op (.leaf acc' :: l'))
  | [], acc, acc', l', ch, h, _ => by
      simp only [absorb, Except.ok.injEq, Prod.mk.injEq] at h
      obtain ⟨rfl, rfl, _⟩ := h
      exact REq.refl _
  | .leaf x :: t, acc, acc', l', ch, h, hg => by
      simp only [absorb] at h
      simp only [absorbGuard] at hg
      cases hc : combine op acc x with
      | error e => simp [hc] at h
      | one y =>
        simp only [hc, Bool.and_eq_true] at h hg
        cases hr : absorb op y t with
        | error e => simp [hr, bind, Except.bind] at h
        | ok r =>
          obtain ⟨a2, t2, c2⟩ := r
          simp only [hr, bind, Except.bind, pure, Except.pure, Except.ok.injEq, Prod.mk.injEq] at h
          obtain ⟨rfl, rfl, _⟩ := h
          have ih := absorb_sound s op t y a2 t2 c2 hr hg.2
          have h1 := relArgs_pair s op (.leaf acc) (.leaf x) t
          have h2 := relArgs_congr_head s op t (combine_pair_sound s op acc x y hc hg.1)
          exact (h1.trans h2).trans ih
      | none =>
        simp only [hc] at h hg
        cases hr : absorb op acc t with
        | error e => simp [hr, bind, Except.bind] at h
        | ok r =>
          obtain ⟨a2, t2, c2⟩ := r
          simp only [hr, bind, Except.bind, pure, Except.pure, Except.ok.injEq, Prod.mk.injEq] at h
          obtain ⟨rfl, rfl, _⟩ := h
          have ih := absorb_sound s op t acc a2 t2 c2 hr hg
          exact ((relArgs_swap s op _ _ t).trans (relArgs_congr_tail s op (.leaf x) ih)).trans (relArgs_swap s op _ _ t2)
  | .ser as :: t, acc, acc', l', ch, h, hg => by
      simp only [absorb] at h
      simp only [absorbGuard] at hg
      cases hr : absorb op acc t with
      | error e => simp [hr, bind, Except.bind] at h
      | ok r =>
        obtain ⟨a2, t2, c2⟩ := r
        simp only [hr, bind, Except.bind, pure, Except.pure, Except.ok.injEq, Prod.mk.injEq] at h
        obtain ⟨rfl, rfl, _⟩ := h
        have ih := absorb_sound s op t acc a2 t2 c2 hr hg
        exact ((relArgs_swap s op _ _ t).trans (relArgs_congr_tail s op (.ser as) ih)).trans (relArgs_swap s op _ _ t2)
  | .par as :: t, acc, acc', l', ch, h, hg => by
      simp only [absorb] at h
      simp only [absorbGuard] at hg
      cases hr : absorb op acc t with
      | error e => simp [hr, bind, Except.bind] at h
      | ok r =>
        obtain ⟨a2, t2, c2⟩ := r
        simp only [hr, bind, Except.bind, pure, Except.pure, Except.ok.injEq, Prod.mk.injEq] at h
        obtain ⟨rfl, rfl, _⟩ := h
        have ih := absorb_sound s op t acc a2 t2 c2 hr hg
        exact ((relArgs_swap s op _ _ t).trans (relArgs_congr_tail s op (.par as) ih)).trans (relArgs_swap s op _ _ t2)

/-! ### outer loop -/

theorem scan_sound (s : K) (op : Op) : ∀ (f : Nat) (l l' : List (Net K)) (ch : Bool),
    scan op f l = .ok (l', ch) → scanGuard s op f l = true → REq (relArgs s op l) (relArgs s op l')
  | 0, l, l', ch, h, _ => by
      simp only [scan, Except.ok.injEq, Prod.mk.injEq] at h
      obtain ⟨rfl, _⟩ := h
      exact REq.refl _
  | f + 1, [], l', ch, h, _ => by
      simp only [scan, Except.ok.injEq, Prod.mk.injEq] at h
      obtain ⟨rfl, _⟩ := h
      exact REq.refl _
  | f + 1, .leaf a :: t, l', ch, h, hg => by
      simp only [scan] at h
      simp only [scanGuard, Bool.and_eq_true] at hg
      cases hr : absorb op a t with
      | error e => simp [hr, bind, Except.bind] at h
      | ok r =>
        obtain ⟨a2, t2, c2⟩ := r
        simp only [hr, bind, Except.bind] at h
        cases hs : scan op f t2 with
        | error e => simp [hs] at h
        | ok r2 =>
          obtain ⟨rest, c3⟩ := r2
          simp only [hs, pure, Except.pure, Except.ok.injEq, Prod.mk.injEq] at h
          obtain ⟨rfl, _⟩ := h
          have h1 := absorb_sound s op t a a2 t2 c2 hr hg.1
          have hg2 : scanGuard s op f t2 = true := by simpa [hr] using hg.2
          have h2 := scan_sound s op f t2 rest c3 hs hg2
          exact h1.trans (relArgs_congr_tail s op (.leaf a2) h2)
  | f + 1, .ser as :: t, l', ch, h, hg => by
      simp only [scan] at h
      simp only [scanGuard] at hg
      cases hs : scan op f t with
      | error e => simp [hs, bind, Except.bind] at h
      | ok r2 =>
        obtain ⟨rest, c3⟩ := r2
        simp only [hs, bind, Except.bind, pure, Except.pure, Except.ok.injEq, Prod.mk.injEq] at h
        obtain ⟨rfl, _⟩ := h
        exact relArgs_congr_tail s op (.ser as) (scan_sound s op f t rest c3 hs hg)
  | f + 1, .par as :: t, l', ch, h, hg => by
      simp only [scan] at h
      simp only [scanGuard] at hg
      cases hs : scan op f t with
      | error e => simp [hs, bind, Except.bind] at h
      | ok r2 =>
        obtain ⟨rest, c3⟩ := r2
        simp only [hs, bind, Except.bind, pure, Except.pure, Except.ok.injEq, Prod.mk.injEq] at h
        obtain ⟨rfl, _⟩ := h
        exact relArgs_congr_tail s op (.par as) (scan_sound s op f t rest c3 hs hg)

/-! ### the tail of `simplify` -/

/-- the part of `simplify` after the flattening loop: constructor check, scan, rebuild -/
theorem simplify_finish (s : K) (op : Op) (flat : List (Net K)) (new : Bool) (m : Net K)
    (h : (do
        if new then ctorCheck op flat
        let (args, ch) ← scan op flat.length flat
        if ch then
          match args with
          | [x] => pure x
          | _ => do ctorCheck op args; pure (mk op args)
        else pure (mk op flat) : Except String (Net K)) = .ok m)
    (hg : scanGuard s op flat.length flat = true) : REq (relArgs s op flat) (m.rel s) := by
  -- drop the constructor check in front
  have h' : (do
        let (args, ch) ← scan op flat.length flat
        if ch then
          match args with
          | [x] => pure x
          | _ => do ctorCheck op args; pure (mk op args)
        else pure (mk op flat) : Except String (Net K)) = .ok m := by
    cases new
    · simpa [bind, Except.bind, pure, Except.pure] using h
    · simp only [if_true, bind, Except.bind] at h
      cases hcc : ctorCheck op flat with
      | error e => simp [hcc] at h
      | ok u => simpa [hcc, bind, Except.bind] using h
  clear h
  cases hs : scan op flat.length flat with
  | error e => simp [hs, bind, Except.bind] at h'
  | ok r =>
    obtain ⟨args, ch⟩ := r
    have hscan := scan_sound s op flat.length flat args ch hs hg
    simp only [hs, bind, Except.bind] at h'
    cases ch
    · simp only [Bool.false_eq_true, if_false, pure, Except.pure, Except.ok.injEq] at h'
      subst h'
      rw [mk_rel]; exact REq.refl _
    · simp only [if_true] at h'
      split at h'
      · simp only [pure, Except.pure, Except.ok.injEq] at h'
        subst h'
        exact hscan.trans (relArgs_singleton s op _)
      · cases hcc : ctorCheck op args with
        | error e => simp [hcc] at h'
        | ok u =>
          simp only [hcc, pure, Except.pure, Except.ok.injEq] at h'
          subst h'
          rw [mk_rel]; exact hscan


end Lcapy.OnePort
