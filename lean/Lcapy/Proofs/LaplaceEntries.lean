/-
  C09 helper lemmas: closed forms of the signals denoted by the raw terms that
  `LaplaceTransformer.term` handles with its own formulas (constant, exp, sin_cos fast path, the
  rect/tri/ramp/rampstep table, undefined functions), independent of the generated table.
-/
import Lcapy.Proofs.Laplace
import Lcapy.Model.Laplace
import Mathlib.Algebra.Order.Field.Basic
import Mathlib.Tactic.Linarith
import Mathlib.Tactic.Positivity
import Mathlib.Tactic.LinearCombination
namespace Lcapy.Laplace
section
variable {K : Type} [Field K]
theorem two_eq : (two : K) = 2 := by norm_num [two]

/-- core of the sin_cos fast path, for a base step delayed by `d` -/
theorem sin_core (E : K → K) (hE : IsExp E) (J : K) (hJ : J * J = -1) (h2 : (2 : K) ≠ 0) (s c al w ph d : K)
    (h1 : s - al - J * w ≠ 0) (h2' : s - al + J * w ≠ 0) :
    let ep := E (J * (ph + w * d))
    let em := E (-(J * (ph + w * d)))
    L E (smul (E (J * ph) / (2 * J)) (expWeight E (J * w) (expWeight E al [.ep c 0 0 d]))
        ++ smul (-(E (-(J * ph)) / (2 * J))) (expWeight E (-(J * w)) (expWeight E al [.ep c 0 0 d]))) s
      = c * ((w * ((ep + em) / 2) + (s - al) * ((ep - em) / (2 * J))) / (w * w + (s - al) * (s - al))
          * E (-(d * s)) * E (al * d)) := by
  intro ep em
  have hJ0 : J ≠ 0 := by intro h; rw [h] at hJ; simp at hJ
  have e1 : ep = E (J * ph) * E (J * w * d) := by
    show E (J * (ph + w * d)) = _
    rw [show J * (ph + w * d) = J * ph + J * w * d by ring, hE.add]
  have e2 : em = E (-(J * ph)) * E (-(J * w) * d) := by
    show E (-(J * (ph + w * d))) = _
    rw [show -(J * (ph + w * d)) = -(J * ph) + -(J * w) * d by ring, hE.add]
  have hden : w * w + (s - al) * (s - al) = (s - al - J * w) * (s - al + J * w) := by
    linear_combination (w * w) * hJ
  rw [e1, e2, hden, show -(d * s) = -(s * d) by ring]
  simp only [expWeight, smul, List.flatMap_cons, List.flatMap_nil, Term.expWeight, List.append_nil, List.map_cons, List.map_nil,
    Term.smul, List.cons_append, List.nil_append, L_cons, L_nil, Term.L, pw_eq]
  generalize E (J * ph) = A
  generalize E (-(J * ph)) = A'
  generalize E (J * w * d) = B
  generalize E (-(J * w) * d) = B'
  generalize E (al * d) = C
  generalize E (-(s * d)) = D
  have h3 : s - (0 + al + J * w) ≠ 0 := by rw [show s - (0 + al + J * w) = s - al - J * w by ring]; exact h1
  have h4 : s - (0 + al + -(J * w)) ≠ 0 := by rw [show s - (0 + al + -(J * w)) = s - al + J * w by ring]; exact h2'
  rw [show s - (0 + al + J * w) = s - al - J * w by ring, show s - (0 + al + -(J * w)) = s - al + J * w by ring]
  field_simp
  ring

theorem inv_J (J : K) (hJ : J * J = -1) (x : K) : x / (2 * J) = -(J * x) / 2 := by
  have hJ0 : J ≠ 0 := by intro h; rw [h] at hJ; simp at hJ
  by_cases h2 : (2 : K) = 0
  · simp [h2]
  · field_simp
    linear_combination x * hJ

theorem cos_core (E : K → K) (hE : IsExp E) (J : K) (hJ : J * J = -1) (h2 : (2 : K) ≠ 0) (s c al w ph d : K)
    (h1 : s - al - J * w ≠ 0) (h2' : s - al + J * w ≠ 0) :
    let ep := E (J * (ph + w * d))
    let em := E (-(J * (ph + w * d)))
    L E (smul (E (J * ph) / 2) (expWeight E (J * w) (expWeight E al [.ep c 0 0 d]))
        ++ smul (E (-(J * ph)) / 2) (expWeight E (-(J * w)) (expWeight E al [.ep c 0 0 d]))) s
      = c * ((w * (-((ep - em) / (2 * J))) + (s - al) * ((ep + em) / 2)) / (w * w + (s - al) * (s - al))
          * E (-(d * s)) * E (al * d)) := by
  intro ep em
  have hJ0 : J ≠ 0 := by intro h; rw [h] at hJ; simp at hJ
  have e1 : ep = E (J * ph) * E (J * w * d) := by
    show E (J * (ph + w * d)) = _
    rw [show J * (ph + w * d) = J * ph + J * w * d by ring, hE.add]
  have e2 : em = E (-(J * ph)) * E (-(J * w) * d) := by
    show E (-(J * (ph + w * d))) = _
    rw [show -(J * (ph + w * d)) = -(J * ph) + -(J * w) * d by ring, hE.add]
  have hden : w * w + (s - al) * (s - al) = (s - al - J * w) * (s - al + J * w) := by
    linear_combination (w * w) * hJ
  rw [inv_J J hJ, e1, e2, hden, show -(d * s) = -(s * d) by ring]
  simp only [expWeight, smul, List.flatMap_cons, List.flatMap_nil, Term.expWeight, List.append_nil, List.map_cons, List.map_nil,
    Term.smul, List.cons_append, List.nil_append, L_cons, L_nil, Term.L, pw_eq]
  generalize E (J * ph) = A
  generalize E (-(J * ph)) = A'
  generalize E (J * w * d) = B
  generalize E (-(J * w) * d) = B'
  generalize E (al * d) = C
  generalize E (-(s * d)) = D
  have h3 : s - (0 + al + J * w) ≠ 0 := by rw [show s - (0 + al + J * w) = s - al - J * w by ring]; exact h1
  have h4 : s - (0 + al + -(J * w)) ≠ 0 := by rw [show s - (0 + al + -(J * w)) = s - al + J * w by ring]; exact h2'
  rw [show s - (0 + al + J * w) = s - al - J * w by ring, show s - (0 + al + -(J * w)) = s - al + J * w by ring]
  field_simp
  ring
end

section
variable {K : Type} [Field K] [LinearOrder K] [IsStrictOrderedRing K]

set_option hygiene false in
macro "unfold_sem" : tactic => `(tactic|
  simp [specValue, sem, semProd, expandAtoms, expandFn, semSimple, List.filterMap, deltaSel, stepSel, offSel, List.filter, isSmooth, applySmooth,
    tmul, Term.tmul, smul, Term.smul, two_eq, Term.L, pw, ofN, expWeight, Term.expWeight, le_of_lt ha])

set_option hygiene false in
macro "fin_sem" : tactic => `(tactic|
  (have hi : 0 < a⁻¹ := inv_pos.mpr ha
   simp only [div_eq_mul_inv]
   split_ifs <;> first
    | (simp [hE.zero]; field_simp; ring1)
    | (exfalso; nlinarith [hi])
    | (exfalso; simp at *; nlinarith [hi])))

theorem spec_tri (env : Env K) (hE : IsExp env.E) (a : K) (ha : 0 < a) (hs : env.s ≠ 0) :
    specValue env (.prod 1 [.fn .tri a 0]) =
      some (1 / env.s - a * (1 - env.E (-(env.s * (1 / a)))) / env.s ^ 2) := by
  unfold_sem
  fin_sem

theorem spec_rampstep (env : Env K) (hE : IsExp env.E) (a : K) (ha : 0 < a) (hs : env.s ≠ 0) :
    specValue env (.prod 1 [.fn .rampstep a 0]) =
      some (a * (1 - env.E (-(env.s * (1 / a)))) / env.s ^ 2) := by
  unfold_sem
  fin_sem

theorem spec_ramp (env : Env K) (hE : IsExp env.E) (a : K) (ha : 0 < a) (hs : env.s ≠ 0) :
    specValue env (.prod 1 [.fn .ramp a 0]) = some (a / env.s ^ 2) := by
  unfold_sem
  simp [hE.zero]
  field_simp

theorem spec_rect (env : Env K) (hE : IsExp env.E) (a : K) (ha : 0 < a) (hs : env.s ≠ 0) :
    specValue env (.prod 1 [.fn .rect a 0]) = some ((1 - env.E (-(env.s * (1 / (2 * a))))) / env.s) := by
  unfold_sem
  fin_sem


theorem const_entry' (env : Env K) (hE : IsExp env.E) (c : K) :
    lcapyTerm env (.prod c []) = (.const, some (c / env.s)) ∧
    specValue env (.prod c []) = some (c / env.s) := by
  constructor
  · simp [lcapyTerm, normAtoms]
  · simp [specValue, sem, semProd, expandAtoms, semSimple, List.filterMap, deltaSel, stepSel, offSel, Term.L, pw, hE.zero]

theorem exp_entry' (env : Env K) (hE : IsExp env.E) (c a : K) (ha : a ≠ 0) :
    lcapyTerm env (.prod c [.exp a]) = (.exp, some (c / (env.s - a))) ∧
    specValue env (.prod c [.exp a]) = some (c / (env.s - a)) := by
  constructor
  · simp [lcapyTerm, normAtoms, ha]
  · simp [specValue, sem, semProd, expandAtoms, semSimple, List.filterMap, deltaSel, stepSel, offSel, List.filter, isSmooth, applySmooth, expWeight,
      Term.expWeight, Term.L, pw, hE.zero]

theorem sin_cos_entry' (env : Env K) (hE : IsExp env.E) (hJ : env.J * env.J = -1) (c al w ph tau : K) (isCos : Bool)
    (h1 : env.s - al - env.J * w ≠ 0) (h2 : env.s - al + env.J * w ≠ 0) :
    specValue env (.prod c [.exp al, .trig isCos w ph, .step 1 (-tau)])
      = some (c * sinCosFormula env al isCos w ph tau) := by
  have h20 : (2 : K) ≠ 0 := two_ne_zero
  cases isCos
  · have key := sin_core env.E hE env.J hJ h20 env.s c al w ph (if 0 ≤ tau then tau else 0) h1 h2
    simp only at key
    simp only [specValue, sem, semProd, expandAtoms, semSimple, List.filterMap, deltaSel, stepSel, offSel, List.filter, isSmooth, applySmooth,
      List.map, List.foldl, List.filterMap, sinCosFormula, two_eq, Option.map]
    simp
    rw [key]
    split_ifs <;> simp
  · have key := cos_core env.E hE env.J hJ h20 env.s c al w ph (if 0 ≤ tau then tau else 0) h1 h2
    simp only at key
    simp only [specValue, sem, semProd, expandAtoms, semSimple, List.filterMap, deltaSel, stepSel, offSel, List.filter, isSmooth, applySmooth,
      List.map, List.foldl, List.filterMap, sinCosFormula, two_eq, Option.map]
    simp
    rw [key]
    split_ifs <;> simp
end

/-! the `sin_cos` entry needs no order on `K` beyond `0 ≤ 1` (an ordered field has no `J` with `J² = −1`: the statement
    over `[LinearOrder K] [IsStrictOrderedRing K]` above is kept for compatibility only; this is the usable form, instantiated
    at ℂ in Proofs/LaplaceSemantics.lean) -/
section
variable {K : Type} [Field K] [LE K] [DecidableLE K] [DecidableEq K]

theorem sin_cos_entry_gen (env : Env K) (hE : IsExp env.E) (hJ : env.J * env.J = -1) (h01 : (0 : K) ≤ 1) (h20 : (2 : K) ≠ 0)
    (c al w ph tau : K) (isCos : Bool)
    (h1 : env.s - al - env.J * w ≠ 0) (h2 : env.s - al + env.J * w ≠ 0) :
    specValue env (.prod c [.exp al, .trig isCos w ph, .step 1 (-tau)])
      = some (c * sinCosFormula env al isCos w ph tau) := by
  cases isCos
  · have key := sin_core env.E hE env.J hJ h20 env.s c al w ph (if 0 ≤ tau then tau else 0) h1 h2
    simp only at key
    simp only [specValue, sem, semProd, expandAtoms, semSimple, List.filterMap, deltaSel, stepSel, offSel, List.filter, isSmooth, applySmooth,
      List.map, List.foldl, List.filterMap, sinCosFormula, two_eq, Option.map]
    simp [h01]
    rw [key]
    split_ifs <;> simp
  · have key := cos_core env.E hE env.J hJ h20 env.s c al w ph (if 0 ≤ tau then tau else 0) h1 h2
    simp only at key
    simp only [specValue, sem, semProd, expandAtoms, semSimple, List.filterMap, deltaSel, stepSel, offSel, List.filter, isSmooth, applySmooth,
      List.map, List.foldl, List.filterMap, sinCosFormula, two_eq, Option.map]
    simp [h01]
    rw [key]
    split_ifs <;> simp

/-- `sin_cos` with a constant in the exponent, `c·e^{αt+β}·sin/cos(ωt+φ)·u(t−τ)`: the factor `e^β` of the code (`if beta != 0: E = exp(beta) * E`) -/
theorem sin_cos_entry_beta' (env : Env K) (hE : IsExp env.E) (hJ : env.J * env.J = -1) (h01 : (0 : K) ≤ 1) (h20 : (2 : K) ≠ 0)
    (c al be w ph tau : K) (isCos : Bool)
    (h1 : env.s - al - env.J * w ≠ 0) (h2 : env.s - al + env.J * w ≠ 0) :
    specValue env (.prod c [.expb al be, .trig isCos w ph, .step 1 (-tau)])
      = some (c * (env.E be * sinCosFormula env al isCos w ph tau)) := by
  have hsm : ∀ d : K, smul (env.E be) (expWeight env.E al [Term.ep c 0 0 d]) = expWeight env.E al [Term.ep (env.E be * c) 0 0 d] := by
    intro d; simp [smul, expWeight, Term.expWeight, Term.smul, mul_assoc]
  cases isCos
  · have key := sin_core env.E hE env.J hJ h20 env.s (env.E be * c) al w ph (if 0 ≤ tau then tau else 0) h1 h2
    simp only at key
    simp only [specValue, sem, semProd, expandAtoms, semSimple, List.filterMap, deltaSel, stepSel, offSel, List.filter, isSmooth, applySmooth,
      List.map, List.foldl, List.filterMap, sinCosFormula, two_eq, Option.map]
    simp [h01]
    rw [hsm, key]
    split_ifs <;> ring_nf
  · have key := cos_core env.E hE env.J hJ h20 env.s (env.E be * c) al w ph (if 0 ≤ tau then tau else 0) h1 h2
    simp only at key
    simp only [specValue, sem, semProd, expandAtoms, semSimple, List.filterMap, deltaSel, stepSel, offSel, List.filter, isSmooth, applySmooth,
      List.map, List.foldl, List.filterMap, sinCosFormula, two_eq, Option.map]
    simp [h01]
    rw [hsm, key]
    split_ifs <;> ring_nf
end
end Lcapy.Laplace
