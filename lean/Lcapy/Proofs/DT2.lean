/-
  Round-3 helper lemmas for property C13: sequences with an origin, convolution algebra, the DTFT rule
  cascade, initial-condition indexing, the `discretize` substitutions, the root-of-unity DFT bins.
-/
import Lcapy.Proofs.DT

namespace Lcapy.DT
open PowerSeries
variable {K : Type} [Field K]
set_option linter.unusedSimpArgs false
set_option linter.unusedVariables false

/-! ### polynomial evaluation -/

@[simp] theorem peval_nil (w : K) : peval ([] : List K) w = 0 := rfl
@[simp] theorem peval_cons (c : K) (p : List K) (w : K) : peval (c :: p) w = c + w * peval p w := rfl

theorem peval_padd (p q : List K) (w : K) : peval (padd p q) w = peval p w + peval q w := by
  induction p generalizing q with
  | nil => simp [padd]
  | cons a p ih =>
    cases q with
    | nil => simp [padd]
    | cons b q => simp [padd, ih]; ring

theorem peval_pscale (c : K) (p : List K) (w : K) : peval (pscale c p) w = c * peval p w := by
  induction p with
  | nil => simp [pscale]
  | cons a p ih =>
    have : pscale c (a :: p) = (c * a) :: pscale c p := rfl
    rw [this, peval_cons, ih]; simp; ring

theorem peval_pneg (p : List K) (w : K) : peval (pneg p) w = - peval p w := by
  induction p with
  | nil => simp [pneg]
  | cons a p ih =>
    have : pneg (a :: p) = (-a) :: pneg p := rfl
    rw [this, peval_cons, ih]; simp; ring

theorem peval_psub (p q : List K) (w : K) : peval (psub p q) w = peval p w - peval q w := by
  simp [psub, peval_padd, peval_pneg]; ring

theorem peval_pmul (p q : List K) (w : K) : peval (pmul p q) w = peval p w * peval q w := by
  induction p with
  | nil => simp [pmul]
  | cons a p ih => simp [pmul, peval_padd, peval_pscale, ih]; ring

theorem peval_pshift (d : ℕ) (p : List K) (w : K) : peval (pshift d p) w = w ^ d * peval p w := by
  induction d with
  | zero => simp [pshift]
  | succ d ih =>
    have : pshift (d + 1) p = 0 :: pshift d p := by simp [pshift, List.replicate_succ]
    rw [this, peval_cons, ih]; ring

theorem peval_pdilateFrom (a s : K) (p : List K) (w : K) :
    peval (pdilateFrom a s p) w = s * peval p (a * w) := by
  induction p generalizing s with
  | nil => simp [pdilateFrom]
  | cons c p ih => simp [pdilateFrom, ih]; ring

theorem peval_ppow (p : List K) (n : ℕ) (w : K) : peval (ppow p n) w = peval p w ^ n := by
  induction n with
  | zero => simp [ppow]
  | succ n ih => simp [ppow, peval_pmul, ih, pow_succ]; ring

/-- two coefficient lists with the same power series (i.e. equal up to trailing zeros) evaluate equally -/
theorem peval_eq_of_toPS (p q : List K) (h : toPS p = toPS q) (w : K) : peval p w = peval q w := by
  induction p generalizing q with
  | nil =>
    induction q with
    | nil => rfl
    | cons b q ih =>
      rw [toPS_nil, toPS_cons] at h
      have h0 : b = 0 := by
        have := congrArg (coeff 0) h; simpa using this.symm
      have h1 : toPS q = 0 := by
        ext n
        have := congrArg (coeff (n + 1)) h
        simpa [coeff_succ_X_mul] using this.symm
      rw [peval_cons, h0, ← ih (by rw [toPS_nil, h1])]; simp
  | cons a p ih =>
    cases q with
    | nil =>
      rw [toPS_nil, toPS_cons] at h
      have h0 : a = 0 := by
        have := congrArg (coeff 0) h; simpa using this
      have h1 : toPS p = toPS [] := by
        ext n
        have := congrArg (coeff (n + 1)) h
        simpa [coeff_succ_X_mul] using this
      rw [peval_cons, h0, ih [] h1]; simp
    | cons b q =>
      rw [toPS_cons, toPS_cons] at h
      have h0 : a = b := by
        have := congrArg (coeff 0) h; simpa using this
      have h1 : toPS p = toPS q := by
        ext n
        have := congrArg (coeff (n + 1)) h
        simpa [coeff_succ_X_mul] using this
      rw [peval_cons, peval_cons, h0, ih q h1]

/-! ### sequences with an origin -/

theorem lsum_pdilateFrom (a s : K) (vals : List K) : lsum (pdilateFrom a s vals) = s * peval vals a := by
  induction vals generalizing s with
  | nil => simp [pdilateFrom, lsum]
  | cons c p ih => simp [pdilateFrom, lsum, ih]; ring

theorem dtftSum_lit_aux (vals : List K) (n0 : ℤ) (q : K) (hq : q ≠ 0) (m : ℕ) :
    dtftSum (litVal vals n0) q n0 m = q ^ n0 * peval (vals.take m) q := by
  induction m generalizing vals with
  | zero => simp [dtftSum]
  | succ m ih =>
    rw [dtftSum, ih]
    have hle : n0 ≤ n0 + Int.ofNat m := by simp
    have e1 : (n0 + Int.ofNat m - n0).toNat = m := by simp
    simp only [litVal, hle, ↓reduceIte, e1, zpowK_eq]
    rw [zpow_add₀ hq]
    have key : ∀ (l : List K) (k : ℕ), peval (l.take (k + 1)) q = peval (l.take k) q + l.getD k 0 * q ^ k := by
      intro l
      induction l with
      | nil => intro k; simp
      | cons c l ihl =>
        intro k
        cases k with
        | zero => simp
        | succ k => simp only [List.take_succ_cons, peval_cons, ihl k, List.getD_cons_succ]; ring
    rw [key]
    simp
    ring

/-- the bilateral defining sum of a literal sequence with first index `n0` -/
theorem dtftSum_lit (vals : List K) (n0 : ℤ) (q : K) (hq : q ≠ 0) :
    dtftSum (litVal vals n0) q n0 vals.length = q ^ n0 * peval vals q := by
  rw [dtftSum_lit_aux vals n0 q hq]; simp

theorem pdilateFrom_length (a s : K) (p : List K) : (pdilateFrom a s p).length = p.length := by
  induction p generalizing s with
  | nil => rfl
  | cons c p ih => simp [pdilateFrom, ih]

theorem pdilateFrom_getD (a s : K) (p : List K) (i : ℕ) :
    (pdilateFrom a s p).getD i 0 = p.getD i 0 * (s * a ^ i) := by
  induction p generalizing s i with
  | nil => simp [pdilateFrom]
  | cons c p ih =>
    cases i with
    | zero => simp [pdilateFrom]
    | succ i => simp only [pdilateFrom, List.getD_cons_succ]; rw [ih]; ring

theorem pdilateFrom_pdilateFrom (a b s t : K) (p : List K) :
    pdilateFrom b t (pdilateFrom a s p) = pdilateFrom (a * b) (s * t) p := by
  induction p generalizing s t with
  | nil => rfl
  | cons c p ih =>
    simp only [pdilateFrom]; rw [ih]
    have e1 : c * s * t = c * (s * t) := by ring
    have e2 : s * a * (t * b) = s * t * (a * b) := by ring
    rw [e1, e2]

theorem pdilateFrom_one (p : List K) : pdilateFrom (1 : K) 1 p = p := by
  have : ∀ s : K, s = 1 → pdilateFrom (1 : K) s p = p := by
    induction p with
    | nil => intro s _; rfl
    | cons c p ih => intro s hs; subst hs; simp [pdilateFrom, ih]
  exact this 1 rfl

/-! ### convolution algebra -/

theorem lfilterPy_length (b a x : List K) : (lfilterPy b a x).length = x.length := by simp [lfilterPy]

theorem convolvePy_length (x h : List K) (hx : x ≠ []) (hh : h ≠ []) :
    (convolvePy x h).length = x.length + (h.length - 1) := by
  simp [convolvePy, hx, hh, lfilterPy_length]

theorem bsum_litZ_high (h x : List K) (n : ℕ) (hn : x.length + (h.length - 1) ≤ n) (hh : h ≠ []) :
    bsum h (litZ x) n = 0 := by
  have gen : ∀ (h : List K) (i : ℤ), (x.length : ℤ) + (h.length : ℤ) - 1 ≤ i → bsum h (litZ x) i = 0 := by
    intro h
    induction h with
    | nil => intro i _; simp [bsum]
    | cons c cs ih =>
      intro i hi
      simp only [bsum]
      have h1 : litZ x i = 0 := by
        simp only [List.length_cons] at hi
        have h0 : 0 ≤ i := by omega
        simp only [litZ, h0, ↓reduceIte]
        exact List.getD_eq_default _ _ (by omega)
      rw [h1, ih (i - 1) (by simp only [List.length_cons] at hi; push_cast at hi ⊢; omega)]; simp
  apply gen
  cases h with
  | nil => exact absurd rfl hh
  | cons c cs => simp only [List.length_cons] at hn ⊢; push_cast; omega

theorem mk_litZ (x : List K) : PowerSeries.mk (fun n : ℕ => litZ x n) = toPS x := by
  ext n; simp [litZ, toPS]

theorem extZ_coeff_toPS (x : List K) : extZ (fun m => coeff m (toPS x)) = litZ x := by
  funext i
  by_cases hi : 0 ≤ i <;> simp [extZ, litZ, hi, coeff_toPS]

/-- `Sequence.convolve` multiplies the generating polynomials -/
theorem toPS_convolve (x h : List K) (hx : x ≠ []) (hh : h ≠ []) :
    toPS (convolvePy x h) = toPS h * toPS x := by
  ext n
  rw [coeff_toPS, coeff_toPS_mul, extZ_coeff_toPS]
  by_cases hn : n < x.length + (h.length - 1)
  · rw [convolve_getD x h hx hh n hn]; rfl
  · rw [List.getD_eq_default _ _ (by rw [convolvePy_length x h hx hh]; omega)]
    exact (bsum_litZ_high h x n (by omega) hh).symm

theorem list_eq_of_toPS (p q : List K) (hl : p.length = q.length) (h : toPS p = toPS q) : p = q := by
  apply List.ext_getElem hl
  intro i h1 h2
  have := congrArg (coeff i) h
  rw [coeff_toPS, coeff_toPS, List.getD_eq_getElem _ _ h1, List.getD_eq_getElem _ _ h2] at this
  exact this

theorem convolvePy_ne_nil (x h : List K) (hx : x ≠ []) (hh : h ≠ []) : convolvePy x h ≠ [] := by
  intro e
  have := convolvePy_length x h hx hh
  rw [e] at this
  cases x with
  | nil => exact hx rfl
  | cons _ _ => simp only [List.length_cons, List.length_nil] at this; omega

/-! ### initial conditions -/

theorem respY_neg (b a : List K) (x : ℤ → K) (ic : List K) (i : ℕ) :
    respY b a x ic (-((i : ℤ) + 1)) = ic.getD i 0 := by
  have h1 : ¬ (0 ≤ -((i : ℤ) + 1)) := by omega
  have h2 : (-(-((i : ℤ) + 1)) - 1).toNat = i := by omega
  simp only [respY, h1, ↓reduceIte, h2]

theorem bsum_congr (c : List K) (u v : ℤ → K) (i : ℤ) (h : ∀ k : ℕ, k < c.length → u (i - k) = v (i - k)) :
    bsum c u i = bsum c v i := by
  induction c generalizing i with
  | nil => simp [bsum]
  | cons a cs ih =>
    simp only [bsum]
    have h0 := h 0 (by simp)
    simp at h0
    rw [h0, ih (i - 1)]
    intro k hk
    have := h (k + 1) (by simpa using hk)
    have e : i - ((k + 1 : ℕ) : ℤ) = i - 1 - (k : ℤ) := by push_cast; omega
    rw [e] at this; exact this

/-- `Σ_{k≥1} a_k ic[k-1]`: how the initial conditions enter the first output sample -/
theorem bsum_ic (c ic : List K) (b a : List K) (x : ℤ → K) (hl : c.length ≤ ic.length) :
    bsum c (respY b a x ic) (-1) = dot c ic := by
  have gen : ∀ (c : List K) (j : ℕ) , c.length + j ≤ ic.length →
      bsum c (respY b a x ic) (-((j : ℤ) + 1)) = dot c (ic.drop j) := by
    intro c
    induction c with
    | nil => intro j _; simp [bsum, dot]
    | cons a0 cs ih =>
      intro j hj
      simp only [List.length_cons] at hj
      have hdrop : ic.drop j = ic.getD j 0 :: ic.drop (j + 1) := by
        rw [List.getD_eq_getElem _ _ (by omega)]
        exact List.drop_eq_getElem_cons (by omega)
      rw [hdrop]
      simp only [bsum, dot, respY_neg]
      have e : -((j : ℤ) + 1) - 1 = -(((j + 1 : ℕ) : ℤ) + 1) := by push_cast; ring
      rw [e, ih (j + 1) (by omega)]
  have := gen c 0 (by simpa using hl)
  simpa using this


/-! ### DTFT: finite bilateral sums -/

theorem dtftSum_add (x y : ℤ → K) (q : K) (lo : ℤ) (len : ℕ) :
    dtftSum (fun n => x n + y n) q lo len = dtftSum x q lo len + dtftSum y q lo len := by
  induction len with
  | zero => simp [dtftSum]
  | succ m ih => simp only [dtftSum, ih]; ring

theorem dtftSum_smul (c : K) (x : ℤ → K) (q : K) (lo : ℤ) (len : ℕ) :
    dtftSum (fun n => c * x n) q lo len = c * dtftSum x q lo len := by
  induction len with
  | zero => simp [dtftSum]
  | succ m ih => simp only [dtftSum, ih]; ring

theorem dtftSum_congr (x y : ℤ → K) (q : K) (lo : ℤ) (len : ℕ)
    (h : ∀ i : ℕ, i < len → x (lo + i) = y (lo + i)) : dtftSum x q lo len = dtftSum y q lo len := by
  induction len with
  | zero => simp [dtftSum]
  | succ m ih =>
    simp only [dtftSum]
    rw [ih (fun i hi => h i (by omega))]
    have := h m (by omega)
    simp only [Int.ofNat_eq_natCast]
    rw [this]

theorem dtftSum_shift (x : ℤ → K) (q : K) (hq : q ≠ 0) (lo m : ℤ) (len : ℕ) :
    dtftSum (fun n => x (n - m)) q (lo + m) len = q ^ m * dtftSum x q lo len := by
  induction len with
  | zero => simp [dtftSum]
  | succ k ih =>
    simp only [dtftSum, ih, zpowK_eq]
    have e1 : lo + m + Int.ofNat k - m = lo + Int.ofNat k := by ring
    have e2 : lo + m + Int.ofNat k = m + (lo + Int.ofNat k) := by ring
    rw [e1, e2, zpow_add₀ hq]; ring

theorem dtftSum_modulate (x : ℤ → K) (r q : K) (lo : ℤ) (len : ℕ) :
    dtftSum (fun n => r ^ n * x n) q lo len = dtftSum x (r * q) lo len := by
  induction len with
  | zero => simp [dtftSum]
  | succ k ih => simp only [dtftSum, ih, zpowK_eq, mul_zpow]; ring

theorem dtftSum_impulse (d : ℤ) (q : K) (lo : ℤ) (len : ℕ) :
    dtftSum (fun n => if n = d then (1 : K) else 0) q lo len
      = if lo ≤ d ∧ d < lo + len then q ^ d else 0 := by
  induction len with
  | zero =>
    have : ¬ (lo ≤ d ∧ d < lo + ((0 : ℕ) : ℤ)) := by omega
    simp [dtftSum, this]
  | succ k ih =>
    simp only [dtftSum, ih, zpowK_eq, Int.ofNat_eq_natCast]
    by_cases h1 : lo + (k : ℤ) = d
    · have h2 : ¬ (lo ≤ d ∧ d < lo + (k : ℤ)) := by omega
      have h3 : lo ≤ d ∧ d < lo + ((k + 1 : ℕ) : ℤ) := by push_cast; omega
      rw [if_neg h2, if_pos h1, if_pos h3, h1]; ring
    · by_cases h2 : lo ≤ d ∧ d < lo + (k : ℤ)
      · have h3 : lo ≤ d ∧ d < lo + ((k + 1 : ℕ) : ℤ) := by push_cast; omega
        rw [if_pos h2, if_neg h1, if_pos h3]; ring
      · have h3 : ¬ (lo ≤ d ∧ d < lo + ((k + 1 : ℕ) : ℤ)) := by push_cast; omega
        rw [if_neg h2, if_neg h1, if_neg h3]; ring

/-- the code's cos rule on the defining sum: `1/2 (e^{-jc} X(Ω+b) + e^{jc} X(Ω-b))`, `X(Ω∓b)` being the sum at
    `E e^{±jb}` -/
theorem dtftSum_cos (x : ℤ → K) (eb ec q : K) (lo : ℤ) (len : ℕ) :
    dtftSum (fun n => (DMod.cos eb ec).val n * x n) q lo len
      = 1 / (1 + 1) * (1 / ec * dtftSum x (1 / eb * q) lo len + ec * dtftSum x (eb * q) lo len) := by
  rw [← dtftSum_modulate, ← dtftSum_modulate, ← dtftSum_smul, ← dtftSum_smul, ← dtftSum_add, ← dtftSum_smul]
  apply dtftSum_congr
  intro i _
  simp only [DMod.val, zpowK_eq, one_div, inv_zpow, mul_inv]
  ring

theorem dtftSum_sin (x : ℤ → K) (eb ec j q : K) (hj : j * j = -1) (lo : ℤ) (len : ℕ) :
    dtftSum (fun n => (DMod.sin eb ec j).val n * x n) q lo len
      = j / (1 + 1) * (1 / ec * dtftSum x (1 / eb * q) lo len + (-ec) * dtftSum x (eb * q) lo len) := by
  rw [← dtftSum_modulate, ← dtftSum_modulate, ← dtftSum_smul, ← dtftSum_smul, ← dtftSum_add, ← dtftSum_smul]
  apply dtftSum_congr
  intro i _
  have hj0 : j ≠ 0 := by rintro rfl; simp at hj
  have hinv : j⁻¹ = -j := inv_eq_of_mul_eq_one_right (by linear_combination -hj)
  have e : (1 / eb) ^ (lo + (i : ℤ)) = (eb ^ (lo + (i : ℤ)))⁻¹ := by rw [one_div, inv_zpow]
  simp only [DMod.val, zpowK_eq, e]
  simp only [div_eq_mul_inv, mul_inv, hinv, one_mul]
  ring

/-! ### DTFT: the rule cascade gives the defining series (causal terms) -/

theorem IsZT.of_toPS {x : ℕ → K} {r s : ZR K} (h : IsZT x r) (h0 : s.adv = 0)
    (hn : toPS s.num = toPS r.num) (hd : toPS s.den = toPS r.den) : IsZT x s := by
  obtain ⟨_, h1, h2⟩ := h
  refine ⟨h0, by rw [hn, hd]; exact h1, ?_⟩
  rw [headD_eq] at h2 ⊢
  rwa [hd]

theorem isZT_dtftGate (a : K) (isStep : Bool) (m : ℕ) :
    IsZT (fun n : ℕ => a ^ n * (if isStep then (if m ≤ n then (1 : K) else 0) else (if n = m then 1 else 0)))
      (dtftGate a isStep (m : ℤ)) := by
  have hm : (m : ℤ) ≥ 0 := by omega
  cases isStep with
  | false =>
    refine ⟨by simp [dtftGate], ?_, by simp [dtftGate]⟩
    simp only [dtftGate, hm, ↓reduceIte, Bool.false_eq_true, toPS_one, one_mul, toPS_pshift, Int.toNat_natCast,
      zpowK_eq, zpow_natCast]
    ext n
    simp only [coeff_mk, toPS_cons, toPS_nil, mul_zero, add_zero, coeff_X_pow_mul', coeff_C]
    by_cases h : n = m
    · subst h; simp
    · have h1 : ¬ (m ≤ n ∧ n - m = 0) := by omega
      by_cases h2 : m ≤ n
      · have : n - m ≠ 0 := by omega
        simp [h, h2, this]
      · simp [h, h2]
  | true =>
    refine ⟨by simp [dtftGate], ?_, by simp [dtftGate]⟩
    simp only [dtftGate, hm, ↓reduceIte, toPS_pshift, Int.toNat_natCast, zpowK_eq, zpow_natCast]
    ext n
    rw [coeff_toPS_mul]
    simp only [bsum, extZ, coeff_mk, toPS_cons, toPS_nil, mul_zero, add_zero, coeff_X_pow_mul', coeff_C]
    cases n with
    | zero =>
      by_cases h : m = 0
      · subst h; simp
      · have : ¬ (m ≤ 0) := by omega
        simp [this]
    | succ n =>
      have h0 : (0 : ℤ) ≤ ((n + 1 : ℕ) : ℤ) := by omega
      have h1 : (0 : ℤ) ≤ ((n + 1 : ℕ) : ℤ) - 1 := by push_cast; omega
      have h2 : (((n + 1 : ℕ) : ℤ) - 1).toNat = n := by push_cast; omega
      simp only [h0, h1, h2, ↓reduceIte, Int.toNat_natCast]
      by_cases c1 : m ≤ n
      · have c2 : m ≤ n + 1 := by omega
        have c3 : n + 1 - m ≠ 0 := by omega
        simp [c1, c2, c3, pow_succ]; ring
      · by_cases c2 : m ≤ n + 1
        · have c3 : n + 1 - m = 0 := by omega
          have c4 : m = n + 1 := by omega
          simp [c1, c2, c3, c4]
        · simp [c1, c2]

/-- side conditions of the DTFT soundness theorem: causal gate; for a sine the symbol `j` is an imaginary unit -/
def DTerm.ok (t : DTerm K) : Prop :=
  0 ≤ t.d ∧ (match t.mod with
    | .sin _ _ j => j * j = -1
    | _ => True)

theorem isZT_dtftReg (t : DTerm K) (h : t.ok) : IsZT (fun n : ℕ => t.val n) (dtftReg t) := by
  obtain ⟨hd, hm⟩ := h
  obtain ⟨m, hm'⟩ := Int.eq_ofNat_of_zero_le hd
  have hg := (isZT_dtftGate t.a t.isStep m).iterMulN t.p
  rw [← hm'] at hg
  have gate_eq : ∀ n : ℕ, (if t.isStep then (if t.d ≤ (n : ℤ) then (1 : K) else 0) else (if (n : ℤ) = t.d then 1 else 0))
      = (if t.isStep then (if m ≤ n then (1 : K) else 0) else (if n = m then 1 else 0)) := by
    intro n
    rw [hm']
    cases t.isStep <;> simp
  cases hmod : t.mod with
  | none =>
    have := hg.scale t.coef
    simp only [dtftReg, hmod]
    refine this.congr (fun n => ?_)
    simp only [DTerm.val, hmod, DMod.val, gate_eq, powK_eq, intK_eq, zpowK_eq, zpow_natCast, Int.cast_natCast]
    ring
  | cos eb ec =>
    have := ((((hg.dilate (1 / eb)).scale (1 / ec)).add ((hg.dilate eb).scale ec)).scale (1 / (1 + 1))).scale t.coef
    simp only [dtftReg, hmod]
    refine this.congr (fun n => ?_)
    simp only [DTerm.val, hmod, DMod.val, gate_eq, powK_eq, intK_eq, zpowK_eq, zpow_natCast, Int.cast_natCast,
      one_div, inv_pow, mul_inv]
    ring
  | sin eb ec j =>
    have hj : j * j = -1 := by simpa [hmod] using hm
    have hj0 : j ≠ 0 := by rintro rfl; simp at hj
    have hinv : j⁻¹ = -j := inv_eq_of_mul_eq_one_right (by linear_combination -hj)
    have := ((((hg.dilate (1 / eb)).scale (1 / ec)).add ((hg.dilate eb).scale (-ec))).scale (j / (1 + 1))).scale t.coef
    simp only [dtftReg, hmod]
    refine this.congr (fun n => ?_)
    simp only [DTerm.val, hmod, DMod.val, gate_eq, powK_eq, intK_eq, zpowK_eq, zpow_natCast, Int.cast_natCast,
      one_div, inv_pow, mul_inv, div_eq_mul_inv, hinv]
    ring

theorem isZT_dtftRegSig (ts : List (DTerm K)) (h : ∀ t ∈ ts, t.ok) :
    IsZT (fun n : ℕ => dsigVal ts n) (dtftRegSig ts) := by
  induction ts with
  | nil => simpa [dsigVal, dtftRegSig] using isZT_zero
  | cons t ts ih =>
    have h1 := isZT_dtftReg t (h t (by simp))
    have h2 := ih (fun t ht => h t (by simp [ht]))
    simpa [dsigVal, dtftRegSig] using h1.add h2

/-- two closed forms of the same sequence evaluate equally wherever both denominators are non-zero -/
theorem eval_eq_of_isZT {x : ℕ → K} {r s : ZR K} (hr : IsZT x r) (hs : IsZT x s) (z : K)
    (h1 : peval r.den (1 / z) ≠ 0) (h2 : peval s.den (1 / z) ≠ 0) : r.eval z = s.eval z := by
  obtain ⟨r0, r1, _⟩ := hr
  obtain ⟨s0, s1, _⟩ := hs
  have e : toPS (pmul r.num s.den) = toPS (pmul s.num r.den) := by
    rw [toPS_pmul, toPS_pmul, ← r1, ← s1]; ring
  have := peval_eq_of_toPS _ _ e (1 / z)
  rw [peval_pmul, peval_pmul] at this
  simp only [ZR.eval, r0, s0, powK_eq, pow_zero, one_mul]
  field_simp
  linear_combination this


/-! ### convolution: commutativity, associativity, origin arithmetic -/

theorem convolvePy_comm (x h : List K) : convolvePy x h = convolvePy h x := by
  by_cases hx : x = []
  · subst hx; simp [convolvePy]
  by_cases hh : h = []
  · subst hh; simp [convolvePy]
  apply list_eq_of_toPS
  · rw [convolvePy_length x h hx hh, convolvePy_length h x hh hx]
    have := List.length_pos_iff.mpr hx
    have := List.length_pos_iff.mpr hh
    omega
  · rw [toPS_convolve x h hx hh, toPS_convolve h x hh hx, mul_comm]

theorem convolvePy_assoc (x h g : List K) (hx : x ≠ []) (hh : h ≠ []) (hg : g ≠ []) :
    convolvePy (convolvePy x h) g = convolvePy x (convolvePy h g) := by
  have n1 := convolvePy_ne_nil x h hx hh
  have n2 := convolvePy_ne_nil h g hh hg
  apply list_eq_of_toPS
  · rw [convolvePy_length _ g n1 hg, convolvePy_length x h hx hh, convolvePy_length x _ hx n2,
      convolvePy_length h g hh hg]
    have := List.length_pos_iff.mpr hx
    have := List.length_pos_iff.mpr hh
    have := List.length_pos_iff.mpr hg
    omega
  · rw [toPS_convolve _ g n1 hg, toPS_convolve x h hx hh, toPS_convolve x _ hx n2, toPS_convolve h g hh hg]
    ring

theorem litZ_eq_extZ (x : List K) : litZ x = extZ (fun m => x.getD m 0) := rfl

theorem litVal_eq_litZ (vals : List K) (n0 n : ℤ) : litVal vals n0 n = litZ vals (n - n0) := by
  by_cases h : n0 ≤ n
  · have : 0 ≤ n - n0 := by omega
    simp [litVal, litZ, h, this]
  · have : ¬ (0 ≤ n - n0) := by omega
    simp [litVal, litZ, h, this]

theorem bsum_shift (c : List K) (u : ℤ → K) (m i : ℤ) :
    bsum c (fun k => u (k - m)) i = bsum c u (i - m) := by
  induction c generalizing i with
  | nil => simp [bsum]
  | cons a cs ih =>
    simp only [bsum, ih]
    have : i - 1 - m = i - m - 1 := by ring
    rw [this]

theorem litZ_convolve (x h : List K) (hx : x ≠ []) (hh : h ≠ []) (i : ℤ) :
    litZ (convolvePy x h) i = bsum h (litZ x) i := by
  by_cases hi : 0 ≤ i
  · obtain ⟨n, rfl⟩ := Int.eq_ofNat_of_zero_le hi
    have h0 : (0 : ℤ) ≤ (n : ℤ) := by omega
    simp only [litZ, h0, ↓reduceIte, Int.toNat_natCast]
    by_cases hn : n < x.length + (h.length - 1)
    · rw [convolve_getD x h hx hh n hn]; rfl
    · rw [List.getD_eq_default _ _ (by rw [convolvePy_length x h hx hh]; omega)]
      exact (bsum_litZ_high h x n (by omega) hh).symm
  · have hneg : i < 0 := by omega
    rw [litZ_causal _ i hneg, litZ_eq_extZ, bsum_extZ_neg _ _ i hneg]

/-! ### difference equation ⇔ transfer function; impulse response; `lfilter` as long division -/

theorem de_iff_transfer (a b : List K) (x y : ℕ → K) :
    toPS a * PowerSeries.mk y = toPS b * PowerSeries.mk x
      ↔ ∀ n : ℕ, bsum a (extZ y) n = bsum b (extZ x) n := by
  have e1 : ∀ u : ℕ → K, extZ (fun m => coeff m (PowerSeries.mk u)) = extZ u := by
    intro u; funext i; simp [extZ]
  constructor
  · intro e n
    have := congrArg (coeff n) e
    rwa [coeff_toPS_mul, coeff_toPS_mul, e1, e1] at this
  · intro e
    ext n
    rw [coeff_toPS_mul, coeff_toPS_mul, e1, e1]
    exact e n

theorem lfilter_zeros_len (a : List K) (ha : a.headD 0 ≠ 0) :
    a.length = (List.replicate (a.length - 1) (0 : K)).length + 1 := by
  cases a with
  | nil => simp at ha
  | cons _ _ => simp

theorem lfilter_ps (b a x : List K) (ha : a.headD 0 ≠ 0) :
    toPS a * PowerSeries.mk (fun n : ℕ => respY b a (litZ x) (List.replicate (a.length - 1) 0) n)
      = toPS (pmul b x) := by
  rw [recursion_ps b a (litZ x) _ ha (lfilter_zeros_len a ha)
    (by intro v hv; exact (List.mem_replicate.mp hv).2) (litZ_causal x), mk_litZ, toPS_pmul]

/-- `Sequence.lfilter(b, a)` = the first `len x` coefficients of `B(w) X(w) / A(w)` (long division), for every order -/
theorem lfilter_eq_series' (b a x : List K) (ha : a.headD 0 ≠ 0) :
    lfilterPy b a x = series (pmul b x) a x.length := by
  apply List.ext_getElem
  · simp [lfilterPy_length, series, seriesFrom_length]
  · intro i h1 h2
    have hi : i < x.length := by simpa [lfilterPy_length] using h1
    have := series_unique (pmul b x) a ha _ (lfilter_ps b a x ha) x.length i hi
    rw [List.getD_eq_getElem _ _ h2] at this
    rw [this, coeff_mk, ← lfilter_getD b a x i hi, List.getD_eq_getElem _ _ h1]

theorem impulse_is_delta_response (b a : List K) (ha : a.headD 0 ≠ 0) (n : ℕ) :
    respY b a (fun i => if i = 0 then 1 else 0) (List.replicate (a.length - 1) 0) n = hCoeff b a n := by
  rw [recursion_is_convolution' b a _ _ ha (lfilter_zeros_len a ha)
    (by intro v hv; exact (List.mem_replicate.mp hv).2) (by intro i hi; simp; omega) n]
  rw [Finset.sum_eq_single (n, 0)]
  · simp
  · intro p hp hne
    have h1 : p.1 + p.2 = n := by simpa using hp
    have : p.2 ≠ 0 := by
      intro h0; apply hne; ext <;> simp <;> omega
    simp [this]
  · intro h; simp at h

/-! ### `discretize` substitutions -/

/-- `Σ_i c_i N^i D^(M-i)` -/
def hval (N D : K) : List K → ℕ → K
  | [], _ => 0
  | c :: cs, M => c * D ^ M + N * hval N D cs (M - 1)

theorem peval_homSubst (sn sd c : List K) (M : ℕ) (w : K) :
    peval (homSubst sn sd c M) w = hval (peval sn w) (peval sd w) c M := by
  induction c generalizing M with
  | nil => simp [homSubst, hval]
  | cons a cs ih => simp [homSubst, hval, peval_padd, peval_pscale, peval_ppow, peval_pmul, ih]

theorem hval_eq (N D : K) (hD : D ≠ 0) (c : List K) (M : ℕ) (h : c.length ≤ M + 1) :
    hval N D c M = D ^ M * peval c (N / D) := by
  induction c generalizing M with
  | nil => simp [hval]
  | cons a cs ih =>
    cases cs with
    | nil => simp [hval]; ring
    | cons a2 cs2 =>
      have hM : 1 ≤ M := by simp at h; omega
      obtain ⟨M', rfl⟩ : ∃ M', M = M' + 1 := ⟨M - 1, by omega⟩
      have := ih M' (by simp at h ⊢; omega)
      simp only [hval, Nat.add_sub_cancel] at this ⊢
      rw [this, peval_cons, peval_cons, peval_cons]
      field_simp
      ring

/-- the model's substitution is composition: `H'(w) = H(sn(w)/sd(w))`, any degrees -/
theorem substRat_eval (num den sn sd : List K) (w : K) (hD : peval sd w ≠ 0) :
    peval (substRat num den sn sd).1 w / peval (substRat num den sn sd).2 w
      = peval num (peval sn w / peval sd w) / peval den (peval sn w / peval sd w) := by
  simp only [substRat, peval_homSubst]
  rw [hval_eq _ _ hD num _ (by omega), hval_eq _ _ hD den _ (by omega)]
  have : peval sd w ^ (max num.length den.length - 1) ≠ 0 := pow_ne_zero _ hD
  rw [mul_div_mul_left _ _ this]

end Lcapy.DT
