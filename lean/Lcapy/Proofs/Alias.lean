/- C16: heap lemmas for the alias model (core Lean only). -/
import Lcapy.Model.Alias
set_option linter.unusedSimpArgs false
namespace Lcapy.Alias

theorem get_alloc_old (h : Heap) (a : Assum) (i : Nat) (hi : i < h.objs.length) : (h.alloc a).1.get i = h.get i := by
  simp [Heap.alloc, Heap.get, List.getElem?_append, hi]

theorem get_alloc_new (h : Heap) (a : Assum) : (h.alloc a).1.get (h.alloc a).2 = a := by
  simp [Heap.alloc, Heap.get]

theorem get_set_other (h : Heap) (i j : Nat) (a : Assum) (hij : i ≠ j) : (h.set j a).get i = h.get i := by
  simp [Heap.set, Heap.get, List.getElem?_set, Ne.symm hij]

theorem alloc_length (h : Heap) (a : Assum) : (h.alloc a).1.objs.length = h.objs.length + 1 := by
  simp [Heap.alloc]

theorem set_length (h : Heap) (i : Nat) (a : Assum) : (h.set i a).objs.length = h.objs.length := by
  simp [Heap.set]

end Lcapy.Alias
