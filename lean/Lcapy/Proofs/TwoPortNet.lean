/-
  Helper lemmas for the TwoPort NETWORK level of C08 (round 3): affine port relations of models
  with sources, the source-vector conversions, Chain.  Only helper material lives here; the
  property theorems are in Lcapy/Props/C08Net.lean.
  (Imports Props/C08.lean to reuse the 64 conversion-soundness theorems.)
-/
import Lcapy.Props.C08
import Lcapy.Generated.TwoPortNet
namespace Lcapy.TwoPort
open Lcapy Lcapy.Spec Lcapy.Gen Lcapy.C08
variable {K : Type} [Field K]
set_option linter.unusedSimpArgs false
set_option linter.unusedVariables false

/-! ### affine relations: translate by a particular solution -/

theorem arel_zero (N : MRep) (m : M2 K) (Z0 : K) (p : Port K) :
    arel N m 0 0 p ↔ rel N.toRep m Z0 p := by
  cases N <;> simp [arel, rel, lin, lin2, MRep.toRep]

theorem arel_sub (N : MRep) (m : M2 K) (s1 s2 Z0 : K) (p0 p : Port K) (h0 : arel N m s1 s2 p0) :
    arel N m s1 s2 p ↔
      rel N.toRep m Z0 ⟨p.V1 - p0.V1, p.I1 - p0.I1, p.V2 - p0.V2, p.I2 - p0.I2⟩ := by
  cases N <;> simp only [arel, rel, lin, lin2, MRep.toRep] at h0 ⊢ <;> obtain ⟨h1, h2⟩ := h0 <;>
    constructor <;> rintro ⟨a, b⟩ <;> constructor <;>
    first | linear_combination a - h1 | linear_combination b - h2
          | linear_combination a + h1 | linear_combination b + h2

/-- two affine relations with the same homogeneous part and one common point coincide -/
theorem affine_transfer (N P : MRep) {m m' : M2 K} {s1 s2 t1 t2 : K} (Z0 : K)
    (hom : ∀ p, rel N.toRep m Z0 p ↔ rel P.toRep m' Z0 p) (p0 : Port K)
    (h0 : arel N m s1 s2 p0) (h0' : arel P m' t1 t2 p0) (p : Port K) :
    arel N m s1 s2 p ↔ arel P m' t1 t2 p := by
  rw [arel_sub N m s1 s2 Z0 p0 p h0, arel_sub P m' t1 t2 Z0 p0 p h0', hom]

/-- the port with all right-hand variables zero -/
def basePort : MRep → K → K → Port K
  | .A, s1, s2 => ⟨s1, s2, 0, 0⟩
  | .B, s1, s2 => ⟨0, 0, s1, -s2⟩
  | .G, s1, s2 => ⟨0, s1, s2, 0⟩
  | .H, s1, s2 => ⟨s1, 0, 0, s2⟩
  | .Y, s1, s2 => ⟨0, s1, 0, s2⟩
  | .Z, s1, s2 => ⟨s1, 0, s2, 0⟩

theorem arel_basePort (N : MRep) (m : M2 K) (s1 s2 : K) : arel N m s1 s2 (basePort N s1 s2) := by
  cases N <;> simp [arel, lin2, basePort]

theorem toRep_VI (P : MRep) : P.toRep ≠ .S ∧ P.toRep ≠ .T := by
  cases P <;> simp [MRep.toRep]

/-! ### dispatch over the six model classes -/

/-- dispatch to the generated conversion `X_to_P` -/
def conv : MRep → MRep → M2 K → K → M2 K
  | .A, .A => A_to_A | .A, .B => A_to_B | .A, .G => A_to_G | .A, .H => A_to_H | .A, .Y => A_to_Y | .A, .Z => A_to_Z
  | .B, .A => B_to_A | .B, .B => B_to_B | .B, .G => B_to_G | .B, .H => B_to_H | .B, .Y => B_to_Y | .B, .Z => B_to_Z
  | .G, .A => G_to_A | .G, .B => G_to_B | .G, .G => G_to_G | .G, .H => G_to_H | .G, .Y => G_to_Y | .G, .Z => G_to_Z
  | .H, .A => H_to_A | .H, .B => H_to_B | .H, .G => H_to_G | .H, .H => H_to_H | .H, .Y => H_to_Y | .H, .Z => H_to_Z
  | .Y, .A => Y_to_A | .Y, .B => Y_to_B | .Y, .G => Y_to_G | .Y, .H => Y_to_H | .Y, .Y => Y_to_Y | .Y, .Z => Y_to_Z
  | .Z, .A => Z_to_A | .Z, .B => Z_to_B | .Z, .G => Z_to_G | .Z, .H => Z_to_H | .Z, .Y => Z_to_Y | .Z, .Z => Z_to_Z

/-- dispatch to the side condition `ok_X_P` of Props/C08.lean -/
def okc : MRep → MRep → M2 K → K → Prop
  | .A, .A => ok_A_A | .A, .B => ok_A_B | .A, .G => ok_A_G | .A, .H => ok_A_H | .A, .Y => ok_A_Y | .A, .Z => ok_A_Z
  | .B, .A => ok_B_A | .B, .B => ok_B_B | .B, .G => ok_B_G | .B, .H => ok_B_H | .B, .Y => ok_B_Y | .B, .Z => ok_B_Z
  | .G, .A => ok_G_A | .G, .B => ok_G_B | .G, .G => ok_G_G | .G, .H => ok_G_H | .G, .Y => ok_G_Y | .G, .Z => ok_G_Z
  | .H, .A => ok_H_A | .H, .B => ok_H_B | .H, .G => ok_H_G | .H, .H => ok_H_H | .H, .Y => ok_H_Y | .H, .Z => ok_H_Z
  | .Y, .A => ok_Y_A | .Y, .B => ok_Y_B | .Y, .G => ok_Y_G | .Y, .H => ok_Y_H | .Y, .Y => ok_Y_Y | .Y, .Z => ok_Y_Z
  | .Z, .A => ok_Z_A | .Z, .B => ok_Z_B | .Z, .G => ok_Z_G | .Z, .H => ok_Z_H | .Z, .Y => ok_Z_Y | .Z, .Z => ok_Z_Z

theorem conv_sound (N P : MRep) : SoundConv N.toRep P.toRep (conv (K := K) N P) (okc N P) :=
  match N, P with
  | .A, .A => A_to_A_sound | .A, .B => A_to_B_sound | .A, .G => A_to_G_sound | .A, .H => A_to_H_sound | .A, .Y => A_to_Y_sound | .A, .Z => A_to_Z_sound
  | .B, .A => B_to_A_sound | .B, .B => B_to_B_sound | .B, .G => B_to_G_sound | .B, .H => B_to_H_sound | .B, .Y => B_to_Y_sound | .B, .Z => B_to_Z_sound
  | .G, .A => G_to_A_sound | .G, .B => G_to_B_sound | .G, .G => G_to_G_sound | .G, .H => G_to_H_sound | .G, .Y => G_to_Y_sound | .G, .Z => G_to_Z_sound
  | .H, .A => H_to_A_sound | .H, .B => H_to_B_sound | .H, .G => H_to_G_sound | .H, .H => H_to_H_sound | .H, .Y => H_to_Y_sound | .H, .Z => H_to_Z_sound
  | .Y, .A => Y_to_A_sound | .Y, .B => Y_to_B_sound | .Y, .G => Y_to_G_sound | .Y, .H => Y_to_H_sound | .Y, .Y => Y_to_Y_sound | .Y, .Z => Y_to_Z_sound
  | .Z, .A => Z_to_A_sound | .Z, .B => Z_to_B_sound | .Z, .G => Z_to_G_sound | .Z, .H => Z_to_H_sound | .Z, .Y => Z_to_Y_sound | .Z, .Z => Z_to_Z_sound

/-- two sound routes to the same representation give the same matrix -/
theorem conv_via (N Q P : MRep) (m : M2 K) (Z0 : K) (h1 : okc N Q m Z0)
    (h2 : okc Q P (conv N Q m Z0) Z0) (h3 : okc N P m Z0) :
    conv N P m Z0 = conv Q P (conv N Q m Z0) Z0 :=
  rel_inj_VI P.toRep (toRep_VI P) Z0 _ _ (fun p => by
    rw [← conv_sound N P m Z0 p h3, conv_sound N Q m Z0 p h1, conv_sound Q P _ Z0 p h2])

theorem TPN_params_eq (t : Stage K) (Z0 : K) :
    TPN_Aparams t Z0 = conv t.rep .A t.m Z0 ∧ TPN_Bparams t Z0 = conv t.rep .B t.m Z0 ∧
    TPN_Gparams t Z0 = conv t.rep .G t.m Z0 ∧ TPN_Hparams t Z0 = conv t.rep .H t.m Z0 ∧
    TPN_Yparams t Z0 = conv t.rep .Y t.m Z0 ∧ TPN_Zparams t Z0 = conv t.rep .Z t.m Z0 := by
  obtain ⟨N, m, s1, s2⟩ := t
  cases N <;> simp [TPN_Aparams, TPN_Bparams, TPN_Gparams, TPN_Hparams, TPN_Yparams, TPN_Zparams, conv,
    A_to_A, B_to_B, G_to_G, H_to_H, Y_to_Y, Z_to_Z]

/-- the X-model conversion selected by the target class -/
def modelOf : MRep → Stage K → K → Stage K
  | .A => TPN_Amodel | .B => TPN_Bmodel | .G => TPN_Gmodel | .H => TPN_Hmodel | .Y => TPN_Ymodel | .Z => TPN_Zmodel

theorem modelOf_rep (P : MRep) (t : Stage K) (Z0 : K) : (modelOf P t Z0).rep = P := by
  cases P <;> rfl

theorem modelOf_m (P : MRep) (t : Stage K) (Z0 : K) : (modelOf P t Z0).m = conv t.rep P t.m Z0 := by
  obtain ⟨h1, h2, h3, h4, h5, h6⟩ := TPN_params_eq t Z0
  cases P <;> simp only [modelOf, TPN_Amodel, TPN_Bmodel, TPN_Gmodel, TPN_Hmodel, TPN_Ymodel, TPN_Zmodel] <;> assumption

theorem modelOf_rel (P : MRep) (t : Stage K) (Z0 : K) (p : Port K) :
    (modelOf P t Z0).rel p ↔ arel P (conv t.rep P t.m Z0) (modelOf P t Z0).s1 (modelOf P t Z0).s2 p := by
  rw [Stage.rel, modelOf_rep, modelOf_m]

theorem model_same (N : MRep) (m : M2 K) (s1 s2 Z0 : K) : modelOf N ⟨N, m, s1, s2⟩ Z0 = ⟨N, m, s1, s2⟩ := by
  cases N <;> rfl

theorem B_chain_affine (ba bb : M2 K) (va ia vb ib V1 I1 V2 I2 : K) :
    (∃ Vm Im, arel .B ba va ia ⟨V1, I1, Vm, Im⟩ ∧ arel .B bb vb ib ⟨Vm, -Im, V2, I2⟩) ↔
    arel .B (M2.mul bb ba) (vb + (mulVec2 bb va ia).1) (ib + (mulVec2 bb va ia).2) ⟨V1, I1, V2, I2⟩ := by
  simp only [arel, lin2, M2.mul, mulVec2]
  constructor
  · rintro ⟨Vm, Im, ⟨h1, h2⟩, h3, h4⟩
    constructor
    · rw [h3, h1, h2]; ring
    · rw [h4, h1, h2]; ring
  · rintro ⟨h1, h2⟩
    refine ⟨ba.a11 * V1 + ba.a12 * I1 + va, -(ba.a21 * V1 + ba.a22 * I1 + ia), ⟨rfl, by ring⟩, ?_, ?_⟩
    · rw [h1]; ring
    · rw [h2]; ring

/-! ### cascades -/

theorem cascRel_single (t : Stage K) (V1 I1 V2 I2 : K) :
    cascRel [t] V1 I1 V2 I2 ↔ t.rel ⟨V1, I1, V2, I2⟩ := by
  simp only [cascRel]
  constructor
  · rintro ⟨Vm, Im, h, rfl, h2⟩
    rw [neg_neg] at h2; subst h2; exact h
  · intro h; exact ⟨V2, I2, h, rfl, (neg_neg _).symm⟩

theorem cascRel_append (l1 l2 : List (Stage K)) (V1 I1 V2 I2 : K) :
    cascRel (l1 ++ l2) V1 I1 V2 I2 ↔ ∃ Vm Im, cascRel l1 V1 I1 Vm Im ∧ cascRel l2 Vm (-Im) V2 I2 := by
  induction l1 generalizing V1 I1 with
  | nil =>
    simp only [List.nil_append, cascRel]
    constructor
    · intro h; exact ⟨V1, -I1, ⟨rfl, rfl⟩, by rw [neg_neg]; exact h⟩
    · rintro ⟨Vm, Im, ⟨rfl, rfl⟩, h⟩; rw [neg_neg] at h; exact h
  | cons t rest ih =>
    simp only [List.cons_append, cascRel]
    constructor
    · rintro ⟨Va, Ia, ht, h⟩
      obtain ⟨Vm, Im, h1, h2⟩ := (ih _ _).mp h
      exact ⟨Vm, Im, ⟨Va, Ia, ht, h1⟩, h2⟩
    · rintro ⟨Vm, Im, ⟨Va, Ia, ht, h1⟩, h2⟩
      exact ⟨Va, Ia, ht, (ih _ _).mpr ⟨Vm, Im, h1, h2⟩⟩

theorem M2_mul_assoc (a b c : M2 K) : M2.mul (M2.mul a b) c = M2.mul a (M2.mul b c) := by
  simp only [M2.mul, M2.mk.injEq]; refine ⟨?_, ?_, ?_, ?_⟩ <;> ring

theorem M2_one_mul (a : M2 K) : M2.mul ⟨1, 0, 0, 1⟩ a = a := by
  obtain ⟨a, b, c, d⟩ := a; simp [M2.mul]

theorem M2_mul_one (a : M2 K) : M2.mul a ⟨1, 0, 0, 1⟩ = a := by
  obtain ⟨a, b, c, d⟩ := a; simp [M2.mul]

/-! ### existence pivots -/

theorem ker_of_det_zero (m : M2 K) (h : m.det = 0) :
    ∃ x y : K, (x ≠ 0 ∨ y ≠ 0) ∧ m.a11 * x + m.a12 * y = 0 ∧ m.a21 * x + m.a22 * y = 0 := by
  simp only [M2.det] at h
  by_cases h1 : m.a12 = 0 ∧ m.a11 = 0
  · by_cases h2 : m.a22 = 0 ∧ m.a21 = 0
    · exact ⟨1, 0, Or.inl one_ne_zero, by simp [h1.2], by simp [h2.2]⟩
    · refine ⟨m.a22, -m.a21, ?_, by simp [h1.1, h1.2], by ring⟩
      by_contra hc; rw [not_or, not_not, not_not] at hc; exact h2 ⟨hc.1, by simpa using hc.2⟩
  · refine ⟨-m.a12, m.a11, ?_, by ring, by linear_combination h⟩
    by_contra hc; rw [not_or, not_not, not_not] at hc; exact h1 ⟨by simpa using hc.1, hc.2⟩

/-- a port of `rel X m` on which both right-hand variables of `P` vanish when the entry pivot is 0
    (entry-type pivots; for the inverse pairs the kernel vector (x, y) of `m` is used) -/
def killPort (x y : K) : MRep → MRep → M2 K → Port K
  | .A, .A, m => ⟨m.a11 * (x) + m.a12 * (y), m.a21 * (x) + m.a22 * (y), x, -(y)⟩
  | .A, .B, m => ⟨m.a11 * (x) + m.a12 * (y), m.a21 * (x) + m.a22 * (y), x, -(y)⟩
  | .A, .G, m => ⟨m.a11 * (1) + m.a12 * (0), m.a21 * (1) + m.a22 * (0), 1, -(0)⟩
  | .A, .H, m => ⟨m.a11 * (0) + m.a12 * (1), m.a21 * (0) + m.a22 * (1), 0, -(1)⟩
  | .A, .Y, m => ⟨m.a11 * (0) + m.a12 * (1), m.a21 * (0) + m.a22 * (1), 0, -(1)⟩
  | .A, .Z, m => ⟨m.a11 * (1) + m.a12 * (0), m.a21 * (1) + m.a22 * (0), 1, -(0)⟩
  | .B, .A, m => ⟨x, y, m.a11 * (x) + m.a12 * (y), -(m.a21 * (x) + m.a22 * (y))⟩
  | .B, .B, m => ⟨x, y, m.a11 * (x) + m.a12 * (y), -(m.a21 * (x) + m.a22 * (y))⟩
  | .B, .G, m => ⟨0, 1, m.a11 * (0) + m.a12 * (1), -(m.a21 * (0) + m.a22 * (1))⟩
  | .B, .H, m => ⟨1, 0, m.a11 * (1) + m.a12 * (0), -(m.a21 * (1) + m.a22 * (0))⟩
  | .B, .Y, m => ⟨0, 1, m.a11 * (0) + m.a12 * (1), -(m.a21 * (0) + m.a22 * (1))⟩
  | .B, .Z, m => ⟨1, 0, m.a11 * (1) + m.a12 * (0), -(m.a21 * (1) + m.a22 * (0))⟩
  | .G, .A, m => ⟨1, m.a11 * (1) + m.a12 * (0), m.a21 * (1) + m.a22 * (0), 0⟩
  | .G, .B, m => ⟨0, m.a11 * (0) + m.a12 * (1), m.a21 * (0) + m.a22 * (1), 1⟩
  | .G, .G, m => ⟨x, m.a11 * (x) + m.a12 * (y), m.a21 * (x) + m.a22 * (y), y⟩
  | .G, .H, m => ⟨x, m.a11 * (x) + m.a12 * (y), m.a21 * (x) + m.a22 * (y), y⟩
  | .G, .Y, m => ⟨0, m.a11 * (0) + m.a12 * (1), m.a21 * (0) + m.a22 * (1), 1⟩
  | .G, .Z, m => ⟨1, m.a11 * (1) + m.a12 * (0), m.a21 * (1) + m.a22 * (0), 0⟩
  | .H, .A, m => ⟨m.a11 * (1) + m.a12 * (0), 1, 0, m.a21 * (1) + m.a22 * (0)⟩
  | .H, .B, m => ⟨m.a11 * (0) + m.a12 * (1), 0, 1, m.a21 * (0) + m.a22 * (1)⟩
  | .H, .G, m => ⟨m.a11 * (x) + m.a12 * (y), x, y, m.a21 * (x) + m.a22 * (y)⟩
  | .H, .H, m => ⟨m.a11 * (x) + m.a12 * (y), x, y, m.a21 * (x) + m.a22 * (y)⟩
  | .H, .Y, m => ⟨m.a11 * (1) + m.a12 * (0), 1, 0, m.a21 * (1) + m.a22 * (0)⟩
  | .H, .Z, m => ⟨m.a11 * (0) + m.a12 * (1), 0, 1, m.a21 * (0) + m.a22 * (1)⟩
  | .Y, .A, m => ⟨1, m.a11 * (1) + m.a12 * (0), 0, m.a21 * (1) + m.a22 * (0)⟩
  | .Y, .B, m => ⟨0, m.a11 * (0) + m.a12 * (1), 1, m.a21 * (0) + m.a22 * (1)⟩
  | .Y, .G, m => ⟨0, m.a11 * (0) + m.a12 * (1), 1, m.a21 * (0) + m.a22 * (1)⟩
  | .Y, .H, m => ⟨1, m.a11 * (1) + m.a12 * (0), 0, m.a21 * (1) + m.a22 * (0)⟩
  | .Y, .Y, m => ⟨x, m.a11 * (x) + m.a12 * (y), y, m.a21 * (x) + m.a22 * (y)⟩
  | .Y, .Z, m => ⟨x, m.a11 * (x) + m.a12 * (y), y, m.a21 * (x) + m.a22 * (y)⟩
  | .Z, .A, m => ⟨m.a11 * (1) + m.a12 * (0), 1, m.a21 * (1) + m.a22 * (0), 0⟩
  | .Z, .B, m => ⟨m.a11 * (0) + m.a12 * (1), 0, m.a21 * (0) + m.a22 * (1), 1⟩
  | .Z, .G, m => ⟨m.a11 * (1) + m.a12 * (0), 1, m.a21 * (1) + m.a22 * (0), 0⟩
  | .Z, .H, m => ⟨m.a11 * (0) + m.a12 * (1), 0, m.a21 * (0) + m.a22 * (1), 1⟩
  | .Z, .Y, m => ⟨m.a11 * (x) + m.a12 * (y), x, m.a21 * (x) + m.a22 * (y), y⟩
  | .Z, .Z, m => ⟨m.a11 * (x) + m.a12 * (y), x, m.a21 * (x) + m.a22 * (y), y⟩

theorem killPort_rel (x y : K) (X P : MRep) (m : M2 K) (Z0 : K) : rel X.toRep m Z0 (killPort x y X P m) := by
  cases X <;> cases P <;> simp [killPort, rel, lin, MRep.toRep]

/-- direct formulas for the five pairs that Lcapy only reaches through an intermediate representation -/
def directConv : MRep → MRep → M2 K → Option (M2 K)
  | .A, .G, m => some ⟨m.a21 / m.a11, m.a12 * m.a21 / m.a11 - m.a22, 1 / m.a11, m.a12 / m.a11⟩
  | .G, .Y, m => some ⟨m.a11 - m.a12 * m.a21 / m.a22, m.a12 / m.a22, -m.a21 / m.a22, 1 / m.a22⟩
  | .G, .Z, m => some ⟨1 / m.a11, -m.a12 / m.a11, m.a21 / m.a11, m.a22 - m.a21 * m.a12 / m.a11⟩
  | .Y, .G, m => some ⟨m.a11 - m.a12 * m.a21 / m.a22, m.a12 / m.a22, -m.a21 / m.a22, 1 / m.a22⟩
  | .Z, .G, m => some ⟨1 / m.a11, -m.a12 / m.a11, m.a21 / m.a11, m.a22 - m.a21 * m.a12 / m.a11⟩
  | _, _, _ => none

theorem directConv_sound (X P : MRep) (m z : M2 K) (Z0 : K) (hz : directConv X P m = some z)
    (h : pivot X P m ≠ 0) (p : Port K) : rel X.toRep m Z0 p ↔ rel P.toRep z Z0 p := by
  obtain ⟨V1, I1, V2, I2⟩ := p
  cases X <;> cases P <;> simp only [directConv, Option.some.injEq, reduceCtorEq] at hz <;> subst hz <;>
    simp only [pivot] at h <;> simp only [rel, lin, MRep.toRep] <;>
    constructor <;> rintro ⟨h1, h2⟩ <;> constructor <;> (field_simp at h1 h2 ⊢; first | linear_combination h1 | linear_combination h2 | grind)

/-! ### parameter dispatch, all eight targets -/

/-- dispatch to the generated conversion `X_to_P`, all eight targets -/
def conv8 : MRep → Rep → M2 K → K → M2 K
  | .A, .A => A_to_A | .A, .B => A_to_B | .A, .G => A_to_G | .A, .H => A_to_H | .A, .S => A_to_S | .A, .T => A_to_T | .A, .Y => A_to_Y | .A, .Z => A_to_Z
  | .B, .A => B_to_A | .B, .B => B_to_B | .B, .G => B_to_G | .B, .H => B_to_H | .B, .S => B_to_S | .B, .T => B_to_T | .B, .Y => B_to_Y | .B, .Z => B_to_Z
  | .G, .A => G_to_A | .G, .B => G_to_B | .G, .G => G_to_G | .G, .H => G_to_H | .G, .S => G_to_S | .G, .T => G_to_T | .G, .Y => G_to_Y | .G, .Z => G_to_Z
  | .H, .A => H_to_A | .H, .B => H_to_B | .H, .G => H_to_G | .H, .H => H_to_H | .H, .S => H_to_S | .H, .T => H_to_T | .H, .Y => H_to_Y | .H, .Z => H_to_Z
  | .Y, .A => Y_to_A | .Y, .B => Y_to_B | .Y, .G => Y_to_G | .Y, .H => Y_to_H | .Y, .S => Y_to_S | .Y, .T => Y_to_T | .Y, .Y => Y_to_Y | .Y, .Z => Y_to_Z
  | .Z, .A => Z_to_A | .Z, .B => Z_to_B | .Z, .G => Z_to_G | .Z, .H => Z_to_H | .Z, .S => Z_to_S | .Z, .T => Z_to_T | .Z, .Y => Z_to_Y | .Z, .Z => Z_to_Z

/-- dispatch to the side condition `ok_X_P` of Props/C08.lean, all eight targets -/
def okc8 : MRep → Rep → M2 K → K → Prop
  | .A, .A => ok_A_A | .A, .B => ok_A_B | .A, .G => ok_A_G | .A, .H => ok_A_H | .A, .S => ok_A_S | .A, .T => ok_A_T | .A, .Y => ok_A_Y | .A, .Z => ok_A_Z
  | .B, .A => ok_B_A | .B, .B => ok_B_B | .B, .G => ok_B_G | .B, .H => ok_B_H | .B, .S => ok_B_S | .B, .T => ok_B_T | .B, .Y => ok_B_Y | .B, .Z => ok_B_Z
  | .G, .A => ok_G_A | .G, .B => ok_G_B | .G, .G => ok_G_G | .G, .H => ok_G_H | .G, .S => ok_G_S | .G, .T => ok_G_T | .G, .Y => ok_G_Y | .G, .Z => ok_G_Z
  | .H, .A => ok_H_A | .H, .B => ok_H_B | .H, .G => ok_H_G | .H, .H => ok_H_H | .H, .S => ok_H_S | .H, .T => ok_H_T | .H, .Y => ok_H_Y | .H, .Z => ok_H_Z
  | .Y, .A => ok_Y_A | .Y, .B => ok_Y_B | .Y, .G => ok_Y_G | .Y, .H => ok_Y_H | .Y, .S => ok_Y_S | .Y, .T => ok_Y_T | .Y, .Y => ok_Y_Y | .Y, .Z => ok_Y_Z
  | .Z, .A => ok_Z_A | .Z, .B => ok_Z_B | .Z, .G => ok_Z_G | .Z, .H => ok_Z_H | .Z, .S => ok_Z_S | .Z, .T => ok_Z_T | .Z, .Y => ok_Z_Y | .Z, .Z => ok_Z_Z

theorem conv8_sound (N : MRep) (P : Rep) : SoundConv N.toRep P (conv8 (K := K) N P) (okc8 N P) :=
  match N, P with
  | .A, .A => A_to_A_sound | .A, .B => A_to_B_sound | .A, .G => A_to_G_sound | .A, .H => A_to_H_sound | .A, .S => A_to_S_sound | .A, .T => A_to_T_sound | .A, .Y => A_to_Y_sound | .A, .Z => A_to_Z_sound
  | .B, .A => B_to_A_sound | .B, .B => B_to_B_sound | .B, .G => B_to_G_sound | .B, .H => B_to_H_sound | .B, .S => B_to_S_sound | .B, .T => B_to_T_sound | .B, .Y => B_to_Y_sound | .B, .Z => B_to_Z_sound
  | .G, .A => G_to_A_sound | .G, .B => G_to_B_sound | .G, .G => G_to_G_sound | .G, .H => G_to_H_sound | .G, .S => G_to_S_sound | .G, .T => G_to_T_sound | .G, .Y => G_to_Y_sound | .G, .Z => G_to_Z_sound
  | .H, .A => H_to_A_sound | .H, .B => H_to_B_sound | .H, .G => H_to_G_sound | .H, .H => H_to_H_sound | .H, .S => H_to_S_sound | .H, .T => H_to_T_sound | .H, .Y => H_to_Y_sound | .H, .Z => H_to_Z_sound
  | .Y, .A => Y_to_A_sound | .Y, .B => Y_to_B_sound | .Y, .G => Y_to_G_sound | .Y, .H => Y_to_H_sound | .Y, .S => Y_to_S_sound | .Y, .T => Y_to_T_sound | .Y, .Y => Y_to_Y_sound | .Y, .Z => Y_to_Z_sound
  | .Z, .A => Z_to_A_sound | .Z, .B => Z_to_B_sound | .Z, .G => Z_to_G_sound | .Z, .H => Z_to_H_sound | .Z, .S => Z_to_S_sound | .Z, .T => Z_to_T_sound | .Z, .Y => Z_to_Y_sound | .Z, .Z => Z_to_Z_sound

/-- `t.Aparams … t.Zparams` selected by the target representation -/
def tpnParams : Rep → Stage K → K → M2 K
  | .A => TPN_Aparams | .B => TPN_Bparams | .G => TPN_Gparams | .H => TPN_Hparams
  | .S => TPN_Sparams | .T => TPN_Tparams | .Y => TPN_Yparams | .Z => TPN_Zparams

theorem tpnParams_eq (P : Rep) (t : Stage K) (Z0 : K) : tpnParams P t Z0 = conv8 t.rep P t.m Z0 := by
  obtain ⟨N, m, s1, s2⟩ := t
  cases N <;> cases P <;> simp [tpnParams, TPN_Aparams, TPN_Bparams, TPN_Gparams, TPN_Hparams, TPN_Sparams, TPN_Tparams,
    TPN_Yparams, TPN_Zparams, conv8, A_to_A, B_to_B, G_to_G, H_to_H, Y_to_Y, Z_to_Z]
end Lcapy.TwoPort
