/-
  Helper lemmas for the TwoPort NETWORK level of C08 (round 3): affine port relations of models
  with sources, the source-vector conversions, Chain.  Only helper material lives here; the
  property theorems are in Lcapy/Props/C08Net.lean.
  (Imports Props/C08.lean to reuse the 64 conversion-soundness theorems.)
-/
import Lcapy.Props.C08
import Lcapy.Generated.TwoPortNet
namespace Lcapy.TwoPort
open Lcapy Lcapy.Spec Lcapy.Gen Lcapy.C08
variable {K : Type} [Field K]
set_option linter.unusedSimpArgs false
set_option linter.unusedVariables false

/-! ### affine relations: translate by a particular solution -/

theorem arel_zero (N : MRep) (m : M2 K) (Z0 : K) (p : Port K) :
    arel N m 0 0 p ↔ rel N.toRep m Z0 p := by
  cases N <;> simp [arel, rel, lin, lin2, MRep.toRep]

theorem arel_sub (N : MRep) (m : M2 K) (s1 s2 Z0 : K) (p0 p : Port K) (h0 : arel N m s1 s2 p0) :
    arel N m s1 s2 p ↔
      rel N.toRep m Z0 ⟨p.V1 - p0.V1, p.I1 - p0.I1, p.V2 - p0.V2, p.I2 - p0.I2⟩ := by
  cases N <;> simp only [arel, rel, lin, lin2, MRep.toRep] at h0 ⊢ <;> obtain ⟨h1, h2⟩ := h0 <;>
    constructor <;> rintro ⟨a, b⟩ <;> constructor <;>
    first | linear_combination a - h1 | linear_combination b - h2
          | linear_combination a + h1 | linear_combination b + h2

/-- two affine relations with the same homogeneous part and one common point coincide -/
theorem affine_transfer (N P : MRep) {m m' : M2 K} {s1 s2 t1 t2 : K} (Z0 : K)
    (hom : ∀ p, rel N.toRep m Z0 p ↔ rel P.toRep m' Z0 p) (p0 : Port K)
    (h0 : arel N m s1 s2 p0) (h0' : arel P m' t1 t2 p0) (p : Port K) :
    arel N m s1 s2 p ↔ arel P m' t1 t2 p := by
  rw [arel_sub N m s1 s2 Z0 p0 p h0, arel_sub P m' t1 t2 Z0 p0 p h0', hom]

/-- the port with all right-hand variables zero -/
def basePort : MRep → K → K → Port K
  | .A, s1, s2 => ⟨s1, s2, 0, 0⟩
  | .B, s1, s2 => ⟨0, 0, s1, -s2⟩
  | .G, s1, s2 => ⟨0, s1, s2, 0⟩
  | .H, s1, s2 => ⟨s1, 0, 0, s2⟩
  | .Y, s1, s2 => ⟨0, s1, 0, s2⟩
  | .Z, s1, s2 => ⟨s1, 0, s2, 0⟩

theorem arel_basePort (N : MRep) (m : M2 K) (s1 s2 : K) : arel N m s1 s2 (basePort N s1 s2) := by
  cases N <;> simp [arel, lin2, basePort]

theorem toRep_VI (P : MRep) : P.toRep ≠ .S ∧ P.toRep ≠ .T := by
  cases P <;> simp [MRep.toRep]

/-! ### dispatch over the six model classes -/

/-- dispatch to the generated conversion `X_to_P` -/
def conv : MRep → MRep → M2 K → K → M2 K
  | .A, .A => A_to_A | .A, .B => A_to_B | .A, .G => A_to_G | .A, .H => A_to_H | .A, .Y => A_to_Y | .A, .Z => A_to_Z
  | .B, .A => B_to_A | .B, .B => B_to_B | .B, .G => B_to_G | .B, .H => B_to_H | .B, .Y => B_to_Y | .B, .Z => B_to_Z
  | .G, .A => G_to_A | .G, .B => G_to_B | .G, .G => G_to_G | .G, .H => G_to_H | .G, .Y => G_to_Y | .G, .Z => G_to_Z
  | .H, .A => H_to_A | .H, .B => H_to_B | .H, .G => H_to_G | .H, .H => H_to_H | .H, .Y => H_to_Y | .H, .Z => H_to_Z
  | .Y, .A => Y_to_A | .Y, .B => Y_to_B | .Y, .G => Y_to_G | .Y, .H => Y_to_H | .Y, .Y => Y_to_Y | .Y, .Z => Y_to_Z
  | .Z, .A => Z_to_A | .Z, .B => Z_to_B | .Z, .G => Z_to_G | .Z, .H => Z_to_H | .Z, .Y => Z_to_Y | .Z, .Z => Z_to_Z

/-- dispatch to the side condition `ok_X_P` of Props/C08.lean -/
def okc : MRep → MRep → M2 K → K → Prop
  | .A, .A => ok_A_A | .A, .B => ok_A_B | .A, .G => ok_A_G | .A, .H => ok_A_H | .A, .Y => ok_A_Y | .A, .Z => ok_A_Z
  | .B, .A => ok_B_A | .B, .B => ok_B_B | .B, .G => ok_B_G | .B, .H => ok_B_H | .B, .Y => ok_B_Y | .B, .Z => ok_B_Z
  | .G, .A => ok_G_A | .G, .B => ok_G_B | .G, .G => ok_G_G | .G, .H => ok_G_H | .G, .Y => ok_G_Y | .G, .Z => ok_G_Z
  | .H, .A => ok_H_A | .H, .B => ok_H_B | .H, .G => ok_H_G | .H, .H => ok_H_H | .H, .Y => ok_H_Y | .H, .Z => ok_H_Z
  | .Y, .A => ok_Y_A | .Y, .B => ok_Y_B | .Y, .G => ok_Y_G | .Y, .H => ok_Y_H | .Y, .Y => ok_Y_Y | .Y, .Z => ok_Y_Z
  | .Z, .A => ok_Z_A | .Z, .B => ok_Z_B | .Z, .G => ok_Z_G | .Z, .H => ok_Z_H | .Z, .Y => ok_Z_Y | .Z, .Z => ok_Z_Z

theorem conv_sound (N P : MRep) : SoundConv N.toRep P.toRep (conv (K := K) N P) (okc N P) :=
  match N, P with
  | .A, .A => A_to_A_sound | .A, .B => A_to_B_sound | .A, .G => A_to_G_sound | .A, .H => A_to_H_sound | .A, .Y => A_to_Y_sound | .A, .Z => A_to_Z_sound
  | .B, .A => B_to_A_sound | .B, .B => B_to_B_sound | .B, .G => B_to_G_sound | .B, .H => B_to_H_sound | .B, .Y => B_to_Y_sound | .B, .Z => B_to_Z_sound
  | .G, .A => G_to_A_sound | .G, .B => G_to_B_sound | .G, .G => G_to_G_sound | .G, .H => G_to_H_sound | .G, .Y => G_to_Y_sound | .G, .Z => G_to_Z_sound
  | .H, .A => H_to_A_sound | .H, .B => H_to_B_sound | .H, .G => H_to_G_sound | .H, .H => H_to_H_sound | .H, .Y => H_to_Y_sound | .H, .Z => H_to_Z_sound
  | .Y, .A => Y_to_A_sound | .Y, .B => Y_to_B_sound | .Y, .G => Y_to_G_sound | .Y, .H => Y_to_H_sound | .Y, .Y => Y_to_Y_sound | .Y, .Z => Y_to_Z_sound
  | .Z, .A => Z_to_A_sound | .Z, .B => Z_to_B_sound | .Z, .G => Z_to_G_sound | .Z, .H => Z_to_H_sound | .Z, .Y => Z_to_Y_sound | .Z, .Z => Z_to_Z_sound

/-- two sound routes to the same representation give the same matrix -/
theorem conv_via (N Q P : MRep) (m : M2 K) (Z0 : K) (h1 : okc N Q m Z0)
    (h2 : okc Q P (conv N Q m Z0) Z0) (h3 : okc N P m Z0) :
    conv N P m Z0 = conv Q P (conv N Q m Z0) Z0 :=
  rel_inj_VI P.toRep (toRep_VI P) Z0 _ _ (fun p => by
    rw [← conv_sound N P m Z0 p h3, conv_sound N Q m Z0 p h1, conv_sound Q P _ Z0 p h2])

theorem TPN_params_eq (t : Stage K) (Z0 : K) :
    TPN_Aparams t Z0 = conv t.rep .A t.m Z0 ∧ TPN_Bparams t Z0 = conv t.rep .B t.m Z0 ∧
    TPN_Gparams t Z0 = conv t.rep .G t.m Z0 ∧ TPN_Hparams t Z0 = conv t.rep .H t.m Z0 ∧
    TPN_Yparams t Z0 = conv t.rep .Y t.m Z0 ∧ TPN_Zparams t Z0 = conv t.rep .Z t.m Z0 := by
  obtain ⟨N, m, s1, s2⟩ := t
  cases N <;> simp [TPN_Aparams, TPN_Bparams, TPN_Gparams, TPN_Hparams, TPN_Yparams, TPN_Zparams, conv,
    A_to_A, B_to_B, G_to_G, H_to_H, Y_to_Y, Z_to_Z]

end Lcapy.TwoPort
