/-
  Lemmas for the Foster model (`Lcapy/Model/PolyFoster.lean`): residues by peeling, conjugate pairing,
  sections, Foster I/II end to end from `N/D`; the dictionary `collOf`; `Net.ratZ`.  Used by Props/C19Forms.lean.
-/
import Lcapy.Model.PolyFoster
import Lcapy.Proofs.Poly
import Lcapy.Proofs.PolyRatfun
import Lcapy.Proofs.PolySynth
namespace Lcapy.Synth
open Lcapy.Poly Lcapy.Ratfun
variable {K : Type} [Field K] [DecidableEq K]
set_option linter.unusedSimpArgs false
set_option linter.unusedVariables false
set_option linter.unusedSectionVars false

theorem divLinear_rem (p : K) (P : List K) : (divLinear p P).2 = Poly.eval P p := by
  induction P with
  | nil => simp [divLinear, Poly.eval]
  | cons a P ih => simp [divLinear, Poly.eval, ih]

theorem divLinear_spec (p : K) (P : List K) (x : K) :
    Poly.eval P x = (x - p) * Poly.eval (divLinear p P).1 x + Poly.eval P p := by
  induction P with
  | nil => simp [divLinear, Poly.eval]
  | cons a P ih =>
    simp only [divLinear, Poly.eval, divLinear_rem]
    rw [ih]; ring

/-- one peeling step and its iteration: the partial fractions of the pole `p` -/
theorem peelPole_sound (lcA p : K) (C : List K) (n : Nat) (M : List K) (x : K)
    (hx : (x - p) ^ n ≠ 0) (hC : lcA * Poly.eval C p ≠ 0) :
    Poly.eval M x = (x - p) ^ n * Poly.eval (peelPole lcA p C n M).2 x +
      lcA * Poly.eval C x * (x - p) ^ n * pfValue (peelPole lcA p C n M).1 x := by
  induction n generalizing M with
  | zero => simp [peelPole, pfValue]
  | succ n ih =>
    have hx1 : x - p ≠ 0 := fun h0 => hx (by rw [h0]; simp)
    have hxn : (x - p) ^ n ≠ 0 := pow_ne_zero _ hx1
    simp only [peelPole, pfValue, List.map_cons, List.sum_cons]
    set r := Poly.eval M p / (lcA * Poly.eval C p) with hr
    set M1 := (divLinear p (Poly.sub M (smul (r * lcA) C))).1 with hM1
    have h1 := divLinear_spec p (Poly.sub M (smul (r * lcA) C)) x
    have h0 : Poly.eval (Poly.sub M (smul (r * lcA) C)) p = 0 := by
      have hl : lcA ≠ 0 := left_ne_zero_of_mul hC
      have hc : Poly.eval C p ≠ 0 := right_ne_zero_of_mul hC
      rw [eval_sub, eval_smul, hr]; field_simp; ring
    rw [h0, add_zero, eval_sub, eval_smul] at h1
    have h2 := ih M1 hxn
    simp only [pfValue] at h2
    have : Poly.eval M x = r * lcA * Poly.eval C x + (x - p) * Poly.eval M1 x := by
      rw [← h1]; ring
    rw [this, h2]
    field_simp
    ring

theorem rootsValue_ne_zero_of_distinct (p : K) (rest : List (K × Nat))
    (h : rest.all (fun q => decide (q.1 ≠ p)) = true) : rootsValue rest p ≠ 0 := by
  induction rest with
  | nil => simp [rootsValue]
  | cons q rest ih =>
    simp only [List.all_cons, Bool.and_eq_true, decide_eq_true_eq] at h
    simp only [rootsValue, List.map_cons, List.prod_cons]
    have := ih h.2
    simp only [rootsValue] at this
    exact mul_ne_zero (pow_ne_zero _ (sub_ne_zero.mpr (Ne.symm h.1))) this

theorem pfValue_append (a b : List (K × K × Nat)) (x : K) : pfValue (a ++ b) x = pfValue a x + pfValue b x := by
  simp [pfValue]

/-- all poles: `M = Π(x−p)^n · M_f + lc · Π(x−p)^n · Σ r/(x−p)^o` -/
theorem peelAll_sound (lcA : K) (poles : List (K × Nat)) (M : List K) (x : K) (hl : lcA ≠ 0)
    (hd : distinctB poles = true) (hx : rootsValue poles x ≠ 0) :
    Poly.eval M x = rootsValue poles x * Poly.eval (peelAll lcA poles M).2 x +
      lcA * rootsValue poles x * pfValue (peelAll lcA poles M).1 x := by
  induction poles generalizing M with
  | nil => simp [peelAll, rootsValue, pfValue]
  | cons pn rest ih =>
    obtain ⟨p, n⟩ := pn
    simp only [distinctB, Bool.and_eq_true] at hd
    obtain ⟨h1, h2⟩ := rootsValue_ne_zero_of_cons hx
    have hC : lcA * Poly.eval (prodRoots rest) p ≠ 0 := by
      rw [eval_prodRoots]; exact mul_ne_zero hl (rootsValue_ne_zero_of_distinct p rest hd.1)
    have e1 := peelPole_sound lcA p (prodRoots rest) n M x h1 hC
    have e2 := ih (peelPole lcA p (prodRoots rest) n M).2 hd.2 h2
    simp only [peelAll, pfValue_append]
    rw [e1, e2, eval_prodRoots]
    simp only [rootsValue, List.map_cons, List.prod_cons]
    ring

theorem pfValue_filter (ts : List (K × K × Nat)) (x : K) :
    pfValue (ts.filter (fun t => decide (t.1 ≠ 0))) x = pfValue ts x := by
  induction ts with
  | nil => rfl
  | cons t rest ih =>
    simp only [pfValue] at ih ⊢
    by_cases h : t.1 = 0
    · simp only [List.filter, h, ne_eq, not_true_eq_false, decide_false, List.map_cons, List.sum_cons, zero_div,
        zero_add]
      exact ih
    · simp only [List.filter, h, ne_eq, not_false_eq_true, decide_true, List.map_cons, List.sum_cons]
      rw [ih]

/-- **pfData is sound**: quotient and pruned residues reconstruct `N/D` at every non-pole point -/
theorem pfData_sound (N D : List K) (poles : List (K × Nat)) (Q : List K) (ts : List (K × K × Nat)) (x : K)
    (h : pfData N D poles = some (Q, ts)) (hD : Poly.eval D x ≠ 0) :
    Poly.eval N x / Poly.eval D x = Poly.eval Q x + pfValue ts x := by
  unfold pfData at h
  split at h
  · rename_i hc
    simp only [Bool.and_eq_true, Bool.not_eq_true', ] at hc
    obtain ⟨⟨hr, hd⟩, hz⟩ := hc
    simp only at h
    split at h
    · rename_i hf
      simp only [Option.some.injEq, Prod.mk.injEq] at h
      obtain ⟨rfl, rfl⟩ := h
      have hlc : lc D ≠ 0 := lc_ne_zero_of_eval hD
      have eD := rootsCheck_eval hr x
      have hrv : rootsValue poles x ≠ 0 := by
        intro h0; apply hD; rw [eD, h0]; ring
      have eN := (divmod_spec' N D hlc).1 x
      have eM := peelAll_sound (lc D) poles (divmod N D).2 x hlc hd hrv
      rw [eval_of_isZero hf, mul_zero, zero_add] at eM
      rw [pfValue_filter, eN, eM, eD]
      field_simp
    · simp at h
  · simp at h

/-- sum of the values of a list of sections -/
def secsValue (secs : List (Sec K)) (x : K) : K := (secs.map (Sec.value x)).sum

theorem monoSecs_value (Q : List K) (k : Nat) (x : K) : secsValue (monoSecs Q k) x = x ^ k * Poly.eval Q x := by
  induction Q generalizing k with
  | nil => simp [monoSecs, secsValue]
  | cons q rest ih =>
    simp only [monoSecs]
    by_cases hq : q = 0
    · simp only [hq, if_true, ih, eval_cons]; ring
    · simp only [hq, if_false]
      have := ih (k + 1)
      simp only [secsValue, List.map_cons, List.sum_cons, Sec.value, npow_eq, eval_cons] at this ⊢
      rw [this]; ring

theorem takeConj_spec (isConj : K → K → Bool) (p : K) (rest : List (K × K × Nat)) (rc pc : K)
    (rest' : List (K × K × Nat)) (h : takeConj isConj p rest = some ((rc, pc), rest')) (x : K) :
    pfValue rest x = rc / (x - pc) + pfValue rest' x ∧ rest'.length + 1 = rest.length ∧
      (rc, pc, 1) ∈ rest ∧ ∀ t ∈ rest', t ∈ rest := by
  induction rest generalizing rest' with
  | nil => simp [takeConj] at h
  | cons t rest ih =>
    simp only [takeConj] at h
    split at h
    · rename_i hc
      simp only [Bool.and_eq_true, decide_eq_true_eq] at hc
      simp only [Option.some.injEq, Prod.mk.injEq] at h
      obtain ⟨⟨rfl, rfl⟩, rfl⟩ := h
      obtain ⟨r, p', o⟩ := t
      simp only at hc
      refine ⟨?_, rfl, ?_, fun t ht => List.mem_cons_of_mem _ ht⟩
      · simp [pfValue, hc.1]
      · simp [hc.1]
    · simp only [Option.map_eq_some_iff] at h
      obtain ⟨⟨⟨rc', pc'⟩, r2⟩, h2, h3⟩ := h
      simp only [Prod.mk.injEq] at h3
      obtain ⟨⟨rfl, rfl⟩, rfl⟩ := h3
      obtain ⟨e1, e2, e3, e4⟩ := ih r2 h2
      refine ⟨?_, by simp [e2], List.mem_cons_of_mem _ e3, ?_⟩
      · simp only [pfValue, List.map_cons, List.sum_cons] at e1 ⊢
        rw [e1]; ring
      · intro u hu
        simp only [List.mem_cons] at hu ⊢
        rcases hu with rfl | hu
        · exact Or.inl rfl
        · exact Or.inr (e4 u hu)

/-- combining conjugate pairs does not change the sum (any pairing predicate) -/
theorem combine_value (isConj : K → K → Bool) (f : Nat) (ts : List (K × K × Nat)) (x : K)
    (hf : ts.length ≤ f) (hx : ∀ t ∈ ts, x - t.2.1 ≠ 0) :
    secsValue (combine isConj f ts) x = pfValue ts x := by
  induction f generalizing ts with
  | zero =>
    have : ts = [] := List.length_eq_zero_iff.1 (by omega)
    subst this; simp [combine, secsValue, pfValue]
  | succ f ih =>
    cases ts with
    | nil => simp [combine, secsValue, pfValue]
    | cons t rest =>
      obtain ⟨r, p, o⟩ := t
      have hrest : ∀ t ∈ rest, x - t.2.1 ≠ 0 := fun t ht => hx t (List.mem_cons_of_mem _ ht)
      have hlen : rest.length ≤ f := by simp only [List.length_cons] at hf; omega
      have hsingle : secsValue (Sec.single r p o :: combine isConj f rest) x = pfValue ((r, p, o) :: rest) x := by
        have := ih rest hlen hrest
        simp only [secsValue, List.map_cons, List.sum_cons, Sec.value, npow_eq, pfValue] at this ⊢
        rw [this]
      simp only [combine]
      by_cases ho : o = 1
      · simp only [ho, if_true]
        cases hc : takeConj isConj p rest with
        | none => simp only; rw [← ho]; exact hsingle
        | some v =>
          obtain ⟨⟨rc, pc⟩, rest'⟩ := v
          obtain ⟨e1, e2, e3, e4⟩ := takeConj_spec isConj p rest rc pc rest' hc x
          have hp : x - p ≠ 0 := hx (r, p, o) (by simp)
          have hpc : x - pc ≠ 0 := hrest (rc, pc, 1) e3
          have := ih rest' (by omega) (fun t ht => hrest t (e4 t ht))
          simp only [secsValue, List.map_cons, List.sum_cons, Sec.value, pfValue] at this ⊢
          simp only [pfValue] at e1
          rw [this, e1]
          have hden : x * x + -(p + pc) * x + p * pc = (x - p) * (x - pc) := by ring
          rw [hden]
          field_simp
          ring
      · simp only [ho, if_false]; exact hsingle

/-- the evaluation point is not a pole of the section -/
def Sec.OK (x : K) : Sec K → Prop
  | .mono _ _ => True
  | .single _ p _ => x - p ≠ 0
  | .pair _ _ a b => x * x + a * x + b ≠ 0

/-- a Foster I section has the impedance of its term -/
theorem secNetI_value (sec : Sec K) (n : Net K) (x : K) (h : secNetI sec = some n) (hx : x ≠ 0) (hok : sec.OK x) :
    n.Z x = sec.value x := by
  cases sec with
  | mono q k =>
    match k with
    | 0 => simp only [secNetI, Option.some.injEq] at h; subst h; simp [Net.Z, Sec.value, npow]
    | 1 => simp only [secNetI, Option.some.injEq] at h; subst h; simp [Net.Z, Sec.value, npow]
    | k + 2 => simp [secNetI] at h
  | single r p o =>
    match o with
    | 0 => simp [secNetI] at h
    | 1 =>
      simp only [secNetI] at h
      by_cases hr : r = 0
      · simp [hr] at h
      · simp only [hr, if_false] at h
        by_cases hp : p = 0
        · simp only [hp, if_true, Option.some.injEq] at h; subst h
          simp only [Net.Z, Sec.value, npow_eq, hp, sub_zero, pow_one]; field_simp
        · simp only [hp, if_false, Option.some.injEq] at h; subst h
          simp only [Sec.OK] at hok
          simp only [Net.Z, Sec.value, npow_eq, pow_one]
          have : 1 / -(r / p) + 1 / (1 / (1 / r * x)) = (x - p) / r := by field_simp; ring
          rw [this]; field_simp
    | o + 2 => simp [secNetI] at h
  | pair n1 n0 a b =>
    simp only [secNetI] at h
    split at h
    · rename_i hc
      simp only [Bool.and_eq_true, decide_eq_true_eq] at hc
      obtain ⟨rfl, hn1⟩ := hc
      simp only [Sec.OK] at hok
      have hy := Y_parO (parO (if a = 0 then none else some (Net.R (n1 / a)))
        (if b = 0 then none else some (Net.L (n1 / b)))) (some (Net.C (1 / n1))) x
      rw [h, Y_parO] at hy
      have h1 : YparO x (if a = 0 then none else some (Net.R (n1 / a))) = a / n1 := by
        by_cases ha : a = 0
        · simp [ha, YparO]
        · simp [ha, YparO, Net.Z]
      have h2 : YparO x (if b = 0 then none else some (Net.L (n1 / b))) = b / (n1 * x) := by
        by_cases hb : b = 0
        · simp [hb, YparO]
        · simp [hb, YparO, Net.Z]; field_simp
      rw [h1, h2] at hy
      simp only [YparO, Net.Z] at hy
      rw [← one_div_one_div (n.Z x), hy]
      simp only [Sec.value, add_zero]
      field_simp
      ring
    · simp at h

/-- a Foster II section has the ADMITTANCE of its term -/
theorem secNetII_value (sec : Sec K) (n : Net K) (x : K) (h : secNetII sec = some n) (hx : x ≠ 0) (hok : sec.OK x) :
    1 / n.Z x = sec.value x := by
  cases sec with
  | mono q k =>
    match k with
    | 0 => simp only [secNetII, Option.some.injEq] at h; subst h; simp [Net.Z, Sec.value, npow]
    | 1 => simp only [secNetII, Option.some.injEq] at h; subst h; simp [Net.Z, Sec.value, npow]
    | k + 2 => simp [secNetII] at h
  | single r p o =>
    match o with
    | 0 => simp [secNetII] at h
    | 1 =>
      simp only [secNetII] at h
      by_cases hr : r = 0
      · simp [hr] at h
      · simp only [hr, if_false] at h
        by_cases hp : p = 0
        · simp only [hp, if_true, Option.some.injEq] at h; subst h
          simp only [Net.Z, Sec.value, npow_eq, hp, sub_zero, pow_one]; field_simp
        · simp only [hp, if_false, Option.some.injEq] at h; subst h
          simp only [Sec.OK] at hok
          simp only [Net.Z, Sec.value, npow_eq, pow_one]
          have : -(p / r) + 1 / r * x = (x - p) / r := by field_simp; ring
          rw [this]; field_simp
    | o + 2 => simp [secNetII] at h
  | pair n1 n0 a b =>
    simp only [secNetII] at h
    split at h
    · rename_i hc
      simp only [Bool.and_eq_true, decide_eq_true_eq] at hc
      obtain ⟨rfl, hn1⟩ := hc
      simp only [Sec.OK] at hok
      have hz := Z_serO (serO (if a = 0 then none else some (Net.R (a / n1)))
        (if b = 0 then none else some (Net.C (n1 / b)))) (some (Net.L (1 / n1))) x
      rw [h, Z_serO] at hz
      have h1 : ZserO x (if a = 0 then none else some (Net.R (a / n1))) = a / n1 := by
        by_cases ha : a = 0
        · simp [ha, ZserO]
        · simp [ha, ZserO, Net.Z]
      have h2 : ZserO x (if b = 0 then none else some (Net.C (n1 / b))) = b / (n1 * x) := by
        by_cases hb : b = 0
        · simp [hb, ZserO]
        · simp [hb, ZserO, Net.Z]; field_simp
      rw [h1, h2] at hz
      simp only [ZserO, Net.Z] at hz
      rw [hz]
      simp only [Sec.value, add_zero]
      field_simp
      ring
    · simp at h

theorem peelPole_poles (lcA p : K) (C : List K) (n : Nat) (M : List K) :
    ∀ t ∈ (peelPole lcA p C n M).1, t.2.1 = p ∧ n ≠ 0 := by
  induction n generalizing M with
  | zero => simp [peelPole]
  | succ n ih =>
    intro t ht
    simp only [peelPole, List.mem_cons] at ht
    rcases ht with rfl | ht
    · exact ⟨rfl, by omega⟩
    · exact ⟨(ih _ t ht).1, by omega⟩

theorem peelAll_poles (lcA : K) (poles : List (K × Nat)) (M : List K) :
    ∀ t ∈ (peelAll lcA poles M).1, ∃ n, (t.2.1, n) ∈ poles ∧ n ≠ 0 := by
  induction poles generalizing M with
  | nil => simp [peelAll]
  | cons pn rest ih =>
    obtain ⟨p, n⟩ := pn
    intro t ht
    simp only [peelAll, List.mem_append] at ht
    rcases ht with ht | ht
    · obtain ⟨e1, e2⟩ := peelPole_poles lcA p (prodRoots rest) n M t ht
      exact ⟨n, by simp [e1], e2⟩
    · obtain ⟨m, hm, hm0⟩ := ih _ t ht
      exact ⟨m, List.mem_cons_of_mem _ hm, hm0⟩

theorem sub_ne_zero_of_rootsValue {poles : List (K × Nat)} {x p : K} {n : Nat} (h : rootsValue poles x ≠ 0)
    (hm : (p, n) ∈ poles) (hn : n ≠ 0) : x - p ≠ 0 := by
  intro h0
  apply h
  have hx : x = p := sub_eq_zero.mp h0
  subst hx
  exact rootsValue_eq_zero hm hn

theorem pfData_poles (N D : List K) (poles : List (K × Nat)) (Q : List K) (ts : List (K × K × Nat)) (x : K)
    (h : pfData N D poles = some (Q, ts)) (hD : Poly.eval D x ≠ 0) : ∀ t ∈ ts, x - t.2.1 ≠ 0 := by
  unfold pfData at h
  split at h
  · rename_i hc
    simp only [Bool.and_eq_true, Bool.not_eq_true'] at hc
    obtain ⟨⟨hr, hd⟩, hz⟩ := hc
    simp only at h
    split at h
    · simp only [Option.some.injEq, Prod.mk.injEq] at h
      obtain ⟨rfl, rfl⟩ := h
      have eD := rootsCheck_eval hr x
      have hrv : rootsValue poles x ≠ 0 := by
        intro h0; apply hD; rw [eD, h0]; ring
      intro t ht
      obtain ⟨n, hm, hn⟩ := peelAll_poles (lc D) poles _ t (List.mem_of_mem_filter ht)
      exact sub_ne_zero_of_rootsValue hrv hm hn
    · simp at h
  · simp at h

theorem combine_ok (isConj : K → K → Bool) (f : Nat) (ts : List (K × K × Nat)) (x : K)
    (hx : ∀ t ∈ ts, x - t.2.1 ≠ 0) : ∀ sec ∈ combine isConj f ts, sec.OK x := by
  induction f generalizing ts with
  | zero => simp [combine]
  | succ f ih =>
    cases ts with
    | nil => simp [combine]
    | cons t rest =>
      obtain ⟨r, p, o⟩ := t
      have hrest : ∀ t ∈ rest, x - t.2.1 ≠ 0 := fun t ht => hx t (List.mem_cons_of_mem _ ht)
      have hp : x - p ≠ 0 := hx (r, p, o) (by simp)
      have hsingle : ∀ sec ∈ Sec.single r p o :: combine isConj f rest, sec.OK x := by
        intro sec hs
        simp only [List.mem_cons] at hs
        rcases hs with rfl | hs
        · exact hp
        · exact ih rest hrest sec hs
      simp only [combine]
      by_cases ho : o = 1
      · simp only [ho, if_true]
        cases hc : takeConj isConj p rest with
        | none => simp only; rw [← ho]; exact hsingle
        | some v =>
          obtain ⟨⟨rc, pc⟩, rest'⟩ := v
          obtain ⟨e1, e2, e3, e4⟩ := takeConj_spec isConj p rest rc pc rest' hc x
          have hpc : x - pc ≠ 0 := hrest (rc, pc, 1) e3
          intro sec hs
          simp only [List.mem_cons] at hs
          rcases hs with rfl | hs
          · simp only [Sec.OK]
            have hden : x * x + -(p + pc) * x + p * pc = (x - p) * (x - pc) := by ring
            rw [hden]; exact mul_ne_zero hp hpc
          · exact ih rest' (fun t ht => hrest t (e4 t ht)) sec hs
      · simp only [ho, if_false]; exact hsingle

theorem monoSecs_ok (Q : List K) (k : Nat) (x : K) : ∀ sec ∈ monoSecs Q k, sec.OK x := by
  induction Q generalizing k with
  | nil => simp [monoSecs]
  | cons q rest ih =>
    intro sec hs
    simp only [monoSecs] at hs
    split at hs
    · exact ih _ sec hs
    · simp only [List.mem_cons] at hs
      rcases hs with rfl | hs
      · trivial
      · exact ih _ sec hs

theorem mapOpt_map {α β : Type} (f : α → Option β) (g : β → K) (v : α → K) (l : List α) (l' : List β)
    (h : mapOpt f l = some l') (hv : ∀ a ∈ l, ∀ b, f a = some b → g b = v a) :
    l'.map g = l.map v := by
  induction l generalizing l' with
  | nil => simp only [mapOpt, Option.some.injEq] at h; subst h; rfl
  | cons a l ih =>
    simp only [mapOpt] at h
    cases ha : f a with
    | none => simp [ha] at h
    | some b =>
      cases hl : mapOpt f l with
      | none => simp [ha, hl] at h
      | some bs =>
        simp only [ha, hl, Option.some.injEq] at h
        subst h
        simp only [List.map_cons]
        rw [hv a (by simp) b ha, ih bs hl (fun a' ha' => hv a' (List.mem_cons_of_mem _ ha'))]

/-- **Foster I, end to end from `N/D`**: the returned network has impedance `N/D` at every `x ≠ 0` that is not a pole -/
theorem fosterI_sound (isConj : K → K → Bool) (N D : List K) (poles : List (K × Nat)) (net : Net K) (x : K)
    (h : fosterI isConj N D poles = .ok net) (hx : x ≠ 0) (hD : Poly.eval D x ≠ 0) :
    net.Z x = Poly.eval N x / Poly.eval D x := by
  unfold fosterI fosterSecs at h
  cases hp : pfData N D poles with
  | none => simp [hp] at h
  | some qt =>
    obtain ⟨Q, ts⟩ := qt
    simp only [hp, Option.map_some] at h
    cases hm : mapOpt secNetI (monoSecs Q 0 ++ combine isConj ts.length ts) with
    | none => simp [hm] at h
    | some nets =>
      simp only [hm] at h
      cases hs : serAll nets with
      | none => simp [hs] at h
      | some n =>
        simp only [hs, FRes.ok.injEq] at h
        subst h
        have hpoles := pfData_poles N D poles Q ts x hp hD
        have hok : ∀ sec ∈ monoSecs Q 0 ++ combine isConj ts.length ts, sec.OK x := by
          intro sec hsec
          rcases List.mem_append.1 hsec with h1 | h1
          · exact monoSecs_ok Q 0 x sec h1
          · exact combine_ok isConj _ ts x hpoles sec h1
        have hz := Z_serAll nets x
        rw [hs] at hz
        simp only [ZserO] at hz
        rw [hz, mapOpt_map secNetI (fun n => n.Z x) (Sec.value x) _ nets hm
          (fun a ha b hb => secNetI_value a b x hb hx (hok a ha))]
        have e1 := monoSecs_value Q 0 x
        have e2 := combine_value isConj ts.length ts x (le_refl _) hpoles
        simp only [secsValue] at e1 e2
        rw [List.map_append, List.sum_append, e1, e2, pfData_sound N D poles Q ts x hp hD]
        ring

/-- **Foster II, end to end from `N/D`** (`zeros` = root table of `N`) -/
theorem fosterII_sound (isConj : K → K → Bool) (N D : List K) (zeros : List (K × Nat)) (net : Net K) (x : K)
    (h : fosterII isConj N D zeros = .ok net) (hx : x ≠ 0) (hN : Poly.eval N x ≠ 0) :
    net.Z x = Poly.eval N x / Poly.eval D x := by
  unfold fosterII fosterSecs at h
  split at h
  · simp at h
  cases hp : pfData D N zeros with
  | none => simp [hp] at h
  | some qt =>
    obtain ⟨Q, ts⟩ := qt
    simp only [hp, Option.map_some] at h
    cases hm : mapOpt secNetII (monoSecs Q 0 ++ combine isConj ts.length ts) with
    | none => simp [hm] at h
    | some nets =>
      simp only [hm] at h
      cases hs : parAll nets with
      | none => simp [hs] at h
      | some n =>
        simp only [hs, FRes.ok.injEq] at h
        subst h
        have hpoles := pfData_poles D N zeros Q ts x hp hN
        have hok : ∀ sec ∈ monoSecs Q 0 ++ combine isConj ts.length ts, sec.OK x := by
          intro sec hsec
          rcases List.mem_append.1 hsec with h1 | h1
          · exact monoSecs_ok Q 0 x sec h1
          · exact combine_ok isConj _ ts x hpoles sec h1
        have hy := Y_parAll nets x
        rw [hs] at hy
        simp only [YparO] at hy
        rw [mapOpt_map secNetII (fun n => 1 / n.Z x) (Sec.value x) _ nets hm
          (fun a ha b hb => secNetII_value a b x hb hx (hok a ha))] at hy
        have e1 := monoSecs_value Q 0 x
        have e2 := combine_value isConj ts.length ts x (le_refl _) hpoles
        simp only [secsValue] at e1 e2
        rw [List.map_append, List.sum_append, e1, e2] at hy
        have e3 := pfData_sound D N zeros Q ts x hp hN
        rw [← one_div_one_div (n.Z x), hy, pow_zero, one_mul, ← e3, one_div_div]

theorem nz_getD (a : K) : (nz a).getD 0 = a := by
  unfold nz; by_cases h : a = 0 <;> simp [h]

theorem eval_le3 (q : List K) (h : q.length ≤ 3) (x : K) :
    Poly.eval q x = q.getD 0 0 + q.getD 1 0 * x + q.getD 2 0 * x ^ 2 := by
  match q, h with
  | [], _ => simp
  | [a], _ => simp
  | [a, b], _ => simp; ring
  | [a, b, c], _ => simp; ring

/-- `collOf` finds `var·N = (cm + c0·var + cp·var²)·D` -/
theorem collOf_spec (N D : List K) (hD : lc D ≠ 0) (h : (collOf N D).other = false) (x : K) :
    x * Poly.eval N x =
      (((collOf N D).cm.getD 0) + ((collOf N D).c0.getD 0) * x + ((collOf N D).cp.getD 0) * x ^ 2) * Poly.eval D x := by
  unfold collOf at h ⊢
  simp only at h ⊢
  split at h
  · rename_i hc
    simp only [Bool.and_eq_true, decide_eq_true_eq] at hc
    simp only [hc.1, hc.2, Bool.and_self, decide_true, if_true, nz_getD]
    have e := (divmod_spec' (0 :: N) D hD).1 x
    rw [eval_of_isZero hc.1, add_zero, eval_cons, zero_add, ← eval_trim (divmod (0 :: N) D).1,
      eval_le3 _ hc.2] at e
    rw [e]
  · simp at h

/-- the collected dictionary has the value of `N/D` -/
theorem collOf_value (N D : List K) (h : (collOf N D).other = false) (x : K) (hx : x ≠ 0)
    (hD : Poly.eval D x ≠ 0) : (collOf N D).value x = Poly.eval N x / Poly.eval D x := by
  have e := collOf_spec N D (lc_ne_zero_of_eval hD) h x
  have : Poly.eval N x = (((collOf N D).cm.getD 0) + ((collOf N D).c0.getD 0) * x +
      ((collOf N D).cp.getD 0) * x ^ 2) * Poly.eval D x / x := by
    rw [← e]; field_simp
  rw [this]
  simp only [Coll.value]
  field_simp
  ring

theorem other_false_of_some (d : Coll K) (n : Option (Net K))
    (h : seriesRL d = some n ∨ seriesRC d = some n ∨ seriesGC d = some n ∨ seriesLC d = some n ∨
      seriesRLC d = some n ∨ parallelRL d = some n ∨ parallelRC d = some n ∨ parallelGC d = some n ∨
      parallelLC d = some n ∨ parallelRLC d = some n) : d.other = false := by
  by_contra hne
  have ho : d.other = true := by simpa using hne
  have := reject_other d ho
  rcases h with h | h | h | h | h | h | h | h | h | h <;> simp_all

/-- a series pattern applied to `N/D` -/
theorem seriesForm_value (f : Coll K → Option (Option (Net K))) (z : Bool) (N D : List K) (net : Net K) (x : K)
    (hf : ∀ d n, f d = some n → (seriesRL d = some n ∨ seriesRC d = some n ∨ seriesGC d = some n ∨
      seriesLC d = some n ∨ seriesRLC d = some n))
    (h : seriesForm f z N D = some (some net)) (hx : x ≠ 0) (hD : Poly.eval D x ≠ 0) :
    net.Z x = Poly.eval N x / Poly.eval D x := by
  unfold seriesForm at h
  split at h
  · split at h <;> simp at h
  · split at h
    · simp at h
    · have h5 := hf _ _ h
      have hv := series_forms_value (collOf N D) x (some net) h5
      have ho : (collOf N D).other = false := other_false_of_some _ (some net) (by
        rcases h5 with h | h | h | h | h
        · exact Or.inl h
        · exact Or.inr (Or.inl h)
        · exact Or.inr (Or.inr (Or.inl h))
        · exact Or.inr (Or.inr (Or.inr (Or.inl h)))
        · exact Or.inr (Or.inr (Or.inr (Or.inr (Or.inl h)))))
      rw [← collOf_value N D ho x hx hD, ← hv]; rfl

/-- a parallel pattern applied to `N/D` (dictionary of `D/N`) -/
theorem parallelForm_value (f : Coll K → Option (Option (Net K))) (z : Bool) (N D : List K) (net : Net K) (x : K)
    (hf : ∀ d n, f d = some n → (parallelRL d = some n ∨ parallelRC d = some n ∨ parallelGC d = some n ∨
      parallelLC d = some n ∨ parallelRLC d = some n))
    (h : parallelForm f z N D = some (some net)) (hx : x ≠ 0) (hN : Poly.eval N x ≠ 0) :
    net.Z x = Poly.eval N x / Poly.eval D x := by
  unfold parallelForm at h
  split at h
  · split at h <;> simp at h
  · split at h
    · simp at h
    · have h5 := hf _ _ h
      have hv := parallel_forms_value (collOf D N) x (some net) h5
      have ho : (collOf D N).other = false := other_false_of_some _ (some net) (by
        rcases h5 with h | h | h | h | h
        · exact Or.inr (Or.inr (Or.inr (Or.inr (Or.inr (Or.inl h)))))
        · exact Or.inr (Or.inr (Or.inr (Or.inr (Or.inr (Or.inr (Or.inl h))))))
        · exact Or.inr (Or.inr (Or.inr (Or.inr (Or.inr (Or.inr (Or.inr (Or.inl h)))))))
        · exact Or.inr (Or.inr (Or.inr (Or.inr (Or.inr (Or.inr (Or.inr (Or.inr (Or.inl h))))))))
        · exact Or.inr (Or.inr (Or.inr (Or.inr (Or.inr (Or.inr (Or.inr (Or.inr (Or.inr h)))))))))
      simp only [YparO] at hv
      rw [← one_div_one_div (net.Z x), hv, collOf_value D N ho x hx hN, one_div_div]

/-- every pattern form, decided from `N/D`, realises `N/D` when it returns a network -/
theorem patternOf_value (F : Form) (g : List K → List K → Option (Option (Net K))) (hg : patternOf F = some g)
    (N D : List K) (net : Net K) (x : K) (h : g N D = some (some net)) (hx : x ≠ 0)
    (hN : Poly.eval N x ≠ 0) (hD : Poly.eval D x ≠ 0) : net.Z x = Poly.eval N x / Poly.eval D x := by
  cases F <;> simp only [patternOf, Option.some.injEq] at hg <;> try (exact absurd hg (by simp))
  all_goals subst hg
  · exact seriesForm_value _ _ N D net x (fun d n hn => Or.inl hn) h hx hD
  · exact seriesForm_value _ _ N D net x (fun d n hn => Or.inr (Or.inl hn)) h hx hD
  · exact seriesForm_value _ _ N D net x (fun d n hn => Or.inr (Or.inr (Or.inl hn))) h hx hD
  · exact seriesForm_value _ _ N D net x (fun d n hn => Or.inr (Or.inr (Or.inr (Or.inl hn)))) h hx hD
  · exact seriesForm_value _ _ N D net x (fun d n hn => Or.inr (Or.inr (Or.inr (Or.inr hn)))) h hx hD
  · exact parallelForm_value _ _ N D net x (fun d n hn => Or.inl hn) h hx hN
  · exact parallelForm_value _ _ N D net x (fun d n hn => Or.inr (Or.inl hn)) h hx hN
  · exact parallelForm_value _ _ N D net x (fun d n hn => Or.inr (Or.inr (Or.inl hn))) h hx hN
  · exact parallelForm_value _ _ N D net x (fun d n hn => Or.inr (Or.inr (Or.inr (Or.inl hn)))) h hx hN
  · exact parallelForm_value _ _ N D net x (fun d n hn => Or.inr (Or.inr (Or.inr (Or.inr hn)))) h hx hN

theorem rlcForm_value (N D : List K) (net : Net K) (x : K) (h : rlcForm N D = some (some net)) (hx : x ≠ 0)
    (hN : Poly.eval N x ≠ 0) (hD : Poly.eval D x ≠ 0) : net.Z x = Poly.eval N x / Poly.eval D x := by
  unfold rlcForm at h
  cases hs : seriesForm seriesRLC false N D with
  | some r =>
    simp only [hs, Option.some.injEq] at h; subst h
    exact seriesForm_value _ _ N D net x (fun d n hn => Or.inr (Or.inr (Or.inr (Or.inr hn)))) hs hx hD
  | none =>
    simp only [hs] at h
    exact parallelForm_value _ _ N D net x (fun d n hn => Or.inr (Or.inr (Or.inr (Or.inr hn)))) h hx hN

/-- no element or sub-network of `net` has an undefined (infinite) immittance at `x` -/
def Net.DefinedAt (x : K) : Net K → Prop
  | .R _ => True
  | .L _ => True
  | .C c => c * x ≠ 0
  | .G g => g ≠ 0
  | .ser a b => a.DefinedAt x ∧ b.DefinedAt x
  | .par a b => a.DefinedAt x ∧ b.DefinedAt x ∧ a.Z x ≠ 0 ∧ b.Z x ≠ 0 ∧ 1 / a.Z x + 1 / b.Z x ≠ 0

/-- `Net.ratZ` is the impedance as a quotient of polynomials -/
theorem ratZ_value (net : Net K) (x : K) (h : net.DefinedAt x) :
    Poly.eval net.ratZ.2 x ≠ 0 ∧ net.Z x = Poly.eval net.ratZ.1 x / Poly.eval net.ratZ.2 x := by
  induction net with
  | R r => simp [Net.ratZ, Net.Z]
  | L l => simp [Net.ratZ, Net.Z]; ring
  | C c =>
    simp only [Net.DefinedAt] at h
    have : Poly.eval [0, c] x = c * x := by simp; ring
    simp only [Net.ratZ, Net.Z, this]
    exact ⟨h, by simp⟩
  | G g =>
    simp only [Net.DefinedAt] at h
    simp [Net.ratZ, Net.Z, h]
  | ser a b iha ihb =>
    simp only [Net.DefinedAt] at h
    obtain ⟨ha1, ha2⟩ := iha h.1
    obtain ⟨hb1, hb2⟩ := ihb h.2
    simp only [Net.ratZ, Net.Z, eval_add, eval_mul]
    refine ⟨mul_ne_zero ha1 hb1, ?_⟩
    rw [ha2, hb2]; field_simp
  | par a b iha ihb =>
    simp only [Net.DefinedAt] at h
    obtain ⟨ha, hb, hza, hzb, hs⟩ := h
    obtain ⟨ha1, ha2⟩ := iha ha
    obtain ⟨hb1, hb2⟩ := ihb hb
    rw [ha2] at hza hs
    rw [hb2] at hzb hs
    have hna : Poly.eval a.ratZ.1 x ≠ 0 := fun h0 => hza (by rw [h0]; simp)
    have hnb : Poly.eval b.ratZ.1 x ≠ 0 := fun h0 => hzb (by rw [h0]; simp)
    simp only [Net.ratZ, Net.Z, eval_add, eval_mul]
    have hsum : 1 / (Poly.eval a.ratZ.1 x / Poly.eval a.ratZ.2 x) + 1 / (Poly.eval b.ratZ.1 x / Poly.eval b.ratZ.2 x) =
        (Poly.eval a.ratZ.1 x * Poly.eval b.ratZ.2 x + Poly.eval b.ratZ.1 x * Poly.eval a.ratZ.2 x) /
          (Poly.eval a.ratZ.1 x * Poly.eval b.ratZ.1 x) := by
      field_simp; ring
    rw [hsum] at hs
    have hden : Poly.eval a.ratZ.1 x * Poly.eval b.ratZ.2 x + Poly.eval b.ratZ.1 x * Poly.eval a.ratZ.2 x ≠ 0 := by
      intro h0; apply hs; rw [h0]; simp
    refine ⟨hden, ?_⟩
    rw [ha2, hb2, hsum]
    field_simp

theorem mapOpt_ne_none {α β : Type} (f : α → Option β) (l : List α) (l' : List β) (h : mapOpt f l = some l') :
    ∀ a ∈ l, f a ≠ none := by
  induction l generalizing l' with
  | nil => simp
  | cons a l ih =>
    simp only [mapOpt] at h
    cases ha : f a with
    | none => simp [ha] at h
    | some b =>
      cases hl : mapOpt f l with
      | none => simp [ha, hl] at h
      | some bs =>
        intro a' ha'
        simp only [List.mem_cons] at ha'
        rcases ha' with rfl | ha'
        · simp [ha]
        · exact ih bs hl a' ha'

theorem mapOpt_of_all {α β : Type} (f : α → Option β) (l : List α) (h : ∀ a ∈ l, f a ≠ none) :
    ∃ l', mapOpt f l = some l' ∧ l'.length = l.length := by
  induction l with
  | nil => exact ⟨[], rfl, rfl⟩
  | cons a l ih =>
    obtain ⟨bs, hb, hlen⟩ := ih (fun a' ha' => h a' (List.mem_cons_of_mem _ ha'))
    cases ha : f a with
    | none => exact absurd ha (h a (by simp))
    | some b => exact ⟨b :: bs, by simp [mapOpt, ha, hb], by simp [hlen]⟩

theorem seriesRL_accepts (d : Coll K) : seriesRL d ≠ none ↔ d.other = false ∧ d.cm = none := by
  obtain ⟨c0, cp, cm, o⟩ := d
  cases o <;> cases cm <;> simp [seriesRL]
theorem seriesRC_accepts (d : Coll K) : seriesRC d ≠ none ↔ d.other = false ∧ d.cp = none := by
  obtain ⟨c0, cp, cm, o⟩ := d
  cases o <;> cases cp <;> simp [seriesRC]
theorem seriesGC_accepts (d : Coll K) : seriesGC d ≠ none ↔ d.other = false ∧ d.cp = none := by
  obtain ⟨c0, cp, cm, o⟩ := d
  cases o <;> cases cp <;> simp [seriesGC]
theorem seriesLC_accepts (d : Coll K) : seriesLC d ≠ none ↔ d.other = false ∧ d.c0.getD 0 = 0 := by
  obtain ⟨c0, cp, cm, o⟩ := d
  cases o <;> simp [seriesLC]
theorem seriesRLC_accepts (d : Coll K) : seriesRLC d ≠ none ↔ d.other = false := by
  obtain ⟨c0, cp, cm, o⟩ := d
  cases o <;> simp [seriesRLC]
theorem parallelRL_accepts (d : Coll K) : parallelRL d ≠ none ↔ d.other = false ∧ d.cp = none := by
  obtain ⟨c0, cp, cm, o⟩ := d
  cases o <;> cases cp <;> simp [parallelRL]
theorem parallelRC_accepts (d : Coll K) : parallelRC d ≠ none ↔ d.other = false ∧ d.cm = none := by
  obtain ⟨c0, cp, cm, o⟩ := d
  cases o <;> cases cm <;> simp [parallelRC]
theorem parallelGC_accepts (d : Coll K) : parallelGC d ≠ none ↔ d.other = false ∧ d.cm = none := by
  obtain ⟨c0, cp, cm, o⟩ := d
  cases o <;> cases cm <;> simp [parallelGC]
theorem parallelLC_accepts (d : Coll K) : parallelLC d ≠ none ↔ d.other = false ∧ d.c0.getD 0 = 0 := by
  obtain ⟨c0, cp, cm, o⟩ := d
  cases o <;> simp [parallelLC]
theorem parallelRLC_accepts (d : Coll K) : parallelRLC d ≠ none ↔ d.other = false := by
  obtain ⟨c0, cp, cm, o⟩ := d
  cases o <;> simp [parallelRLC]

theorem nz_eq_none (a : K) : nz a = none ↔ a = 0 := by
  unfold nz; by_cases h : a = 0 <;> simp [h]

theorem ofOO_ok (r : Option (Option (Net K))) (net : Net K) (h : ofOO r = .ok net) : r = some (some net) := by
  cases r with
  | none => simp [ofOO] at h
  | some o =>
    cases o with
    | none => simp [ofOO] at h
    | some n => simp only [ofOO, NRes.ok.injEq] at h; subst h; rfl
end Lcapy.Synth
