/-
  Helper lemmas for C15 (nodal and mesh formulations): evaluation of linear forms, the
  per-component identity "KCL term = physical outflow", telescoping of potential differences.
-/
import Lcapy.Model.Formulations
import Lcapy.Proofs.MNA
import Mathlib.Tactic.Ring
import Mathlib.Tactic.FieldSimp
import Mathlib.Tactic.LinearCombination
import Mathlib.Algebra.Field.Basic
namespace Lcapy.Formulations
open Lcapy.MNA Ix
variable {K : Type} [Field K]

set_option linter.unusedSimpArgs false
set_option linter.unusedTactic false
set_option linter.unreachableTactic false
set_option linter.unnecessarySeqFocus false
set_option linter.unusedVariables false

/-! ### linear forms -/

theorem eval_zero (x : Ix → K) : (LinForm.zero : LinForm K).eval x = 0 := by
  simp [LinForm.zero, LinForm.eval, lsum]

theorem eval_add (x : Ix → K) (f g : LinForm K) : (f.add g).eval x = f.eval x + g.eval x := by
  simp [LinForm.add, LinForm.eval, lsum_append]; ring

theorem eval_sumForms (x : Ix → K) (l : List (LinForm K)) :
    (sumForms l).eval x = lsum (l.map (LinForm.eval x)) := by
  induction l with
  | nil => simp [sumForms, eval_zero, lsum]
  | cons h t ih =>
    simp only [sumForms, List.foldr_cons, List.map_cons, lsum] at *
    rw [eval_add, ih]

/-! ### which components the nodal formulation can express -/

/-- the formulation is defined for the component: a one-port R, Y, C, L, V, I with two
    different nodes; an inductor has no mutual coupling and a finite admittance 1/(sL) -/
def OkCpt (kind : Kind) (s : K) : Cpt K → Prop
  | .R a b _ => a ≠ b
  | .Y a b _ => a ≠ b
  | .Cap a b _ _ => a ≠ b
  | .Ind a b _ l _ coup => a ≠ b ∧ coup = [] ∧ indZ kind s l ≠ 0
  | .V a b _ _ => a ≠ b
  | .I a b _ => a ≠ b
  | _ => False

/-- where the code as it is (un-patched) agrees with the patched code: constants of a branch
    relation are only right when the component is seen from its first node, and a current
    source only when seen from its second node -/
def SafeAt (kind : Kind) (s : K) (k : Nat) (c : Cpt K) : Prop :=
  match nodes2 c, curEq kind s c with
  | some (n1, _), some (_, i0) => if isI c then k ≠ n1 else (k = n1 ∨ i0 = 0)
  | _, _ => True

theorem incident_iff (k : Nat) (c : Cpt K) (n1 n2 : Nat) (h : nodes2 c = some (n1, n2)) :
    incident k c = true ↔ (n1 = k ∨ n2 = k) := by
  simp [incident, h]

/-- a component that does not touch node `k` carries no current out of it -/
theorem outflow_not_incident (kind : Kind) (s : K) (x : Ix → K) (k : Nat) (c : Cpt K)
    (hok : OkCpt kind s c) (hinc : incident k c = false) : outflow kind s x k c = 0 := by
  cases c <;> simp [OkCpt] at hok <;> simp [incident, nodes2] at hinc <;>
    simp [outflow, twoTerm, hinc.1, hinc.2]

/-- patched KCL term = physical current leaving node `k` through the component -/
theorem kclTerm_patched (kind : Kind) (s : K) (x : Ix → K) (k : Nat) (c : Cpt K)
    (hok : OkCpt kind s c) (hv : isV c = false) (hinc : incident k c = true)
    (hlaw : ∀ p ∈ laws kind s x c, p.2 = 0) :
    (kclTerm true kind s k c).eval x = outflow kind s x k c := by
  cases c with
  | R a b r =>
    simp [OkCpt] at hok
    simp [incident, nodes2] at hinc
    rcases hinc with rfl | rfl
    · simp [kclTerm, nodes2, curEq, isI, LinForm.eval, lsum, outflow, twoTerm, vd, hok, Ne.symm hok]; ring
    · simp [kclTerm, nodes2, curEq, isI, LinForm.eval, lsum, outflow, twoTerm, vd, hok, Ne.symm hok]; ring
  | Y a b y =>
    simp [OkCpt] at hok
    simp [incident, nodes2] at hinc
    rcases hinc with rfl | rfl
    · simp [kclTerm, nodes2, curEq, isI, LinForm.eval, lsum, outflow, twoTerm, vd, hok, Ne.symm hok]; ring
    · simp [kclTerm, nodes2, curEq, isI, LinForm.eval, lsum, outflow, twoTerm, vd, hok, Ne.symm hok]; ring
  | Cap a b cc v0 =>
    simp [OkCpt] at hok
    simp [incident, nodes2] at hinc
    rcases hinc with rfl | rfl
    · cases kind <;> cases v0 <;>
        simp [kclTerm, nodes2, curEq, isI, LinForm.eval, LinForm.zero, lsum, outflow, twoTerm, vd, capCurrent,
              hok, Ne.symm hok] <;> ring
    · cases kind <;> cases v0 <;>
        simp [kclTerm, nodes2, curEq, isI, LinForm.eval, LinForm.zero, lsum, outflow, twoTerm, vd, capCurrent,
              hok, Ne.symm hok] <;> ring
  | Ind a b m l i0 coup =>
    obtain ⟨hab, hc, hz⟩ := hok
    subst hc
    simp [incident, nodes2] at hinc
    have hJ : x (br m) = (vd x a b + (match kind, i0 with | .ivp, some i0 => l * i0 | _, _ => 0)) / indZ kind s l := by
      cases kind <;> simp [indZ] at hz
      · have := hlaw (m, _) (by simp [laws]; rfl)
        simp [mutualDrop, lsum] at this
        rw [eq_div_iff (by simp [indZ]; exact hz)]
        simp [indZ]
        linear_combination (-1 : K) * this
      · cases i0 with
        | none =>
          have := hlaw (m, _) (by simp [laws]; rfl)
          simp [mutualDrop, lsum] at this
          rw [eq_div_iff (by simp [indZ]; exact hz)]
          simp [indZ]
          linear_combination (-1 : K) * this
        | some i0 =>
          have := hlaw (m, _) (by simp [laws]; rfl)
          simp [mutualDrop, lsum] at this
          rw [eq_div_iff (by simp [indZ]; exact hz)]
          simp [indZ]
          linear_combination (-1 : K) * this
    rcases hinc with rfl | rfl
    · cases kind <;> cases i0 <;> simp [indZ] at hz <;>
        simp [kclTerm, nodes2, curEq, isI, LinForm.eval, LinForm.zero, lsum, outflow, twoTerm, hab, Ne.symm hab, hJ] <;>
        simp [vd] <;> ring
    · cases kind <;> cases i0 <;> simp [indZ] at hz <;>
        simp [kclTerm, nodes2, curEq, isI, LinForm.eval, LinForm.zero, lsum, outflow, twoTerm, hab, Ne.symm hab, hJ] <;>
        simp [vd] <;> ring
  | V a b m v => simp [isV] at hv
  | I a b i =>
    simp [OkCpt] at hok
    simp [incident, nodes2] at hinc
    rcases hinc with rfl | rfl
    · simp [kclTerm, nodes2, curEq, isI, LinForm.eval, lsum, outflow, twoTerm, hok, Ne.symm hok]
    · simp [kclTerm, nodes2, curEq, isI, LinForm.eval, lsum, outflow, twoTerm, hok, Ne.symm hok]
  | _ => simp [OkCpt] at hok

/-- where `SafeAt` holds the code as it is produces the same term as the patched code -/
theorem kclTerm_asis (kind : Kind) (s : K) (x : Ix → K) (k : Nat) (c : Cpt K)
    (hok : OkCpt kind s c) (hinc : incident k c = true) (hsafe : SafeAt kind s k c) :
    (kclTerm false kind s k c).eval x = (kclTerm true kind s k c).eval x := by
  unfold kclTerm
  cases hn : nodes2 c with
  | none => simp
  | some n12 =>
    obtain ⟨n1, n2⟩ := n12
    cases hc : curEq kind s c with
    | none => simp
    | some gi =>
      obtain ⟨g, i0⟩ := gi
      simp only [SafeAt, hn, hc] at hsafe
      have hinc' := (incident_iff k c n1 n2 hn).mp hinc
      have hne : n1 ≠ n2 := by
        cases c <;> simp [nodes2] at hn <;> simp [OkCpt] at hok <;> (obtain ⟨rfl, rfl⟩ := hn) <;> tauto
      by_cases hI : isI c = true
      · simp only [hI, if_true] at hsafe
        have hk2 : k = n2 := by rcases hinc' with h | h <;> [exact absurd h.symm hsafe; exact h.symm]
        have : ¬ (k = n1) := hsafe
        cases c <;> simp [isI] at hI
        simp [curEq] at hc
        obtain ⟨rfl, rfl⟩ := hc
        simp [this, isI, LinForm.eval, lsum]
      · simp only [hI] at hsafe
        simp only [Bool.not_eq_true] at hI
        by_cases hk1 : k = n1
        · simp [hk1, hI]
        · have hi0 : i0 = 0 := by rcases hsafe with h | h <;> [exact absurd h hk1; exact h]
          simp [hk1, hI, hi0, LinForm.eval, lsum]; ring

/-- sum of the outflows over the netlist = sum over the incident components -/
theorem kcl_sum_filter (kind : Kind) (s : K) (x : Ix → K) (k : Nat) (cs : List (Cpt K))
    (t : Cpt K → LinForm K)
    (h : ∀ c ∈ cs, (incident k c = true → (t c).eval x = outflow kind s x k c) ∧
                   (incident k c = false → outflow kind s x k c = 0)) :
    lsum (((cs.filter (incident k)).map t).map (LinForm.eval x)) = lsum (cs.map (outflow kind s x k)) := by
  induction cs with
  | nil => simp [lsum]
  | cons c rest ih =>
    have hc := h c (by simp)
    have ih' := ih (fun c' hc' => h c' (by simp [hc']))
    by_cases hi : incident k c = true
    · simp only [List.filter_cons, hi, if_true, List.map_cons, lsum]
      rw [hc.1 hi]
      simp only [List.map_map] at ih' ⊢
      rw [ih']
    · simp only [Bool.not_eq_true] at hi
      simp only [List.filter_cons, hi, List.map_cons, lsum, hc.2 hi, zero_add]
      simpa using ih'

/-! ### telescoping of potential differences along a walk -/

/-- sum of the potential rises `φ b − φ a` over the consecutive pairs of a walk that closes at `first` -/
theorem pairsFrom_telescope (φ : GNode → K) (first a : GNode) (t : List GNode) :
    lsum ((pairsFrom first (a :: t)).map (fun pq => φ pq.2 - φ pq.1)) = φ first - φ a := by
  induction t generalizing a with
  | nil => simp [pairsFrom, lsum]
  | cons b t ih => simp [pairsFrom, lsum, ih b]

end Lcapy.Formulations
