/-
  Helper lemmas for C15 (nodal and mesh formulations): evaluation of linear forms, the
  per-component identity "KCL term = physical outflow", telescoping of potential differences.
-/
import Lcapy.Model.Formulations
import Lcapy.Proofs.MNA
import Mathlib.Tactic.Ring
import Mathlib.Tactic.FieldSimp
import Mathlib.Tactic.LinearCombination
import Mathlib.Algebra.Field.Basic
import Mathlib.Tactic.NormNum
namespace Lcapy.Formulations
open Lcapy.MNA Ix
variable {K : Type} [Field K]

set_option linter.unusedSimpArgs false
set_option linter.unusedTactic false
set_option linter.unreachableTactic false
set_option linter.unnecessarySeqFocus false
set_option linter.unusedVariables false

/-! ### linear forms -/

theorem eval_zero (x : Ix → K) : (LinForm.zero : LinForm K).eval x = 0 := by
  simp [LinForm.zero, LinForm.eval, lsum]

theorem eval_add (x : Ix → K) (f g : LinForm K) : (f.add g).eval x = f.eval x + g.eval x := by
  simp [LinForm.add, LinForm.eval, lsum_append]; ring

theorem eval_sumForms (x : Ix → K) (l : List (LinForm K)) :
    (sumForms l).eval x = lsum (l.map (LinForm.eval x)) := by
  induction l with
  | nil => simp [sumForms, eval_zero, lsum]
  | cons h t ih =>
    simp only [sumForms, List.foldr_cons, List.map_cons, lsum] at *
    rw [eval_add, ih]

/-! ### which components the nodal formulation can express -/

/-- the formulation is defined for the component: a one-port R, Y, C, L, V, I with two
    different nodes; a resistor has a finite admittance 1/R (R ≠ 0: the code prints `zoo` for a 0-ohm resistor), an
    inductor has no mutual coupling and a finite admittance 1/(sL) -/
def OkCpt (kind : Kind) (s : K) : Cpt K → Prop
  | .R a b r => a ≠ b ∧ r ≠ 0
  | .Y a b _ => a ≠ b
  | .Cap a b _ _ => a ≠ b
  | .Ind a b _ l _ coup => a ≠ b ∧ coup = [] ∧ indZ kind s l ≠ 0
  | .V a b _ _ => a ≠ b
  | .I a b _ => a ≠ b
  | _ => False

theorem incident_iff (k : Nat) (c : Cpt K) (n1 n2 : Nat) (h : nodes2 c = some (n1, n2)) :
    incident k c = true ↔ (n1 = k ∨ n2 = k) := by
  simp [incident, h]

/-- a component that does not touch node `k` carries no current out of it -/
theorem outflow_not_incident (kind : Kind) (s : K) (x : Ix → K) (k : Nat) (c : Cpt K)
    (hok : OkCpt kind s c) (hinc : incident k c = false) : outflow kind s x k c = 0 := by
  cases c <;> simp [OkCpt] at hok <;> simp [incident, nodes2] at hinc <;>
    simp [outflow, twoTerm, hinc.1, hinc.2]

/-- KCL term = physical current leaving node `k` through the component -/
theorem kclTerm_patched (kind : Kind) (s : K) (x : Ix → K) (k : Nat) (c : Cpt K)
    (hok : OkCpt kind s c) (hv : isV c = false) (hinc : incident k c = true)
    (hlaw : ∀ p ∈ laws kind s x c, p.2 = 0) :
    (kclTerm kind s k c).eval x = outflow kind s x k c := by
  cases c with
  | R a b r =>
    simp [OkCpt] at hok
    obtain ⟨hok, _⟩ := hok
    simp [incident, nodes2] at hinc
    rcases hinc with rfl | rfl
    · simp [kclTerm, nodes2, curEq, isI, LinForm.eval, lsum, outflow, twoTerm, vd, hok, Ne.symm hok]; ring
    · simp [kclTerm, nodes2, curEq, isI, LinForm.eval, lsum, outflow, twoTerm, vd, hok, Ne.symm hok]; ring
  | Y a b y =>
    simp [OkCpt] at hok
    simp [incident, nodes2] at hinc
    rcases hinc with rfl | rfl
    · simp [kclTerm, nodes2, curEq, isI, LinForm.eval, lsum, outflow, twoTerm, vd, hok, Ne.symm hok]; ring
    · simp [kclTerm, nodes2, curEq, isI, LinForm.eval, lsum, outflow, twoTerm, vd, hok, Ne.symm hok]; ring
  | Cap a b cc v0 =>
    simp [OkCpt] at hok
    simp [incident, nodes2] at hinc
    rcases hinc with rfl | rfl
    · cases kind <;> cases v0 <;>
        simp [kclTerm, nodes2, curEq, isI, LinForm.eval, LinForm.zero, lsum, outflow, twoTerm, vd, capCurrent,
              hok, Ne.symm hok] <;> ring
    · cases kind <;> cases v0 <;>
        simp [kclTerm, nodes2, curEq, isI, LinForm.eval, LinForm.zero, lsum, outflow, twoTerm, vd, capCurrent,
              hok, Ne.symm hok] <;> ring
  | Ind a b m l i0 coup =>
    obtain ⟨hab, hc, hz⟩ := hok
    subst hc
    simp [incident, nodes2] at hinc
    have hJ : x (br m) = (vd x a b + (match kind, i0 with | .ivp, some i0 => l * i0 | _, _ => 0)) / indZ kind s l := by
      cases kind <;> simp [indZ] at hz
      · have := hlaw (m, _) (by simp [laws]; rfl)
        simp [mutualDrop, mutualIC, lsum] at this
        rw [eq_div_iff (by simp [indZ]; exact hz)]
        simp [indZ]
        linear_combination (-1 : K) * this
      · cases i0 with
        | none =>
          have := hlaw (m, _) (by simp [laws]; rfl)
          simp [mutualDrop, mutualIC, lsum] at this
          rw [eq_div_iff (by simp [indZ]; exact hz)]
          simp [indZ]
          linear_combination (-1 : K) * this
        | some i0 =>
          have := hlaw (m, _) (by simp [laws]; rfl)
          simp [mutualDrop, mutualIC, lsum] at this
          rw [eq_div_iff (by simp [indZ]; exact hz)]
          simp [indZ]
          linear_combination (-1 : K) * this
    rcases hinc with rfl | rfl
    · cases kind <;> cases i0 <;> simp [indZ] at hz <;>
        simp [kclTerm, nodes2, curEq, isI, LinForm.eval, LinForm.zero, lsum, outflow, twoTerm, hab, Ne.symm hab, hJ] <;>
        simp [vd] <;> ring
    · cases kind <;> cases i0 <;> simp [indZ] at hz <;>
        simp [kclTerm, nodes2, curEq, isI, LinForm.eval, LinForm.zero, lsum, outflow, twoTerm, hab, Ne.symm hab, hJ] <;>
        simp [vd] <;> ring
  | V a b m v => simp [isV] at hv
  | I a b i =>
    simp [OkCpt] at hok
    simp [incident, nodes2] at hinc
    rcases hinc with rfl | rfl
    · simp [kclTerm, nodes2, curEq, isI, LinForm.eval, lsum, outflow, twoTerm, hok, Ne.symm hok]
    · simp [kclTerm, nodes2, curEq, isI, LinForm.eval, lsum, outflow, twoTerm, hok, Ne.symm hok]
  | _ => simp [OkCpt] at hok

/-- sum of the outflows over the netlist = sum over the incident components -/
theorem kcl_sum_filter (kind : Kind) (s : K) (x : Ix → K) (k : Nat) (cs : List (Cpt K))
    (t : Cpt K → LinForm K)
    (h : ∀ c ∈ cs, (incident k c = true → (t c).eval x = outflow kind s x k c) ∧
                   (incident k c = false → outflow kind s x k c = 0)) :
    lsum (((cs.filter (incident k)).map t).map (LinForm.eval x)) = lsum (cs.map (outflow kind s x k)) := by
  induction cs with
  | nil => simp [lsum]
  | cons c rest ih =>
    have hc := h c (by simp)
    have ih' := ih (fun c' hc' => h c' (by simp [hc']))
    by_cases hi : incident k c = true
    · simp only [List.filter_cons, hi, if_true, List.map_cons, lsum]
      rw [hc.1 hi]
      simp only [List.map_map] at ih' ⊢
      rw [ih']
    · simp only [Bool.not_eq_true] at hi
      simp only [List.filter_cons, hi, List.map_cons, lsum, hc.2 hi, zero_add]
      simpa using ih'

/-! ### telescoping of potential differences along a walk -/

/-- sum of the potential rises `φ b − φ a` over the consecutive pairs of a walk that closes at `first` -/
theorem pairsFrom_telescope (φ : GNode → K) (first a : GNode) (t : List GNode) :
    lsum ((pairsFrom first (a :: t)).map (fun pq => φ pq.2 - φ pq.1)) = φ first - φ a := by
  induction t generalizing a with
  | nil => simp [pairsFrom, lsum]
  | cons b t ih => simp [pairsFrom, lsum, ih b]

/-! ### the circuit graph -/

/-- what `CircuitGraph.from_circuit` guarantees of every edge: a component edge starts at the
    component's first node and ends at its second node or at a dummy standing for it; a dummy wire
    joins a dummy to the node it stands for -/
def EdgeOK (cs : List (Cpt K)) (e : Edge K) : Prop :=
  match e.cpt with
  | some (_, c) => c ∈ cs ∧ ∃ n0 n1, nodes2 c = some (n0, n1) ∧ e.a = .real n0 ∧ (e.b = .real n1 ∨ ∃ d, e.b = .dummy d n1)
  | none => ∃ d n, e.a = .dummy d n ∧ e.b = .real n

theorem addCpt_ok (cs : List (Cpt K)) (st : List (Edge K) × Nat) (ic : Nat × Cpt K) (hic : ic.2 ∈ cs)
    (h : ∀ e ∈ st.1, EdgeOK cs e) : ∀ e ∈ (addCpt st ic).1, EdgeOK cs e := by
  intro e he
  unfold addCpt at he
  cases hn : nodes2 ic.2 with
  | none => rw [hn] at he; exact h e he
  | some n12 =>
    obtain ⟨n1, n2⟩ := n12
    rw [hn] at he
    simp only at he
    split_ifs at he
    · simp only [List.mem_append, List.mem_cons, List.mem_nil_iff, or_false] at he
      rcases he with he | rfl | rfl
      · exact h e he
      · exact ⟨hic, n1, n2, hn, rfl, Or.inr ⟨_, rfl⟩⟩
      · exact ⟨_, _, rfl, rfl⟩
    · simp only [List.mem_append, List.mem_cons, List.mem_nil_iff, or_false] at he
      rcases he with he | rfl
      · exact h e he
      · exact ⟨hic, n1, n2, hn, rfl, Or.inl rfl⟩

theorem foldl_addCpt_ok (cs : List (Cpt K)) (l : List (Nat × Cpt K)) (hl : ∀ ic ∈ l, ic.2 ∈ cs) :
    ∀ st : List (Edge K) × Nat, (∀ e ∈ st.1, EdgeOK cs e) → ∀ e ∈ (l.foldl addCpt st).1, EdgeOK cs e := by
  induction l with
  | nil => intro st h; simpa using h
  | cons ic rest ih =>
    intro st h
    simp only [List.foldl_cons]
    exact ih (fun ic' h' => hl ic' (by simp [h'])) _ (addCpt_ok cs st ic (hl ic (by simp)) h)

/-- every edge of the graph built from the netlist is well formed -/
theorem buildGraph_ok (cs : List (Cpt K)) : ∀ e ∈ buildGraph cs, EdgeOK cs e := by
  unfold buildGraph
  apply foldl_addCpt_ok cs (enum cs)
  · intro ic hic
    exact (List.of_mem_zip hic).2
  · intro e he; simp at he

theorem joins_iff (e : Edge K) (p q : GNode) :
    e.joins p q = true ↔ (e.a = p ∧ e.b = q) ∨ (e.a = q ∧ e.b = p) := by
  simp [Edge.joins]

/-! ### mesh forms -/

theorem meshEval_scale (im : Nat → K) (z c0 : K) (l : List (Nat × K)) :
    (⟨scaleCoeffs z l, c0⟩ : MeshForm K).eval im = z * lsum (l.map (fun p => p.2 * im p.1)) + c0 := by
  simp only [MeshForm.eval]
  congr 1
  induction l with
  | nil => simp [scaleCoeffs, lsum]
  | cons h t ih =>
    simp only [scaleCoeffs, List.map_cons, lsum] at *
    rw [ih]; ring

theorem meshEval_add (im : Nat → K) (f g : MeshForm K) : (f.add g).eval im = f.eval im + g.eval im := by
  simp [MeshForm.add, MeshForm.eval, lsum_append]; ring

/-- the mesh formulation is defined for the component (an impedance exists) -/
def MeshOk (kind : Kind) (s : K) : Cpt K → Prop
  | .R a b r => a ≠ b ∧ r ≠ 0
  | .Y a b y => a ≠ b ∧ y ≠ 0
  | .Cap a b c _ => a ≠ b ∧ s * c ≠ 0 ∧ (kind = .lap ∨ kind = .ivp)
  | .Ind a b _ _ _ coup => a ≠ b ∧ coup = [] ∧ kind ≠ .time
  | .V a b _ _ => a ≠ b
  | _ => False

/-- current through a passive component from its first to its second node, by the spec -/
def through (kind : Kind) (s : K) (x : Ix → K) : Cpt K → K
  | .R a b r => vd x a b / r
  | .Y a b y => y * vd x a b
  | .Cap a b c v0 => capCurrent kind s c v0 (vd x a b)
  | .Ind _ _ m _ _ _ => x (.br m)
  | _ => 0

/-- the code's `current` for a component: signed sum of the mesh currents it finds -/
def meshCurrent (patched : Bool) (g : List (Edge K)) (loops : List (List GNode)) (idx : Nat) (c : Cpt K)
    (im : Nat → K) : K :=
  match nodes2 c with
  | some (n0, n1) =>
    lsum ((accCoeffs (K := K) (if patched then accEdge g loops idx n0 else accNames loops n0 n1)).map
      (fun p => p.2 * im p.1))
  | none => 0

/-- branch relation in impedance form: z·J + v0 = V(n0) − V(n1) -/
theorem volEq_law (kind : Kind) (s : K) (x : Ix → K) (c : Cpt K) (hok : MeshOk kind s c) (hv : isV c = false)
    (hlaw : ∀ p ∈ laws kind s x c, p.2 = 0) (n0 n1 : Nat) (hn : nodes2 c = some (n0, n1)) :
    ∃ z v0, volEq kind s c = some (z, v0) ∧ z * through kind s x c + v0 = vd x n0 n1 := by
  cases c with
  | R a b r =>
    simp [nodes2] at hn; obtain ⟨rfl, rfl⟩ := hn
    exact ⟨r, 0, rfl, by simp [through]; field_simp [hok.2]⟩
  | Y a b y =>
    simp [nodes2] at hn; obtain ⟨rfl, rfl⟩ := hn
    refine ⟨1 / y, 0, rfl, ?_⟩
    have := hok.2
    simp [through]; field_simp
  | Cap a b cc v0 =>
    simp [nodes2] at hn; obtain ⟨rfl, rfl⟩ := hn
    obtain ⟨_, hsc, hk⟩ := hok
    have hs : s ≠ 0 := left_ne_zero_of_mul hsc
    have hcc : cc ≠ 0 := right_ne_zero_of_mul hsc
    rcases hk with rfl | rfl
    · exact ⟨1 / (s * cc), 0, rfl, by simp [through, capCurrent]; field_simp⟩
    · cases v0 with
      | none => exact ⟨1 / (s * cc), 0, rfl, by simp [through, capCurrent]; field_simp⟩
      | some v0 => exact ⟨1 / (s * cc), v0 / s, rfl, by simp [through, capCurrent]; field_simp; ring⟩
  | Ind a b m l i0 coup =>
    simp [nodes2] at hn; obtain ⟨rfl, rfl⟩ := hn
    obtain ⟨_, rfl, hk⟩ := hok
    cases kind with
    | time => exact absurd rfl hk
    | dc =>
      have := hlaw (m, _) (by simp [laws]; rfl)
      exact ⟨0, 0, rfl, by simp [through]; simpa using this.symm⟩
    | lap =>
      have := hlaw (m, _) (by simp [laws]; rfl)
      simp [mutualDrop, mutualIC, lsum] at this
      exact ⟨s * l, 0, rfl, by simp [through]; linear_combination (-1 : K) * this⟩
    | ivp =>
      cases i0 with
      | none =>
        have := hlaw (m, _) (by simp [laws]; rfl)
        simp [mutualDrop, mutualIC, lsum] at this
        exact ⟨s * l, 0, rfl, by simp [through]; linear_combination (-1 : K) * this⟩
      | some i0 =>
        have := hlaw (m, _) (by simp [laws]; rfl)
        simp [mutualDrop, mutualIC, lsum] at this
        exact ⟨s * l, -(l * i0), rfl, by simp [through]; linear_combination (-1 : K) * this⟩
  | V a b m v => simp [isV] at hv
  | _ => simp [MeshOk] at hok

theorem find_joins (g : List (Edge K)) (p q : GNode) (h : hasEdge g p q = true) :
    ∃ e, g.find? (fun e => e.joins p q) = some e ∧ e ∈ g ∧ e.joins p q = true := by
  simp only [hasEdge, List.any_eq_true] at h
  obtain ⟨e0, he0, hj0⟩ := h
  cases hf : g.find? (fun e => e.joins p q) with
  | none =>
    rw [List.find?_eq_none] at hf
    exact absurd hj0 (hf e0 he0)
  | some e =>
    exact ⟨e, rfl, List.mem_of_find?_eq_some hf, by simpa using List.find?_some hf⟩

/-- the contribution of one consecutive pair (a, b) of a loop to the KVL sum is the potential
    rise  φ(b) − φ(a)  once the mesh currents carry the component's actual current -/
theorem meshTerm_eval (pe : Bool) (kind : Kind) (s : K) (cs : List (Cpt K)) (g : List (Edge K))
    (hg : ∀ e ∈ g, EdgeOK cs e) (loops : List (List GNode)) (x : Ix → K) (im : Nat → K)
    (hlaws : Laws kind s cs x) (hok : ∀ c ∈ cs, MeshOk kind s c)
    (hpe : pe = false → ∀ e ∈ g, ∃ n, e.b = .real n)
    (ab : GNode × GNode) (hadj : hasEdge g ab.1 ab.2 = true)
    (hcons : ∀ idx c, component g ab.1 ab.2 = some (idx, c) → isV c = false →
        meshCurrent pe g loops idx c im = -(through kind s x c))
    (t : MeshForm K) (ht : meshTerm pe kind s g loops ab = some t) :
    t.eval im = gvolt x ab.2 - gvolt x ab.1 := by
  obtain ⟨a, b⟩ := ab
  simp only at hadj hcons ⊢
  obtain ⟨e, hfind, hmem, hj⟩ := find_joins g a b hadj
  have hcomp : component g a b = e.cpt := by simp [component, hfind]
  have heok := hg e hmem
  rw [joins_iff] at hj
  unfold meshTerm at ht
  simp only [hcomp] at ht hcons
  cases hc : e.cpt with
  | none =>
    rw [hc] at ht
    simp only [Option.some.injEq] at ht
    subst ht
    simp only [EdgeOK, hc] at heok
    obtain ⟨d, n, ha, hb⟩ := heok
    rcases hj with ⟨h1, h2⟩ | ⟨h1, h2⟩ <;>
      (rw [← h1, ← h2, ha, hb]; simp [MeshForm.eval, lsum, gvolt])
  | some ic =>
    obtain ⟨idx, c⟩ := ic
    rw [hc] at ht hcons
    simp only [EdgeOK, hc] at heok
    obtain ⟨hcs, n0, n1, hn, hea, heb⟩ := heok
    have hmok := hok c hcs
    have hne : n0 ≠ n1 := by
      cases c <;> simp [nodes2] at hn <;> simp [MeshOk] at hmok <;> (obtain ⟨rfl, rfl⟩ := hn) <;> tauto
    have hI : isI c = false := by cases c <;> simp [MeshOk] at hmok <;> rfl
    -- the value v of the code before the flip evaluates to V(n0) − V(n1)
    have hv : ∃ z v0, volEq kind s c = some (z, v0) ∧
        ((if isV c then (⟨[], v0⟩ : MeshForm K)
          else ⟨scaleCoeffs (-z) (accCoeffs (if pe then accEdge g loops idx n0 else accNames loops n0 n1)), v0⟩).eval im
          = vd x n0 n1) := by
      cases hV : isV c with
      | true =>
        cases c <;> simp [isV] at hV
        rename_i p q m v
        simp [nodes2] at hn; obtain ⟨rfl, rfl⟩ := hn
        have := hlaws.2 _ hcs (m, _) (by simp [laws]; rfl)
        simp only at this
        exact ⟨0, v, rfl, by simp [MeshForm.eval, lsum]; linear_combination (-1 : K) * this⟩
      | false =>
        obtain ⟨z, v0, hvol, hz⟩ := volEq_law kind s x c hmok hV (hlaws.2 c hcs) n0 n1 hn
        refine ⟨z, v0, hvol, ?_⟩
        have hcur := hcons idx c rfl hV
        simp only [meshCurrent, hn] at hcur
        simp only [Bool.false_eq_true, if_false]
        rw [meshEval_scale, hcur, ← hz]; ring
    obtain ⟨z, v0, hvol, hval⟩ := hv
    simp only [hn, hvol, hI, Bool.false_eq_true, if_false, Option.some.injEq] at ht
    subst ht
    -- orientation
    rcases hj with ⟨h1, h2⟩ | ⟨h1, h2⟩
    · -- traversed from the first node: flipped
      have ha : a = .real n0 := by rw [← h1, hea]
      have hrev : (if pe then a == GNode.real n0 else (a == GNode.real n0 && b == GNode.real n1)) = true := by
        cases pe with
        | true => simp [ha]
        | false =>
          obtain ⟨n, hn'⟩ := hpe rfl e hmem
          have hb : b = .real n1 := by
            rw [← h2]
            rcases heb with h | ⟨d, h⟩
            · exact h
            · rw [h] at hn'; cases hn'
          simp [ha, hb]
      have hgb : gvolt x b = volt x n1 := by
        rw [← h2]; rcases heb with h | ⟨d, h⟩ <;> simp [h, gvolt]
      rw [hrev]
      simp only [if_true]
      rw [meshEval_scale, hgb, ha]
      simp only [gvolt]
      simp only [MeshForm.eval] at hval
      simp only [vd] at hval
      linear_combination (-1 : K) * hval
    · -- traversed towards the first node
      have hb : b = .real n0 := by rw [← h1, hea]
      have hga : gvolt x a = volt x n1 := by
        rw [← h2]; rcases heb with h | ⟨d, h⟩ <;> simp [h, gvolt]
      have hrev : (if pe then a == GNode.real n0 else (a == GNode.real n0 && b == GNode.real n1)) = false := by
        have hane : (a == GNode.real n0) = false := by
          rw [← h2]
          rcases heb with h | ⟨d, h⟩
          · rw [h]; simp; exact fun h' => hne h'.symm
          · rw [h]; simp
        cases pe <;> simp [hane]
      rw [hrev]
      simp only [Bool.false_eq_true, if_false]
      rw [hga, hb]
      simp only [gvolt]
      simp only [vd] at hval
      exact hval

/-- the whole KVL sum of a loop -/
theorem meshEq_eval (pe : Bool) (kind : Kind) (s : K) (g : List (Edge K)) (loops : List (List GNode))
    (x : Ix → K) (im : Nat → K) (ps : List (GNode × GNode))
    (hterm : ∀ ab ∈ ps, ∀ t, meshTerm pe kind s g loops ab = some t → t.eval im = gvolt x ab.2 - gvolt x ab.1)
    (f : MeshForm K)
    (hf : ps.foldr (fun ab acc => match meshTerm pe kind s g loops ab, acc with
        | some t, some r => some (t.add r) | _, _ => none) (some ⟨[], 0⟩) = some f) :
    f.eval im = lsum (ps.map (fun pq => gvolt x pq.2 - gvolt x pq.1)) := by
  induction ps generalizing f with
  | nil =>
    simp only [List.foldr_nil, Option.some.injEq] at hf
    subst hf
    simp [MeshForm.eval, lsum]
  | cons ab rest ih =>
    simp only [List.foldr_cons] at hf
    cases h1 : meshTerm pe kind s g loops ab with
    | none => rw [h1] at hf; simp at hf
    | some t =>
      rw [h1] at hf
      cases h2 : rest.foldr (fun ab acc => match meshTerm pe kind s g loops ab, acc with
          | some t, some r => some (t.add r) | _, _ => none) (some ⟨[], 0⟩) with
      | none => rw [h2] at hf; simp at hf
      | some r =>
        rw [h2] at hf
        simp only [Option.some.injEq] at hf
        subst hf
        rw [meshEval_add, hterm ab (by simp) t h1, ih (fun ab' h' => hterm ab' (by simp [h'])) r h2]
        simp [lsum]

theorem adjacent_of_cycle (g : List (Edge K)) (loop : List GNode) (h : isSimpleCycle g loop = true) :
    ∀ ab ∈ loopPairs loop, hasEdge g ab.1 ab.2 = true := by
  simp only [isSimpleCycle, Bool.and_eq_true, List.all_eq_true, adjacent] at h
  exact h.1.2

/-- the pre-fix code (`pe = false`, finding C15-c): the KVL equation of a loop holds when the graph has no dummy
    node, i.e. no two components join the same pair of nodes.  Not part of the property (see Props/C15.lean). -/
theorem mesh_eqs_hold_prefix (kind : Kind) (s : K) (cs : List (Cpt K)) (x : Ix → K) (loops : List (List GNode))
    (im : Nat → K) (hdef : ∀ c ∈ cs, MeshOk kind s c) (hlaws : Laws kind s cs x) (loop : List GNode)
    (hcyc : isSimpleCycle (buildGraph cs) loop = true)
    (hnopar : ∀ e ∈ buildGraph cs, ∃ n, e.b = GNode.real n)
    (hcons : ∀ ab ∈ loopPairs loop, ∀ idx c, component (buildGraph cs) ab.1 ab.2 = some (idx, c) → isV c = false →
      meshCurrent false (buildGraph cs) loops idx c im = -(through kind s x c))
    (f : MeshForm K) (hf : meshEq false kind s (buildGraph cs) loops loop = some f) : f.eval im = 0 := by
  rw [meshEq_eval false kind s (buildGraph cs) loops x im (loopPairs loop) ?_ f hf]
  · cases loop with
    | nil => simp [loopPairs, lsum]
    | cons a t =>
      simp only [loopPairs]
      rw [pairsFrom_telescope (gvolt x) a a t, sub_self]
  · intro ab hab t ht
    exact meshTerm_eval false kind s cs (buildGraph cs) (buildGraph_ok cs) loops x im hlaws hdef
      (fun _ => hnopar) ab (adjacent_of_cycle _ loop hcyc ab hab) (hcons ab hab) t ht


/-! ### a concrete circuit for the non-vacuity examples: V1 1 0 6; R1 1 2 3; R2 2 0 5, loop 0-1-2 -/

def exCkt : List (Cpt ℚ) := [.V 1 0 0 6, .R 1 2 3, .R 2 0 5]
def exSol : Ix → ℚ := fun i => match i with | node 1 => 6 | node 2 => 15/4 | br 0 => -3/4 | _ => 0
def exLoop : List GNode := [.real 0, .real 1, .real 2]

theorem exLoop_cycle : isSimpleCycle (buildGraph exCkt) exLoop = true := by decide
theorem exAcc1 : accEdge (buildGraph exCkt) [exLoop] 1 1 = [(0, true)] := by decide
theorem exAcc2 : accEdge (buildGraph exCkt) [exLoop] 2 2 = [(0, true)] := by decide
theorem exIdx : ∀ ab ∈ loopPairs exLoop, ∀ idx c, component (buildGraph exCkt) ab.1 ab.2 = some (idx, c) →
    isV c = false → (idx = 1 ∧ c = .R 1 2 3) ∨ (idx = 2 ∧ c = .R 2 0 5) := by
  intro ab hab idx c hc hv
  simp [exLoop, loopPairs, pairsFrom] at hab
  rcases hab with rfl | rfl | rfl <;>
    simp [component, buildGraph, enum, exCkt, addCpt, nodes2, hasEdge, Edge.joins, List.range, List.range.loop] at hc <;>
    (obtain ⟨rfl, rfl⟩ := hc) <;> simp [isV] at hv <;> simp

end Lcapy.Formulations
