/-
  Helper lemmas for C01: assembly of stamps and the per-component row identities.
-/
import Lcapy.Model.MNA
import Mathlib.Tactic.Ring
import Mathlib.Tactic.FieldSimp
import Mathlib.Algebra.Field.Basic
namespace Lcapy.MNA
open Ix
variable {K : Type} [Field K]

@[simp] theorem ground_node (x : Ix → K) (n : Nat) : ground x (node n) = volt x n := by
  cases n <;> rfl

@[simp] theorem ground_br (x : Ix → K) (m : Nat) : ground x (br m) = x (br m) := rfl

theorem lsum_append (a b : List K) : lsum (a ++ b) = lsum a + lsum b := by
  induction a with
  | nil => simp [lsum]
  | cons h t ih => simp [lsum, ih, add_assoc]

theorem lhsSum_append (r : Ix) (x : Ix → K) (a b : List (Ix × Ix × K)) :
    lhsSum r x (a ++ b) = lhsSum r x a + lhsSum r x b := by
  induction a with
  | nil => simp [lhsSum]
  | cons h t ih => obtain ⟨r', c, v⟩ := h; simp [lhsSum, ih]; ring

theorem rhsSum_append (r : Ix) (a b : List (Ix × K)) :
    rhsSum r (a ++ b) = rhsSum r a + rhsSum r b := by
  induction a with
  | nil => simp [rhsSum]
  | cons h t ih => obtain ⟨r', v⟩ := h; simp [rhsSum, ih]; ring

theorem residual_append (a b : Stamp K) (x : Ix → K) (r : Ix) :
    residual (a.append b) x r = residual a x r + residual b x r := by
  simp [residual, Stamp.append, lhsSum_append, rhsSum_append]; ring

/-- the residual of the assembled system is the sum of the components' residuals -/
theorem residual_stampAll (kind : Kind) (s : K) (cs : List (Cpt K)) (x : Ix → K) (r : Ix) :
    residual (stampAll kind s cs) x r = lsum (cs.map (fun c => residual (stamp kind s c) x r)) := by
  induction cs with
  | nil => simp [stampAll, residual, lhsSum, rhsSum, lsum]
  | cons c t ih =>
    simp only [stampAll, List.foldr_cons, List.map_cons, lsum] at *
    rw [residual_append, ih]

/-- coupling entries live on the inductor's own branch row -/
theorem lhsSum_coup_node (k : Nat) (y : Ix → K) (m : Nat) (s : K) (coup : List (Nat × K × Option K)) :
    lhsSum (node k) y (coup.map (fun p => (br m, br p.1, -(s * p.2.1)))) = 0 := by
  induction coup with
  | nil => simp [lhsSum]
  | cons h t ih => simp [lhsSum, ih]

theorem rhsSum_coupIC_node (k : Nat) (m : Nat) (coup : List (Nat × K × Option K)) :
    rhsSum (node k) (coup.map (fun p => (br m, -(icFlux p.2.1 p.2.2)))) = 0 := by
  induction coup with
  | nil => simp [rhsSum]
  | cons h t ih => simp [rhsSum, ih]

theorem rhsSum_coupIC_br (m' m : Nat) (coup : List (Nat × K × Option K)) :
    rhsSum (br m') (coup.map (fun p => (br m, -(icFlux p.2.1 p.2.2)))) =
      if m = m' then -(mutualIC coup) else 0 := by
  induction coup with
  | nil => simp [rhsSum, mutualIC, lsum]
  | cons h t ih =>
    simp only [List.map_cons, rhsSum, ih, mutualIC, lsum]
    by_cases hm : m = m'
    · subst hm; simp [mutualIC]; ring
    · simp [hm]

theorem lhsSum_coup_br (m' : Nat) (x : Ix → K) (m : Nat) (s : K) (coup : List (Nat × K × Option K)) :
    lhsSum (br m') (ground x) (coup.map (fun p => (br m, br p.1, -(s * p.2.1)))) =
      if m = m' then -(mutualDrop s x coup) else 0 := by
  induction coup with
  | nil => simp [lhsSum, mutualDrop, lsum]
  | cons h t ih =>
    simp only [List.map_cons, lhsSum, ih, mutualDrop, lsum]
    by_cases hm : m = m'
    · subst hm; simp [mutualDrop]; ring
    · simp [hm]

set_option linter.unusedSimpArgs false
set_option linter.unusedTactic false
set_option linter.unreachableTactic false
set_option linter.unnecessarySeqFocus false

theorem stamp_node_row (kind : Kind) (s : K) (c : Cpt K) (x : Ix → K) (k : Nat) (hk : k ≠ 0) :
    residual (stamp kind s c) x (node k) = outflow kind s x k c := by
  cases c with
  | Ind n1 n2 m l i0 coup =>
    cases kind <;> cases i0 <;>
      simp [residual, stamp, lhsSum, rhsSum, rhsSum_append, rhsSum_coupIC_node, outflow, twoTerm, branchPattern, lhsSum_append, lhsSum_coup_node, indZ] <;>
      split_ifs <;> simp_all <;> ring
  | Cap n1 n2 c v0 =>
    cases kind <;> cases v0 <;>
      simp [residual, stamp, lhsSum, rhsSum, outflow, twoTerm, admPattern, capY, capCurrent, vd] <;>
      split_ifs <;> simp_all <;> ring
  | _ =>
    simp [residual, stamp, lhsSum, rhsSum, outflow, twoTerm, branchPattern, admPattern, vd, lhsSum_append] <;>
      split_ifs <;> simp_all <;> ring

/-- sum of the law expressions a component attaches to branch row `m` -/
def lawsAt (kind : Kind) (s : K) (x : Ix → K) (c : Cpt K) (m : Nat) : K :=
  lsum (((laws kind s x c).filter (fun p => p.1 = m)).map (fun p => p.2))

theorem stamp_branch_row (kind : Kind) (s : K) (c : Cpt K) (x : Ix → K) (m : Nat) :
    residual (stamp kind s c) x (br m) = lawsAt kind s x c m := by
  cases c with
  | Ind n1 n2 m' l i0 coup =>
    cases kind <;> cases i0 <;>
      simp [lawsAt, laws, residual, stamp, lhsSum, rhsSum, rhsSum_append, rhsSum_coupIC_br, branchPattern, lhsSum_append, lhsSum_coup_br, indZ, vd, lsum,
            List.filter_cons] <;>
      split_ifs <;> simp_all [lsum] <;> ring
  | Cap n1 n2 c v0 =>
    cases kind <;> cases v0 <;>
      simp [lawsAt, laws, residual, stamp, lhsSum, rhsSum, admPattern, lsum]
  | GY n1 n2 n3 n4 m1 m2 r =>
    simp [lawsAt, laws, residual, stamp, lhsSum, rhsSum, vd, lsum, List.filter_cons] <;>
      split_ifs <;> simp_all [lsum] <;> ring
  | _ =>
    simp [lawsAt, laws, residual, stamp, lhsSum, rhsSum, branchPattern, admPattern, vd, lhsSum_append, lsum,
          List.filter_cons] <;>
      split_ifs <;> simp_all [lsum] <;> ring

theorem laws_fst (kind : Kind) (s : K) (x : Ix → K) (c : Cpt K) :
    (laws kind s x c).map Prod.fst = owned c := by
  cases c <;> cases kind <;> simp [laws, owned]

/-- filtered sums over a list of (branch, expression) pairs with distinct branches vanish for
    every branch iff every expression vanishes -/
theorem filtered_sums_zero_iff (L : List (Nat × K)) (hnd : (L.map Prod.fst).Nodup) :
    (∀ m, lsum ((L.filter (fun p => p.1 = m)).map (fun p => p.2)) = 0) ↔ ∀ p ∈ L, p.2 = 0 := by
  induction L with
  | nil => simp [lsum]
  | cons p t ih =>
    simp only [List.map_cons, List.nodup_cons] at hnd
    obtain ⟨hp, hnd'⟩ := hnd
    have hfilt : t.filter (fun q => q.1 = p.1) = [] := by
      rw [List.filter_eq_nil_iff]
      intro q hq hq1
      apply hp
      simp only [decide_eq_true_eq] at hq1
      exact List.mem_map.mpr ⟨q, hq, hq1⟩
    constructor
    · intro h
      have h1 := h p.1
      simp only [List.filter_cons, decide_true, if_true, hfilt, List.map_cons, List.map_nil, lsum, add_zero] at h1
      have ht : ∀ m, lsum ((t.filter (fun q => q.1 = m)).map (fun q => q.2)) = 0 := by
        intro m
        by_cases hm : p.1 = m
        · subst hm; rw [hfilt]; simp [lsum]
        · have := h m
          simpa [List.filter_cons, hm, lsum] using this
      intro q hq
      rcases List.mem_cons.mp hq with rfl | hq'
      · exact h1
      · exact (ih hnd').mp ht q hq'
    · intro h m
      have ht := (ih hnd').mpr (fun q hq => h q (List.mem_cons_of_mem _ hq)) m
      have hp0 := h p List.mem_cons_self
      by_cases hm : p.1 = m
      · simp [List.filter_cons, hm, lsum, hp0, ht]
      · simp [List.filter_cons, hm, ht]

theorem lawsAt_sum (kind : Kind) (s : K) (x : Ix → K) (cs : List (Cpt K)) (m : Nat) :
    lsum (cs.map (fun c => lawsAt kind s x c m)) =
      lsum (((cs.flatMap (laws kind s x)).filter (fun p => p.1 = m)).map (fun p => p.2)) := by
  induction cs with
  | nil => simp [lsum]
  | cons c t ih =>
    simp only [List.map_cons, lsum, List.flatMap_cons, List.filter_append, List.map_append, lsum_append, ← ih]
    rfl

end Lcapy.MNA

namespace Lcapy.MNA
variable {K : Type} [Field K]
theorem lhsSum_sub (r : Ix) (x y : Ix → K) (l : List (Ix × Ix × K)) :
    lhsSum r (fun i => x i - y i) l = lhsSum r x l - lhsSum r y l := by
  induction l with
  | nil => simp [lhsSum]
  | cons h t ih => obtain ⟨r', c, v⟩ := h; simp [lhsSum, ih]; split_ifs <;> ring
end Lcapy.MNA
