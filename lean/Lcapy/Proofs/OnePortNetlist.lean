/-
  Helper lemmas for C07, round 3: the generated netlist of a one-port tree has, at its two
  terminals, exactly the tree's relation.  `Good` packages the four facts proved by structural
  induction (index bookkeeping, support, soundness, completeness).
-/
import Lcapy.Model.OnePortNetlist
import Lcapy.Proofs.Rewrite
import Lcapy.Proofs.OnePort
namespace Lcapy.OnePort
open Lcapy.MNA Ix
set_option linter.unusedSectionVars false
variable {K : Type} [Field K] [DecidableEq K]

/-- the unknown is a node or a branch with index in [k, k') -/
def InRange (k k' : Nat) : Ix → Prop
  | .node j => k ≤ j ∧ j < k'
  | .br j => k ≤ j ∧ j < k'

/-- what a sub-netlist between `a` and `b` with fresh indices [k, k') may read -/
def PortR (a b k k' : Nat) : Ix → Prop := fun i => i = node a ∨ i = node b ∨ InRange k k' i

/-- the four facts about a generated (sub-)netlist `r = (components, next index)` for the relation `R` -/
structure Good (s : K) (R : K → K → Prop) (a b k : Nat) (r : List (Cpt K) × Nat) : Prop where
  mono : k ≤ r.2
  supp : SupportedIn (PortR a b k r.2) r.1
  sound : ∀ x, lawsOf .ivp s r.1 x → (∀ j, k ≤ j → j < r.2 → kclAt .ivp s r.1 x j = 0) →
    R (vd x a b) (kclAt .ivp s r.1 x a) ∧ (b ≠ 0 → kclAt .ivp s r.1 x b = -kclAt .ivp s r.1 x a)
  complete : ∀ x0 i, R (vd x0 a b) i → ∃ x, (∀ ix, ¬ InRange k r.2 ix → x ix = x0 ix) ∧
    lawsOf .ivp s r.1 x ∧ (∀ j, k ≤ j → j < r.2 → kclAt .ivp s r.1 x j = 0) ∧ kclAt .ivp s r.1 x a = i

theorem ic_eq_icv (o : Option K) : ic o = icv o := by cases o <;> rfl

theorem twoTerm_at_first (a b : Nat) (h : a ≠ b) (i : K) : twoTerm a b a i = i := by
  simp [twoTerm, h.symm]
theorem twoTerm_at_second (a b : Nat) (h : a ≠ b) (i : K) : twoTerm a b b i = -i := by
  simp [twoTerm, h]
theorem twoTerm_elsewhere (a b j : Nat) (ha : a ≠ j) (hb : b ≠ j) (i : K) : twoTerm a b j i = 0 := by
  simp [twoTerm, ha, hb]

theorem PortR_mono {a b k k' a' b' k2 k2' : Nat} (ha : PortR a' b' k2 k2' (node a)) (hb : PortR a' b' k2 k2' (node b))
    (hk : k2 ≤ k) (hk' : k' ≤ k2') : ∀ i, PortR a b k k' i → PortR a' b' k2 k2' i := by
  intro i hi
  rcases hi with rfl | rfl | h
  · exact ha
  · exact hb
  · right; right
    cases i <;> exact ⟨le_trans hk h.1, lt_of_lt_of_le h.2 hk'⟩


theorem SupportedIn_append' {R : Ix → Prop} (a b : List (Cpt K)) :
    SupportedIn R (a ++ b) ↔ SupportedIn R a ∧ SupportedIn R b := by
  simp only [SupportedIn, List.mem_append]
  constructor
  · intro h; exact ⟨fun c hc => h c (Or.inl hc), fun c hc => h c (Or.inr hc)⟩
  · rintro ⟨h1, h2⟩ c (hc | hc)
    · exact h1 c hc
    · exact h2 c hc

theorem SupportedIn_mono' {R R' : Ix → Prop} (h : ∀ i, R i → R' i) {a : List (Cpt K)}
    (ha : SupportedIn R a) : SupportedIn R' a := fun c hc i hi => h i (ha c hc i hi)

theorem Good.congr {s : K} {R R' : K → K → Prop} {a b k : Nat} {r : List (Cpt K) × Nat}
    (h : Good s R a b k r) (e : ∀ v i, R v i ↔ R' v i) : Good s R' a b k r :=
  ⟨h.mono, h.supp, fun x hl hk => ⟨(e _ _).mp (h.sound x hl hk).1, (h.sound x hl hk).2⟩,
   fun x0 i hr => h.complete x0 i ((e _ _).mpr hr)⟩

theorem vd_congr_of {x y : Ix → K} (a b : Nat) (ha : y (node a) = x (node a)) (hb : y (node b) = x (node b)) :
    vd y a b = vd x a b := by
  simp only [vd]
  rw [volt_of_nodes_eq (y := y) (x := x) a (fun _ => ha), volt_of_nodes_eq (y := y) (x := x) b (fun _ => hb)]

theorem not_inRange_node_lt {k k' j : Nat} (h : j < k) : ¬ InRange k k' (node j) := fun hr => absurd hr.1 (not_le.mpr h)

/-- the empty parallel group: an open circuit -/
theorem good_par_nil (s : K) (a b k : Nat) : Good s (fun _ i => i = (0 : K)) a b k ([], k) :=
  ⟨le_refl _, (fun c hc => by cases hc), (fun x _ _ => ⟨rfl, fun _ => by simp [kclAt, lsum]⟩),
   (fun x0 i hi => ⟨x0, (fun _ _ => rfl), (by simp [lawsOf]), (fun _ _ _ => rfl), (by simp [kclAt, lsum, hi])⟩)⟩

/-- two sub-netlists between the same rails -/
theorem good_parallel (s : K) (R1 R2 : K → K → Prop) (a b k : Nat) (r1 r2 : List (Cpt K) × Nat)
    (ha0 : a ≠ 0) (hab : a ≠ b) (hak : a < k) (hbk : b < k)
    (g1 : Good s R1 a b k r1) (g2 : Good s R2 a b r1.2 r2) :
    Good s (ParRel R1 R2) a b k (r1.1 ++ r2.1, r2.2) := by
  have hk1 := g1.mono
  have hk2 := g2.mono
  -- components of one part do not touch the interior of the other
  have z2 : ∀ x j, k ≤ j → j < r1.2 → kclAt .ivp s r2.1 x j = 0 := by
    intro x j h1 h2
    refine kclAt_supported_zero .ivp s r2.1 g2.supp x j (by omega) ?_
    rintro (h | h | h)
    · exact absurd (Ix.node.inj h) (by omega)
    · exact absurd (Ix.node.inj h) (by omega)
    · exact absurd h.1 (by omega)
  have z1 : ∀ x j, r1.2 ≤ j → j < r2.2 → kclAt .ivp s r1.1 x j = 0 := by
    intro x j h1 h2
    refine kclAt_supported_zero .ivp s r1.1 g1.supp x j (by omega) ?_
    rintro (h | h | h)
    · exact absurd (Ix.node.inj h) (by omega)
    · exact absurd (Ix.node.inj h) (by omega)
    · exact absurd h.2 (by omega)
  refine ⟨le_trans hk1 hk2, ?_, ?_, ?_⟩
  · rw [SupportedIn_append']
    exact ⟨SupportedIn_mono' (PortR_mono (Or.inl rfl) (Or.inr (Or.inl rfl)) (le_refl _) hk2) g1.supp,
           SupportedIn_mono' (PortR_mono (Or.inl rfl) (Or.inr (Or.inl rfl)) hk1 (le_refl _)) g2.supp⟩
  · intro x hl hk
    rw [lawsOf_append] at hl
    have s1 := g1.sound x hl.1 (fun j h1 h2 => by
      have := hk j h1 (by omega); rw [kclAt_append, z2 x j h1 h2, add_zero] at this; exact this)
    have s2 := g2.sound x hl.2 (fun j h1 h2 => by
      have := hk j (by omega) h2; rw [kclAt_append, z1 x j h1 h2, zero_add] at this; exact this)
    simp only [kclAt_append]
    refine ⟨⟨_, _, s1.1, s2.1, rfl⟩, fun hb0 => ?_⟩
    rw [s1.2 hb0, s2.2 hb0]; ring
  · rintro x0 i ⟨i1, i2, h1, h2, rfl⟩
    obtain ⟨x1, e1, l1, k1, c1⟩ := g1.complete x0 i1 h1
    have hv : vd x1 a b = vd x0 a b :=
      vd_congr_of a b (e1 _ (not_inRange_node_lt hak)) (e1 _ (not_inRange_node_lt hbk))
    obtain ⟨x2, e2, l2, k2, c2⟩ := g2.complete x1 i2 (by rw [hv]; exact h2)
    -- x2 agrees with x1 on everything the first part reads
    have agree : ∀ ix, PortR a b k r1.2 ix → x2 ix = x1 ix := by
      intro ix hix
      apply e2
      rcases hix with rfl | rfl | h
      · exact not_inRange_node_lt (by omega)
      · exact not_inRange_node_lt (by omega)
      · cases ix <;> exact fun hr => absurd hr.1 (not_le.mpr h.2)
    refine ⟨x2, ?_, ?_, ?_, ?_⟩
    · intro ix hix
      have h1' : ¬ InRange k r1.2 ix := by
        cases ix <;> exact fun hr => hix ⟨hr.1, lt_of_lt_of_le hr.2 hk2⟩
      have h2' : ¬ InRange r1.2 r2.2 ix := by
        cases ix <;> exact fun hr => hix ⟨le_trans hk1 hr.1, hr.2⟩
      rw [e2 ix h2', e1 ix h1']
    · rw [lawsOf_append]
      exact ⟨(lawsOf_supported_congr .ivp s r1.1 g1.supp agree).mpr l1, l2⟩
    · intro j h1 h2
      rw [kclAt_append]
      by_cases hj : j < r1.2
      · rw [z2 x2 j h1 hj, add_zero, kclAt_supported_congr .ivp s r1.1 g1.supp agree j]; exact k1 j h1 hj
      · rw [z1 x2 j (by omega) h2, zero_add]; exact k2 j (by omega) h2
    · rw [kclAt_append, kclAt_supported_congr .ivp s r1.1 g1.supp agree a, c1, c2]


/-- two sub-netlists in series through the fresh interior node `k` -/
theorem good_series (s : K) (R1 R2 : K → K → Prop) (a b k : Nat) (r1 r2 : List (Cpt K) × Nat)
    (ha0 : a ≠ 0) (hab : a ≠ b) (hak : a < k) (hbk : b < k)
    (g1 : Good s R1 a k (k + 1) r1) (g2 : Good s R2 k b r1.2 r2) :
    Good s (SerRel R1 R2) a b k (r1.1 ++ r2.1, r2.2) := by
  have hk1 := g1.mono
  have hk2 := g2.mono
  have hk0 : k ≠ 0 := by omega
  have z2 : ∀ x j, j ≠ 0 → j ≠ k → j ≠ b → j < r1.2 → kclAt .ivp s r2.1 x j = 0 := by
    intro x j h0 h1 h2 h3
    refine kclAt_supported_zero .ivp s r2.1 g2.supp x j h0 ?_
    rintro (h | h | h)
    · exact h1 (Ix.node.inj h)
    · exact h2 (Ix.node.inj h)
    · exact absurd h.1 (by omega)
  have z1 : ∀ x j, j ≠ 0 → j ≠ a → j ≠ k → ¬ (k + 1 ≤ j ∧ j < r1.2) → kclAt .ivp s r1.1 x j = 0 := by
    intro x j h0 h1 h2 h3
    refine kclAt_supported_zero .ivp s r1.1 g1.supp x j h0 ?_
    rintro (h | h | h)
    · exact h1 (Ix.node.inj h)
    · exact h2 (Ix.node.inj h)
    · exact h3 h
  refine ⟨by omega, ?_, ?_, ?_⟩
  · rw [SupportedIn_append']
    refine ⟨SupportedIn_mono' (PortR_mono (Or.inl rfl) (Or.inr (Or.inr ⟨le_refl _, by omega⟩)) (by omega) hk2) g1.supp,
            SupportedIn_mono' (PortR_mono (Or.inr (Or.inr ⟨le_refl _, by omega⟩)) (Or.inr (Or.inl rfl)) (by omega) (le_refl _)) g2.supp⟩
  · intro x hl hk
    rw [lawsOf_append] at hl
    have s1 := g1.sound x hl.1 (fun j h1 h2 => by
      have := hk j (by omega) (by omega)
      rw [kclAt_append, z2 x j (by omega) (by omega) (by omega) h2, add_zero] at this; exact this)
    have s2 := g2.sound x hl.2 (fun j h1 h2 => by
      have := hk j (by omega) h2
      rw [kclAt_append, z1 x j (by omega) (by omega) (by omega) (by omega), zero_add] at this; exact this)
    have hmid := hk k (le_refl _) (by omega)
    rw [kclAt_append, s1.2 hk0] at hmid
    have hcur : kclAt .ivp s r2.1 x k = kclAt .ivp s r1.1 x a := by linear_combination hmid
    simp only [kclAt_append]
    rw [z2 x a ha0 (by omega) hab (by omega), add_zero]
    refine ⟨⟨vd x a k, vd x k b, s1.1, by rw [← hcur]; exact s2.1, (vd_add x a k b).symm⟩, fun hb0 => ?_⟩
    rw [z1 x b hb0 (Ne.symm hab) (by omega) (by omega), zero_add, s2.2 hb0, hcur]
  · rintro x0 i ⟨v1, v2, h1, h2, hv⟩
    let x0' : Ix → K := fun ix => if ix = node k then volt x0 a - v1 else x0 ix
    have hx0'k : volt x0' k = volt x0 a - v1 := by rw [volt_nonzero x0' k hk0]; simp [x0']
    have hx0'o : ∀ n, n ≠ k → volt x0' n = volt x0 n := by
      intro n hn
      apply volt_of_nodes_eq
      intro _
      have : (node n : Ix) ≠ node k := fun h => hn (Ix.node.inj h)
      simp [x0', this]
    have hv1 : vd x0' a k = v1 := by simp only [vd, hx0'k, hx0'o a (by omega)]; ring
    obtain ⟨x1, e1, l1, k1, c1⟩ := g1.complete x0' i (by rw [hv1]; exact h1)
    have hx1k : x1 (node k) = x0' (node k) := e1 _ (fun hr => absurd hr.1 (by omega))
    have hx1b : x1 (node b) = x0' (node b) := e1 _ (not_inRange_node_lt (by omega))
    have hv2 : vd x1 k b = v2 := by
      rw [vd_congr_of k b hx1k hx1b]
      simp only [vd, hx0'k, hx0'o b (by omega)]
      have : vd x0 a b = v1 + v2 := hv
      simp only [vd] at this
      linear_combination this
    obtain ⟨x2, e2, l2, k2, c2⟩ := g2.complete x1 i (by rw [hv2]; exact h2)
    have agree : ∀ ix, PortR a k (k + 1) r1.2 ix → x2 ix = x1 ix := by
      intro ix hix
      apply e2
      rcases hix with rfl | rfl | h
      · exact not_inRange_node_lt (by omega)
      · exact not_inRange_node_lt (by omega)
      · cases ix <;> exact fun hr => absurd hr.1 (not_le.mpr h.2)
    have s1 := g1.sound x1 l1 k1
    refine ⟨x2, ?_, ?_, ?_, ?_⟩
    · intro ix hix
      have h1' : ¬ InRange (k + 1) r1.2 ix := by
        cases ix <;> exact fun hr => hix ⟨by have := hr.1; omega, lt_of_lt_of_le hr.2 hk2⟩
      have h2' : ¬ InRange r1.2 r2.2 ix := by
        cases ix <;> exact fun hr => hix ⟨by have := hr.1; omega, hr.2⟩
      have hne : ix ≠ node k := by
        rintro rfl; exact hix ⟨le_refl _, by omega⟩
      rw [e2 ix h2', e1 ix h1']
      simp [x0', hne]
    · rw [lawsOf_append]
      exact ⟨(lawsOf_supported_congr .ivp s r1.1 g1.supp agree).mpr l1, l2⟩
    · intro j h1j h2j
      rw [kclAt_append, kclAt_supported_congr .ivp s r1.1 g1.supp agree j]
      by_cases hjk : j = k
      · subst hjk
        rw [s1.2 hk0, c1, c2]; ring
      · by_cases hj : j < r1.2
        · rw [z2 x2 j (by omega) hjk (by omega) hj, add_zero]; exact k1 j (by omega) hj
        · rw [z1 x1 j (by omega) (by omega) hjk (by omega), zero_add]; exact k2 j (by omega) h2j
    · rw [kclAt_append, kclAt_supported_congr .ivp s r1.1 g1.supp agree a, c1,
        z2 x2 a ha0 (by omega) hab (by omega), add_zero]


/-! ### leaves -/

/-- a component without a branch unknown whose current from `a` to `b` is `cur (vd x a b)` -/
theorem good_passive (s : K) (R : K → K → Prop) (a b k : Nat) (c : Cpt K) (cur : K → K)
    (hab : a ≠ b)
    (hm : ∀ i ∈ mentions c, i = node a ∨ i = node b)
    (hl : ∀ x, laws .ivp s x c = [])
    (ho : ∀ x j, outflow .ivp s x j c = twoTerm a b j (cur (vd x a b)))
    (hR : ∀ v i, R v i ↔ i = cur v) : Good s R a b k ([c], k) := by
  have hk : ∀ x j, kclAt .ivp s [c] x j = twoTerm a b j (cur (vd x a b)) := by
    intro x j; simp [kclAt, lsum, ho]
  refine ⟨le_refl _, ?_, ?_, ?_⟩
  · intro c' hc' i hi
    simp only [List.mem_cons, List.mem_nil_iff, or_false] at hc'; subst hc'
    rcases hm i hi with h | h
    · exact Or.inl h
    · exact Or.inr (Or.inl h)
  · intro x _ _
    rw [hk, hk, twoTerm_at_first a b hab, twoTerm_at_second a b hab]
    exact ⟨(hR _ _).mpr rfl, fun _ => rfl⟩
  · intro x0 i hi
    refine ⟨x0, fun _ _ => rfl, ?_, fun j h1 h2 => absurd h2 (not_lt.mpr h1), ?_⟩
    · intro c' hc' p hp
      simp only [List.mem_cons, List.mem_nil_iff, or_false] at hc'; subst hc'
      rw [hl] at hp; cases hp
    · rw [hk, twoTerm_at_first a b hab]; exact ((hR _ _).mp hi).symm

/-- a component that owns the branch unknown `k` (its current) and one law `vd x a b = f (x (br k))` -/
theorem good_branch (s : K) (R : K → K → Prop) (a b k : Nat) (c : Cpt K) (f : K → K)
    (hab : a ≠ b) (hak : a < k) (hbk : b < k)
    (hm : ∀ i ∈ mentions c, i = node a ∨ i = node b ∨ i = br k)
    (hl : ∀ x, laws .ivp s x c = [(k, vd x a b - f (x (br k)))])
    (ho : ∀ x j, outflow .ivp s x j c = twoTerm a b j (x (br k)))
    (hR : ∀ v i, R v i ↔ v = f i) : Good s R a b k ([c], k + 1) := by
  have hk : ∀ x j, kclAt .ivp s [c] x j = twoTerm a b j (x (br k)) := by
    intro x j; simp [kclAt, lsum, ho]
  refine ⟨Nat.le_succ _, ?_, ?_, ?_⟩
  · intro c' hc' i hi
    simp only [List.mem_cons, List.mem_nil_iff, or_false] at hc'; subst hc'
    rcases hm i hi with h | h | h
    · exact Or.inl h
    · exact Or.inr (Or.inl h)
    · subst h; exact Or.inr (Or.inr ⟨le_refl _, Nat.lt_succ_self _⟩)
  · intro x hlaw _
    rw [hk, hk, twoTerm_at_first a b hab, twoTerm_at_second a b hab]
    have := hlaw c List.mem_cons_self (k, _) (by rw [hl]; exact List.mem_cons_self)
    exact ⟨(hR _ _).mpr (by linear_combination this), fun _ => rfl⟩
  · intro x0 i hi
    let x : Ix → K := fun ix => if ix = br k then i else x0 ix
    have hv : vd x a b = vd x0 a b := vd_congr_of a b (by simp [x]) (by simp [x])
    have hx : x (br k) = i := by simp [x]
    refine ⟨x, ?_, ?_, ?_, ?_⟩
    · intro ix hix
      have : ix ≠ br k := by rintro rfl; exact hix ⟨le_refl _, Nat.lt_succ_self _⟩
      simp [x, this]
    · intro c' hc' p hp
      simp only [List.mem_cons, List.mem_nil_iff, or_false] at hc'; subst hc'
      rw [hl] at hp
      simp only [List.mem_cons, List.mem_nil_iff, or_false] at hp; subst hp
      simp only [hv, hx]
      rw [(hR _ _).mp hi]; ring
    · intro j h1 h2
      have : j = k := by omega
      subst this
      rw [hk, twoTerm_elsewhere a b j (by omega) (by omega)]
    · rw [hk, twoTerm_at_first a b hab, hx]

theorem good_leaf (s : K) (l : Leaf K) (hs : l.simple = true) (a b k : Nat) (hab : a ≠ b) (hak : a < k) (hbk : b < k) :
    Good s (l.rel s) a b k (l.make s a b k) := by
  cases l with
  | R r =>
    simp only [Leaf.simple, decide_eq_true_eq] at hs
    exact good_passive s _ a b k _ (fun v => v / r) hab (by simp [mentions]) (fun x => rfl) (fun x j => rfl)
      (fun v i => by simp only [Leaf.rel, relR]; constructor <;> (intro h; rw [h]; field_simp))
  | G g =>
    simp only [Leaf.simple, decide_eq_true_eq] at hs
    exact good_passive s _ a b k _ (fun v => v / (1 / g)) hab (by simp [mentions]) (fun x => rfl) (fun x j => rfl)
      (fun v i => by simp only [Leaf.rel]; rw [div_div_eq_mul_div, div_one, mul_comm])
  | L l i0 =>
    exact good_branch s _ a b k _ (fun i => s * l * i - l * icv i0) hab hak hbk (by simp [mentions])
      (fun x => by cases i0 <;> simp [laws, icv, mutualDrop, mutualIC, lsum]) (fun x j => rfl)
      (fun v i => by simp only [Leaf.rel, relL, ic_eq_icv])
  | C c v0 =>
    exact good_passive s _ a b k _ (fun v => s * c * v - c * icv v0) hab (by simp [mentions]) (fun x => rfl)
      (fun x j => by simp only [outflow, capCurrent_ivp]) (fun v i => by simp only [Leaf.rel, relC, ic_eq_icv])
  | Y y =>
    exact good_passive s _ a b k _ (fun v => y * v) hab (by simp [mentions]) (fun x => rfl) (fun x j => rfl)
      (fun v i => by simp only [Leaf.rel])
  | Z z =>
    simp only [Leaf.simple, decide_eq_true_eq] at hs
    exact good_passive s _ a b k _ (fun v => 1 / z * v) hab (by simp [mentions]) (fun x => rfl) (fun x j => rfl)
      (fun v i => by simp only [Leaf.rel]; constructor <;> (intro h; rw [h]; field_simp))
  | V kd e =>
    exact good_branch s _ a b k _ (fun _ => e) hab hak hbk (by simp [mentions]) (fun x => rfl) (fun x j => rfl)
      (fun v i => by simp only [Leaf.rel])
  | I kd j =>
    exact good_passive s _ a b k _ (fun _ => -j) hab (by simp [mentions]) (fun x => rfl) (fun x j => rfl)
      (fun v i => by simp only [Leaf.rel])
  | CPE kk al =>
    exact good_passive s _ a b k _ (fun v => npow s al * kk * v) hab (by simp [mentions]) (fun x => rfl) (fun x j => rfl)
      (fun v i => by simp only [Leaf.rel])
  | Xtal _ _ _ _ => simp [Leaf.simple] at hs
  | FB _ _ _ _ => simp [Leaf.simple] at hs

end Lcapy.OnePort
