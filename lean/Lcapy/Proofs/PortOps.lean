/-
  Helper lemmas for C04 (Props/C04Ops.lean): killed components under scaling / addition of independent quantities, the
  split of a circuit into "sources only" and "initial conditions only".
-/
import Lcapy.Proofs.Linear
import Lcapy.Model.PortOps
namespace Lcapy.MNA
open Ix
variable {K : Type} [Field K]
set_option linter.unusedSimpArgs false
set_option linter.unusedSectionVars false
set_option linter.unnecessarySeqFocus false

theorem coupMap_zero_indep (coup : List (Nat × K × Option K)) :
    ∀ v ∈ (coupMap (fun _ => (0 : K)) coup).flatMap (fun p => p.2.2.toList), v = 0 := by
  intro v hv
  simp only [coupMap, List.mem_flatMap, List.mem_map] at hv
  obtain ⟨p, ⟨q, _, rfl⟩, hv⟩ := hv
  cases h : q.2.2 <;> simp [h] at hv
  exact hv

theorem mutualIC_zero (coup : List (Nat × K × Option K))
    (h : ∀ v ∈ coup.flatMap (fun p => p.2.2.toList), v = 0) : mutualIC coup = 0 := by
  induction coup with
  | nil => simp [mutualIC, lsum]
  | cons p t ih =>
    obtain ⟨b, M, o⟩ := p
    have ht := ih (fun v hv => h v (by simp only [List.flatMap_cons, List.mem_append]; exact Or.inr hv))
    simp only [mutualIC, List.map_cons, lsum] at ht ⊢
    rw [ht]
    cases o with
    | none => simp [icFlux]
    | some i0 =>
      have : i0 = 0 := h i0 (by simp)
      simp [icFlux, this]

theorem addSrc_killICs_killSrcs (c : Cpt K) : c.killICs.addSrc c.killSrcs = c := by
  cases c with
  | Cap n1 n2 c v0 => cases v0 <;> simp [Cpt.killICs, Cpt.killSrcs, Cpt.addSrc, optAdd]
  | Ind n1 n2 m l i0 coup =>
    have : coupAdd (coupMap (fun _ => (0 : K)) coup) coup = coup := by
      induction coup with
      | nil => rfl
      | cons p t ih =>
        obtain ⟨b, M, o⟩ := p
        simp only [coupMap, List.map_cons, coupAdd, List.zipWith_cons_cons] at ih ⊢
        rw [ih]; cases o <;> simp [optAdd]
    cases i0 <;> simp [Cpt.killICs, Cpt.killSrcs, Cpt.addSrc, optAdd, this]
  | _ => simp [Cpt.killICs, Cpt.killSrcs, Cpt.addSrc]

theorem sameShape_killICs_killSrcs (c : Cpt K) : SameShape c.killICs c.killSrcs := by
  unfold SameShape
  cases c with
  | Cap n1 n2 c v0 => cases v0 <;> simp [Cpt.killICs, Cpt.killSrcs, Cpt.mapSrc]
  | Ind n1 n2 m l i0 coup =>
    cases i0 <;> simp [Cpt.killICs, Cpt.killSrcs, Cpt.mapSrc, coupMap_zero_zero]
  | _ => simp [Cpt.killICs, Cpt.killSrcs, Cpt.mapSrc]

theorem forall2_killICs_killSrcs (cs : List (Cpt K)) :
    List.Forall₂ SameShape (cs.map Cpt.killICs) (cs.map Cpt.killSrcs) := by
  induction cs with
  | nil => exact List.Forall₂.nil
  | cons c t ih => exact List.Forall₂.cons (sameShape_killICs_killSrcs c) ih

theorem zip_killICs_killSrcs (cs : List (Cpt K)) :
    List.zipWith Cpt.addSrc (cs.map Cpt.killICs) (cs.map Cpt.killSrcs) = cs := by
  induction cs with
  | nil => rfl
  | cons c t ih => simp only [List.map_cons, List.zipWith_cons_cons, ih, addSrc_killICs_killSrcs]

theorem coupMap_scale_zero (a : K) (coup : List (Nat × K × Option K)) :
    coupMap (fun v => a * v) (coupMap (fun _ => 0) coup) = coupMap (fun _ => 0) coup := by
  induction coup with
  | nil => rfl
  | cons p t ih =>
    obtain ⟨b, M, o⟩ := p
    simp only [coupMap, List.map_cons] at ih ⊢
    rw [ih]; cases o <;> simp

theorem mapSrc_scale_killed (a : K) (c : Cpt K) :
    (c.mapSrc (fun _ => 0)).mapSrc (fun v => a * v) = c.mapSrc (fun _ => 0) := by
  cases c with
  | Cap n1 n2 c v0 => cases v0 <;> simp [Cpt.mapSrc]
  | Ind n1 n2 m l i0 coup => cases i0 <;> simp [Cpt.mapSrc, coupMap_scale_zero]
  | _ => simp [Cpt.mapSrc]

theorem killAll_scale (a : K) (cs : List (Cpt K)) : (killAll cs).map (Cpt.mapSrc (fun v => a * v)) = killAll cs := by
  simp [killAll, List.map_map, Function.comp_def, mapSrc_scale_killed]

theorem coupAdd_zero_zero (coup : List (Nat × K × Option K)) :
    coupAdd (coupMap (fun _ => (0 : K)) coup) (coupMap (fun _ => 0) coup) = coupMap (fun _ => 0) coup := by
  induction coup with
  | nil => rfl
  | cons p t ih =>
    obtain ⟨b, M, o⟩ := p
    simp only [coupMap, List.map_cons, coupAdd, List.zipWith_cons_cons] at ih ⊢
    rw [ih]; cases o <;> simp [optAdd]

theorem addSrc_killed_killed (c : Cpt K) :
    (c.mapSrc (fun _ => 0)).addSrc (c.mapSrc (fun _ => 0)) = c.mapSrc (fun _ => 0) := by
  cases c with
  | Cap n1 n2 c v0 => cases v0 <;> simp [Cpt.mapSrc, Cpt.addSrc, optAdd]
  | Ind n1 n2 m l i0 coup => cases i0 <;> simp [Cpt.mapSrc, Cpt.addSrc, optAdd, coupAdd_zero_zero]
  | _ => simp [Cpt.mapSrc, Cpt.addSrc]

theorem zip_killed_killed (cs : List (Cpt K)) : List.zipWith Cpt.addSrc (killAll cs) (killAll cs) = killAll cs := by
  induction cs with
  | nil => rfl
  | cons c t ih =>
    simp only [killAll, List.map_cons, List.zipWith_cons_cons] at ih ⊢
    rw [ih, addSrc_killed_killed]

theorem forall2_refl (cs : List (Cpt K)) : List.Forall₂ SameShape cs cs := by
  induction cs with
  | nil => exact List.Forall₂.nil
  | cons c t ih => exact List.Forall₂.cons rfl ih

theorem vd_linear (x1 x2 : Ix → K) (a b : K) (p m : Nat) :
    vd (fun i => a * x1 i + b * x2 i) p m = a * vd x1 p m + b * vd x2 p m := by
  cases p <;> cases m <;> simp [vd, volt] <;> ring

theorem coupMap_comp (f g : K → K) (coup : List (Nat × K × Option K)) :
    coupMap g (coupMap f coup) = coupMap (g ∘ f) coup := by
  simp [coupMap, List.map_map, Function.comp_def, Option.map_map]

theorem mapSrc_comp (f g : K → K) (c : Cpt K) : (c.mapSrc f).mapSrc g = c.mapSrc (g ∘ f) := by
  cases c <;> simp [Cpt.mapSrc, coupMap_comp, Option.map_map]

theorem coupMap_id (coup : List (Nat × K × Option K)) : coupMap (fun v => v) coup = coup := by
  induction coup with
  | nil => rfl
  | cons p t ih => obtain ⟨b, M, o⟩ := p; simp only [coupMap, List.map_cons] at ih ⊢; rw [ih]; cases o <;> simp

theorem mapSrc_id (c : Cpt K) : c.mapSrc (fun v => v) = c := by
  cases c with
  | Cap n1 n2 c v0 => cases v0 <;> simp [Cpt.mapSrc]
  | Ind n1 n2 m l i0 coup => cases i0 <;> simp [Cpt.mapSrc, coupMap_id]
  | _ => simp [Cpt.mapSrc]

theorem owned_mapSrc (f : K → K) (c : Cpt K) : owned (c.mapSrc f) = owned c := by
  cases c <;> simp [Cpt.mapSrc, owned]

theorem vd_smul (a : K) (x : Ix → K) (p m : Nat) : vd (fun i => a * x i) p m = a * vd x p m := by
  cases p <;> cases m <;> simp [vd, volt]; ring

end Lcapy.MNA
