/- Helper lemmas for C20 (layout spec checker). -/
import Mathlib.Tactic.Linarith
import Mathlib.Tactic.Ring
import Mathlib.Algebra.Order.Field.Rat
import Lcapy.Spec.Layout
import Lcapy.Model.Layout

namespace Lcapy.Layout

theorem reachB_iff (f : Bool) (d l : Rat) : reachB f d l = true ↔ Reach f d l := by
  unfold reachB Reach
  cases f <;> simp

theorem pairOkB_iff (s : Bool) (a b c d : Rat) : pairOkB s a b c d = true ↔ PairOk s a b c d := by
  unfold pairOkB PairOk
  rw [Bool.or_eq_true, reachB_iff]
  by_cases h : b ≤ d <;> simp [h]

theorem hint_check_iff (L : Layout) (h : Hint) : h.check L = true ↔ h.Sat L := by
  unfold Hint.check Hint.Sat
  cases h.dir <;> simp [reachB_iff]

theorem body_check_iff (L : Layout) (b : Body) : b.check L = true ↔ b.Sat L := by
  unfold Body.check Body.Sat
  simp only [List.all_eq_true, Bool.and_eq_true, pairOkB_iff]

theorem item_check_iff (L : Layout) (it : Item) : it.check L = true ↔ it.Sat L := by
  cases it with
  | hint h => exact hint_check_iff L h
  | body b => exact body_check_iff L b

/-! ### constraint generation of one axis of one element -/

/-- meaning of the constraints of one axis of one element for an ordered pair of pins (`hi.1 ≥ lo.1`) -/
def G (k s : Rat) (st : Bool) (c : String → Rat) (hi lo : Rat × String) : Prop :=
  (hi.1 = lo.1 → c hi.2 = c lo.2) ∧ (lo.1 < hi.1 → Reach (!st) (c hi.2 - c lo.2) ((hi.1 - lo.1) * s * k))

def E (c : String → Rat) (a b : Rat × String) : Prop := a.1 = b.1 → c a.2 = c b.2

theorem linkPairs_sat (c : String → Rat) (l : List (Rat × String)) :
    (∀ p ∈ linkPairs l, c p.1 = c p.2) ↔ l.Pairwise (E c) := by
  induction l with
  | nil => simp [linkPairs]
  | cons a rest ih =>
    rw [List.pairwise_cons, ← ih]
    simp only [linkPairs, List.mem_append, List.mem_filterMap, or_imp, forall_and]
    constructor
    · rintro ⟨h1, h2⟩
      refine ⟨fun b hb hab => ?_, h2⟩
      exact h1 (a.2, b.2) ⟨b, hb, by simp [hab]⟩
    · rintro ⟨h1, h2⟩
      refine ⟨?_, h2⟩
      rintro p ⟨b, hb, hp⟩
      split at hp
      · cases hp; exact h1 b hb (by assumption : b.1 = a.1).symm
      · cases hp

def ChainH (k s : Rat) (st : Bool) (c : String → Rat) : List (Rat × String) → Prop
  | a :: b :: rest => (b.1 < a.1 → Reach (!st) (c a.2 - c b.2) ((a.1 - b.1) * s * k)) ∧ ChainH k s st c (b :: rest)
  | _ => True

theorem edgeOf_sat (k s : Rat) (st : Bool) (c : String → Rat) (a b : Rat × String) (hs : 0 ≤ s) (hba : b.1 ≤ a.1) :
    (∀ e ∈ edgeOf a b s st, e.Sat k c) ↔ (b.1 < a.1 → Reach (!st) (c a.2 - c b.2) ((a.1 - b.1) * s * k)) := by
  unfold edgeOf
  by_cases h0 : b.1 - a.1 = 0
  · have : ¬ b.1 < a.1 := by intro h; linarith
    simp [h0, this]
  · have hlt : b.1 < a.1 := lt_of_le_of_ne hba (fun h => h0 (by linarith))
    have hd : b.1 - a.1 < 0 := by linarith
    simp only [h0, if_false, hlt, forall_const]
    by_cases hs0 : s = 0
    · simp [hs0, hd, Edge.Sat]
    · have hspos : 0 < s := lt_of_le_of_ne hs (Ne.symm hs0)
      have hv : (b.1 - a.1) * s < 0 := mul_neg_of_neg_of_pos hd hspos
      simp only [hs0, if_false, hv, if_true, List.mem_singleton, forall_eq, Edge.Sat]
      have : -((b.1 - a.1) * s) * k = (a.1 - b.1) * s * k := by ring
      rw [this]


def Desc (a b : Rat × String) : Prop := b.1 ≤ a.1

theorem chainEdges_sat (k s : Rat) (st : Bool) (c : String → Rat) (hs : 0 ≤ s) :
    ∀ (L : List (Rat × String)), L.Pairwise Desc →
      ((∀ e ∈ chainEdges s st L, e.Sat k c) ↔ ChainH k s st c L)
  | [], _ => by simp [chainEdges, ChainH]
  | [a], _ => by simp [chainEdges, ChainH]
  | a :: b :: rest, h => by
    have hab : b.1 ≤ a.1 := (List.pairwise_cons.1 h).1 b (by simp)
    have ih := chainEdges_sat k s st c hs (b :: rest) (List.pairwise_cons.1 h).2
    simp only [chainEdges, List.mem_append, or_imp, forall_and, ChainH]
    rw [edgeOf_sat k s st c a b hs hab, ih]

theorem reach_add (f : Bool) (d₁ l₁ d₂ l₂ : Rat) (h₁ : Reach f d₁ l₁) (h₂ : Reach f d₂ l₂) :
    Reach f (d₁ + d₂) (l₁ + l₂) := by
  unfold Reach at *
  cases f <;> simp at * <;> linarith

theorem G_trans (k s : Rat) (st : Bool) (c : String → Rat) (x y z : Rat × String)
    (hxy : y.1 ≤ x.1) (hyz : z.1 ≤ y.1) (g1 : G k s st c x y) (g2 : G k s st c y z) : G k s st c x z := by
  constructor
  · intro h
    have e1 : x.1 = y.1 := le_antisymm (by rw [h]; exact hyz) hxy
    have e2 : y.1 = z.1 := by rw [← e1]; exact h
    rw [g1.1 e1, g2.1 e2]
  · intro h
    rcases eq_or_lt_of_le hxy with e1 | l1
    · -- y.1 = x.1
      have := g2.2 (by rw [e1]; exact h)
      rw [g1.1 e1.symm, ← e1]; exact this
    · rcases eq_or_lt_of_le hyz with e2 | l2
      · have := g1.2 l1
        rw [← g2.1 e2.symm, e2]; exact this
      · have := reach_add _ _ _ _ _ (g1.2 l1) (g2.2 l2)
        have e : c x.2 - c y.2 + (c y.2 - c z.2) = c x.2 - c z.2 := by ring
        have e' : (x.1 - y.1) * s * k + (y.1 - z.1) * s * k = (x.1 - z.1) * s * k := by ring
        rw [e, e'] at this; exact this

/-- on a descending list, the link relation on equal values and the consecutive chain give the pairwise meaning -/
theorem chain_pairwise (k s : Rat) (st : Bool) (c : String → Rat) :
    ∀ (L : List (Rat × String)), L.Pairwise Desc → L.Pairwise (E c) → ChainH k s st c L → L.Pairwise (G k s st c)
  | [], _, _, _ => List.Pairwise.nil
  | [a], _, _, _ => by simp
  | a :: b :: rest, hd, he, hc => by
    have hd' := List.pairwise_cons.1 hd
    have he' := List.pairwise_cons.1 he
    have ih := chain_pairwise k s st c (b :: rest) hd'.2 he'.2 hc.2
    have gab : G k s st c a b := ⟨he'.1 b (by simp), hc.1⟩
    rw [List.pairwise_cons]
    refine ⟨fun z hz => ?_, ih⟩
    rcases List.mem_cons.1 hz with rfl | hz'
    · exact gab
    · exact G_trans k s st c a b z (hd'.1 b (by simp)) ((List.pairwise_cons.1 hd'.2).1 z hz') gab
        ((List.pairwise_cons.1 ih).1 z hz')


theorem pairwise_of_forall_mem {α : Type} (R : α → α → Prop) :
    ∀ (l : List α), (∀ a ∈ l, ∀ b ∈ l, R a b) → l.Pairwise R
  | [], _ => List.Pairwise.nil
  | x :: rest, h => List.pairwise_cons.2
      ⟨fun b hb => h x (by simp) b (by simp [hb]),
       pairwise_of_forall_mem R rest (fun a ha b hb => h a (by simp [ha]) b (by simp [hb]))⟩

theorem G_refl (k s : Rat) (st : Bool) (c : String → Rat) (x : Rat × String) : G k s st c x x :=
  ⟨fun _ => rfl, fun h => absurd h (lt_irrefl _)⟩

theorem forall_of_pairwise (k s : Rat) (st : Bool) (c : String → Rat) :
    ∀ (L : List (Rat × String)), L.Pairwise Desc → L.Pairwise (G k s st c) →
      ∀ a ∈ L, ∀ b ∈ L, b.1 ≤ a.1 → G k s st c a b
  | [], _, _ => by simp
  | x :: rest, hd, hg => by
    have hd' := List.pairwise_cons.1 hd
    have hg' := List.pairwise_cons.1 hg
    have ih := forall_of_pairwise k s st c rest hd'.2 hg'.2
    intro a ha b hb hba
    rcases List.mem_cons.1 ha with rfl | ha' <;> rcases List.mem_cons.1 hb with rfl | hb'
    · exact G_refl k s st c _
    · exact hg'.1 b hb'
    · -- a ∈ rest, b = x : a.1 ≤ x.1 ≤ a.1
      have hax : a.1 ≤ b.1 := hd'.1 a ha'
      have e : b.1 = a.1 := le_antisymm hba hax
      have g := hg'.1 a ha'
      exact ⟨fun _ => (g.1 e).symm, fun h => absurd h (by rw [e]; exact lt_irrefl _)⟩
    · exact ih a ha' b hb' hba

theorem chainH_of_forall (k s : Rat) (st : Bool) (c : String → Rat) :
    ∀ (L : List (Rat × String)), L.Pairwise Desc →
      (∀ a ∈ L, ∀ b ∈ L, b.1 ≤ a.1 → G k s st c a b) → ChainH k s st c L
  | [], _, _ => trivial
  | [_], _, _ => trivial
  | a :: b :: rest, hd, h => by
    have hd' := List.pairwise_cons.1 hd
    refine ⟨(h a (by simp) b (by simp) (hd'.1 b (by simp))).2, ?_⟩
    exact chainH_of_forall k s st c (b :: rest) hd'.2
      (fun x hx y hy => h x (List.mem_cons_of_mem _ hx) y (List.mem_cons_of_mem _ hy))

theorem sortDesc_sorted (l : List (Rat × String)) : (sortDesc l).Pairwise Desc := by
  have := List.pairwise_mergeSort (le := fun (a b : Rat × String) => decide (b.1 ≤ a.1))
    (fun a b c h1 h2 => by simp at *; exact le_trans h2 h1)
    (fun a b => by simp; exact le_total _ _) l
  refine this.imp ?_
  intro a b h; simpa [Desc] using h

theorem sortDesc_perm (l : List (Rat × String)) : (sortDesc l).Perm l := List.mergeSort_perm _ _

theorem E_symm (c : String → Rat) {a b : Rat × String} (h : E c a b) : E c b a := fun e => (h e.symm).symm

/-- **The constraints of one axis of one element mean exactly the pairwise relation between its pins.**
    `l` lists (transformed pin coordinate, node) in any order, any number of pins; `s ≥ 0` is the size.
    Links + chain edges over the descending sort hold for coordinates `c`  iff  every two pins with
    `v_lo ≤ v_hi` are equal (same value) resp. at distance ≥ / = `(v_hi - v_lo)·s·k`. -/
theorem place_pairwise (k s : Rat) (st : Bool) (c : String → Rat) (l : List (Rat × String)) (hs : 0 ≤ s) :
    ((∀ p ∈ linkPairs l, c p.1 = c p.2) ∧ (∀ e ∈ chainEdges s st (sortDesc l), e.Sat k c))
      ↔ ∀ a ∈ l, ∀ b ∈ l, b.1 ≤ a.1 → G k s st c a b := by
  have hsrt := sortDesc_sorted l
  have hperm := sortDesc_perm l
  rw [linkPairs_sat, chainEdges_sat k s st c hs _ hsrt]
  constructor
  · rintro ⟨hl, hc⟩
    have hE : (sortDesc l).Pairwise (E c) := (hperm.pairwise_iff (fun h => E_symm c h)).2 hl
    have hG := chain_pairwise k s st c _ hsrt hE hc
    intro a ha b hb hba
    exact forall_of_pairwise k s st c _ hsrt hG a (hperm.mem_iff.2 ha) b (hperm.mem_iff.2 hb) hba
  · intro h
    refine ⟨pairwise_of_forall_mem _ l (fun a ha b hb e => (h a ha b hb (le_of_eq e.symm)).1 e), ?_⟩
    exact chainH_of_forall k s st c _ hsrt
      (fun a ha b hb => h a (hperm.mem_iff.1 ha) b (hperm.mem_iff.1 hb))


end Lcapy.Layout
