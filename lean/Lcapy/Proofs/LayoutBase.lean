/- Helper lemmas for C20 (layout spec checker). -/
import Mathlib.Tactic.Linarith
import Mathlib.Tactic.Ring
import Mathlib.Algebra.Order.Field.Rat
import Lcapy.Spec.Layout
import Lcapy.Model.Layout

namespace Lcapy.Layout

theorem reachB_iff (f : Bool) (d l : Rat) : reachB f d l = true ↔ Reach f d l := by
  unfold reachB Reach
  cases f <;> simp

theorem pairOkB_iff (s : Bool) (a b c d : Rat) : pairOkB s a b c d = true ↔ PairOk s a b c d := by
  unfold pairOkB PairOk
  rw [Bool.or_eq_true, reachB_iff]
  by_cases h : b ≤ d <;> simp [h]

theorem hint_check_iff (L : Layout) (h : Hint) : h.check L = true ↔ h.Sat L := by
  unfold Hint.check Hint.Sat
  cases h.dir <;> simp [reachB_iff]

theorem body_check_iff (L : Layout) (b : Body) : b.check L = true ↔ b.Sat L := by
  unfold Body.check Body.Sat
  simp only [List.all_eq_true, Bool.and_eq_true, pairOkB_iff]

theorem item_check_iff (L : Layout) (it : Item) : it.check L = true ↔ it.Sat L := by
  cases it with
  | hint h => exact hint_check_iff L h
  | body b => exact body_check_iff L b

/-! ### constraint generation of one axis of one element -/

/-- meaning of the constraints of one axis of one element for an ordered pair of pins (`hi.1 ≥ lo.1`) -/
def G (k s : Rat) (st : Bool) (c : String → Rat) (hi lo : Rat × String) : Prop :=
  (hi.1 = lo.1 → c hi.2 = c lo.2) ∧ (lo.1 < hi.1 → Reach (!st) (c hi.2 - c lo.2) ((hi.1 - lo.1) * s * k))

def E (c : String → Rat) (a b : Rat × String) : Prop := a.1 = b.1 → c a.2 = c b.2

theorem linkPairs_sat (c : String → Rat) (l : List (Rat × String)) :
    (∀ p ∈ linkPairs l, c p.1 = c p.2) ↔ l.Pairwise (E c) := by
  induction l with
  | nil => simp [linkPairs]
  | cons a rest ih =>
    rw [List.pairwise_cons, ← ih]
    simp only [linkPairs, List.mem_append, List.mem_filterMap, or_imp, forall_and]
    constructor
    · rintro ⟨h1, h2⟩
      refine ⟨fun b hb hab => ?_, h2⟩
      exact h1 (a.2, b.2) ⟨b, hb, by simp [hab]⟩
    · rintro ⟨h1, h2⟩
      refine ⟨?_, h2⟩
      rintro p ⟨b, hb, hp⟩
      split at hp
      · cases hp; exact h1 b hb (by assumption : b.1 = a.1).symm
      · cases hp

def ChainH (k s : Rat) (st : Bool) (c : String → Rat) : List (Rat × String) → Prop
  | a :: b :: rest => (b.1 < a.1 → Reach (!st) (c a.2 - c b.2) ((a.1 - b.1) * s * k)) ∧ ChainH k s st c (b :: rest)
  | _ => True

theorem edgeOf_sat (k s : Rat) (st : Bool) (c : String → Rat) (a b : Rat × String) (hs : 0 ≤ s) (hba : b.1 ≤ a.1) :
    (∀ e ∈ edgeOf a b s st, e.Sat k c) ↔ (b.1 < a.1 → Reach (!st) (c a.2 - c b.2) ((a.1 - b.1) * s * k)) := by
  unfold edgeOf
  by_cases h0 : b.1 - a.1 = 0
  · have : ¬ b.1 < a.1 := by intro h; linarith
    simp [h0, this]
  · have hlt : b.1 < a.1 := lt_of_le_of_ne hba (fun h => h0 (by linarith))
    have hd : b.1 - a.1 < 0 := by linarith
    simp only [h0, if_false, hlt, forall_const]
    by_cases hs0 : s = 0
    · simp [hs0, hd, Edge.Sat]
    · have hspos : 0 < s := lt_of_le_of_ne hs (Ne.symm hs0)
      have hv : (b.1 - a.1) * s < 0 := mul_neg_of_neg_of_pos hd hspos
      simp only [hs0, if_false, hv, if_true, List.mem_singleton, forall_eq, Edge.Sat]
      have : -((b.1 - a.1) * s) * k = (a.1 - b.1) * s * k := by ring
      rw [this]


def Desc (a b : Rat × String) : Prop := b.1 ≤ a.1

theorem chainEdges_sat (k s : Rat) (st : Bool) (c : String → Rat) (hs : 0 ≤ s) :
    ∀ (L : List (Rat × String)), L.Pairwise Desc →
      ((∀ e ∈ chainEdges s st L, e.Sat k c) ↔ ChainH k s st c L)
  | [], _ => by simp [chainEdges, ChainH]
  | [a], _ => by simp [chainEdges, ChainH]
  | a :: b :: rest, h => by
    have hab : b.1 ≤ a.1 := (List.pairwise_cons.1 h).1 b (by simp)
    have ih := chainEdges_sat k s st c hs (b :: rest) (List.pairwise_cons.1 h).2
    simp only [chainEdges, List.mem_append, or_imp, forall_and, ChainH]
    rw [edgeOf_sat k s st c a b hs hab, ih]

theorem reach_add (f : Bool) (d₁ l₁ d₂ l₂ : Rat) (h₁ : Reach f d₁ l₁) (h₂ : Reach f d₂ l₂) :
    Reach f (d₁ + d₂) (l₁ + l₂) := by
  unfold Reach at *
  cases f <;> simp at * <;> linarith

theorem G_trans (k s : Rat) (st : Bool) (c : String → Rat) (x y z : Rat × String)
    (hxy : y.1 ≤ x.1) (hyz : z.1 ≤ y.1) (g1 : G k s st c x y) (g2 : G k s st c y z) : G k s st c x z := by
  constructor
  · intro h
    have e1 : x.1 = y.1 := le_antisymm (by rw [h]; exact hyz) hxy
    have e2 : y.1 = z.1 := by rw [← e1]; exact h
    rw [g1.1 e1, g2.1 e2]
  · intro h
    rcases eq_or_lt_of_le hxy with e1 | l1
    · -- y.1 = x.1
      have := g2.2 (by rw [e1]; exact h)
      rw [g1.1 e1.symm, ← e1]; exact this
    · rcases eq_or_lt_of_le hyz with e2 | l2
      · have := g1.2 l1
        rw [← g2.1 e2.symm, e2]; exact this
      · have := reach_add _ _ _ _ _ (g1.2 l1) (g2.2 l2)
        have e : c x.2 - c y.2 + (c y.2 - c z.2) = c x.2 - c z.2 := by ring
        have e' : (x.1 - y.1) * s * k + (y.1 - z.1) * s * k = (x.1 - z.1) * s * k := by ring
        rw [e, e'] at this; exact this

/-- on a descending list, the link relation on equal values and the consecutive chain give the pairwise meaning -/
theorem chain_pairwise (k s : Rat) (st : Bool) (c : String → Rat) :
    ∀ (L : List (Rat × String)), L.Pairwise Desc → L.Pairwise (E c) → ChainH k s st c L → L.Pairwise (G k s st c)
  | [], _, _, _ => List.Pairwise.nil
  | [a], _, _, _ => by simp
  | a :: b :: rest, hd, he, hc => by
    have hd' := List.pairwise_cons.1 hd
    have he' := List.pairwise_cons.1 he
    have ih := chain_pairwise k s st c (b :: rest) hd'.2 he'.2 hc.2
    have gab : G k s st c a b := ⟨he'.1 b (by simp), hc.1⟩
    rw [List.pairwise_cons]
    refine ⟨fun z hz => ?_, ih⟩
    rcases List.mem_cons.1 hz with rfl | hz'
    · exact gab
    · exact G_trans k s st c a b z (hd'.1 b (by simp)) ((List.pairwise_cons.1 hd'.2).1 z hz') gab
        ((List.pairwise_cons.1 ih).1 z hz')


theorem pairwise_of_forall_mem {α : Type} (R : α → α → Prop) :
    ∀ (l : List α), (∀ a ∈ l, ∀ b ∈ l, R a b) → l.Pairwise R
  | [], _ => List.Pairwise.nil
  | x :: rest, h => List.pairwise_cons.2
      ⟨fun b hb => h x (by simp) b (by simp [hb]),
       pairwise_of_forall_mem R rest (fun a ha b hb => h a (by simp [ha]) b (by simp [hb]))⟩

theorem G_refl (k s : Rat) (st : Bool) (c : String → Rat) (x : Rat × String) : G k s st c x x :=
  ⟨fun _ => rfl, fun h => absurd h (lt_irrefl _)⟩

theorem forall_of_pairwise (k s : Rat) (st : Bool) (c : String → Rat) :
    ∀ (L : List (Rat × String)), L.Pairwise Desc → L.Pairwise (G k s st c) →
      ∀ a ∈ L, ∀ b ∈ L, b.1 ≤ a.1 → G k s st c a b
  | [], _, _ => by simp
  | x :: rest, hd, hg => by
    have hd' := List.pairwise_cons.1 hd
    have hg' := List.pairwise_cons.1 hg
    have ih := forall_of_pairwise k s st c rest hd'.2 hg'.2
    intro a ha b hb hba
    rcases List.mem_cons.1 ha with rfl | ha' <;> rcases List.mem_cons.1 hb with rfl | hb'
    · exact G_refl k s st c _
    · exact hg'.1 b hb'
    · -- a ∈ rest, b = x : a.1 ≤ x.1 ≤ a.1
      have hax : a.1 ≤ b.1 := hd'.1 a ha'
      have e : b.1 = a.1 := le_antisymm hba hax
      have g := hg'.1 a ha'
      exact ⟨fun _ => (g.1 e).symm, fun h => absurd h (by rw [e]; exact lt_irrefl _)⟩
    · exact ih a ha' b hb' hba

theorem chainH_of_forall (k s : Rat) (st : Bool) (c : String → Rat) :
    ∀ (L : List (Rat × String)), L.Pairwise Desc →
      (∀ a ∈ L, ∀ b ∈ L, b.1 ≤ a.1 → G k s st c a b) → ChainH k s st c L
  | [], _, _ => trivial
  | [_], _, _ => trivial
  | a :: b :: rest, hd, h => by
    have hd' := List.pairwise_cons.1 hd
    refine ⟨(h a (by simp) b (by simp) (hd'.1 b (by simp))).2, ?_⟩
    exact chainH_of_forall k s st c (b :: rest) hd'.2
      (fun x hx y hy => h x (List.mem_cons_of_mem _ hx) y (List.mem_cons_of_mem _ hy))

theorem sortDesc_sorted (l : List (Rat × String)) : (sortDesc l).Pairwise Desc := by
  have := List.pairwise_mergeSort (le := fun (a b : Rat × String) => decide (b.1 ≤ a.1))
    (fun a b c h1 h2 => by simp at *; exact le_trans h2 h1)
    (fun a b => by simp; exact le_total _ _) l
  refine this.imp ?_
  intro a b h; simpa [Desc] using h

theorem sortDesc_perm (l : List (Rat × String)) : (sortDesc l).Perm l := List.mergeSort_perm _ _

theorem E_symm (c : String → Rat) {a b : Rat × String} (h : E c a b) : E c b a := fun e => (h e.symm).symm

/-- **The constraints of one axis of one element mean exactly the pairwise relation between its pins.**
    `l` lists (transformed pin coordinate, node) in any order, any number of pins; `s ≥ 0` is the size.
    Links + chain edges over the descending sort hold for coordinates `c`  iff  every two pins with
    `v_lo ≤ v_hi` are equal (same value) resp. at distance ≥ / = `(v_hi - v_lo)·s·k`. -/
theorem place_pairwise (k s : Rat) (st : Bool) (c : String → Rat) (l : List (Rat × String)) (hs : 0 ≤ s) :
    ((∀ p ∈ linkPairs l, c p.1 = c p.2) ∧ (∀ e ∈ chainEdges s st (sortDesc l), e.Sat k c))
      ↔ ∀ a ∈ l, ∀ b ∈ l, b.1 ≤ a.1 → G k s st c a b := by
  have hsrt := sortDesc_sorted l
  have hperm := sortDesc_perm l
  rw [linkPairs_sat, chainEdges_sat k s st c hs _ hsrt]
  constructor
  · rintro ⟨hl, hc⟩
    have hE : (sortDesc l).Pairwise (E c) := (hperm.pairwise_iff (fun h => E_symm c h)).2 hl
    have hG := chain_pairwise k s st c _ hsrt hE hc
    intro a ha b hb hba
    exact forall_of_pairwise k s st c _ hsrt hG a (hperm.mem_iff.2 ha) b (hperm.mem_iff.2 hb) hba
  · intro h
    refine ⟨pairwise_of_forall_mem _ l (fun a ha b hb e => (h a ha b hb (le_of_eq e.symm)).1 e), ?_⟩
    exact chainH_of_forall k s st c _ hsrt
      (fun a ha b hb => h a (hperm.mem_iff.1 ha) b (hperm.mem_iff.1 hb))


/-! ### graphs of one element  ↔  its spec item -/

theorem reach_zero_antisymm (f : Bool) (d : Rat) (h1 : Reach f d 0) (h2 : Reach f (-d) 0) : d = 0 := by
  unfold Reach at *
  cases f <;> simp at * <;> linarith

/-- one axis: the pairwise meaning over (value, node) pairs is the spec's `PairOk` over offsets `value·s·k` -/
theorem axis_iff (k s : Rat) (hs : 0 < s) (hk : 0 < k) (st : Bool) (c : String → Rat) (pins : List (String × Rat)) :
    (∀ a ∈ pins.map (fun p => (p.2, p.1)), ∀ b ∈ pins.map (fun p => (p.2, p.1)), b.1 ≤ a.1 → G k s st c a b)
      ↔ ∀ p ∈ pins, ∀ q ∈ pins, PairOk st (c p.1) (p.2 * s * k) (c q.1) (q.2 * s * k) := by
  have hsk : 0 < s * k := mul_pos hs hk
  have hle : ∀ u v : Rat, u * s * k ≤ v * s * k ↔ u ≤ v := by
    intro u v
    rw [mul_assoc, mul_assoc]
    exact mul_le_mul_iff_of_pos_right hsk
  simp only [List.forall_mem_map]
  constructor
  · intro h p hp q hq hpq
    have hv : p.2 ≤ q.2 := (hle _ _).1 hpq
    have g := h q hq p hp hv
    rcases eq_or_lt_of_le hv with e | l
    · have := g.1 e.symm
      simp only at this
      rw [this, e]
      unfold Reach; cases st <;> simp
    · have := g.2 l
      simp only at this
      have e : q.2 * s * k - p.2 * s * k = (q.2 - p.2) * s * k := by ring
      rw [e]; exact this
  · intro h a ha b hb hba
    have h1 := h b hb a ha ((hle _ _).2 hba)
    constructor
    · intro e
      simp only at e
      have h2 := h a ha b hb ((hle _ _).2 (le_of_eq e))
      have z1 : a.2 * s * k - b.2 * s * k = 0 := by rw [e]; ring
      have z2 : b.2 * s * k - a.2 * s * k = 0 := by rw [e]; ring
      rw [z1] at h1; rw [z2] at h2
      have : c b.1 - c a.1 = -(c a.1 - c b.1) := by ring
      rw [this] at h2
      have := reach_zero_antisymm _ _ h1 h2
      simp only
      linarith
    · intro l
      simp only
      have e : a.2 * s * k - b.2 * s * k = (a.2 - b.2) * s * k := by ring
      rw [← e]; exact h1


theorem graphs_sat_iff (k : Rat) (L : Layout) (r : Resolved) (hskip : r.skip = false) (hs : 0 ≤ r.size) :
    r.graphs.Sat k L ↔
      (∀ a ∈ r.xs, ∀ b ∈ r.xs, b.1 ≤ a.1 → G k r.size r.stretch L.x a b) ∧
      (∀ a ∈ r.ys, ∀ b ∈ r.ys, b.1 ≤ a.1 → G k r.size r.stretch L.y a b) := by
  rw [← place_pairwise k r.size r.stretch L.x r.xs hs, ← place_pairwise k r.size r.stretch L.y r.ys hs]
  unfold Graphs.Sat Resolved.graphs
  simp only [hskip, Bool.false_eq_true, if_false]
  tauto

theorem graphs_iff_body (k : Rat) (L : Layout) (r : Resolved) (hskip : r.skip = false) (hs : 0 < r.size) (hk : 0 < k) :
    r.graphs.Sat k L ↔ (r.body k).Sat L := by
  rw [graphs_sat_iff k L r hskip (le_of_lt hs)]
  have hx := axis_iff k r.size hs hk r.stretch L.x (r.pins.map (fun p => (p.1, p.2.1)))
  have hy := axis_iff k r.size hs hk r.stretch L.y (r.pins.map (fun p => (p.1, p.2.2)))
  simp only [List.map_map] at hx hy
  have ex : r.xs = List.map ((fun p : String × Rat => (p.2, p.1)) ∘ fun p : String × Rat × Rat => (p.1, p.2.1)) r.pins := by
    unfold Resolved.xs; apply List.map_congr_left; intro p _; rfl
  have ey : r.ys = List.map ((fun p : String × Rat => (p.2, p.1)) ∘ fun p : String × Rat × Rat => (p.1, p.2.2)) r.pins := by
    unfold Resolved.ys; apply List.map_congr_left; intro p _; rfl
  rw [ex, ey, hx, hy]
  unfold Body.Sat Resolved.body
  simp only [List.forall_mem_map]
  constructor
  · rintro ⟨h1, h2⟩ p hp q hq
    exact ⟨h1 p hp q hq, h2 p hp q hq⟩
  · intro h
    exact ⟨fun p hp q hq => (h p hp q hq).1, fun p hp q hq => (h p hp q hq).2⟩


theorem two_pin_axis (k s : Rat) (st : Bool) (c : String → Rat) (a b : String) (va vb : Rat) :
    (∀ p ∈ [(va, a), (vb, b)], ∀ q ∈ [(va, a), (vb, b)], q.1 ≤ p.1 → G k s st c p q) ↔
      ((va = vb → c a = c b) ∧ (va < vb → Reach (!st) (c b - c a) ((vb - va) * s * k))
        ∧ (vb < va → Reach (!st) (c a - c b) ((va - vb) * s * k))) := by
  simp only [List.mem_cons, List.mem_nil_iff, or_false, forall_eq_or_imp, forall_eq, G]
  constructor
  · rintro ⟨⟨-, h1⟩, h2, -⟩
    refine ⟨fun e => ?_, fun l => (h2 (le_of_lt l)).2 l, fun l => (h1 (le_of_lt l)).2 l⟩
    exact (h1 (le_of_eq e.symm)).1 e
  · rintro ⟨he, h1, h2⟩
    refine ⟨⟨fun _ => ⟨fun _ => trivial, fun l => absurd l (lt_irrefl _)⟩, fun _ => ⟨he, h2⟩⟩,
            fun _ => ⟨fun e => (he e.symm).symm, h1⟩, fun _ => ⟨fun _ => trivial, fun l => absurd l (lt_irrefl _)⟩⟩

theorem graphs_iff_hint (k : Rat) (L : Layout) (r : Resolved) (hskip : r.skip = false) (hs : 0 ≤ r.size)
    (h : Hint) (hi : r.item k = some (.hint h)) : r.graphs.Sat k L ↔ h.Sat L := by
  rw [graphs_sat_iff k L r hskip hs]
  unfold Resolved.item at hi
  simp only [hskip, Bool.false_eq_true, if_false] at hi
  split at hi
  · rename_i a ta b tb hp
    have ex : r.xs = [(ta.1, a), (tb.1, b)] := by unfold Resolved.xs; rw [hp]; rfl
    have ey : r.ys = [(ta.2, a), (tb.2, b)] := by unfold Resolved.ys; rw [hp]; rfl
    rw [ex, ey, two_pin_axis, two_pin_axis]
    split_ifs at hi with c1 c2 c3 c4
    · obtain ⟨e, l⟩ := c1
      injection hi with hi; injection hi with hi; subst hi
      unfold Hint.Sat; simp only
      have n1 : ¬ ta.1 = tb.1 := ne_of_lt l
      have n2 : ¬ tb.1 < ta.1 := not_lt.2 (le_of_lt l)
      simp only [e, l, n1, n2, forall_const, false_imp_iff, true_and, and_true, lt_irrefl]
      constructor
      · rintro ⟨h1, h2⟩; exact ⟨h2.symm, h1⟩
      · rintro ⟨h1, h2⟩; exact ⟨h2, h1.symm⟩
    · obtain ⟨e, l⟩ := c2
      injection hi with hi; injection hi with hi; subst hi
      unfold Hint.Sat; simp only
      have n1 : ¬ ta.1 = tb.1 := fun h => (ne_of_lt l) h.symm
      have n2 : ¬ ta.1 < tb.1 := not_lt.2 (le_of_lt l)
      simp only [e, l, n1, n2, forall_const, false_imp_iff, true_and, and_true, lt_irrefl]
      constructor
      · rintro ⟨h1, h2⟩; exact ⟨h2.symm, h1⟩
      · rintro ⟨h1, h2⟩; exact ⟨h2, h1.symm⟩
    · obtain ⟨e, l⟩ := c3
      injection hi with hi; injection hi with hi; subst hi
      unfold Hint.Sat; simp only
      have n1 : ¬ ta.2 = tb.2 := ne_of_lt l
      have n2 : ¬ tb.2 < ta.2 := not_lt.2 (le_of_lt l)
      simp only [e, l, n1, n2, forall_const, false_imp_iff, true_and, and_true, lt_irrefl]
      constructor
      · rintro ⟨h1, h2⟩; exact ⟨h1.symm, h2⟩
      · rintro ⟨h1, h2⟩; exact ⟨h1.symm, h2⟩
    · obtain ⟨e, l⟩ := c4
      injection hi with hi; injection hi with hi; subst hi
      unfold Hint.Sat; simp only
      have n1 : ¬ ta.2 = tb.2 := fun h => (ne_of_lt l) h.symm
      have n2 : ¬ ta.2 < tb.2 := not_lt.2 (le_of_lt l)
      simp only [e, l, n1, n2, forall_const, false_imp_iff, true_and, and_true, lt_irrefl]
      constructor
      · rintro ⟨h1, h2⟩; exact ⟨h1.symm, h2⟩
      · rintro ⟨h1, h2⟩; exact ⟨h1.symm, h2⟩
    · injection hi with hi; cases hi
  · injection hi with hi; cases hi


/-! ### longest-path placement -/

theorem revTopoB_iff (edges : List WEdge) : ∀ l, revTopoB edges l = true ↔ RevTopo edges l
  | [] => by simp [revTopoB, RevTopo]
  | v :: earlier => by
    have ih := revTopoB_iff edges earlier
    simp only [revTopoB, RevTopo, Bool.and_eq_true, List.all_eq_true, ih]
    constructor
    · rintro ⟨h1, h2⟩
      refine ⟨fun e he hs => ?_, h2⟩
      have := h1 e he
      simpa [hs] using this
    · rintro ⟨h1, h2⟩
      refine ⟨fun e he => ?_, h2⟩
      by_cases hs : e.src = v
      · have := h1 e he hs
        simpa [hs] using this
      · simp [hs]

theorem foldl_max_ge (edges : List WEdge) (d : String → Rat) (v : String) :
    ∀ (acc : Rat), acc ≤ edges.foldl (fun acc e => if e.dst = v then max acc (d e.src + e.size) else acc) acc := by
  induction edges with
  | nil => intro acc; exact le_refl _
  | cons e rest ih =>
    intro acc
    simp only [List.foldl_cons]
    split
    · exact le_trans (le_max_left _ _) (ih _)
    · exact ih _

theorem inMax_ge_edge (edges : List WEdge) (d : String → Rat) (v : String) (e : WEdge) (he : e ∈ edges) (hv : e.dst = v) :
    d e.src + e.size ≤ inMax edges d v := by
  unfold inMax
  suffices ∀ acc, d e.src + e.size ≤ edges.foldl (fun acc e => if e.dst = v then max acc (d e.src + e.size) else acc) acc from this 0
  induction edges with
  | nil => cases he
  | cons e' rest ih =>
    intro acc
    simp only [List.foldl_cons]
    rcases List.mem_cons.1 he with rfl | hr
    · simp only [hv, if_true]
      exact le_trans (le_max_right _ _) (foldl_max_ge rest d v _)
    · exact ih hr _

theorem inMax_nonneg (edges : List WEdge) (d : String → Rat) (v : String) : 0 ≤ inMax edges d v :=
  foldl_max_ge edges d v 0

theorem lp_nonneg (edges : List WEdge) : ∀ (l : List String) (u : String), 0 ≤ lp edges l u
  | [], _ => le_refl _
  | v :: earlier, u => by
    unfold lp
    split
    · exact inMax_nonneg _ _ _
    · exact lp_nonneg edges earlier u

/-- **Longest-path placement is feasible**: on any DAG given with a (reverse) topological order, any size,
    the longest-path distances satisfy every ≥-constraint whose endpoints are in the order. -/
theorem lp_feasible (edges : List WEdge) :
    ∀ (l : List String), l.Nodup → RevTopo edges l →
      ∀ e ∈ edges, e.src ∈ l → e.dst ∈ l → e.size ≤ lp edges l e.dst - lp edges l e.src
  | [], _, _ => by intro e _ h; cases h
  | v :: earlier, hnd, ht => by
    have ih := lp_feasible edges earlier (List.nodup_cons.1 hnd).2 ht.2
    have hv : v ∉ earlier := (List.nodup_cons.1 hnd).1
    intro e he hs hd
    have hsrc : e.src ≠ v := fun h => ht.1 e he h hd
    have hs' : e.src ∈ earlier := by
      rcases List.mem_cons.1 hs with h | h
      · exact absurd h hsrc
      · exact h
    unfold lp
    simp only [hsrc, if_false]
    by_cases hdv : e.dst = v
    · simp only [hdv, if_true]
      have := inMax_ge_edge edges (lp edges earlier) v e he hdv
      linarith
    · simp only [hdv, if_false]
      have hd' : e.dst ∈ earlier := by
        rcases List.mem_cons.1 hd with h | h
        · exact absurd h hdv
        · exact h
      exact ih e he hs' hd'

theorem inMax_single (edges : List WEdge) (d : String → Rat) (e : WEdge) (he : e ∈ edges)
    (huniq : ∀ e' ∈ edges, e'.dst = e.dst → e' = e) (hpos : 0 ≤ d e.src + e.size) :
    inMax edges d e.dst = d e.src + e.size := by
  apply le_antisymm _ (inMax_ge_edge edges d e.dst e he rfl)
  unfold inMax
  suffices ∀ acc, acc ≤ d e.src + e.size →
      edges.foldl (fun acc e' => if e'.dst = e.dst then max acc (d e'.src + e'.size) else acc) acc ≤ d e.src + e.size from this 0 hpos
  clear he
  induction edges with
  | nil => intro acc h; exact h
  | cons e' rest ih =>
    intro acc h
    simp only [List.foldl_cons]
    have ih' := ih (fun x hx => huniq x (List.mem_cons_of_mem _ hx))
    split
    · rename_i hd
      have : e' = e := huniq e' (by simp) hd
      subst this
      exact ih' _ (max_le h (le_refl _))
    · exact ih' _ h

/-- partial: a fixed-length edge is drawn with exactly its length by the longest-path placement when it is the
    only edge into its head (no competing constraint on that node). -/
theorem lp_exact_of_unique (edges : List WEdge) :
    ∀ (l : List String), l.Nodup → RevTopo edges l →
      ∀ e ∈ edges, e.src ∈ l → e.dst ∈ l → 0 ≤ e.size → (∀ e' ∈ edges, e'.dst = e.dst → e' = e) →
        lp edges l e.dst - lp edges l e.src = e.size
  | [], _, _ => by intro e _ h; cases h
  | v :: earlier, hnd, ht => by
    have ih := lp_exact_of_unique edges earlier (List.nodup_cons.1 hnd).2 ht.2
    intro e he hs hd hsz hu
    have hsrc : e.src ≠ v := fun h => ht.1 e he h hd
    have hs' : e.src ∈ earlier := by
      rcases List.mem_cons.1 hs with h | h
      · exact absurd h hsrc
      · exact h
    unfold lp
    simp only [hsrc, if_false]
    by_cases hdv : e.dst = v
    · simp only [hdv, if_true]
      have h0 : 0 ≤ lp edges earlier e.src + e.size := add_nonneg (lp_nonneg edges earlier e.src) hsz
      have := inMax_single edges (lp edges earlier) e he hu h0
      rw [hdv] at this
      linarith
    · simp only [hdv, if_false]
      have hd' : e.dst ∈ earlier := by
        rcases List.mem_cons.1 hd with h | h
        · exact absurd h hdv
        · exact h
      exact ih e he hs' hd' hsz hu


/-! ### whole netlist -/

theorem append_sat (k : Rat) (L : Layout) (a b : Graphs) : (a.append b).Sat k L ↔ a.Sat k L ∧ b.Sat k L := by
  unfold Graphs.Sat Graphs.append
  simp only [List.mem_append, or_imp, forall_and]
  tauto

theorem makeGraphs_sat (k : Rat) (L : Layout) : ∀ rs : List Resolved, (makeGraphs rs).Sat k L ↔ ∀ r ∈ rs, r.graphs.Sat k L
  | [] => by simp [makeGraphs, Graphs.Sat]
  | r :: rest => by
    have ih := makeGraphs_sat k L rest
    unfold makeGraphs at ih ⊢
    simp only [List.foldr_cons, append_sat, ih, List.forall_mem_cons]

theorem item_cases (k : Rat) (r : Resolved) (hskip : r.skip = false) :
    (∃ h, r.item k = some (.hint h)) ∨ r.item k = some (.body (r.body k)) := by
  unfold Resolved.item
  simp only [hskip, Bool.false_eq_true, if_false]
  split
  · split_ifs <;> simp
  · simp

theorem skip_graphs_sat (k : Rat) (L : Layout) (r : Resolved) (hskip : r.skip = true) : r.graphs.Sat k L := by
  unfold Resolved.graphs Graphs.Sat
  simp [hskip]

theorem elt_match (k : Rat) (L : Layout) (r : Resolved) (hk : 0 < k) (hskip : r.skip = false)
    (hsz : r.sizeOk k = true) (it : Item) (hi : r.item k = some it) : r.graphs.Sat k L ↔ it.Sat L := by
  unfold Resolved.sizeOk at hsz
  simp only [hskip, Bool.false_or] at hsz
  rcases item_cases k r hskip with ⟨h, hh⟩ | hb
  · rw [hh] at hi hsz
    injection hi with hi; subst hi
    simp only [decide_eq_true_eq] at hsz
    exact graphs_iff_hint k L r hskip hsz h hh
  · rw [hb] at hi hsz
    injection hi with hi; subst hi
    simp only [decide_eq_true_eq] at hsz
    exact graphs_iff_body k L r hskip hsz hk

theorem all_match (k : Rat) (L : Layout) (hk : 0 < k) : ∀ (rs : List Resolved), (∀ r ∈ rs, r.sizeOk k = true) →
    ((makeGraphs rs).Sat k L ↔ ∀ it ∈ rs.filterMap (Resolved.item k), it.Sat L) := by
  intro rs hsz
  rw [makeGraphs_sat]
  simp only [List.mem_filterMap]
  constructor
  · rintro h it ⟨r, hr, hi⟩
    have hskip : r.skip = false := by
      by_contra hc
      have : r.skip = true := by simpa using hc
      unfold Resolved.item at hi; simp [this] at hi
    exact (elt_match k L r hk hskip (hsz r hr) it hi).1 (h r hr)
  · intro h r hr
    by_cases hskip : r.skip = true
    · exact skip_graphs_sat k L r hskip
    · have hskip' : r.skip = false := by simpa using hskip
      rcases item_cases k r hskip' with ⟨hh, e⟩ | e
      · exact (elt_match k L r hk hskip' (hsz r hr) _ e).2 (h _ ⟨r, hr, e⟩)
      · exact (elt_match k L r hk hskip' (hsz r hr) _ e).2 (h _ ⟨r, hr, e⟩)


/-! ### rotation: code table vs meaning, lifted through the resolver; fixed chains -/

/-- the generated `Rdict` is the quarter-turn table on its keys (complete finite table) -/
theorem rotTable_spec (k : Int) (M : Int × Int × Int × Int) (h : rotMatrix? k = some M) :
    (k = 0 ∧ M = (1, 0, 0, 1)) ∨ (k = 90 ∧ M = (0, 1, -1, 0)) ∨ (k = 180 ∧ M = (-1, 0, 0, -1)) ∨
    (k = -180 ∧ M = (-1, 0, 0, -1)) ∨ (k = -90 ∧ M = (0, -1, 1, 0)) := by
  unfold rotMatrix? at h
  simp only [Gen.rotTable, List.find?] at h
  split at h
  · simp at h; rename_i hk; simp at hk; left; exact ⟨hk.symm, h.symm⟩
  · split at h
    · simp at h; rename_i hk; simp at hk; right; left; exact ⟨hk.symm, h.symm⟩
    · split at h
      · simp at h; rename_i hk; simp at hk; right; right; left; exact ⟨hk.symm, h.symm⟩
      · split at h
        · simp at h; rename_i hk; simp at hk; right; right; right; left; exact ⟨hk.symm, h.symm⟩
        · split at h
          · simp at h; rename_i hk; simp at hk; right; right; right; right; exact ⟨hk.symm, h.symm⟩
          · simp at h

theorem normKey_quarter (norm : Bool) (n k : Int) (h : normKey norm n = k) :
    (k = 0 → n % 90 = 0 ∧ (n / 90) % 4 = 0) ∧ (k = 90 → n % 90 = 0 ∧ (n / 90) % 4 = 1) ∧
    (k = 180 → n % 90 = 0 ∧ (n / 90) % 4 = 2) ∧ (k = -180 → n % 90 = 0 ∧ (n / 90) % 4 = 2) ∧
    (k = -90 → n % 90 = 0 ∧ (n / 90) % 4 = 3) := by
  unfold normKey at h
  cases norm <;> simp at h <;> omega


theorem quarter_of (a : Rat) (q : Int) (hden : a.den = 1) (h : a.num % 90 = 0 ∧ (a.num / 90) % 4 = q) :
    quarter a = some q := by
  unfold quarter; simp [hden, h.1, h.2]

/-- the rotation of the code (`Cpt.R`: generated `Rdict`, with or without normalisation of the angle) agrees with the
    quarter-turn meaning wherever it applies -/
theorem rotCode_rotExact (a : Rat) (v w : Rat × Rat) (h : rotCode a v = some w) : rotExact a v = some w := by
  unfold rotCode at h
  split at h
  · rename_i hden
    split at h
    · rename_i aa b c d hM
      have hq := normKey_quarter Gen.rotNormalise a.num _ rfl
      injection h with h
      rcases rotTable_spec _ _ hM with ⟨hk, hMe⟩ | ⟨hk, hMe⟩ | ⟨hk, hMe⟩ | ⟨hk, hMe⟩ | ⟨hk, hMe⟩
      · have := quarter_of a 0 hden (hq.1 hk)
        injection hMe with h1 h2; injection h2 with h2 h3; injection h3 with h3 h4
        subst h1 h2 h3 h4
        unfold rotExact; rw [this, ← h]; simp
      · have := quarter_of a 1 hden (hq.2.1 hk)
        injection hMe with h1 h2; injection h2 with h2 h3; injection h3 with h3 h4
        subst h1 h2 h3 h4
        unfold rotExact; rw [this, ← h]; simp
      · have := quarter_of a 2 hden (hq.2.2.1 hk)
        injection hMe with h1 h2; injection h2 with h2 h3; injection h3 with h3 h4
        subst h1 h2 h3 h4
        unfold rotExact; rw [this, ← h]; simp
      · have := quarter_of a 2 hden (hq.2.2.2.1 hk)
        injection hMe with h1 h2; injection h2 with h2 h3; injection h3 with h3 h4
        subst h1 h2 h3 h4
        unfold rotExact; rw [this, ← h]; simp
      · have := quarter_of a 3 hden (hq.2.2.2.2 hk)
        injection hMe with h1 h2; injection h2 with h2 h3; injection h3 with h3 h4
        subst h1 h2 h3 h4
        unfold rotExact; rw [this, ← h]; simp
    · cases h
  · cases h


theorem mapE_mono {α β : Type} {f g : α → Except String β} (h : ∀ a b, f a = .ok b → g a = .ok b) :
    ∀ (l : List α) (r : List β), mapE f l = .ok r → mapE g l = .ok r
  | [], r, hr => by simpa [mapE] using hr
  | a :: l, r, hr => by
    unfold mapE at hr ⊢
    split at hr
    · cases hr
    · rename_i b hb
      split at hr
      · cases hr
      · rename_i bs hbs
        rw [h a b hb, mapE_mono h l bs hbs]
        exact hr

/-- monotonicity of the resolver in the rotation function -/
theorem pinCoord_mono {rot1 rot2 : Rat → Rat × Rat → Option (Rat × Rat)}
    (hrot : ∀ a v w, rot1 a v = some w → rot2 a v = some w) (p : PreResolved) (pin : PinRow) (v : Rat × Rat)
    (h : pinCoord rot1 p pin = .ok v) : pinCoord rot2 p pin = .ok v := by
  unfold pinCoord at h ⊢
  split at h
  · cases h
  · rename_i s hs
    split at h
    · rename_i w hw
      rw [hrot _ _ _ hw]; exact h
    · cases h

theorem resolveWith_mono {rot1 rot2 : Rat → Rat × Rat → Option (Rat × Rat)}
    (hrot : ∀ a v w, rot1 a v = some w → rot2 a v = some w) (k : Rat) (all : List String) (e : Elt) (r : Resolved)
    (h : resolveWith rot1 k all e = .ok r) : resolveWith rot2 k all e = .ok r := by
  unfold resolveWith at h ⊢
  split at h
  · cases h
  · rename_i p hp
    split at h
    · rename_i hi; simp only [hi, if_true]; exact h
    · rename_i hi
      simp only [hi]
      split at h
      · cases h
      · rename_i tc htc
        rw [mapE_mono (pinCoord_mono hrot p) _ _ htc]; exact h

theorem resolveAll_mono {rot1 rot2 : Rat → Rat × Rat → Option (Rat × Rat)}
    (hrot : ∀ a v w, rot1 a v = some w → rot2 a v = some w) (n : Netlist) (x : List String × List Resolved)
    (h : resolveAll rot1 n = .ok x) : resolveAll rot2 n = .ok x := by
  unfold resolveAll at h ⊢
  split at h
  · cases h
  · rename_i elts0 he
    split at h
    · cases h
    · rename_i elts newNodes hsp
      simp only at h ⊢
      split at h
      · cases h
      · rename_i rs hrs
        rw [mapE_mono (fun e r => resolveWith_mono hrot n.spacing (schNodes elts0 ++ newNodes) e r) _ _ hrs]; exact h

theorem pinCoord_agrees (p : PreResolved) (pin : PinRow) (v : Rat × Rat)
    (h : pinCoord rotCode p pin = .ok v) : pinCoord rotExact p pin = .ok v :=
  pinCoord_mono rotCode_rotExact p pin v h

/-- **lifted through the resolver**: whenever the model of the code resolves an element (its angle hits `Cpt.R`'s table),
    resolving it with the rotation the hint *means* gives the same element -/
theorem resolveWith_agrees (k : Rat) (all : List String) (e : Elt) (r : Resolved)
    (h : resolveWith rotCode k all e = .ok r) : resolveWith rotExact k all e = .ok r :=
  resolveWith_mono rotCode_rotExact k all e r h

theorem resolveAll_agrees (n : Netlist) (x : List String × List Resolved)
    (h : resolveAll rotCode n = .ok x) : resolveAll rotExact n = .ok x :=
  resolveAll_mono rotCode_rotExact n x h

/-- with cos/sin parameters: the rotation of the code agrees with the meaning wherever the former is defined -/
theorem rotCodeP_rotMeanP (rots : RotTable) (a : Rat) (v w : Rat × Rat) (h : rotCodeP rots a v = some w) :
    rotMeanP rots a v = some w := by
  unfold rotCodeP at h
  unfold rotMeanP
  cases hc : rotCode a v with
  | some w' =>
    simp only [hc, Option.some.injEq] at h
    subst h
    rw [rotCode_rotExact a v w' hc]
  | none =>
    simp only [hc] at h
    split at h
    · cases h
    · rename_i hq
      have hq' : quarter a = none := by simpa using hq
      have : rotExact a v = none := by unfold rotExact; rw [hq']
      rw [this]; exact h

theorem one_port_item_exact (k : Rat) (r : Resolved) (a b : String) (ta tb : Rat × Rat) (hskip : r.skip = false)
    (hp : r.pins = [(a, ta), (b, tb)])
    (ha : rotExact r.angle (-1/2, 0) = some ta) (hb : rotExact r.angle (1/2, 0) = some tb) :
    ∃ d, dirOfAngle r.angle = some d ∧ r.item k = some (.hint ⟨a, b, d, r.size * k, !r.stretch⟩) := by
  unfold rotExact at ha hb
  unfold dirOfAngle Resolved.item
  simp only [hskip, hp, Bool.false_eq_true, if_false]
  split at ha
  all_goals (rename_i hq; rw [hq] at hb; simp only at hb)
  · injection ha with ha; injection hb with hb; subst ha; subst hb
    exact ⟨.right, rfl, by norm_num⟩
  · injection ha with ha; injection hb with hb; subst ha; subst hb
    exact ⟨.up, rfl, by norm_num⟩
  · injection ha with ha; injection hb with hb; subst ha; subst hb
    exact ⟨.left, rfl, by norm_num⟩
  · injection ha with ha; injection hb with hb; subst ha; subst hb
    exact ⟨.down, rfl, by norm_num⟩
  · cases ha

/-! ### chains of fixed edges -/

theorem lp_exact_chain (edges : List WEdge) (l : List String) (hnd : l.Nodup) (ht : RevTopo edges l) :
    ∀ (path : List WEdge) (s : String), PathFrom s path →
      (∀ e ∈ path, e ∈ edges ∧ e.src ∈ l ∧ e.dst ∈ l ∧ 0 ≤ e.size ∧ ∀ e' ∈ edges, e'.dst = e.dst → e' = e) →
      lp edges l (pathEnd s path) - lp edges l s = (path.map (·.size)).sum
  | [], s, _, _ => by simp [pathEnd]
  | e :: rest, s, hp, hall => by
    obtain ⟨he, hs, hd, hsz, hu⟩ := hall e (by simp)
    have h1 := lp_exact_of_unique edges l hnd ht e he hs hd hsz hu
    have h2 := lp_exact_chain edges l hnd ht rest e.dst hp.2 (fun x hx => hall x (List.mem_cons_of_mem _ hx))
    simp only [pathEnd, List.map_cons, List.sum_cons]
    rw [← hp.1]
    linarith


end Lcapy.Layout
