/-
  `Cx K` (Model/Cx.lean) is a commutative ring when `K` is one, and a field when `K` is an ordered field
  (a² + b² = 0 only for a = b = 0), so that every theorem stated for an arbitrary field — `mna_iff_laws`,
  superposition, Thevenin — applies to the phasor domain over any ordered field of "real" numbers.
-/
import Lcapy.Model.Cx
import Mathlib.Algebra.Order.Field.Basic
import Mathlib.Tactic.Ring
import Mathlib.Tactic.FieldSimp
import Mathlib.Tactic.Positivity
import Mathlib.Tactic.Linarith
namespace Lcapy.Cx

@[ext] theorem ext' {K : Type} {z w : Cx K} (h1 : z.re = w.re) (h2 : z.im = w.im) : z = w := by
  cases z; cases w; simp_all

section ring
variable {K : Type} [CommRing K]

@[simp] theorem add_re (z w : Cx K) : (z + w).re = z.re + w.re := rfl
@[simp] theorem add_im (z w : Cx K) : (z + w).im = z.im + w.im := rfl
@[simp] theorem sub_re (z w : Cx K) : (z - w).re = z.re - w.re := rfl
@[simp] theorem sub_im (z w : Cx K) : (z - w).im = z.im - w.im := rfl
@[simp] theorem neg_re (z : Cx K) : (-z).re = -z.re := rfl
@[simp] theorem neg_im (z : Cx K) : (-z).im = -z.im := rfl
@[simp] theorem mul_re (z w : Cx K) : (z * w).re = z.re * w.re - z.im * w.im := rfl
@[simp] theorem mul_im (z w : Cx K) : (z * w).im = z.re * w.im + z.im * w.re := rfl
@[simp] theorem zero_re : (0 : Cx K).re = 0 := rfl
@[simp] theorem zero_im : (0 : Cx K).im = 0 := rfl
@[simp] theorem one_re : (1 : Cx K).re = 1 := rfl
@[simp] theorem one_im : (1 : Cx K).im = 0 := rfl
@[simp] theorem two_re : (2 : Cx K).re = 2 := rfl
@[simp] theorem two_im : (2 : Cx K).im = 0 := rfl
@[simp] theorem ofReal_re (r : K) : (ofReal r).re = r := rfl
@[simp] theorem ofReal_im (r : K) : (ofReal r).im = 0 := rfl
@[simp] theorem jw_re (w : K) : (jw w).re = 0 := rfl
@[simp] theorem jw_im (w : K) : (jw w).im = w := rfl

instance : CommRing (Cx K) where
  add_assoc := by intros; ext <;> simp [add_assoc]
  zero_add := by intros; ext <;> simp
  add_zero := by intros; ext <;> simp
  add_comm := by intros; ext <;> simp [add_comm]
  neg_add_cancel := by intros; ext <;> simp
  sub_eq_add_neg := by intros; ext <;> simp [sub_eq_add_neg]
  mul_assoc := by intros; ext <;> simp <;> ring
  one_mul := by intros; ext <;> simp
  mul_one := by intros; ext <;> simp
  left_distrib := by intros; ext <;> simp <;> ring
  right_distrib := by intros; ext <;> simp <;> ring
  mul_comm := by intros; ext <;> simp <;> ring
  zero_mul := by intros; ext <;> simp
  mul_zero := by intros; ext <;> simp
  nsmul := nsmulRec
  zsmul := zsmulRec
  natCast n := ⟨(n : K), 0⟩
  natCast_zero := by ext <;> simp
  natCast_succ := by intro n; ext <;> simp
  intCast n := ⟨(n : K), 0⟩
  intCast_ofNat := by
    intro n
    show (⟨((Int.ofNat n : ℤ) : K), 0⟩ : Cx K) = ⟨(n : K), 0⟩
    simp
  intCast_negSucc := by
    intro n
    show (⟨((Int.negSucc n : ℤ) : K), 0⟩ : Cx K) = -(⟨((n + 1 : ℕ) : K), 0⟩ : Cx K)
    ext <;> simp [Int.cast_negSucc]

/-- j² = −1 -/
theorem jw_one_sq : (jw (1 : K)) * jw 1 = -1 := by ext <;> simp

theorem jw_eq (w : K) : jw w = jw 1 * ofReal w := by ext <;> simp

theorem ofReal_add (a b : K) : ofReal (a + b) = ofReal a + ofReal b := by ext <;> simp
theorem ofReal_mul (a b : K) : ofReal (a * b) = ofReal a * ofReal b := by ext <;> simp
theorem ofReal_neg (a : K) : ofReal (-a) = -ofReal a := by ext <;> simp
@[simp] theorem ofReal_zero : ofReal (0 : K) = 0 := rfl
@[simp] theorem ofReal_one : ofReal (1 : K) = 1 := rfl
end ring

section field
variable {K : Type} [Field K]

@[simp] theorem div_re (z w : Cx K) : (z / w).re = (z.re * w.re + z.im * w.im) / normSq w := rfl
@[simp] theorem div_im (z w : Cx K) : (z / w).im = (z.im * w.re - z.re * w.im) / normSq w := rfl

/-- division by a real number is componentwise (also for 0, by the common totalisation) -/
theorem div_ofReal (z : Cx K) (r : K) : z / ofReal r = ofReal (1 / r) * z := by
  by_cases h : r = 0
  · subst h; ext <;> simp [normSq]
  · ext <;> simp [normSq] <;> field_simp

theorem div_two (z : Cx K) : z / 2 = ofReal (1 / 2) * z := div_ofReal z 2
end field

section ordered
variable {K : Type} [Field K] [LinearOrder K] [IsStrictOrderedRing K]

theorem normSq_eq_zero (w : Cx K) : normSq w = 0 ↔ w = 0 := by
  constructor
  · intro h
    have h1 : 0 ≤ w.re * w.re := mul_self_nonneg _
    have h2 : 0 ≤ w.im * w.im := mul_self_nonneg _
    simp only [normSq] at h
    have e1 : w.re * w.re = 0 := by linarith
    have e2 : w.im * w.im = 0 := by linarith
    ext
    · exact mul_self_eq_zero.mp e1
    · exact mul_self_eq_zero.mp e2
  · rintro rfl; simp [normSq]

noncomputable instance : Field (Cx K) where
  inv w := 1 / w
  div_eq_mul_inv := by
    intro z w
    ext <;> simp [normSq] <;> ring
  exists_pair_ne := ⟨0, 1, by intro h; have := congrArg Cx.re h; simp at this⟩
  mul_inv_cancel := by
    intro w hw
    have hn : normSq w ≠ 0 := fun h => hw ((normSq_eq_zero w).mp h)
    have hn' : w.re ^ 2 + w.im ^ 2 ≠ 0 := by simpa [normSq, sq] using hn
    ext
    · simp only [mul_re, div_re, div_im, one_re, one_im, normSq]; field_simp; ring
    · simp only [mul_im, div_re, div_im, one_re, one_im, normSq]; field_simp; ring
  inv_zero := by ext <;> simp [normSq]
  nnqsmul := _
  nnqsmul_def := fun _ _ => rfl
  qsmul := _
  qsmul_def := fun _ _ => rfl
end ordered

section immittance
variable {K : Type} [Field K]
set_option linter.unusedSimpArgs false

theorem x_div_sq (x : K) : x / (x * x) = 1 / x := by
  by_cases h : x = 0
  · subst h; simp
  · field_simp

/-- 1/(j x) = −j/x  (also at x = 0 under the common totalisation) -/
theorem inv_jx (x : K) : (1 : Cx K) / ⟨0, x⟩ = ⟨0, -(1 / x)⟩ := by
  ext <;> simp [normSq]
  rw [neg_div, x_div_sq]; simp

theorem inv_rx (r : K) : (1 : Cx K) / ⟨r, 0⟩ = ⟨1 / r, 0⟩ := by
  ext <;> simp [normSq]

theorem inv_inv_jx (x : K) : (1 : Cx K) / (1 / ⟨0, x⟩) = ⟨0, x⟩ := by
  rw [inv_jx, inv_jx]
  ext <;> simp

theorem serRLC_at_jw (w r l c : K) :
    (0 : Cx K) + (0 + ofReal r + ⟨0, w * l⟩) + ⟨0, -(1 / (w * c))⟩ = ⟨r, w * l - 1 / (w * c)⟩ := by
  ext <;> simp
  ring

theorem jw_mul_ofReal (w c : K) : jw w * ofReal c = ⟨0, w * c⟩ := by ext <;> simp

end immittance

end Lcapy.Cx
