/-
  Helper definitions and lemmas for Props/C01Stamps.lean (the static tie between the `_stamp` methods
  as written in lcapy/mnacpts.py -- Generated/Stamps.lean -- and the hand model Model/MNA.lean).
-/
import Lcapy.Proofs.MNA
import Lcapy.Generated.Stamps
namespace Lcapy.MNA
open Ix
variable {K : Type} [Field K]

/-- two stamps that give every row the same residual for every assignment of the unknowns
    (they assemble to the same linear system) -/
def SameRes (a b : Stamp K) : Prop := ∀ x r, residual a x r = residual b x r

theorem SameRes.refl (a : Stamp K) : SameRes a a := fun _ _ => rfl

theorem SameRes.append {a a' b b' : Stamp K} (h1 : SameRes a a') (h2 : SameRes b b') :
    SameRes (a.append b) (a'.append b') := by
  intro x r; rw [residual_append, residual_append, h1 x r, h2 x r]

/-- what ONE side of a `K L1 L2 k` line contributes to the branch row `m` of one of its inductors:
    `D[m, m'] += −s·M` (not at dc) and, in an initial-value problem, `Es[m] += −M·i0'` -/
def halfK (kind : Kind) (s : K) (m : Nat) (p : Nat × K × Option K) : Stamp K :=
  { lhs := match kind with
           | .dc => []
           | .time => []
           | _ => [(br m, br p.1, -(s * p.2.1))],
    rhs := match kind with
           | .ivp => [(br m, -(icFlux p.2.1 p.2.2))]
           | _ => [] }

def halfKs (kind : Kind) (s : K) (m : Nat) (coup : List (Nat × K × Option K)) : Stamp K :=
  coup.foldr (fun p acc => (halfK kind s m p).append acc) {}

theorem halfKs_lhs (kind : Kind) (s : K) (m : Nat) (coup : List (Nat × K × Option K)) :
    (halfKs kind s m coup).lhs =
      match kind with
      | .dc => []
      | .time => []
      | _ => coup.map (fun p => (br m, br p.1, -(s * p.2.1))) := by
  induction coup with
  | nil => cases kind <;> simp [halfKs]
  | cons p t ih =>
    simp only [halfKs, List.foldr_cons, Stamp.append] at ih ⊢
    rw [ih]; cases kind <;> simp [halfK]

theorem halfKs_rhs (kind : Kind) (s : K) (m : Nat) (coup : List (Nat × K × Option K)) :
    (halfKs kind s m coup).rhs =
      match kind with
      | .ivp => coup.map (fun p => (br m, -(icFlux p.2.1 p.2.2)))
      | _ => [] := by
  induction coup with
  | nil => cases kind <;> simp [halfKs]
  | cons p t ih =>
    simp only [halfKs, List.foldr_cons, Stamp.append] at ih ⊢
    rw [ih]; cases kind <;> simp [halfK]

/-- the hand model folds the `K` lines into the inductors: an inductor's stamp is its own (uncoupled)
    stamp plus one `halfK` per coupling -/
theorem ind_split (kind : Kind) (s : K) (n1 n2 m : Nat) (l : K) (i0 : Option K)
    (coup : List (Nat × K × Option K)) :
    SameRes (stamp kind s (.Ind n1 n2 m l i0 coup))
      ((stamp kind s (.Ind n1 n2 m l i0 [])).append (halfKs kind s m coup)) := by
  intro x r
  rw [residual_append]
  cases kind <;> cases i0 <;>
    simp [residual, stamp, halfKs_lhs, halfKs_rhs, lhsSum_append, rhsSum_append, lhsSum, rhsSum] <;> ring

/-- choose the stamp read from the source when its class was parsed, the hand model's otherwise -/
def pick (b : Bool) (g h : Stamp K) : Stamp K := if b then g else h

theorem pick_sameRes {b : Bool} {g h : Stamp K} (H : b = true → SameRes g h) : SameRes (pick b g h) h := by
  cases b
  · simp only [pick]; exact SameRes.refl h
  · simp only [pick]; exact H rfl

/-- the residual of an assembled list of stamps is the sum of the residuals -/
theorem residual_foldr_append {α : Type} (f : α → Stamp K) (cs : List α) (x : Ix → K) (r : Ix) :
    residual (cs.foldr (fun c acc => (f c).append acc) {}) x r = lsum (cs.map (fun c => residual (f c) x r)) := by
  induction cs with
  | nil => simp [residual, lhsSum, rhsSum, lsum]
  | cons c t ih => simp only [List.foldr_cons, List.map_cons, lsum]; rw [residual_append, ih]

end Lcapy.MNA
