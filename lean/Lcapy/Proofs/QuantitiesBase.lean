/-
  Helper lemmas for property C18: linearity of the SI dimension map, table lookup, the
  constant/undefined aliasing.  Core Lean only.
-/
import Lcapy.Model.Quantities
namespace Lcapy.QBase
open Lcapy.Dim Lcapy.QModel

theorem dim3_ext {x y : Dim3} (h1 : x.v = y.v) (h2 : x.a = y.a) (h3 : x.t = y.t) : x = y := by
  cases x; cases y; simp_all

@[simp] theorem dim3_add_v (x y : Dim3) : (x + y).v = x.v + y.v := rfl
@[simp] theorem dim3_add_a (x y : Dim3) : (x + y).a = x.a + y.a := rfl
@[simp] theorem dim3_add_t (x y : Dim3) : (x + y).t = x.t + y.t := rfl
@[simp] theorem dim3_sub_v (x y : Dim3) : (x - y).v = x.v - y.v := rfl
@[simp] theorem dim3_sub_a (x y : Dim3) : (x - y).a = x.a - y.a := rfl
@[simp] theorem dim3_sub_t (x y : Dim3) : (x - y).t = x.t - y.t := rfl

@[simp] theorem u_add_volt (u w : U) : (u + w).volt = u.volt + w.volt := rfl
@[simp] theorem u_sub_volt (u w : U) : (u - w).volt = u.volt - w.volt := rfl
@[simp] theorem u_add_ampere (u w : U) : (u + w).ampere = u.ampere + w.ampere := rfl
@[simp] theorem u_sub_ampere (u w : U) : (u - w).ampere = u.ampere - w.ampere := rfl
@[simp] theorem u_add_ohm (u w : U) : (u + w).ohm = u.ohm + w.ohm := rfl
@[simp] theorem u_sub_ohm (u w : U) : (u - w).ohm = u.ohm - w.ohm := rfl
@[simp] theorem u_add_siemens (u w : U) : (u + w).siemens = u.siemens + w.siemens := rfl
@[simp] theorem u_sub_siemens (u w : U) : (u - w).siemens = u.siemens - w.siemens := rfl
@[simp] theorem u_add_watt (u w : U) : (u + w).watt = u.watt + w.watt := rfl
@[simp] theorem u_sub_watt (u w : U) : (u - w).watt = u.watt - w.watt := rfl
@[simp] theorem u_add_hertz (u w : U) : (u + w).hertz = u.hertz + w.hertz := rfl
@[simp] theorem u_sub_hertz (u w : U) : (u - w).hertz = u.hertz - w.hertz := rfl
@[simp] theorem u_add_second (u w : U) : (u + w).second = u.second + w.second := rfl
@[simp] theorem u_sub_second (u w : U) : (u - w).second = u.second - w.second := rfl
@[simp] theorem u_add_radian (u w : U) : (u + w).radian = u.radian + w.radian := rfl
@[simp] theorem u_sub_radian (u w : U) : (u - w).radian = u.radian - w.radian := rfl

/-- the SI dimension of a product of units is the sum of the dimensions -/
theorem dimU_add (u w : U) : dimU (u + w) = dimU u + dimU w := by
  apply dim3_ext <;> simp only [dim3_add_v, dim3_add_a, dim3_add_t, dimU, u_add_volt, u_add_ampere,
    u_add_ohm, u_add_siemens, u_add_watt, u_add_hertz, u_add_second] <;> omega

theorem dimU_sub (u w : U) : dimU (u - w) = dimU u - dimU w := by
  apply dim3_ext <;> simp only [dim3_sub_v, dim3_sub_a, dim3_sub_t, dimU, u_sub_volt, u_sub_ampere,
    u_sub_ohm, u_sub_siemens, u_sub_watt, u_sub_hertz, u_sub_second] <;> omega

theorem dimU_smul (n : Int) (u : U) :
    dimU (U.smul n u) = ⟨n * (dimU u).v, n * (dimU u).a, n * (dimU u).t⟩ := by
  apply dim3_ext <;> simp only [dimU, U.smul] <;>
    simp only [Int.mul_add, Int.mul_sub]

theorem dimU_one : dimU U.one = Dim3.zero := by decide

theorem va_add (x y : Dim3) : (x + y).va = addVA x.va y.va := rfl
theorem va_sub (x y : Dim3) : (x - y).va = subVA x.va y.va := rfl

/-- a successful dict lookup returns a row of the table -/
theorem lookup2_mem {t : List (Quantity × Quantity × Quantity)} {a b r : Quantity}
    (h : lookup2 t a b = some r) : (a, b, r) ∈ t := by
  induction t with
  | nil => simp [lookup2] at h
  | cons row rest ih =>
    obtain ⟨x, y, z⟩ := row
    simp only [lookup2] at h
    split at h
    · rename_i hc
      obtain ⟨rfl, rfl⟩ := hc
      simp only [Option.some.injEq] at h
      subst h
      exact List.mem_cons_self
    · exact List.mem_cons_of_mem _ (ih h)

/-- a failed dict lookup means no row has that key -/
theorem lookup2_none {t : List (Quantity × Quantity × Quantity)} {a b : Quantity}
    (h : lookup2 t a b = none) : ∀ r, (a, b, r) ∉ t := by
  induction t with
  | nil => intro r hr; simp at hr
  | cons row rest ih =>
    obtain ⟨x, y, z⟩ := row
    simp only [lookup2] at h
    split at h
    · simp at h
    · rename_i hc
      intro r hr
      rcases List.mem_cons.mp hr with heq | hmem
      · simp only [Prod.mk.injEq] at heq
        exact hc ⟨heq.1.symm, heq.2.1.symm⟩
      · exact ih h r hmem

theorem lookup2_some_of_mem_unique {t : List (Quantity × Quantity × Quantity)} {a b r : Quantity}
    (h : (a, b, r) ∈ t) : ∃ r', lookup2 t a b = some r' := by
  cases hl : lookup2 t a b with
  | some r' => exact ⟨r', rfl⟩
  | none => exact absurd h (lookup2_none hl r)

@[simp] theorem dimQ_constify (q : Quantity) : dimQ (constify q) = dimQ q := by
  cases q <;> rfl
@[simp] theorem dimQ_unconstify (q : Quantity) : dimQ (unconstify q) = dimQ q := by
  cases q <;> rfl

/-- what holds of every enabled rule and of the final statement holds of the outcome -/
theorem firstMatch_spec {α : Type} (P : α → Prop) (rs : List (Bool × α)) (d : α)
    (hr : ∀ r ∈ rs, r.1 = true → P r.2) (hd : P d) : P (firstMatch rs d) := by
  induction rs with
  | nil => exact hd
  | cons r rest ih =>
    obtain ⟨g, v⟩ := r
    simp only [firstMatch]
    split
    · rename_i hg
      exact hr (g, v) List.mem_cons_self hg
    · exact ih (fun r hm => hr r (List.mem_cons_of_mem _ hm))

theorem firstMatch_append {α : Type} (l1 l2 : List (Bool × α)) (d : α) :
    firstMatch (l1 ++ l2) d = firstMatch l1 (firstMatch l2 d) := by
  induction l1 with
  | nil => rfl
  | cons r rest ih =>
    obtain ⟨g, v⟩ := r
    simp only [List.cons_append, firstMatch, ih]

/-- when some rule is enabled the final statement is never reached -/
theorem firstMatch_spec_enabled {α : Type} (P : α → Prop) (rs : List (Bool × α)) (d : α)
    (hr : ∀ r ∈ rs, r.1 = true → P r.2) (he : ∃ r ∈ rs, r.1 = true) : P (firstMatch rs d) := by
  induction rs with
  | nil => obtain ⟨r, hm, _⟩ := he; simp at hm
  | cons r rest ih =>
    obtain ⟨g, v⟩ := r
    simp only [firstMatch]
    split
    · rename_i hg
      exact hr (g, v) List.mem_cons_self hg
    · rename_i hg
      apply ih (fun r hm => hr r (List.mem_cons_of_mem _ hm))
      obtain ⟨r, hm, hgr⟩ := he
      rcases List.mem_cons.mp hm with rfl | hm
      · exact absurd hgr hg
      · exact ⟨r, hm, hgr⟩

theorem quantity_mem_all (q : Quantity) : q ∈ Quantity.all := by cases q <;> decide
theorem domain_mem_all (d : Domain) : d ∈ Domain.all := by cases d <;> decide

end Lcapy.QBase
