/-
  Transform laws of the formal unilateral Laplace transform `L` on `ExpPoly K`, over any field `K`
  and any stand-in `E` for the exponential (laws that involve a delay assume `E` additive).
  Helper lemmas; the property theorems quoting them are in Props/C09.lean and Props/C10.lean.
-/
import Lcapy.Spec.Signal
import Lcapy.Model.ExpPoly
import Mathlib.Algebra.Field.Basic
import Mathlib.Tactic.FieldSimp
import Mathlib.Tactic.Ring
import Mathlib.Data.Nat.Factorial.Basic
namespace Lcapy.Laplace
variable {K : Type} [Field K]

theorem pw_eq (x : K) (n : Nat) : pw x n = x ^ n := by
  induction n with
  | zero => simp [pw]
  | succ n ih => simp [pw, ih, pow_succ]

theorem ofN_eq (n : Nat) : (ofN n : K) = (n : K) := by
  induction n with
  | zero => simp [ofN]
  | succ n ih => simp [ofN, ih]

theorem fact_eq (n : Nat) : (fact n : K) = (n.factorial : K) := by
  induction n with
  | zero => simp [fact]
  | succ n ih => simp [fact, ih, ofN_eq, Nat.factorial_succ]; ring

/-- `E` behaves like an exponential: additive, `E 0 = 1`. -/
structure IsExp (E : K → K) : Prop where
  add : ∀ x y, E (x + y) = E x * E y
  zero : E 0 = 1

variable (E : K → K)

@[simp] theorem L_nil (s : K) : L E ([] : ExpPoly K) s = 0 := rfl
@[simp] theorem L_cons (t : Term K) (f : ExpPoly K) (s : K) : L E (t :: f) s = t.L E s + L E f s := rfl

theorem L_append (f g : ExpPoly K) (s : K) : L E (f ++ g) s = L E f s + L E g s := by
  induction f with
  | nil => simp
  | cons t f ih => simp [ih, add_assoc]

theorem NonPole.cons {t : Term K} {f : ExpPoly K} {s : K} (h : NonPole (t :: f) s) :
    NonPole [t] s ∧ NonPole f s := by
  constructor
  · intro x hx; simp at hx; subst hx; exact h _ (by simp)
  · intro x hx; exact h x (by simp [hx])

theorem NonPole.append {f g : ExpPoly K} {s : K} (hf : NonPole f s) (hg : NonPole g s) :
    NonPole (f ++ g) s := by
  intro x hx
  rcases List.mem_append.mp hx with h | h
  · exact hf x h
  · exact hg x h

/-- general "term-wise" principle: if `g` sends each term `t` to a signal whose transform at `s'`
    is `a * L t s + b t`, then `flatMap g` sends `f` to a signal with transform `a * L f s + Σ b`. -/
theorem L_flatMap (g : Term K → ExpPoly K) (a s s' : K) (f : ExpPoly K)
    (h : ∀ t ∈ f, L E (g t) s' = a * t.L E s) :
    L E (f.flatMap g) s' = a * L E f s := by
  induction f with
  | nil => simp
  | cons t f ih =>
    simp only [List.flatMap_cons, L_append, L_cons]
    rw [h t (by simp), ih (fun x hx => h x (by simp [hx]))]; ring

theorem L_map (g : Term K → Term K) (a s s' : K) (f : ExpPoly K)
    (h : ∀ t ∈ f, (g t).L E s' = a * t.L E s) :
    L E (f.map g) s' = a * L E f s := by
  induction f with
  | nil => simp
  | cons t f ih =>
    simp only [List.map_cons, L_cons]
    rw [h t (by simp), ih (fun x hx => h x (by simp [hx]))]; ring

/-! ### linearity -/

theorem L_smul (a s : K) (f : ExpPoly K) : L E (smul a f) s = a * L E f s := by
  unfold smul
  apply L_map
  intro t _
  cases t <;> simp [Term.smul, Term.L] <;> ring

/-! ### delay -/

theorem L_delay (hE : IsExp E) (T s : K) (f : ExpPoly K) :
    L E (delay T f) s = E (-(s * T)) * L E f s := by
  unfold delay
  apply L_map
  intro t _
  cases t with
  | ep c k p d =>
    simp only [Term.delay, Term.L]
    rw [show -(s * (d + T)) = -(s * T) + -(s * d) by ring, hE.add]; ring
  | dl c n d =>
    simp only [Term.delay, Term.L]
    rw [show -(s * (d + T)) = -(s * T) + -(s * d) by ring, hE.add]; ring

/-! ### derivative -/

theorem L_term_deriv (s : K) (t : Term K) (h : NonPole [t] s) :
    L E (Term.deriv t) s = s * t.L E s := by
  cases t with
  | ep c k p d =>
    have hp : s - p ≠ 0 := h (.ep c k p d) (by simp)
    cases k with
    | zero => simp [Term.deriv, Term.L, pw_eq]; field_simp; ring
    | succ k => simp [Term.deriv, Term.L, pw_eq]; field_simp; ring
  | dl c n d => simp [Term.deriv, Term.L, pw_eq]; ring

theorem L_deriv (s : K) (f : ExpPoly K) (h : NonPole f s) :
    L E (deriv f) s = s * L E f s := by
  unfold deriv
  apply L_flatMap
  intro t ht
  exact L_term_deriv E s t (fun x hx => by simp at hx; subst hx; exact h _ ht)

theorem NonPole_term_deriv {s : K} {t : Term K} (h : NonPole [t] s) : NonPole (Term.deriv t) s := by
  cases t with
  | ep c k p d =>
    have hp : s - p ≠ 0 := h (.ep c k p d) (by simp)
    cases k <;> (intro x hx; simp [Term.deriv] at hx; rcases hx with rfl | rfl <;> simp [hp])
  | dl c n d => intro x hx; simp [Term.deriv] at hx; subst hx; trivial

theorem NonPole_deriv {s : K} {f : ExpPoly K} (h : NonPole f s) : NonPole (deriv f) s := by
  intro x hx
  simp only [deriv, List.mem_flatMap] at hx
  obtain ⟨t, ht, hxt⟩ := hx
  exact NonPole_term_deriv (t := t) (fun y hy => by simp at hy; subst hy; exact h _ ht) x hxt

theorem L_derivN (s : K) (n : Nat) (f : ExpPoly K) (h : NonPole f s) :
    L E (derivN n f) s = s ^ n * L E f s ∧ NonPole (derivN n f) s := by
  induction n with
  | zero => simp [derivN, h]
  | succ n ih =>
    refine ⟨?_, NonPole_deriv ih.2⟩
    simp only [derivN]; rw [L_deriv E s _ ih.2, ih.1]; ring

/-- derivative of a whole-axis signal: `L(Dx)(s) = s·L x(s) − x(0⁻)` -/
theorem L_signal_deriv [DecidableEq K] (hE : IsExp E) (s : K) (x : Signal K) (h : NonPole x.post s) :
    (Signal.deriv x).L E s = s * x.L E s - pre0 x.pre := by
  simp only [Signal.deriv, Signal.L, L_append, L_deriv E s _ h, L_cons, L_nil, Term.L, pw]
  simp [hE.zero]; ring

/-! ### exponential weighting: `L{e^{at} f}(s) = L f (s − a)` -/

theorem L_expDelta (hE : IsExp E) (a c d s : K) (n : Nat) :
    L E (expDelta E a c d n) s = c * (s - a) ^ n * E (-((s - a) * d)) ∧ NonPole (expDelta E a c d n) s := by
  induction n with
  | zero =>
    constructor
    · simp only [expDelta, L_cons, L_nil, Term.L, pw]
      rw [show -((s - a) * d) = a * d + -(s * d) by ring, hE.add]; ring
    · intro x hx; simp [expDelta] at hx; subst hx; trivial
  | succ n ih =>
    constructor
    · simp only [expDelta, L_append, L_deriv E s _ ih.2, L_smul, ih.1]; ring
    · apply NonPole.append (NonPole_deriv ih.2)
      intro x hx
      simp only [smul, List.mem_map] at hx
      obtain ⟨y, hy, rfl⟩ := hx
      have := ih.2 y hy
      cases y <;> simp [Term.smul] at this ⊢ <;> exact this

theorem L_expWeight (hE : IsExp E) (a s : K) (f : ExpPoly K) :
    L E (expWeight E a f) s = L E f (s - a) := by
  have := L_flatMap E (Term.expWeight E a) 1 (s - a) s f (by
    intro t _
    cases t with
    | ep c k p d =>
      simp only [Term.expWeight, L_cons, L_nil, Term.L]
      rw [show -((s - a) * d) = a * d + -(s * d) by ring, hE.add,
        show s - (p + a) = s - a - p by ring]; ring
    | dl c n d =>
      simp only [Term.expWeight, Term.L, (L_expDelta E hE a c d s n).1, pw_eq]; ring)
  simpa [expWeight] using this

/-! ### time scaling: `L{f(at)}(s) = (1/a) L f (s/a)` -/

theorem L_scale (a s : K) (ha : a ≠ 0) (f : ExpPoly K) :
    L E (scale a f) s = 1 / a * L E f (s / a) := by
  unfold scale
  apply L_map
  intro t _
  cases t with
  | ep c k p d =>
    simp only [Term.scale, Term.L, pw_eq]
    rw [show -(s * (d / a)) = -(s / a * d) by field_simp,
      show s - p * a = a * (s / a - p) by field_simp, mul_pow]
    by_cases hz : (s / a - p) = 0
    · simp [hz]
    · field_simp; ring
  | dl c n d =>
    simp only [Term.scale, Term.L, pw_eq]
    rw [show -(s * (d / a)) = -(s / a * d) by field_simp, div_pow]
    field_simp; ring

/-! ### multiplication by t (checked against the analytic derivative in LaplaceAnchor) -/

/-- formal `−d/ds` of the transform of one term (uses `E' = E`) -/
def Term.negDL (s : K) : Term K → K
  | .ep c k p d => c * d * E (-(s * d)) / (s - p) ^ (k + 1) + c * (k + 1) * E (-(s * d)) / (s - p) ^ (k + 2)
  | .dl c n d => c * d * s ^ n * E (-(s * d)) - c * n * s ^ (n - 1) * E (-(s * d))

def negDL : ExpPoly K → K → K
  | [], _ => 0
  | t :: f, s => Term.negDL E s t + negDL f s

theorem L_tmul (s : K) (f : ExpPoly K) : L E (tmul f) s = negDL E f s := by
  induction f with
  | nil => simp [tmul, negDL]
  | cons t f ih =>
    simp only [tmul, List.flatMap_cons, L_append, negDL] at ih ⊢
    rw [ih]; congr 1
    cases t with
    | ep c k p d =>
      simp only [Term.tmul, L_cons, L_nil, Term.L, Term.negDL, pw_eq, ofN_eq]
      push_cast; ring
    | dl c n d =>
      cases n with
      | zero => simp [Term.tmul, Term.L, Term.negDL, pw_eq]
      | succ n => simp [Term.tmul, Term.L, Term.negDL, pw_eq, ofN_eq]; ring

/-! ### convolution -/

theorem L_pfr (p q s : K) (hpq : p - q ≠ 0) (hp : s - p ≠ 0) (hq : s - q ≠ 0) (a b : Nat) (c : K) :
    ((pfr p q a b c).map (fun (x : K × Nat × K) => x.1 / (s - x.2.2) ^ x.2.1)).sum
      = c / ((s - p) ^ a * (s - q) ^ b) := by
  induction a, b, c using pfr.induct (p := p) (q := q) with
  | case1 b c => simp [pfr]
  | case2 a c => simp [pfr]
  | case3 a b c ih1 ih2 =>
    rw [pfr]; simp only [List.map_append, List.sum_append, ih1, ih2]
    field_simp; ring

theorem pfr_order_pos (p q : K) (a b : Nat) (c : K) (hab : 0 < a + b) :
    ∀ x ∈ pfr p q a b c, 0 < x.2.1 ∧ (x.2.2 = p ∨ x.2.2 = q) := by
  induction a, b, c using pfr.induct (p := p) (q := q) with
  | case1 b c => intro x hx; simp [pfr] at hx; subst hx; simp at hab ⊢; exact hab
  | case2 a c => intro x hx; simp [pfr] at hx; subst hx; simp
  | case3 a b c ih1 ih2 =>
    intro x hx; rw [pfr] at hx
    rcases List.mem_append.mp hx with h | h
    · exact ih1 (by omega) x h
    · exact ih2 (by omega) x h


theorem L_pfr_terms (s D : K) (l : List (K × Nat × K)) (hl : ∀ x ∈ l, 0 < x.2.1) :
    L E (l.map (fun (x : K × Nat × K) => Term.ep x.1 (x.2.1 - 1) x.2.2 D)) s
      = E (-(s * D)) * (l.map (fun (x : K × Nat × K) => x.1 / (s - x.2.2) ^ x.2.1)).sum := by
  induction l with
  | nil => simp
  | cons x l ih =>
    have hx : x.2.1 - 1 + 1 = x.2.1 := Nat.sub_add_cancel (hl x (by simp))
    simp only [List.map_cons, L_cons, List.sum_cons, ih (fun y hy => hl y (by simp [hy])), Term.L, pw_eq, hx]
    ring

theorem L_term_conv [DecidableEq K] (hE : IsExp E) (s : K) (x y : Term K)
    (hx : NonPole [x] s) (hy : NonPole [y] s) :
    L E (Term.conv x y) s = x.L E s * y.L E s := by
  cases x with
  | ep c1 k1 p1 d1 =>
    have h1 : s - p1 ≠ 0 := hx (.ep c1 k1 p1 d1) (by simp)
    cases y with
    | ep c2 k2 p2 d2 =>
      have h2 : s - p2 ≠ 0 := hy (.ep c2 k2 p2 d2) (by simp)
      have hEE : E (-(s * (d1 + d2))) = E (-(s * d1)) * E (-(s * d2)) := by
        rw [show -(s * (d1 + d2)) = -(s * d1) + -(s * d2) by ring, hE.add]
      by_cases hp : p1 = p2
      · subst hp
        simp only [Term.conv, if_true, L_cons, L_nil, Term.L, pw_eq, hEE]
        field_simp; ring
      · have hpq : p1 - p2 ≠ 0 := sub_ne_zero.mpr hp
        simp only [Term.conv, if_neg hp]
        have := L_pfr_terms E s (d1 + d2) (pfr p1 p2 (k1 + 1) (k2 + 1) (c1 * c2))
          (fun x hx => (pfr_order_pos p1 p2 _ _ _ (by omega) x hx).1)
        rw [this, L_pfr p1 p2 s hpq h1 h2, hEE]
        simp only [Term.L, pw_eq]; field_simp
    | dl c2 n2 d2 =>
      have hEE : E (-(s * (d1 + d2))) = E (-(s * d1)) * E (-(s * d2)) := by
        rw [show -(s * (d1 + d2)) = -(s * d1) + -(s * d2) by ring, hE.add]
      simp only [Term.conv]
      rw [(L_derivN E s n2 [.ep (c1 * c2) k1 p1 (d1 + d2)]
        (fun t ht => by simp at ht; subst ht; exact h1)).1]
      simp only [L_cons, L_nil, Term.L, pw_eq, hEE]; field_simp; ring
  | dl c1 n1 d1 =>
    cases y with
    | ep c2 k2 p2 d2 =>
      have h2 : s - p2 ≠ 0 := hy (.ep c2 k2 p2 d2) (by simp)
      have hEE : E (-(s * (d1 + d2))) = E (-(s * d1)) * E (-(s * d2)) := by
        rw [show -(s * (d1 + d2)) = -(s * d1) + -(s * d2) by ring, hE.add]
      simp only [Term.conv]
      rw [(L_derivN E s n1 [.ep (c1 * c2) k2 p2 (d1 + d2)]
        (fun t ht => by simp at ht; subst ht; exact h2)).1]
      simp only [L_cons, L_nil, Term.L, pw_eq, hEE]; field_simp; ring
    | dl c2 n2 d2 =>
      have hEE : E (-(s * (d1 + d2))) = E (-(s * d1)) * E (-(s * d2)) := by
        rw [show -(s * (d1 + d2)) = -(s * d1) + -(s * d2) by ring, hE.add]
      simp only [Term.conv, L_cons, L_nil, Term.L, pw_eq, hEE]; ring

theorem L_conv [DecidableEq K] (hE : IsExp E) (s : K) (f g : ExpPoly K)
    (hf : NonPole f s) (hg : NonPole g s) :
    L E (conv f g) s = L E f s * L E g s := by
  unfold conv
  induction f with
  | nil => simp
  | cons x f ih =>
    simp only [List.flatMap_cons, L_append, L_cons]
    rw [ih (NonPole.cons hf).2]
    have := L_flatMap E (fun y => Term.conv x y) (x.L E s) s s g (by
      intro y hy
      exact L_term_conv E hE s x y (NonPole.cons hf).1 (fun t ht => by simp at ht; subst ht; exact hg _ hy))
    rw [this]; ring

theorem L_integ [DecidableEq K] (hE : IsExp E) (s : K) (hs : s ≠ 0) (f : ExpPoly K) (hf : NonPole f s) :
    L E (integ f) s = L E f s / s := by
  unfold integ
  rw [L_conv E hE s f _ hf (fun t ht => by simp at ht; subst ht; simpa using hs)]
  simp [Term.L, pw_eq, hE.zero]; field_simp

end Lcapy.Laplace
