/-
  Analytic anchor for C02: on the regular part of a formal signal the formal derivative `deriv` (Model/ExpPoly.lean) is
  the classical derivative.  With `E = Real.exp`, at every instant that is not one of the signal's switching instants
  (the delays of its terms; for an undelayed response: every t ≠ 0),

        d/dt [evalAt f] (t) = evalAt (deriv f) t .

  (Only this file of C02 imports analysis from Mathlib.)
-/
import Lcapy.Proofs.TimeDomain
import Mathlib.Analysis.SpecialFunctions.ExpDeriv
import Mathlib.Analysis.Calculus.Deriv.Pow
namespace Lcapy.TD
open Lcapy.Laplace Filter Topology

theorem term_hasDerivAt (x : Term ℝ) (t : ℝ) (ht : t ≠ x.delayOf) :
    HasDerivAt (fun τ => x.at Real.exp τ) (evalAt Real.exp (Term.deriv x) t) t := by
  cases x with
  | dl c n d =>
    simp only [Term.at, Term.deriv, evalAt, add_zero]
    exact hasDerivAt_const t 0
  | ep c k p d =>
    simp only [Term.delayOf] at ht
    rcases lt_or_gt_of_ne ht with hlt | hgt
    · -- before the term starts: identically zero near t
      have hnot : ¬ d ≤ t := not_le.mpr hlt
      have hval : evalAt Real.exp (Term.deriv (.ep c k p d)) t = 0 := by
        cases k <;> simp [Term.deriv, evalAt, Term.at, hnot]
      rw [hval]
      have hev : (fun τ => (Term.ep c k p d).at Real.exp τ) =ᶠ[𝓝 t] fun _ => (0 : ℝ) := by
        filter_upwards [Iio_mem_nhds hlt] with τ hτ
        have : ¬ d ≤ τ := not_le.mpr hτ
        simp [Term.at, this]
      exact (hasDerivAt_const t (0 : ℝ)).congr_of_eventuallyEq hev
    · -- after the term has started: a smooth function near t
      have hle : d ≤ t := le_of_lt hgt
      have hev : (fun τ => (Term.ep c k p d).at Real.exp τ) =ᶠ[𝓝 t]
          fun τ => c * (τ - d) ^ k / (k.factorial : ℝ) * Real.exp (p * (τ - d)) := by
        filter_upwards [Ioi_mem_nhds hgt] with τ hτ
        have : d ≤ τ := le_of_lt hτ
        simp [Term.at, this, pw_eq, fact_eq]
      have hlin : HasDerivAt (fun τ : ℝ => τ - d) 1 t := (hasDerivAt_id t).sub_const d
      have hpow : HasDerivAt (fun τ : ℝ => (τ - d) ^ k) ((k : ℝ) * (t - d) ^ (k - 1) * 1) t := hlin.pow k
      have hexp : HasDerivAt (fun τ : ℝ => Real.exp (p * (τ - d))) (Real.exp (p * (t - d)) * (p * 1)) t :=
        (hlin.const_mul p).exp
      have hmain := ((hpow.const_mul c).div_const (k.factorial : ℝ)).mul hexp
      refine (hmain.congr_of_eventuallyEq ?_).congr_deriv ?_
      · exact hev
      · have hf : (k.factorial : ℝ) ≠ 0 := Nat.cast_ne_zero.mpr (Nat.factorial_ne_zero k)
        cases k with
        | zero => simp [Term.deriv, evalAt, Term.at, hle, pw, fact]; ring
        | succ k =>
          have hf1 : ((k + 1).factorial : ℝ) ≠ 0 := Nat.cast_ne_zero.mpr (Nat.factorial_ne_zero (k + 1))
          have hf0 : (k.factorial : ℝ) ≠ 0 := Nat.cast_ne_zero.mpr (Nat.factorial_ne_zero k)
          simp only [Term.deriv, evalAt, Term.at, hle, if_true, pw_eq, fact_eq, add_zero, Nat.add_sub_cancel]
          rw [Nat.factorial_succ]
          push_cast
          field_simp
          ring

/-- **The formal derivative is the classical derivative** away from the switching instants. -/
theorem evalAt_hasDerivAt (f : ExpPoly ℝ) (t : ℝ) (h : ∀ x ∈ f, t ≠ x.delayOf) :
    HasDerivAt (fun τ => evalAt Real.exp f τ) (evalAt Real.exp (Laplace.deriv f) t) t := by
  induction f with
  | nil => simpa [Laplace.deriv, evalAt] using hasDerivAt_const t (0 : ℝ)
  | cons x f ih =>
    have h1 := term_hasDerivAt x t (h x (by simp))
    have h2 := ih (fun y hy => h y (by simp [hy]))
    have := h1.add h2
    simp only [Laplace.deriv, List.flatMap_cons, evalAt_append] at this ⊢
    exact this

end Lcapy.TD
