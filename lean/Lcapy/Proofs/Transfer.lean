/-
  TRANSFER BASE between the arithmetic the native drivers execute and the fields the theorems speak about.

  The property theorems are stated over an arbitrary `[Field K]` (instantiated at ℚ, ℝ, ℂ).  The drivers
  instantiate the SAME polymorphic model functions at `CRat` (checked rationals) and `GQ` (checked Gaussian
  rationals), in which division by zero is an error value that propagates; these carriers are therefore NOT
  fields (`0⁻¹` is undefined rather than 0).  What links the two is proved here, operation by operation:

    * every `CRat` / `GQ` operation that returns a defined value returns the value of the corresponding field
      operation on the embedded operands (`ℚ`, resp. `ℂ` via re + im·i);
    * an operation is undefined exactly when an operand is undefined or a divisor is zero in the field.

  Consequently any straight-line composition of these operations (which is what a model function executed by a
  driver is) that returns a defined value returns the field value of the same expression, and it never silently
  uses Lean's totalised `x / 0 = 0`.  (A whole-program transfer theorem would need a reflection of the model
  functions as expression trees; it is not mechanised — the per-operation lemmas are the trusted link, and the
  results themselves are what the correspondence and the oracle compare.)
-/
import Lcapy.Model.GQ
import Mathlib.Data.Complex.Basic
import Mathlib.Tactic.Linarith
import Mathlib.Tactic.FieldSimp
import Mathlib.Tactic.Ring
import Mathlib.Tactic.LinearCombination
namespace Lcapy.Transfer

/-! ### CRat ↪ ℚ -/

theorem crat_ofRat (r : ℚ) : (CRat.ofRat r).v = some r := rfl

theorem crat_ofNat (n : ℕ) : (OfNat.ofNat n : CRat).v = some (n : ℚ) := rfl

theorem crat_add (a b : CRat) (r : ℚ) :
    (a + b).v = some r ↔ ∃ x y, a.v = some x ∧ b.v = some y ∧ r = x + y := by
  show (CRat.lift2 (· + ·) a b).v = some r ↔ _
  unfold CRat.lift2
  cases ha : a.v <;> cases hb : b.v <;> simp [eq_comm]

theorem crat_sub (a b : CRat) (r : ℚ) :
    (a - b).v = some r ↔ ∃ x y, a.v = some x ∧ b.v = some y ∧ r = x - y := by
  show (CRat.lift2 (· - ·) a b).v = some r ↔ _
  unfold CRat.lift2
  cases ha : a.v <;> cases hb : b.v <;> simp [eq_comm]

theorem crat_mul (a b : CRat) (r : ℚ) :
    (a * b).v = some r ↔ ∃ x y, a.v = some x ∧ b.v = some y ∧ r = x * y := by
  show (CRat.lift2 (· * ·) a b).v = some r ↔ _
  unfold CRat.lift2
  cases ha : a.v <;> cases hb : b.v <;> simp [eq_comm]

theorem crat_neg (a : CRat) (r : ℚ) : (-a).v = some r ↔ ∃ x, a.v = some x ∧ r = -x := by
  show (a.v.map (fun x => -x)) = some r ↔ _
  cases ha : a.v <;> simp [eq_comm]

/-- division is defined exactly when both operands are and the divisor is non-zero, and then it is the
    field quotient — never the totalised `x / 0 = 0` -/
theorem crat_div (a b : CRat) (r : ℚ) :
    (a / b).v = some r ↔ ∃ x y, a.v = some x ∧ b.v = some y ∧ y ≠ 0 ∧ r = x / y := by
  show (match a.v, b.v with
        | some x, some y => if y = 0 then (⟨none⟩ : CRat) else ⟨some (x / y)⟩
        | _, _ => ⟨none⟩).v = some r ↔ _
  cases ha : a.v <;> cases hb : b.v <;> simp
  rename_i x y
  by_cases hy : y = 0 <;> simp [hy, eq_comm]

theorem crat_div_undef_of_zero (a b : CRat) (hb : b.v = some 0) : (a / b).v = none := by
  show (match a.v, b.v with
        | some x, some y => if y = 0 then (⟨none⟩ : CRat) else ⟨some (x / y)⟩
        | _, _ => ⟨none⟩).v = none
  cases ha : a.v <;> simp [hb]

/-! ### GQ ↪ ℂ -/

/-- the complex number a pair of rationals denotes -/
noncomputable def toC (p : ℚ × ℚ) : ℂ := (p.1 : ℂ) + (p.2 : ℂ) * Complex.I

theorem toC_injective : Function.Injective toC := by
  rintro ⟨a, b⟩ ⟨c, d⟩ h
  have hre := congrArg Complex.re h
  have him := congrArg Complex.im h
  simp [toC] at hre him
  exact Prod.ext (by exact_mod_cast hre) (by exact_mod_cast him)

theorem toC_zero_iff (p : ℚ × ℚ) : toC p = 0 ↔ p.1 * p.1 + p.2 * p.2 = 0 := by
  obtain ⟨a, b⟩ := p
  constructor
  · intro h
    have hre := congrArg Complex.re h
    have him := congrArg Complex.im h
    simp [toC] at hre him
    have ha : a = 0 := by exact_mod_cast hre
    have hb : b = 0 := by exact_mod_cast him
    simp [ha, hb]
  · intro h
    have ha : a = 0 := by nlinarith [mul_self_nonneg a, mul_self_nonneg b]
    have hb : b = 0 := by nlinarith [mul_self_nonneg a, mul_self_nonneg b]
    simp [toC, ha, hb]

theorem gq_j : GQ.j.v.map toC = some Complex.I := by
  simp [GQ.j, toC]

theorem gq_ofRat (r : ℚ) : (GQ.ofRat r).v.map toC = some (r : ℂ) := by
  simp [GQ.ofRat, toC]

theorem gq_add (a b : GQ) (x y : ℚ × ℚ) (ha : a.v = some x) (hb : b.v = some y) :
    (a + b).v.map toC = some (toC x + toC y) := by
  show (GQ.lift2 _ a b).v.map toC = _
  simp [GQ.lift2, ha, hb, toC]; ring

theorem gq_sub (a b : GQ) (x y : ℚ × ℚ) (ha : a.v = some x) (hb : b.v = some y) :
    (a - b).v.map toC = some (toC x - toC y) := by
  show (GQ.lift2 _ a b).v.map toC = _
  simp [GQ.lift2, ha, hb, toC]; ring

theorem gq_mul (a b : GQ) (x y : ℚ × ℚ) (ha : a.v = some x) (hb : b.v = some y) :
    (a * b).v.map toC = some (toC x * toC y) := by
  show (GQ.lift2 _ a b).v.map toC = _
  simp only [GQ.lift2, ha, hb, toC, Option.map_some]
  congr 1
  push_cast
  ring_nf
  simp [Complex.I_sq]
  ring

theorem gq_neg (a : GQ) (x : ℚ × ℚ) (ha : a.v = some x) : (-a).v.map toC = some (-toC x) := by
  show (a.v.map _).map toC = _
  simp [ha, toC]; ring

/-- Gaussian-rational division is defined exactly when the divisor is non-zero IN ℂ, and then it is the
    complex quotient -/
theorem gq_div (a b : GQ) (x y : ℚ × ℚ) (ha : a.v = some x) (hb : b.v = some y) (hy : toC y ≠ 0) :
    (a / b).v.map toC = some (toC x / toC y) := by
  have hn : y.1 * y.1 + y.2 * y.2 ≠ 0 := fun h => hy ((toC_zero_iff y).mpr h)
  show (match a.v, b.v with
        | some x, some y =>
          let n := y.1 * y.1 + y.2 * y.2
          if n = 0 then (⟨none⟩ : GQ)
          else ⟨some ((x.1 * y.1 + x.2 * y.2) / n, (x.2 * y.1 - x.1 * y.2) / n)⟩
        | _, _ => ⟨none⟩).v.map toC = _
  simp only [ha, hb, hn, if_false, Option.map_some]
  congr 1
  rw [eq_div_iff hy]
  have hnC : ((y.1 : ℂ) * y.1 + (y.2 : ℂ) * y.2) ≠ 0 := by exact_mod_cast hn
  have key : ∀ N : ℂ, N ≠ 0 → N = (y.1 : ℂ) * y.1 + (y.2 : ℂ) * y.2 →
      (((x.1 : ℂ) * y.1 + x.2 * y.2) / N + ((x.2 : ℂ) * y.1 - x.1 * y.2) / N * Complex.I) *
        ((y.1 : ℂ) + y.2 * Complex.I) = (x.1 : ℂ) + x.2 * Complex.I := by
    intro N hN hNe
    field_simp
    rw [hNe]
    linear_combination ((x.2 : ℂ) * y.1 * y.2 - (x.1 : ℂ) * y.2 ^ 2) * Complex.I_sq
  simp only [toC]
  push_cast
  exact key _ hnC rfl

theorem gq_div_undef_of_zero (a b : GQ) (y : ℚ × ℚ) (hb : b.v = some y) (hy : toC y = 0) :
    (a / b).v = none := by
  have hn : y.1 * y.1 + y.2 * y.2 = 0 := (toC_zero_iff y).mp hy
  show (match a.v, b.v with
        | some x, some y =>
          let n := y.1 * y.1 + y.2 * y.2
          if n = 0 then (⟨none⟩ : GQ)
          else ⟨some ((x.1 * y.1 + x.2 * y.2) / n, (x.2 * y.1 - x.1 * y.2) / n)⟩
        | _, _ => ⟨none⟩).v = none
  cases ha : a.v <;> simp [hb, hn]

/-- `GQ` (like `CRat`) is deliberately not a field: zero has no inverse value at all -/
theorem gq_inv_zero_undefined : ((1 : GQ) / (0 : GQ)).v = none :=
  gq_div_undef_of_zero 1 0 (0, 0) rfl (by simp [toC])

theorem crat_inv_zero_undefined : ((1 : CRat) / (0 : CRat)).v = none :=
  crat_div_undef_of_zero 1 0 rfl

end Lcapy.Transfer
