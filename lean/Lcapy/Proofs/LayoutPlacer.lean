/-
  Lemmas for the model of Lcapy's graph placer (`Lcapy/Model/LayoutPlacer.lean`): `check_positions` decides the edge
  constraints, certificate of the longest path, `assign_longest` / `assign_fixed1` are exact, `prune` is sound, the even
  split of `assign_stretchy1`.  Used by Props/C20Placer.lean.
-/
import Mathlib.Tactic.Linarith
import Mathlib.Tactic.Ring
import Mathlib.Tactic.FieldSimp
import Mathlib.Algebra.Order.Field.Rat
import Lcapy.Model.LayoutPlacer
namespace Lcapy.Placer
open Lcapy.Layout
set_option linter.unusedSimpArgs false
set_option linter.unusedVariables false

/-- an edge holds on positions: both ends placed, `≥ size` when stretchy, `= size` when fixed -/
def SatE (pos : Pos) (e : GE) : Prop :=
  ∃ a b, aget pos e.src = some a ∧ aget pos e.dst = some b ∧ (if e.stretch then e.size ≤ b - a else b - a = e.size)

theorem checkPositions_nil_iff (g : PGraph) (pos : Pos) :
    checkPositions g pos = [] ↔ ∀ x ∈ g, ∀ e ∈ x.fedges, SatE pos e := by
  unfold checkPositions
  simp only [List.flatMap_eq_nil_iff, List.filterMap_eq_nil_iff]
  constructor
  · intro h x hx e he
    have := h x hx e he
    unfold SatE
    cases ha : aget pos e.src with
    | none => simp [ha] at this
    | some a =>
      cases hb : aget pos e.dst with
      | none => simp [ha, hb] at this
      | some b =>
        simp only [ha, hb] at this
        refine ⟨a, b, rfl, rfl, ?_⟩
        by_cases hs : e.stretch = true
        · simp only [hs, if_true] at this ⊢
          by_contra hlt
          simp [lt_of_not_ge hlt] at this
        · simp only [hs, if_false, Bool.false_eq_true] at this ⊢
          by_contra hne
          simp [hne] at this
  · intro h x hx e he
    obtain ⟨a, b, ha, hb, hc⟩ := h x hx e he
    simp only [ha, hb]
    by_cases hs : e.stretch = true
    · simp only [hs, if_true] at hc ⊢
      simp [not_lt.mpr hc]
    · simp only [hs, if_false, Bool.false_eq_true] at hc ⊢
      simp [hc]

/-- a walk of forward edges from `v` that stops at its first arrival at `dst` and avoids cut gnodes -/
def IsChain (g : PGraph) (pos : Pos) (src dst : String) : String → List GE → Prop
  | v, [] => v = dst
  | v, e :: q => v ≠ dst ∧ e ∈ g.fedgesOf v ∧ isCut pos src dst e.dst = false ∧ IsChain g pos src dst e.dst q

theorem chainB_iff (g : PGraph) (pos : Pos) (src dst : String) (v : String) (q : List GE) :
    chainB g pos src dst v q = true ↔ IsChain g pos src dst v q := by
  induction q generalizing v with
  | nil => simp [chainB, IsChain]
  | cons e q ih =>
    simp only [chainB, IsChain, Bool.and_eq_true, ih, bne_iff_ne, ne_eq, List.contains_iff_mem,
      Bool.not_eq_true', and_assoc]

theorem fedgesOf_mem_names (g : PGraph) (v : String) (e : GE) (h : e ∈ g.fedgesOf v) : v ∈ g.names := by
  unfold PGraph.fedgesOf PGraph.node? at h
  cases hf : g.find? (fun x => x.name == v) with
  | none => simp [hf] at h
  | some x =>
    have h1 := List.mem_of_find?_eq_some hf
    have h2 := List.find?_some hf
    simp only [beq_iff_eq] at h2
    unfold PGraph.names
    exact List.mem_map.2 ⟨x, h1, h2⟩

/-- **soundness of the longest-path certificate**: labels that pass `lpCert` dominate the length of EVERY walk to the
    target (any graph, any number of gnodes and edges) -/
theorem lpCert_bound (g : PGraph) (pos : Pos) (src dst : String) (d : List (String × Rat))
    (hc : lpCert g pos src dst d = true) (v : String) (q : List GE) (hq : IsChain g pos src dst v q)
    (hv : (aget d v).isSome = true) : ∃ x, aget d v = some x ∧ pathDist q ≤ x ∧ 0 ≤ x := by
  unfold lpCert at hc
  simp only [Bool.and_eq_true, beq_iff_eq, List.all_eq_true] at hc
  obtain ⟨h0, hall⟩ := hc
  induction q generalizing v with
  | nil =>
    simp only [IsChain] at hq
    subst hq
    exact ⟨0, h0, by simp [pathDist], le_refl _⟩
  | cons e q ih =>
    obtain ⟨hne, he, hcut, hrest⟩ := hq
    obtain ⟨x, hx⟩ := Option.isSome_iff_exists.1 hv
    have hvn := fedgesOf_mem_names g v e he
    have := hall v hvn
    simp only [hx, Bool.or_eq_true, beq_iff_eq, hne, false_or, List.all_eq_true, Bool.and_eq_true,
      decide_eq_true_eq] at this
    obtain ⟨⟨hsz, hlab⟩, hdom⟩ := this e he
    have hlab' : (aget d e.dst).isSome = true := by
      rcases hlab with h | h
      · exact h
      · rw [hcut] at h; exact absurd h (by simp)
    obtain ⟨y, hy, hyq, hy0⟩ := ih e.dst hrest hlab'
    simp only [hy, Bool.or_eq_true, decide_eq_true_eq] at hdom
    have hdom' : y + e.size ≤ x := by
      rcases hdom with h | h
      · exact absurd h (not_lt.mpr hy0)
      · exact h
    refine ⟨x, hx, ?_, by linarith⟩
    simp only [pathDist, List.map_cons, List.sum_cons] at hyq ⊢
    linarith

/-- **`longest_path` returns a longest path** whenever its result passes the certificate: the returned path is a genuine
    walk `src → dst` and no walk `src → dst` (through gnodes of unknown position) is longer -/
theorem longestPathCert_max (g : PGraph) (pos : Pos) (src dst : String) (p : List GE)
    (h : longestPathCert g pos src dst = .ok (p, true)) :
    IsChain g pos src dst src p ∧ ∀ q, IsChain g pos src dst src q → pathDist q ≤ pathDist p := by
  unfold longestPathCert at h
  cases ht : traverse g pos src dst 1002 ⟨[], []⟩ src with
  | error m => simp [ht] at h
  | ok r =>
    obtain ⟨x0, ds⟩ := r
    simp only [ht] at h
    cases hm : makepath ds.next (g.length + 1) src with
    | error m => simp [hm] at h
    | ok p' =>
      simp only [hm, Except.ok.injEq, Prod.mk.injEq, Bool.and_eq_true, beq_iff_eq] at h
      obtain ⟨rfl, ⟨hcert, hchain⟩, hlen⟩ := h
      refine ⟨(chainB_iff g pos src dst src p').1 hchain, fun q hq => ?_⟩
      obtain ⟨x, hx, hle, _⟩ := lpCert_bound g pos src dst ds.dist hcert src q hq (by simp [hlen])
      rw [hlen] at hx
      simp only [Option.some.injEq] at hx
      rw [hx]; exact hle

/-! ### positions are only ever added (`Gnode.pos` cannot be changed) -/

theorem aget_append_some {β : Type} (m : List (String × β)) (k n : String) (v y : β) (h : aget m k = some y) :
    aget (m ++ [(n, v)]) k = some y := by
  unfold aget at h ⊢
  rw [List.find?_append]
  cases hf : List.find? (fun e => e.1 == k) m with
  | none => simp [hf] at h
  | some e => simpa [hf] using h

theorem aget_append_self {β : Type} (m : List (String × β)) (n : String) (v : β) (h : aget m n = none) :
    aget (m ++ [(n, v)]) n = some v := by
  unfold aget at h ⊢
  rw [List.find?_append]
  cases hf : List.find? (fun e => e.1 == n) m with
  | none => simp [hf]
  | some e => simp [hf] at h

theorem setPos_ok {pos pos' : Pos} {n : String} {x : Rat} (h : setPos pos n x = .ok pos') :
    aget pos n = none ∧ pos' = pos ++ [(n, x)] := by
  unfold setPos at h
  split at h
  · simp at h
  · rename_i hn
    simp only [Except.ok.injEq] at h
    exact ⟨by simpa using hn, h.symm⟩

theorem setPos_self {pos pos' : Pos} {n : String} {x : Rat} (h : setPos pos n x = .ok pos') : aget pos' n = some x := by
  obtain ⟨h1, rfl⟩ := setPos_ok h
  exact aget_append_self pos n x h1

theorem setPos_mono {pos pos' : Pos} {n : String} {x : Rat} (h : setPos pos n x = .ok pos') (m : String) (y : Rat)
    (hm : aget pos m = some y) : aget pos' m = some y := by
  obtain ⟨_, rfl⟩ := setPos_ok h
  exact aget_append_some pos m n x y hm

/-- consecutive edges of a path share a gnode -/
def Consecutive : List GE → Prop
  | [] => True
  | [_] => True
  | e :: e' :: r => e.dst = e'.src ∧ Consecutive (e' :: r)

theorem go_spec (p : List GE) (hp : p ≠ []) (hc : Consecutive p) (x : Rat) (st st' : St)
    (h : assignLongest.go p x st = .ok st') :
    (∀ m y, aget st.pos m = some y → aget st'.pos m = some y) ∧
    (∃ e0, p.head? = some e0 ∧ aget st'.pos e0.src = some x) ∧
    ∀ e ∈ p, ∃ a, aget st'.pos e.src = some a ∧ aget st'.pos e.dst = some (a + e.size) := by
  induction p generalizing x st with
  | nil => exact absurd rfl hp
  | cons e rest ih =>
    cases rest with
    | nil =>
      simp only [assignLongest.go, bind, Except.bind, pure, Except.pure] at h
      cases h1 : setPos st.pos e.src x with
      | error m => simp [h1] at h
      | ok pos1 =>
        simp only [h1] at h
        cases h2 : remove st.unknown e.src with
        | error m => simp [h2] at h
        | ok u1 =>
          simp only [h2] at h
          cases h3 : setPos pos1 e.dst (x + e.size) with
          | error m => simp [h3] at h
          | ok pos2 =>
            simp only [h3] at h
            cases h4 : remove u1 e.dst with
            | error m => simp [h4] at h
            | ok u2 =>
              simp only [h4, Except.ok.injEq] at h
              subst h
              refine ⟨fun m y hm => setPos_mono h3 m y (setPos_mono h1 m y hm), ⟨e, rfl, ?_⟩, ?_⟩
              · exact setPos_mono h3 _ _ (setPos_self h1)
              · intro e' he'
                simp only [List.mem_singleton] at he'
                subst he'
                exact ⟨x, setPos_mono h3 _ _ (setPos_self h1), setPos_self h3⟩
    | cons e' r =>
      simp only [assignLongest.go, bind, Except.bind] at h
      cases h1 : setPos st.pos e.src x with
      | error m => simp [h1] at h
      | ok pos1 =>
        simp only [h1] at h
        cases h2 : remove st.unknown e.src with
        | error m => simp [h2] at h
        | ok u1 =>
          simp only [h2] at h
          obtain ⟨hd, hc'⟩ := hc
          obtain ⟨hm, ⟨e0, he0, hx0⟩, hall⟩ := ih (by simp) hc' (x + e.size) ⟨pos1, u1⟩ h
          simp only [List.head?_cons, Option.some.injEq] at he0
          subst he0
          refine ⟨fun m y hmy => hm m y (setPos_mono h1 m y hmy), ⟨e, rfl, hm _ _ (setPos_self h1)⟩, ?_⟩
          intro e1 he1
          simp only [List.mem_cons] at he1
          rcases he1 with rfl | he1
          · exact ⟨x, hm _ _ (setPos_self h1), by rw [hd]; exact hx0⟩
          · exact hall e1 (by simpa using he1)

/-- **`assign_longest`**: every edge of the longest path is drawn with exactly its size (the positions are the
    distances along the path); a path that visits a gnode twice makes the code raise (`Changing node pos`) -/
theorem assignLongest_exact (p : List GE) (hc : Consecutive p) (st st' : St) (h : assignLongest p st = .ok st') :
    ∀ e ∈ p, ∃ a, aget st'.pos e.src = some a ∧ aget st'.pos e.dst = some (a + e.size) := by
  unfold assignLongest at h
  cases p with
  | nil => simp at h
  | cons e rest => exact (go_spec (e :: rest) (by simp) hc 0 st st' h).2.2

/-- **`assign_fixed1`**: a gnode placed by a fixed edge lies at exactly that edge's size from the known gnode -/
theorem assignFixed1_exact (g : PGraph) (pos : Pos) (n : String) (x : Rat) (h : assignFixed1 g pos n = some x) :
    (∃ e ∈ g.fedgesOf n, e.stretch = false ∧ ∃ b, aget pos e.dst = some b ∧ b - x = e.size) ∨
    (∃ e ∈ g.redgesOf n, e.stretch = false ∧ ∃ b, aget pos e.dst = some b ∧ x - b = e.size) := by
  unfold assignFixed1 at h
  cases hf : (g.fedgesOf n).find? (fun e => !e.stretch && (aget pos e.dst).isSome && e.dst != "end") with
  | some e =>
    simp only [hf, Option.map_eq_some_iff] at h
    obtain ⟨b, hb, rfl⟩ := h
    have hm := List.mem_of_find?_eq_some hf
    have hp := List.find?_some hf
    simp only [Bool.and_eq_true, Bool.not_eq_true'] at hp
    exact Or.inl ⟨e, hm, hp.1.1, b, hb, by ring⟩
  | none =>
    simp only [hf] at h
    cases hr : (g.redgesOf n).find? (fun e => !e.stretch && (aget pos e.dst).isSome && e.dst != "start") with
    | some e =>
      simp only [hr, Option.map_eq_some_iff] at h
      obtain ⟨b, hb, rfl⟩ := h
      have hm := List.mem_of_find?_eq_some hr
      have hp := List.find?_some hr
      simp only [Bool.and_eq_true, Bool.not_eq_true'] at hp
      exact Or.inr ⟨e, hm, hp.1.1, b, hb, by ring⟩
    | none => simp [hr] at h

/-! ### the even split of `assign_stretchy1` -/

theorem pathStretches_cons (e : GE) (p : List GE) :
    ((pathStretches (e :: p) : Nat) : Rat) = (if e.stretch then 1 else 0) + (pathStretches p : Rat) := by
  unfold pathStretches
  by_cases h : e.stretch = true
  · simp [List.filter, h]; ring
  · simp [List.filter, h]

/-- where a walk ends: start + sizes + (number of stretchy edges)·stretch, whatever is assigned on the way -/
theorem walkAssign_end (which : GE → String) (s : Rat) (p : List GE) (x : Rat) (st : St) (x' : Rat) (st' : St)
    (h : walkAssign which s p x st = .ok (x', st')) :
    x' = x + pathDist p + (pathStretches p : Rat) * s := by
  induction p generalizing x st with
  | nil =>
    simp only [walkAssign, Except.ok.injEq, Prod.mk.injEq] at h
    simp [pathDist, pathStretches, h.1]
  | cons e rest ih =>
    simp only [walkAssign] at h
    have key : ∀ st1, walkAssign which s rest (x + e.size + (if e.stretch then s else 0)) st1 = .ok (x', st') →
        x' = x + pathDist (e :: rest) + (pathStretches (e :: rest) : Rat) * s := by
      intro st1 h1
      have := ih _ st1 h1
      rw [this, pathStretches_cons]
      simp only [pathDist, List.map_cons, List.sum_cons]
      by_cases hs : e.stretch = true <;> simp [hs] <;> ring
    split at h
    · split at h
      · exact key _ h
      · simp at h
      · simp at h
    · exact key _ h

/-- the even split closes the gap exactly (the walk arrives at the known gnode's position) iff
    `n·(W − E) = (n − m)·(sep − E)`, where `E`, `n` are extent and number of stretchy edges of the LONGEST path between the
    two known gnodes and `W`, `m` those of the path the positions are assigned along.  In particular it closes when the
    walk is itself a longest path with as many stretchy edges; when the walk is shorter or has fewer stretchy edges than
    the longest path and there is slack, it does not: the last edge is drawn with a wrong length (finding C20-F20b). -/
theorem evenSplit_closes_iff (fp tp E W : Rat) (n m : Nat) (hn : 0 < n) :
    fp + W + (m : Rat) * ((tp - fp - E) / (n : Rat)) = tp ↔ (n : Rat) * (W - E) = ((n : Rat) - (m : Rat)) * (tp - fp - E) := by
  have hn' : (n : Rat) ≠ 0 := by exact_mod_cast (Nat.pos_iff_ne_zero.mp hn)
  constructor
  · intro h
    field_simp at h
    linarith
  · intro h
    field_simp
    linarith

theorem keysOf_mem (edges : List GE) (e : GE) (h : e ∈ edges) : (e.src, e.dst) ∈ keysOf edges := by
  unfold keysOf
  have gen : ∀ (l : List GE) (acc : List (String × String)),
      ((e.src, e.dst) ∈ acc ∨ e ∈ l) →
      (e.src, e.dst) ∈ l.foldl (fun acc e => if acc.contains (e.src, e.dst) then acc else acc ++ [(e.src, e.dst)]) acc := by
    intro l
    induction l with
    | nil => intro acc h; simpa using h
    | cons a l ih =>
      intro acc h
      simp only [List.foldl_cons]
      apply ih
      rcases h with h | h
      · left
        split
        · exact h
        · exact List.mem_append_left _ h
      · simp only [List.mem_cons] at h
        rcases h with rfl | h
        · left
          split
          · rename_i hc; simpa using hc
          · simp
        · exact Or.inr h
  exact gen edges [] (Or.inr h)

theorem foldMax_spec (e0 : GE) (l : List GE) (b0 : GE) (s0 : Rat) (h0 : 0 ≤ s0) :
    let r := l.foldl (fun (bs : GE × Rat) e => if e.size > bs.2 then (e, e.size) else bs) (b0, s0)
    ((r.1 = b0 ∧ r.2 = s0) ∨ (r.1 ∈ l ∧ r.2 = r.1.size)) ∧ (∀ e ∈ l, e.size ≤ r.2) ∧ s0 ≤ r.2 := by
  induction l generalizing b0 s0 with
  | nil => simp
  | cons a l ih =>
    simp only [List.foldl_cons]
    by_cases ha : a.size > s0
    · simp only [ha, if_true]
      have := ih a a.size (by linarith)
      obtain ⟨h1, h2, h3⟩ := this
      refine ⟨?_, ?_, by linarith⟩
      · rcases h1 with ⟨h1a, h1b⟩ | ⟨h1a, h1b⟩
        · right; exact ⟨by rw [h1a]; simp, by rw [h1a, h1b]⟩
        · right; exact ⟨List.mem_cons_of_mem _ h1a, h1b⟩
      · intro e he
        simp only [List.mem_cons] at he
        rcases he with rfl | he
        · exact h3
        · exact h2 e he
    · simp only [ha, if_false]
      have := ih b0 s0 h0
      obtain ⟨h1, h2, h3⟩ := this
      refine ⟨?_, ?_, h3⟩
      · rcases h1 with h1 | ⟨h1a, h1b⟩
        · left; exact h1
        · right; exact ⟨List.mem_cons_of_mem _ h1a, h1b⟩
      · intro e he
        simp only [List.mem_cons] at he
        rcases he with rfl | he
        · linarith [not_lt.mp ha]
        · exact h2 e he

/-- what `pickBest` keeps of a group of parallel edges -/
theorem pickBest_spec (grp : List GE) (hne : grp ≠ []) (hpos : ∀ e ∈ grp, 0 < e.size) :
    ∃ b, pickBest grp = some b ∧ b ∈ grp ∧
      ((b.stretch = false ∧ grp.find? (fun e => !e.stretch) = some b) ∨
       ((∀ e ∈ grp, e.stretch = true) ∧ ∀ e ∈ grp, e.size ≤ b.size)) := by
  cases grp with
  | nil => exact absurd rfl hne
  | cons e0 rest =>
    unfold pickBest
    cases hf : (e0 :: rest).find? (fun e => !e.stretch) with
    | some f =>
      have hm := List.mem_of_find?_eq_some hf
      have hp := List.find?_some hf
      exact ⟨f, rfl, hm, Or.inl ⟨by simpa using hp, rfl⟩⟩
    | none =>
      simp only
      have hall : ∀ e ∈ e0 :: rest, e.stretch = true := by
        intro e he
        have := List.find?_eq_none.1 hf e he
        simpa using this
      obtain ⟨h1, h2, h3⟩ := foldMax_spec e0 (e0 :: rest) e0 0 (le_refl _)
      refine ⟨_, rfl, ?_, Or.inr ⟨hall, ?_⟩⟩
      · rcases h1 with ⟨h1a, h1b⟩ | ⟨h1a, _⟩
        · rw [h1a]; simp
        · exact h1a
      · rcases h1 with ⟨h1a, h1b⟩ | ⟨h1a, h1b⟩
        · exfalso
          have := h2 e0 (by simp)
          have := hpos e0 (by simp)
          linarith
        · intro e he; rw [← h1b]; exact h2 e he

/-- **`prune` is sound**: if no `grizzle` message is printed and the kept edges hold, every original parallel edge holds -/
theorem pruneList_sound (E : List GE) (pos : Pos) (hpos : ∀ e ∈ E, 0 < e.size) (hg : grizzleList E = [])
    (hs : ∀ b ∈ pruneList E, SatE pos b) : ∀ e ∈ E, SatE pos e := by
  intro e he
  unfold pruneList at hs
  unfold grizzleList at hg
  by_cases hlen : E.length < 2
  · simp only [hlen, if_true] at hs; exact hs e he
  · simp only [hlen, if_false] at hs hg
    set grp := E.filter (fun x => x.src == e.src && x.dst == e.dst) with hgrp
    have hegrp : e ∈ grp := by simp [hgrp, he]
    have hsub : ∀ x ∈ grp, x ∈ E ∧ x.src = e.src ∧ x.dst = e.dst := by
      intro x hx
      simp only [hgrp, List.mem_filter, Bool.and_eq_true, beq_iff_eq] at hx
      exact ⟨hx.1, hx.2.1, hx.2.2⟩
    obtain ⟨b, hb, hbm, hcase⟩ := pickBest_spec grp (List.ne_nil_of_mem hegrp) (fun x hx => hpos x (hsub x hx).1)
    have hkey := keysOf_mem E e he
    have hbin : b ∈ (keysOf E).filterMap (fun k => pickBest (E.filter (fun x => x.src == k.1 && x.dst == k.2))) :=
      List.mem_filterMap.2 ⟨(e.src, e.dst), hkey, hb⟩
    obtain ⟨a, c, ha, hc, hcond⟩ := hs b hbin
    obtain ⟨_, hbs, hbd⟩ := hsub b hbm
    rw [hbs] at ha
    rw [hbd] at hc
    refine ⟨a, c, ha, hc, ?_⟩
    rcases hcase with ⟨hbfix, hfind⟩ | ⟨hall, hmax⟩
    · -- a fixed edge is kept: no grizzle message about `e`
      simp only [hbfix, Bool.false_eq_true, if_false] at hcond
      have hgk := (List.flatMap_eq_nil_iff.1 hg) (e.src, e.dst) hkey
      simp only [← hgrp] at hgk
      by_cases hl2 : grp.length < 2
      · -- the group is `[e]`, so `b = e`
        have : b = e := by
          match grp, hl2, hegrp, hbm with
          | [x], _, h1, h2 =>
            simp only [List.mem_singleton] at h1 h2
            rw [h1, h2]
        subst this
        simp only [hbfix, Bool.false_eq_true, if_false]; exact hcond
      · simp only [hl2, if_false, hfind] at hgk
        have hgke := (List.filterMap_eq_nil_iff.1 hgk) e hegrp
        by_cases hes : e.stretch = true
        · simp only [hes, if_true]
          simp only [hes, Bool.not_true, Bool.and_false, Bool.false_eq_true, if_false] at hgke
          by_cases hgt : e.size > b.size
          · simp [hgt] at hgke
          · linarith [not_lt.mp hgt]
        · simp only [hes, if_false, Bool.false_eq_true]
          have hes' : e.stretch = false := by simpa using hes
          simp only [hes', Bool.not_false, Bool.and_true] at hgke
          by_cases hne : e.size = b.size
          · rw [hne]; exact hcond
          · have : (e.size != b.size) = true := by simpa using hne
            simp [this] at hgke
    · have hes := hall e hegrp
      have hbs' := hall b hbm
      simp only [hbs', if_true] at hcond
      simp only [hes, if_true]
      linarith [hmax e hegrp]

/-! ### the dummy gnodes are added without touching the existing forward edges -/

/-- `e` is a forward edge of some gnode -/
def HasF (g : PGraph) (e : GE) : Prop := ∃ x ∈ g, e ∈ x.fedges

theorem updNode_hasF (g : PGraph) (n : String) (f : GN → GN) (e : GE) (hf : ∀ x, ∀ e ∈ x.fedges, e ∈ (f x).fedges)
    (h : HasF g e) : HasF (updNode g n f) e := by
  obtain ⟨x, hx, he⟩ := h
  unfold updNode
  by_cases hn : (x.name == n) = true
  · exact ⟨f x, List.mem_map.2 ⟨x, hx, by simp [hn]⟩, hf x e he⟩
  · exact ⟨x, List.mem_map.2 ⟨x, hx, by simp [hn]⟩, he⟩

theorem addEdges_hasF (g : PGraph) (cpt n1 n2 : String) (size : Rat) (st : Bool) (e : GE) (h : HasF g e) :
    HasF (addEdges g cpt n1 n2 size st) e := by
  unfold addEdges
  apply updNode_hasF
  · intro x e he; split <;> exact he
  · apply updNode_hasF
    · intro x e he
      split
      · exact he
      · exact List.mem_append_left _ he
    · exact h

theorem addStartNodes_hasF (g : PGraph) (e : GE) (h : HasF g e) : HasF (addStartNodes g) e := by
  unfold addStartNodes
  split
  · exact h
  · have h1 : HasF (g ++ [⟨"start", [], []⟩, ⟨"end", [], []⟩]) e := by
      obtain ⟨x, hx, he⟩ := h
      exact ⟨x, List.mem_append_left _ hx, he⟩
    have gen : ∀ (names : List String) (g' : PGraph), HasF g' e →
        HasF (names.foldl (fun g n =>
          let g := if (g.redgesOf n).isEmpty && n != "start" then addEdges g "" "start" n 0 true else g
          if (g.fedgesOf n).isEmpty && n != "end" then addEdges g "" n "end" 0 true else g) g') e := by
      intro names
      induction names with
      | nil => intro g' h'; exact h'
      | cons n rest ih =>
        intro g' h'
        simp only [List.foldl_cons]
        apply ih
        have h2 : HasF (if (g'.redgesOf n).isEmpty && n != "start" then addEdges g' "" "start" n 0 true else g') e := by
          split
          · exact addEdges_hasF _ _ _ _ _ _ _ h'
          · exact h'
        revert h2
        generalize (if (g'.redgesOf n).isEmpty && n != "start" then addEdges g' "" "start" n 0 true else g') = G1
        intro h2
        show HasF (if (G1.fedgesOf n).isEmpty && n != "end" then addEdges G1 "" n "end" 0 true else G1) e
        split
        · exact addEdges_hasF _ _ _ _ _ _ _ h2
        · exact h2
    exact gen _ _ h1

theorem prune_hasF (g0 : PGraph) (x : GN) (hx : x ∈ g0) (b : GE) (hb : b ∈ pruneList x.fedges) : HasF (prune g0) b := by
  unfold prune
  exact ⟨_, List.mem_map.2 ⟨x, hx, rfl⟩, hb⟩

end Lcapy.Placer
