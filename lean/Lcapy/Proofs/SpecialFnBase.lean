/-
  C17 -- proof helpers: the case-splitting tactic for piecewise-rational definitions and the
  parity facts needed for psinc at integer points.
-/
import Mathlib.Tactic.Linarith
import Mathlib.Tactic.SplitIfs
import Mathlib.Tactic.NormNum
import Mathlib.Tactic.FieldSimp
import Mathlib.Tactic.Ring
import Mathlib.Algebra.Order.Field.Rat
import Lcapy.Model.Evaluate

namespace Lcapy.C17
open Lcapy.EvalBase

/-- close a goal about piecewise-rational definitions: split every `if`, normalise, linear arithmetic -/
macro "pw_arith" : tactic =>
  `(tactic| first
    | trivial
    | ((try split_ifs) <;>
      (try simp only [oadd, osub, omul, odiv, oneg, Option.some.injEq, reduceCtorEq, not_lt, not_le, not_or,
                      not_and, ne_eq, Option.getD_some, Option.getD_none, not_true_eq_false, not_false_eq_true,
                      and_true, true_and, if_true, if_false, ite_true, ite_false] at *) <;>
      (first | trivial | rfl | linarith | (exfalso; linarith)
             | (norm_num at * <;> first | linarith | (exfalso; linarith)) | grind)))

end Lcapy.C17

namespace Lcapy.C17
open Lcapy.EvalBase Lcapy.Evaluate

/-! ### integer-valued rationals -/

theorem int_of_den_one (x : Rat) (h : x.den = 1) : ∃ n : Int, x = (n : Rat) :=
  ⟨x.num, ((Rat.den_eq_one_iff x).mp h).symm⟩

theorem isInt_iff (x : Rat) : isInt x = true ↔ x.den = 1 := by simp [isInt]

theorem specIsInt_iff (x : Rat) : Lcapy.Spec.SpecialFn.isInt x = true ↔ x.den = 1 := by
  simp [Lcapy.Spec.SpecialFn.isInt]

/-- product of integer rationals, as used in the exponent of `psinc` -/
theorem int_mul_pred (n m : Int) :
    (((n : Rat) * ((m : Rat) - 1)).den = 1) ∧ (((n : Rat) * ((m : Rat) - 1)).num = n * (m - 1)) := by
  have : (n : Rat) * ((m : Rat) - 1) = ((n * (m - 1) : Int) : Rat) := by push_cast; ring
  rw [this]; exact ⟨Rat.den_intCast _, Rat.num_intCast _⟩

theorem int_pred (m : Int) : (((m : Rat) - 1).den = 1) ∧ (((m : Rat) - 1).num = m - 1) := by
  have : (m : Rat) - 1 = ((m - 1 : Int) : Rat) := by push_cast; ring
  rw [this]; exact ⟨Rat.den_intCast _, Rat.num_intCast _⟩

theorem mul_emod_two_of_even (n k : Int) (h : n % 2 = 0) : (n * k) % 2 = 0 := by
  rw [Int.mul_emod, h]; simp

theorem mul_emod_two_of_odd (n k : Int) (h : n % 2 ≠ 0) : (n * k) % 2 = k % 2 := by
  have h1 : n % 2 = 1 := by omega
  rw [Int.mul_emod, h1]; simp

/-! ### outcomes -/

theorem arith2_ne_other (f : Rat → Rat → Rat) (a b : Out) (ha : a ≠ .other) (hb : b ≠ .other) :
    arith2 f a b ≠ .other := by
  cases a <;> cases b <;> simp_all [arith2]

theorem arith1_ne_other (f : Rat → Rat) (a : Out) (ha : a ≠ .other) : arith1 f a ≠ .other := by
  cases a <;> simp_all [arith1]

theorem divOut_ne_other (a b : Out) (ha : a ≠ .other) (hb : b ≠ .other) (hz : b ≠ .val 0) :
    divOut a b ≠ .other := by
  cases a <;> cases b <;> simp_all [divOut]

theorem select_eager_eq_lazy (r : Rel) (a b : Rat) (t e : Out) (ht : t ≠ .other) (he : e ≠ .other) :
    selectEager r (.val a) (.val b) t e = selectLazy r (.val a) (.val b) (fun _ => t) (fun _ => e) := by
  simp [selectEager, selectLazy, ht, he]

end Lcapy.C17
