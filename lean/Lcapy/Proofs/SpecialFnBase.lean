/-
  C17 -- proof helpers: the case-splitting tactic for piecewise-rational definitions and the
  parity facts needed for psinc at integer points.
-/
import Mathlib.Tactic.Linarith
import Mathlib.Tactic.SplitIfs
import Mathlib.Tactic.NormNum
import Mathlib.Tactic.FieldSimp
import Mathlib.Tactic.Ring
import Mathlib.Algebra.Order.Field.Rat
import Lcapy.Model.Evaluate

namespace Lcapy.C17
open Lcapy.EvalBase

/-- close a goal about piecewise-rational definitions: split every `if`, normalise, linear arithmetic -/
macro "pw_arith" : tactic =>
  `(tactic| first
    | trivial
    | ((try split_ifs) <;>
      (try simp only [oadd, osub, omul, odiv, oneg, Option.some.injEq, reduceCtorEq, not_lt, not_le, not_or,
                      not_and, ne_eq, Option.getD_some, Option.getD_none, not_true_eq_false, not_false_eq_true,
                      and_true, true_and, if_true, if_false, ite_true, ite_false] at *) <;>
      (first | trivial | rfl | linarith | (exfalso; linarith)
             | (norm_num at * <;> first | linarith | (exfalso; linarith)) | grind)))

end Lcapy.C17

namespace Lcapy.C17
open Lcapy.EvalBase Lcapy.Evaluate

/-! ### integer-valued rationals -/

theorem int_of_den_one (x : Rat) (h : x.den = 1) : ∃ n : Int, x = (n : Rat) :=
  ⟨x.num, ((Rat.den_eq_one_iff x).mp h).symm⟩

theorem isInt_iff (x : Rat) : isInt x = true ↔ x.den = 1 := by simp [isInt]

theorem specIsInt_iff (x : Rat) : Lcapy.Spec.SpecialFn.isInt x = true ↔ x.den = 1 := by
  simp [Lcapy.Spec.SpecialFn.isInt]

/-- product of integer rationals, as used in the exponent of `psinc` -/
theorem int_mul_pred (n m : Int) :
    (((n : Rat) * ((m : Rat) - 1)).den = 1) ∧ (((n : Rat) * ((m : Rat) - 1)).num = n * (m - 1)) := by
  have : (n : Rat) * ((m : Rat) - 1) = ((n * (m - 1) : Int) : Rat) := by push_cast; ring
  rw [this]; exact ⟨Rat.den_intCast _, Rat.num_intCast _⟩

theorem int_pred (m : Int) : (((m : Rat) - 1).den = 1) ∧ (((m : Rat) - 1).num = m - 1) := by
  have : (m : Rat) - 1 = ((m - 1 : Int) : Rat) := by push_cast; ring
  rw [this]; exact ⟨Rat.den_intCast _, Rat.num_intCast _⟩

theorem mul_emod_two_of_even (n k : Int) (h : n % 2 = 0) : (n * k) % 2 = 0 := by
  rw [Int.mul_emod, h]; simp

theorem mul_emod_two_of_odd (n k : Int) (h : n % 2 ≠ 0) : (n * k) % 2 = k % 2 := by
  have h1 : n % 2 = 1 := by omega
  rw [Int.mul_emod, h1]; simp

/-! ### outcomes -/

theorem arith2_ne_other (f : Rat → Rat → Rat) (a b : Out) (ha : a ≠ .other) (hb : b ≠ .other) :
    arith2 f a b ≠ .other := by
  cases a <;> cases b <;> simp_all [arith2]

theorem arith1_ne_other (f : Rat → Rat) (a : Out) (ha : a ≠ .other) : arith1 f a ≠ .other := by
  cases a <;> simp_all [arith1]

theorem divOut_ne_other (a b : Out) (ha : a ≠ .other) (hb : b ≠ .other) (hz : b ≠ .val 0) :
    divOut a b ≠ .other := by
  cases a <;> cases b <;> simp_all [divOut]

theorem select_eager_eq_lazy (r : Rel) (a b : Rat) (t e : Out) (ht : t ≠ .other) (he : e ≠ .other) :
    selectEager r (.val a) (.val b) t e = selectLazy r (.val a) (.val b) (fun _ => t) (fun _ => e) := by
  simp [selectEager, selectLazy, ht, he]

/-! ### helpers for the property theorems -/

open Lcapy.Spec.SpecialFn (Fn spec disc inDomain) in
section
namespace S
export Lcapy.Spec.SpecialFn (heaviside unitstep unitimpulse)
end S

theorem trap_linear (x a : Rat) (ha : a ≠ 0) : 1 / 2 - (x - 1 / 2) / a = ((1 + a) / 2 - x) / a := by
  field_simp; ring

theorem causalFn_neg (f : Fn) (y : Rat) (hf : isCausalFn f = true) (hy : y < 0) : spec f y = some 0 := by
  have hy0 : y ≠ 0 := ne_of_lt hy
  cases f <;> simp_all [isCausalFn, spec, S.heaviside, S.unitstep, S.unitimpulse]

theorem prod_val (t : List Factor) (x : Rat) (h : ∀ f ∈ t, ∃ v, specEval f.toE x = .val v) :
    ∃ v, specEval (prodE t) x = .val v := by
  induction t with
  | nil => exact ⟨1, rfl⟩
  | cons f rest ih =>
    obtain ⟨v, hv⟩ := h f (List.mem_cons_self ..)
    obtain ⟨w, hw⟩ := ih (fun g hg => h g (List.mem_cons_of_mem _ hg))
    exact ⟨v * w, by simp [prodE, specEval, hv, hw, arith2]⟩

theorem causal_term_zero (t : List Factor) (x : Rat) (hx : x < 0)
    (hv : ∀ f ∈ t, ∃ v, specEval f.toE x = .val v) (hc : hasCausalFactor t = true) :
    specEval (prodE t) x = .val 0 := by
  induction t with
  | nil => simp [hasCausalFactor] at hc
  | cons f rest ih =>
    obtain ⟨w, hw⟩ := prod_val rest x (fun g hg => hv g (List.mem_cons_of_mem _ hg))
    have hrest := fun h => ih (fun g hg => hv g (List.mem_cons_of_mem _ hg)) h
    obtain ⟨v, hfv⟩ := hv f (List.mem_cons_self ..)
    have tail : hasCausalFactor rest = true → specEval (prodE (f :: rest)) x = .val 0 := by
      intro h
      simp [prodE, specEval, hfv, hrest h, arith2]
    cases f with
    | plain e => exact tail (by simpa [hasCausalFactor] using hc)
    | fn g a b =>
      by_cases hg : isCausalFn g = true
      · have head : a * x + b < 0 → specEval (prodE (Factor.fn g a b :: rest)) x = .val 0 := by
          intro hneg
          simp [prodE, specEval, Factor.toE, hw, arith2, appOut, causalFn_neg g _ hg hneg, Out.ofOption]
        simp only [hasCausalFactor, hg, Bool.not_true, Bool.false_eq_true, if_false] at hc
        split_ifs at hc with h1 h2 h3
        · simp only [Bool.and_eq_true, beq_iff_eq] at h1
          exact head (by rw [h1.1, h1.2]; linarith)
        · simp only [Bool.and_eq_true, decide_eq_true_eq] at h3
          exact head (by nlinarith [h3.1, h3.2])
        · exact tail hc
      · simp only [hasCausalFactor, hg, Bool.not_false, if_true] at hc
        exact tail hc

theorem mapM_some_iff {α β : Type} (g : α → Option β) (xs : List α) (vs : List β) :
    xs.mapM g = some vs ↔ xs.map g = vs.map some := by
  induction xs generalizing vs with
  | nil => cases vs <;> simp
  | cons x rest ih =>
    cases vs with
    | nil => cases hg : g x <;> simp [List.mapM_cons, hg]
             cases hr : rest.mapM g <;> simp
    | cons v vs' =>
      cases hg : g x with
      | none => simp [List.mapM_cons, hg]
      | some w =>
        cases hr : rest.mapM g with
        | none =>
          have : ¬ (rest.map g = vs'.map some) := fun h => by rw [(ih vs').mpr h] at hr; cases hr
          simp [List.mapM_cons, hg, hr, this]
        | some us =>
          have := (ih us).mp hr
          simp only [List.mapM_cons, hg, hr, List.map_cons, Option.pure_def, Option.bind_eq_bind, Option.bind_some]
          constructor
          · intro h; cases h; simp [this]
          · intro h
            simp only [List.cons.injEq, Option.some.injEq] at h
            obtain ⟨rfl, h2⟩ := h
            have : us = vs' := by
              have h3 : us.map some = vs'.map some := by rw [← this, h2]
              exact List.map_injective_iff.mpr (Option.some_injective _) h3
            rw [this]

end

end Lcapy.C17
