/-
  Bridge from the coefficient-list polynomials of `Lcapy/Model/Poly.lean` to Mathlib's `Polynomial`, used for ONE
  purpose: uniqueness of exact long division over an infinite field (`divmod_exact`), which makes the acceptance
  conditions of the synthesis pattern forms (C19, `accepts_iff`) semantic: a form accepts `N/D` iff `N/D` IS of
  its shape.  Not linked into any driver.
-/
import Lcapy.Proofs.PolyFoster
import Mathlib.Algebra.Polynomial.Roots
namespace Lcapy.Poly
open Polynomial
variable {K : Type} [Field K] [DecidableEq K]
set_option linter.unusedSimpArgs false
set_option linter.unusedVariables false
set_option linter.unusedSectionVars false

/-- the coefficient list as a Mathlib polynomial -/
noncomputable def toP : List K → K[X]
  | [] => 0
  | a :: p => C a + X * toP p

theorem eval_toP (p : List K) (x : K) : (toP p).eval x = Poly.eval p x := by
  induction p with
  | nil => simp [toP]
  | cons a p ih => simp [toP, ih]

theorem coeff_toP (p : List K) (i : Nat) : (toP p).coeff i = p.getD i 0 := by
  induction p generalizing i with
  | nil => simp [toP]
  | cons a p ih =>
    cases i with
    | zero => simp [toP]
    | succ i => simp [toP, ih, coeff_C_succ]

theorem getD_trim (p : List K) (i : Nat) : (trim p).getD i 0 = p.getD i 0 := by
  induction p generalizing i with
  | nil => simp [trim]
  | cons a p ih =>
    simp only [trim]
    cases ht : trim p with
    | nil =>
      have h0 : ∀ j, p.getD j 0 = 0 := fun j => by rw [← ih j, ht]; simp
      by_cases ha : a = 0
      · simp only [ha, if_true]
        cases i with
        | zero => simp
        | succ i => have := h0 i; simp only [List.getD_eq_getElem?_getD] at this; simp [this]
      · simp only [ha, if_false]
        cases i with
        | zero => simp
        | succ i => have := h0 i; simp only [List.getD_eq_getElem?_getD] at this; simp [this]
    | cons b q =>
      simp only
      cases i with
      | zero => simp
      | succ i =>
        have := ih i
        rw [ht] at this
        simpa using this

theorem length_trim_le_of (p : List K) (n : Nat) (h : ∀ i, n ≤ i → p.getD i 0 = 0) : (trim p).length ≤ n := by
  induction p generalizing n with
  | nil => simp [trim]
  | cons a p ih =>
    simp only [trim]
    cases ht : trim p with
    | nil =>
      by_cases ha : a = 0
      · simp [ha]
      · simp only [ha, if_false, List.length_cons, List.length_nil]
        cases n with
        | zero => exact absurd (by simpa using h 0 (le_refl _)) ha
        | succ n => omega
    | cons b q =>
      simp only [List.length_cons]
      cases n with
      | zero =>
        -- all coefficients of `p` vanish, so `trim p = []`
        have := ih 0 (fun i _ => by simpa using h (i + 1) (by omega))
        rw [ht] at this; simp at this
      | succ n =>
        have := ih n (fun i hi => by simpa using h (i + 1) (by omega))
        rw [ht] at this
        simp only [List.length_cons] at this
        omega

theorem degree_toP_lt (p : List K) : (toP p).degree < (p.length : WithBot Nat) := by
  rw [degree_lt_iff_coeff_zero]
  intro m hm
  rw [coeff_toP]
  simp only [List.getD_eq_getElem?_getD]
  rw [List.getElem?_eq_none (by exact_mod_cast hm)]; rfl

theorem le_degree_toP (D : List K) (h : lc D ≠ 0) : (((trim D).length - 1 : Nat) : WithBot Nat) ≤ (toP D).degree := by
  apply le_degree_of_ne_zero
  rw [coeff_toP, ← getD_trim]
  have hne : trim D ≠ [] := fun h0 => h ((lc_eq_zero_iff D).2 h0)
  have : (trim D).getD ((trim D).length - 1) 0 = (trim D).getLastD 0 := by
    rw [List.getLastD_eq_getLast?, List.getLast?_eq_getElem?, List.getD_eq_getElem?_getD]
  rw [this]
  exact h

/-- **uniqueness of exact division** over an infinite field: if `A = P·D` pointwise then `divmod A D` has zero
    remainder and its quotient has the coefficients of `P` -/
theorem divmod_exact [Infinite K] (A P D : List K) (hD : lc D ≠ 0)
    (h : ∀ x, Poly.eval A x = Poly.eval P x * Poly.eval D x) :
    isZero (divmod A D).2 = true ∧ ∀ i, (trim (divmod A D).1).getD i 0 = P.getD i 0 := by
  obtain ⟨hs, hl⟩ := divmod_spec' A D hD
  set q := (divmod A D).1 with hq
  set r := (divmod A D).2 with hr
  have hpoly : (toP P - toP q) * toP D = toP r := by
    apply Polynomial.funext
    intro x
    rw [Polynomial.eval_mul, Polynomial.eval_sub, eval_toP, eval_toP, eval_toP, eval_toP]
    have := hs x
    rw [h x] at this
    linear_combination this
  have hdiff : toP P - toP q = 0 := by
    by_contra hne
    have hDne : toP D ≠ 0 := by
      intro h0
      have := le_degree_toP D hD
      rw [h0, degree_zero] at this
      simp at this
    have h1 : (toP D).degree ≤ ((toP P - toP q) * toP D).degree := by
      rw [degree_mul]
      have : (0 : WithBot Nat) ≤ (toP P - toP q).degree := zero_le_degree_iff.mpr hne
      calc (toP D).degree = 0 + (toP D).degree := by simp
        _ ≤ _ := add_le_add_left this _
    rw [hpoly] at h1
    have h2 := degree_toP_lt r
    have h3 := le_degree_toP D hD
    have h4 : ((r.length : Nat) : WithBot Nat) ≤ (((trim D).length - 1 : Nat) : WithBot Nat) := by
      exact_mod_cast Nat.le_sub_one_of_lt hl
    exact absurd (lt_of_le_of_lt (le_trans h3 h1) h2) (not_lt.mpr h4)
  constructor
  · have hr0 : toP r = 0 := by rw [← hpoly, hdiff, zero_mul]
    have : trim r = [] := by
      have := length_trim_le_of r 0 (fun i _ => by rw [← coeff_toP, hr0]; simp)
      exact List.length_eq_zero_iff.1 (by omega)
    simp [isZero, this]
  · intro i
    rw [getD_trim, ← coeff_toP, ← coeff_toP]
    have : toP P = toP q := sub_eq_zero.mp hdiff
    rw [this]
end Lcapy.Poly

namespace Lcapy.Synth
open Lcapy.Poly
variable {K : Type} [Field K] [DecidableEq K]
set_option linter.unusedSimpArgs false
set_option linter.unusedVariables false
set_option linter.unusedSectionVars false

/-- `N/D = cm/var + c0 + cp·var` as an identity of polynomials (pointwise): `var·N = (cm + c0·var + cp·var²)·D` -/
def IsShape (N D : List K) (cm c0 cp : K) : Prop :=
  ∀ x, x * Poly.eval N x = (cm + c0 * x + cp * x ^ 2) * Poly.eval D x

/-- **completeness of `collOf`** (infinite field): whenever `N/D` has the shape, `collOf` finds exactly its coefficients -/
theorem collOf_complete [Infinite K] (N D : List K) (cm c0 cp : K) (hD : lc D ≠ 0) (h : IsShape N D cm c0 cp) :
    collOf N D = ⟨nz c0, nz cp, nz cm, false⟩ := by
  have hex := divmod_exact (0 :: N) [cm, c0, cp] D hD (fun x => by
    have := h x
    simp only [eval_cons, eval_nil]
    linear_combination this)
  obtain ⟨hz, hc⟩ := hex
  have hlen : (trim (divmod (0 :: N) D).1).length ≤ 3 := by
    apply length_trim_le_of
    intro i hi
    rw [← getD_trim, hc i]
    simp only [List.getD_eq_getElem?_getD]
    rw [List.getElem?_eq_none (by simpa using hi)]; rfl
  unfold collOf
  simp only [hz, hlen, decide_true, Bool.and_self, if_true]
  rw [hc 0, hc 1, hc 2]
  simp

/-- the converse holds in every field (`collOf_spec`): `collOf` never invents a shape -/
theorem collOf_shape (N D : List K) (hD : lc D ≠ 0) (h : (collOf N D).other = false) :
    IsShape N D ((collOf N D).cm.getD 0) ((collOf N D).c0.getD 0) ((collOf N D).cp.getD 0) :=
  fun x => collOf_spec N D hD h x

theorem collOf_other_iff [Infinite K] (N D : List K) (hD : lc D ≠ 0) :
    (collOf N D).other = false ↔ ∃ cm c0 cp, IsShape N D cm c0 cp := by
  constructor
  · intro h; exact ⟨_, _, _, collOf_shape N D hD h⟩
  · rintro ⟨cm, c0, cp, h⟩; rw [collOf_complete N D cm c0 cp hD h]

end Lcapy.Synth
