/-
  C02 helper lemmas.
   (1) the transform of every time-domain residual of Spec/LawsT.lean is the corresponding s-domain (ivp) expression
       of Spec/Laws.lean — this is where `L{Dx} = s·X − x(0⁻)` produces the initial-condition sources C·v0, L·i0, M·i0';
   (2) soundness of the normal form (`normalForm` keeps the transform, the pointwise value and every coefficient);
   (3) the coefficient of δ(t) in a derivative is the value at 0⁺.
-/
import Lcapy.Proofs.Laplace
import Lcapy.Proofs.LaplaceILT
import Lcapy.Model.TimeDomain
import Mathlib.Tactic.Linarith
namespace Lcapy.TD
open Lcapy.MNA Lcapy.Laplace

section transform
variable {K : Type} [Field K] (E : K → K)

/-! ### non-pole bookkeeping -/

theorem NonPole_nil (s : K) : NonPole ([] : ExpPoly K) s := by intro t ht; simp at ht

theorem NonPole_smul {a s : K} {f : ExpPoly K} (h : NonPole f s) : NonPole (smul a f) s := by
  intro x hx
  simp only [smul, List.mem_map] at hx
  obtain ⟨y, hy, rfl⟩ := hx
  have := h y hy
  cases y <;> simp [Term.smul] at this ⊢ <;> exact this

theorem NonPole_subP {s : K} {f g : ExpPoly K} (hf : NonPole f s) (hg : NonPole g s) : NonPole (subP f g) s :=
  NonPole.append hf (NonPole_smul hg)

theorem NonPole_voltT {x : Ix → Signal K} {s : K} (h : ∀ ix, NonPole (x ix).post s) (k : Nat) :
    NonPole (voltT x k).post s := by
  cases k with
  | zero => exact NonPole_nil s
  | succ k => exact h _

theorem NonPole_vpost {x : Ix → Signal K} {s : K} (h : ∀ ix, NonPole (x ix).post s) (a b : Nat) :
    NonPole (vpost x a b) s := NonPole_subP (NonPole_voltT h a) (NonPole_voltT h b)

/-! ### transforms of the building blocks -/

theorem L_subP (f g : ExpPoly K) (s : K) : L E (subP f g) s = L E f s - L E g s := by
  simp only [subP, L_append, L_smul]; ring

theorem L_twoTermT (n1 n2 k : Nat) (i : ExpPoly K) (s : K) :
    L E (twoTermT n1 n2 k i) s = twoTerm n1 n2 k (L E i s) := by
  simp only [twoTermT, twoTerm, L_subP]
  split_ifs <;> simp

theorem L_voltT (x : Ix → Signal K) (k : Nat) (s : K) :
    L E (voltT x k).post s = volt (transformOf E x s) k := by
  cases k with
  | zero => simp [voltT, volt, Signal.zero]
  | succ k => simp [voltT, volt, transformOf]

theorem L_vpost (x : Ix → Signal K) (a b : Nat) (s : K) :
    L E (vpost x a b) s = vd (transformOf E x s) a b := by
  simp only [vpost, L_subP, L_voltT, vd]

/-- `L{D v}(s) = s·V(s) − v(0⁻)` for a state variable -/
theorem L_stateDeriv (hE : IsExp E) (st s : K) (f : ExpPoly K) (h : NonPole f s) :
    L E (stateDeriv st f) s = s * L E f s - st := by
  simp only [stateDeriv, L_append, L_deriv E s f h, L_cons, L_nil, Term.L, pw]
  simp [hE.zero]; ring

theorem L_flatMap_lsum {α : Type} (g : α → ExpPoly K) (l : List α) (s : K) :
    L E (l.flatMap g) s = lsum (l.map (fun c => L E (g c) s)) := by
  induction l with
  | nil => simp [lsum]
  | cons a l ih => simp [List.flatMap_cons, L_append, ih, lsum]

/-- per-component form of `RestWhereUnspecified` -/
def RestC (x : Ix → Signal K) (c : TCpt K) : Prop :=
  match c.1 with
  | .Cap n1 n2 _ none => vpre0 x n1 n2 = 0
  | .Ind _ _ m _ i0 coup =>
      (i0 = none → pre0 (x (.br m)).pre = 0) ∧ (∀ p ∈ coup, p.2.2 = none → pre0 (x (.br p.1)).pre = 0)
  | _ => True

theorem L_mutualDropT (hE : IsExp E) (x : Ix → Signal K) (s : K) (hx : ∀ ix, NonPole (x ix).post s)
    (coup : List (Nat × K × Option K)) (hr : ∀ p ∈ coup, p.2.2 = none → pre0 (x (.br p.1)).pre = 0) :
    L E (mutualDropT x coup) s = mutualDrop s (transformOf E x s) coup - mutualIC coup := by
  induction coup with
  | nil => simp [mutualDropT, mutualDrop, mutualIC, lsum]
  | cons p coup ih =>
    have ih' := ih (fun q hq => hr q (by simp [hq]))
    simp only [mutualDropT, List.flatMap_cons, L_append] at ih' ⊢
    rw [ih', L_smul, L_stateDeriv E hE _ s _ (hx _)]
    simp only [mutualDrop, mutualIC, List.map_cons, lsum, transformOf]
    obtain ⟨m, M, oi⟩ := p
    cases oi with
    | some i0 => simp [stateOf, icFlux]; ring
    | none =>
      have := hr (m, M, none) (by simp) rfl
      simp only [stateOf] at this ⊢
      simp [this, icFlux]; ring

/-- the transform of the current a component draws from node `k` is the s-domain (ivp) outflow -/
theorem outflow_transform (hE : IsExp E) (x : Ix → Signal K) (s : K) (hx : ∀ ix, NonPole (x ix).post s)
    (k : Nat) (c : TCpt K) (hr : RestC x c) :
    L E (outflowT x k c) s = outflow .ivp s (transformOf E x s) k (atS E s c) := by
  obtain ⟨c, w⟩ := c
  cases c with
  | Cap n1 n2 cc v0 =>
    simp only [outflowT, outflow, atS, L_twoTermT, capCurrentT, L_smul,
      L_stateDeriv E hE _ s _ (NonPole_vpost hx n1 n2), L_vpost, capCurrent]
    congr 1
    cases v0 with
    | some v => simp [stateOf]; ring
    | none =>
      have h0 : vpre0 x n1 n2 = 0 := hr
      simp [stateOf, h0]; ring
  | R n1 n2 r => simp only [outflowT, outflow, atS, L_twoTermT, L_smul, L_vpost]; congr 1; ring
  | Y n1 n2 y => simp only [outflowT, outflow, atS, L_twoTermT, L_smul, L_vpost]
  | I n1 n2 i => simp only [outflowT, outflow, atS, L_twoTermT, L_smul]; congr 1; ring
  | G n1 n2 n3 n4 g => simp only [outflowT, outflow, atS, L_twoTermT, L_smul, L_vpost]; congr 1; ring
  | F n1 n2 mc f => simp only [outflowT, outflow, atS, L_twoTermT, L_smul, transformOf]
  | TF n1 n2 n3 n4 m a =>
    simp only [outflowT, outflow, atS, L_append, L_twoTermT, L_smul, transformOf]; congr 2; ring
  | GY n1 n2 n3 n4 m1 m2 r => simp only [outflowT, outflow, atS, L_append, L_twoTermT, transformOf]
  | Open n1 n2 => simp [outflowT, outflow, atS]
  | TPA n1 n2 n3 n4 m a11 a12 a21 a22 =>
    simp only [outflowT, outflow, atS, L_append, L_twoTermT, L_subP, L_smul, L_vpost, transformOf]
  | TPY n1 n2 n3 n4 y11 y12 y21 y22 =>
    simp only [outflowT, outflow, atS, L_append, L_twoTermT, L_smul, L_vpost, transformOf]
  | _ => simp only [outflowT, outflow, atS, L_twoTermT, transformOf]

/-- the transform of every defining-relation residual is the s-domain (ivp) residual -/
theorem laws_transform (hE : IsExp E) (x : Ix → Signal K) (s : K) (hx : ∀ ix, NonPole (x ix).post s)
    (c : TCpt K) (hr : RestC x c) :
    (lawsT x c).map (fun p => (p.1, L E p.2 s)) = laws .ivp s (transformOf E x s) (atS E s c) := by
  obtain ⟨c, w⟩ := c
  cases c with
  | Ind n1 n2 m l i0 coup =>
    obtain ⟨h1, h2⟩ : (i0 = none → pre0 (x (.br m)).pre = 0) ∧
        (∀ p ∈ coup, p.2.2 = none → pre0 (x (.br p.1)).pre = 0) := hr
    simp only [lawsT, laws, atS, List.map_cons, List.map_nil, L_subP, L_append, L_smul, L_vpost,
      L_stateDeriv E hE _ s _ (hx _), L_mutualDropT E hE x s hx coup h2]
    congr 2
    cases i0 with
    | some i => simp [stateOf, transformOf]; ring
    | none => simp [stateOf, h1 rfl, transformOf]; ring
  | V n1 n2 m v => simp only [lawsT, laws, atS, List.map_cons, List.map_nil, L_subP, L_vpost]
  | E n1 n2 n3 n4 m Ad Ac =>
    simp only [lawsT, laws, atS, List.map_cons, List.map_nil, L_subP, L_append, L_smul, L_vpost, L_voltT]
    congr 2; ring
  | H n1 n2 m mc h =>
    simp only [lawsT, laws, atS, List.map_cons, List.map_nil, L_subP, L_smul, L_vpost, transformOf]
  | TF n1 n2 n3 n4 m a =>
    simp only [lawsT, laws, atS, List.map_cons, List.map_nil, L_subP, L_smul, L_vpost]
  | GY n1 n2 n3 n4 m1 m2 r =>
    simp only [lawsT, laws, atS, List.map_cons, List.map_nil, L_subP, L_append, L_smul, L_vpost, transformOf]
  | AM n1 n2 m => simp only [lawsT, laws, atS, List.map_cons, List.map_nil, L_vpost]
  | TR n1 n2 m a => simp only [lawsT, laws, atS, List.map_cons, List.map_nil, L_subP, L_smul, L_voltT]
  | TPA n1 n2 n3 n4 m a11 a12 a21 a22 =>
    simp only [lawsT, laws, atS, List.map_cons, List.map_nil, L_subP, L_smul, L_vpost, transformOf]
  | HY n1 n2 m n3 n4 mc y isc h =>
    have hd : L E [Term.dl isc 0 0] s = isc := by
      simp [L_cons, Term.L, pw, hE.zero]
    simp only [lawsT, laws, atS, List.map_cons, List.map_nil, L_subP, L_smul, L_vpost, transformOf, hd]
  | SP n1 n2 n3 n4 m c1 c2 c4 =>
    simp only [lawsT, laws, atS, List.map_cons, List.map_nil, L_subP, L_append, L_smul, L_voltT]
    try (congr 2; ring)
  | _ => simp [lawsT, laws, atS]

theorem restC_of_rest {tcs : List (TCpt K)} {x : Ix → Signal K} (h : RestWhereUnspecified tcs x)
    {c : TCpt K} (hc : c ∈ tcs) : RestC x c := by
  have := h c hc
  unfold RestC
  exact this

end transform

/-! ### hand-over of the state: explicit initial conditions taken from the pre-history = no initial conditions -/

section handover
variable {K : Type} [Field K]

theorem vpre0_of_startsFrom {X : Ix → K} {x : Ix → Signal K} (h : StartsFrom X x) (a b : Nat) :
    vpre0 x a b = vd X a b := by
  have hv : ∀ k, pre0 (voltT x k).pre = volt X k := by
    intro k
    cases k with
    | zero => simp [voltT, Signal.zero, pre0, volt]
    | succ k => simp [voltT, volt, h _]
  simp [vpre0, vd, hv]

theorem mutualDropT_handover {X : Ix → K} {x : Ix → Signal K} (h : StartsFrom X x) (coup : List (Nat × K × Option K)) :
    mutualDropT x (coup.map (fun p => (p.1, p.2.1, some (X (.br p.1)))))
      = mutualDropT x (coup.map (fun p => (p.1, p.2.1, none))) := by
  induction coup with
  | nil => rfl
  | cons p coup ih =>
    simp only [mutualDropT, List.map_cons, List.flatMap_cons] at ih ⊢
    rw [ih]
    simp [stateOf, h _]

theorem outflowT_handover {X : Ix → K} {x : Ix → Signal K} (h : StartsFrom X x) (k : Nat) (c : Cpt K) (w : Signal K) :
    outflowT x k (initializeFrom X c, w) = outflowT x k (clearIC c, w) := by
  cases c <;> simp only [initializeFrom, clearIC, outflowT]
  case Cap n1 n2 cc v0 => simp [capCurrentT, stateOf, vpre0_of_startsFrom h]

theorem lawsT_handover {X : Ix → K} {x : Ix → Signal K} (h : StartsFrom X x) (c : Cpt K) (w : Signal K) :
    lawsT x (initializeFrom X c, w) = lawsT x (clearIC c, w) := by
  cases c <;> simp only [initializeFrom, clearIC, lawsT]
  case Ind n1 n2 m l i0 coup => simp [stateOf, h _, mutualDropT_handover h]

end handover

/-! ### KCL at a node no component touches is the empty statement -/

section nodes
variable {K : Type} [Field K]

theorem twoTermT_nil_of_ne {n1 n2 k : Nat} (i : ExpPoly K) (h1 : n1 ≠ k) (h2 : n2 ≠ k) : twoTermT n1 n2 k i = [] := by
  simp [twoTermT, h1, h2, subP, smul]

theorem outflowT_nil (x : Ix → Signal K) (k : Nat) (hk : k ≠ 0) (c : TCpt K) (h : k ∉ nodesOf c.1) : outflowT x k c = [] := by
  obtain ⟨c, w⟩ := c
  have h0 : ¬ (0 : Nat) = k := fun e => hk e.symm
  have h' : ∀ a ∈ nodesOf c, ¬ a = k := fun a ha e => h (e ▸ ha)
  cases c <;> simp [nodesOf] at h' <;> simp [outflowT, twoTermT, subP, smul, h', h0]

theorem kclT_nil (x : Ix → Signal K) (k : Nat) (hk : k ≠ 0) (tcs : List (TCpt K)) (h : ∀ c ∈ tcs, k ∉ nodesOf c.1) :
    kclT x k tcs = [] := by
  induction tcs with
  | nil => rfl
  | cons c tcs ih =>
    simp only [kclT, List.flatMap_cons] at ih ⊢
    rw [outflowT_nil x k hk c (h c (by simp)), ih (fun d hd => h d (by simp [hd]))]
    rfl

theorem not_mem_nodesOf_of_nodesBelow [DecidableEq K] {n : Nat} {tcs : List (TCpt K)} (h : nodesBelow n tcs = true) {k : Nat} (hk : n ≤ k) :
    ∀ c ∈ tcs, k ∉ nodesOf c.1 := by
  intro c hc hm
  have := (List.all_eq_true.mp h) c hc
  have := (List.all_eq_true.mp this) k hm
  simp at this
  omega

end nodes

/-! ### the normal form -/

section normal
variable {K : Type} [Field K] [DecidableEq K]

theorem sameKey_iff (a b : Term K) : sameKey a b = true ↔ a.withCoef 0 = b.withCoef 0 := by
  cases a <;> cases b <;> simp [sameKey, Term.withCoef, and_assoc]

theorem sameKey_refl (a : Term K) : sameKey a a = true := (sameKey_iff a a).mpr rfl

theorem sameKey_false_iff (a b : Term K) : sameKey a b = false ↔ a.withCoef 0 ≠ b.withCoef 0 := by
  rw [Ne, ← sameKey_iff]; simp

theorem withCoef_of_sameKey {κ t : Term K} (h : sameKey κ t = true) : t = κ.withCoef t.coef := by
  cases κ <;> cases t <;> simp_all [sameKey, Term.withCoef, Term.coef]

theorem withCoef_withCoef (t : Term K) (a b : K) : (t.withCoef a).withCoef b = t.withCoef b := by
  cases t <;> rfl

theorem coefOf_append (κ : Term K) (f g : ExpPoly K) : coefOf κ (f ++ g) = coefOf κ f + coefOf κ g := by
  induction f with
  | nil => simp [coefOf]
  | cons t f ih => simp only [List.cons_append, coefOf, ih]; split_ifs <;> ring

theorem sameKey_smul (κ t : Term K) (a : K) : sameKey κ (Term.smul a t) = sameKey κ t := by
  cases κ <;> cases t <;> simp [sameKey, Term.smul]

theorem coefOf_smul (κ : Term K) (a : K) (f : ExpPoly K) : coefOf κ (smul a f) = a * coefOf κ f := by
  induction f with
  | nil => simp [coefOf, smul]
  | cons t f ih =>
    simp only [smul, List.map_cons, coefOf, sameKey_smul] at ih ⊢
    rw [ih]
    split_ifs
    · cases t <;> simp [Term.smul, Term.coef] <;> ring
    · rfl

theorem coefOf_subP (κ : Term K) (f g : ExpPoly K) : coefOf κ (subP f g) = coefOf κ f - coefOf κ g := by
  simp only [subP, coefOf_append, coefOf_smul]; ring

/-- filtering out another key class does not change the coefficient -/
theorem coefOf_filter_ne (κ t : Term K) (h : sameKey κ t = false) (f : ExpPoly K) :
    coefOf κ (f.filter (fun u => !sameKey t u)) = coefOf κ f := by
  induction f with
  | nil => rfl
  | cons u f ih =>
    by_cases htu : sameKey t u = true
    · have hku : sameKey κ u = false := by
        rw [sameKey_false_iff] at h ⊢
        rw [sameKey_iff] at htu
        rw [← htu]; exact h
      simp [List.filter, htu, coefOf, hku, ih]
    · simp only [Bool.not_eq_true] at htu
      simp [List.filter, htu, coefOf, ih]

/-- after filtering out the key class of `t`, its coefficient is zero -/
theorem coefOf_filter_eq (κ t : Term K) (h : sameKey κ t = true) (f : ExpPoly K) :
    coefOf κ (f.filter (fun u => !sameKey t u)) = 0 := by
  induction f with
  | nil => rfl
  | cons u f ih =>
    by_cases htu : sameKey t u = true
    · simp [List.filter, htu, ih]
    · simp only [Bool.not_eq_true] at htu
      have hku : sameKey κ u = false := by
        rw [sameKey_false_iff] at htu ⊢
        rw [sameKey_iff] at h
        rw [h]; exact htu
      simp [List.filter, htu, coefOf, hku, ih]

theorem coefOf_congr {κ κ' : Term K} (h : sameKey κ κ' = true) (f : ExpPoly K) : coefOf κ f = coefOf κ' f := by
  induction f with
  | nil => rfl
  | cons u f ih =>
    have : sameKey κ u = sameKey κ' u := by
      rw [Bool.eq_iff_iff, sameKey_iff, sameKey_iff, (sameKey_iff κ κ').mp h]
    simp [coefOf, this, ih]

theorem sameKey_withCoef (κ t : Term K) (c : K) : sameKey κ (t.withCoef c) = sameKey κ t := by
  cases κ <;> cases t <;> simp [sameKey, Term.withCoef]

theorem length_filter_le' (t : Term K) (f : ExpPoly K) : (f.filter (fun u => !sameKey t u)).length ≤ f.length :=
  List.length_filter_le _ _

/-- the normal form keeps every coefficient -/
theorem coefOf_normalForm (κ : Term K) : ∀ (fuel : Nat) (f : ExpPoly K), f.length ≤ fuel →
    coefOf κ (normalForm fuel f) = coefOf κ f := by
  intro fuel
  induction fuel with
  | zero => intro f hf; cases f with
    | nil => rfl
    | cons t f => simp at hf
  | succ fuel ih =>
    intro f hf
    cases f with
    | nil => rfl
    | cons t f =>
      have hlen : (f.filter (fun u => !sameKey t u)).length ≤ fuel :=
        le_trans (length_filter_le' t f) (by simpa using hf)
      have ihf := ih _ hlen
      simp only [normalForm]
      by_cases hk : sameKey κ t = true
      · have e1 : coefOf κ (t :: f) = coefOf t (t :: f) := coefOf_congr hk _
        have e2 : coefOf κ (f.filter (fun u => !sameKey t u)) = 0 := coefOf_filter_eq κ t hk f
        split_ifs with hc
        · rw [ihf, e2, e1, hc]
        · have e3 : coefOf κ (t.withCoef (coefOf t (t :: f)) :: normalForm fuel (f.filter (fun u => !sameKey t u)))
              = coefOf t (t :: f) := by
            rw [coefOf, sameKey_withCoef, hk, if_pos rfl, ihf, e2]
            cases t <;> simp [Term.withCoef, Term.coef]
          rw [e3, e1]
      · simp only [Bool.not_eq_true] at hk
        have e2 := coefOf_filter_ne κ t hk f
        split_ifs with hc
        · rw [ihf, e2]; simp [coefOf, hk]
        · simp [coefOf, sameKey_withCoef, hk, ihf, e2]

theorem coefOf_of_formalZero {f : ExpPoly K} (h : FormalZero f) (κ : Term K) : coefOf κ f = 0 := by
  have := coefOf_normalForm κ f.length f le_rfl
  unfold FormalZero nf at h
  rw [h] at this
  simpa [coefOf] using this.symm

variable (E : K → K)

theorem Term_L_withCoef (t : Term K) (c s : K) : (t.withCoef c).L E s = c * (t.withCoef 1).L E s := by
  cases t <;> simp [Term.withCoef, Term.L] <;> ring

theorem L_split (κ : Term K) (f : ExpPoly K) (s : K) :
    L E f s = coefOf κ f * (κ.withCoef 1).L E s + L E (f.filter (fun u => !sameKey κ u)) s := by
  induction f with
  | nil => simp [coefOf]
  | cons t f ih =>
    by_cases h : sameKey κ t = true
    · have ht := withCoef_of_sameKey h
      simp only [L_cons, coefOf, h, if_true, List.filter, Bool.not_true]
      rw [ih]
      conv_lhs => rw [ht, Term_L_withCoef]
      ring
    · simp only [Bool.not_eq_true] at h
      simp only [L_cons, coefOf, h, List.filter, Bool.not_false]
      rw [ih]; simp; ring

/-- the normal form has the same transform -/
theorem L_normalForm (s : K) : ∀ (fuel : Nat) (f : ExpPoly K), f.length ≤ fuel →
    L E (normalForm fuel f) s = L E f s := by
  intro fuel
  induction fuel with
  | zero => intro f hf; cases f with
    | nil => rfl
    | cons t f => simp at hf
  | succ fuel ih =>
    intro f hf
    cases f with
    | nil => rfl
    | cons t f =>
      have hlen : (f.filter (fun u => !sameKey t u)).length ≤ fuel :=
        le_trans (length_filter_le' t f) (by simpa using hf)
      have ihf := ih _ hlen
      have hs := L_split E t (t :: f) s
      simp only [List.filter, sameKey_refl, Bool.not_true] at hs
      simp only [normalForm]
      split_ifs with hc
      · rw [ihf, hs, hc]; ring
      · rw [L_cons, ihf, hs, Term_L_withCoef]

theorem L_of_formalZero {f : ExpPoly K} (h : FormalZero f) (s : K) : L E f s = 0 := by
  have := L_normalForm E s f.length f le_rfl
  unfold FormalZero nf at h
  rw [h] at this
  simpa using this.symm

end normal

section pointwise
variable {K : Type} [Field K] [LinearOrder K] (E : K → K)

@[simp] theorem evalAt_nil (t : K) : evalAt E ([] : ExpPoly K) t = 0 := rfl
@[simp] theorem evalAt_cons (x : Term K) (f : ExpPoly K) (t : K) : evalAt E (x :: f) t = x.at E t + evalAt E f t := rfl

theorem evalAt_append (f g : ExpPoly K) (t : K) : evalAt E (f ++ g) t = evalAt E f t + evalAt E g t := by
  induction f with
  | nil => simp
  | cons x f ih => simp [ih, add_assoc]

theorem evalAt_smul (a : K) (f : ExpPoly K) (t : K) : evalAt E (smul a f) t = a * evalAt E f t := by
  induction f with
  | nil => simp [smul]
  | cons x f ih =>
    simp only [smul, List.map_cons, evalAt_cons] at ih ⊢
    rw [ih]
    cases x with
    | ep c k p d => simp only [Term.smul, Term.at]; split_ifs <;> ring
    | dl c n d => simp [Term.smul, Term.at]

theorem evalAt_subP (f g : ExpPoly K) (t : K) : evalAt E (subP f g) t = evalAt E f t - evalAt E g t := by
  simp only [subP, evalAt_append, evalAt_smul]; ring

/-- an impulse contributes nothing to the pointwise value: for t > 0 the derivative of a state variable is the
    derivative of the signal -/
theorem evalAt_stateDeriv (st : K) (f : ExpPoly K) (t : K) : evalAt E (stateDeriv st f) t = evalAt E (deriv f) t := by
  simp [stateDeriv, evalAt_append, Term.at]

theorem Term_at_withCoef (x : Term K) (c t : K) : (x.withCoef c).at E t = c * (x.withCoef 1).at E t := by
  cases x with
  | ep c' k p d => simp only [Term.withCoef, Term.at]; split_ifs <;> ring
  | dl c' n d => simp [Term.withCoef, Term.at]

theorem evalAt_split (κ : Term K) (f : ExpPoly K) (t : K) :
    evalAt E f t = coefOf κ f * (κ.withCoef 1).at E t + evalAt E (f.filter (fun u => !sameKey κ u)) t := by
  induction f with
  | nil => simp [coefOf]
  | cons x f ih =>
    by_cases h : sameKey κ x = true
    · have hx := withCoef_of_sameKey h
      simp only [evalAt_cons, coefOf, h, if_true, List.filter, Bool.not_true]
      rw [ih]
      conv_lhs => rw [hx, Term_at_withCoef]
      ring
    · simp only [Bool.not_eq_true] at h
      simp only [evalAt_cons, coefOf, h, List.filter, Bool.not_false]
      rw [ih]; simp; ring

theorem evalAt_normalForm (t : K) : ∀ (fuel : Nat) (f : ExpPoly K), f.length ≤ fuel →
    evalAt E (normalForm fuel f) t = evalAt E f t := by
  intro fuel
  induction fuel with
  | zero => intro f hf; cases f with
    | nil => rfl
    | cons x f => simp at hf
  | succ fuel ih =>
    intro f hf
    cases f with
    | nil => rfl
    | cons x f =>
      have hlen : (f.filter (fun u => !sameKey x u)).length ≤ fuel :=
        le_trans (length_filter_le' x f) (by simpa using hf)
      have ihf := ih _ hlen
      have hs := evalAt_split E x (x :: f) t
      simp only [List.filter, sameKey_refl, Bool.not_true] at hs
      simp only [normalForm]
      split_ifs with hc
      · rw [ihf, hs, hc]; ring
      · rw [evalAt_cons, ihf, hs, Term_at_withCoef]

theorem evalAt_of_formalZero {f : ExpPoly K} (h : FormalZero f) (t : K) : evalAt E f t = 0 := by
  have := evalAt_normalForm E t f.length f le_rfl
  unfold FormalZero nf at h
  rw [h] at this
  simpa using this.symm


/-- for a causal signal (no negative delay) `val0plus` IS the value at 0⁺ (`evalAt` at 0, u(0) = 1): a term delayed by
    d > 0 contributes nothing, an undelayed term of order k > 0 vanishes at 0 -/
theorem evalAt_zero_of_causal (hE0 : E 0 = 1) (f : ExpPoly K) (hc : Causal f) : evalAt E f 0 = val0plus f := by
  induction f with
  | nil => rfl
  | cons x f ih =>
    have ih' := ih (fun t ht => hc t (by simp [ht]))
    have hx : (0 : K) ≤ x.delayOf := hc x (by simp)
    cases x with
    | dl c n d => simp [Term.at, val0plus, ih']
    | ep c k p d =>
      have hd : (0 : K) ≤ d := hx
      cases k with
      | zero =>
        by_cases h0 : d = 0
        · subst h0; simp [Term.at, val0plus, ih', pw, fact, hE0]
        · have : ¬ d ≤ 0 := fun h => h0 (le_antisymm h hd)
          simp [Term.at, val0plus, ih', this, h0]
      | succ k =>
        by_cases h0 : d = 0
        · subst h0; simp [Term.at, val0plus, ih', pw]
        · have : ¬ d ≤ 0 := fun h => h0 (le_antisymm h hd)
          simp [Term.at, val0plus, ih', this]

end pointwise

/-! ### the impulse at the origin of a derivative is the value at 0⁺ -/

section impulse
variable {K : Type} [Field K] [DecidableEq K]

theorem impulse0_deriv (f : ExpPoly K) (h : NoDelta f) : impulse0 (deriv f) = val0plus f := by
  induction f with
  | nil => rfl
  | cons t f ih =>
    have ih' := ih (fun x hx => h x (by simp [hx]))
    simp only [impulse0, deriv, List.flatMap_cons, coefOf_append] at ih' ⊢
    rw [ih']
    cases t with
    | dl c n d => exact absurd (h (.dl c n d) (by simp)) (by simp)
    | ep c k p d =>
      cases k with
      | zero =>
        simp only [Term.deriv, coefOf, sameKey, val0plus]
        by_cases hd : d = 0
        · subst hd; simp [Term.coef]
        · have : ¬ (0 : K) = d := fun e => hd e.symm
          simp [hd, this]
      | succ k => simp [Term.deriv, coefOf, sameKey, val0plus]

theorem impulse0_stateDeriv (st : K) (f : ExpPoly K) (h : NoDelta f) :
    impulse0 (stateDeriv st f) = val0plus f - st := by
  have := impulse0_deriv f h
  simp only [impulse0] at this
  simp only [impulse0, stateDeriv, coefOf_append, this, coefOf, sameKey, Term.coef]
  simp; ring

theorem impulse0_mutualDropT (x : Ix → Signal K) (coup : List (Nat × K × Option K))
    (h : ∀ p ∈ coup, NoDelta (x (.br p.1)).post) :
    impulse0 (mutualDropT x coup) =
      lsum (coup.map (fun p => p.2.1 * (val0plus (x (.br p.1)).post - stateOf p.2.2 (pre0 (x (.br p.1)).pre)))) := by
  induction coup with
  | nil => simp [mutualDropT, impulse0, coefOf, lsum]
  | cons p coup ih =>
    have ih' := ih (fun q hq => h q (by simp [hq]))
    have hp := impulse0_stateDeriv (stateOf p.2.2 (pre0 (x (.br p.1)).pre)) (x (.br p.1)).post (h p (by simp))
    simp only [impulse0, mutualDropT, List.flatMap_cons, coefOf_append, coefOf_smul, List.map_cons, lsum] at ih' hp ⊢
    rw [ih', hp]

end impulse

end Lcapy.TD
