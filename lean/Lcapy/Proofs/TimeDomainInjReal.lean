/-
  C02 — the delay factors of the REAL exponential are independent over the rational functions:

      delayIndep_real :  DelayIndep Real.exp

  i.e. if  Σ_d R_d(s)·e^{−s d} = 0  for all real s outside a finite set (distinct delays d, each R_d a finite sum of
  c/(s−p)^{k+1} and c·s^n) then every R_d(s)·e^{−s d} vanishes outside a finite set.  With Proofs/TimeDomainInj.lean this
  makes the formal unilateral transform with the real exponential injective on ALL formal signals (delays and impulses
  included): treating e^{−sT} as an independent indeterminate (DESIGN §2.2) is exact for the real exponential.

  Proof: take the smallest delay dmin, split f = f0 + f1 (f0 the part delayed by dmin).  Clearing denominators of f0
  (`hNum`, `dOther` of Proofs/TimeDomainInj.lean) gives a polynomial P with  P(s) = −D(s)·L f1(s)·e^{s·dmin}  for large s;
  the right-hand side is a sum of (polynomial)·e^{−δ s}/(s−p)^{k+1} and (polynomial)·e^{−δ s} with δ > 0, which tends to 0
  at +∞; a polynomial that tends to 0 at +∞ is 0 (`Polynomial.tendsto_nhds_iff`).  Hence L f0 = 0 off a finite set, then
  L f1 = 0 off a finite set, and f1 is shorter: induction.
-/
import Lcapy.Proofs.TimeDomainInj
import Mathlib.Analysis.SpecialFunctions.Exp
import Mathlib.Analysis.Polynomial.Basic
namespace Lcapy.TD
open Lcapy.MNA Lcapy.Laplace Polynomial Filter Topology

/-- `x^n e^{−δx} → 0` -/
theorem tendsto_pow_mul_exp_neg_mul (n : ℕ) (δ : ℝ) (hδ : 0 < δ) :
    Tendsto (fun x : ℝ => x ^ n * Real.exp (-(δ * x))) atTop (𝓝 0) := by
  have h1 : Tendsto (fun x : ℝ => δ * x) atTop atTop := tendsto_id.const_mul_atTop hδ
  have h2 := (Real.tendsto_pow_mul_exp_neg_atTop_nhds_zero n).comp h1
  have h3 := h2.const_mul ((δ ^ n)⁻¹)
  rw [mul_zero] at h3
  refine h3.congr (fun x => ?_)
  simp only [Function.comp, mul_pow]
  have : δ ^ n ≠ 0 := pow_ne_zero _ hδ.ne'
  field_simp

/-- `Q(x) e^{−δx} → 0` for every polynomial `Q` -/
theorem tendsto_poly_mul_exp_neg_mul (Q : ℝ[X]) (δ : ℝ) (hδ : 0 < δ) :
    Tendsto (fun x : ℝ => Q.eval x * Real.exp (-(δ * x))) atTop (𝓝 0) := by
  induction Q using Polynomial.induction_on' with
  | add p q hp hq =>
    have := hp.add hq
    rw [add_zero] at this
    refine this.congr (fun x => ?_)
    simp only [eval_add]; ring
  | monomial n a =>
    have := (tendsto_pow_mul_exp_neg_mul n δ hδ).const_mul a
    rw [mul_zero] at this
    refine this.congr (fun x => ?_)
    simp only [eval_monomial]; ring

section real
variable [inst : DecidableEq ℝ]

/-- one term of a part that is delayed by more than `dmin`, times a polynomial and `e^{s·dmin}`, tends to 0 -/
theorem tendsto_term (D : ℝ[X]) (dmin : ℝ) (t : Term ℝ) (hd : dmin < t.delayOf) :
    Tendsto (fun s : ℝ => D.eval s * (t.L Real.exp s * Real.exp (s * dmin))) atTop (𝓝 0) := by
  cases t with
  | ep c k p d =>
    have hδ : 0 < d - dmin := sub_pos.mpr hd
    have h1 := (tendsto_poly_mul_exp_neg_mul D (d - dmin) hδ).const_mul c
    rw [mul_zero] at h1
    have h2 : Tendsto (fun s : ℝ => ((s - p) ^ (k + 1))⁻¹) atTop (𝓝 0) := by
      apply tendsto_inv_atTop_zero.comp
      apply (tendsto_pow_atTop (Nat.succ_ne_zero k)).comp
      exact tendsto_atTop_add_const_right _ (-p) tendsto_id
    have h3 := h1.mul h2
    rw [mul_zero] at h3
    refine h3.congr (fun s => ?_)
    simp only [Term.L, pw_eq]
    have e : Real.exp (-(s * d)) * Real.exp (s * dmin) = Real.exp (-((d - dmin) * s)) := by
      rw [← Real.exp_add]; congr 1; ring
    rw [div_eq_mul_inv]
    calc c * (D.eval s * Real.exp (-((d - dmin) * s))) * ((s - p) ^ (k + 1))⁻¹
        = D.eval s * (c * (Real.exp (-(s * d)) * Real.exp (s * dmin)) * ((s - p) ^ (k + 1))⁻¹) := by rw [e]; ring
      _ = D.eval s * (c * Real.exp (-(s * d)) * ((s - p) ^ (k + 1))⁻¹ * Real.exp (s * dmin)) := by ring
  | dl c n d =>
    have hδ : 0 < d - dmin := sub_pos.mpr hd
    have h1 := (tendsto_poly_mul_exp_neg_mul (D * C c * X ^ n) (d - dmin) hδ)
    refine h1.congr (fun s => ?_)
    simp only [Term.L, pw_eq, eval_mul, eval_C, eval_pow, eval_X]
    have e : Real.exp (-(s * d)) * Real.exp (s * dmin) = Real.exp (-((d - dmin) * s)) := by
      rw [← Real.exp_add]; congr 1; ring
    calc D.eval s * c * s ^ n * Real.exp (-((d - dmin) * s))
        = D.eval s * (c * s ^ n * (Real.exp (-(s * d)) * Real.exp (s * dmin))) := by rw [e]; ring
      _ = D.eval s * (c * s ^ n * Real.exp (-(s * d)) * Real.exp (s * dmin)) := by ring

/-- … and so does a whole signal all of whose delays exceed `dmin` -/
theorem tendsto_later (D : ℝ[X]) (dmin : ℝ) (f : ExpPoly ℝ) (hd : ∀ t ∈ f, dmin < t.delayOf) :
    Tendsto (fun s : ℝ => D.eval s * (L Real.exp f s * Real.exp (s * dmin))) atTop (𝓝 0) := by
  induction f with
  | nil => simp
  | cons t f ih =>
    have h1 := tendsto_term D dmin t (hd t (by simp))
    have h2 := ih (fun u hu => hd u (by simp [hu]))
    have := h1.add h2
    rw [add_zero] at this
    refine this.congr (fun s => ?_)
    simp only [L_cons]; ring

theorem dOther_eval_ne_zero (p0 : ℝ) (f : ExpPoly ℝ) (s : ℝ) (hs : s ∉ polesOf f) : (dOther p0 f).eval s ≠ 0 := by
  induction f with
  | nil => simp [dOther]
  | cons t f ih =>
    cases t with
    | ep c k p d =>
      simp only [polesOf, List.mem_cons, not_or] at hs
      simp only [dOther, tDen, eval_mul]
      refine mul_ne_zero ?_ (ih hs.2)
      split_ifs
      · simp
      · simp only [eval_pow, eval_sub, eval_X, eval_C]
        exact pow_ne_zero _ (sub_ne_zero.mpr hs.1)
    | dl c n d =>
      simp only [polesOf] at hs
      simp only [dOther, tDen, eval_mul, eval_one, one_mul]
      exact ih hs

theorem exists_min_delay (f : ExpPoly ℝ) (hf : f ≠ []) : ∃ t0 ∈ f, ∀ t ∈ f, t0.delayOf ≤ t.delayOf := by
  induction f with
  | nil => exact absurd rfl hf
  | cons t f ih =>
    by_cases hfe : f = []
    · subst hfe
      exact ⟨t, by simp, fun u hu => by simp at hu; subst hu; exact le_rfl⟩
    · obtain ⟨t0, ht0, hmin⟩ := ih hfe
      rcases le_total t.delayOf t0.delayOf with h | h
      · refine ⟨t, by simp, fun u hu => ?_⟩
        rcases List.mem_cons.mp hu with rfl | hu
        · exact le_rfl
        · exact le_trans h (hmin u hu)
      · refine ⟨t0, by simp [ht0], fun u hu => ?_⟩
        rcases List.mem_cons.mp hu with rfl | hu
        · exact h
        · exact hmin u hu

theorem ordLe_zero_of_not_pole (p0 : ℝ) (f : ExpPoly ℝ) (h : p0 ∉ polesOf f) : OrdLe p0 0 f := by
  induction f with
  | nil => intro t ht; simp at ht
  | cons t f ih =>
    intro u hu
    cases t with
    | ep c k p d =>
      simp only [polesOf, List.mem_cons, not_or] at h
      rcases List.mem_cons.mp hu with rfl | hu'
      · intro e; exact absurd e.symm h.1
      · exact ih h.2 u hu'
    | dl c n d =>
      simp only [polesOf] at h
      rcases List.mem_cons.mp hu with rfl | hu'
      · trivial
      · exact ih h u hu'

theorem eventually_not_mem (B : Finset ℝ) : ∀ᶠ s in atTop, s ∉ B := by
  obtain ⟨M, hM⟩ : ∃ M, ∀ b ∈ B, b ≤ M := by
    refine ⟨B.sum (fun b => |b|), fun b hb => ?_⟩
    exact le_trans (le_abs_self b) (Finset.single_le_sum (f := fun b => |b|) (fun i _ => abs_nonneg i) hb)
  filter_upwards [eventually_gt_atTop M] with s hs hmem
  exact absurd (hM s hmem) (not_le.mpr hs)

/-- the part with the smallest delay has a vanishing transform -/
theorem min_part_zero (f : ExpPoly ℝ) (bad : Finset ℝ) (hz : ∀ s, s ∉ bad → L Real.exp f s = 0) (dmin : ℝ)
    (hmin : ∀ t ∈ f, dmin ≤ t.delayOf) :
    ∃ bad0 : Finset ℝ, ∀ s, s ∉ bad0 → L Real.exp (delayPart dmin f) s = 0 := by
  set f0 := delayPart dmin f with hf0
  set f1 := f.filter (fun t => !decide (t.delayOf = dmin)) with hf1
  have hsplit : ∀ s, L Real.exp f s = L Real.exp f0 s + L Real.exp f1 s := fun s =>
    L_filter_split Real.exp (fun t => decide (t.delayOf = dmin)) f s
  have hlater : ∀ t ∈ f1, dmin < t.delayOf := by
    intro t ht
    have hm := List.mem_filter.mp ht
    have hne : t.delayOf ≠ dmin := by simpa using hm.2
    exact lt_of_le_of_ne (hmin t hm.1) (Ne.symm hne)
  obtain ⟨p0, hp0⟩ := Infinite.exists_notMem_finset (polesOf f0).toFinset
  have hp0' : p0 ∉ polesOf f0 := by simpa using hp0
  have hd0 : AllDelay dmin f0 := allDelay_delayPart dmin f
  have ho0 : OrdLe p0 0 f0 := ordLe_zero_of_not_pole p0 f0 hp0'
  set P := hNum p0 0 f0 with hP
  set D := dOther p0 f0 with hD
  -- P(s) = −D(s)·L f1(s)·e^{s dmin} for large s
  have hev : ∀ᶠ s in atTop, P.eval s = -(D.eval s * (L Real.exp f1 s * Real.exp (s * dmin))) := by
    filter_upwards [eventually_not_mem (bad ∪ (polesOf f0).toFinset ∪ {p0})] with s hs
    simp only [Finset.mem_union, List.mem_toFinset, Finset.mem_singleton, not_or] at hs
    obtain ⟨⟨hb, hpole⟩, hp⟩ := hs
    have h1 := hNum_eval Real.exp p0 dmin 0 f0 s hd0 ho0 (nonPole_of_not_mem hpole) (sub_ne_zero.mpr hp)
    have h2 : L Real.exp f0 s = -L Real.exp f1 s := by
      have := hsplit s
      rw [hz s hb] at this
      linarith
    rw [pow_zero, mul_one, h2] at h1
    have e : Real.exp (-(s * dmin)) * Real.exp (s * dmin) = 1 := by
      rw [← Real.exp_add]; simp
    calc P.eval s = P.eval s * (Real.exp (-(s * dmin)) * Real.exp (s * dmin)) := by rw [e, mul_one]
      _ = (P.eval s * Real.exp (-(s * dmin))) * Real.exp (s * dmin) := by ring
      _ = -(D.eval s * (L Real.exp f1 s * Real.exp (s * dmin))) := by rw [h1]; ring
  have hlim : Tendsto (fun s => P.eval s) atTop (𝓝 0) := by
    have := (tendsto_later D dmin f1 hlater).neg
    rw [neg_zero] at this
    exact this.congr' (hev.mono (fun s hs => hs.symm))
  have hPz : P = 0 := by
    have := (Polynomial.tendsto_nhds_iff (P := P)).mp hlim
    exact leadingCoeff_eq_zero.mp this.1
  refine ⟨(polesOf f0).toFinset ∪ {p0}, ?_⟩
  intro s hs
  simp only [Finset.mem_union, List.mem_toFinset, Finset.mem_singleton, not_or] at hs
  have h1 := hNum_eval Real.exp p0 dmin 0 f0 s hd0 ho0 (nonPole_of_not_mem hs.1) (sub_ne_zero.mpr hs.2)
  rw [← hP, hPz, eval_zero, zero_mul, pow_zero, mul_one] at h1
  exact (mul_eq_zero.mp h1.symm).resolve_left (dOther_eval_ne_zero p0 f0 s hs.1)

theorem delayPart_filter_ne (d dmin : ℝ) (h : d ≠ dmin) (f : ExpPoly ℝ) :
    delayPart d (f.filter (fun t => !decide (t.delayOf = dmin))) = delayPart d f := by
  unfold delayPart
  rw [List.filter_filter]
  apply List.filter_congr
  intro t _
  by_cases h2 : t.delayOf = d
  · simp [h2, h]
  · simp [h2]

/-- **delayIndep_real**: the delay factors e^{−s d} of the real exponential are independent over the rational
    functions -/
theorem delayIndep_real : DelayIndep Real.exp := by
  have main : ∀ (n : ℕ) (f : ExpPoly ℝ), f.length ≤ n → ∀ bad : Finset ℝ, (∀ s, s ∉ bad → L Real.exp f s = 0) →
      ∀ d, ∃ bad' : Finset ℝ, ∀ s, s ∉ bad' → L Real.exp (delayPart d f) s = 0 := by
    intro n
    induction n with
    | zero =>
      intro f hf bad _ d
      have : f = [] := List.eq_nil_of_length_eq_zero (Nat.le_zero.mp hf)
      subst this
      exact ⟨∅, fun s _ => rfl⟩
    | succ n ih =>
      intro f hf bad hz d
      by_cases hfe : f = []
      · subst hfe; exact ⟨∅, fun s _ => rfl⟩
      obtain ⟨t0, ht0, hmin⟩ := exists_min_delay f hfe
      obtain ⟨bad0, h0⟩ := min_part_zero f bad hz t0.delayOf hmin
      by_cases hd : d = t0.delayOf
      · subst hd; exact ⟨bad0, h0⟩
      · -- the rest is shorter and has a vanishing transform off bad ∪ bad0
        have hlen : (f.filter (fun t => !decide (t.delayOf = t0.delayOf))).length ≤ n := by
          have : (f.filter (fun t => !decide (t.delayOf = t0.delayOf))).length < f.length := by
            rw [List.length_filter_lt_length_iff_exists]
            exact ⟨t0, ht0, by simp⟩
          omega
        have hz1 : ∀ s, s ∉ bad ∪ bad0 → L Real.exp (f.filter (fun t => !decide (t.delayOf = t0.delayOf))) s = 0 := by
          intro s hs
          simp only [Finset.mem_union, not_or] at hs
          have := L_filter_split Real.exp (fun t => decide (t.delayOf = t0.delayOf)) f s
          rw [hz s hs.1] at this
          have h0s := h0 s hs.2
          simp only [delayPart] at h0s
          rw [h0s, zero_add] at this
          exact this.symm
        obtain ⟨bad', h'⟩ := ih _ hlen _ hz1 d
        refine ⟨bad', fun s hs => ?_⟩
        rw [← delayPart_filter_ne d t0.delayOf hd f]
        exact h' s hs
  intro f bad hz d
  exact main f.length f le_rfl bad hz d

end real
end Lcapy.TD
