/-
  C17 -- helper lemmas for the model of `Expr.evaluate`'s `limit` fallbacks (Model/EvalLimit.lean):
  synthetic division by (t - a), cancellation of the common power of (t - a), and the shape of `limitAt`.
  Everything over `Rat`, for ALL coefficient lists / points.
-/
import Mathlib.Tactic.Ring
import Mathlib.Tactic.FieldSimp
import Mathlib.Tactic.Linarith
import Mathlib.Tactic.NormNum
import Mathlib.Algebra.Field.Basic
import Mathlib.Algebra.Order.Field.Rat
import Lcapy.Model.EvalLimit

namespace Lcapy.EvalLimit
open Lcapy.DT (peval)
open Lcapy.Evaluate (Out)

/-! ### polynomial evaluation (local copies of the two one-liners of Proofs/DT2, at K = Rat) -/

theorem pevalQ_nil (w : Rat) : peval ([] : List Rat) w = 0 := rfl
theorem pevalQ_cons (c : Rat) (p : List Rat) (w : Rat) : peval (c :: p) w = c + w * peval p w := rfl

/-! ### synthetic division -/

theorem divLin_nil (a : Rat) : divLin [] a = ([], 0) := rfl
theorem divLin_cons (c : Rat) (p : List Rat) (a : Rat) :
    divLin (c :: p) a = ((divLin p a).2 :: (divLin p a).1, c + a * (divLin p a).2) := rfl

/-- `p(t) = (t - a) * quot(t) + rem` at every t -/
theorem divLin_eval (p : List Rat) (a t : Rat) :
    peval p t = (t - a) * peval (divLin p a).1 t + (divLin p a).2 := by
  induction p with
  | nil => simp [divLin_nil, pevalQ_nil]
  | cons c p ih =>
    rw [divLin_cons, pevalQ_cons, pevalQ_cons, ih]
    ring

/-- the remainder is the value at a -/
theorem divLin_rem_eq (p : List Rat) (a : Rat) : (divLin p a).2 = peval p a := by
  have h := divLin_eval p a a
  rw [sub_self, zero_mul, zero_add] at h
  exact h.symm

/-- the quotient list keeps the length (its top coefficient is a padding zero) -/
theorem divLin_length (p : List Rat) (a : Rat) : (divLin p a).1.length = p.length := by
  induction p with
  | nil => rfl
  | cons c p ih => rw [divLin_cons]; simp [ih]

/-- at a root the division is exact -/
theorem divLin_exact (p : List Rat) (a t : Rat) (h : peval p a = 0) :
    peval p t = (t - a) * peval (divLin p a).1 t := by
  have := divLin_eval p a t
  rw [divLin_rem_eq, h, add_zero] at this
  exact this

/-! ### cancellation -/

theorem cancelAt_zero (p q : List Rat) (a : Rat) : cancelAt 0 p q a = (p, q) := rfl

theorem cancelAt_succ (n : Nat) (p q : List Rat) (a : Rat) :
    cancelAt (n + 1) p q a =
      if peval p a = 0 ∧ peval q a = 0 ∧ q.length > 1 then cancelAt n (divLin p a).1 (divLin q a).1 a else (p, q) := rfl

/-- p/q and the cancelled fraction are the same function, in cross-multiplied form, at EVERY t -/
theorem cancelAt_cross (n : Nat) (p q : List Rat) (a t : Rat) :
    peval p t * peval (cancelAt n p q a).2 t = peval (cancelAt n p q a).1 t * peval q t := by
  induction n generalizing p q with
  | zero => rfl
  | succ n ih =>
    rw [cancelAt_succ]
    split_ifs with hc
    · obtain ⟨hp, hq, _⟩ := hc
      have h := ih (divLin p a).1 (divLin q a).1
      rw [divLin_exact p a t hp, divLin_exact q a t hq]
      calc (t - a) * peval (divLin p a).1 t * peval (cancelAt n (divLin p a).1 (divLin q a).1 a).2 t
          = (t - a) * (peval (divLin p a).1 t * peval (cancelAt n (divLin p a).1 (divLin q a).1 a).2 t) := by ring
        _ = (t - a) * (peval (cancelAt n (divLin p a).1 (divLin q a).1 a).1 t * peval (divLin q a).1 t) := by rw [h]
        _ = _ := by ring
    · rfl

/-- q(t) = (t - a)^k q'(t): the cancelled denominator divides the original one -/
theorem cancelAt_den_factor (n : Nat) (p q : List Rat) (a t : Rat) :
    ∃ k : Nat, peval q t = (t - a) ^ k * peval (cancelAt n p q a).2 t := by
  induction n generalizing p q with
  | zero => exact ⟨0, by rw [cancelAt_zero, pow_zero, one_mul]⟩
  | succ n ih =>
    rw [cancelAt_succ]
    split_ifs with hc
    · obtain ⟨_, hq, _⟩ := hc
      obtain ⟨k, hk⟩ := ih (divLin p a).1 (divLin q a).1
      exact ⟨k + 1, by rw [divLin_exact q a t hq, hk]; ring⟩
    · exact ⟨0, by rw [pow_zero, one_mul]⟩

/-- ... and likewise the numerator, with the SAME power -/
theorem cancelAt_factor (n : Nat) (p q : List Rat) (a t : Rat) :
    ∃ k : Nat, peval p t = (t - a) ^ k * peval (cancelAt n p q a).1 t ∧
      peval q t = (t - a) ^ k * peval (cancelAt n p q a).2 t := by
  induction n generalizing p q with
  | zero => exact ⟨0, by rw [cancelAt_zero, pow_zero, one_mul, one_mul]; exact ⟨rfl, rfl⟩⟩
  | succ n ih =>
    rw [cancelAt_succ]
    split_ifs with hc
    · obtain ⟨hp, hq, _⟩ := hc
      obtain ⟨k, hk1, hk2⟩ := ih (divLin p a).1 (divLin q a).1
      exact ⟨k + 1, by rw [divLin_exact p a t hp, hk1]; ring, by rw [divLin_exact q a t hq, hk2]; ring⟩
    · exact ⟨0, by rw [pow_zero, one_mul, one_mul]; exact ⟨rfl, rfl⟩⟩

/-- where q does not vanish the cancelled denominator does not vanish -/
theorem cancelAt_den_ne (n : Nat) (p q : List Rat) (a t : Rat) (hq : peval q t ≠ 0) :
    peval (cancelAt n p q a).2 t ≠ 0 := by
  obtain ⟨k, hk⟩ := cancelAt_den_factor n p q a t
  intro h0
  apply hq
  rw [hk, h0, mul_zero]

/-- nothing is cancelled when the numerator does not vanish at a -/
theorem cancelAt_of_num_ne (n : Nat) (p q : List Rat) (a : Rat) (hp : peval p a ≠ 0) : cancelAt n p q a = (p, q) := by
  cases n with
  | zero => rfl
  | succ n =>
    rw [cancelAt_succ, if_neg]
    exact fun h => hp h.1

/-- nothing is cancelled when the denominator does not vanish at a -/
theorem cancelAt_of_den_ne (n : Nat) (p q : List Rat) (a : Rat) (hq : peval q a ≠ 0) : cancelAt n p q a = (p, q) := by
  cases n with
  | zero => rfl
  | succ n =>
    rw [cancelAt_succ, if_neg]
    exact fun h => hq h.2.1

/-! ### `limitAt` -/

theorem limitAt_eq_some (p q : List Rat) (a v : Rat) :
    limitAt p q a = some v ↔
      peval (cancelAt q.length p q a).2 a ≠ 0 ∧
        v = peval (cancelAt q.length p q a).1 a / peval (cancelAt q.length p q a).2 a := by
  unfold limitAt
  simp only
  split_ifs with h
  · simp [h]
  · simp only [Option.some.injEq, ne_eq, h, not_false_eq_true, true_and]
    exact eq_comm

/-- a genuine pole (numerator non-zero, denominator zero): SymPy's limit is ±oo -/
theorem limitAt_pole (p q : List Rat) (a : Rat) (hp : peval p a ≠ 0) (hq : peval q a = 0) : limitAt p q a = none := by
  unfold limitAt
  simp only [cancelAt_of_num_ne _ p q a hp, hq, if_true]

/-- at a regular point the limit is the value -/
theorem limitAt_regular (p q : List Rat) (a : Rat) (hq : peval q a ≠ 0) :
    limitAt p q a = some (peval p a / peval q a) := by
  unfold limitAt
  simp only [cancelAt_of_den_ne _ p q a hq, if_neg hq]

theorem outOfLimit_eq_val (o : Option Rat) (v : Rat) : outOfLimit o = .val v ↔ o = some v := by
  cases o <;> simp [outOfLimit]

/-! ### `evalRatfun` unfolded by cases -/

theorem evalRatfun_regular (pyFloat : Bool) (p q : List Rat) (x : Rat) (hq : peval q x ≠ 0) :
    evalRatfun pyFloat p q x = (.direct, .val (peval p x / peval q x)) := by
  unfold evalRatfun
  rw [if_pos hq]

theorem evalRatfun_scalar_zero (p q : List Rat) (x : Rat) (hq : peval q x = 0) :
    evalRatfun true p q x = (.zeroDivLimit, outOfLimit (limitAt p q x)) := by
  unfold evalRatfun
  rw [if_neg (not_not.mpr hq)]
  rfl

theorem evalRatfun_array_nan (p q : List Rat) (x : Rat) (hq : peval q x = 0) (hp : peval p x = 0) :
    evalRatfun false p q x = (.nanLimit, outOfLimit (limitAt p q x)) := by
  unfold evalRatfun
  rw [if_neg (not_not.mpr hq)]
  simp [hp]

theorem evalRatfun_array_inf (p q : List Rat) (x : Rat) (hq : peval q x = 0) (hp : peval p x ≠ 0) :
    evalRatfun false p q x = (.infSimplifyLimit, .other) := by
  unfold evalRatfun
  rw [if_neg (not_not.mpr hq)]
  simp [hp]

end Lcapy.EvalLimit
