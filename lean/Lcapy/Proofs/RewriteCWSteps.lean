/-
  Helper lemmas for C05, round 3: the steps of `s_model` and of the killed noise model are
  simulations (built on `series_pair` of Props/C05.lean), and allotments that are pairwise apart
  give pairwise separated steps.
-/
import Lcapy.Proofs.RewriteCW
import Lcapy.Props.C05
namespace Lcapy.C05
open Lcapy.MNA Lcapy.Rewrite Ix
variable {K : Type} [Field K]
set_option linter.unusedSectionVars false

/-- a component together with the dummy node and the branch index the rewrite allots to it -/
structure Alloc (K : Type) where
  c : Cpt K
  d : Nat
  b : Nat

/-- branch current owned by an uncoupled inductor (it vanishes or moves to the new source) -/
def indBr : Cpt K → List Ix
  | .Ind _ _ m _ _ [] => [br m]
  | _ => []

/-- every unknown either side of the step can read -/
def Alloc.touch (a : Alloc K) : List Ix := mentions a.c ++ [node a.d, br a.b]

/-- the unknowns that may be private to the step -/
def Alloc.priv (a : Alloc K) : List Ix := [node a.d, br a.b] ++ indBr a.c

/-- the dummy node is a new non-ground node, unused by the component (branch indices are kept apart from the OTHER
    steps by `Apart` / `Rw.Sep`; an inductor's source inherits the inductor's own branch index) -/
def Alloc.Fresh (a : Alloc K) : Prop := a.d ≠ 0 ∧ node a.d ∉ mentions a.c

/-- nothing of step `q` touches what may be private to step `p` -/
def Alloc.Apart (p q : Alloc K) : Prop := ∀ i ∈ p.priv, i ∉ q.touch

/-- side conditions of `_s_model` at the point `s`: inductors are uncoupled and have s·L ≠ 0 -/
def Alloc.OK (s : K) (a : Alloc K) : Prop :=
  a.Fresh ∧ match a.c with
    | .Ind _ _ _ l _ coup => coup = [] ∧ s * l ≠ 0
    | _ => True

variable [DecidableEq K]

def Alloc.sRw (s : K) (a : Alloc K) : Rw K := ⟨[a.c], sModelCpt s a.d a.b a.c, sModelHidden a.d a.b a.c⟩
def Alloc.sRwBack (s : K) (a : Alloc K) : Rw K := ⟨sModelCpt s a.d a.b a.c, [a.c], sModelHidden a.d a.b a.c⟩

/-- the s-domain model of the whole netlist -/
def sModel (s : K) (ps : List (Alloc K)) : List (Cpt K) := ps.flatMap (fun a => sModelCpt s a.d a.b a.c)

/-- the unknowns that exist on one side only -/
def sHidden (ps : List (Alloc K)) : List Ix := ps.flatMap (fun a => sModelHidden a.d a.b a.c)

theorem sModelHidden_sub (a : Alloc K) (i : Ix) (h : i ∈ sModelHidden a.d a.b a.c) : i ∈ a.priv := by
  obtain ⟨c, d, b⟩ := a
  cases c with
  | Cap n1 n2 c v0 =>
    simp only [sModelHidden] at h
    split at h
    · cases h
    · simp only [Alloc.priv, List.mem_append]; exact Or.inl h
  | Ind n1 n2 m l i0 coup =>
    cases coup with
    | nil =>
      simp only [sModelHidden] at h
      simp only [Alloc.priv, indBr, List.mem_append, List.mem_cons, List.mem_nil_iff, or_false]
      split at h <;> simp only [List.mem_cons, List.mem_nil_iff, or_false] at h
      · exact Or.inr h
      · rcases h with h | h
        · exact Or.inl (Or.inl h)
        · exact Or.inr h
    | cons _ _ => simp [sModelHidden] at h
  | _ => simp [sModelHidden] at h

theorem mentions_sModelCpt (s : K) (a : Alloc K) (c' : Cpt K) (hc : c' ∈ sModelCpt s a.d a.b a.c) (i : Ix)
    (hi : i ∈ mentions c') : i ∈ a.touch := by
  obtain ⟨c, d, b⟩ := a
  simp only [Alloc.touch, List.mem_append, List.mem_cons, List.mem_nil_iff, or_false]
  cases c with
  | R n1 n2 r =>
    simp only [sModelCpt, List.mem_cons, List.mem_nil_iff, or_false] at hc; subst hc
    left; simpa [mentions] using hi
  | Y n1 n2 y =>
    simp only [sModelCpt, List.mem_cons, List.mem_nil_iff, or_false] at hc; subst hc
    left; simpa [mentions] using hi
  | Cap n1 n2 c v0 =>
    simp only [sModelCpt] at hc
    split at hc
    · simp only [List.mem_cons, List.mem_nil_iff, or_false] at hc; subst hc
      left; simpa [mentions] using hi
    · simp only [List.mem_cons, List.mem_nil_iff, or_false] at hc
      rcases hc with rfl | rfl <;> simp [mentions] at hi ⊢ <;> grind
  | Ind n1 n2 m l i0 coup =>
    cases coup with
    | nil =>
      simp only [sModelCpt] at hc
      split at hc
      · simp only [List.mem_cons, List.mem_nil_iff, or_false] at hc; subst hc
        simp [mentions] at hi ⊢; grind
      · simp only [List.mem_cons, List.mem_nil_iff, or_false] at hc
        rcases hc with rfl | rfl <;> simp [mentions] at hi ⊢ <;> grind
    | cons _ _ =>
      simp only [sModelCpt, List.mem_cons, List.mem_nil_iff, or_false] at hc; subst hc
      exact Or.inl hi
  | _ =>
    simp only [sModelCpt, List.mem_cons, List.mem_nil_iff, or_false] at hc; subst hc
    exact Or.inl hi

theorem apart_sep (s : K) (p q : Alloc K) (h : p.Apart q) :
    (p.sRw s).Sep (q.sRw s) ∧ (p.sRwBack s).Sep (q.sRwBack s) := by
  have key : ∀ c ∈ [q.c] ++ sModelCpt s q.d q.b q.c, ∀ i ∈ mentions c, i ∉ sModelHidden p.d p.b p.c := by
    intro c hc i hi hmem
    have hp := sModelHidden_sub p i hmem
    refine h i hp ?_
    rcases List.mem_append.mp hc with hc | hc
    · simp only [List.mem_cons, List.mem_nil_iff, or_false] at hc; subst hc
      exact List.mem_append_left _ hi
    · exact mentions_sModelCpt s q c hc i hi
  constructor
  · exact key
  · intro c hc; exact key c (by
      simp only [Alloc.sRwBack] at hc
      rcases List.mem_append.mp hc with h | h
      · exact List.mem_append_right _ h
      · exact List.mem_append_left _ h)

theorem sep_back (s : K) (p q : Alloc K) (h : (p.sRw s).Sep (q.sRw s)) : (p.sRwBack s).Sep (q.sRwBack s) := by
  intro c hc
  apply h c
  simp only [Alloc.sRwBack, Alloc.sRw] at hc ⊢
  rcases List.mem_append.mp hc with h' | h'
  · exact List.mem_append_right _ h'
  · exact List.mem_append_left _ h'

/-- one step of `_s_model` is a simulation in both directions (initial-value analysis at `s ≠ 0`) -/
theorem sModel_step (s : K) (hs : s ≠ 0) (a : Alloc K) (hok : a.OK s) :
    Simulates .ivp s (AllBut' (sModelHidden a.d a.b a.c)) [a.c] (sModelCpt s a.d a.b a.c) ∧
    Simulates .ivp s (AllBut' (sModelHidden a.d a.b a.c)) (sModelCpt s a.d a.b a.c) [a.c] := by
  obtain ⟨c, d, b⟩ := a
  obtain ⟨⟨hd0, hdn⟩, hc⟩ := hok
  cases c with
  | R n1 n2 r => exact sim_R_Y .ivp s _ n1 n2 r
  | Y n1 n2 y => exact sim_Y_Y .ivp s _ n1 n2 y
  | Cap n1 n2 c v0 =>
    simp only [sModelCpt, sModelHidden]
    split
    · rename_i h0; exact sim_C_Y .ivp (Or.inr rfl) s _ n1 n2 c v0 h0
    · have hd1 : d ≠ n1 := by intro h; apply hdn; simp [mentions, h]
      have hd2 : d ≠ n2 := by intro h; apply hdn; simp [mentions, h]
      have hser : ∀ v i, TT.rel .ivp s (.C c v0) v i ↔
          chainRel .ivp s [.Y (1 / (1 / (s * c))), .V (icv v0 / s)] v i := by
        intro v i
        rw [chainRel_pair]
        simp only [TT.rel, capCurrent_ivp, one_div_one_div]
        constructor
        · intro h; exact ⟨v - icv v0 / s, icv v0 / s, by ring, by rw [h]; field_simp, rfl⟩
        · rintro ⟨v1, v2, rfl, h1, rfl⟩; rw [h1]; field_simp; ring
      have := series_pair .ivp s (.Y (1 / (1 / (s * c)))) (.V (icv v0 / s)) (.C c v0) n1 d n2 b b b hd0 hd1 hd2 hser
      constructor
      · exact this.2.mono (by intro i hi; simp [AllBut, AllBut'] at hi ⊢; tauto)
      · exact this.1.mono (by intro i hi; simp [AllBut, AllBut'] at hi ⊢; tauto)
  | Ind n1 n2 m l i0 coup =>
    obtain ⟨rfl, hsl⟩ := hc
    simp only [sModelCpt, sModelHidden]
    split
    · rename_i h0; exact sim_L_Y s n1 n2 m l i0 h0 hsl
    · have hd1 : d ≠ n1 := by intro h; apply hdn; simp [mentions, h]
      have hd2 : d ≠ n2 := by intro h; apply hdn; simp [mentions, h]
      have hser : ∀ v i, TT.rel .ivp s (.L l i0) v i ↔
          chainRel .ivp s [.Y (1 / (s * l)), .V (-(l * icv i0))] v i := by
        intro v i
        rw [chainRel_pair]
        simp only [TT.rel]
        constructor
        · intro h; exact ⟨s * l * i, -(l * icv i0), by rw [h]; ring, by rw [one_div, inv_mul_cancel_left₀ hsl], rfl⟩
        · rintro ⟨v1, v2, rfl, h1, rfl⟩; rw [h1, one_div, mul_inv_cancel_left₀ hsl]; ring
      have := series_pair .ivp s (.Y (1 / (s * l))) (.V (-(l * icv i0))) (.L l i0) n1 d n2 m m m hd0 hd1 hd2 hser
      constructor
      · exact this.2.mono (by intro i hi; simp [AllBut, AllBut'] at hi ⊢; tauto)
      · exact this.1.mono (by intro i hi; simp [AllBut, AllBut'] at hi ⊢; tauto)
  | _ => exact ⟨Simulates.refl _ _ _ _, Simulates.refl _ _ _ _⟩


theorem flatMap_single {α β : Type} (f : α → β) (l : List α) : l.flatMap (fun a => [f a]) = l.map f := by
  induction l with
  | nil => rfl
  | cons h t ih => simp [ih]

theorem sModel_kindFree (s : K) (ps : List (Alloc K)) (hok : ∀ a ∈ ps, a.OK s) :
    ∀ c ∈ sModel s ps, c.kindFree = true := by
  intro c hc
  obtain ⟨a, ha, hca⟩ := List.mem_flatMap.mp hc
  have hoka := (hok a ha).2
  obtain ⟨c0, d, b⟩ := a
  cases c0 with
  | Cap n1 n2 cc v0 =>
    simp only [sModelCpt] at hca
    split at hca <;> simp only [List.mem_cons, List.mem_nil_iff, or_false] at hca
    · subst hca; rfl
    · rcases hca with rfl | rfl <;> rfl
  | Ind n1 n2 m l i0 coup =>
    obtain ⟨rfl, _⟩ := hoka
    simp only [sModelCpt] at hca
    split at hca <;> simp only [List.mem_cons, List.mem_nil_iff, or_false] at hca
    · subst hca; rfl
    · rcases hca with rfl | rfl <;> rfl
  | _ => simp only [sModelCpt, List.mem_cons, List.mem_nil_iff, or_false] at hca; subst hca; rfl

omit [DecidableEq K] in
/-- one resistor split into a noiseless resistor and a dead series source -/
theorem noisy_step (kind : Kind) (s : K) (a : Alloc K) (hf : a.Fresh) :
    Simulates kind s (AllBut' (noisyHidden a.d a.b a.c)) [a.c] (noisyKilledCpt a.d a.b a.c) ∧
    Simulates kind s (AllBut' (noisyHidden a.d a.b a.c)) (noisyKilledCpt a.d a.b a.c) [a.c] := by
  obtain ⟨c, d, b⟩ := a
  obtain ⟨hd0, hdn⟩ := hf
  cases c with
  | R n1 n2 r =>
    have hd1 : d ≠ n1 := by intro h; apply hdn; simp [mentions, h]
    have hd2 : d ≠ n2 := by intro h; apply hdn; simp [mentions, h]
    have hser : ∀ v i, TT.rel kind s (.R r) v i ↔ chainRel kind s [.R r, .V 0] v i := by
      intro v i
      rw [chainRel_pair]
      simp only [TT.rel]
      constructor
      · intro h; exact ⟨v, 0, by ring, h, rfl⟩
      · rintro ⟨v1, v2, rfl, h1, rfl⟩; rw [h1]; ring
    have := series_pair kind s (.R r) (.V 0) (.R r) n1 d n2 b b b hd0 hd1 hd2 hser
    constructor
    · exact this.2.mono (by intro i hi; simp [AllBut, AllBut', noisyHidden] at hi ⊢; tauto)
    · exact this.1.mono (by intro i hi; simp [AllBut, AllBut', noisyHidden] at hi ⊢; tauto)
  | _ => exact ⟨Simulates.refl _ _ _ _, Simulates.refl _ _ _ _⟩

omit [DecidableEq K] in
theorem noisy_sep (p q : Alloc K) (h : p.Apart q) :
    Rw.Sep ⟨[p.c], noisyKilledCpt p.d p.b p.c, noisyHidden p.d p.b p.c⟩ ⟨[q.c], noisyKilledCpt q.d q.b q.c, noisyHidden q.d q.b q.c⟩ ∧
    Rw.Sep ⟨noisyKilledCpt p.d p.b p.c, [p.c], noisyHidden p.d p.b p.c⟩ ⟨noisyKilledCpt q.d q.b q.c, [q.c], noisyHidden q.d q.b q.c⟩ := by
  have hsub : ∀ i ∈ noisyHidden p.d p.b p.c, i ∈ p.priv := by
    intro i hi
    obtain ⟨c, d, b⟩ := p
    cases c <;> simp [noisyHidden] at hi
    simp only [Alloc.priv, List.mem_append, List.mem_cons, List.mem_nil_iff, or_false]; exact Or.inl hi
  have hmen : ∀ c' ∈ noisyKilledCpt q.d q.b q.c, ∀ i ∈ mentions c', i ∈ q.touch := by
    intro c' hc' i hi
    obtain ⟨c, d, b⟩ := q
    simp only [Alloc.touch, List.mem_append, List.mem_cons, List.mem_nil_iff, or_false]
    cases c with
    | R n1 n2 r =>
      simp only [noisyKilledCpt, List.mem_cons, List.mem_nil_iff, or_false] at hc'
      rcases hc' with rfl | rfl <;> simp [mentions] at hi ⊢ <;> grind
    | _ => simp only [noisyKilledCpt, List.mem_cons, List.mem_nil_iff, or_false] at hc'; subst hc'; exact Or.inl hi
  have key : ∀ c ∈ [q.c] ++ noisyKilledCpt q.d q.b q.c, ∀ i ∈ mentions c, i ∉ noisyHidden p.d p.b p.c := by
    intro c hc i hi hmem
    refine h i (hsub i hmem) ?_
    rcases List.mem_append.mp hc with hc | hc
    · simp only [List.mem_cons, List.mem_nil_iff, or_false] at hc; subst hc
      exact List.mem_append_left _ hi
    · exact hmen c hc i hi
  refine ⟨key, fun c hc => key c ?_⟩
  rcases List.mem_append.mp hc with h | h
  · exact List.mem_append_right _ h
  · exact List.mem_append_left _ h


end Lcapy.C05
