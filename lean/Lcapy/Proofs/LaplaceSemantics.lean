/-
  C09: pointwise meaning of the operations with which `sem` (Model/Laplace.lean) builds formal signals, over ℂ with the true
  exponential: every smooth factor (`t^k`, `a t + b`, `e^{at}`, `sin/cos(ωt+φ)`, `sinh/cosh(at)`) acts on a delta-free signal
  as multiplication by the function it denotes (`applySmooth_pointwise`).  Together with `lt_is_integral` this makes the
  specification value of a product of smooth factors and a step the defining integral (`smooth_product_is_integral`).
-/
import Lcapy.Proofs.LaplaceIntegral
import Lcapy.Proofs.LaplaceEntries
namespace Lcapy.Laplace
open MeasureTheory Set

/-- delta-free with non-negative real delays -/
def Regular (f : ExpPoly ℂ) : Prop := NoDelta f ∧ RealDelays f

theorem regular_cons_iff (x : Term ℂ) (f : ExpPoly ℂ) : Regular (x :: f) ↔ Regular [x] ∧ Regular f := by
  simp only [Regular, NoDelta, RealDelays, List.mem_cons, forall_eq_or_imp, List.not_mem_nil, or_false, forall_eq]
  tauto

theorem regular_nil : Regular [] := ⟨fun _ h => by simp at h, fun _ h => by simp at h⟩

theorem regular_append {f g : ExpPoly ℂ} (hf : Regular f) (hg : Regular g) : Regular (f ++ g) :=
  ⟨fun t ht => (List.mem_append.mp ht).elim (hf.1 t) (hg.1 t), fun t ht => (List.mem_append.mp ht).elim (hf.2 t) (hg.2 t)⟩

theorem regular_ep_iff (c : ℂ) (k : ℕ) (p d : ℂ) : Regular [Term.ep c k p d] ↔ d.im = 0 ∧ 0 ≤ d.re := by
  simp [Regular, NoDelta, RealDelays, Term.delayOf]

theorem not_regular_dl (c : ℂ) (n : ℕ) (d : ℂ) : ¬ Regular [Term.dl c n d] := by
  simp [Regular, NoDelta]

theorem timeFn_nil (t : ℝ) : timeFn [] t = 0 := by simp [timeFn]
theorem timeFn_cons (x : Term ℂ) (f : ExpPoly ℂ) (t : ℝ) : timeFn (x :: f) t = x.timeFn t + timeFn f t := by simp [timeFn]
theorem timeFn_append (f g : ExpPoly ℂ) (t : ℝ) : timeFn (f ++ g) t = timeFn f t + timeFn g t := by
  simp [timeFn]

/-- structural induction principle for flatMap-style operations on regular signals -/
theorem flatMap_pointwise (op : Term ℂ → ExpPoly ℂ) (m : ℝ → ℂ)
    (h : ∀ c k p d, d.im = 0 → 0 ≤ d.re → Regular (op (.ep c k p d)) ∧ ∀ t, timeFn (op (.ep c k p d)) t = m t * (Term.ep c k p d).timeFn t)
    (f : ExpPoly ℂ) (hf : Regular f) :
    Regular (f.flatMap op) ∧ ∀ t, timeFn (f.flatMap op) t = m t * timeFn f t := by
  induction f with
  | nil => exact ⟨by simpa using regular_nil, fun t => by simp [timeFn]⟩
  | cons x f ih =>
    rw [regular_cons_iff] at hf
    obtain ⟨r1, e1⟩ := ih hf.2
    cases x with
    | dl c n d => exact absurd hf.1 (not_regular_dl c n d)
    | ep c k p d =>
      obtain ⟨hd1, hd2⟩ := (regular_ep_iff c k p d).mp hf.1
      obtain ⟨r0, e0⟩ := h c k p d hd1 hd2
      refine ⟨by simpa [List.flatMap_cons] using regular_append r0 r1, fun t => ?_⟩
      rw [List.flatMap_cons, timeFn_append, timeFn_cons, e0, e1, mul_add]

theorem map_eq_flatMap_single {α β : Type} (g : α → β) (l : List α) : l.map g = l.flatMap (fun x => [g x]) := by
  induction l with
  | nil => rfl
  | cons x l ih => simp [List.flatMap_cons, ih]

theorem smul_pointwise (a : ℂ) (f : ExpPoly ℂ) (hf : Regular f) :
    Regular (smul a f) ∧ ∀ t, timeFn (smul a f) t = a * timeFn f t := by
  have : smul a f = f.flatMap (fun x => [Term.smul a x]) := map_eq_flatMap_single _ f
  rw [this]
  refine flatMap_pointwise _ (fun _ => a) (fun c k p d hd1 hd2 => ⟨by simpa [Term.smul] using (regular_ep_iff _ k p d).mpr ⟨hd1, hd2⟩, fun t => ?_⟩) f hf
  simp only [Term.smul, timeFn_cons, timeFn_nil, add_zero, Term.timeFn]
  split_ifs <;> ring

theorem expWeight_pointwise (a : ℂ) (f : ExpPoly ℂ) (hf : Regular f) :
    Regular (expWeight Complex.exp a f) ∧ ∀ t, timeFn (expWeight Complex.exp a f) t = Complex.exp (a * t) * timeFn f t := by
  refine flatMap_pointwise _ (fun t => Complex.exp (a * t)) (fun c k p d hd1 hd2 => ⟨by simpa [Term.expWeight] using (regular_ep_iff _ k _ d).mpr ⟨hd1, hd2⟩, fun t => ?_⟩) f hf
  have hd : d = (d.re : ℂ) := by apply Complex.ext <;> simp [hd1]
  simp only [Term.expWeight, timeFn_cons, timeFn_nil, add_zero, Term.timeFn]
  split_ifs
  · have : Complex.exp (a * (t : ℂ)) = Complex.exp (a * d) * Complex.exp (a * ((t - d.re : ℝ) : ℂ)) := by
      rw [← Complex.exp_add]; congr 1; rw [hd]; push_cast; simp; ring
    rw [this, add_mul, Complex.exp_add]; ring
  · simp

theorem tmul_pointwise (f : ExpPoly ℂ) (hf : Regular f) :
    Regular (tmul f) ∧ ∀ t, timeFn (tmul f) t = (t : ℂ) * timeFn f t := by
  refine flatMap_pointwise _ (fun t => (t : ℂ)) (fun c k p d hd1 hd2 => ⟨?_, fun t => ?_⟩) f hf
  · simp only [Term.tmul]
    rw [regular_cons_iff]
    exact ⟨(regular_ep_iff _ _ p d).mpr ⟨hd1, hd2⟩, (regular_ep_iff _ k p d).mpr ⟨hd1, hd2⟩⟩
  · have hd : d = (d.re : ℂ) := by apply Complex.ext <;> simp [hd1]
    simp only [Term.tmul, timeFn_cons, timeFn_nil, add_zero, Term.timeFn, ofN_eq]
    have hk : ((k + 1).factorial : ℂ) = ((k : ℂ) + 1) * (k.factorial : ℂ) := by
      rw [Nat.factorial_succ]; push_cast; ring
    have hk0 : (k.factorial : ℂ) ≠ 0 := by exact_mod_cast k.factorial_ne_zero
    have hk1 : ((k : ℂ) + 1) ≠ 0 := by exact_mod_cast Nat.succ_ne_zero k
    split_ifs
    · rw [hk]
      have ht : (t : ℂ) = ((t - d.re : ℝ) : ℂ) + d := by rw [hd]; push_cast; simp
      rw [ht]; push_cast
      field_simp
      rw [hd]; simp; ring
    · simp

end Lcapy.Laplace

namespace Lcapy.Laplace
open MeasureTheory Set

/-- the function of real time that a smooth factor denotes -/
noncomputable def atomFn : Atom ℂ → ℝ → ℂ
  | .tpow k, t => (t : ℂ) ^ k
  | .lin a b, t => a * t + b
  | .exp a, t => Complex.exp (a * t)
  | .expb a b, t => Complex.exp (a * t + b)
  | .trig false w ph, t => Complex.sin (w * t + ph)
  | .trig true w ph, t => Complex.cos (w * t + ph)
  | .hyp false a, t => Complex.sinh (a * t)
  | .hyp true a, t => Complex.cosh (a * t)
  | _, _ => 1

theorem iter_tmul_pointwise (k : ℕ) (f : ExpPoly ℂ) (hf : Regular f) :
    Regular (iter tmul k f) ∧ ∀ t, timeFn (iter tmul k f) t = (t : ℂ) ^ k * timeFn f t := by
  induction k with
  | zero => exact ⟨hf, fun t => by simp [iter]⟩
  | succ k ih =>
    obtain ⟨r, e⟩ := tmul_pointwise _ ih.1
    exact ⟨r, fun t => by simp only [iter]; rw [e, ih.2]; ring⟩

/-- every smooth factor acts on a regular signal as multiplication by the function it denotes -/
theorem applySmooth_pointwise (x : Atom ℂ) (f : ExpPoly ℂ) (hf : Regular f) :
    Regular (applySmooth Complex.exp Complex.I f x) ∧
    ∀ t, timeFn (applySmooth Complex.exp Complex.I f x) t = atomFn x t * timeFn f t := by
  have hI : Complex.I ≠ 0 := Complex.I_ne_zero
  cases x with
  | tpow k => exact iter_tmul_pointwise k f hf
  | lin a b =>
    obtain ⟨r1, e1⟩ := tmul_pointwise f hf
    obtain ⟨r2, e2⟩ := smul_pointwise a _ r1
    obtain ⟨r3, e3⟩ := smul_pointwise b f hf
    exact ⟨regular_append r2 r3, fun t => by simp only [applySmooth, atomFn, timeFn_append, e2, e1, e3]; ring⟩
  | exp a => exact expWeight_pointwise a f hf
  | expb a b =>
    obtain ⟨r1, e1⟩ := expWeight_pointwise a f hf
    obtain ⟨r2, e2⟩ := smul_pointwise (Complex.exp b) _ r1
    exact ⟨r2, fun t => by simp only [applySmooth, atomFn, e2, e1, Complex.exp_add]; ring⟩
  | trig isCos w ph =>
    obtain ⟨r1, e1⟩ := expWeight_pointwise (Complex.I * w) f hf
    obtain ⟨r2, e2⟩ := expWeight_pointwise (-(Complex.I * w)) f hf
    cases isCos
    · obtain ⟨r3, e3⟩ := smul_pointwise (Complex.exp (Complex.I * ph) / (2 * Complex.I)) _ r1
      obtain ⟨r4, e4⟩ := smul_pointwise (-(Complex.exp (-(Complex.I * ph)) / (2 * Complex.I))) _ r2
      refine ⟨by simpa only [applySmooth, two_eq] using regular_append r3 r4, fun t => ?_⟩
      simp only [applySmooth, atomFn, timeFn_append, e3, e4, e1, e2, two_eq, Complex.sin]
      have a1 : Complex.exp ((w * t + ph) * Complex.I) = Complex.exp (Complex.I * ph) * Complex.exp (Complex.I * w * t) := by
        rw [← Complex.exp_add]; congr 1; ring
      have a2 : Complex.exp (-(w * t + ph) * Complex.I) = Complex.exp (-(Complex.I * ph)) * Complex.exp (-(Complex.I * w) * t) := by
        rw [← Complex.exp_add]; congr 1; ring
      rw [a1, a2]
      field_simp
      ring_nf
      rw [Complex.I_sq]; ring
    · obtain ⟨r3, e3⟩ := smul_pointwise (Complex.exp (Complex.I * ph) / 2) _ r1
      obtain ⟨r4, e4⟩ := smul_pointwise (Complex.exp (-(Complex.I * ph)) / 2) _ r2
      refine ⟨by simpa only [applySmooth, two_eq] using regular_append r3 r4, fun t => ?_⟩
      simp only [applySmooth, atomFn, timeFn_append, e3, e4, e1, e2, two_eq, Complex.cos]
      have a1 : Complex.exp ((w * t + ph) * Complex.I) = Complex.exp (Complex.I * ph) * Complex.exp (Complex.I * w * t) := by
        rw [← Complex.exp_add]; congr 1; ring
      have a2 : Complex.exp (-(w * t + ph) * Complex.I) = Complex.exp (-(Complex.I * ph)) * Complex.exp (-(Complex.I * w) * t) := by
        rw [← Complex.exp_add]; congr 1; ring
      rw [a1, a2]
      ring
  | hyp isCosh a =>
    obtain ⟨r1, e1⟩ := expWeight_pointwise a f hf
    obtain ⟨r2, e2⟩ := expWeight_pointwise (-a) f hf
    cases isCosh
    · obtain ⟨r3, e3⟩ := smul_pointwise (1 / 2) _ r1
      obtain ⟨r4, e4⟩ := smul_pointwise (-(1 / 2)) _ r2
      refine ⟨by simpa only [applySmooth, two_eq] using regular_append r3 r4, fun t => ?_⟩
      simp only [applySmooth, atomFn, timeFn_append, e3, e4, e1, e2, two_eq, Complex.sinh]
      rw [show -(a * (t : ℂ)) = -a * t by ring]; ring
    · obtain ⟨r3, e3⟩ := smul_pointwise (1 / 2) _ r1
      obtain ⟨r4, e4⟩ := smul_pointwise (1 / 2) _ r2
      refine ⟨by simpa only [applySmooth, two_eq] using regular_append r3 r4, fun t => ?_⟩
      simp only [applySmooth, atomFn, timeFn_append, e3, e4, e1, e2, two_eq, Complex.cosh]
      rw [show -(a * (t : ℂ)) = -a * t by ring]; ring
  | step a b => exact ⟨hf, fun t => by simp [applySmooth, atomFn]⟩
  | delta n a b => exact ⟨hf, fun t => by simp [applySmooth, atomFn]⟩
  | fn g a b => exact ⟨hf, fun t => by simp [applySmooth, atomFn]⟩

/-- a product of smooth factors acts as the product of the functions they denote -/
theorem smooth_product_pointwise (sm : List (Atom ℂ)) (f : ExpPoly ℂ) (hf : Regular f) :
    Regular (sm.foldl (applySmooth Complex.exp Complex.I) f) ∧
    ∀ t, timeFn (sm.foldl (applySmooth Complex.exp Complex.I) f) t = (sm.map (fun x => atomFn x t)).prod * timeFn f t := by
  induction sm generalizing f with
  | nil => exact ⟨hf, fun t => by simp⟩
  | cons x sm ih =>
    obtain ⟨r, e⟩ := applySmooth_pointwise x f hf
    obtain ⟨r', e'⟩ := ih _ r
    exact ⟨r', fun t => by simp only [List.foldl_cons, List.map_cons, List.prod_cons]; rw [e', e]; ring⟩

/-- the base signals of `semSimple`: a step switched on at `τ ≥ 0` … -/
theorem timeFn_step (c : ℂ) (tau : ℝ) (t : ℝ) : timeFn [Term.ep c 0 0 (tau : ℂ)] t = if tau ≤ t then c else 0 := by
  simp [timeFn, Term.timeFn]

/-- **The specification value is the defining integral** for every product of smooth factors switched on at `τ ≥ 0`
    (`c · Π gᵢ(t) · u(t−τ)`, `gᵢ` powers of `t`, affine factors, real/complex exponentials, sin/cos with phase, sinh/cosh):
    at every `s` right of all poles of the formal signal built by `semSimple`,
    `∫_0^∞ c Π gᵢ(t) u(t−τ) e^{−st} dt = L (sem …) (s)`. -/
theorem smooth_product_is_integral (sm : List (Atom ℂ)) (c : ℂ) (tau : ℝ) (htau : 0 ≤ tau) (s : ℂ)
    (hs : InROC (sm.foldl (applySmooth Complex.exp Complex.I) [Term.ep c 0 0 (tau : ℂ)]) s) :
    ∫ t : ℝ in Ioi (0:ℝ), ((sm.map (fun x => atomFn x t)).prod * (if tau ≤ t then c else 0)) * Complex.exp (-(s * t))
      = L Complex.exp (sm.foldl (applySmooth Complex.exp Complex.I) [Term.ep c 0 0 (tau : ℂ)]) s := by
  have hbase : Regular [Term.ep c 0 0 (tau : ℂ)] := (regular_ep_iff _ _ _ _).mpr ⟨by simp, by simpa using htau⟩
  obtain ⟨r, e⟩ := smooth_product_pointwise sm _ hbase
  rw [← (lt_is_integral _ s r.1 r.2 hs).2]
  congr 1
  funext t
  rw [e, timeFn_step]

end Lcapy.Laplace

/-! ### the `sin_cos` fast path of the code is the defining integral -/
namespace Lcapy.Laplace
open MeasureTheory Set
open scoped ComplexOrder
noncomputable section
attribute [local instance] Classical.propDecidable

/-- environment over ℂ with the true exponential and imaginary unit (no undefined functions) -/
def cenv (s : ℂ) : Env ℂ := { s := s, E := Complex.exp, J := Complex.I, xsig := ⟨[], []⟩, ysig := [], zic := true }

theorem isExp_cexp : IsExp Complex.exp := ⟨Complex.exp_add, Complex.exp_zero⟩

theorem sem_sin_cos (s c : ℂ) (al w ph tau : ℝ) (isCos : Bool) :
    sem (cenv s) (.prod c [.exp (al : ℂ), .trig isCos (w : ℂ) (ph : ℂ), .step 1 (-(tau : ℂ))])
      = some ([Atom.exp (al : ℂ), Atom.trig isCos (w : ℂ) (ph : ℂ)].foldl (applySmooth Complex.exp Complex.I)
          [Term.ep c 0 0 ((max tau 0 : ℝ) : ℂ)]) := by
  have h01 : (0 : ℂ) ≤ 1 := zero_le_one
  simp only [sem, cenv, semProd, expandAtoms, semSimple, List.filterMap, deltaSel, stepSel, offSel, List.filter, isSmooth,
    List.map, List.foldl]
  simp [h01]
  by_cases h : 0 ≤ tau
  · simp [h]
  · have : max tau 0 = 0 := max_eq_right (le_of_not_ge h)
    simp [h, this]


theorem roc_sin_cos (s c : ℂ) (al w ph : ℝ) (isCos : Bool) (d : ℂ) (h : al < s.re) :
    InROC ([Atom.exp (al : ℂ), Atom.trig isCos (w : ℂ) (ph : ℂ)].foldl (applySmooth Complex.exp Complex.I) [Term.ep c 0 0 d]) s := by
  cases isCos <;>
  · intro x hx
    simp [applySmooth, expWeight, Term.expWeight, smul, Term.smul] at hx
    rcases hx with rfl | rfl <;> simpa using h

/-- **the `sin_cos` fast path is the defining integral**: the value of the code's formula (`sinCosFormula`, the mirror of
    `LaplaceTransformer.sin_cos`, compared with the real code on every run) for `c·e^{αt}·sin/cos(ωt+φ)·u(t−τ)` equals
    `∫_0^∞ c e^{αt} sin/cos(ωt+φ) u(t − max(τ,0)) e^{−st} dt` for every `s` with `Re s > α`. -/
theorem sin_cos_is_integral (s c : ℂ) (al w ph tau : ℝ) (isCos : Bool) (h : al < s.re) :
    c * sinCosFormula (cenv s) (al : ℂ) isCos (w : ℂ) (ph : ℂ) (tau : ℂ)
      = ∫ t : ℝ in Ioi (0:ℝ), (Complex.exp (al * t) * ((if isCos then Complex.cos (w * t + ph) else Complex.sin (w * t + ph))
            * (if max tau 0 ≤ t then c else 0))) * Complex.exp (-(s * t)) := by
  have h01 : (0 : ℂ) ≤ 1 := zero_le_one
  have h1 : (cenv s).s - (al : ℂ) - (cenv s).J * (w : ℂ) ≠ 0 := by
    intro h0; have := congrArg Complex.re h0; simp [cenv] at this; linarith
  have h2 : (cenv s).s - (al : ℂ) + (cenv s).J * (w : ℂ) ≠ 0 := by
    intro h0; have := congrArg Complex.re h0; simp [cenv] at this; linarith
  have e1 := sin_cos_entry_gen (cenv s) isExp_cexp (by simp [cenv]) h01 two_ne_zero c (al : ℂ) (w : ℂ) (ph : ℂ) (tau : ℂ) isCos h1 h2
  rw [specValue, sem_sin_cos] at e1
  simp only [Option.map_some, Option.some.injEq] at e1
  rw [← e1]
  have key := smooth_product_is_integral [Atom.exp (al : ℂ), Atom.trig isCos (w : ℂ) (ph : ℂ)] c (max tau 0) (le_max_right _ _) s
    (roc_sin_cos s c al w ph isCos _ h)
  rw [show (cenv s).E = Complex.exp from rfl, show (cenv s).s = s from rfl, ← key]
  congr 1
  funext t
  cases isCos <;> simp [atomFn, mul_assoc]

end
end Lcapy.Laplace
