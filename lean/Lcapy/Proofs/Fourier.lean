/-
  Helper lemmas for C12: arithmetic of `rabs`/`rsgn`, the per-term forms of the transform laws, and the
  soundness of the structural table checks.
-/
import Lcapy.Spec.Fourier
import Lcapy.Model.Fourier
import Mathlib.Algebra.Order.Field.Rat
import Mathlib.Algebra.Order.Field.Basic
import Mathlib.Tactic.FieldSimp
import Mathlib.Tactic.Ring
import Mathlib.Tactic.Linarith
namespace Lcapy.Fourier

theorem rabs_eq_abs (x : Rat) : rabs x = |x| := by
  unfold rabs
  split_ifs with h
  · exact (abs_of_neg h).symm
  · exact (abs_of_nonneg (not_lt.mp h)).symm

theorem rabs_neg (x : Rat) : rabs (-x) = rabs x := by simp [rabs_eq_abs]
theorem rabs_mul (x y : Rat) : rabs (x * y) = rabs x * rabs y := by simp [rabs_eq_abs, abs_mul]
theorem rabs_ne_zero {x : Rat} (h : x ≠ 0) : rabs x ≠ 0 := by simpa [rabs_eq_abs] using h
theorem rabs_one_div (x : Rat) : rabs (1 / x) = 1 / rabs x := by simp [rabs_eq_abs, abs_inv]
theorem rabs_div (x y : Rat) : rabs (x / y) = rabs x / rabs y := by simp [rabs_eq_abs, abs_div]

@[ext] theorem CQ.ext' {x y : CQ} (h1 : x.re = y.re) (h2 : x.im = y.im) : x = y := by
  cases x; cases y; simp_all

theorem CQ.smul_smul (r s : Rat) (x : CQ) : CQ.smul r (CQ.smul s x) = CQ.smul (r * s) x := by
  ext <;> simp [CQ.smul] <;> ring

theorem CQ.mul_re (x y : CQ) : (x * y).re = x.re * y.re - x.im * y.im := rfl
theorem CQ.mul_im (x y : CQ) : (x * y).im = x.re * y.im + x.im * y.re := rfl

/-! ### per-term transform laws -/

theorem ftTerm_shift (pi tau : Rat) (t : Term) (h : t.a ≠ 0) :
    ftTerm pi (shiftT tau t) = (ftTerm pi t).map (modT (-tau)) := by
  simp only [ftTerm, shiftT, List.map_map]
  apply List.map_congr_left
  intro p _
  simp only [Function.comp, modT, Term.mk.injEq, true_and, and_true]
  refine ⟨?_, ?_⟩ <;> (field_simp; ring)

theorem ftTerm_mod (pi nu : Rat) (t : Term) (h : t.a ≠ 0) :
    ftTerm pi (modT nu t) = (ftTerm pi t).map (shiftT nu) := by
  simp only [ftTerm, modT, List.map_map]
  apply List.map_congr_left
  intro p _
  simp only [Function.comp, shiftT, Term.mk.injEq, true_and, and_true]
  refine ⟨?_, ?_⟩ <;> (field_simp; ring)

theorem Term.ext' {x y : Term} (h1 : x.c = y.c) (h2 : x.ph = y.ph) (h3 : x.th = y.th) (h4 : x.k = y.k)
    (h5 : x.a = y.a) (h6 : x.b = y.b) : x = y := by
  cases x; cases y; simp_all

theorem ftTerm_scale (pi s : Rat) (t : Term) (h : t.a ≠ 0) (hs : s ≠ 0) :
    ftTerm pi (scaleT s t) = (ftTerm pi t).map (fun u => smulT (CQ.ofRat (1 / rabs s)) (scaleT (1 / s) u)) := by
  simp only [ftTerm, scaleT, List.map_map]
  apply List.map_congr_left
  intro p _
  have ha := rabs_ne_zero h
  have hs' := rabs_ne_zero hs
  apply Term.ext' <;> simp only [Function.comp, smulT, scaleT]
  · ext
    · simp only [CQ.smul, CQ.ofRat, CQ.mul_re, rabs_mul]
      field_simp
      ring
    · simp only [CQ.smul, CQ.ofRat, CQ.mul_im, rabs_mul]
      field_simp
      ring
  all_goals (field_simp)

theorem ftTerm_smul (pi : Rat) (q : CQ) (t : Term) :
    ftTerm pi (smulT q t) = (ftTerm pi t).map (smulT q) := by
  simp only [ftTerm, smulT, List.map_map]
  apply List.map_congr_left
  intro p _
  apply Term.ext' <;> simp only [Function.comp, smulT]
  ext <;> simp [CQ.smul, CQ.mul_re, CQ.mul_im] <;> ring

end Lcapy.Fourier

namespace Lcapy.Fourier

/-! ### list level -/
theorem WF.tail {t : Term} {x : E} (h : WF (t :: x)) : WF x := fun u hu => h u (List.mem_cons_of_mem _ hu)
theorem WF.head {t : Term} {x : E} (h : WF (t :: x)) : t.a ≠ 0 := h t List.mem_cons_self

theorem ft_append (pi : Rat) (x y : E) : ft pi (x ++ y) = ft pi x ++ ft pi y := by
  simp [ft, List.flatMap_append]

theorem ft_shiftE (pi tau : Rat) : ∀ x : E, WF x → ft pi (shiftE tau x) = modE (-tau) (ft pi x)
  | [], _ => rfl
  | t :: x, h => by
      have ih := ft_shiftE pi tau x h.tail
      simp only [ft, shiftE, modE, List.map_cons, List.flatMap_cons, List.map_append] at ih ⊢
      rw [ftTerm_shift pi tau t h.head, ih]

theorem ft_modE (pi nu : Rat) : ∀ x : E, WF x → ft pi (modE nu x) = shiftE nu (ft pi x)
  | [], _ => rfl
  | t :: x, h => by
      have ih := ft_modE pi nu x h.tail
      simp only [ft, shiftE, modE, List.map_cons, List.flatMap_cons, List.map_append] at ih ⊢
      rw [ftTerm_mod pi nu t h.head, ih]

theorem ft_scaleE (pi s : Rat) (hs : s ≠ 0) :
    ∀ x : E, WF x → ft pi (scaleE s x) = smulE (CQ.ofRat (1 / rabs s)) (scaleE (1 / s) (ft pi x))
  | [], _ => rfl
  | t :: x, h => by
      have ih := ft_scaleE pi s hs x h.tail
      simp only [ft, scaleE, smulE, List.map_cons, List.flatMap_cons, List.map_append, List.map_map] at ih ⊢
      rw [ftTerm_scale pi s t h.head hs, ih]
      simp [Function.comp]

theorem ft_smulE (pi : Rat) (q : CQ) : ∀ x : E, ft pi (smulE q x) = smulE q (ft pi x)
  | [] => rfl
  | t :: x => by
      have ih := ft_smulE pi q x
      simp only [ft, smulE, List.map_cons, List.flatMap_cons, List.map_append] at ih ⊢
      rw [ftTerm_smul pi q t, ih]

end Lcapy.Fourier
