/-
  Helper lemmas for C12: arithmetic of `rabs`/`rsgn`, the per-term forms of the transform laws, and the
  soundness of the structural table checks.
-/
import Lcapy.Spec.Fourier
import Lcapy.Model.Fourier
import Lcapy.Spec.Signal
import Mathlib.Algebra.Order.Field.Rat
import Mathlib.Algebra.Order.Field.Basic
import Mathlib.Tactic.FieldSimp
import Mathlib.Tactic.Ring
import Mathlib.Tactic.Linarith
import Mathlib.Tactic.LinearCombination
import Mathlib.Algebra.Ring.Parity
namespace Lcapy.Fourier

theorem rabs_eq_abs (x : Rat) : rabs x = |x| := by
  unfold rabs
  split_ifs with h
  · exact (abs_of_neg h).symm
  · exact (abs_of_nonneg (not_lt.mp h)).symm

theorem rabs_neg (x : Rat) : rabs (-x) = rabs x := by simp [rabs_eq_abs]
theorem rabs_mul (x y : Rat) : rabs (x * y) = rabs x * rabs y := by simp [rabs_eq_abs, abs_mul]
theorem rabs_ne_zero {x : Rat} (h : x ≠ 0) : rabs x ≠ 0 := by simpa [rabs_eq_abs] using h
theorem rabs_one_div (x : Rat) : rabs (1 / x) = 1 / rabs x := by simp [rabs_eq_abs, abs_inv]
theorem rabs_div (x y : Rat) : rabs (x / y) = rabs x / rabs y := by simp [rabs_eq_abs, abs_div]

@[ext] theorem CQ.ext' {x y : CQ} (h1 : x.re = y.re) (h2 : x.im = y.im) : x = y := by
  cases x; cases y; simp_all

theorem CQ.smul_smul (r s : Rat) (x : CQ) : CQ.smul r (CQ.smul s x) = CQ.smul (r * s) x := by
  ext <;> simp [CQ.smul] <;> ring

theorem CQ.mul_re (x y : CQ) : (x * y).re = x.re * y.re - x.im * y.im := rfl
theorem CQ.mul_im (x y : CQ) : (x * y).im = x.re * y.im + x.im * y.re := rfl

/-! ### per-term transform laws -/

theorem ftTerm_shift (pi tau : Rat) (t : Term) (h : t.a ≠ 0) :
    ftTerm pi (shiftT tau t) = (ftTerm pi t).map (modT (-tau)) := by
  simp only [ftTerm, shiftT, List.map_map]
  apply List.map_congr_left
  intro p _
  simp only [Function.comp, modT, Term.mk.injEq, true_and, and_true]
  refine ⟨?_, ?_⟩ <;> (field_simp; ring)

theorem ftTerm_mod (pi nu : Rat) (t : Term) (h : t.a ≠ 0) :
    ftTerm pi (modT nu t) = (ftTerm pi t).map (shiftT nu) := by
  simp only [ftTerm, modT, List.map_map]
  apply List.map_congr_left
  intro p _
  simp only [Function.comp, shiftT, Term.mk.injEq, true_and, and_true]
  refine ⟨?_, ?_⟩ <;> (field_simp; ring)

theorem Term.ext' {x y : Term} (h1 : x.c = y.c) (h2 : x.ph = y.ph) (h3 : x.th = y.th) (h4 : x.k = y.k)
    (h5 : x.a = y.a) (h6 : x.b = y.b) : x = y := by
  cases x; cases y; simp_all

theorem ftTerm_scale (pi s : Rat) (t : Term) (h : t.a ≠ 0) (hs : s ≠ 0) :
    ftTerm pi (scaleT s t) = (ftTerm pi t).map (fun u => smulT (CQ.ofRat (1 / rabs s)) (scaleT (1 / s) u)) := by
  simp only [ftTerm, scaleT, List.map_map]
  apply List.map_congr_left
  intro p _
  have ha := rabs_ne_zero h
  have hs' := rabs_ne_zero hs
  apply Term.ext' <;> simp only [Function.comp, smulT, scaleT]
  · ext
    · simp only [CQ.smul, CQ.ofRat, CQ.mul_re, rabs_mul]
      field_simp
      ring
    · simp only [CQ.smul, CQ.ofRat, CQ.mul_im, rabs_mul]
      field_simp
      ring
  all_goals (field_simp)

theorem ftTerm_smul (pi : Rat) (q : CQ) (t : Term) :
    ftTerm pi (smulT q t) = (ftTerm pi t).map (smulT q) := by
  simp only [ftTerm, smulT, List.map_map]
  apply List.map_congr_left
  intro p _
  apply Term.ext' <;> simp only [Function.comp, smulT]
  ext <;> simp [CQ.smul, CQ.mul_re, CQ.mul_im] <;> ring

end Lcapy.Fourier

namespace Lcapy.Fourier

/-! ### list level -/
theorem WF.tail {t : Term} {x : E} (h : WF (t :: x)) : WF x := fun u hu => h u (List.mem_cons_of_mem _ hu)
theorem WF.head {t : Term} {x : E} (h : WF (t :: x)) : t.a ≠ 0 := h t List.mem_cons_self

theorem ft_append (pi : Rat) (x y : E) : ft pi (x ++ y) = ft pi x ++ ft pi y := by
  simp [ft, List.flatMap_append]

theorem ft_shiftE (pi tau : Rat) : ∀ x : E, WF x → ft pi (shiftE tau x) = modE (-tau) (ft pi x)
  | [], _ => rfl
  | t :: x, h => by
      have ih := ft_shiftE pi tau x h.tail
      simp only [ft, shiftE, modE, List.map_cons, List.flatMap_cons, List.map_append] at ih ⊢
      rw [ftTerm_shift pi tau t h.head, ih]

theorem ft_modE (pi nu : Rat) : ∀ x : E, WF x → ft pi (modE nu x) = shiftE nu (ft pi x)
  | [], _ => rfl
  | t :: x, h => by
      have ih := ft_modE pi nu x h.tail
      simp only [ft, shiftE, modE, List.map_cons, List.flatMap_cons, List.map_append] at ih ⊢
      rw [ftTerm_mod pi nu t h.head, ih]

theorem ft_scaleE (pi s : Rat) (hs : s ≠ 0) :
    ∀ x : E, WF x → ft pi (scaleE s x) = smulE (CQ.ofRat (1 / rabs s)) (scaleE (1 / s) (ft pi x))
  | [], _ => rfl
  | t :: x, h => by
      have ih := ft_scaleE pi s hs x h.tail
      simp only [ft, scaleE, smulE, List.map_cons, List.flatMap_cons, List.map_append, List.map_map] at ih ⊢
      rw [ftTerm_scale pi s t h.head hs, ih]
      simp [Function.comp]

theorem ft_smulE (pi : Rat) (q : CQ) : ∀ x : E, ft pi (smulE q x) = smulE q (ft pi x)
  | [] => rfl
  | t :: x => by
      have ih := ft_smulE pi q x
      simp only [ft, smulE, List.map_cons, List.flatMap_cons, List.map_append] at ih ⊢
      rw [ftTerm_smul pi q t, ih]

end Lcapy.Fourier

namespace Lcapy.Fourier

theorem generalised_aux (pi : Rat) (hpi : pi ≠ 0) :
    (⟨0, -1 / pi⟩ : CQ) * ⟨0, -pi⟩ = CQ.ofRat (-1) ∧
    CQ.ofRat (-1 / (2 * pi * pi)) * CQ.ofRat (-2 * pi * pi) = 1 ∧
    (⟨0, -pi⟩ : CQ) * ⟨0, -1 / pi⟩ = CQ.ofRat (-1) ∧
    CQ.ofRat (-2 * pi * pi) * CQ.ofRat (-1 / (2 * pi * pi)) = 1 := by
  refine ⟨?_, ?_, ?_, ?_⟩ <;> ext <;> simp [CQ.mul_re, CQ.mul_im, CQ.ofRat] <;> try (field_simp)
  all_goals rfl

theorem delta_scaling_aux (kappa : Rat) (hk : kappa ≠ 0) (n : Nat) (t : Term) (ha : t.a ≠ 0) :
    deltaLoc (scaleT kappa t) = deltaLoc t / kappa ∧
    deltaWeight n (scaleT kappa t) = CQ.smul (1 / (rabs kappa * kappa ^ n)) (deltaWeight n t) := by
  have hk' := rabs_ne_zero hk
  have ha' := rabs_ne_zero ha
  constructor
  · simp only [deltaLoc, scaleT]; field_simp
  · simp only [deltaWeight, scaleT, CQ.smul_smul, rabs_mul]
    congr 1
    field_simp
    ring

theorem f_omega_aux (pi dt : Rat) (c : GConv) (h : convOk c = true) (hr : c.returnsSelf = false) :
    (c.src = .f → c.dst = some .omega → Model.convFactor pi dt c = 1 / 2 * (1 / pi)) ∧
    (c.src = .omega → c.dst = some .f → Model.convFactor pi dt c = 2 * pi) ∧
    (c.src = .omega → c.dst = none → Model.convFactor pi dt c = 2 * pi) := by
  obtain ⟨src, dst, e2, epi, edt, rs⟩ := c
  simp only at hr
  subst hr
  refine ⟨?_, ?_, ?_⟩
  all_goals
    intro h1 h2
    simp only at h1 h2
    subst h1
    subst h2
    simp [convOk, Dom.expo] at h
    obtain ⟨⟨rfl, rfl⟩, rfl⟩ := h
    simp [Model.convFactor, monomial, zpow]

end Lcapy.Fourier

namespace Lcapy.Fourier

theorem CQ.add_comm' (x y : CQ) : x + y = y + x := by
  ext <;> show _ + _ = _ + _ <;> ring

theorem rabs_one : rabs 1 = 1 := by decide

theorem fourier_laplace_aux (pi f : Rat) : ∀ x : List EPTerm,
    ratValue pi f (ft pi (x.map EPTerm.toTerm)) = laplaceAt ⟨0, 2 * pi * f⟩ x
  | [] => rfl
  | p :: x => by
      have ih := fourier_laplace_aux pi f x
      simp only [ratValue, ft, laplaceAt, List.map_cons, List.flatMap_cons, List.map_append, List.foldr_cons,
        List.foldr_append] at ih ⊢
      rw [← ih]
      simp only [ftTerm, ftKind, EPTerm.toTerm, List.map_cons, List.map_nil, List.foldr_cons, List.foldr_nil,
        Term.ratValue, rabs_one]
      congr 1
      have h1 : (1 : Rat) * f + 0 = f := by ring
      have h2 : (1 : Rat) / 1 / 1 = 1 := by norm_num
      rw [CQ.add_comm' p.al]
      simp only [div_one, one_mul]
      congr 1
      · ext <;> simp [CQ.smul, CQ.mul_re, CQ.mul_im, CQ.ofRat]
      · simp

end Lcapy.Fourier

namespace Lcapy.Fourier

theorem canon_inverse_sound (pi : Rat) (g : GTerm) (h : g.canon true = g.canonReflected false) :
    canonT (g.toTerm pi true) = canonT (reflectT (g.toTerm pi false)) := by
  obtain ⟨reN, imN, den, piPow, k, useSf, scN, scD, scPi⟩ := g
  cases useSf
  · -- raw `f`
    simp only [GTerm.canon, GTerm.canonReflected, Bool.false_and, Bool.not_false] at h
    cases hp : k.parity with
    | none => simp [hp] at h
    | some par =>
      cases par
      · -- odd atom: the coefficient must vanish
        simp only [hp, Prod.mk.injEq, and_true, GTerm.mk.injEq, true_and] at h
        have hre : reN = 0 := by have := h.1; simp at this; omega
        have him : imN = 0 := by have := h.2; simp at this; omega
        subst hre; subst him
        simp [canonT, GTerm.toTerm, reflectT, hp, GTerm.coef, CQ.smul, rabs_neg]
      · simp [canonT, GTerm.toTerm, reflectT, hp, rabs_neg]
  · simp [GTerm.toTerm, reflectT]

end Lcapy.Fourier

namespace Lcapy.Fourier

theorem simShift_forward (a b : Rat) (base : E) (hsim : Gen.similarity = some (-1, 1))
    (hph : Gen.shiftPhase = some (true, -1, 1)) :
    Model.simShift false a b base =
      some (smulE (CQ.ofRat (1 / rabs a)) (modE (b / a) (scaleE (1 / a) base))) := by
  unfold Model.simShift
  rw [hsim, hph]
  simp [zpow, div_eq_mul_inv, mul_comm]

theorem model_forward_refines_aux (pi : Rat) (t : Term) (e : GEntry) (ha : t.a ≠ 0)
    (hsim : Gen.similarity = some (-1, 1)) (hph : Gen.shiftPhase = some (true, -1, 1))
    (hk : ∀ al, t.k ≠ .cpole 1 al) (hk' : ∀ al, t.k ≠ .expu 0 al) (h1 : t.k ≠ .one) (h2 : t.k ≠ .ramp) (h3 : t.k ≠ .inv1)
    (h4 : t.k ≠ .inv2) (h5 : ∀ al, t.k ≠ .trap al) (hl : Model.lookup t.k 0 = some e)
    (hpair : entryE pi false e.terms = (ftKind pi t.k).map fun p => ⟨p.q, 0, 0, p.k, p.s, 0⟩) :
    Model.modelTerm pi false 0 t = some (ftTerm pi t) := by
  obtain ⟨c, ph, th, k, a, b⟩ := t
  simp only at ha hk hk' h1 h2 h3 h4 h5 hl hpair
  have hgen : Model.otherTerm pi false 0 k a b = (Model.lookup k 0).bind fun e =>
      Model.simShift false a b (entryE pi false e.terms) := by
    cases k with
    | one => exact absurd rfl h1
    | ramp => exact absurd rfl h2
    | inv1 => exact absurd rfl h3
    | inv2 => exact absurd rfl h4
    | trap al => exact absurd rfl (h5 al)
    | expu n al =>
      cases n with
      | zero => exact absurd rfl (hk' al)
      | succ m => rfl
    | cpole n al =>
      cases n with
      | zero => rfl
      | succ m =>
        cases m with
        | zero => exact absurd rfl (hk al)
        | succ _ => rfl
    | _ => rfl
  have har := rabs_ne_zero ha
  simp only [Model.modelTerm, hgen, hl, hpair, Option.bind_some, simShift_forward a b _ hsim hph, Option.map_some,
    Option.some.injEq, shiftE, smulE, modE, scaleE, List.map_map, ftTerm]
  apply List.map_congr_left
  intro p _
  apply Term.ext' <;> simp only [Function.comp, shiftT, smulT, modT, scaleT]
  · ext <;> simp [CQ.smul, CQ.mul_re, CQ.mul_im, CQ.ofRat] <;> ring
  all_goals (simp; try (field_simp); try ring)

end Lcapy.Fourier

namespace Lcapy.Fourier

theorem ft_ft_term_aux (pi : Rat) (t : Term) (ha : t.a ≠ 0) (hs : ∀ p ∈ ftKind pi t.k, p.s = 1 ∨ p.s = -1) :
    ft pi (ftTerm pi t) =
      (ftKind pi t.k).flatMap fun p => (ftKind pi p.k).map fun r =>
        ⟨CQ.smul (1 / rabs (p.s / t.a)) (CQ.smul (1 / rabs t.a) (t.c * p.q) * r.q), t.ph, -t.th, r.k, r.s / p.s * t.a,
          -(r.s / p.s * t.b)⟩ := by
  obtain ⟨c, ph, th, k, a, b⟩ := t
  simp only at ha hs ⊢
  simp only [ft, ftTerm]
  generalize ftKind pi k = l at hs
  induction l with
  | nil => rfl
  | cons p l ih =>
    have hp : p.s ≠ 0 := by
      rcases hs p List.mem_cons_self with h | h <;> rw [h] <;> norm_num
    simp only [List.map_cons, List.flatMap_cons]
    rw [ih (fun q hq => hs q (List.mem_cons_of_mem _ hq))]
    congr 1
    apply List.map_congr_left
    intro r _
    apply Term.ext' <;> simp only
    all_goals (field_simp; try ring)

theorem fact_pos' (n : Nat) : (fact n : Rat) ≠ 0 := by
  induction n with
  | zero => simp [fact]
  | succ m ih =>
    simp only [fact]
    push_cast
    have : ((m : Rat) + 1) ≠ 0 := by positivity
    exact mul_ne_zero this ih

def ftftPairs (pi : Rat) (k : Kind) : List (CQ × Kind × Rat) :=
  (ftKind pi k).flatMap fun p => (ftKind pi p.k).map fun r => (p.q * r.q, r.k, r.s / p.s)

theorem CQ.one_re : (1 : CQ).re = 1 := rfl
theorem CQ.one_im : (1 : CQ).im = 0 := rfl
theorem CQ.one_mul' (x : CQ) : (1 : CQ) * x = x := by
  ext <;> simp [CQ.mul_re, CQ.mul_im, CQ.one_re, CQ.one_im]

theorem pair_involutive_even (pi : Rat) (k : Kind) (hk : k = .rect ∨ k = .tri ∨ k = .sinc ∨ k = .sinc2 ∨ k = .gauss) :
    ftftPairs pi k = [(1, k, 1)] ∧ k.parity = some true := by
  rcases hk with rfl | rfl | rfl | rfl | rfl <;> refine ⟨?_, rfl⟩ <;>
    simp [ftftPairs, ftKind, CQ.one_mul']

theorem pair_involutive_exp (pi : Rat) (n : Nat) (al : CQ) :
    ftftPairs pi (.expu n al) = [(1, .expu n al, -1)] ∧ ftftPairs pi (.cpole (n + 1) al) = [(1, .cpole (n + 1) al, -1)] := by
  have h := fact_pos' n
  constructor <;> simp [ftftPairs, ftKind] <;> (try norm_num) <;> ext <;>
    simp [CQ.mul_re, CQ.mul_im, CQ.ofRat] <;> (try (field_simp)) <;> rfl

end Lcapy.Fourier

namespace Lcapy.Fourier

theorem rsgn_mul_self_abs (a : Rat) : rsgn a * rabs a = a := by
  unfold rsgn rabs; split_ifs <;> ring

theorem rsgn_neg {a : Rat} (ha : a ≠ 0) : rsgn (-a) = -rsgn a := by
  unfold rsgn
  rcases lt_or_gt_of_ne ha with h | h
  · have : ¬ (-a < 0) := by linarith
    simp [h, this]
  · have h' : ¬ (a < 0) := by linarith
    have : -a < 0 := by linarith
    simp [h', this]

theorem inverse_forward_even (pi : Rat) (t : Term) (ha : t.a ≠ 0)
    (hk : t.k = .rect ∨ t.k = .tri ∨ t.k = .sinc ∨ t.k = .sinc2 ∨ t.k = .gauss) :
    (ift pi (ftTerm pi t)).map canonT = [canonT t] := by
  obtain ⟨c, ph, th, k, a, b⟩ := t
  simp only at ha hk
  have har := rabs_ne_zero ha
  have h1 : rabs a⁻¹ = (rabs a)⁻¹ := by simp [rabs_eq_abs, abs_inv]
  rcases hk with rfl | rfl | rfl | rfl | rfl <;>
    (simp only [ift, ft, ftTerm, ftKind, reflectE, List.map_cons, List.map_nil, List.flatMap_cons, List.flatMap_nil,
        List.append_nil, reflectT, canonT, Kind.parity, List.cons.injEq, and_true]
     apply Term.ext' <;> simp only
     · ext <;> simp [CQ.smul, CQ.mul_re, CQ.mul_im, CQ.one_re, CQ.one_im] <;> rw [h1] <;> field_simp
     all_goals (try (simp [rabs_neg, h1]; try field_simp))
     all_goals (try rw [rsgn_neg ha])
     all_goals (try ring))

end Lcapy.Fourier

namespace Lcapy.Fourier

/-! ### frequency variables: the conversions compose -/

theorem scaleE_scaleE (r s : Rat) (g : E) : scaleE s (scaleE r g) = scaleE (r * s) g := by
  simp only [scaleE, List.map_map]
  apply List.map_congr_left
  intro t _
  simp [Function.comp, scaleT, mul_assoc]

theorem scaleE_one (g : E) : scaleE 1 g = g := by
  simp only [scaleE]
  conv_rhs => rw [← List.map_id g]
  apply List.map_congr_left
  intro t _
  simp [scaleT]

theorem Dom.k_ne_zero (pi dt : Rat) (hpi : pi ≠ 0) (hdt : dt ≠ 0) (d : Dom) : d.k pi dt ≠ 0 := by
  cases d <;> simp [Dom.k, Dom.expo, monomial, zpow, hpi, hdt]

/-- converting D → E → F is converting D → F -/
theorem convDom_comp (pi dt : Rat) (hpi : pi ≠ 0) (hdt : dt ≠ 0) (d e f : Dom) (g : E) :
    convDom pi dt e f (convDom pi dt d e g) = convDom pi dt d f g := by
  have he := Dom.k_ne_zero pi dt hpi hdt e
  simp only [convDom, scaleE_scaleE]
  congr 1
  field_simp

theorem convDom_self (pi dt : Rat) (hpi : pi ≠ 0) (hdt : dt ≠ 0) (d : Dom) (g : E) : convDom pi dt d d g = g := by
  have hd := Dom.k_ne_zero pi dt hpi hdt d
  simp only [convDom, div_self hd, scaleE_one]

/-- the code's conversion methods (GENERATED rows) are the spec's re-expression, for every ordered pair of domains -/
theorem modelConv_refines (pi dt : Rat) (hpi : pi ≠ 0) (hdt : dt ≠ 0) (d e : Dom) (g : E) :
    Model.modelConv pi dt d e g = some (convDom pi dt d e g) := by
  cases d <;> cases e <;>
    simp [Model.modelConv, Model.findConv, Gen.conversions, Model.convFactor, convDom, monomial, zpow, Dom.k, Dom.expo,
      scaleE_one, hpi, hdt] <;>
    (try (congr 1; try field_simp))

/-- f → ω → F → Ω → f through the code's conversion methods is the identity on the class -/
theorem modelConv_cycle (pi dt : Rat) (hpi : pi ≠ 0) (hdt : dt ≠ 0) (g : E) :
    (Model.modelConv pi dt .f .omega g >>= Model.modelConv pi dt .omega .F >>= Model.modelConv pi dt .F .Omega
      >>= Model.modelConv pi dt .Omega .f) = some g := by
  simp only [modelConv_refines pi dt hpi hdt, Option.bind_eq_bind, Option.bind_some, convDom_comp pi dt hpi hdt,
    convDom_self pi dt hpi hdt]

theorem convDom_chain_aux (pi dt : Rat) (hpi : pi ≠ 0) (hdt : dt ≠ 0) (d : Dom) (g : E) : ∀ (path : List Dom) (cur : Dom),
    (path ++ [d]).foldl (fun (st : Dom × E) e => (e, convDom pi dt st.1 e st.2)) (cur, convDom pi dt d cur g) = (d, g)
  | [], cur => by simp [convDom_comp pi dt hpi hdt, convDom_self pi dt hpi hdt]
  | e :: path, cur => by
      simp only [List.cons_append, List.foldl_cons, convDom_comp pi dt hpi hdt]
      exact convDom_chain_aux pi dt hpi hdt d g path e

/-- ANY chain of conversions d → e₁ → … → eₙ → d that returns to its starting variable is the identity on the class -/
theorem convDom_chain (pi dt : Rat) (hpi : pi ≠ 0) (hdt : dt ≠ 0) (d : Dom) (path : List Dom) (g : E) :
    (path ++ [d]).foldl (fun (st : Dom × E) e => (e, convDom pi dt st.1 e st.2)) (d, g) = (d, g) := by
  have := convDom_chain_aux pi dt hpi hdt d g path d
  rwa [convDom_self pi dt hpi hdt] at this


end Lcapy.Fourier

namespace Lcapy.Fourier

theorem pair_involutive_trap (pi al : Rat) :
    ftftPairs pi (.trap al) = [(1, .trap al, 1)] ∧ ftftPairs pi (.sincp al) = [(1, .sincp al, 1)] := by
  constructor <;> simp [ftftPairs, ftKind, CQ.one_mul']

/-- ift (ft t) for a single-pair atom: c·q·q'·K(−(a x + b)) -/
theorem ift_ft_single (pi : Rat) (t : Term) (ha : t.a ≠ 0) (q q' : CQ) (k' : Kind)
    (h1 : ftKind pi t.k = [⟨q, k', 1⟩]) (h2 : ftKind pi k' = [⟨q', t.k, 1⟩]) :
    ift pi (ftTerm pi t) = [⟨t.c * q * q', t.ph, t.th, t.k, -t.a, -t.b⟩] := by
  obtain ⟨c, ph, th, k, a, b⟩ := t
  simp only at ha h1 h2 ⊢
  have har := rabs_ne_zero ha
  have hr : rabs a⁻¹ = (rabs a)⁻¹ := by simp [rabs_eq_abs, abs_inv]
  simp only [ift, ft, ftTerm, h1, h2, reflectE, List.map_cons, List.map_nil, List.flatMap_cons, List.flatMap_nil,
    List.append_nil, reflectT, List.cons.injEq, and_true]
  apply Term.ext' <;> simp only
  · ext <;> simp [CQ.smul, CQ.mul_re, CQ.mul_im, hr] <;> field_simp <;> ring
  all_goals (try (field_simp)) <;> try ring


theorem CQ.mul_comm' (x y : CQ) : x * y = y * x := by ext <;> simp [CQ.mul_re, CQ.mul_im] <;> ring
theorem CQ.mul_assoc' (x y z : CQ) : x * y * z = x * (y * z) := by ext <;> simp [CQ.mul_re, CQ.mul_im] <;> ring
theorem CQ.mul_one' (x : CQ) : x * 1 = x := by rw [CQ.mul_comm', CQ.one_mul']
theorem CQ.neg_re (x : CQ) : (-x).re = -x.re := rfl
theorem CQ.neg_im (x : CQ) : (-x).im = -x.im := rfl

theorem CQ.npow_mul (x y : CQ) : ∀ n : Nat, (x * y).npow n = x.npow n * y.npow n
  | 0 => by simp [CQ.npow, CQ.one_mul']
  | n + 1 => by
      simp only [CQ.npow, CQ.npow_mul x y n]
      rw [CQ.mul_assoc', CQ.mul_assoc']; congr 1
      rw [← CQ.mul_assoc', CQ.mul_comm' (y.npow n) x, CQ.mul_assoc']

theorem CQ.npow_neg_one : ∀ n : Nat, (CQ.ofRat (-1)).npow n = CQ.ofRat ((-1) ^ n)
  | 0 => by simp [CQ.npow, CQ.ofRat]; rfl
  | n + 1 => by
      simp only [CQ.npow, CQ.npow_neg_one n, pow_succ]
      ext <;> simp [CQ.mul_re, CQ.mul_im, CQ.ofRat]

theorem pw_delta_coeff (pi : Rat) (hpi : pi ≠ 0) (n : Nat) :
    (CQ.I * CQ.ofRat (1 / (2 * pi))).npow n * (j2pi pi).npow n = CQ.ofRat ((-1) ^ n) := by
  rw [← CQ.npow_mul, ← CQ.npow_neg_one]
  congr 1
  ext <;> simp [CQ.mul_re, CQ.mul_im, CQ.ofRat, CQ.I, j2pi] <;> field_simp

theorem neg_one_pow_parity (n : Nat) : ((-1 : Rat) ^ n) = if n % 2 == 0 then 1 else -1 := by
  rcases Nat.even_or_odd n with h | h
  · have : n % 2 = 0 := Nat.even_iff.mp h
    simp [this, h.neg_one_pow]
  · have : n % 2 = 1 := Nat.odd_iff.mp h
    simp [this, h.neg_one_pow]

/-- canonical form absorbs the reflection of an even atom … -/
theorem canon_reflect_even (c : CQ) (ph th : Rat) (k : Kind) (a b : Rat) (ha : a ≠ 0) (hp : k.parity = some true) :
    canonT ⟨c, ph, th, k, -a, -b⟩ = canonT ⟨c, ph, th, k, a, b⟩ := by
  simp only [canonT, hp, rabs_neg, rsgn_neg ha]
  apply Term.ext' <;> simp

/-- … and of an odd atom together with a sign of the coefficient -/
theorem canon_reflect_odd (c : CQ) (ph th : Rat) (k : Kind) (a b : Rat) (ha : a ≠ 0) (hp : k.parity = some false) :
    canonT ⟨CQ.smul (-1) c, ph, th, k, -a, -b⟩ = canonT ⟨c, ph, th, k, a, b⟩ := by
  simp only [canonT, hp, rabs_neg, rsgn_neg ha, CQ.smul_smul]
  apply Term.ext' <;> simp

theorem mul_ofRat (c : CQ) (r : Rat) : c * CQ.ofRat r = CQ.smul r c := by
  ext <;> simp [CQ.mul_re, CQ.mul_im, CQ.ofRat, CQ.smul] <;> ring

/-- inverse ∘ forward = id on the generalised-function atoms (formal duality of the pair table): for
    K ∈ {xⁿ, δ⁽ⁿ⁾, sign, 1/x, |x|, 1/x²} and every c, ph, θ, a ≠ 0, b -/
theorem inverse_forward_generalised (pi : Rat) (hpi : pi ≠ 0) (t : Term) (ha : t.a ≠ 0)
    (hk : (∃ n, t.k = .pw n) ∨ (∃ n, t.k = .delta n) ∨ t.k = .sgn ∨ t.k = .inv1 ∨ t.k = .absx ∨ t.k = .inv2) :
    (ift pi (ftTerm pi t)).map canonT = [canonT t] := by
  obtain ⟨c, ph, th, k, a, b⟩ := t
  simp only at ha hk
  rcases hk with ⟨n, rfl⟩ | ⟨n, rfl⟩ | rfl | rfl | rfl | rfl
  · -- xⁿ
    rw [ift_ft_single pi _ ha _ _ (.delta n) rfl rfl]
    dsimp only
    rw [CQ.mul_assoc', pw_delta_coeff pi hpi n, mul_ofRat, neg_one_pow_parity]
    simp only [List.map_cons, List.map_nil, List.cons.injEq, and_true]
    by_cases hn : n % 2 == 0
    · simp only [hn, if_true]
      rw [show CQ.smul 1 c = c by ext <;> simp [CQ.smul]]
      exact canon_reflect_even c ph th _ a b ha (by simp [Kind.parity, hn])
    · simp only [hn, if_false]
      exact canon_reflect_odd c ph th _ a b ha (by simp [Kind.parity, hn])
  · -- δ⁽ⁿ⁾
    rw [ift_ft_single pi _ ha _ _ (.pw n) rfl rfl]
    dsimp only
    rw [CQ.mul_assoc', CQ.mul_comm' ((j2pi pi).npow n), pw_delta_coeff pi hpi n, mul_ofRat, neg_one_pow_parity]
    simp only [List.map_cons, List.map_nil, List.cons.injEq, and_true]
    by_cases hn : n % 2 == 0
    · simp only [hn, if_true]
      rw [show CQ.smul 1 c = c by ext <;> simp [CQ.smul]]
      exact canon_reflect_even c ph th _ a b ha (by simp [Kind.parity, hn])
    · simp only [hn, if_false]
      exact canon_reflect_odd c ph th _ a b ha (by simp [Kind.parity, hn])
  · rw [ift_ft_single pi _ ha _ _ .inv1 rfl rfl]
    rw [CQ.mul_assoc', (generalised_aux pi hpi).1, mul_ofRat]
    simp only [List.map_cons, List.map_nil, List.cons.injEq, and_true]
    exact canon_reflect_odd c ph th _ a b ha rfl
  · rw [ift_ft_single pi _ ha _ _ .sgn rfl rfl]
    rw [CQ.mul_assoc', (generalised_aux pi hpi).2.2.1, mul_ofRat]
    simp only [List.map_cons, List.map_nil, List.cons.injEq, and_true]
    exact canon_reflect_odd c ph th _ a b ha rfl
  · rw [ift_ft_single pi _ ha _ _ .inv2 rfl rfl]
    rw [CQ.mul_assoc', (generalised_aux pi hpi).2.1, CQ.mul_one']
    simp only [List.map_cons, List.map_nil, List.cons.injEq, and_true]
    exact canon_reflect_even c ph th _ a b ha rfl
  · rw [ift_ft_single pi _ ha _ _ .absx rfl rfl]
    rw [CQ.mul_assoc', (generalised_aux pi hpi).2.2.2, CQ.mul_one']
    simp only [List.map_cons, List.map_nil, List.cons.injEq, and_true]
    exact canon_reflect_even c ph th _ a b ha rfl

/-- … and on the trapezoid and its spectrum -/
theorem inverse_forward_trap (pi : Rat) (t : Term) (ha : t.a ≠ 0) (hk : (∃ al, t.k = .trap al) ∨ (∃ al, t.k = .sincp al)) :
    (ift pi (ftTerm pi t)).map canonT = [canonT t] := by
  obtain ⟨c, ph, th, k, a, b⟩ := t
  simp only at ha hk
  rcases hk with ⟨al, rfl⟩ | ⟨al, rfl⟩
  · rw [ift_ft_single pi _ ha 1 1 (.sincp al) rfl rfl]
    simp only [List.map_cons, List.map_nil, List.cons.injEq, and_true, CQ.mul_one']
    exact canon_reflect_even c ph th _ a b ha rfl
  · rw [ift_ft_single pi _ ha 1 1 (.trap al) rfl rfl]
    simp only [List.map_cons, List.map_nil, List.cons.injEq, and_true, CQ.mul_one']
    exact canon_reflect_even c ph th _ a b ha rfl


end Lcapy.Fourier

namespace Lcapy.Fourier
set_option linter.unusedSimpArgs false

/-- forward direction: the value of a structural row does not depend on `useSf` -/
theorem toTerm_fwd_useSf (pi : Rat) (g : GTerm) : GTerm.toTerm pi false { g with useSf := true } = GTerm.toTerm pi false g := by
  simp [GTerm.toTerm, GTerm.coef, GTerm.scale]

/-- the second spec table `pairG` (structural form, used by the decidable table checks) IS the table `ftKind` that defines `ft` -/
theorem pairG_is_ftKind (pi : Rat) (k : Kind) (l : List GTerm) (h : pairG k = some l) :
    entryE pi false l = (ftKind pi k).map fun p => ⟨p.q, 0, 0, p.k, p.s, 0⟩ := by
  cases k with
  | pw n =>
    match n, h with
    | 1, h =>
      simp only [pairG, Option.some.injEq] at h; subst h
      simp [entryE, GTerm.toTerm, GTerm.coef, GTerm.scale, ftKind, zpow, CQ.smul, CQ.npow, CQ.one_mul', CQ.I, CQ.ofRat]
      ext <;> simp [CQ.mul_re, CQ.mul_im] <;> ring
    | 2, h =>
      simp only [pairG, Option.some.injEq] at h; subst h
      simp [entryE, GTerm.toTerm, GTerm.coef, GTerm.scale, ftKind, zpow, CQ.smul, CQ.npow, CQ.one_mul', CQ.I, CQ.ofRat]
      ext <;> simp [CQ.mul_re, CQ.mul_im] <;> ring
    | 0, h => simp [pairG] at h
    | n + 3, h => simp [pairG] at h
  | one => simp [pairG] at h
  | delta n => simp [pairG] at h
  | gauss => simp [pairG] at h
  | expu k al => simp [pairG] at h
  | cpole n al => simp [pairG] at h
  | trap al => simp [pairG] at h
  | sincp al => simp [pairG] at h
  | _ =>
    simp only [pairG, Option.some.injEq] at h; subst h
    simp [entryE, GTerm.toTerm, GTerm.coef, GTerm.scale, ftKind, zpow, CQ.smul, CQ.ofRat, j2pi]
    all_goals (try (constructor <;> (try ext) <;> simp <;> ring))
    all_goals (try ring)


/-- a generated row equals, term by term and in order, the `pairG` row of its atom (the forward value ignores `useSf`) -/
def entryForwardExact (e : GEntry) : Bool :=
  match pairG e.kind with
  | none => false
  | some l => e.terms.map (fun g => { g with useSf := true }) == l.map (fun g => { g with useSf := true })

theorem entryE_fwd_useSf (pi : Rat) (l : List GTerm) :
    entryE pi false (l.map (fun g => { g with useSf := true })) = entryE pi false l := by
  simp only [entryE, List.map_map]
  apply List.map_congr_left
  intro g _
  exact toTerm_fwd_useSf pi g

/-- … hence it is the row of `ftKind`, the table that DEFINES the spec transform `ft` -/
theorem table_row_is_ftKind (pi : Rat) (e : GEntry) (h : entryForwardExact e = true) :
    entryE pi false e.terms = (ftKind pi e.kind).map fun p => ⟨p.q, 0, 0, p.k, p.s, 0⟩ := by
  unfold entryForwardExact at h
  cases hp : pairG e.kind with
  | none => simp [hp] at h
  | some l =>
    simp only [hp] at h
    have heq := eq_of_beq h
    rw [← entryE_fwd_useSf pi e.terms, heq, entryE_fwd_useSf pi l]
    exact pairG_is_ftKind pi e.kind l hp

theorem lookup_mem (k : Kind) (alt : Nat) (e : GEntry) (h : Model.lookup k alt = some e) : e ∈ Gen.table ∧ e.kind = k := by
  unfold Model.lookup at h
  have hm : e ∈ Gen.table.filter (fun e => e.kind == k) := List.mem_of_getElem? h
  rw [List.mem_filter] at hm
  exact ⟨hm.1, eq_of_beq hm.2⟩


end Lcapy.Fourier

namespace Lcapy.Fourier
set_option linter.unusedSimpArgs false

/-- `Σ c·t^k e^{−αt}u(t)` as a formal causal signal of C09's specification (Spec/Signal.lean: `ep c k p d = c (t−d)^k/k! e^{p(t−d)} u(t−d)`) -/
def EPTerm.toLaplace (p : EPTerm) : Lcapy.Laplace.Term CQ := .ep (p.c * CQ.ofRat (fact p.k)) p.k (-p.al) 0

theorem pw_eq_npow (x : CQ) : ∀ n : Nat, Lcapy.Laplace.pw x n = x.npow n
  | 0 => rfl
  | n + 1 => by simp [Lcapy.Laplace.pw, CQ.npow, pw_eq_npow x n]

theorem CQ.sub_neg' (x y : CQ) : x - (-y) = x + y := by
  ext <;> show _ - -_ = _ + _ <;> ring

/-- the driver's `laplaceAt` is C09's formal unilateral transform `L` of the same signal -/
theorem laplaceAt_is_L (s : CQ) : ∀ x : List EPTerm,
    laplaceAt s x = Lcapy.Laplace.L (fun _ => (1 : CQ)) (x.map EPTerm.toLaplace) s
  | [] => rfl
  | p :: x => by
      have ih := laplaceAt_is_L s x
      simp only [laplaceAt, List.map_cons, List.foldr_cons] at ih ⊢
      rw [ih]
      simp only [Lcapy.Laplace.L, Lcapy.Laplace.Term.L, EPTerm.toLaplace, pw_eq_npow, CQ.sub_neg', CQ.mul_one']
      rfl


end Lcapy.Fourier
