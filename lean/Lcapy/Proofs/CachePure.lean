/- C16: memo entries never influence the abstract state; queries are pure; failed operations (core Lean only). -/
import Lcapy.Proofs.CacheIso
set_option linter.unusedSimpArgs false
set_option linter.unusedVariables false
namespace Lcapy.Cache

variable {cfg : Config}

/-! ### stripping -/

theorem stripI_eq {x y : Inst} : stripI x = stripI y ↔ x.elts = y.elts ∧ x.tab = y.tab := by
  cases x; cases y; simp [stripI]

theorem strip_get (w : World) (i : Nat) : (strip w).insts[i]? = (w.insts[i]?).map stripI := by
  simp [strip]

theorem strip_length (w : World) : (strip w).insts.length = w.insts.length := by simp [strip]

theorem strip_eq {w w' : World} : strip w = strip w' ↔ w.insts.map stripI = w'.insts.map stripI := by
  simp [strip]

theorem strip_get_eq {w w' : World} (h : strip w = strip w') (i : Nat) :
    (w.insts[i]?).map stripI = (w'.insts[i]?).map stripI := by
  rw [← strip_get, ← strip_get, h]

theorem strip_len_eq {w w' : World} (h : strip w = strip w') : w.insts.length = w'.insts.length := by
  rw [← strip_length w, ← strip_length w', h]

theorem strip_idem (w : World) : strip (strip w) = strip w := by
  simp [strip, stripI, Function.comp_def]

theorem strip_clock (w : World) (c : Nat) : strip { w with clock := c } = strip w := rfl
theorem strip_lru (w : World) (l : List (Nat × Memo)) : strip { w with lru := l } = strip w := rfl

/-- replacing instance `i` by instances with the same elements and table -/
theorem strip_set_congr {w w' : World} (h : strip w = strip w') (i : Nat) {x y : Inst} (hxy : stripI x = stripI y)
    (l l' : List (Nat × Memo)) (c c' : Nat) :
    strip ⟨w.insts.set i x, l, c⟩ = strip ⟨w'.insts.set i y, l', c'⟩ := by
  rw [strip_eq] at h ⊢
  simp only [List.map_set, h, hxy]

theorem strip_set_self (w : World) (i : Nat) (inst x : Inst) (hi : w.insts[i]? = some inst) (hx : stripI x = stripI inst)
    (l : List (Nat × Memo)) (c : Nat) : strip ⟨w.insts.set i x, l, c⟩ = strip w := by
  rw [strip_eq]
  simp only [List.map_set, hx]
  apply List.ext_getElem?
  intro j
  simp only [List.getElem?_set, List.length_map, List.getElem?_map]
  by_cases hij : i = j
  · subst hij
    by_cases hlt : i < w.insts.length
    · have hge : w.insts[i] = inst := by
        have := List.getElem?_eq_getElem hlt; rw [hi] at this; exact (Option.some.inj this).symm
      simp [hlt, hi, hge]
    · simp [hlt]
  · simp [hij]

theorem abs_of_strip {w w' : World} (h : strip w = strip w') : w.abs = w'.abs := by
  rw [strip_eq] at h
  have : ∀ l : List Inst, l.map (fun x => (x.elts, x.tab)) = (l.map stripI).map (fun x => (x.elts, x.tab)) := by
    intro l; simp [stripI, Function.comp_def]
  simp only [World.abs]
  rw [this w.insts, this w'.insts, h]

theorem strip_of_abs {w w' : World} (h : w.abs = w'.abs) : strip w = strip w' := by
  rw [strip_eq]
  have : ∀ l : List Inst, l.map stripI = (l.map (fun x => (x.elts, x.tab))).map (fun p => (⟨p.1, p.2, []⟩ : Inst)) := by
    intro l; simp [stripI, Function.comp_def]
  rw [this w.insts, this w'.insts]
  simp only [World.abs] at h
  rw [h]

/-! ### memo traffic does not touch the abstract state -/

theorem strip_invalidate (w : World) (i : Nat) : strip (invalidate cfg w i) = strip w := by
  unfold invalidate
  cases hi : w.insts[i]? with
  | none => rfl
  | some inst => exact strip_set_self w i inst _ hi (by simp [stripI]) _ _

theorem strip_readSlot (w : World) (i : Nat) (d : String) : strip (readSlot cfg w i d).1 = strip w := by
  unfold readSlot
  cases hi : w.insts[i]? with
  | none => rfl
  | some inst =>
    simp only []
    cases hk : cfg.kindOf d with
    | none => rfl
    | some kd =>
      simp only []
      cases hl : liveMemo cfg w i inst d with
      | some m => rfl
      | none =>
        cases kd with
        | lru => rfl
        | cprop => exact strip_set_self w i inst _ hi (by simp [stripI]) _ _
        | hasattr => exact strip_set_self w i inst _ hi (by simp [stripI]) _ _

theorem strip_readSlots (ds : List String) (w : World) (i : Nat) : strip (readSlots cfg i w ds).1 = strip w := by
  induction ds generalizing w with
  | nil => rfl
  | cons d ds ih => simp only [readSlots]; rw [ih, strip_readSlot]

theorem strip_damage (w : World) (i : Nat) (q : String) : strip (damage cfg w i q) = strip w := by
  unfold damage
  cases hi : w.insts[i]? with
  | none => rfl
  | some inst => exact strip_set_self w i inst _ hi (by simp [stripI]) _ _

/-- QUERY PURITY (any configuration, also one whose queries mutate cached objects): a query changes
    neither the elements nor the node table of any instance -/
theorem strip_query (w : World) (i : Nat) (q : String) : strip (query cfg w i q).1 = strip w := by
  simp only [query]; rw [strip_damage, strip_readSlots]

/-! ### every operation acts on the abstract state only -/

theorem strip_newInst {w w' : World} (h : strip w = strip w') : strip (newInst cfg w) = strip (newInst cfg w') := by
  rw [strip_eq] at h ⊢
  simp [newInst, h]

theorem addRawInst_congr {x y : Inst} (h : stripI x = stripI y) (e : Elt) :
    stripI (addRawInst cfg x e).1 = stripI (addRawInst cfg y e).1 ∧ (addRawInst cfg x e).2 = (addRawInst cfg y e).2 := by
  obtain ⟨h1, h2⟩ := stripI_eq.1 h
  unfold addRawInst
  rw [h1, h2]
  cases findElt y.elts e.name with
  | none => simp [stripI_eq, h1]
  | some old =>
    simp only []
    split
    · cases detachAll cfg.keepConnectedNode (attachElt y.tab e) (cfg.overrideSel.pick old.nodes) old.counted with
      | inl t => simp [stripI_eq, h1]
      | inr t => simp [stripI_eq, h1]
    · simp [stripI_eq, h1]

theorem addLinesInst_congr (es : List Elt) {x y : Inst} (h : stripI x = stripI y) :
    stripI (addLinesInst cfg x es).1 = stripI (addLinesInst cfg y es).1 ∧ (addLinesInst cfg x es).2 = (addLinesInst cfg y es).2 := by
  induction es generalizing x y with
  | nil => exact ⟨h, rfl⟩
  | cons e es ih =>
    obtain ⟨h1, h2⟩ := addRawInst_congr (cfg := cfg) h e
    simp only [addLinesInst]
    rw [h2]
    split
    · exact ih h1
    · exact ⟨h1, rfl⟩

/-- two worlds with the same abstract state hold, at every index, instances with the same elements and table -/
theorem get_congr {w w' : World} (h : strip w = strip w') (i : Nat) :
    (w.insts[i]? = none ∧ w'.insts[i]? = none) ∨
    (∃ x y, w.insts[i]? = some x ∧ w'.insts[i]? = some y ∧ stripI x = stripI y) := by
  have := strip_get_eq h i
  cases hx : w.insts[i]? with
  | none => rw [hx] at this; cases hy : w'.insts[i]? with
    | none => exact Or.inl ⟨rfl, rfl⟩
    | some y => rw [hy] at this; cases this
  | some x => rw [hx] at this; cases hy : w'.insts[i]? with
    | none => rw [hy] at this; cases this
    | some y => rw [hy] at this; exact Or.inr ⟨x, y, rfl, rfl, Option.some.inj this⟩

theorem addRaw_congr {w w' : World} (h : strip w = strip w') (i : Nat) (e : Elt) :
    strip (addRaw cfg w i e).1 = strip (addRaw cfg w' i e).1 ∧ (addRaw cfg w i e).2 = (addRaw cfg w' i e).2 := by
  unfold addRaw
  rcases get_congr h i with ⟨hx, hy⟩ | ⟨x, y, hx, hy, hxy⟩
  · simp only [hx, hy]; exact ⟨h, by first | rfl | trivial⟩
  · simp only [hx, hy]
    obtain ⟨h1, h2⟩ := addRawInst_congr (cfg := cfg) hxy e
    exact ⟨strip_set_congr h i h1 _ _ _ _, h2⟩

theorem add_congr {w w' : World} (h : strip w = strip w') (i : Nat) (e : Elt) :
    strip (add cfg w i e).1 = strip (add cfg w' i e).1 ∧ (add cfg w i e).2 = (add cfg w' i e).2 := by
  obtain ⟨h1, h2⟩ := addRaw_congr (cfg := cfg) h i e
  unfold add
  generalize addRaw cfg w i e = r at h1 h2
  generalize addRaw cfg w' i e = r' at h1 h2
  obtain ⟨a, b⟩ := r
  obtain ⟨a', b'⟩ := r'
  simp only [] at h1 h2 ⊢
  subst h2
  split
  · simp only [strip_invalidate]; exact ⟨h1, by first | rfl | trivial⟩
  · exact ⟨h1, by first | rfl | trivial⟩

theorem addLines_congr {w w' : World} (h : strip w = strip w') (i : Nat) (es : List Elt) :
    strip (addLines cfg w i es).1 = strip (addLines cfg w' i es).1 ∧ (addLines cfg w i es).2 = (addLines cfg w' i es).2 := by
  unfold addLines
  rcases get_congr h i with ⟨hx, hy⟩ | ⟨x, y, hx, hy, hxy⟩
  · simp only [hx, hy]; exact ⟨h, by first | rfl | trivial⟩
  · simp only [hx, hy]
    obtain ⟨h1, h2⟩ := addLinesInst_congr (cfg := cfg) es hxy
    rw [h2]
    split
    · simp only [strip_invalidate]; exact ⟨strip_set_congr h i h1 _ _ _ _, by first | rfl | trivial⟩
    · exact ⟨strip_set_congr h i h1 _ _ _ _, by first | rfl | trivial⟩

theorem failInst_congr {x y : Inst} (h : stripI x = stripI y) (e : Elt) (late : Bool) :
    stripI (failInst cfg x e late) = stripI (failInst cfg y e late) := by
  obtain ⟨h1, h2⟩ := stripI_eq.1 h
  unfold failInst
  split
  · simp [stripI_eq, h1, h2]
  · exact h

theorem addFail_congr {w w' : World} (h : strip w = strip w') (i : Nat) (es : List Elt) (e : Elt) (late : Bool) :
    strip (addFail cfg w i es e late).1 = strip (addFail cfg w' i es e late).1 ∧
    (addFail cfg w i es e late).2 = (addFail cfg w' i es e late).2 := by
  unfold addFail
  rcases get_congr h i with ⟨hx, hy⟩ | ⟨x, y, hx, hy, hxy⟩
  · simp only [hx, hy]; exact ⟨h, by first | rfl | trivial⟩
  · simp only [hx, hy]
    obtain ⟨h1, h2⟩ := addLinesInst_congr (cfg := cfg) es hxy
    rw [h2]
    have h3 : stripI (if (addLinesInst cfg y es).2 = true then failInst cfg (addLinesInst cfg x es).1 e late else (addLinesInst cfg x es).1) =
        stripI (if (addLinesInst cfg y es).2 = true then failInst cfg (addLinesInst cfg y es).1 e late else (addLinesInst cfg y es).1) := by
      split
      · exact failInst_congr h1 e late
      · exact h1
    refine ⟨?_, by first | rfl | trivial⟩
    split
    · simp only [strip_invalidate]; exact strip_set_congr h i h3 _ _ _ _
    · exact strip_set_congr h i h3 _ _ _ _

theorem remove_congr {w w' : World} (h : strip w = strip w') (i : Nat) (nm : String) :
    strip (remove cfg w i nm).1 = strip (remove cfg w' i nm).1 ∧ (remove cfg w i nm).2 = (remove cfg w' i nm).2 := by
  unfold remove
  rcases get_congr h i with ⟨hx, hy⟩ | ⟨x, y, hx, hy, hxy⟩
  · simp only [hx, hy]; exact ⟨h, by first | rfl | trivial⟩
  · simp only [hx, hy]
    obtain ⟨he, ht⟩ := stripI_eq.1 hxy
    rw [he]
    cases ho : findElt y.elts nm with
    | none => exact ⟨h, by first | rfl | trivial⟩
    | some e =>
      simp only []
      -- the worlds after the optional `_invalidate()`
      have hw0 : strip (if cfg.removeInvalidates = true then invalidate cfg w i else w) =
                 strip (if cfg.removeInvalidates = true then invalidate cfg w' i else w') := by
        split
        · rw [strip_invalidate, strip_invalidate]; exact h
        · exact h
      generalize (if cfg.removeInvalidates = true then invalidate cfg w i else w) = v at hw0
      generalize (if cfg.removeInvalidates = true then invalidate cfg w' i else w') = v' at hw0
      rcases get_congr hw0 i with ⟨hx0, hy0⟩ | ⟨x0, y0, hx0, hy0, hxy0⟩
      · simp only [hx0, hy0]; exact ⟨hw0, by first | rfl | trivial⟩
      · simp only [hx0, hy0]
        obtain ⟨he0, ht0⟩ := stripI_eq.1 hxy0
        rw [ht0]
        cases detachAll cfg.keepConnectedNode y0.tab (cfg.removeSel.pick e.nodes) e.counted with
        | inl t => exact ⟨strip_set_congr hw0 i (by simp [stripI_eq, he0]) _ _ _ _, by first | rfl | trivial⟩
        | inr t => exact ⟨strip_set_congr hw0 i (by simp [stripI_eq, he0]) _ _ _ _, by first | rfl | trivial⟩

theorem addRaw_fold_congr (es : List Elt) {w w' : World} (h : strip w = strip w') (j : Nat) :
    strip (es.foldl (fun w e => (addRaw cfg w j e).1) w) = strip (es.foldl (fun w e => (addRaw cfg w j e).1) w') := by
  induction es generalizing w w' with
  | nil => exact h
  | cons e es ih => simp only [List.foldl]; exact ih (addRaw_congr h j e).1

theorem derive_congr {w w' : World} (h : strip w = strip w') (i : Nat) (pre : String) (es : List Elt) :
    strip (derive cfg w i pre es) = strip (derive cfg w' i pre es) := by
  have hq : strip (query cfg w i pre).1 = strip (query cfg w' i pre).1 := by rw [strip_query, strip_query]; exact h
  show strip (es.foldl (fun v e => (addRaw cfg v (query cfg w i pre).1.insts.length e).1) (newInst cfg (query cfg w i pre).1)) =
       strip (es.foldl (fun v e => (addRaw cfg v (query cfg w' i pre).1.insts.length e).1) (newInst cfg (query cfg w' i pre).1))
  rw [strip_len_eq hq]
  exact addRaw_fold_congr es (strip_newInst hq) _

/-- ABSTRACTION: the next abstract state and the exception flag of every operation are functions of the
    abstract state (elements and node tables) alone -- no memo entry, no class-level cache entry and
    no clock value can influence them -/
theorem step_congr {w w' : World} (h : strip w = strip w') (op : Op) :
    strip (step cfg w op).1 = strip (step cfg w' op).1 ∧ (step cfg w op).2 = (step cfg w' op).2 := by
  have hc : strip { w with clock := w.clock + 1 } = strip { w' with clock := w'.clock + 1 } := h
  cases op with
  | new => exact ⟨strip_newInst hc, rfl⟩
  | add i e => exact add_congr hc i e
  | addRaw i e => exact addRaw_congr hc i e
  | addLines i es => exact addLines_congr hc i es
  | remove i nm => exact remove_congr hc i nm
  | query i q => simp only [step]; rw [strip_query, strip_query]; exact ⟨hc, by first | rfl | trivial⟩
  | derive i pre es => exact ⟨derive_congr hc i pre es, rfl⟩
  | addFail i es e late => exact addFail_congr hc i es e late

theorem run_congr (ops : List Op) {w w' : World} (h : strip w = strip w') :
    strip (run cfg w ops) = strip (run cfg w' ops) := by
  induction ops generalizing w w' with
  | nil => exact h
  | cons op ops ih => exact ih (step_congr h op).1

theorem noRaise_congr (ops : List Op) {w w' : World} (h : strip w = strip w') :
    NoRaise cfg w ops ↔ NoRaise cfg w' ops := by
  induction ops generalizing w w' with
  | nil => exact Iff.rfl
  | cons op ops ih =>
    simp only [NoRaise]
    rw [(step_congr h op).2, ih (step_congr h op).1]

/-! ### admissibility depends on the abstract state only; queries can be erased from a history -/

theorem eltsOf_congr {w w' : World} (h : strip w = strip w') (i : Nat) : eltsOf w i = eltsOf w' i := by
  unfold eltsOf
  rcases get_congr h i with ⟨hx, hy⟩ | ⟨x, y, hx, hy, hxy⟩
  · rw [hx, hy]
  · rw [hx, hy]; simp [(stripI_eq.1 hxy).1]

theorem admissible_congr {w w' : World} (h : strip w = strip w') (op : Op) :
    op.admissible cfg w ↔ op.admissible cfg w' := by
  cases op <;> simp only [Op.admissible, eltsOf_congr h]

theorem runOK_congr (ops : List Op) {w w' : World} (h : strip w = strip w') :
    RunOK cfg w ops ↔ RunOK cfg w' ops := by
  induction ops generalizing w w' with
  | nil => exact Iff.rfl
  | cons op ops ih =>
    simp only [RunOK]
    rw [admissible_congr h op, (step_congr h op).2, ih (step_congr h op).1]

theorem runOKF_congr (ops : List Op) {w w' : World} (h : strip w = strip w') :
    RunOKF cfg w ops ↔ RunOKF cfg w' ops := by
  induction ops generalizing w w' with
  | nil => exact Iff.rfl
  | cons op ops ih =>
    simp only [RunOKF]
    rw [admissible_congr h op, ih (step_congr h op).1]

theorem run_append (a b : List Op) (w : World) : run cfg w (a ++ b) = run cfg (run cfg w a) b := by
  induction a generalizing w with
  | nil => rfl
  | cons op a ih => simp only [List.cons_append, run]; exact ih _

theorem runOK_append (a b : List Op) (w : World) :
    RunOK cfg w (a ++ b) ↔ RunOK cfg w a ∧ RunOK cfg (run cfg w a) b := by
  induction a generalizing w with
  | nil => simp [RunOK, run]
  | cons op a ih => simp only [List.cons_append, RunOK, run, ih, and_assoc]

theorem step_query_strip (w : World) (i : Nat) (q : String) : strip (step cfg w (.query i q)).1 = strip w := by
  simp only [step]; rw [strip_query]; rfl

/-- a query anywhere in a history can be erased without changing the abstract state reached -/
theorem run_erase_query (pre post : List Op) (w : World) (i : Nat) (q : String) :
    strip (run cfg w (pre ++ .query i q :: post)) = strip (run cfg w (pre ++ post)) := by
  rw [run_append, run_append]
  simp only [run]
  exact run_congr post (step_query_strip _ i q)

theorem runOK_erase_query (pre post : List Op) (w : World) (i : Nat) (q : String) :
    RunOK cfg w (pre ++ .query i q :: post) ↔ RunOK cfg w (pre ++ post) := by
  rw [runOK_append, runOK_append]
  simp only [RunOK, Op.admissible, true_and]
  have h1 : (step cfg (run cfg w pre) (.query i q)).2 = true := rfl
  rw [runOK_congr post (step_query_strip (cfg := cfg) (run cfg w pre) i q)]
  simp [h1]

/-! ### the exception branch -/

theorem addRawInst_total (hk : cfg.keepConnectedNode = true) (inst : Inst) (e : Elt) : (addRawInst cfg inst e).2 = true := by
  unfold addRawInst
  cases findElt inst.elts e.name with
  | none => rfl
  | some old =>
    simp only []
    split
    · obtain ⟨t', ht'⟩ := detachAll_total (cfg.overrideSel.pick old.nodes) (attachElt inst.tab e) old.counted
      rw [hk, ht']
    · rfl

theorem addLinesInst_total (hk : cfg.keepConnectedNode = true) (es : List Elt) (inst : Inst) : (addLinesInst cfg inst es).2 = true := by
  induction es generalizing inst with
  | nil => rfl
  | cons e es ih => simp only [addLinesInst, addRawInst_total hk, if_true]; exact ih _

/-- which failing operations are claimed atomic: everything except a multi-line `add` whose first
    lines were fine, and a late failure when the code does not detach the half-built component -/
def Op.atomicOnFailure (cfg : Config) : Op → Prop
  | .addFail _ es _ late => es = [] ∧ (late = true → cfg.failedAddDetaches = true)
  | _ => True

/-- ATOMICITY: when `Node.remove` cannot raise half way, every operation that raises leaves the
    elements and node tables of all instances exactly as they were -/
theorem failed_step_strip (hk : cfg.keepConnectedNode = true) (w : World) (op : Op) (hop : op.atomicOnFailure cfg)
    (hf : (step cfg w op).2 = false) : strip (step cfg w op).1 = strip w := by
  cases op with
  | new => simp [step] at hf
  | query i q => simp [step] at hf
  | derive i pre es => simp [step] at hf
  | add i e =>
    cases hi : w.insts[i]? with
    | none => simp [step, add, addRaw, hi]; rfl
    | some inst => (exfalso; simp [step, add, addRaw, hi, addRawInst_total hk] at hf; split at hf <;> simp at hf)
  | addRaw i e =>
    cases hi : w.insts[i]? with
    | none => simp [step, addRaw, hi]; rfl
    | some inst => simp [step, addRaw, hi, addRawInst_total hk] at hf
  | addLines i es =>
    cases hi : w.insts[i]? with
    | none => simp [step, addLines, hi]; rfl
    | some inst => (exfalso; simp [step, addLines, hi, addLinesInst_total hk] at hf; split at hf <;> simp at hf)
  | remove i nm =>
    cases hi : w.insts[i]? with
    | none => simp [step, remove, hi]; rfl
    | some inst =>
      cases ho : findElt inst.elts nm with
      | none => simp [step, remove, hi, ho]; rfl
      | some e =>
        simp only [step, remove, hi] at hf
        exfalso
        simp only [ho] at hf
        have hlt : i < w.insts.length := by
          rcases Nat.lt_or_ge i w.insts.length with h1 | h1
          · exact h1
          · rw [List.getElem?_eq_none h1] at hi; cases hi
        by_cases hr : cfg.removeInvalidates = true
        · simp only [hr, if_true, invalidate, hi, List.getElem?_set, hlt] at hf
          obtain ⟨t', ht'⟩ := detachAll_total (cfg.removeSel.pick e.nodes) inst.tab e.counted
          simp [hk, ht'] at hf
        · have hr' : cfg.removeInvalidates = false := by simpa using hr
          obtain ⟨t', ht'⟩ := detachAll_total (cfg.removeSel.pick e.nodes) inst.tab e.counted
          simp [hr', hi, hk, ht'] at hf
  | addFail i es e late =>
    obtain ⟨hes, hl⟩ := hop
    subst hes
    simp only [step, addFail]
    cases hi : w.insts[i]? with
    | none => rfl
    | some inst =>
      have hfi : failInst cfg inst e late = inst := by
        unfold failInst
        cases late with
        | false => simp
        | true => simp [hl rfl]
      simp only [addLinesInst, if_true, hfi]
      have : strip ({ insts := w.insts.set i inst, lru := w.lru, clock := w.clock + 1 } : World) = strip w :=
        strip_set_self w i inst inst hi rfl _ _
      split
      · rw [strip_invalidate]; exact this
      · exact this

theorem addFail_other (w : World) (i k : Nat) (es : List Elt) (e : Elt) (late : Bool) (h : k ≠ i) :
    (addFail cfg w i es e late).1.insts[k]? = w.insts[k]? := by
  unfold addFail
  cases hi : w.insts[i]? with
  | none => rfl
  | some inst =>
    simp only []
    split
    · rw [invalidate_other _ _ _ h]; simp [set_other _ _ _ _ h]
    · simp [set_other _ _ _ _ h]

variable {G : String → Bool}

/-- the invariant survives operations that raise, when the code is exception safe in the sense of the
    admissibility conditions (`_invalidate()` in a `finally`, half-built components detached) -/
theorem inv_step_any (hc : CfgOK cfg G) (hk : cfg.keepConnectedNode = true) {w : World} (h : Inv cfg G w) (op : Op)
    (hadm : op.admissible cfg w) : Inv cfg G (step cfg w op).1 := by
  cases hf : (step cfg w op).2 with
  | true => exact inv_step hc h op hadm hf
  | false =>
    have hclk := inv_clock h (w.clock + 1)
    cases op with
    | new => simp [step] at hf
    | query i q => simp [step] at hf
    | derive i pre es => simp [step] at hf
    | addRaw i e => exact absurd hadm (by simp [Op.admissible])
    | add i e =>
      cases hi : w.insts[i]? with
      | none => simpa [step, add, addRaw, hi] using hclk
      | some inst => (exfalso; simp [step, add, addRaw, hi, addRawInst_total hk] at hf; split at hf <;> simp at hf)
    | addLines i es =>
      cases hi : w.insts[i]? with
      | none => simpa [step, addLines, hi] using hclk
      | some inst => (exfalso; simp [step, addLines, hi, addLinesInst_total hk] at hf; split at hf <;> simp at hf)
    | remove i nm =>
      cases hi : w.insts[i]? with
      | none => simpa [step, remove, hi] using hclk
      | some inst =>
        cases ho : findElt inst.elts nm with
        | none => simpa [step, remove, hi, ho] using hclk
        | some e =>
          exfalso
          simp only [step, remove, hi] at hf
          have hlt : i < w.insts.length := by
            rcases Nat.lt_or_ge i w.insts.length with h1 | h1
            · exact h1
            · rw [List.getElem?_eq_none h1] at hi; cases hi
          simp only [ho] at hf
          by_cases hr : cfg.removeInvalidates = true
          · simp only [hr, if_true, invalidate, hi, List.getElem?_set, hlt] at hf
            obtain ⟨t', ht'⟩ := detachAll_total (cfg.removeSel.pick e.nodes) inst.tab e.counted
            simp [hk, ht'] at hf
          · have hr' : cfg.removeInvalidates = false := by simpa using hr
            obtain ⟨t', ht'⟩ := detachAll_total (cfg.removeSel.pick e.nodes) inst.tab e.counted
            simp [hr', hi, hk, ht'] at hf
    | addFail i es e late =>
      obtain ⟨hinv, hl, hover⟩ := hadm
      simp only [step, addFail]
      cases hi : w.insts[i]? with
      | none => simpa using hclk
      | some inst =>
        have hlt : i < w.insts.length := by
          rcases Nat.lt_or_ge i w.insts.length with h1 | h1
          · exact h1
          · rw [List.getElem?_eq_none h1] at hi; cases hi
        obtain ⟨ht, hu⟩ := h.tab i inst hi
        have helts : eltsOf w i = inst.elts := by simp [eltsOf, hi]
        rw [helts] at hover
        have hr := addLinesInst_total (cfg := cfg) hk es inst
        obtain ⟨ht2, hu2, hm2⟩ := addLinesInst_ok (cfg := cfg) es inst ht hu hover hr
        have hfi : failInst cfg (addLinesInst cfg inst es).1 e late = (addLinesInst cfg inst es).1 := by
          unfold failInst
          cases late with
          | false => simp
          | true => simp [hl rfl]
        simp only [hr, if_true, hfi, hinv]
        have := invalidate_set (cfg := cfg) { w with clock := w.clock + 1 } i (addLinesInst cfg inst es).1 hlt
        simp only [] at this
        rw [this, hm2]
        exact inv_mutated hc hclk i inst hi _ _ _ ht2 hu2

theorem inv_runF (hc : CfgOK cfg G) (hk : cfg.keepConnectedNode = true) (ops : List Op) {w : World} (h : Inv cfg G w)
    (hr : RunOKF cfg w ops) : Inv cfg G (run cfg w ops) := by
  induction ops generalizing w with
  | nil => exact h
  | cons op ops ih => exact ih (inv_step_any hc hk h op hr.1) hr.2

end Lcapy.Cache
