/-
  C09 analytic anchor for the whole exponential-polynomial class (complex rates, all orders, delays):
  the formal unilateral transform `L` (Spec/Signal.lean) of a delta-free formal signal equals the defining
  integral  ∫_{0}^{∞} x(t) e^{−st} dt  at every point of the half-plane right of all poles.

    integral_pow_mul_cexp :  ∫_0^∞ t^k e^{at} dt = k!/(−a)^{k+1}           (Re a < 0; induction on k by parts)
    anchor_complex        :  ∫_0^∞ t^k e^{pt} e^{−st} dt = k!/(s−p)^{k+1}   (Re p < Re s)
    lt_term_is_integral   :  one delayed term  c (t−d)^k/k! e^{p(t−d)} u(t−d),  d ≥ 0
    lt_is_integral        :  finite sums (linearity of the integral; integrability of every term)

  sin/cos/sinh/cosh and damped sinusoids are sums of complex exponentials, so they are inside this class
  (`anchor_damped_sin`, `anchor_damped_cos`).  Only this file and LaplaceAnchor.lean import analysis from Mathlib.
-/
import Lcapy.Spec.Signal
import Lcapy.Proofs.Laplace
import Mathlib.Analysis.SpecialFunctions.Gaussian.GaussianIntegral
import Mathlib.Analysis.SpecialFunctions.ImproperIntegrals
import Mathlib.MeasureTheory.Integral.IntegralEqImproper
import Mathlib.MeasureTheory.Group.Integral
import Mathlib.MeasureTheory.Measure.Lebesgue.Integral
namespace Lcapy.Laplace
open MeasureTheory Set Filter Topology

theorem norm_pow_mul_cexp (k : ℕ) (a : ℂ) (t : ℝ) (ht : 0 ≤ t) :
    ‖(t : ℂ) ^ k * Complex.exp (a * t)‖ = t ^ k * Real.exp (a.re * t) := by
  rw [norm_mul, norm_pow, Complex.norm_real, Real.norm_of_nonneg ht, Complex.norm_exp]
  simp

theorem integrable_pow_mul_cexp (k : ℕ) (a : ℂ) (ha : a.re < 0) :
    IntegrableOn (fun t : ℝ => (t : ℂ) ^ k * Complex.exp (a * t)) (Ioi 0) := by
  have hreal : IntegrableOn (fun t : ℝ => t ^ k * Real.exp (a.re * t)) (Ioi 0) := by
    have h := integrableOn_rpow_mul_exp_neg_mul_rpow (s := (k : ℝ)) (p := 1) (b := -a.re)
      (by have : (0:ℝ) ≤ k := Nat.cast_nonneg k; linarith) one_pos (by linarith)
    refine h.congr_fun (fun t _ => ?_) measurableSet_Ioi
    simp [Real.rpow_natCast]
  have hmeas : AEStronglyMeasurable (fun t : ℝ => (t : ℂ) ^ k * Complex.exp (a * t)) (volume.restrict (Ioi 0)) := by
    apply Continuous.aestronglyMeasurable
    fun_prop
  refine Integrable.mono' hreal hmeas ?_
  filter_upwards [ae_restrict_mem measurableSet_Ioi] with t ht
  rw [norm_pow_mul_cexp k a t (le_of_lt ht)]

theorem tendsto_pow_mul_cexp (k : ℕ) (a : ℂ) (ha : a.re < 0) :
    Tendsto (fun t : ℝ => (t : ℂ) ^ k * Complex.exp (a * t)) atTop (𝓝 0) := by
  rw [tendsto_zero_iff_norm_tendsto_zero]
  have h := tendsto_rpow_mul_exp_neg_mul_atTop_nhds_zero (k : ℝ) (-a.re) (by linarith)
  refine h.congr' ?_
  filter_upwards [eventually_ge_atTop (0 : ℝ)] with t ht
  rw [norm_pow_mul_cexp k a t ht]
  simp [Real.rpow_natCast]

/-- `∫_0^∞ t^k e^{at} dt = k!/(−a)^{k+1}` for `Re a < 0` (induction on `k`, integration by parts) -/
theorem integral_pow_mul_cexp (k : ℕ) (a : ℂ) (ha : a.re < 0) :
    ∫ t : ℝ in Ioi (0:ℝ), (t : ℂ) ^ k * Complex.exp (a * t) = (k.factorial : ℂ) / (-a) ^ (k + 1) := by
  have ha0 : a ≠ 0 := by
    intro h; rw [h] at ha; simp at ha
  induction k with
  | zero =>
    have key := integral_exp_mul_complex_Ioi ha 0
    simp only [pow_zero, one_mul, Nat.factorial_zero, Nat.cast_one, zero_add, pow_one]
    rw [key]; simp; field_simp
  | succ k ih =>
    -- F(t) = t^{k+1} e^{at}/a,  F' = (k+1) t^k e^{at}/a + t^{k+1} e^{at}
    have hderiv : ∀ x ∈ Ici (0:ℝ), HasDerivAt (fun t : ℝ => (t : ℂ) ^ (k + 1) * Complex.exp (a * t) / a)
        (((k + 1 : ℕ) : ℂ) / a * ((x : ℂ) ^ k * Complex.exp (a * x)) + (x : ℂ) ^ (k + 1) * Complex.exp (a * x)) x := by
      intro x _
      have h1 : HasDerivAt (fun t : ℝ => (t : ℂ)) 1 x := Complex.ofRealCLM.hasDerivAt
      have h2 : HasDerivAt (fun t : ℝ => (t : ℂ) ^ (k + 1)) (((k + 1 : ℕ) : ℂ) * (x : ℂ) ^ k * 1) x := by
        have := h1.fun_pow (k + 1)
        simpa using this
      have h3 : HasDerivAt (fun t : ℝ => Complex.exp (a * t)) (Complex.exp (a * x) * (a * 1)) x :=
        (h1.const_mul a).cexp
      have h4 : HasDerivAt (fun t : ℝ => (t : ℂ) ^ (k + 1) * Complex.exp (a * t) / a) _ x := (h2.fun_mul h3).div_const a
      refine h4.congr_deriv ?_
      field_simp
    have hint : IntegrableOn (fun x : ℝ => ((k + 1 : ℕ) : ℂ) / a * ((x : ℂ) ^ k * Complex.exp (a * x))
        + (x : ℂ) ^ (k + 1) * Complex.exp (a * x)) (Ioi 0) :=
      ((integrable_pow_mul_cexp k a ha).const_mul _).add (integrable_pow_mul_cexp (k + 1) a ha)
    have hlim : Tendsto (fun t : ℝ => (t : ℂ) ^ (k + 1) * Complex.exp (a * t) / a) atTop (𝓝 0) := by
      simpa using (tendsto_pow_mul_cexp (k + 1) a ha).div_const a
    have key := integral_Ioi_of_hasDerivAt_of_tendsto' hderiv hint hlim
    rw [integral_add ((integrable_pow_mul_cexp k a ha).const_mul _) (integrable_pow_mul_cexp (k + 1) a ha),
      integral_const_mul, ih] at key
    simp only [Complex.ofReal_zero, ne_eq, Nat.add_eq_zero_iff, one_ne_zero, and_false, not_false_eq_true, zero_pow,
      zero_mul, zero_div, sub_self] at key
    have : ∫ t : ℝ in Ioi (0:ℝ), (t : ℂ) ^ (k + 1) * Complex.exp (a * t)
        = -(((k + 1 : ℕ) : ℂ) / a * ((k.factorial : ℂ) / (-a) ^ (k + 1))) := by
      linear_combination key
    have hb : (-a) ^ (k + 1) ≠ 0 := pow_ne_zero _ (neg_ne_zero.mpr ha0)
    rw [this, Nat.factorial_succ, pow_succ (-a) (k + 1)]
    push_cast
    field_simp


/-- complex rate, every order: `∫_0^∞ t^k e^{pt} e^{−st} dt = k!/(s−p)^{k+1}` on `Re p < Re s` -/
theorem anchor_complex (k : ℕ) (p s : ℂ) (h : p.re < s.re) :
    ∫ t : ℝ in Ioi (0:ℝ), (t : ℂ) ^ k * Complex.exp (p * t) * Complex.exp (-(s * t))
      = (k.factorial : ℂ) / (s - p) ^ (k + 1) := by
  have ha : (p - s).re < 0 := by simp; linarith
  have key := integral_pow_mul_cexp k (p - s) ha
  have : ∀ t : ℝ, (t : ℂ) ^ k * Complex.exp (p * t) * Complex.exp (-(s * t)) = (t : ℂ) ^ k * Complex.exp ((p - s) * t) := by
    intro t; rw [mul_assoc, ← Complex.exp_add]; congr 2; ring
  simp only [this, key, neg_sub]

/-! ### change of variables `t = u + d` on `(d, ∞)` -/

theorem shift_Ioi (φ : ℝ → ℂ) (d : ℝ) : ∫ t in Ioi d, φ t = ∫ u in Ioi (0:ℝ), φ (u + d) := by
  have h := (measurePreserving_add_right (volume : Measure ℝ) d).setIntegral_preimage_emb
    (measurableEmbedding_addRight d) φ (Ioi d)
  have hp : (fun x : ℝ => x + d) ⁻¹' Ioi d = Ioi 0 := by
    ext x; simp
  rw [hp] at h
  exact h.symm

theorem shift_integrableOn_Ioi (φ : ℝ → ℂ) (d : ℝ) (h : IntegrableOn (fun u => φ (u + d)) (Ioi 0)) :
    IntegrableOn φ (Ioi d) := by
  have hp : (fun x : ℝ => x + d) ⁻¹' Ioi d = Ioi 0 := by
    ext x; simp
  have := (measurePreserving_add_right (volume : Measure ℝ) d).integrableOn_comp_preimage
    (measurableEmbedding_addRight d) (f := φ) (s := Ioi d)
  rw [hp] at this
  exact this.mp h

/-! ### formal signals over ℂ as functions of real time -/

/-- value at real time `t` of the regular part of a term (the delay is the real number `d.re`); same reading as
    `Term.at` of Spec/Signal.lean -/
noncomputable def Term.timeFn : Term ℂ → ℝ → ℂ
  | .ep c k p d, t =>
      if d.re ≤ t then c * ((t - d.re : ℝ) : ℂ) ^ k / (k.factorial : ℂ) * Complex.exp (p * ((t - d.re : ℝ) : ℂ)) else 0
  | .dl _ _ _, _ => 0

noncomputable def timeFn (f : ExpPoly ℂ) (t : ℝ) : ℂ := (f.map (fun x => x.timeFn t)).sum

/-- all delays are non-negative reals -/
def RealDelays (f : ExpPoly ℂ) : Prop := ∀ x ∈ f, x.delayOf.im = 0 ∧ 0 ≤ x.delayOf.re

/-- `s` lies in the half-plane of convergence: to the right of every pole -/
def InROC (f : ExpPoly ℂ) (s : ℂ) : Prop :=
  ∀ x ∈ f, match x with
    | .ep _ _ p _ => p.re < s.re
    | .dl _ _ _ => True

/-- the integrand after the substitution `t = u + D` -/
theorem shifted_integrand (c : ℂ) (k : ℕ) (p s : ℂ) (D u : ℝ) :
    c * (((u + D) - D : ℝ) : ℂ) ^ k / (k.factorial : ℂ) * Complex.exp (p * (((u + D) - D : ℝ) : ℂ))
        * Complex.exp (-(s * ((u + D : ℝ) : ℂ)))
      = (c / (k.factorial : ℂ) * Complex.exp (-(s * D))) * ((u : ℂ) ^ k * Complex.exp ((p - s) * u)) := by
  have h1 : ((u + D) - D : ℝ) = u := by ring
  rw [h1]
  have h2 : Complex.exp (p * (u : ℂ)) * Complex.exp (-(s * ((u + D : ℝ) : ℂ)))
      = Complex.exp (-(s * D)) * Complex.exp ((p - s) * u) := by
    rw [← Complex.exp_add, ← Complex.exp_add]; congr 1; push_cast; ring
  calc c * (u : ℂ) ^ k / (k.factorial : ℂ) * Complex.exp (p * (u : ℂ)) * Complex.exp (-(s * ((u + D : ℝ) : ℂ)))
      = c * (u : ℂ) ^ k / (k.factorial : ℂ) * (Complex.exp (p * (u : ℂ)) * Complex.exp (-(s * ((u + D : ℝ) : ℂ)))) := by ring
    _ = _ := by rw [h2]; ring

/-- One delayed term: `x(t) e^{−st}` is integrable on `(0, ∞)` and its integral is the formal transform. -/
theorem lt_term_is_integral (c : ℂ) (k : ℕ) (p d s : ℂ) (hd : d.im = 0) (hd0 : 0 ≤ d.re) (h : p.re < s.re) :
    IntegrableOn (fun t : ℝ => (Term.ep c k p d).timeFn t * Complex.exp (-(s * t))) (Ioi 0) ∧
    ∫ t : ℝ in Ioi (0:ℝ), (Term.ep c k p d).timeFn t * Complex.exp (-(s * t)) = (Term.ep c k p d).L Complex.exp s := by
  obtain ⟨D, hD⟩ : ∃ D : ℝ, D = d.re := ⟨_, rfl⟩
  have hdD : d = (D : ℂ) := by apply Complex.ext <;> simp [hD, hd]
  have hD0 : 0 ≤ D := hD ▸ hd0
  have ha : (p - s).re < 0 := by simp; linarith
  have hne : s - p ≠ 0 := by
    intro h0; have := congrArg Complex.re h0; simp at this; linarith
  have hk : (k.factorial : ℂ) ≠ 0 := by exact_mod_cast k.factorial_ne_zero
  -- the integrand is `φ` switched on at `D`
  let φ : ℝ → ℂ := fun t => c * ((t - D : ℝ) : ℂ) ^ k / (k.factorial : ℂ) * Complex.exp (p * ((t - D : ℝ) : ℂ))
    * Complex.exp (-(s * (t : ℂ)))
  have hfun : (fun t : ℝ => (Term.ep c k p d).timeFn t * Complex.exp (-(s * t))) = (Ici D).indicator φ := by
    funext t
    simp only [Term.timeFn, ← hD, Set.indicator_apply, mem_Ici, φ]
    split_ifs <;> simp
  have hshift : ∀ u : ℝ, φ (u + D) = (c / (k.factorial : ℂ) * Complex.exp (-(s * D))) * ((u : ℂ) ^ k * Complex.exp ((p - s) * u)) :=
    fun u => shifted_integrand c k p s D u
  have hintφ : IntegrableOn φ (Ioi D) := by
    apply shift_integrableOn_Ioi
    simp only [hshift]
    exact (integrable_pow_mul_cexp k (p - s) ha).const_mul _
  have hset : (Ici D ∩ Ioi (0:ℝ) : Set ℝ) =ᵐ[volume] Ioi D := by
    rcases hD0.eq_or_lt with h0 | h0
    · rw [← h0]
      have : (Ici (0:ℝ) ∩ Ioi 0) = Ioi 0 := by ext x; simp; intro hx; exact le_of_lt hx
      rw [this]; exact Filter.EventuallyEq.rfl
    · have : (Ici D ∩ Ioi (0:ℝ)) = Ici D := by
        ext x; simp only [mem_inter_iff, mem_Ici, mem_Ioi, and_iff_left_iff_imp]; intro hx; linarith
      rw [this]; exact Ioi_ae_eq_Ici.symm
  constructor
  · rw [hfun, integrableOn_indicator_iff measurableSet_Ici]
    exact hintφ.congr_set_ae hset
  · rw [hfun, setIntegral_indicator measurableSet_Ici, inter_comm, setIntegral_congr_set hset, shift_Ioi]
    simp only [hshift]
    rw [integral_const_mul, integral_pow_mul_cexp k (p - s) ha]
    simp only [Term.L, pw_eq, neg_sub, hdD]
    field_simp

/-- **The transform is the defining integral** on the exponential-polynomial class: for every delta-free formal
    signal with non-negative real delays (finite sum of `c (t−d)^k/k! e^{p(t−d)} u(t−d)`, `c`, `p` complex: polynomials,
    real and complex exponentials, sin/cos/sinh/cosh, damped sinusoids, their delayed versions) and every `s` to the right
    of all poles, `x(t) e^{−st}` is integrable on `(0, ∞)` and `∫_0^∞ x(t) e^{−st} dt = L x (s)`. -/
theorem lt_is_integral (f : ExpPoly ℂ) (s : ℂ) (hnd : NoDelta f) (hd : RealDelays f) (hs : InROC f s) :
    IntegrableOn (fun t : ℝ => timeFn f t * Complex.exp (-(s * t))) (Ioi 0) ∧
    ∫ t : ℝ in Ioi (0:ℝ), timeFn f t * Complex.exp (-(s * t)) = L Complex.exp f s := by
  induction f with
  | nil => simp [timeFn]
  | cons x f ih =>
    have hnd' : NoDelta f := fun t ht => hnd t (List.mem_cons_of_mem _ ht)
    have hd' : RealDelays f := fun t ht => hd t (List.mem_cons_of_mem _ ht)
    have hs' : InROC f s := fun t ht => hs t (List.mem_cons_of_mem _ ht)
    obtain ⟨ihI, ihE⟩ := ih hnd' hd' hs'
    have hsplit : (fun t : ℝ => timeFn (x :: f) t * Complex.exp (-(s * t)))
        = fun t : ℝ => x.timeFn t * Complex.exp (-(s * t)) + timeFn f t * Complex.exp (-(s * t)) := by
      funext t; simp [timeFn, add_mul]
    cases x with
    | dl c n d => exact absurd (hnd _ List.mem_cons_self) (by simp)
    | ep c k p d =>
      have hx := hd _ List.mem_cons_self
      have hp := hs _ List.mem_cons_self
      simp only [Term.delayOf] at hx
      obtain ⟨tI, tE⟩ := lt_term_is_integral c k p d s hx.1 hx.2 hp
      rw [hsplit]
      refine ⟨tI.add ihI, ?_⟩
      rw [integral_add tI ihI, tE, ihE, L_cons]

/-- delay-free version -/
theorem lt_is_integral_nodelay (f : ExpPoly ℂ) (s : ℂ) (hnd : NoDelta f) (hd : ∀ x ∈ f, x.delayOf = 0) (hs : InROC f s) :
    ∫ t : ℝ in Ioi (0:ℝ), timeFn f t * Complex.exp (-(s * t)) = L Complex.exp f s :=
  (lt_is_integral f s hnd (fun x hx => by simp [hd x hx]) hs).2

-- non-vacuity: a damped complex exponential of order 1 plus a delayed decaying exponential, `s = 0` is in the ROC
example : NoDelta [Term.ep 2 1 (-3 + 4 * Complex.I) 0, Term.ep 1 0 (-1) 1] := by
  intro t ht; simp at ht; rcases ht with rfl | rfl <;> trivial
example : RealDelays [Term.ep 2 1 (-3 + 4 * Complex.I) 0, Term.ep 1 0 (-1) 1] := by
  intro t ht; simp at ht; rcases ht with rfl | rfl <;> simp [Term.delayOf]
example : InROC [Term.ep 2 1 (-3 + 4 * Complex.I) 0, Term.ep 1 0 (-1) 1] 0 := by
  intro t ht; simp at ht; rcases ht with rfl | rfl <;> simp

/-! ### sin / cos with damping: inside the class as conjugate complex exponentials -/

/-- `e^{−αt} sin(ωt)` as a formal signal: two conjugate complex exponentials -/
noncomputable def dampedSinSig (al w : ℝ) : ExpPoly ℂ :=
  [Term.ep (1 / (2 * Complex.I)) 0 (-al + w * Complex.I) 0, Term.ep (-(1 / (2 * Complex.I))) 0 (-al - w * Complex.I) 0]
noncomputable def dampedCosSig (al w : ℝ) : ExpPoly ℂ :=
  [Term.ep (1 / 2) 0 (-al + w * Complex.I) 0, Term.ep (1 / 2) 0 (-al - w * Complex.I) 0]

theorem timeFn_dampedSinSig (al w t : ℝ) (ht : 0 ≤ t) :
    timeFn (dampedSinSig al w) t = ((Real.exp (-al * t) * Real.sin (w * t) : ℝ) : ℂ) := by
  simp only [dampedSinSig, timeFn, Term.timeFn, Complex.zero_re, ht, if_true, List.map_cons, List.map_nil, List.sum_cons,
    List.sum_nil, pow_zero, Nat.factorial_zero, Nat.cast_one, sub_zero, mul_one, div_one, add_zero]
  push_cast
  rw [Complex.sin]
  have e1 : Complex.exp ((-(al : ℂ) + w * Complex.I) * t) = Complex.exp (-al * t) * Complex.exp (w * t * Complex.I) := by
    rw [← Complex.exp_add]; congr 1; ring
  have e2 : Complex.exp ((-(al : ℂ) - w * Complex.I) * t) = Complex.exp (-al * t) * Complex.exp (-(w * t) * Complex.I) := by
    rw [← Complex.exp_add]; congr 1; ring
  rw [e1, e2]
  have hI : Complex.I ≠ 0 := Complex.I_ne_zero
  field_simp
  have : Complex.I ^ 2 = -1 := Complex.I_sq
  ring_nf
  rw [this]; ring

theorem timeFn_dampedCosSig (al w t : ℝ) (ht : 0 ≤ t) :
    timeFn (dampedCosSig al w) t = ((Real.exp (-al * t) * Real.cos (w * t) : ℝ) : ℂ) := by
  simp only [dampedCosSig, timeFn, Term.timeFn, Complex.zero_re, ht, if_true, List.map_cons, List.map_nil, List.sum_cons,
    List.sum_nil, pow_zero, Nat.factorial_zero, Nat.cast_one, sub_zero, mul_one, div_one, add_zero]
  push_cast
  rw [Complex.cos]
  have e1 : Complex.exp ((-(al : ℂ) + w * Complex.I) * t) = Complex.exp (-al * t) * Complex.exp (w * t * Complex.I) := by
    rw [← Complex.exp_add]; congr 1; ring
  have e2 : Complex.exp ((-(al : ℂ) - w * Complex.I) * t) = Complex.exp (-al * t) * Complex.exp (-(w * t) * Complex.I) := by
    rw [← Complex.exp_add]; congr 1; ring
  rw [e1, e2]
  ring

theorem roc_damped (al w : ℝ) (s : ℂ) (h : -al < s.re) : InROC (dampedSinSig al w) s ∧ InROC (dampedCosSig al w) s := by
  constructor <;> (intro x hx; simp [dampedSinSig, dampedCosSig] at hx; rcases hx with rfl | rfl <;> simpa using h)

/-- the table entry of the damped sine is the defining integral:  `∫_0^∞ e^{−αt} sin(ωt) e^{−st} dt = ω/((s+α)² + ω²)` -/
theorem anchor_damped_sin (al w : ℝ) (s : ℂ) (h : -al < s.re) :
    ∫ t : ℝ in Ioi (0:ℝ), ((Real.exp (-al * t) * Real.sin (w * t) : ℝ) : ℂ) * Complex.exp (-(s * t))
      = w / ((s + al) ^ 2 + w ^ 2) := by
  have hnd : NoDelta (dampedSinSig al w) := by intro x hx; simp [dampedSinSig] at hx; rcases hx with rfl | rfl <;> trivial
  have key := lt_is_integral_nodelay (dampedSinSig al w) s hnd
    (by intro x hx; simp [dampedSinSig] at hx; rcases hx with rfl | rfl <;> rfl) (roc_damped al w s h).1
  have hcongr : ∫ t : ℝ in Ioi (0:ℝ), ((Real.exp (-al * t) * Real.sin (w * t) : ℝ) : ℂ) * Complex.exp (-(s * t))
      = ∫ t : ℝ in Ioi (0:ℝ), timeFn (dampedSinSig al w) t * Complex.exp (-(s * t)) :=
    setIntegral_congr_fun measurableSet_Ioi (fun t ht => by rw [timeFn_dampedSinSig al w t (le_of_lt ht)])
  rw [hcongr, key]
  have h1 : s - (-(al : ℂ) + w * Complex.I) ≠ 0 := by
    intro h0; have := congrArg Complex.re h0; simp at this; linarith
  have h2 : s - (-(al : ℂ) - w * Complex.I) ≠ 0 := by
    intro h0; have := congrArg Complex.re h0; simp at this; linarith
  have h3 : (s + al) ^ 2 + (w : ℂ) ^ 2 = (s - (-(al : ℂ) + w * Complex.I)) * (s - (-(al : ℂ) - w * Complex.I)) := by
    ring_nf; rw [Complex.I_sq]; ring
  simp only [dampedSinSig, L_cons, L_nil, Term.L, pw_eq, mul_zero, neg_zero, Complex.exp_zero, mul_one, zero_add, pow_one, add_zero, h3]
  have hab : (s - (-(al : ℂ) - w * Complex.I)) - (s - (-(al : ℂ) + w * Complex.I)) = 2 * Complex.I * w := by ring
  generalize s - (-(al : ℂ) + w * Complex.I) = a at *
  generalize s - (-(al : ℂ) - w * Complex.I) = b at *
  have hI : Complex.I ≠ 0 := Complex.I_ne_zero
  field_simp
  linear_combination hab

theorem anchor_damped_cos (al w : ℝ) (s : ℂ) (h : -al < s.re) :
    ∫ t : ℝ in Ioi (0:ℝ), ((Real.exp (-al * t) * Real.cos (w * t) : ℝ) : ℂ) * Complex.exp (-(s * t))
      = (s + al) / ((s + al) ^ 2 + w ^ 2) := by
  have hnd : NoDelta (dampedCosSig al w) := by intro x hx; simp [dampedCosSig] at hx; rcases hx with rfl | rfl <;> trivial
  have key := lt_is_integral_nodelay (dampedCosSig al w) s hnd
    (by intro x hx; simp [dampedCosSig] at hx; rcases hx with rfl | rfl <;> rfl) (roc_damped al w s h).2
  have hcongr : ∫ t : ℝ in Ioi (0:ℝ), ((Real.exp (-al * t) * Real.cos (w * t) : ℝ) : ℂ) * Complex.exp (-(s * t))
      = ∫ t : ℝ in Ioi (0:ℝ), timeFn (dampedCosSig al w) t * Complex.exp (-(s * t)) :=
    setIntegral_congr_fun measurableSet_Ioi (fun t ht => by rw [timeFn_dampedCosSig al w t (le_of_lt ht)])
  rw [hcongr, key]
  have h1 : s - (-(al : ℂ) + w * Complex.I) ≠ 0 := by
    intro h0; have := congrArg Complex.re h0; simp at this; linarith
  have h2 : s - (-(al : ℂ) - w * Complex.I) ≠ 0 := by
    intro h0; have := congrArg Complex.re h0; simp at this; linarith
  have h3 : (s + al) ^ 2 + (w : ℂ) ^ 2 = (s - (-(al : ℂ) + w * Complex.I)) * (s - (-(al : ℂ) - w * Complex.I)) := by
    ring_nf; rw [Complex.I_sq]; ring
  simp only [dampedCosSig, L_cons, L_nil, Term.L, pw_eq, mul_zero, neg_zero, Complex.exp_zero, mul_one, zero_add, pow_one, add_zero, h3]
  have hab : (s - (-(al : ℂ) - w * Complex.I)) + (s - (-(al : ℂ) + w * Complex.I)) = 2 * (s + al) := by ring
  generalize s - (-(al : ℂ) + w * Complex.I) = a at *
  generalize s - (-(al : ℂ) - w * Complex.I) = b at *
  field_simp
  linear_combination hab

end Lcapy.Laplace
