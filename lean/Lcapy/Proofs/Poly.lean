/-
  Lemmas about the coefficient-list polynomial model (`Lcapy/Model/Poly.lean`) over an arbitrary field.
  Used by Props/C11.lean and Props/C19.lean.
-/
import Lcapy.Model.Poly
import Mathlib.Algebra.Field.Basic
import Mathlib.Tactic.Ring
import Mathlib.Tactic.FieldSimp
import Mathlib.Tactic.LinearCombination
namespace Lcapy.Poly
variable {K : Type} [Field K]
set_option linter.unusedSimpArgs false
set_option linter.unusedVariables false

theorem npow_eq (a : K) (n : Nat) : npow a n = a ^ n := by
  induction n with
  | zero => simp [npow]
  | succ n ih => simp [npow, ih, pow_succ]; ring

@[simp] theorem eval_nil (x : K) : eval ([] : List K) x = 0 := rfl
@[simp] theorem eval_cons (a : K) (p : List K) (x : K) : eval (a :: p) x = a + x * eval p x := rfl

theorem eval_add (p q : List K) (x : K) : eval (add p q) x = eval p x + eval q x := by
  induction p generalizing q with
  | nil => simp [add]
  | cons a p ih =>
    cases q with
    | nil => simp [add]
    | cons b q => simp [add, ih]; ring

theorem eval_smul (c : K) (p : List K) (x : K) : eval (smul c p) x = c * eval p x := by
  induction p with
  | nil => simp [smul]
  | cons a p ih => simp only [smul, List.map_cons, eval_cons] at ih ⊢; rw [ih]; ring

theorem eval_neg (p : List K) (x : K) : eval (neg p) x = - eval p x := by
  induction p with
  | nil => simp [neg]
  | cons a p ih => simp only [neg, List.map_cons, eval_cons] at ih ⊢; rw [ih]; ring

theorem eval_sub (p q : List K) (x : K) : eval (sub p q) x = eval p x - eval q x := by
  simp [sub, eval_add, eval_neg]; ring

theorem eval_mul (p q : List K) (x : K) : eval (mul p q) x = eval p x * eval q x := by
  induction p with
  | nil => simp [mul]
  | cons a p ih => simp [mul, eval_add, eval_smul, ih]; ring

theorem eval_pow (p : List K) (n : Nat) (x : K) : eval (pow p n) x = eval p x ^ n := by
  induction n with
  | zero => simp [pow]
  | succ n ih => simp [pow, eval_mul, ih, pow_succ]; ring

theorem eval_append (p q : List K) (x : K) : eval (p ++ q) x = eval p x + x ^ p.length * eval q x := by
  induction p with
  | nil => simp
  | cons a p ih => simp [ih, pow_succ]; ring

theorem eval_replicate_zero (k : Nat) (x : K) : eval (List.replicate k (0 : K)) x = 0 := by
  induction k with
  | zero => simp
  | succ k ih => simp [List.replicate_succ, ih]

theorem eval_monomial (c : K) (k : Nat) (x : K) : eval (monomial c k) x = c * x ^ k := by
  simp [monomial, eval_append, eval_replicate_zero]; ring

theorem eval_linear (r x : K) : eval (linear r) x = x - r := by
  simp [linear]; ring

/-- the value of a root table `Π (x − r)^n` -/
def rootsValue (roots : List (K × Nat)) (x : K) : K := (roots.map (fun rn => (x - rn.1) ^ rn.2)).prod

theorem eval_mulLinear (r : K) (p : List K) (x : K) : eval (mulLinear r p) x = (x - r) * eval p x := by
  simp [mulLinear, eval_add, eval_smul]; ring

theorem eval_mulLinearPow (r : K) (n : Nat) (p : List K) (x : K) :
    eval (mulLinearPow r n p) x = (x - r) ^ n * eval p x := by
  induction n with
  | zero => simp [mulLinearPow]
  | succ n ih => simp [mulLinearPow, eval_mulLinear, ih, pow_succ]; ring

theorem eval_prodRoots (roots : List (K × Nat)) (x : K) : eval (prodRoots roots) x = rootsValue roots x := by
  induction roots with
  | nil => simp [prodRoots, rootsValue]
  | cons rn rest ih =>
    obtain ⟨r, n⟩ := rn
    show eval (mulLinearPow r n (prodRoots rest)) x = _
    rw [eval_mulLinearPow, ih]; simp [rootsValue]

section dec
variable [DecidableEq K]

theorem eval_trim (p : List K) (x : K) : eval (trim p) x = eval p x := by
  induction p with
  | nil => simp [trim]
  | cons a p ih =>
    simp only [trim]
    cases h : trim p with
    | nil =>
      rw [h] at ih
      by_cases ha : a = 0
      · simp [ha, ← ih]
      · simp [ha, ← ih]
    | cons b q => rw [h] at ih; simp [← ih]

theorem eval_of_isZero {p : List K} (h : isZero p = true) (x : K) : eval p x = 0 := by
  have : trim p = [] := by simpa [isZero, List.isEmpty_iff] using h
  rw [← eval_trim, this]; rfl

theorem polyEq_eval {p q : List K} (h : polyEq p q = true) (x : K) : eval p x = eval q x := by
  have : trim p = trim q := by simpa [polyEq] using h
  rw [← eval_trim p, ← eval_trim q, this]

theorem trim_getLastD (p : List K) : trim p = [] ∨ (trim p).getLastD 0 ≠ 0 := by
  induction p with
  | nil => simp [trim]
  | cons a p ih =>
    simp only [trim]
    cases hq : trim p with
    | nil =>
      by_cases ha : a = 0
      · simp [ha]
      · simp [ha]
    | cons b q =>
      rw [hq] at ih
      right
      rcases ih with h | h
      · simp at h
      · simpa [List.getLastD] using h

theorem lc_eq_zero_iff (p : List K) : lc p = 0 ↔ trim p = [] := by
  constructor
  · intro h
    rcases trim_getLastD p with h1 | h1
    · exact h1
    · exact absurd h h1
  · intro h; simp [lc, h]

theorem eval_of_lc_zero {p : List K} (h : lc p = 0) (x : K) : eval p x = 0 := by
  rw [← eval_trim, (lc_eq_zero_iff p).1 h]; rfl

theorem lc_ne_zero_of_eval {p : List K} {x : K} (h : eval p x ≠ 0) : lc p ≠ 0 :=
  fun h0 => h (eval_of_lc_zero h0 x)

theorem eval_monic (p : List K) (x : K) : eval (monic p) x = eval p x / lc p := by
  unfold monic
  by_cases h : lc p = 0
  · simp [h, eval_trim, eval_of_lc_zero h]
  · simp [h, eval_smul, eval_trim]; field_simp

/-- the last coefficient of a non-empty list splits off as the top monomial -/
theorem eval_dropLast (p : List K) (x : K) :
    eval p x = eval p.dropLast x + x ^ (p.length - 1) * p.getLastD 0 := by
  induction p with
  | nil => simp
  | cons a p ih =>
    cases p with
    | nil => simp
    | cons b q =>
      have e1 : (a :: b :: q).dropLast = a :: (b :: q).dropLast := rfl
      have e2 : (a :: b :: q).getLastD 0 = (b :: q).getLastD 0 := by simp [List.getLastD]
      rw [e1, e2, eval_cons, ih, eval_cons]
      simp [pow_succ]; ring

theorem length_add_le (p q : List K) : (add p q).length ≤ max p.length q.length := by
  induction p generalizing q with
  | nil => simp [add]
  | cons a p ih =>
    cases q with
    | nil => simp [add]
    | cons b q => simp only [add, List.length_cons]; have := ih q; omega

theorem length_sub_le (p q : List K) : (sub p q).length ≤ max p.length q.length := by
  have := length_add_le p (neg q)
  simpa [sub, neg] using this

theorem length_smul (c : K) (p : List K) : (smul c p).length = p.length := by simp [smul]

/-- **Long division**: for a divisor whose last entry is non-zero, `A = Q·B + R` at every point and
    `R` has fewer coefficients than `B` (degree R < degree B). -/
theorem divmodT_spec (A B : List K) (hB : B.getLastD 0 ≠ 0) :
    (∀ x, eval A x = eval (divmodT A B).1 x * eval B x + eval (divmodT A B).2 x) ∧
    (divmodT A B).2.length < B.length := by
  have hBne : B ≠ [] := by rintro rfl; simp at hB
  have hBlen : 0 < B.length := List.length_pos_iff.mpr hBne
  induction A with
  | nil => exact ⟨fun x => by simp [divmodT], by simpa [divmodT] using hBlen⟩
  | cons a A ih =>
    obtain ⟨ihv, ihl⟩ := ih
    simp only [divmodT]
    split
    · rename_i hlt
      refine ⟨fun x => ?_, hlt⟩
      simp only [eval_cons]
      rw [ihv x]; ring
    · rename_i hge
      have hlen : (a :: (divmodT A B).2).length = B.length := by
        simp only [List.length_cons] at hge ⊢; omega
      constructor
      · intro x
        simp only [eval_cons, eval_sub, eval_smul]
        have hS := eval_dropLast (a :: (divmodT A B).2) x
        have hBx := eval_dropLast B x
        rw [hlen] at hS
        simp only [eval_cons] at hS
        rw [ihv x]
        generalize (a :: (divmodT A B).2).getLastD 0 = sl at hS ⊢
        generalize (a :: (divmodT A B).2).dropLast = S0 at hS ⊢
        generalize B.getLastD 0 = bl at hS hBx hB ⊢
        have hc : sl / bl * bl = sl := by field_simp
        linear_combination hS - (sl / bl) * hBx - x ^ (B.length - 1) * hc
      · have h1 := length_sub_le (a :: (divmodT A B).2).dropLast
            (smul ((a :: (divmodT A B).2).getLastD 0 / B.getLastD 0) B.dropLast)
        rw [length_smul] at h1
        simp only [List.length_dropLast] at h1
        rw [hlen] at h1
        show (sub (a :: (divmodT A B).2).dropLast
            (smul ((a :: (divmodT A B).2).getLastD 0 / B.getLastD 0) B.dropLast)).length < B.length
        omega

theorem trim_getLastD_ne_zero {B : List K} (h : lc B ≠ 0) : (trim B).getLastD 0 ≠ 0 := h

/-- `sympy.div`: `A = Q·B + R`, `deg R < deg B`, for every non-zero divisor. -/
theorem divmod_spec' (A B : List K) (hB : lc B ≠ 0) :
    (∀ x, eval A x = eval (divmod A B).1 x * eval B x + eval (divmod A B).2 x) ∧
    (divmod A B).2.length < (trim B).length := by
  have := divmodT_spec A (trim B) hB
  refine ⟨fun x => ?_, this.2⟩
  rw [this.1 x, eval_trim]; rfl

/-- `cancel` never changes the value (wherever the original denominator is non-zero). -/
theorem cancel_value (B A : List K) (x : K) (hA : eval A x ≠ 0) :
    eval (cancel B A).1 x / eval (cancel B A).2 x = eval B x / eval A x ∧ eval (cancel B A).2 x ≠ 0 := by
  unfold cancel
  simp only
  split
  · exact ⟨rfl, hA⟩
  · rename_i hg
    split
    · rename_i hz
      simp only [Bool.and_eq_true] at hz
      have hg' : lc (gcd B A) ≠ 0 := by
        intro h0
        apply hg
        simp [isZero, (lc_eq_zero_iff _).1 h0]
      have hb := (divmod_spec' B (gcd B A) hg').1 x
      have ha := (divmod_spec' A (gcd B A) hg').1 x
      rw [eval_of_isZero hz.1] at hb
      rw [eval_of_isZero hz.2] at ha
      simp only [eval_trim]
      rw [ha] at hA
      have h1 : eval (divmod A (gcd B A)).1 x ≠ 0 := fun h => hA (by rw [h]; ring)
      have h2 : eval (gcd B A) x ≠ 0 := fun h => hA (by rw [h]; ring)
      refine ⟨?_, h1⟩
      rw [hb, ha]; field_simp; ring
    · exact ⟨rfl, hA⟩

/-- **rootsCheck is sound**: a root table that passes the check factorises `A` completely. -/
theorem rootsCheck_eval {A : List K} {roots : List (K × Nat)} (h : rootsCheck A roots = true) (x : K) :
    eval A x = lc A * rootsValue roots x := by
  rw [polyEq_eval h x, eval_smul, eval_prodRoots]

end dec
end Lcapy.Poly

/-! ### roots are roots; multiplicities add up to the degree -/
namespace Lcapy.Poly
variable {K : Type} [Field K] [DecidableEq K]
set_option linter.unusedSectionVars false
set_option linter.unusedSimpArgs false

theorem rootsValue_eq_zero {roots : List (K × Nat)} {r : K} {n : Nat} (hr : (r, n) ∈ roots) (hn : n ≠ 0) :
    rootsValue roots r = 0 := by
  induction roots with
  | nil => simp at hr
  | cons a rest ih =>
    simp only [rootsValue, List.map_cons, List.prod_cons]
    rcases List.mem_cons.1 hr with h | h
    · subst h; simp [hn]
    · have := ih h
      simp only [rootsValue] at this
      rw [this]; ring

theorem rootsCheck_root {A : List K} {roots : List (K × Nat)} (h : rootsCheck A roots = true)
    {r : K} {n : Nat} (hr : (r, n) ∈ roots) (hn : n ≠ 0) : eval A r = 0 := by
  rw [rootsCheck_eval h r, rootsValue_eq_zero hr hn]; ring

theorem getLastD_irrel (p : List K) (hp : p ≠ []) (x y : K) : p.getLastD x = p.getLastD y := by
  cases p with
  | nil => exact absurd rfl hp
  | cons a p => simp [List.getLastD]

theorem getLastD_add_of_lt (p q : List K) (d : K) (h : q.length < p.length) :
    (add p q).getLastD d = p.getLastD d := by
  induction p generalizing q d with
  | nil => simp at h
  | cons a p ih =>
    cases q with
    | nil => simp [add]
    | cons b q =>
      simp only [List.length_cons, Nat.add_lt_add_iff_right] at h
      have hp : p ≠ [] := by rintro rfl; simp at h
      simp only [add, List.getLastD_cons]
      rw [ih q (a + b) h]
      exact getLastD_irrel p hp _ _

theorem length_add (p q : List K) : (add p q).length = max p.length q.length := by
  induction p generalizing q with
  | nil => simp [add]
  | cons a p ih =>
    cases q with
    | nil => simp [add]
    | cons b q => simp only [add, List.length_cons, ih q]; omega

theorem length_mulLinear (r : K) (p : List K) : (mulLinear r p).length = p.length + 1 := by
  simp [mulLinear, length_add, length_smul]

theorem getLastD_mulLinear (r : K) (p : List K) (hp : p ≠ []) (d : K) :
    (mulLinear r p).getLastD d = p.getLastD d := by
  unfold mulLinear
  rw [getLastD_add_of_lt _ _ _ (by simp [length_smul])]
  cases p with
  | nil => exact absurd rfl hp
  | cons a p => simp [List.getLastD]

theorem mulLinearPow_spec (r : K) (n : Nat) (p : List K) (hp : p ≠ []) (d : K) :
    (mulLinearPow r n p).length = p.length + n ∧ (mulLinearPow r n p).getLastD d = p.getLastD d ∧
      mulLinearPow r n p ≠ [] := by
  induction n with
  | zero => simp [mulLinearPow, hp]
  | succ n ih =>
    obtain ⟨h1, h2, h3⟩ := ih
    refine ⟨?_, ?_, ?_⟩
    · simp only [mulLinearPow, length_mulLinear, h1]; omega
    · simp only [mulLinearPow]; rw [getLastD_mulLinear _ _ h3, h2]
    · intro h0
      have := length_mulLinear r (mulLinearPow r n p)
      simp only [mulLinearPow] at h0
      rw [h0] at this; simp at this

theorem prodRoots_spec (roots : List (K × Nat)) :
    (prodRoots roots).length = (roots.map (fun rn => rn.2)).sum + 1 ∧ (prodRoots roots).getLastD 0 = 1 ∧
      prodRoots roots ≠ [] := by
  induction roots with
  | nil => simp [prodRoots]
  | cons rn rest ih =>
    obtain ⟨r, n⟩ := rn
    obtain ⟨h1, h2, h3⟩ := ih
    have := mulLinearPow_spec r n (prodRoots rest) h3 0
    refine ⟨?_, ?_, this.2.2⟩
    · simp only [prodRoots, this.1, h1, List.map_cons, List.sum_cons]; omega
    · simp only [prodRoots, this.2.1, h2]

theorem trim_of_getLastD_ne_zero (p : List K) (h : p.getLastD 0 ≠ 0) : trim p = p := by
  induction p with
  | nil => rfl
  | cons a p ih =>
    cases p with
    | nil =>
      have : a ≠ 0 := by simpa using h
      simp [trim, this]
    | cons b q =>
      have h' : (b :: q).getLastD 0 ≠ 0 := by simpa [List.getLastD] using h
      have := ih h'
      simp only [trim] at this ⊢
      rw [this]

theorem getLastD_smul (c : K) (p : List K) : (smul c p).getLastD 0 = c * p.getLastD 0 := by
  induction p with
  | nil => simp [smul]
  | cons a p ih =>
    cases p with
    | nil => simp [smul]
    | cons b q =>
      simp only [smul, List.map_cons] at ih ⊢
      simpa [List.getLastD] using ih

theorem rootsCheck_degree {A : List K} {roots : List (K × Nat)} (h : rootsCheck A roots = true)
    (hA : lc A ≠ 0) : (roots.map (fun rn => rn.2)).sum = degree A := by
  have ht : trim A = trim (smul (lc A) (prodRoots roots)) := by simpa [rootsCheck, polyEq] using h
  obtain ⟨h1, h2, h3⟩ := prodRoots_spec roots
  have hl : (smul (lc A) (prodRoots roots)).getLastD 0 ≠ 0 := by
    rw [getLastD_smul, h2]; simpa using hA
  rw [trim_of_getLastD_ne_zero _ hl] at ht
  simp only [degree, ht, length_smul, h1]; omega

theorem length_trim_le (p : List K) : (trim p).length ≤ p.length := by
  induction p with
  | nil => simp [trim]
  | cons a p ih =>
    simp only [trim]
    cases h : trim p with
    | nil => by_cases ha : a = 0 <;> simp [ha]
    | cons b q => rw [h] at ih; simp only [List.length_cons] at ih ⊢; omega

end Lcapy.Poly
