/-
  C17 -- helper lemmas for `Lcapy/Model/Response.lean` (`respIIConv`, `respBilinear`): everything is reduced to the C13
  lemma library (`Proofs/DT.lean`, `Proofs/DT2.lean`): a value list is the power series `toPS`, `Sequence.convolve`
  multiplies the power series (`toPS_convolve`), `lfilter` is the Cauchy product with the impulse response
  (`lfilter_convolution`), a block of `m` leading zeros is the factor `X^m` (`toPS_pshift`).
-/
import Lcapy.Model.Response
import Lcapy.Proofs.DT2
namespace Lcapy.Resp
open Lcapy Lcapy.DT Lcapy.SimBase Lcapy.Gen.Sim PowerSeries
variable {K : Type} [Field K]

/-! ### lists -/

theorem list_ext_getD (l1 l2 : List K) (hl : l1.length = l2.length)
    (h : ∀ n, n < l1.length → l1.getD n 0 = l2.getD n 0) : l1 = l2 := by
  apply List.ext_getElem hl
  intro i h1 h2
  have := h i h1
  rwa [List.getD_eq_getElem _ _ h1, List.getD_eq_getElem _ _ h2] at this

theorem lsum_eq_sum (l : List K) : lsum l = l.sum := by
  induction l with
  | nil => rfl
  | cons a l ih => simp [lsum, ih]

theorem lsum_map_range (f : ℕ → K) (N : ℕ) : lsum ((List.range N).map f) = ∑ k ∈ Finset.range N, f k := by
  rw [lsum_eq_sum]
  induction N with
  | zero => simp
  | succ N ih => rw [List.range_succ, List.map_append, List.sum_append, ih, Finset.sum_range_succ]; simp

theorem getD_replicate_append (m : ℕ) (x : List K) (n : ℕ) :
    (List.replicate m (0 : K) ++ x).getD n 0 = if n < m then 0 else x.getD (n - m) 0 := by
  simp only [List.getD_eq_getElem?_getD, List.getElem?_append, List.length_replicate, List.getElem?_replicate]
  split_ifs <;> simp

/-! ### the two `natK` -/

theorem natK_cast (k : ℕ) : (SimBase.natK k : K) = (k : K) := by
  induction k with
  | zero => simp [SimBase.natK]
  | succ k ih => simp [SimBase.natK, ih]

/-! ### the sampled kernel -/

theorem lagTimes_length (N : ℕ) (dt : K) : (lagTimes N dt).length = N := by simp [lagTimes]

theorem lagKernel_getD (kernel : K → K) (N : ℕ) (dt : K) (k : ℕ) (hk : k < N) :
    ((lagTimes N dt).map kernel).getD k 0 = kernel (SimBase.natK k * dt) := by
  rw [List.getD_eq_getElem _ _ (by simpa [lagTimes] using hk)]
  simp [lagTimes]

theorem lagKernel_ne_nil (kernel : K → K) (N : ℕ) (dt : K) (hN : 0 < N) : (lagTimes N dt).map kernel ≠ [] := by
  intro e
  have := congrArg List.length e
  simp [lagTimes] at this
  omega

/-! ### Cauchy products of value lists -/

theorem coeff_toPS_mul_toPS (h x : List K) (n : ℕ) :
    coeff n (toPS h * toPS x) = ∑ k ∈ Finset.range (n + 1), h.getD k 0 * x.getD (n - k) 0 := by
  rw [coeff_mul, Finset.Nat.sum_antidiagonal_eq_sum_range_succ_mk]
  simp [coeff_toPS]

/-- only the first `n + 1` entries of `h` enter the n-th entry of the product -/
theorem coeff_toPS_mul_congr (h h' : List K) (S : K⟦X⟧) (n : ℕ) (e : ∀ k, k ≤ n → h'.getD k 0 = h.getD k 0) :
    coeff n (toPS h' * S) = coeff n (toPS h * S) := by
  rw [coeff_mul, coeff_mul]
  apply Finset.sum_congr rfl
  intro p hp
  have : p.1 ≤ n := by have := Finset.mem_antidiagonal.mp hp; omega
  rw [coeff_toPS, coeff_toPS, e _ this]

theorem toPS_replicate_append (m : ℕ) (x : List K) : toPS (List.replicate m 0 ++ x) = X ^ m * toPS x :=
  toPS_pshift m x

theorem conv_sum_eq_coeff (hC : ℕ → K) (x : List K) (n : ℕ) :
    ∑ p ∈ Finset.antidiagonal n, hC p.1 * litZ x p.2 = coeff n (PowerSeries.mk hC * toPS x) := by
  rw [← mk_litZ, coeff_mul]
  simp

/-! ### `respIIConv` entry-wise -/

theorem respIIConv_length (kernel : K → K) (x tv : List K) (dt : K) (hx : x ≠ []) :
    (respIIConv kernel x tv dt).length = tv.length := by
  by_cases hN : 0 < tv.length
  · have hh := lagKernel_ne_nil kernel tv.length dt hN
    have hxl : 0 < x.length := List.length_pos_of_ne_nil hx
    simp only [respIIConv, iiKernelTimes, List.length_map, List.length_take, convolvePy_length x _ hx hh,
      lagTimes_length]
    omega
  · simp [respIIConv]; omega

theorem respIIConv_getD (kernel : K → K) (x tv : List K) (dt : K) (n : ℕ) (hx : x ≠ []) (hn : n < tv.length) :
    (respIIConv kernel x tv dt).getD n 0
      = coeff n (toPS ((lagTimes tv.length dt).map kernel) * toPS x) * dt := by
  have hh := lagKernel_ne_nil kernel tv.length dt (by omega)
  have hl := respIIConv_length kernel x tv dt hx
  rw [List.getD_eq_getElem _ _ (by omega)]
  have hc : n < (convolvePy x ((lagTimes tv.length dt).map kernel)).length := by
    rw [convolvePy_length x _ hx hh, List.length_map, lagTimes_length]
    have := List.length_pos_of_ne_nil hx
    omega
  simp only [respIIConv, iiKernelTimes, iiScale, List.getElem_map, List.getElem_take]
  rw [← toPS_convolve x _ hx hh, coeff_toPS, List.getD_eq_getElem _ _ hc]

/-! ### `lfilter` and leading zeros -/

theorem lfilter_shift (b a x : List K) (m : ℕ) (ha : a.headD 0 ≠ 0) :
    lfilterPy b a (List.replicate m 0 ++ x) = List.replicate m 0 ++ lfilterPy b a x := by
  apply list_ext_getD
  · simp [lfilterPy_length]
  · intro n hn
    have hn' : n < (List.replicate m (0 : K) ++ x).length := by simpa [lfilterPy_length] using hn
    rw [lfilter_convolution b a _ ha n hn', conv_sum_eq_coeff, toPS_replicate_append, getD_replicate_append,
      mul_left_comm, coeff_X_pow_mul']
    by_cases h : n < m
    · have : ¬ m ≤ n := by omega
      simp [h, this]
    · have h1 : m ≤ n := by omega
      have h2 : n - m < x.length := by simp at hn'; omega
      rw [if_pos h1, if_neg h, lfilter_convolution b a x ha _ h2, conv_sum_eq_coeff]

end Lcapy.Resp
