/-
  Helper lemmas for C14: the phasor map `toPh` is linear, turns the time derivative into multiplication by jω,
  and carries every time-domain residual of Spec/LawsTD.lean (sinusoids of angular frequency ω) to the corresponding
  Laplace-domain residual of Spec/Laws.lean at s = jω over `Cx K`.
-/
import Lcapy.Model.Phasor
import Lcapy.Proofs.Cx
import Lcapy.Proofs.MNA
namespace Lcapy.TDS
open Lcapy.MNA Lcapy.Cx Ix
variable {K : Type} [Field K]
set_option linter.unusedSimpArgs false
set_option linter.unusedTactic false
set_option linter.unreachableTactic false
set_option linter.unnecessarySeqFocus false

@[ext] theorem Sinus.ext' {u v : Sinus K} (h1 : u.a = v.a) (h2 : u.b = v.b) : u = v := by
  cases u; cases v; simp_all

@[simp] theorem toPh_zero (w : K) : toPh (sinusOps w).zero = 0 := by ext <;> simp [toPh, sinusOps]
@[simp] theorem toPh_add (w : K) (u v : Sinus K) : toPh ((sinusOps w).add u v) = toPh u + toPh v := by
  ext <;> simp [toPh, sinusOps]; ring
@[simp] theorem toPh_sub (w : K) (u v : Sinus K) : toPh ((sinusOps w).sub u v) = toPh u - toPh v := by
  ext <;> simp [toPh, sinusOps]; ring
@[simp] theorem toPh_neg (w : K) (u : Sinus K) : toPh ((sinusOps w).neg u) = -toPh u := by
  ext <;> simp [toPh, sinusOps]
@[simp] theorem toPh_smul (w r : K) (u : Sinus K) : toPh ((sinusOps w).smul r u) = ofReal r * toPh u := by
  ext <;> simp [toPh, sinusOps]

/-- **the derivative of a sinusoid is multiplication of its phasor by jω** -/
@[simp] theorem toPh_D (w : K) (u : Sinus K) : toPh ((sinusOps w).D u) = jw w * toPh u := by
  ext <;> simp [toPh, sinusOps]

theorem toPh_injective (u v : Sinus K) (h : toPh u = toPh v) : u = v := by
  have h1 := congrArg Cx.re h
  have h2 := congrArg Cx.im h
  simp only [toPh, neg_inj] at h1 h2
  exact Sinus.ext' h1 h2

theorem toPh_eq_zero (w : K) (u : Sinus K) : toPh u = 0 ↔ u = (sinusOps w).zero := by
  rw [← toPh_zero w]
  exact ⟨toPh_injective _ _, fun h => by rw [h]⟩

@[simp] theorem toPh_toTime (p : Cx K) : toPh (toTime p) = p := by ext <;> simp [toPh, toTime]
@[simp] theorem toTime_toPh (u : Sinus K) : toTime (toPh u) = u := by ext <;> simp [toPh, toTime]

@[simp] theorem toPh_voltS (w : K) (x : Ix → Sinus K) (n : Nat) :
    toPh (voltS (sinusOps w) x n) = volt (fun i => toPh (x i)) n := by
  cases n <;> simp [voltS, volt]

@[simp] theorem toPh_vdS (w : K) (x : Ix → Sinus K) (a b : Nat) :
    toPh (vdS (sinusOps w) x a b) = vd (fun i => toPh (x i)) a b := by
  simp [vdS, vd]

@[simp] theorem toPh_twoTermS (w : K) (n1 n2 k : Nat) (i : Sinus K) :
    toPh (twoTermS (sinusOps w) n1 n2 k i) = twoTerm n1 n2 k (toPh i) := by
  simp only [twoTermS, twoTerm, toPh_sub]
  split_ifs <;> simp

theorem toPh_sumS (w : K) (l : List (Sinus K)) : toPh (sumS (sinusOps w) l) = lsum (l.map toPh) := by
  induction l with
  | nil => simp [sumS, lsum]
  | cons h t ih => simp [sumS, lsum, ih]

theorem toPh_mutualDropS (w : K) (x : Ix → Sinus K) (coup : List (Nat × K × Option K)) :
    toPh (mutualDropS (sinusOps w) x coup) =
      mutualDrop (jw w) (fun i => toPh (x i)) (coup.map (fun p => (p.1, ofReal p.2.1, p.2.2.map ofReal))) := by
  induction coup with
  | nil => simp [mutualDropS, mutualDrop, sumS, lsum]
  | cons p t ih =>
    simp only [mutualDropS, mutualDrop, List.map_cons, sumS, lsum, toPh_add, toPh_smul, toPh_D] at ih ⊢
    rw [ih]; ring

/-- the current a component draws from a node: time domain ↦ phasor domain -/
theorem toPh_outflowS (w : K) (x : Ix → Sinus K) (k : Nat) (c : SCpt K (Sinus K)) :
    toPh (outflowS (sinusOps w) x k c) = outflow .lap (jw w) (fun i => toPh (x i)) k (phasorCpt c) := by
  obtain ⟨c, wv⟩ := c
  cases c <;>
    simp [outflowS, outflow, phasorCpt, embed, capCurrent, div_ofReal] <;> (try ring)

/-- the defining relations: time domain ↦ phasor domain (same branches, residuals mapped by `toPh`) -/
theorem toPh_lawsS (w : K) (x : Ix → Sinus K) (c : SCpt K (Sinus K)) :
    (lawsS (sinusOps w) x c).map (fun p => (p.1, toPh p.2)) =
      laws .lap (jw w) (fun i => toPh (x i)) (phasorCpt c) := by
  obtain ⟨c, wv⟩ := c
  cases c <;>
    simp [lawsS, laws, phasorCpt, embed, toPh_mutualDropS, div_two, div_ofReal] <;> (try ring) <;>
    (try (constructor <;> ring))

end Lcapy.TDS
