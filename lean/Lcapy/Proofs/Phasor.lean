/-
  Helper lemmas for C14: the phasor map `toPh` is linear, turns the time derivative into multiplication by jω,
  and carries every time-domain residual of Spec/LawsTD.lean (sinusoids of angular frequency ω) to the corresponding
  Laplace-domain residual of Spec/Laws.lean at s = jω over `Cx K`.
-/
import Lcapy.Model.Phasor
import Lcapy.Proofs.Cx
import Lcapy.Proofs.MNA
namespace Lcapy.TDS
open Lcapy.MNA Lcapy.Cx Ix
variable {K : Type} [Field K]
set_option linter.unusedSimpArgs false
set_option linter.unusedTactic false
set_option linter.unreachableTactic false
set_option linter.unnecessarySeqFocus false

@[ext] theorem Sinus.ext' {u v : Sinus K} (h1 : u.a = v.a) (h2 : u.b = v.b) : u = v := by
  cases u; cases v; simp_all

@[simp] theorem toPh_zero (w : K) : toPh (sinusOps w).zero = 0 := by ext <;> simp [toPh, sinusOps]
@[simp] theorem toPh_add (w : K) (u v : Sinus K) : toPh ((sinusOps w).add u v) = toPh u + toPh v := by
  ext <;> simp [toPh, sinusOps]; ring
@[simp] theorem toPh_sub (w : K) (u v : Sinus K) : toPh ((sinusOps w).sub u v) = toPh u - toPh v := by
  ext <;> simp [toPh, sinusOps]; ring
@[simp] theorem toPh_neg (w : K) (u : Sinus K) : toPh ((sinusOps w).neg u) = -toPh u := by
  ext <;> simp [toPh, sinusOps]
@[simp] theorem toPh_smul (w r : K) (u : Sinus K) : toPh ((sinusOps w).smul r u) = ofReal r * toPh u := by
  ext <;> simp [toPh, sinusOps]

/-- **the derivative of a sinusoid is multiplication of its phasor by jω** -/
@[simp] theorem toPh_D (w : K) (u : Sinus K) : toPh ((sinusOps w).D u) = jw w * toPh u := by
  ext <;> simp [toPh, sinusOps]

theorem toPh_injective (u v : Sinus K) (h : toPh u = toPh v) : u = v := by
  have h1 := congrArg Cx.re h
  have h2 := congrArg Cx.im h
  simp only [toPh, neg_inj] at h1 h2
  exact Sinus.ext' h1 h2

theorem toPh_eq_zero (w : K) (u : Sinus K) : toPh u = 0 ↔ u = (sinusOps w).zero := by
  rw [← toPh_zero w]
  exact ⟨toPh_injective _ _, fun h => by rw [h]⟩

@[simp] theorem toPh_toTime (p : Cx K) : toPh (toTime p) = p := by ext <;> simp [toPh, toTime]
@[simp] theorem toTime_toPh (u : Sinus K) : toTime (toPh u) = u := by ext <;> simp [toPh, toTime]

@[simp] theorem toPh_voltS (w : K) (x : Ix → Sinus K) (n : Nat) :
    toPh (voltS (sinusOps w) x n) = volt (fun i => toPh (x i)) n := by
  cases n <;> simp [voltS, volt]

@[simp] theorem toPh_vdS (w : K) (x : Ix → Sinus K) (a b : Nat) :
    toPh (vdS (sinusOps w) x a b) = vd (fun i => toPh (x i)) a b := by
  simp [vdS, vd]

@[simp] theorem toPh_twoTermS (w : K) (n1 n2 k : Nat) (i : Sinus K) :
    toPh (twoTermS (sinusOps w) n1 n2 k i) = twoTerm n1 n2 k (toPh i) := by
  simp only [twoTermS, twoTerm, toPh_sub]
  split_ifs <;> simp

theorem toPh_sumS (w : K) (l : List (Sinus K)) : toPh (sumS (sinusOps w) l) = lsum (l.map toPh) := by
  induction l with
  | nil => simp [sumS, lsum]
  | cons h t ih => simp [sumS, lsum, ih]

theorem toPh_mutualDropS (w : K) (x : Ix → Sinus K) (coup : List (Nat × K × Option K)) :
    toPh (mutualDropS (sinusOps w) x coup) =
      mutualDrop (jw w) (fun i => toPh (x i)) (coup.map (fun p => (p.1, ofReal p.2.1, p.2.2.map ofReal))) := by
  induction coup with
  | nil => simp [mutualDropS, mutualDrop, sumS, lsum]
  | cons p t ih =>
    simp only [mutualDropS, mutualDrop, List.map_cons, sumS, lsum, toPh_add, toPh_smul, toPh_D] at ih ⊢
    rw [ih]; ring

/-- the current a component draws from a node: time domain ↦ phasor domain -/
theorem toPh_outflowS (w : K) (x : Ix → Sinus K) (k : Nat) (c : SCpt K (Sinus K)) :
    toPh (outflowS (sinusOps w) x k c) = outflow .lap (jw w) (fun i => toPh (x i)) k (phasorCpt c) := by
  obtain ⟨c, wv⟩ := c
  cases c <;>
    simp [outflowS, outflow, phasorCpt, embed, capCurrent, div_ofReal] <;> (try ring)

/-- the defining relations: time domain ↦ phasor domain (same branches, residuals mapped by `toPh`) -/
theorem toPh_lawsS (w : K) (x : Ix → Sinus K) (c : SCpt K (Sinus K)) :
    (lawsS (sinusOps w) x c).map (fun p => (p.1, toPh p.2)) =
      laws .lap (jw w) (fun i => toPh (x i)) (phasorCpt c) := by
  obtain ⟨c, wv⟩ := c
  cases c <;>
    simp [lawsS, laws, phasorCpt, embed, toPh_mutualDropS, div_two, div_ofReal] <;> (try ring) <;>
    (try (constructor <;> ring))

@[simp] theorem fam_zero (w : K) : (famOps (K := K)).zero w = (sinusOps w).zero := rfl
@[simp] theorem fam_add (u v : K → Sinus K) (w : K) : famOps.add u v w = (sinusOps w).add (u w) (v w) := rfl
@[simp] theorem fam_sub (u v : K → Sinus K) (w : K) : famOps.sub u v w = (sinusOps w).sub (u w) (v w) := rfl
@[simp] theorem fam_neg (u : K → Sinus K) (w : K) : famOps.neg u w = (sinusOps w).neg (u w) := rfl
@[simp] theorem fam_smul (r : K) (u : K → Sinus K) (w : K) : famOps.smul r u w = (sinusOps w).smul r (u w) := rfl
@[simp] theorem fam_D (u : K → Sinus K) (w : K) : famOps.D u w = (sinusOps w).D (u w) := rfl

@[simp] theorem fam_voltS (x : Ix → K → Sinus K) (n : Nat) (w : K) :
    voltS famOps x n w = voltS (sinusOps w) (fun i => x i w) n := by
  cases n <;> rfl

@[simp] theorem fam_vdS (x : Ix → K → Sinus K) (a b : Nat) (w : K) :
    vdS famOps x a b w = vdS (sinusOps w) (fun i => x i w) a b := by
  simp only [vdS, fam_sub, fam_voltS]

@[simp] theorem fam_twoTermS (n1 n2 k : Nat) (i : K → Sinus K) (w : K) :
    twoTermS famOps n1 n2 k i w = twoTermS (sinusOps w) n1 n2 k (i w) := by
  simp only [twoTermS, fam_sub]
  split_ifs <;> rfl

theorem fam_sumS (l : List (K → Sinus K)) (w : K) : sumS famOps l w = sumS (sinusOps w) (l.map (fun f => f w)) := by
  induction l with
  | nil => rfl
  | cons h t ih => simp only [sumS, List.map_cons, fam_add, ih]

@[simp] theorem fam_mutualDropS (x : Ix → K → Sinus K) (coup : List (Nat × K × Option K)) (w : K) :
    mutualDropS famOps x coup w = mutualDropS (sinusOps w) (fun i => x i w) coup := by
  simp only [mutualDropS, fam_sumS, List.map_map]
  rfl

theorem fam_outflowS (x : Ix → K → Sinus K) (k : Nat) (c : SCpt K (K → Sinus K)) (w : K) :
    outflowS famOps x k c w = outflowS (sinusOps w) (fun i => x i w) k (atFreq w c) := by
  obtain ⟨c, f⟩ := c
  cases c <;> simp only [outflowS, atFreq, fam_twoTermS, fam_add, fam_sub, fam_neg, fam_smul, fam_D, fam_vdS, fam_zero]

theorem fam_lawsS (x : Ix → K → Sinus K) (c : SCpt K (K → Sinus K)) (w : K) :
    (lawsS famOps x c).map (fun p => (p.1, p.2 w)) = lawsS (sinusOps w) (fun i => x i w) (atFreq w c) := by
  obtain ⟨c, f⟩ := c
  cases c <;> simp only [lawsS, atFreq, List.map_cons, List.map_nil, fam_add, fam_sub, fam_neg, fam_smul, fam_D,
    fam_vdS, fam_voltS, fam_mutualDropS]

theorem mutualDrop_zero (x : Ix → K) (coup : List (Nat × K × Option K)) : mutualDrop 0 x coup = 0 := by
  induction coup with
  | nil => simp [mutualDrop, lsum]
  | cons p t ih => simp only [mutualDrop, List.map_cons, lsum] at ih ⊢; rw [ih]; ring

@[simp] theorem const_zero : (constOps (K := K)).zero = 0 := rfl
@[simp] theorem const_add (u v : K) : constOps.add u v = u + v := rfl
@[simp] theorem const_sub (u v : K) : constOps.sub u v = u - v := rfl
@[simp] theorem const_neg (u : K) : constOps.neg u = -u := rfl
@[simp] theorem const_smul (r u : K) : constOps.smul r u = r * u := rfl
@[simp] theorem const_D (u : K) : constOps.D u = 0 := rfl

@[simp] theorem const_voltS (x : Ix → K) (n : Nat) : voltS constOps x n = volt x n := by cases n <;> rfl
@[simp] theorem const_vdS (x : Ix → K) (a b : Nat) : vdS constOps x a b = vd x a b := by simp [vdS, vd]
@[simp] theorem const_twoTermS (n1 n2 k : Nat) (i : K) : twoTermS constOps n1 n2 k i = twoTerm n1 n2 k i := by
  simp [twoTermS, twoTerm]

theorem const_sumS (l : List K) : sumS constOps l = lsum l := by
  induction l with
  | nil => rfl
  | cons h t ih => simp only [sumS, lsum, const_add, ih]

end Lcapy.TDS
