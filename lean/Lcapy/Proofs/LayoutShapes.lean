/-
  MODEL LEMMAS about the hand model of the schematic resolver (`Lcapy/Model/Layout.lean`): unfoldings that document what
  the model does.  They are not property theorems; the model is tied to /repo by the translator (tables, `pins` rules,
  source fingerprints) and by the per-element correspondence (see Props/C20Shapes.lean).
-/
import Lcapy.Proofs.LayoutBase
namespace Lcapy.Layout

/-- the P-type devices are the ones listed in `Transistor.pins` (read from the source): they are drawn with `mirror`
    reversed -- so a P-type transistor WITH `mirror` gets the table an N-type one gets without -/
theorem ptype_mirror_reversed (row : ClassRow) (e : Elt) (hr : row.pinsRule = "transistor")
    (hp : Gen.transistorPClasses.contains e.cls = true) (hk : e.kind = none) (hm : e.mirror = true)
    (hi : e.invert = false) :
    pinsOf row e 1 1 = variant row "normal_pins" := by
  have hp' : e.cls ∈ Gen.transistorPClasses := by simpa using hp
  unfold pinsOf
  simp [hr, hp', hk, hm, hi]
example : Gen.transistorPClasses.contains "Qpnp" = true := by decide +kernel

/-- `mirror` (or `flipud`) on a `do_transpose` class is a reflection of the pin coordinates in the x axis BEFORE the
    rotation, `invert` (or `fliplr`) in the y axis: resolving with the flag set equals resolving the reflected pin -/
theorem transpose_is_reflection (rot : Rat → Rat × Rat → Option (Rat × Rat)) (p : PreResolved) (pin : PinRow) :
    pinCoord rot { p with flipX := true, flipY := true } pin =
      pinCoord rot { p with flipX := false, flipY := false } { pin with x := -pin.x, y := -pin.y } := by
  unfold pinCoord pinScale
  simp

/-- `size=` takes precedence over `<direction>=value` -/
theorem size_option_wins (e : Elt) (row : ClassRow) (v : String) (x : Rat) (hs : e.opts.has "size" = true)
    (hv : e.opts.get? "size" = some v) (hne : v ≠ "") (hx : parseDec v = some x) :
    e.size row = some (x * row.shapeScale) := by
  unfold Elt.size
  simp only [hs, if_true, hv]
  simp [hx]

/-- without any size the class' `default_width` (times `shape_scale`) is used -/
theorem size_default (e : Elt) (row : ClassRow) (hs : e.opts.has "size" = false) (hr : e.right = false)
    (hd : e.down = false) (hl : e.left = false) (hu : e.up = false) :
    e.size row = some (row.defaultWidth * row.shapeScale) := by
  unfold Elt.size
  simp [hs, hr, hd, hl, hu]

/-- `scale=` only moves the pins that are not marked scalable (`pinpos` ending in `x`) of a `can_scale` class -/
theorem scale_only_rigid_pins (p : PreResolved) (pin : PinRow) (h : p.row.canScale = false ∨ pin.scalable = true) :
    pinScale p pin = .ok 1 := by
  unfold pinScale
  rcases h with h | h
  · simp [h]
  · by_cases hc : p.row.canScale = true <;> simp [hc, h]

/-- `Schematic.draw(**kwargs)`: a keyword argument removes the option of the same name from every component, so the
    layout of `draw(scale=…)` is the layout of the netlist with every `scale=` deleted (and no keyword arguments) -/
theorem draw_kwargs_override (rot : Rat → Rat × Rat → Option (Rat × Rat)) (n : Netlist) :
    resolveAll rot n =
      (match expandAll n.elts with
       | .error m => .error m
       | .ok elts0 =>
         match splitImplicit (elts0.map fun e =>
             { e with opts := e.opts.filter (fun kv => !(n.drawKeys.contains kv.1) || kv.1 == "style") }) with
         | .error m => .error m
         | .ok (elts, newNodes) =>
           match mapE (resolveWith rot n.spacing (schNodes elts0 ++ newNodes)) elts with
           | .error m => .error m
           | .ok rs => .ok (schNodes elts0 ++ newNodes, rs)) := rfl

/-- a component without an implicit / connection key is left alone -/
theorem split_noop (st : SplitSt) (e : Elt) (h : implicitKey e = .ok none) : (splitOne st e).map (·.2) = .ok e := by
  unfold splitOne
  simp [h, Except.map]


end Lcapy.Layout
