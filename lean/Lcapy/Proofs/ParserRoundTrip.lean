/-
  Helper lemmas for the line-level round trip of C06 (round 3).  Core Lean only.
-/
import Lcapy.Proofs.ParserLemmas
namespace Lcapy.Parser

/-! ### strip / split helpers -/
theorem lstrip_id (s : Str) (h : ∀ c, s.head? = some c → isWs c = false) : lstrip s = s := by
  cases s with
  | nil => rfl
  | cons a t => simp [lstrip, List.dropWhile, h a rfl]

theorem rstrip_id (s : Str) (h : ∀ c, s.getLast? = some c → isWs c = false) : rstrip s = s := by
  unfold rstrip
  have : s.reverse.dropWhile isWs = s.reverse := by
    cases hr : s.reverse with
    | nil => rfl
    | cons a t =>
      have : s.getLast? = some a := by
        rw [List.getLast?_eq_head?_reverse, hr]; rfl
      simp [List.dropWhile, h a this]
  rw [this, List.reverse_reverse]

theorem strip_id (s : Str) (h1 : ∀ c, s.head? = some c → isWs c = false)
    (h2 : ∀ c, s.getLast? = some c → isWs c = false) : strip s = s := by
  unfold strip; rw [lstrip_id s h1, rstrip_id s h2]

theorem strip_ws_cons (c : Char) (s : Str) (hc : isWs c = true) : strip (c :: s) = strip s := by
  simp [strip, lstrip, List.dropWhile, hc]

/-- what `strip` returns has no white space at either end -/
theorem strip_ends (x : Str) : (∀ c, (strip x).head? = some c → isWs c = false) ∧
    (∀ c, (strip x).getLast? = some c → isWs c = false) := by
  have hl : ∀ c, (lstrip x).head? = some c → isWs c = false := by
    intro c hc
    unfold lstrip at hc
    have := List.head?_dropWhile_not isWs x
    rw [hc] at this
    simpa using this
  have hr : ∀ y : Str, ∀ c, (rstrip y).getLast? = some c → isWs c = false := by
    intro y c hc
    unfold rstrip at hc
    rw [List.getLast?_reverse] at hc
    have := List.head?_dropWhile_not isWs y.reverse
    rw [hc] at this
    simpa using this
  constructor
  · intro c hc
    unfold strip at hc
    -- rstrip y is a prefix of y
    have hp : rstrip (lstrip x) <+: lstrip x := by
      unfold rstrip
      have := List.dropWhile_suffix isWs (l := (lstrip x).reverse)
      have h2 := List.reverse_prefix.mpr this
      simpa using h2
    obtain ⟨t, ht⟩ := hp
    cases hrs : rstrip (lstrip x) with
    | nil => rw [hrs] at hc; simp at hc
    | cons a u =>
      rw [hrs] at hc ht
      simp at hc; subst hc
      apply hl
      rw [← ht]; rfl
  · intro c hc
    exact hr _ c hc

theorem strip_strip (x : Str) : strip (strip x) = strip x :=
  strip_id _ (strip_ends x).1 (strip_ends x).2

theorem splitFirst_none (sep : Char) (a : Str) (h : ∀ c ∈ a, c ≠ sep) : splitFirst sep a = (a, none) := by
  induction a with
  | nil => rfl
  | cons c t ih =>
    have hc : (c == sep) = false := by simpa using h c (by simp)
    simp [splitFirst, hc, ih (fun d hd => h d (by simp [hd]))]

theorem splitFirst_some (sep : Char) (a b : Str) (h : ∀ c ∈ a, c ≠ sep) : splitFirst sep (a ++ sep :: b) = (a, some b) := by
  induction a with
  | nil => simp [splitFirst]
  | cons c t ih =>
    have hc : (c == sep) = false := by simpa using h c (by simp)
    simp [splitFirst, hc, ih (fun d hd => h d (by simp [hd]))]

theorem splitOn_nosep (sep : Char) (a : Str) (h : ∀ c ∈ a, c ≠ sep) : splitOn sep a = [a] := by
  induction a with
  | nil => rfl
  | cons c t ih =>
    have hc : (c == sep) = false := by simpa using h c (by simp)
    simp [splitOn, hc, ih (fun d hd => h d (by simp [hd]))]

/-! ### node extraction -/

theorem extractNodes_args (name ns : Str) (C : List Param) (hC : C.all (·.kind.isArg) = true) (fs : List Str) :
    extractNodes name ns C fs = .ok [] := by
  induction C generalizing fs with
  | nil => rfl
  | cons p ps ih =>
    simp only [List.all_cons, Bool.and_eq_true] at hC
    have hn : p.kind.isNode = false := by
      have := hC.1
      cases hk : p.kind <;> simp [Kind.isArg, Kind.isNode, hk] at this ⊢
    simp only [extractNodes, hn]
    exact ih hC.2 fs.tail

/-- nodes that are read back unchanged: not starting with `.` (with an empty namespace) -/
theorem extractNodes_nodes (name : Str) (N : List Param) (hN : N.all (·.kind.isNode) = true) (ns : List Str)
    (hlen : ns.length = N.length) (hdot : ∀ n ∈ ns, n.head? ≠ some '.') (rest : List Param) (fs : List Str)
    (tail : List Str) (hrest : extractNodes name [] rest fs = .ok tail) :
    extractNodes name [] (N ++ rest) (ns ++ fs) = .ok (ns ++ tail) := by
  induction N generalizing ns with
  | nil =>
    have : ns = [] := by cases ns with | nil => rfl | cons a b => simp at hlen
    subst this; simpa using hrest
  | cons p ps ih =>
    cases ns with
    | nil => simp at hlen
    | cons n ns' =>
      simp only [List.all_cons, Bool.and_eq_true] at hN
      have hd : n.head? ≠ some '.' := hdot n (by simp)
      have := ih hN.2 ns' (by simpa using hlen) (fun x hx => hdot x (by simp [hx]))
      simp only [List.cons_append, extractNodes, hN.1, ↓reduceIte, this]
      simp [hd]

theorem extractNodes_skip (name ns : Str) (k : Param) (hk : k.kind.isNode = false) (rest : List Param) (f : Str) (fs : List Str) :
    extractNodes name ns (k :: rest) (f :: fs) = extractNodes name ns rest fs := by
  simp [extractNodes, hk]

/-! ### m2 and the missing-argument test -/

theorem m2Of_args (C : List Param) (hC : C.all (·.kind.isArg) = true) (m acc : Nat) : m2Of C m acc = acc := by
  induction C generalizing m with
  | nil => rfl
  | cons p ps ih =>
    simp only [List.all_cons, Bool.and_eq_true] at hC
    simp [m2Of, hC.1, ih hC.2]

theorem m2Of_nonargs (N : List Param) (hN : N.all (fun p => !p.kind.isArg) = true) (rest : List Param) (m acc : Nat) :
    m2Of (N ++ rest) m acc = m2Of rest (m + N.length) (if N.isEmpty then acc else m + N.length) := by
  induction N generalizing m acc with
  | nil => simp
  | cons p ps ih =>
    simp only [List.all_cons, Bool.and_eq_true, Bool.not_eq_true'] at hN
    simp only [List.cons_append, m2Of, hN.1, Bool.false_eq_true, ↓reduceIte]
    rw [ih (by simpa using hN.2)]
    cases ps with
    | nil => simp
    | cons q qs =>
      have e : m + 1 + (q :: qs).length = m + (p :: q :: qs).length := by simp; omega
      simp only [e]; simp

theorem missingArg_nonargs (N : List Param) (hN : N.all (fun p => !p.kind.isArg) = true) (rest : List Param) (m n : Nat) :
    missingArg (N ++ rest) m n = missingArg rest (m + N.length) n := by
  induction N generalizing m with
  | nil => simp
  | cons p ps ih =>
    simp only [List.all_cons, Bool.and_eq_true, Bool.not_eq_true'] at hN
    simp only [List.cons_append, missingArg, hN.1, Bool.false_and, Bool.false_or]
    rw [ih (by simpa using hN.2)]
    congr 1
    simp; omega

/-- no argument is missing when the parameters without a field are all optional -/
theorem missingArg_args (C : List Param) (m k : Nat) (h : (C.drop k).all (·.optional) = true) :
    missingArg C m (m + k) = false := by
  induction C generalizing m k with
  | nil => rfl
  | cons p ps ih =>
    simp only [missingArg]
    cases k with
    | zero =>
      simp only [List.drop_zero, List.all_cons, Bool.and_eq_true] at h
      have := ih (m + 1) 0 (by simpa using h.2)
      simp only [Nat.add_zero] at this ⊢
      have h3 : missingArg ps (m + 1) m = false := by
        -- fewer fields only matters for required parameters; all remaining are optional
        clear this ih
        have : ∀ (qs : List Param) (a b : Nat), qs.all (·.optional) = true → missingArg qs a b = false := by
          intro qs
          induction qs with
          | nil => intros; rfl
          | cons q qs ih2 =>
            intro a b hq
            simp only [List.all_cons, Bool.and_eq_true] at hq
            simp [missingArg, hq.1, ih2 (a + 1) b hq.2]
        exact this ps (m + 1) m h.2
      simp [h.1, h3]
    | succ j =>
      have := ih (m + 1) j (by simpa using h)
      have e : m + 1 + j = m + (j + 1) := by omega
      rw [e] at this
      simp only [this, Bool.or_false]
      have : ¬ (m + (j + 1) ≤ m) := by omega
      simp [this]

/-! ### keyword placement -/

theorem nodesWithKw_noinsert (p : Nat) (kw : Str) (ns : List Str) (m : Nat) (h : p ≤ m) :
    nodesWithKw (some p) kw ns m = ns := by
  induction ns generalizing m with
  | nil => rfl
  | cons n t ih =>
    have : (some p == some (m + 1)) = false := by simp; omega
    simp [nodesWithKw, this, ih (m + 1) (by omega)]

theorem nodesWithKw_nokw (kp : Option Nat) (ns : List Str) (m : Nat) : nodesWithKw kp [] ns m = ns := by
  induction ns generalizing m with
  | nil => rfl
  | cons n t ih => simp [nodesWithKw, ih]

theorem nodesWithKw_cons_ne (p : Nat) (kw : Str) (a : Str) (rest : List Str) (m : Nat) (h : p ≠ m + 1) :
    nodesWithKw (some p) kw (a :: rest) m = a :: nodesWithKw (some p) kw rest (m + 1) := by
  have : (some p == some (m + 1)) = false := by simp [h]
  simp [nodesWithKw, this]

theorem nodesWithKw_insert (kw : Str) (hkw : kw ≠ []) (nA nB : List Str) (hA : nA ≠ []) (m : Nat) :
    nodesWithKw (some (m + nA.length)) kw (nA ++ nB) m = nA ++ kw :: nB := by
  induction nA generalizing m with
  | nil => exact absurd rfl hA
  | cons a t ih =>
    have hk : kw.isEmpty = false := by cases kw with | nil => exact absurd rfl hkw | cons _ _ => rfl
    cases t with
    | nil =>
      simp [nodesWithKw, hk, nodesWithKw_noinsert (m + 1) kw nB (m + 1) (Nat.le_refl _)]
    | cons b u =>
      have hne : (some (m + (a :: b :: u).length) == some (m + 1)) = false := by simp
      have := ih (by simp) (m + 1)
      have e : m + 1 + (b :: u).length = m + (a :: b :: u).length := by simp; omega
      rw [e] at this
      have hne2 : m + (a :: b :: u).length ≠ m + 1 := by simp
      simp only [List.cons_append] at this ⊢
      rw [nodesWithKw_cons_ne _ _ _ _ _ hne2, this]

/-! ### shape of a parameter list -/

def Shape.params (s : Shape) : List Param :=
  s.A ++ (match s.k with | some q => [q] | none => []) ++ s.B ++ s.C

theorem shapeOf_params (ps : List Param) : (shapeOf ps).params = ps := by
  unfold shapeOf Shape.params
  have h1 := List.takeWhile_append_dropWhile (p := fun p : Param => p.kind.isNode) (l := ps)
  cases hd : ps.dropWhile (fun p : Param => p.kind.isNode) with
  | nil => rw [hd] at h1; simpa using h1
  | cons q rest =>
    rw [hd] at h1
    by_cases hk : q.kind = .keyword
    · have h2 := List.takeWhile_append_dropWhile (p := fun p : Param => p.kind.isNode) (l := rest)
      simp only [hk, beq_self_eq_true, ↓reduceIte]
      rw [List.append_assoc, List.append_assoc, h2]
      simpa using h1
    · have : (q.kind == Kind.keyword) = false := by simp [hk]
      simp only [this, Bool.false_eq_true, ↓reduceIte]
      simpa using h1

theorem shapeOf_A_nodes (ps : List Param) : (shapeOf ps).A.all (·.kind.isNode) = true := by
  unfold shapeOf
  have : (ps.takeWhile (fun p : Param => p.kind.isNode)).all (fun p : Param => p.kind.isNode) = true :=
    List.all_takeWhile
  split <;> try split
  all_goals exact this

theorem shapeOf_B_nodes (ps : List Param) : (shapeOf ps).B.all (·.kind.isNode) = true := by
  unfold shapeOf
  split
  · rfl
  · rename_i q rest _
    split
    · exact List.all_takeWhile
    · rfl

theorem shapeOf_k_keyword (ps : List Param) (q : Param) (h : (shapeOf ps).k = some q) : q.kind = .keyword := by
  unfold shapeOf at h
  split at h
  · simp at h
  · rename_i q' rest _
    split at h
    · rename_i hk; simp at h; subst h; simpa using hk
    · simp at h

theorem shapeOf_k_none_B (ps : List Param) (h : (shapeOf ps).k = none) : (shapeOf ps).B = [] := by
  unfold shapeOf at h ⊢
  split
  · rfl
  · split
    · rename_i hd hk; simp [hd, hk] at h
    · rfl

/-! ### joined tokens -/

theorem joinWith_mem (sep : Str) (ts : List Str) (c : Char) (h : c ∈ joinWith sep ts) : c ∈ sep ∨ ∃ t ∈ ts, c ∈ t := by
  induction ts with
  | nil => simp [joinWith] at h
  | cons t ts ih =>
    cases ts with
    | nil => simp only [joinWith] at h; exact Or.inr ⟨t, by simp, h⟩
    | cons u us =>
      simp only [joinWith, List.mem_append] at h
      rcases h with (h | h) | h
      · exact Or.inr ⟨t, by simp, h⟩
      · exact Or.inl h
      · rcases ih h with h | ⟨x, hx, hc⟩
        · exact Or.inl h
        · exact Or.inr ⟨x, by simp [hx], hc⟩

theorem joinWith_head (sep : Str) (t : Str) (ts : List Str) (ht : t ≠ []) : (joinWith sep (t :: ts)).head? = t.head? := by
  cases ts with
  | nil => rfl
  | cons u us => cases t with | nil => exact absurd rfl ht | cons a b => rfl

theorem joinWith_getLast (sep : Str) (ts : List Str) (hts : ts ≠ []) (hne : ∀ t ∈ ts, t ≠ []) :
    (joinWith sep ts).getLast? = (ts.getLast hts).getLast? := by
  induction ts with
  | nil => exact absurd rfl hts
  | cons t ts ih =>
    cases ts with
    | nil => rfl
    | cons u us =>
      have hj : joinWith sep (u :: us) ≠ [] := by
        have hu := hne u (by simp)
        cases us with
        | nil => simpa [joinWith] using hu
        | cons v vs => simp [joinWith, hu]
      simp only [joinWith]
      have ih' := ih (by simp) (fun x hx => hne x (by simp [hx]))
      cases hl : (joinWith sep (u :: us)).getLast? with
      | none => exact absurd (List.getLast?_eq_none_iff.mp hl) hj
      | some z =>
        rw [hl] at ih'
        simp [List.getLast?_append, hl, ← ih']

theorem isNode_not_isArg (k : Kind) (h : k.isNode = true) : k.isArg = false := by
  cases k <;> simp [Kind.isNode, Kind.isArg] at h ⊢

theorem isArg_not_isNode (k : Kind) (h : k.isArg = true) : k.isNode = false := by
  cases k <;> simp [Kind.isNode, Kind.isArg] at h ⊢

theorem extractNodes_skips (name ns : Str) (K : List Param) (hK : K.all (fun p => !p.kind.isNode) = true)
    (KW : List Str) (hl : KW.length = K.length) (rest : List Param) (fs : List Str) :
    extractNodes name ns (K ++ rest) (KW ++ fs) = extractNodes name ns rest fs := by
  induction K generalizing KW with
  | nil =>
    have : KW = [] := by cases KW with | nil => rfl | cons a b => simp at hl
    subst this; rfl
  | cons k ks ih =>
    cases KW with
    | nil => simp at hl
    | cons w ws =>
      simp only [List.all_cons, Bool.and_eq_true, Bool.not_eq_true'] at hK
      simp only [List.cons_append, extractNodes, hK.1, Bool.false_eq_true, ↓reduceIte, List.tail_cons]
      exact ih (by simpa using hK.2) ws (by simpa using hl)

theorem filter_isArg_nonargs (N C : List Param) (hN : N.all (fun p => !p.kind.isArg) = true) (hC : C.all (·.kind.isArg) = true) :
    (N ++ C).filter (·.kind.isArg) = C := by
  rw [List.filter_append]
  have h1 : N.filter (·.kind.isArg) = [] := by
    rw [List.filter_eq_nil_iff]
    intro a ha
    have := List.all_eq_true.mp hN a ha
    simpa using this
  have h2 : C.filter (·.kind.isArg) = C := by
    rw [List.filter_eq_self]
    intro a ha
    exact List.all_eq_true.mp hC a ha
  rw [h1, h2]; rfl


/-! ### Opts: the local `split` of `Opts.add` -/

theorem optsSplitAux_part (p : Str) (hp : ∀ c ∈ p, c ≠ ',' ∧ c ≠ '{' ∧ c ≠ '}') (rest cur : Str) (acc : List Str) :
    optsSplitAux (p ++ ',' :: rest) 0 cur acc = optsSplitAux rest 0 [] ((cur.reverse ++ p) :: acc) := by
  induction p generalizing cur with
  | nil => simp [optsSplitAux]
  | cons c t ih =>
    have hc := hp c (by simp)
    have h1 : (c == ',') = false := by simp [hc.1]
    have h2 : (c == '{') = false := by simp [hc.2.1]
    have h3 : (c == '}') = false := by simp [hc.2.2]
    simp only [List.cons_append, optsSplitAux, h1, Bool.false_and, Bool.false_eq_true, ↓reduceIte, h2, h3]
    rw [ih (fun d hd => hp d (by simp [hd]))]
    simp

theorem optsSplitAux_join (ps : List Str) (hne : ps ≠ []) (hps : ∀ p ∈ ps, ∀ c ∈ p, c ≠ ',' ∧ c ≠ '{' ∧ c ≠ '}')
    (cur : Str) (acc : List Str) :
    optsSplitAux (joinWith [',', ' '] ps ++ [',']) 0 cur acc
      = some (acc.reverse ++ (cur.reverse ++ ps.head hne) :: ps.tail.map (' ' :: ·)) := by
  induction ps generalizing cur acc with
  | nil => exact absurd rfl hne
  | cons p rest ih =>
    cases rest with
    | nil =>
      simp only [joinWith, List.head_cons, List.tail_cons, List.map_nil]
      rw [optsSplitAux_part p (hps p (by simp))]
      simp [optsSplitAux]
    | cons q rest' =>
      have e : joinWith [',', ' '] (p :: q :: rest') ++ [','] = p ++ ',' :: (' ' :: (joinWith [',', ' '] (q :: rest') ++ [','])) := by
        simp [joinWith]
      rw [e, optsSplitAux_part p (hps p (by simp))]
      have hstep : ∀ (x : Str) (a : List Str), optsSplitAux (' ' :: x) 0 [] a = optsSplitAux x 0 [' '] a := by
        intro x a; simp [optsSplitAux]
      rw [hstep, ih (by simp) (fun p' hp' => hps p' (by simp [hp']))]
      simp

theorem optsSplit_join (ps : List Str) (hne : ps ≠ []) (hps : ∀ p ∈ ps, ∀ c ∈ p, c ≠ ',' ∧ c ≠ '{' ∧ c ≠ '}') :
    optsSplit (joinWith [',', ' '] ps) = some (ps.head hne :: ps.tail.map (' ' :: ·)) := by
  unfold optsSplit
  rw [optsSplitAux_join ps hne hps]
  simp

/-! ### `str.split('=')` / `'='.join` -/

theorem splitOn_cons_sep (sep : Char) (a b : Str) (h : ∀ c ∈ a, c ≠ sep) :
    splitOn sep (a ++ sep :: b) = a :: splitOn sep b := by
  induction a with
  | nil => simp [splitOn]
  | cons c t ih =>
    have hc : (c == sep) = false := by simpa using h c (by simp)
    simp [splitOn, hc, ih (fun d hd => h d (by simp [hd]))]

theorem splitOn_ne_nil (sep : Char) (s : Str) : splitOn sep s ≠ [] := by
  induction s with
  | nil => simp [splitOn]
  | cons c t ih =>
    unfold splitOn
    split
    · simp
    · split <;> simp

theorem joinWith_splitOn (sep : Char) (s : Str) : joinWith [sep] (splitOn sep s) = s := by
  induction s with
  | nil => rfl
  | cons c t ih =>
    unfold splitOn
    by_cases hc : (c == sep) = true
    · simp only [hc, ↓reduceIte]
      have hsep : c = sep := by simpa using hc
      cases h : splitOn sep t with
      | nil => exact absurd h (splitOn_ne_nil sep t)
      | cons a r => rw [h] at ih; simp [joinWith, ih, hsep]
    · have hc' : (c == sep) = false := by simpa using hc
      simp only [hc', Bool.false_eq_true, ↓reduceIte]
      cases h : splitOn sep t with
      | nil => exact absurd h (splitOn_ne_nil sep t)
      | cons a r =>
        rw [h] at ih
        cases r with
        | nil => simp only [joinWith] at ih ⊢; rw [ih]
        | cons b r' => simp only [joinWith] at ih ⊢; rw [← ih]; simp


/-! ### Opts: one entry -/

theorem optKeyOK_spec (k : Str) (h : optKeyOK k = true) :
    k ≠ [] ∧ (∀ c ∈ k, isWs c = false ∧ c ≠ ',' ∧ c ≠ '=' ∧ c ≠ '{' ∧ c ≠ '}') ∧ k ≠ ['d','e','f'] := by
  unfold optKeyOK at h
  simp only [Bool.and_eq_true, Bool.not_eq_true', List.all_eq_true, bne_iff_ne, ne_eq] at h
  refine ⟨by intro e; subst e; simp at h, ?_, h.2⟩
  intro c hc
  have := h.1.2 c hc
  exact ⟨this.1.1.1.1, this.1.1.1.2, this.1.1.2, this.1.2, this.2⟩

theorem strip_key (k : Str) (h : optKeyOK k = true) : strip k = k := by
  obtain ⟨_, hc, _⟩ := optKeyOK_spec k h
  apply strip_id
  · intro c hh; exact (hc c (List.mem_of_mem_head? hh)).1
  · intro c hh; exact (hc c (List.mem_of_getLast? hh)).1

/-- `Opts.add` on one printed entry (possibly after the blank that follows a comma) -/
theorem optsAddPart_entry (acc : Opts) (k : Str) (v : OptVal) (txt : Str) (lead : Str)
    (hlead : lead = [] ∨ lead = [' ']) (hk : optKeyOK k = true) (hv : optValOK v = true)
    (htxt : optFmt1 k v = some txt) (hfresh : acc.any (fun p => p.1 == k) = false) :
    optsAddPart acc (lead ++ txt) = acc ++ [(k, v)] := by
  obtain ⟨hkne, hkc, hkdef⟩ := optKeyOK_spec k hk
  have hkeq : ∀ c ∈ k, c ≠ '=' := fun c hc => (hkc c hc).2.2.1
  have hkhead : ∀ c, k.head? = some c → isWs c = false := fun c hh => (hkc c (List.mem_of_mem_head? hh)).1
  have hklast : ∀ c, k.getLast? = some c → isWs c = false := fun c hh => (hkc c (List.mem_of_getLast? hh)).1
  have hstripk := strip_key k hk
  have hset : ∀ a : OptVal, optsSet acc k a = acc ++ [(k, a)] := by
    intro a; simp [optsSet, hfresh]
  have hdef : (k == ['d','e','f']) = false := by simp [hkdef]
  -- generic: an entry `k=val` with a stripped non-empty `val`
  have hkv : ∀ (val : Str) (a : OptVal), val ≠ [] → (∀ c, val.getLast? = some c → isWs c = false) →
      (∀ c, val.head? = some c → isWs c = false) →
      ((if val == ['t','r','u','e'] || val == ['T','r','u','e'] then OptVal.b true
        else if val == ['f','a','l','s','e'] || val == ['F','a','l','s','e'] then OptVal.b false else OptVal.s val) = a) →
      optsAddPart acc (lead ++ (k ++ ['='] ++ val)) = acc ++ [(k, a)] := by
    intro val a hvne hvl hvh ha
    have hpart : strip (lead ++ (k ++ ['='] ++ val)) = k ++ ['='] ++ val := by
      have h1 : strip (k ++ ['='] ++ val) = k ++ ['='] ++ val := by
        apply strip_id
        · intro c hh
          cases hk' : k with
          | nil => exact absurd hk' hkne
          | cons x y => rw [hk'] at hh; simp at hh; subst hh; exact hkhead x (by rw [hk']; rfl)
        · intro c hh
          rw [List.getLast?_append] at hh
          cases hl : val.getLast? with
          | none => exact absurd (List.getLast?_eq_none_iff.mp hl) hvne
          | some z => rw [hl] at hh; simp at hh; subst hh; exact hvl _ hl
      rcases hlead with rfl | rfl
      · simpa using h1
      · rw [show [' '] ++ (k ++ ['='] ++ val) = ' ' :: (k ++ ['='] ++ val) from rfl, strip_ws_cons ' ' _ (by decide), h1]
    have hsp : splitOn '=' (k ++ ['='] ++ val) = k :: splitOn '=' val := by
      have := splitOn_cons_sep '=' k val hkeq
      simpa using this
    have hne : (k ++ ['='] ++ val).isEmpty = false := by
      cases hk' : k with
      | nil => exact absurd hk' hkne
      | cons x y => rfl
    have hlen : (splitOn '=' val).length + 1 > 1 := by
      have := splitOn_ne_nil '=' val
      cases h : splitOn '=' val with
      | nil => exact absurd h this
      | cons _ _ => simp
    have hvstrip : strip val = val := strip_id val hvh hvl
    unfold optsAddPart
    simp only [hpart, hne, Bool.false_eq_true, ↓reduceIte, hsp, List.headD_cons, hstripk, List.length_cons, hlen,
      List.drop_succ_cons, List.drop_zero, joinWith_splitOn, hvstrip, hdef, ha, hset]
  cases v with
  | defs _ => simp [optValOK] at hv
  | b bv =>
    cases bv with
    | true =>
      simp only [optFmt1, Option.some.injEq] at htxt; subst htxt
      have := hkv ['T','r','u','e'] (.b true) (by simp) (by intro c h; simp at h; subst h; decide)
        (by intro c h; simp at h; subst h; decide) (by simp)
      simpa using this
    | false =>
      simp only [optFmt1, Option.some.injEq] at htxt; subst htxt
      have := hkv ['F','a','l','s','e'] (.b false) (by simp) (by intro c h; simp at h; subst h; decide)
        (by intro c h; simp at h; subst h; decide) (by simp)
      simpa using this
  | s val =>
    simp only [optValOK, optStrOK, Bool.and_eq_true, bne_iff_ne, ne_eq] at hv
    obtain ⟨⟨⟨⟨⟨⟨_, hh⟩, hl⟩, ht1⟩, ht2⟩, hf1⟩, hf2⟩ := hv
    simp only [optFmt1, Option.some.injEq] at htxt
    by_cases hemp : val = []
    · subst hemp
      simp only [List.isEmpty_nil, ↓reduceIte] at htxt; subst htxt
      have hpart : strip (lead ++ k) = k := by
        rcases hlead with rfl | rfl
        · simpa using hstripk
        · rw [show [' '] ++ k = ' ' :: k from rfl, strip_ws_cons ' ' _ (by decide), hstripk]
      have hne : k.isEmpty = false := by cases hk' : k with | nil => exact absurd hk' hkne | cons _ _ => rfl
      unfold optsAddPart
      simp [hpart, hne, splitOn_nosep '=' k hkeq, hstripk, hdef, hset]
    · have hemp' : val.isEmpty = false := by cases h : val with | nil => exact absurd h hemp | cons _ _ => rfl
      simp only [hemp', Bool.false_eq_true, ↓reduceIte] at htxt; subst htxt
      apply hkv val (.s val) hemp
      · intro c h; rw [h] at hl; simpa using hl
      · intro c h; rw [h] at hh; simpa using hh
      · simp [ht1, ht2, hf1, hf2]


/-- the printed text of an entry of a normal table -/
def optTxt (p : Str × OptVal) : Str := (optFmt1 p.1 p.2).getD []

theorem optFmt1_normal (k : Str) (v : OptVal) (hv : optValOK v = true) : optFmt1 k v = some (optTxt (k, v)) := by
  cases v with
  | defs _ => simp [optValOK] at hv
  | s x => simp [optFmt1, optTxt]
  | b x => cases x <;> simp [optFmt1, optTxt]

theorem optTxt_chars (k : Str) (v : OptVal) (hk : optKeyOK k = true) (hv : optValOK v = true) :
    ∀ c ∈ optTxt (k, v), c ≠ ',' ∧ c ≠ '{' ∧ c ≠ '}' := by
  obtain ⟨_, hkc, _⟩ := optKeyOK_spec k hk
  have hk' : ∀ c ∈ k, c ≠ ',' ∧ c ≠ '{' ∧ c ≠ '}' := fun c hc => ⟨(hkc c hc).2.1, (hkc c hc).2.2.2.1, (hkc c hc).2.2.2.2⟩
  cases v with
  | defs _ => simp [optValOK] at hv
  | b x =>
    cases x <;> (simp only [optTxt, optFmt1, Option.getD_some]; intro c hc; simp only [List.mem_append] at hc
                 rcases hc with hc | hc
                 · exact hk' c hc
                 · simp at hc; rcases hc with rfl | rfl | rfl | rfl | hc <;> first | decide | (rcases hc with rfl | rfl <;> decide))
  | s x =>
    simp only [optValOK, optStrOK, Bool.and_eq_true, List.all_eq_true, bne_iff_ne, ne_eq] at hv
    have hx : ∀ c ∈ x, c ≠ ',' ∧ c ≠ '{' ∧ c ≠ '}' := fun c hc => by
      have := hv.1.1.1.1.1.1 c hc; exact ⟨this.1.1, this.1.2, this.2⟩
    simp only [optTxt, optFmt1, Option.getD_some]
    intro c hc
    split at hc
    · exact hk' c hc
    · simp only [List.mem_append, List.mem_singleton] at hc
      rcases hc with (hc | rfl) | hc
      · exact hk' c hc
      · decide
      · exact hx c hc

theorem optsFormat_normal (o : Opts) (h : optsNormal o = true) :
    optsFormat o = some (joinWith [',', ' '] (o.map optTxt)) := by
  have key : ∀ o : Opts, optsNormal o = true → o.mapM optFmtEntry = some (o.map (fun p => [optTxt p])) := by
    intro o
    induction o with
    | nil => intro _; rfl
    | cons e rest ih =>
      intro hn
      obtain ⟨k, v⟩ := e
      simp only [optsNormal, Bool.and_eq_true] at hn
      have ih' := ih hn.2
      cases v with
      | defs _ => simp [optValOK] at hn
      | s x => simp [List.mapM_cons, ih', optTxt, optFmt1, optFmtEntry]
      | b x => cases x <;> simp [List.mapM_cons, ih', optTxt, optFmt1, optFmtEntry]
  unfold optsFormat
  rw [key o h]
  have : ∀ l : Opts, (l.map (fun p => [optTxt p])).flatten = l.map optTxt := by
    intro l
    induction l with
    | nil => rfl
    | cons e rest ih => simp [ih]
  simp [this]


theorem optsNormal_fold (rest : Opts) (hn : optsNormal rest = true) (acc : Opts)
    (hdisj : ∀ p ∈ rest, acc.any (fun q => q.1 == p.1) = false) :
    (rest.map (fun p => ' ' :: optTxt p)).foldl optsAddPart acc = acc ++ rest := by
  induction rest generalizing acc with
  | nil => simp
  | cons e rest ih =>
    obtain ⟨k, v⟩ := e
    simp only [optsNormal, Bool.and_eq_true, Bool.not_eq_true'] at hn
    obtain ⟨⟨⟨hk, hv⟩, hfr⟩, hrest⟩ := hn
    have h1 := optsAddPart_entry acc k v (optTxt (k, v)) [' '] (Or.inr rfl) hk hv (optFmt1_normal k v hv) (hdisj (k, v) (by simp))
    simp only [List.map_cons, List.foldl_cons]
    rw [show ' ' :: optTxt (k, v) = [' '] ++ optTxt (k, v) from rfl, h1]
    rw [ih hrest (acc ++ [(k, v)])]
    · simp
    · intro p hp
      have ha := hdisj p (by simp [hp])
      have hkp : (k == p.1) = false := by
        rw [List.any_eq_false] at hfr
        have := hfr p hp
        simp only [beq_iff_eq] at this
        simp only [beq_eq_false_iff_ne, ne_eq]
        exact fun h => this h.symm
      simp [ha, hkp]

theorem optTxt_ends (k : Str) (v : OptVal) (hk : optKeyOK k = true) (hv : optValOK v = true) :
    optTxt (k, v) ≠ [] ∧ (∀ c, (optTxt (k, v)).head? = some c → isWs c = false)
      ∧ (∀ c, (optTxt (k, v)).getLast? = some c → isWs c = false) := by
  obtain ⟨hkne, hkc, _⟩ := optKeyOK_spec k hk
  obtain ⟨a, t, hka⟩ : ∃ a t, k = a :: t := by
    cases h : k with
    | nil => exact absurd h hkne
    | cons a t => exact ⟨a, t, rfl⟩
  have ha : isWs a = false := (hkc a (by rw [hka]; simp)).1
  have hklast : ∀ c, k.getLast? = some c → isWs c = false := fun c hh => (hkc c (List.mem_of_getLast? hh)).1
  have hgen : ∀ val : Str, val ≠ [] → (∀ c, val.getLast? = some c → isWs c = false) →
      (k ++ ['='] ++ val) ≠ [] ∧ (∀ c, (k ++ ['='] ++ val).head? = some c → isWs c = false)
      ∧ (∀ c, (k ++ ['='] ++ val).getLast? = some c → isWs c = false) := by
    intro val hvne hvl
    refine ⟨by simp [hka], ?_, ?_⟩
    · intro c hh; rw [hka] at hh; simp at hh; subst hh; exact ha
    · intro c hh
      rw [List.getLast?_append] at hh
      cases hl : val.getLast? with
      | none => exact absurd (List.getLast?_eq_none_iff.mp hl) hvne
      | some z => rw [hl] at hh; simp at hh; subst hh; exact hvl _ hl
  cases v with
  | defs _ => simp [optValOK] at hv
  | b x =>
    cases x
    · have := hgen ['F','a','l','s','e'] (by simp) (by intro c h; simp at h; subst h; decide)
      simpa [optTxt, optFmt1] using this
    · have := hgen ['T','r','u','e'] (by simp) (by intro c h; simp at h; subst h; decide)
      simpa [optTxt, optFmt1] using this
  | s x =>
    simp only [optValOK, optStrOK, Bool.and_eq_true] at hv
    have hl := hv.1.1.1.1.2
    simp only [optTxt, optFmt1, Option.getD_some]
    split
    · refine ⟨hkne, ?_, hklast⟩
      intro c hh; rw [hka] at hh; simp at hh; subst hh; exact ha
    · rename_i hx
      apply hgen x (by intro h; subst h; simp at hx)
      intro c h; rw [h] at hl; simpa using hl

/-- **opts_format_parse** (helper form): an option table in normal form is read back from its printed text -/
theorem optsParse_format (o : Opts) (hn : optsNormal o = true) :
    ∃ s, optsFormat o = some s ∧ optsParse s = .ok o ∧ strip s = s := by
  refine ⟨_, optsFormat_normal o hn, ?_, ?_⟩
  · cases o with
    | nil => simp [joinWith, optsParse]
    | cons e rest =>
      obtain ⟨k, v⟩ := e
      have hn' := hn
      simp only [optsNormal, Bool.and_eq_true, Bool.not_eq_true'] at hn'
      obtain ⟨⟨⟨hk, hv⟩, hfr⟩, hrest⟩ := hn'
      have hchars : ∀ p ∈ ((k, v) :: rest).map optTxt, ∀ c ∈ p, c ≠ ',' ∧ c ≠ '{' ∧ c ≠ '}' := by
        have : ∀ l : Opts, optsNormal l = true → ∀ p ∈ l.map optTxt, ∀ c ∈ p, c ≠ ',' ∧ c ≠ '{' ∧ c ≠ '}' := by
          intro l
          induction l with
          | nil => intro _ p hp; simp at hp
          | cons e' l' ih =>
            intro hl p hp
            obtain ⟨k', v'⟩ := e'
            simp only [optsNormal, Bool.and_eq_true] at hl
            simp only [List.map_cons, List.mem_cons] at hp
            rcases hp with rfl | hp
            · exact optTxt_chars k' v' hl.1.1.1 hl.1.1.2
            · exact ih hl.2 p hp
        exact this _ hn
      have hsplit := optsSplit_join (((k, v) :: rest).map optTxt) (by simp) hchars
      have hne : (joinWith [',', ' '] (((k, v) :: rest).map optTxt)).isEmpty = false := by
        obtain ⟨hkne, _, _⟩ := optKeyOK_spec k hk
        have ht : optTxt (k, v) ≠ [] := by
          cases v with
          | defs _ => simp [optValOK] at hv
          | s x => simp only [optTxt, optFmt1, Option.getD_some]; split <;> simp [hkne]
          | b x => cases x <;> simp [optTxt, optFmt1]
        cases h : optTxt (k, v) with
        | nil => exact absurd h ht
        | cons a t => cases rest <;> simp [joinWith, h]
      unfold optsParse
      simp only [hne, Bool.false_eq_true, ↓reduceIte, hsplit]
      simp only [List.map_cons, List.head_cons, List.tail_cons, List.foldl_cons]
      have h1 := optsAddPart_entry [] k v (optTxt (k, v)) [] (Or.inl rfl) hk hv (optFmt1_normal k v hv) (by simp)
      simp only [List.nil_append] at h1
      rw [h1, List.map_map]
      have := optsNormal_fold rest hrest [(k, v)] (by
        intro p hp
        rw [List.any_eq_false] at hfr
        have := hfr p hp
        simp only [beq_iff_eq] at this
        simp only [List.any_cons, List.any_nil, Bool.or_false, beq_eq_false_iff_ne, ne_eq]
        exact fun h => this h.symm)
      simpa [Function.comp_def] using this
  · cases o with
    | nil => simp [joinWith, strip, lstrip, rstrip]
    | cons e rest =>
      have hall : ∀ l : Opts, optsNormal l = true → ∀ p ∈ l, optTxt p ≠ [] ∧ (∀ c, (optTxt p).head? = some c → isWs c = false)
          ∧ (∀ c, (optTxt p).getLast? = some c → isWs c = false) := by
        intro l
        induction l with
        | nil => intro _ p hp; simp at hp
        | cons e' l' ih =>
          intro hl p hp
          obtain ⟨k', v'⟩ := e'
          simp only [optsNormal, Bool.and_eq_true] at hl
          rcases List.mem_cons.mp hp with rfl | hp
          · exact optTxt_ends k' v' hl.1.1.1 hl.1.1.2
          · exact ih hl.2 p hp
      have hall' := hall _ hn
      apply strip_id
      · intro c hh
        simp only [List.map_cons] at hh
        rw [joinWith_head _ _ _ (hall' e (by simp)).1] at hh
        exact (hall' e (by simp)).2.1 c hh
      · intro c hh
        rw [joinWith_getLast [',', ' '] ((e :: rest).map optTxt) (by simp)
          (fun t ht => by obtain ⟨p, hp, rfl⟩ := List.mem_map.mp ht; exact (hall' p hp).1)] at hh
        obtain ⟨p, hp, hpe⟩ := List.mem_map.mp (List.getLast_mem (l := (e :: rest).map optTxt) (by simp))
        rw [← hpe] at hh
        exact (hall' p hp).2.2 c hh


end Lcapy.Parser
