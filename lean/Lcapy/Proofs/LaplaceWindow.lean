/-
  C09 helper lemmas for time-reversed steps (windows) and for the `clip_step` rewriting of
  `LaplaceTransformer.term`:
    * the signal built by multiplying a sum of base terms with smooth factors is, up to the order of its terms, the
      sum of the signals built from each base term (`foldSmooth_append_perm`), hence `L` is additive over the base;
    * `u(t − τ)·u(T − t)` is the difference of two steps pointwise (`window_pointwise`);
    * dropping a factor `Heaviside(a t + b)` is sound on the unilateral axis when `a > 0 ∧ b ≥ 0`.
-/
import Lcapy.Proofs.Laplace
import Lcapy.Model.Laplace
import Mathlib.Algebra.Order.Field.Basic
import Mathlib.Tactic.Linarith
import Mathlib.Tactic.Positivity
namespace Lcapy.Laplace
open List

section perm
variable {K : Type} [Field K] [LinearOrder K] [IsStrictOrderedRing K] (E : K → K)

theorem L_perm {f g : ExpPoly K} (h : f ~ g) (s : K) : L E f s = L E g s := by
  induction h with
  | nil => rfl
  | cons x _ ih => simp [ih]
  | swap x y l => simp; ring
  | trans _ _ ih1 ih2 => rw [ih1, ih2]

theorem append4_perm {α : Type} (A B C D : List α) : (A ++ B) ++ (C ++ D) ~ (A ++ C) ++ (B ++ D) := by
  simp only [append_assoc]
  apply Perm.append_left A
  rw [← append_assoc, ← append_assoc]
  exact Perm.append_right D perm_append_comm

theorem iter_tmul_append (k : Nat) (f g : ExpPoly K) : iter tmul k (f ++ g) = iter tmul k f ++ iter tmul k g := by
  induction k with
  | zero => rfl
  | succ k ih => simp [iter, ih, tmul, flatMap_append]

theorem iter_tmul_perm (k : Nat) {f g : ExpPoly K} (h : f ~ g) : iter tmul k f ~ iter tmul k g := by
  induction k with
  | zero => exact h
  | succ k ih => simp only [iter, tmul]; exact Perm.flatMap_right _ ih

theorem smul_perm (a : K) {f g : ExpPoly K} (h : f ~ g) : smul a f ~ smul a g := Perm.map _ h
theorem tmul_perm {f g : ExpPoly K} (h : f ~ g) : tmul f ~ tmul g := Perm.flatMap_right _ h
theorem expWeight_perm (a : K) {f g : ExpPoly K} (h : f ~ g) : expWeight E a f ~ expWeight E a g :=
  Perm.flatMap_right _ h
theorem smul_append (a : K) (f g : ExpPoly K) : smul a (f ++ g) = smul a f ++ smul a g := by simp [smul]
theorem tmul_append (f g : ExpPoly K) : tmul (f ++ g) = tmul f ++ tmul g := by simp [tmul, flatMap_append]
theorem expWeight_append (a : K) (f g : ExpPoly K) : expWeight E a (f ++ g) = expWeight E a f ++ expWeight E a g := by
  simp [expWeight, flatMap_append]

theorem applySmooth_perm (J : K) (a : Atom K) {f g : ExpPoly K} (h : f ~ g) :
    applySmooth E J f a ~ applySmooth E J g a := by
  cases a with
  | tpow k => exact iter_tmul_perm k h
  | lin a b => exact Perm.append (smul_perm a (tmul_perm h)) (smul_perm b h)
  | exp a => exact expWeight_perm E a h
  | expb a b => exact smul_perm _ (expWeight_perm E a h)
  | trig c w ph =>
    cases c <;> exact Perm.append (smul_perm _ (expWeight_perm E _ h)) (smul_perm _ (expWeight_perm E _ h))
  | hyp c a =>
    cases c <;> exact Perm.append (smul_perm _ (expWeight_perm E _ h)) (smul_perm _ (expWeight_perm E _ h))
  | step a b => exact h
  | delta n a b => exact h
  | fn f a b => exact h

theorem applySmooth_append (J : K) (a : Atom K) (f g : ExpPoly K) :
    applySmooth E J (f ++ g) a ~ applySmooth E J f a ++ applySmooth E J g a := by
  cases a with
  | tpow k => simp [applySmooth, iter_tmul_append]
  | lin a b => simp only [applySmooth, tmul_append, smul_append]; exact append4_perm _ _ _ _
  | exp a => simp [applySmooth, expWeight_append]
  | expb a b => simp [applySmooth, expWeight_append, smul_append]
  | trig c w ph =>
    cases c <;> (simp only [applySmooth, expWeight_append, smul_append]; exact append4_perm _ _ _ _)
  | hyp c a =>
    cases c <;> (simp only [applySmooth, expWeight_append, smul_append]; exact append4_perm _ _ _ _)
  | step a b => exact Perm.refl _
  | delta n a b => exact Perm.refl _
  | fn f a b => exact Perm.refl _

theorem foldSmooth_perm (J : K) (sm : List (Atom K)) : ∀ {f g : ExpPoly K}, f ~ g →
    sm.foldl (applySmooth E J) f ~ sm.foldl (applySmooth E J) g := by
  induction sm with
  | nil => intro f g h; exact h
  | cons a sm ih => intro f g h; exact ih (applySmooth_perm E J a h)

/-- multiplying a sum of base signals by smooth factors = sum of the products (as multisets of terms) -/
theorem foldSmooth_append_perm (J : K) (sm : List (Atom K)) : ∀ (f g : ExpPoly K),
    sm.foldl (applySmooth E J) (f ++ g) ~ sm.foldl (applySmooth E J) f ++ sm.foldl (applySmooth E J) g := by
  induction sm with
  | nil => intro f g; exact Perm.refl _
  | cons a sm ih =>
    intro f g
    simp only [foldl_cons]
    exact (foldSmooth_perm E J sm (applySmooth_append E J a f g)).trans (ih _ _)

/-- transform of a window: `L{g·(u(t−τ) − u(t−T))} = L{g·u(t−τ)} + L{(−g)·u(t−T)}` for every product `g` of smooth factors -/
theorem window_transform' (J c tau T s : K) (sm : List (Atom K)) :
    L E (sm.foldl (applySmooth E J) [.ep c 0 0 tau, .ep (-c) 0 0 T]) s
      = L E (sm.foldl (applySmooth E J) [.ep c 0 0 tau]) s + L E (sm.foldl (applySmooth E J) [.ep (-c) 0 0 T]) s := by
  have := foldSmooth_append_perm E J sm [Term.ep c 0 0 tau] [Term.ep (-c) 0 0 T]
  rw [show [Term.ep c 0 0 tau, Term.ep (-c) 0 0 T] = [Term.ep c 0 0 tau] ++ [Term.ep (-c) 0 0 T] from rfl,
    L_perm E this, L_append]

/-- pointwise meaning of the window base: `c` on `τ ≤ t < T`, zero elsewhere -/
theorem window_pointwise' (hE0 : E 0 = 1) (c tau T t : K) (hT : tau ≤ T) :
    evalAt E [.ep c 0 0 tau, .ep (-c) 0 0 T] t = if tau ≤ t ∧ t < T then c else 0 := by
  simp only [evalAt, Term.at, pw, fact, zero_mul, hE0]
  by_cases h1 : tau ≤ t <;> by_cases h2 : T ≤ t
  · have : ¬ t < T := not_lt.mpr h2
    simp [h1, h2, this]
  · have : t < T := not_le.mp h2
    simp [h1, h2, this]
  · exact absurd (le_trans hT h2) h1
  · simp [h1, h2]

end perm

section clip
variable {K : Type} [Field K] [LinearOrder K] [IsStrictOrderedRing K]

/-- no Dirac delta among the atoms -/
def NoDeltaAtoms (atoms : List (Atom K)) : Prop :=
  atoms.filterMap deltaSel = []

/-- Dropping a factor `Heaviside(a t + b)` does not change the signal on the unilateral axis when `a > 0` and `b ≥ 0`
    (the step has switched on at `t = −b/a ≤ 0`). -/
theorem drop_step_sound (E : K → K) (J c a b : K) (atoms : List (Atom K)) (ha : 0 < a) (hb : 0 ≤ b)
    (hd : NoDeltaAtoms atoms) :
    semSimple E J c (.step a b :: atoms) = semSimple E J c atoms := by
  have h1 : -(b / a) ≤ 0 := by
    have : 0 ≤ b / a := div_nonneg hb ha.le
    linarith
  unfold NoDeltaAtoms at hd
  have hm : (if (0 : K) ≤ -(b / a) then -(b / a) else 0) = 0 := by
    split_ifs with h0
    · exact le_antisymm h1 h0
    · rfl
  simp only [semSimple, filterMap_cons, deltaSel, stepSel, offSel, ha.le, if_true, hd, foldl_cons, hm]
  simp [isSmooth]

end clip
end Lcapy.Laplace
