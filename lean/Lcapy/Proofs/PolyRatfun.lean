/-
  Value lemmas for the format builders of `Lcapy/Model/Ratfun.lean`, for an arbitrary delay sign `σ`:
  each builder preserves the value as soon as `σ = −1` (or there is no delay).  Props/C11.lean
  instantiates `σ` with the sign read from the source text.
-/
import Lcapy.Model.Ratfun
import Lcapy.Proofs.Poly
namespace Lcapy.Ratfun
open Lcapy.Poly
variable {K : Type} [Field K] [DecidableEq K]
set_option linter.unusedSimpArgs false
set_option linter.unusedVariables false
set_option linter.unusedSectionVars false

/-- the builder re-attaches the delay with the right sign, or there is nothing to re-attach -/
def DelayOK (σ : K) (R : RF K) : Prop := σ = -1 ∨ R.delay = 0

theorem eval_delayFactor {σ : K} {R : RF K} (h : DelayOK σ R) (env : Env K) (hE0 : env.E 0 = 1) :
    (delayFactor σ R).eval env = env.E (-R.delay * env.x) := by
  unfold delayFactor
  by_cases hd : R.delay = 0
  · simp [hd, RExpr.eval, hE0]
  · rcases h with h | h
    · subst h; simp [hd, RExpr.eval]
    · exact absurd h hd

theorem eval_expv_delay {σ : K} {R : RF K} (h : DelayOK σ R) (env : Env K) :
    (RExpr.expv (σ * R.delay)).eval env = env.E (-R.delay * env.x) := by
  rcases h with h | h
  · subst h; simp [RExpr.eval]
  · simp [RExpr.eval, h]

theorem eval_undefFactor (R : RF K) (env : Env K) : (undefFactor R).eval env = npow env.u R.nu := by
  simp [undefFactor, RExpr.eval]

theorem canonical_value_gen {σ : K} (fc : Bool) (R : RF K) (env : Env K) (h : DelayOK σ R)
    (hE0 : env.E 0 = 1) (hA : Poly.eval R.A env.x ≠ 0) :
    (canonical σ fc R).eval env = R.value env := by
  have hlc := lc_ne_zero_of_eval hA
  cases fc
  · simp only [canonical, RExpr.eval, eval_delayFactor h env hE0, eval_undefFactor, RF.value, eval_monic,
      eval_smul, Bool.false_eq_true, if_false]
    field_simp
  · simp only [canonical, RExpr.eval, eval_delayFactor h env hE0, eval_undefFactor, RF.value, eval_monic, if_true]
    by_cases hB : lc R.B = 0
    · simp [hB, eval_of_lc_zero hB]
    · field_simp

theorem general_value_gen {σ : K} (R : RF K) (env : Env K) (h : DelayOK σ R)
    (hE0 : env.E 0 = 1) (hA : Poly.eval R.A env.x ≠ 0) :
    (general σ R).eval env = R.value env := by
  have hc := cancel_value R.B R.A env.x hA
  simp only [general, RExpr.eval, eval_delayFactor h env hE0, eval_undefFactor, RF.value]
  rw [← hc.1]; field_simp

theorem eval_expandTerms (A cs : List K) (m : Nat) (env : Env K) :
    (expandTerms A cs m).eval env = env.x ^ m * Poly.eval cs env.x / Poly.eval A env.x := by
  induction cs generalizing m with
  | nil => simp [expandTerms, RExpr.eval]
  | cons c cs ih =>
    simp only [expandTerms, RExpr.eval, ih, npow_eq, eval_cons, pow_succ]
    ring

theorem expandcanonical_value_gen {σ : K} (R : RF K) (env : Env K) (h : DelayOK σ R)
    (hE0 : env.E 0 = 1) :
    (expandcanonical σ R).eval env = R.value env := by
  simp only [expandcanonical, RExpr.eval, eval_delayFactor h env hE0, eval_undefFactor, RF.value,
    eval_expandTerms]
  simp

/-- `as_QMA`: `B = Q·A + M` and `deg M < deg A` -/
theorem asQMA_spec (R : RF K) (hA : lc R.A ≠ 0) :
    (∀ x, Poly.eval R.B x = Poly.eval (asQMA R).1 x * Poly.eval R.A x + Poly.eval (asQMA R).2.1 x) ∧
    (asQMA R).2.1.length < (trim R.A).length ∧ (asQMA R).2.2 = R.A := by
  have := divmod_spec' R.B R.A hA
  exact ⟨this.1, this.2, rfl⟩

theorem standard_value_gen {σ : K} (R : RF K) (env : Env K) (h : DelayOK σ R)
    (hE0 : env.E 0 = 1) (hA : Poly.eval R.A env.x ≠ 0) :
    (standard σ R).eval env = R.value env := by
  have hq := (asQMA_spec R (lc_ne_zero_of_eval hA)).1 env.x
  have hc := cancel_value (asQMA R).2.1 (asQMA R).2.2 env.x hA
  have h22 : (asQMA R).2.2 = R.A := rfl
  rw [h22] at hc
  simp only [standard, RExpr.eval, eval_delayFactor h env hE0, eval_undefFactor, RF.value]
  rw [h22]
  have e : Poly.eval (Poly.cancel (asQMA R).2.1 R.A).1 env.x *
      (1 / Poly.eval (Poly.cancel (asQMA R).2.1 R.A).2 env.x) =
      Poly.eval (asQMA R).2.1 env.x / Poly.eval R.A env.x := by
    rw [← hc.1]; field_simp
  rw [e, hq]; field_simp

theorem ec_ne_zero_of_eval {p : List K} {x : K} (h : Poly.eval p x ≠ 0) : ec p ≠ 0 := by
  induction p with
  | nil => simp at h
  | cons a p ih =>
    simp only [ec]
    by_cases ha : a = 0
    · simp only [ha, if_true]
      apply ih
      intro h0
      apply h
      simp [ha, h0]
    · simp [ha]

theorem timeconst_value_gen {σ : K} (R : RF K) (env : Env K) (h : DelayOK σ R)
    (hA : Poly.eval R.A env.x ≠ 0) :
    (timeconst σ R).eval env = R.value env := by
  have hec := ec_ne_zero_of_eval hA
  have he := eval_expv_delay h env
  simp only [timeconst, RExpr.eval, eval_undefFactor, RF.value, eval_smul] at he ⊢
  rw [he]; field_simp

theorem eval_rootsExpr (roots : List (K × Nat)) (env : Env K) :
    (rootsExpr roots).eval env = rootsValue roots env.x := by
  induction roots with
  | nil => simp [rootsExpr, rootsValue, RExpr.eval]
  | cons rn rest ih =>
    obtain ⟨r, n⟩ := rn
    simp only [rootsExpr, RExpr.eval, ih, npow_eq, rootsValue, List.map_cons, List.prod_cons]
    ring

theorem eval_invRootsExpr (roots : List (K × Nat)) (env : Env K) :
    (invRootsExpr roots).eval env = 1 / rootsValue roots env.x := by
  induction roots with
  | nil => simp [invRootsExpr, rootsValue, RExpr.eval]
  | cons rn rest ih =>
    obtain ⟨r, n⟩ := rn
    simp only [invRootsExpr, RExpr.eval, ih, npow_eq, rootsValue, List.map_cons, List.prod_cons]
    simp only [one_div, mul_inv_rev]
    ring

theorem zp2tf_value (zeros poles : List (K × Nat)) (g : RExpr K) (env : Env K) :
    (zp2tf zeros poles g).eval env = g.eval env * rootsValue zeros env.x / rootsValue poles env.x := by
  simp only [zp2tf, RExpr.eval, eval_rootsExpr, eval_invRootsExpr]; ring

theorem zpk_value_gen {σ : K} (R : RF K) (zeros poles : List (K × Nat)) (env : Env K) (h : DelayOK σ R)
    (hE0 : env.E 0 = 1) (hA : Poly.eval R.A env.x ≠ 0)
    (hz : rootsCheck R.B zeros = true) (hp : rootsCheck R.A poles = true) :
    (zpk σ R zeros poles).eval env = R.value env := by
  have hlc := lc_ne_zero_of_eval hA
  have e1 := rootsCheck_eval hz env.x
  have e2 := rootsCheck_eval hp env.x
  have hrp : rootsValue poles env.x ≠ 0 := by
    intro h0; apply hA; rw [e2, h0]; ring
  simp only [zpk, zp2tf_value, zpkGain, RExpr.eval, eval_delayFactor h env hE0, eval_undefFactor, RF.value]
  rw [e1, e2]; field_simp

theorem eval_pairExpr (z0 z1 : K) (env : Env K) :
    (pairExpr z0 z1).eval env = (env.x - z0) * (env.x - z1) := by
  simp only [pairExpr, RExpr.eval, npow_eq]; ring

theorem eval_pairsExpr (ps : List ((K × K) × Nat)) (env : Env K) :
    (pairsExpr ps).eval env = rootsValue (pairsRoots ps) env.x := by
  induction ps with
  | nil => simp [pairsExpr, pairsRoots, rootsValue, RExpr.eval]
  | cons pn rest ih =>
    obtain ⟨⟨z0, z1⟩, n⟩ := pn
    simp only [pairsExpr, pairsRoots, RExpr.eval, ih, npow_eq, eval_pairExpr, rootsValue, List.map_cons,
      List.prod_cons, mul_pow]
    ring

theorem rootsValue_append (a b : List (K × Nat)) (x : K) :
    rootsValue (a ++ b) x = rootsValue a x * rootsValue b x := by
  simp [rootsValue]

theorem zpkPairs_value_gen {σ : K} (R : RF K) (zpairs ppairs : List ((K × K) × Nat))
    (zsingles psingles : List (K × Nat)) (env : Env K) (h : DelayOK σ R)
    (hE0 : env.E 0 = 1) (hA : Poly.eval R.A env.x ≠ 0)
    (hz : rootsCheck R.B (pairsRoots zpairs ++ zsingles) = true)
    (hp : rootsCheck R.A (pairsRoots ppairs ++ psingles) = true) :
    (zpkPairs σ R zpairs ppairs zsingles psingles).eval env = R.value env := by
  have hlc := lc_ne_zero_of_eval hA
  have e1 := rootsCheck_eval hz env.x
  have e2 := rootsCheck_eval hp env.x
  rw [rootsValue_append] at e1 e2
  have hrp : rootsValue (pairsRoots ppairs) env.x * rootsValue psingles env.x ≠ 0 := by
    intro h0; apply hA; rw [e2, h0]; ring
  have h1 : rootsValue (pairsRoots ppairs) env.x ≠ 0 := left_ne_zero_of_mul hrp
  have h2 : rootsValue psingles env.x ≠ 0 := right_ne_zero_of_mul hrp
  simp only [zpkPairs, zp2tf_value, zpkGain, RExpr.eval, eval_delayFactor h env hE0, eval_undefFactor,
    RF.value, eval_pairsExpr]
  rw [e1, e2]; field_simp

/-! ### partial fractions -/

/-- value of `Σ r/(x − p)^o` -/
def pfValue (terms : List (K × K × Nat)) (x : K) : K :=
  (terms.map (fun t => t.1 / (x - t.2.1) ^ t.2.2)).sum

theorem eval_pfTerms (terms : List (K × K × Nat)) (env : Env K) :
    (pfTerms terms).eval env = pfValue terms env.x := by
  induction terms with
  | nil => simp [pfTerms, pfValue, RExpr.eval]
  | cons t rest ih =>
    obtain ⟨r, p, o⟩ := t
    simp only [pfTerms, RExpr.eval, ih, npow_eq, pfValue, List.map_cons, List.sum_cons]
    have : env.x + -p = env.x - p := by ring
    rw [this]; ring

theorem rootsValue_ne_zero_of_cons {q : K} {n : Nat} {rest : List (K × Nat)} {x : K}
    (h : rootsValue ((q, n) :: rest) x ≠ 0) : (x - q) ^ n ≠ 0 ∧ rootsValue rest x ≠ 0 := by
  simp only [rootsValue, List.map_cons, List.prod_cons] at h
  exact ⟨left_ne_zero_of_mul h, right_ne_zero_of_mul h⟩

/-- the cofactor really is `Π (x − q)^n / (x − p)^o` -/
theorem cofactor_value (poles : List (K × Nat)) (p : K) (o : Nat) (c : List K) (x : K)
    (hc : cofactor poles p o = some c) (hx : rootsValue poles x ≠ 0) :
    Poly.eval c x = rootsValue poles x / (x - p) ^ o := by
  induction poles generalizing c with
  | nil => simp [cofactor] at hc
  | cons qn rest ih =>
    obtain ⟨q, n⟩ := qn
    obtain ⟨h1, h2⟩ := rootsValue_ne_zero_of_cons hx
    simp only [cofactor] at hc
    by_cases hq : q = p
    · subst hq
      simp only [if_true] at hc
      by_cases hon : o ≤ n
      · simp only [hon, if_true, Option.some.injEq] at hc
        subst hc
        have hsplit : (x - q) ^ n = (x - q) ^ (n - o) * (x - q) ^ o := by
          rw [← pow_add]; congr 1; omega
        have ho : (x - q) ^ o ≠ 0 := by rw [hsplit] at h1; exact right_ne_zero_of_mul h1
        simp only [eval_mulLinearPow, eval_prodRoots, rootsValue, List.map_cons, List.prod_cons]
        rw [hsplit]; field_simp
      · simp [hon] at hc
    · simp only [hq, if_false, Option.map_eq_some_iff] at hc
      obtain ⟨c', hc', rfl⟩ := hc
      have := ih c' hc' h2
      simp only [eval_mulLinearPow, this, rootsValue, List.map_cons, List.prod_cons]
      ring

theorem pfNumer_value (poles : List (K × Nat)) (terms : List (K × K × Nat)) (s : List K) (x : K)
    (hs : pfNumer poles terms = some s) (hx : rootsValue poles x ≠ 0) :
    Poly.eval s x = rootsValue poles x * pfValue terms x := by
  induction terms generalizing s with
  | nil =>
    simp only [pfNumer, Option.some.injEq] at hs
    subst hs; simp [pfValue]
  | cons t rest ih =>
    obtain ⟨r, p, o⟩ := t
    simp only [pfNumer] at hs
    cases hc : cofactor poles p o with
    | none => simp [hc] at hs
    | some c =>
      cases hr : pfNumer poles rest with
      | none => simp [hc, hr] at hs
      | some s' =>
        simp only [hc, hr, Option.some.injEq] at hs
        subst hs
        rw [eval_add, eval_smul, cofactor_value poles p o c x hc hx, ih s' hr]
        simp only [pfValue, List.map_cons, List.sum_cons]
        ring

/-- **pfCheck is sound**: data that pass the check reconstruct `B/A` at every non-pole point. -/
theorem pfCheck_sound (B A Q : List K) (poles : List (K × Nat)) (terms : List (K × K × Nat)) (x : K)
    (h : pfCheck B A Q poles terms = true) (hA : Poly.eval A x ≠ 0) :
    Poly.eval B x / Poly.eval A x = Poly.eval Q x + pfValue terms x := by
  simp only [pfCheck, Bool.and_eq_true] at h
  obtain ⟨hr, h2⟩ := h
  have eA := rootsCheck_eval hr x
  have hlc := lc_ne_zero_of_eval hA
  have hrv : rootsValue poles x ≠ 0 := by
    intro h0; apply hA; rw [eA, h0]; ring
  cases hs : pfNumer poles terms with
  | none => simp [hs] at h2
  | some s =>
    simp only [hs] at h2
    have eB := polyEq_eval h2 x
    rw [eval_add, eval_mul, eval_smul, pfNumer_value poles terms s x hs hrv] at eB
    rw [eB, eA]; field_simp

theorem partfrac_value_gen {σ : K} (R : RF K) (Q : List K) (poles : List (K × Nat))
    (terms : List (K × K × Nat)) (env : Env K) (h : DelayOK σ R)
    (hE0 : env.E 0 = 1) (hA : Poly.eval R.A env.x ≠ 0)
    (hc : pfCheck R.B R.A Q poles terms = true) :
    (partfrac σ R Q terms).eval env = R.value env := by
  have := pfCheck_sound R.B R.A Q poles terms env.x hc hA
  simp only [partfrac, RExpr.eval, eval_delayFactor h env hE0, eval_undefFactor, RF.value, eval_pfTerms]
  rw [this]

/-! ### N, D, multiply top and bottom -/

theorem N_over_D (R : RF K) (env : Env K) (hE0 : env.E 0 = 1) :
    (exprN R).eval env / (exprD R).eval env = R.value env := by
  simp only [exprN, exprD, RExpr.eval, eval_delayFactor (Or.inl rfl) env hE0, eval_undefFactor, RF.value]
  ring

theorem multiplyTopBottom_value (R : RF K) (f : List K) (env : Env K) (hE0 : env.E 0 = 1)
    (hf : Poly.eval f env.x ≠ 0) :
    (multiplyTopBottom R f).eval env = R.value env := by
  rw [← N_over_D R env hE0]
  simp only [multiplyTopBottom, RExpr.eval]
  by_cases hD : (exprD R).eval env = 0
  · simp [hD]
  · field_simp

/-! ### decomposition into B, A, delay, undefined factor -/

theorem decompose_value (fs : List (Factor K)) (env : Env K) (hE0 : env.E 0 = 1)
    (hE : ∀ a b, env.E (a + b) = env.E a * env.E b) :
    (decompose fs).value env = factorsValue env fs := by
  induction fs with
  | nil => simp [decompose, factorsValue, RF.value, npow, hE0]
  | cons f fs ih =>
    cases f with
    | rat n d =>
      simp only [decompose, factorsValue, Factor.eval, ← ih, RF.value, eval_mul]
      by_cases h1 : Poly.eval d env.x = 0
      · simp [h1]
      · by_cases h2 : Poly.eval (decompose fs).A env.x = 0
        · simp [h2]
        · field_simp
    | expf c =>
      simp only [decompose, factorsValue, Factor.eval, ← ih, RF.value]
      have : -((decompose fs).delay - c) * env.x = c * env.x + -(decompose fs).delay * env.x := by ring
      rw [this, hE]; ring
    | undefF =>
      simp only [decompose, factorsValue, Factor.eval, ← ih, RF.value, npow]
      ring

end Lcapy.Ratfun

namespace Lcapy.Ratfun
open Lcapy.Poly
variable {K : Type} [Field K] [DecidableEq K]
set_option linter.unusedSectionVars false
set_option linter.unusedSimpArgs false
set_option linter.unusedVariables false

theorem map_mult_one (poles : List (K × Nat)) (h : ∀ rn ∈ poles, rn.2 = 1) :
    poles.map (fun rn => (rn.1, 1)) = poles := by
  induction poles with
  | nil => rfl
  | cons a rest ih =>
    obtain ⟨r, n⟩ := a
    have h1 : n = 1 := h (r, n) (by simp)
    subst h1
    simp only [List.map_cons]
    rw [ih (fun rn hrn => h rn (List.mem_cons_of_mem _ hrn))]

theorem zp2tfMixed_value {t : Bool} (ht : t = true) (zIsList pIsList : Bool) (zeros poles : List (K × Nat))
    (g : RExpr K) (env : Env K) (hpl : pIsList = true → ∀ rn ∈ poles, rn.2 = 1) :
    ∃ e, zp2tfMixed t zIsList pIsList zeros poles g = some e ∧
      e.eval env = g.eval env * rootsValue zeros env.x / rootsValue poles env.x := by
  subst ht
  cases pIsList
  · exact ⟨_, by simp [zp2tfMixed], zp2tf_value zeros poles g env⟩
  · refine ⟨zp2tf zeros poles g, ?_, zp2tf_value zeros poles g env⟩
    simp [zp2tfMixed, map_mult_one poles (hpl rfl)]

theorem zp2tfMixed_value_same (t : Bool) (isList : Bool) (zeros poles : List (K × Nat))
    (g : RExpr K) (env : Env K) (hpl : isList = true → ∀ rn ∈ poles, rn.2 = 1) :
    ∃ e, zp2tfMixed t isList isList zeros poles g = some e ∧
      e.eval env = g.eval env * rootsValue zeros env.x / rootsValue poles env.x := by
  cases isList
  · exact ⟨_, by simp [zp2tfMixed], zp2tf_value zeros poles g env⟩
  · refine ⟨zp2tf zeros poles g, ?_, zp2tf_value zeros poles g env⟩
    simp [zp2tfMixed, map_mult_one poles (hpl rfl)]

end Lcapy.Ratfun
