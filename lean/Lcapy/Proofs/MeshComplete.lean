/-
  Helper lemmas for the completeness of the mesh formulation (C15, G4; theorem in Props/C15Mesh.lean):
  finite sums, the structure of the circuit graph (every component has exactly one edge, a dummy node is
  wired to the node it stands for), evaluation of the mesh equations as loop sums of edge voltages,
  the abstract KVL completeness lemma (cycle-basis certificate ⇒ every edge voltage is a potential
  difference), the KCL-by-telescoping lemma and the per-component relation.
-/
import Lcapy.Model.MeshComplete
import Lcapy.Proofs.Formulations
import Lcapy.Proofs.Realisations
import Mathlib.Tactic.Ring
import Mathlib.Tactic.FieldSimp
import Mathlib.Tactic.LinearCombination
import Mathlib.Algebra.Field.Basic
import Mathlib.Tactic.NormNum
namespace Lcapy.Formulations
open Lcapy.MNA Lcapy.StateSpace Ix
variable {K : Type} [Field K]

set_option linter.unusedSimpArgs false
set_option linter.unusedTactic false
set_option linter.unreachableTactic false
set_option linter.unnecessarySeqFocus false
set_option linter.unusedVariables false
set_option linter.unusedSectionVars false

/-! ### finite sums -/


theorem lsum_map_zero {α : Type} (l : List α) (f : α → K) (h : ∀ x ∈ l, f x = 0) : lsum (l.map f) = 0 := by
  induction l with
  | nil => simp [lsum]
  | cons a t ih =>
    simp only [List.map_cons, lsum]
    rw [h a (by simp), ih (fun x hx => h x (by simp [hx]))]; simp

theorem lsum_map_congr {α : Type} (l : List α) (f f' : α → K) (h : ∀ x ∈ l, f x = f' x) :
    lsum (l.map f) = lsum (l.map f') := by
  induction l with
  | nil => rfl
  | cons a t ih =>
    simp only [List.map_cons, lsum]
    rw [h a (by simp), ih (fun x hx => h x (by simp [hx]))]

theorem lsum_map_neg {α : Type} (l : List α) (f : α → K) : lsum (l.map (fun x => -f x)) = -lsum (l.map f) := by
  induction l with
  | nil => simp [lsum]
  | cons a t ih => simp only [List.map_cons, lsum, ih]; ring

/-- exchange of a finite indexed sum and a list sum -/
theorem sumTo_lsum {α : Type} (N : Nat) (l : List α) (F : α → Nat → K) :
    sumTo N (fun i => lsum (l.map (fun x => F x i))) = lsum (l.map (fun x => sumTo N (F x))) := by
  induction l with
  | nil => simp [lsum, sumTo_zero]
  | cons a t ih =>
    simp only [List.map_cons, lsum]
    rw [sumTo_add, ih]

theorem lsum_map_eq_sumTo {α : Type} (l : List α) (f : α → K) :
    lsum (l.map f) = sumTo l.length (fun i => ((l[i]?).map f).getD 0) := by
  induction l with
  | nil => simp [lsum, sumTo]
  | cons a t ih =>
    simp only [List.map_cons, lsum, List.length_cons]
    rw [sumTo_shift, ih]
    simp

theorem lsum_filterMap {α β : Type} (l : List α) (p : α → Option β) (f : β → K) :
    lsum ((l.filterMap p).map f) = lsum (l.map (fun x => match p x with | some y => f y | none => 0)) := by
  induction l with
  | nil => simp [lsum]
  | cons a t ih =>
    cases h : p a with
    | none => simp [List.filterMap_cons, h, lsum, ih]
    | some y => simp [List.filterMap_cons, h, lsum, ih]

/-- a sum whose only non-zero terms share a key that occurs once: it is the term `find?` finds -/
theorem lsum_find_unique {α β : Type} (ps : List α) (P : α → Bool) (f : α → K) (key : α → β)
    (hnd : (ps.map key).Nodup) (hkey : ∀ x ∈ ps, ∀ y ∈ ps, P x = true → P y = true → key x = key y)
    (h0 : ∀ x ∈ ps, P x = false → f x = 0) :
    lsum (ps.map f) = match ps.find? P with | some x => f x | none => 0 := by
  induction ps with
  | nil => simp [lsum]
  | cons a t ih =>
    simp only [List.map_cons, List.nodup_cons] at hnd
    simp only [List.map_cons, lsum]
    cases hP : P a with
    | true =>
      simp only [List.find?_cons, hP]
      rw [lsum_map_zero t f, add_zero]
      intro y hy
      apply h0 y (by simp [hy])
      by_contra hPy
      simp only [Bool.not_eq_false] at hPy
      have := hkey a (by simp) y (by simp [hy]) hP hPy
      exact hnd.1 (by rw [this]; exact List.mem_map_of_mem hy)
    | false =>
      simp only [List.find?_cons, hP]
      rw [h0 a (by simp) hP, zero_add]
      exact ih hnd.2 (fun x hx y hy => hkey x (by simp [hx]) y (by simp [hy])) (fun x hx => h0 x (by simp [hx]))


/-! ### the circuit graph -/


theorem mem_enum (cs : List (Cpt K)) (ic : Nat × Cpt K) (h : ic ∈ enum cs) : cs[ic.1]? = some ic.2 := by
  unfold enum at h
  obtain ⟨j, hj, hget⟩ := List.mem_iff_getElem.mp h
  simp only [List.getElem_zip, List.getElem_range] at hget
  subst hget
  simp only [List.length_zip, List.length_range, Nat.min_self] at hj
  simp [hj]

theorem enum_of_getElem (cs : List (Cpt K)) (i : Nat) (c : Cpt K) (h : cs[i]? = some c) : (i, c) ∈ enum cs := by
  unfold enum
  obtain ⟨hi, hc⟩ := List.getElem?_eq_some_iff.mp h
  refine List.mem_iff_getElem.mpr ⟨i, by simpa using hi, ?_⟩
  simp [hc]

/-- `EdgeOK` with the component's number: the edge holds component number `i` of the netlist -/
def EdgeOK2 (cs : List (Cpt K)) (e : Edge K) : Prop :=
  match e.cpt with
  | some (i, c) => cs[i]? = some c ∧ ∃ n0 n1, nodes2 c = some (n0, n1) ∧ e.a = .real n0 ∧ (e.b = .real n1 ∨ ∃ d, e.b = .dummy d n1)
  | none => ∃ d n, e.a = .dummy d n ∧ e.b = .real n

theorem addCpt_ok2 (cs : List (Cpt K)) (st : List (Edge K) × Nat) (ic : Nat × Cpt K) (hic : cs[ic.1]? = some ic.2)
    (h : ∀ e ∈ st.1, EdgeOK2 cs e) : ∀ e ∈ (addCpt st ic).1, EdgeOK2 cs e := by
  intro e he
  unfold addCpt at he
  cases hn : nodes2 ic.2 with
  | none => rw [hn] at he; exact h e he
  | some n12 =>
    obtain ⟨n1, n2⟩ := n12
    rw [hn] at he
    simp only at he
    split_ifs at he
    · simp only [List.mem_append, List.mem_cons, List.mem_nil_iff, or_false] at he
      rcases he with he | rfl | rfl
      · exact h e he
      · exact ⟨hic, n1, n2, hn, rfl, Or.inr ⟨_, rfl⟩⟩
      · exact ⟨_, _, rfl, rfl⟩
    · simp only [List.mem_append, List.mem_cons, List.mem_nil_iff, or_false] at he
      rcases he with he | rfl
      · exact h e he
      · exact ⟨hic, n1, n2, hn, rfl, Or.inl rfl⟩

theorem foldl_addCpt_ok2 (cs : List (Cpt K)) (l : List (Nat × Cpt K)) (hl : ∀ ic ∈ l, cs[ic.1]? = some ic.2) :
    ∀ st : List (Edge K) × Nat, (∀ e ∈ st.1, EdgeOK2 cs e) → ∀ e ∈ (l.foldl addCpt st).1, EdgeOK2 cs e := by
  induction l with
  | nil => intro st h; simpa using h
  | cons ic rest ih =>
    intro st h
    simp only [List.foldl_cons]
    exact ih (fun ic' h' => hl ic' (by simp [h'])) _ (addCpt_ok2 cs st ic (hl ic (by simp)) h)

theorem buildGraph_ok2 (cs : List (Cpt K)) : ∀ e ∈ buildGraph cs, EdgeOK2 cs e := by
  unfold buildGraph
  apply foldl_addCpt_ok2 cs (enum cs)
  · intro ic hic; exact mem_enum cs ic hic
  · intro e he; simp at he

/-! ### every component has its edge -/

theorem addCpt_mono (st : List (Edge K) × Nat) (ic : Nat × Cpt K) (e : Edge K) (he : e ∈ st.1) :
    e ∈ (addCpt st ic).1 := by
  unfold addCpt
  cases hn : nodes2 ic.2 with
  | none => exact he
  | some n12 =>
    obtain ⟨n1, n2⟩ := n12
    simp only
    split_ifs <;> simp [he]

theorem foldl_addCpt_mono (l : List (Nat × Cpt K)) : ∀ (st : List (Edge K) × Nat) (e : Edge K), e ∈ st.1 →
    e ∈ (l.foldl addCpt st).1 := by
  induction l with
  | nil => intro st e he; simpa using he
  | cons ic rest ih =>
    intro st e he
    simp only [List.foldl_cons]
    exact ih _ e (addCpt_mono st ic e he)

/-- the edge of component `ic` is in the graph, and ends at the second node or at a dummy wired to it -/
def HasCptEdge (g : List (Edge K)) (ic : Nat × Cpt K) (n0 n1 : Nat) : Prop :=
  ∃ e ∈ g, e.cpt = some ic ∧ e.a = .real n0 ∧
    (e.b = .real n1 ∨ ∃ w ∈ g, w.cpt = none ∧ w.a = e.b ∧ w.b = .real n1)

theorem addCpt_has (st : List (Edge K) × Nat) (ic : Nat × Cpt K) (n0 n1 : Nat) (hn : nodes2 ic.2 = some (n0, n1)) :
    HasCptEdge (addCpt st ic).1 ic n0 n1 := by
  unfold addCpt
  rw [hn]
  simp only
  split_ifs
  · exact ⟨⟨.real n0, .dummy st.2 n1, some ic⟩, by simp, rfl, rfl,
      Or.inr ⟨⟨.dummy st.2 n1, .real n1, none⟩, by simp, rfl, rfl, rfl⟩⟩
  · exact ⟨⟨.real n0, .real n1, some ic⟩, by simp, rfl, rfl, Or.inl rfl⟩

theorem foldl_addCpt_has (l : List (Nat × Cpt K)) : ∀ (st : List (Edge K) × Nat) (ic : Nat × Cpt K) (n0 n1 : Nat),
    ic ∈ l → nodes2 ic.2 = some (n0, n1) → HasCptEdge (l.foldl addCpt st).1 ic n0 n1 := by
  induction l with
  | nil => intro st ic n0 n1 h; simp at h
  | cons a rest ih =>
    intro st ic n0 n1 hmem hn
    simp only [List.foldl_cons]
    rcases List.mem_cons.mp hmem with rfl | hmem
    · obtain ⟨e, he, h1, h2, h3⟩ := addCpt_has st ic n0 n1 hn
      refine ⟨e, foldl_addCpt_mono rest _ e he, h1, h2, ?_⟩
      rcases h3 with h3 | ⟨w, hw, h4⟩
      · exact Or.inl h3
      · exact Or.inr ⟨w, foldl_addCpt_mono rest _ w hw, h4⟩
    · exact ih _ ic n0 n1 hmem hn

theorem buildGraph_has (cs : List (Cpt K)) (i : Nat) (c : Cpt K) (n0 n1 : Nat) (hc : cs[i]? = some c)
    (hn : nodes2 c = some (n0, n1)) : HasCptEdge (buildGraph cs) (i, c) n0 n1 :=
  foldl_addCpt_has (enum cs) _ (i, c) n0 n1 (enum_of_getElem cs i c hc) hn

/-! ### a component number occurs on one edge only -/

def cptIdxs (g : List (Edge K)) : List Nat := g.filterMap (fun e => e.cpt.map (·.1))

theorem addCpt_idxs (st : List (Edge K) × Nat) (ic : Nat × Cpt K) :
    cptIdxs (addCpt st ic).1 = cptIdxs st.1 ++ (if (nodes2 ic.2).isSome then [ic.1] else []) := by
  unfold addCpt
  cases hn : nodes2 ic.2 with
  | none => simp
  | some n12 =>
    obtain ⟨n1, n2⟩ := n12
    simp only [Option.isSome_some, if_true]
    split_ifs <;> simp [cptIdxs, List.filterMap_append]

theorem foldl_addCpt_idxs (l : List (Nat × Cpt K)) : ∀ (st : List (Edge K) × Nat),
    cptIdxs (l.foldl addCpt st).1 = cptIdxs st.1 ++ (l.filter (fun ic => (nodes2 ic.2).isSome)).map (·.1) := by
  induction l with
  | nil => intro st; simp
  | cons a rest ih =>
    intro st
    simp only [List.foldl_cons]
    rw [ih, addCpt_idxs]
    cases h : (nodes2 a.2).isSome <;> simp [List.filter_cons, h]

theorem buildGraph_idxs_nodup (cs : List (Cpt K)) : (cptIdxs (buildGraph cs)).Nodup := by
  unfold buildGraph
  rw [foldl_addCpt_idxs]
  simp only [cptIdxs, List.filterMap_nil, List.nil_append]
  have hsub : ((enum cs).filter (fun ic => (nodes2 ic.2).isSome)).map (·.1) |>.Sublist ((enum cs).map (·.1)) :=
    List.Sublist.map _ List.filter_sublist
  apply List.Nodup.sublist hsub
  have : (enum cs).map (·.1) = List.range cs.length := by
    unfold enum
    rw [List.map_fst_zip]
    simp
  rw [this]
  exact List.nodup_range

/-- two pairs whose joining edges hold the same component number are joined by the same edge -/
theorem same_edge_of_same_idx (g : List (Edge K)) (hnd : (cptIdxs g).Nodup) (P P' : Edge K → Bool) (e e' : Edge K)
    (idx : Nat) (c c' : Cpt K) (h1 : g.find? P = some e) (h2 : g.find? P' = some e')
    (hc : e.cpt = some (idx, c)) (hc' : e'.cpt = some (idx, c')) : g.findIdx? P = g.findIdx? P' := by
  induction g with
  | nil => simp at h1
  | cons a t ih =>
    have hmemt : ∀ (Q : Edge K → Bool) (f : Edge K) (cc : Cpt K), t.find? Q = some f → f.cpt = some (idx, cc) →
        idx ∈ cptIdxs t := by
      intro Q f cc hf hfc
      have := List.mem_of_find?_eq_some hf
      simp only [cptIdxs, List.mem_filterMap]
      exact ⟨f, this, by simp [hfc]⟩
    have hnd' : (cptIdxs t).Nodup ∧ (∀ cc, a.cpt = some (idx, cc) → idx ∉ cptIdxs t) := by
      simp only [cptIdxs, List.filterMap_cons] at hnd
      cases ha : a.cpt with
      | none => simp only [ha, Option.map_none] at hnd; exact ⟨hnd, by simp⟩
      | some ic =>
        simp only [ha, Option.map_some, List.nodup_cons] at hnd
        refine ⟨hnd.2, ?_⟩
        intro cc hcc
        simp only [Option.some.injEq] at hcc
        subst hcc
        exact hnd.1
    simp only [List.find?_cons] at h1 h2
    simp only [List.findIdx?_cons]
    cases hP : P a <;> cases hP' : P' a <;> simp only [hP, hP'] at h1 h2 ⊢
    · rw [ih hnd'.1 h1 h2]
    · simp only [Option.some.injEq] at h2
      subst h2
      exact absurd (hmemt P e c h1 hc) (hnd'.2 c' hc')
    · simp only [Option.some.injEq] at h1
      subst h1
      exact absurd (hmemt P' e' c' h2 hc') (hnd'.2 c hc)
    · trivial


theorem lsum_map_mul_right {α : Type} (l : List α) (f : α → K) (c : K) :
    lsum (l.map f) * c = lsum (l.map (fun x => f x * c)) := by
  induction l with
  | nil => simp [lsum]
  | cons a t ih => simp only [List.map_cons, lsum, ← ih]; ring

theorem lsum_map_mul_left {α : Type} (l : List α) (f : α → K) (c : K) :
    c * lsum (l.map f) = lsum (l.map (fun x => c * f x)) := by
  induction l with
  | nil => simp [lsum]
  | cons a t ih => simp only [List.map_cons, lsum, ← ih]; ring

/-! ### incidence sums -/

theorem component_some (g : List (Edge K)) (p q : GNode) (ic : Nat × Cpt K) (h : component g p q = some ic) :
    ∃ e, g.find? (fun e => e.joins p q) = some e ∧ e ∈ g ∧ e.joins p q = true ∧ e.cpt = some ic := by
  unfold component at h
  cases hf : g.find? (fun e => e.joins p q) with
  | none => rw [hf] at h; simp at h
  | some e =>
    rw [hf] at h
    exact ⟨e, rfl, List.mem_of_find?_eq_some hf, by simpa using List.find?_some hf, h⟩

theorem component_lt (cs : List (Cpt K)) (p q : GNode) (i : Nat) (c : Cpt K)
    (h : component (buildGraph cs) p q = some (i, c)) : cs[i]? = some c ∧ i < cs.length := by
  obtain ⟨e, _, hmem, _, hc⟩ := component_some _ p q _ h
  have := buildGraph_ok2 cs e hmem
  simp only [EdgeOK2, hc] at this
  exact ⟨this.1, (List.getElem?_eq_some_iff.mp this.1).1⟩

theorem sumTo_ite_mul (N i : Nat) (a : K) (u : Nat → K) (hi : i < N) :
    sumTo N (fun j => (if i = j then a else 0) * u j) = a * u i := by
  have : ∀ j, (if i = j then a else 0) * u j = if j = i then a * u j else 0 := by
    intro j
    by_cases h : j = i
    · subst h; simp
    · have : ¬ i = j := fun h' => h h'.symm
      simp [h, this]
  rw [sumTo_congr N _ _ (fun j _ => this j), sumTo_single, if_pos hi]

/-- the rise of one ordered pair: ± the rise of the component on its edge -/
theorem pairSgn_sum (g : List (Edge K)) (N : Nat) (u : Nat → K) (pq : GNode × GNode)
    (hN : ∀ i c, component g pq.1 pq.2 = some (i, c) → i < N) :
    sumTo N (fun i => pairSgn g pq i * u i) =
      match component g pq.1 pq.2 with
      | some (i, c) => (match nodes2 c with | some (n0, _) => if pq.1 = .real n0 then u i else -u i | none => 0)
      | none => 0 := by
  cases hc : component g pq.1 pq.2 with
  | none =>
    simp only [pairSgn, hc, zero_mul]
    exact sumTo_zero N
  | some ic =>
    obtain ⟨i, c⟩ := ic
    have hi := hN i c hc
    simp only [pairSgn, hc]
    rw [sumTo_ite_mul N i _ u hi]
    cases hn : nodes2 c with
    | none => simp
    | some n01 =>
      obtain ⟨n0, n1⟩ := n01
      simp only
      split_ifs <;> ring

/-- the rise along a walk is the sum of the rises of its pairs -/
theorem walkRise_eq (g : List (Edge K)) (N : Nat) (u : Nat → K) (pairs : List (GNode × GNode)) :
    walkRise N g u pairs = lsum (pairs.map (fun pq => sumTo N (fun i => pairSgn g pq i * u i))) := by
  simp only [walkRise, inc]
  rw [← sumTo_lsum]
  apply sumTo_congr
  intro i _
  rw [lsum_map_mul_right]


/-! ### the code's `current` of a component is −(signed sum of the mesh currents through its edge) -/

/-- on a simple cycle, the pair `_add_mesh_currents` finds on the component's edge carries the whole
    incidence of the loop with that component -/
theorem loop_inc_find (cs : List (Cpt K)) (loop : List GNode) (hcyc : isSimpleCycle (buildGraph cs) loop = true)
    (idx : Nat) (c : Cpt K) (n0 n1 : Nat) (hc : cs[idx]? = some c) (hn : nodes2 c = some (n0, n1)) :
    (match (loopPairs loop).find? (fun pq => match component (buildGraph cs) pq.1 pq.2 with
                                            | some (i, _) => i == idx
                                            | none => false) with
      | some pq => (if (pq.1 == GNode.real n0) = true then (-1 : K) else 1)
      | none => 0) = -inc (buildGraph cs) (loopPairs loop) idx := by
  have hnd : ((loopPairs loop).map (fun pq => edgeIdOf (buildGraph cs) pq.1 pq.2)).Nodup := by
    simp only [isSimpleCycle, Bool.and_eq_true, decide_eq_true_eq] at hcyc
    exact hcyc.2
  unfold inc
  rw [lsum_find_unique (loopPairs loop) (fun pq => match component (buildGraph cs) pq.1 pq.2 with
        | some (i, _) => i == idx | none => false) (fun pq => pairSgn (buildGraph cs) pq idx)
        (fun pq => edgeIdOf (buildGraph cs) pq.1 pq.2) hnd]
  · cases hf : (loopPairs loop).find? (fun pq => match component (buildGraph cs) pq.1 pq.2 with
        | some (i, _) => i == idx | none => false) with
    | none => simp
    | some pq =>
      have hP := List.find?_some hf
      simp only at hP ⊢
      cases hcomp : component (buildGraph cs) pq.1 pq.2 with
      | none => simp [hcomp] at hP
      | some ic =>
        obtain ⟨i, c'⟩ := ic
        simp only [hcomp, beq_iff_eq] at hP
        subst hP
        have := (component_lt cs _ _ _ _ hcomp).1
        rw [hc] at this
        simp only [Option.some.injEq] at this
        subst this
        simp only [pairSgn, hcomp, if_true, hn, beq_iff_eq]
        split_ifs <;> ring
  · intro x hx y hy hPx hPy
    cases hcx : component (buildGraph cs) x.1 x.2 with
    | none => simp [hcx] at hPx
    | some icx =>
      cases hcy : component (buildGraph cs) y.1 y.2 with
      | none => simp [hcy] at hPy
      | some icy =>
        obtain ⟨ix, cx⟩ := icx
        obtain ⟨iy, cy⟩ := icy
        simp only [hcx, hcy, beq_iff_eq] at hPx hPy
        subst hPx hPy
        obtain ⟨ex, hfx, _, _, hex⟩ := component_some _ _ _ _ hcx
        obtain ⟨ey, hfy, _, _, hey⟩ := component_some _ _ _ _ hcy
        exact same_edge_of_same_idx (buildGraph cs) (buildGraph_idxs_nodup cs) _ _ ex ey _ cx cy hfx hfy hex hey
  · intro x hx hPx
    simp only [pairSgn]
    cases hcx : component (buildGraph cs) x.1 x.2 with
    | none => rfl
    | some icx =>
      obtain ⟨ix, cx⟩ := icx
      simp only [hcx, beq_eq_false_iff_ne] at hPx
      simp [hPx]

theorem meshCurrent_eq (cs : List (Cpt K)) (loops : List (List GNode)) (im : Nat → K)
    (hcyc : ∀ loop ∈ loops, isSimpleCycle (buildGraph cs) loop = true)
    (idx : Nat) (c : Cpt K) (n0 n1 : Nat) (hc : cs[idx]? = some c) (hn : nodes2 c = some (n0, n1)) :
    meshCurrent true (buildGraph cs) loops idx c im = -branchJ (buildGraph cs) loops im idx := by
  simp only [meshCurrent, hn, if_true, accCoeffs, accEdge, List.map_map, branchJ]
  rw [lsum_filterMap, ← lsum_map_neg]
  apply lsum_map_congr
  rintro ⟨m, loop⟩ hml
  have hl : loop ∈ loops := (List.of_mem_zip hml).2
  have := loop_inc_find cs loop (hcyc loop hl) idx c n0 n1 hc hn
  simp only [Function.comp] at this ⊢
  rw [← neg_mul, ← this]
  cases (loopPairs loop).find? (fun pq => match component (buildGraph cs) pq.1 pq.2 with
                                            | some (i, _) => i == idx
                                            | none => false) with
  | none => simp
  | some pq => simp


/-! ### a mesh equation is the loop sum of the edge rises -/

theorem meshOk_nodes (kind : Kind) (s : K) (c : Cpt K) (h : MeshOk kind s c) :
    isI c = false ∧ ∃ n0 n1, nodes2 c = some (n0, n1) ∧ n0 ≠ n1 := by
  cases c <;> simp [MeshOk] at h <;> simp [isI, nodes2] <;> tauto

theorem meshOk_volEq (kind : Kind) (s : K) (c : Cpt K) (h : MeshOk kind s c) :
    ∃ z v0, volEq kind s c = some (z, v0) ∧ (isV c = true → z = 0) := by
  cases c with
  | R a b r => exact ⟨_, _, rfl, by simp [isV]⟩
  | Y a b y => exact ⟨_, _, rfl, by simp [isV]⟩
  | Cap a b cc v0 =>
    obtain ⟨_, _, hk⟩ := h
    rcases hk with rfl | rfl
    · exact ⟨_, _, rfl, by simp [isV]⟩
    · exact ⟨_, _, rfl, by simp [isV]⟩
  | Ind a b m l i0 coup =>
    obtain ⟨_, rfl, hk⟩ := h
    cases kind with
    | time => exact absurd rfl hk
    | dc => exact ⟨_, _, rfl, by simp [isV]⟩
    | lap => exact ⟨_, _, rfl, by simp [isV]⟩
    | ivp => exact ⟨_, _, rfl, by simp [isV]⟩
  | V a b m v => exact ⟨0, v, rfl, fun _ => rfl⟩
  | _ => simp [MeshOk] at h

theorem meshEval_neg (im : Nat → K) (V : MeshForm K) :
    (⟨scaleCoeffs (-1) V.coeffs, -V.const⟩ : MeshForm K).eval im = -V.eval im := by
  rw [meshEval_scale]
  simp only [MeshForm.eval]
  ring

/-- the contribution of one ordered pair to a mesh equation is the rise of the pair for the edge rises
    `edgeRise` = −(z·J + v0) -/
theorem meshTerm_rise (kind : Kind) (s : K) (cs : List (Cpt K)) (loops : List (List GNode)) (im : Nat → K)
    (hdef : ∀ c ∈ cs, MeshOk kind s c)
    (hcyc : ∀ loop ∈ loops, isSimpleCycle (buildGraph cs) loop = true)
    (pq : GNode × GNode) (t : MeshForm K) (ht : meshTerm true kind s (buildGraph cs) loops pq = some t) :
    t.eval im = sumTo cs.length (fun i => pairSgn (buildGraph cs) pq i *
        edgeRise kind s cs (buildGraph cs) loops im i) := by
  rw [pairSgn_sum _ _ _ _ (fun i c h => (component_lt cs _ _ i c h).2)]
  unfold meshTerm at ht
  cases hcomp : component (buildGraph cs) pq.1 pq.2 with
  | none =>
    rw [hcomp] at ht
    simp only [Option.some.injEq] at ht
    subst ht
    simp [MeshForm.eval, lsum]
  | some ic =>
    obtain ⟨idx, c⟩ := ic
    rw [hcomp] at ht
    simp only at ht ⊢
    obtain ⟨hc, hlt⟩ := component_lt cs _ _ _ _ hcomp
    have hmok := hdef c (List.mem_of_getElem? hc)
    obtain ⟨hI, n0, n1, hn, hne⟩ := meshOk_nodes kind s c hmok
    obtain ⟨z, v0, hvol, hzV⟩ := meshOk_volEq kind s c hmok
    have hu : edgeRise kind s cs (buildGraph cs) loops im idx = -(z * branchJ (buildGraph cs) loops im idx + v0) := by
      simp [edgeRise, hc, hvol]
    have hcur := meshCurrent_eq cs loops im hcyc idx c n0 n1 hc hn
    simp only [meshCurrent, hn, if_true] at hcur
    simp only [hn, hvol, hI, Bool.false_eq_true, if_false, if_true, Option.some.injEq] at ht
    simp only [hn]
    rw [hu]
    have hval : ∀ V : MeshForm K, V = (if isV c = true then (⟨[], v0⟩ : MeshForm K)
          else ⟨scaleCoeffs (-z) (accCoeffs (accEdge (buildGraph cs) loops idx n0)), v0⟩) →
        V.eval im = z * branchJ (buildGraph cs) loops im idx + v0 := by
      intro V hVdef
      subst hVdef
      cases hV : isV c with
      | true =>
        have hz := hzV hV
        subst hz
        simp [MeshForm.eval, lsum]
      | false =>
        simp only [Bool.false_eq_true, if_false]
        rw [meshEval_scale, hcur]
        ring
    generalize hVd : (if isV c = true then (⟨[], v0⟩ : MeshForm K)
          else ⟨scaleCoeffs (-z) (accCoeffs (accEdge (buildGraph cs) loops idx n0)), v0⟩) = V at ht
    have hV := hval V hVd.symm
    subst ht
    by_cases hrev : pq.1 = GNode.real n0
    · simp only [hrev, beq_self_eq_true, if_true]
      rw [meshEval_neg, hV]
    · have : (pq.1 == GNode.real n0) = false := by simpa using hrev
      simp only [this, Bool.false_eq_true, if_false, hrev, hV]
      ring


/-- `meshEq_eval` for an arbitrary value `r` of every pair -/
theorem meshEq_eval_gen (kind : Kind) (s : K) (g : List (Edge K)) (loops : List (List GNode))
    (im : Nat → K) (r : GNode × GNode → K) (ps : List (GNode × GNode))
    (hterm : ∀ ab ∈ ps, ∀ t, meshTerm true kind s g loops ab = some t → t.eval im = r ab)
    (f : MeshForm K)
    (hf : ps.foldr (fun ab acc => match meshTerm true kind s g loops ab, acc with
        | some t, some r => some (t.add r) | _, _ => none) (some ⟨[], 0⟩) = some f) :
    f.eval im = lsum (ps.map r) := by
  induction ps generalizing f with
  | nil =>
    simp only [List.foldr_nil, Option.some.injEq] at hf
    subst hf
    simp [MeshForm.eval, lsum]
  | cons ab rest ih =>
    simp only [List.foldr_cons] at hf
    cases h1 : meshTerm true kind s g loops ab with
    | none => rw [h1] at hf; simp at hf
    | some t =>
      rw [h1] at hf
      cases h2 : rest.foldr (fun ab acc => match meshTerm true kind s g loops ab, acc with
          | some t, some r => some (t.add r) | _, _ => none) (some ⟨[], 0⟩) with
      | none => rw [h2] at hf; simp at hf
      | some r' =>
        rw [h2] at hf
        simp only [Option.some.injEq] at hf
        subst hf
        rw [meshEval_add, hterm ab (by simp) t h1, ih (fun ab' h' => hterm ab' (by simp [h'])) r' h2]
        simp [lsum]

/-- **a mesh equation is the loop sum of the edge rises** −(z·J + v0) -/
theorem meshEq_rise (kind : Kind) (s : K) (cs : List (Cpt K)) (loops : List (List GNode)) (im : Nat → K)
    (hdef : ∀ c ∈ cs, MeshOk kind s c)
    (hcyc : ∀ loop ∈ loops, isSimpleCycle (buildGraph cs) loop = true)
    (loop : List GNode) (f : MeshForm K) (hf : meshEq true kind s (buildGraph cs) loops loop = some f) :
    f.eval im = walkRise cs.length (buildGraph cs) (edgeRise kind s cs (buildGraph cs) loops im) (loopPairs loop) := by
  rw [walkRise_eq]
  exact meshEq_eval_gen kind s (buildGraph cs) loops im _ (loopPairs loop)
    (fun ab _ t ht => meshTerm_rise kind s cs loops im hdef hcyc ab t ht) f hf

theorem meshTerm_isSome (kind : Kind) (s : K) (cs : List (Cpt K)) (loops : List (List GNode))
    (hdef : ∀ c ∈ cs, MeshOk kind s c) (pq : GNode × GNode) :
    (meshTerm true kind s (buildGraph cs) loops pq).isSome = true := by
  unfold meshTerm
  cases hcomp : component (buildGraph cs) pq.1 pq.2 with
  | none => rfl
  | some ic =>
    obtain ⟨idx, c⟩ := ic
    obtain ⟨hc, _⟩ := component_lt cs _ _ _ _ hcomp
    have hmok := hdef c (List.mem_of_getElem? hc)
    obtain ⟨hI, n0, n1, hn, _⟩ := meshOk_nodes kind s c hmok
    obtain ⟨z, v0, hvol, _⟩ := meshOk_volEq kind s c hmok
    simp [hn, hvol, hI]

/-- the mesh formulation produces an equation for every loop when it is defined for the netlist -/
theorem meshEq_isSome (kind : Kind) (s : K) (cs : List (Cpt K)) (loops : List (List GNode))
    (hdef : ∀ c ∈ cs, MeshOk kind s c) (loop : List GNode) :
    (meshEq true kind s (buildGraph cs) loops loop).isSome = true := by
  unfold meshEq
  induction loopPairs loop with
  | nil => rfl
  | cons ab rest ih =>
    simp only [List.foldr_cons]
    have h1 := meshTerm_isSome kind s cs loops hdef ab
    obtain ⟨t, ht⟩ := Option.isSome_iff_exists.mp h1
    obtain ⟨r, hr⟩ := Option.isSome_iff_exists.mp ih
    rw [ht, hr]
    rfl


/-! ### KVL completeness: with a cycle-basis certificate, edge voltages whose loop sums vanish are potential differences -/

theorem checkEdges_mem [DecidableEq K] (g : List (Edge K)) (N : Nat) (loops : List (List GNode)) (cert : BasisCert K)
    (es : List (Edge K)) : ∀ (cfs : List (List K)), checkEdges g N loops cert es cfs = true →
    ∀ e ∈ es, ∃ coef, checkEdge g N loops cert e coef = true := by
  induction es with
  | nil => intro cfs _ e he; simp at he
  | cons a t ih =>
    intro cfs h e he
    simp only [checkEdges, Bool.and_eq_true] at h
    rcases List.mem_cons.mp he with rfl | he
    · exact ⟨_, h.1⟩
    · exact ih _ h.2 e he

theorem checkEdge_spec [DecidableEq K] (g : List (Edge K)) (N : Nat) (loops : List (List GNode)) (cert : BasisCert K)
    (e : Edge K) (coef : List K) (h : checkEdge g N loops cert e coef = true) (idx : Nat) (hidx : idx < N) :
    inc g (openPairs (cert.path e.a)) idx + edgeUnit e idx - inc g (openPairs (cert.path e.b)) idx
      = loopComb g loops coef idx := by
  simp only [checkEdge, List.all_eq_true, List.mem_range, decide_eq_true_eq] at h
  exact h idx hidx

/-- **KVL completeness** (any graph, any numbering bound `N`, any assignment `u` of a potential rise to every
    component): if the certificate check passes and the rises sum to zero around every loop handed in, then for
    EVERY edge a → b of the graph  φ(a) + u(edge) − φ(b) = 0  with φ the rise along the certificate's walk:
    the edge voltages are differences of one potential, i.e. KVL holds around every closed walk. -/
theorem kvl_complete [DecidableEq K] (g : List (Edge K)) (N : Nat) (loops : List (List GNode)) (cert : BasisCert K)
    (u : Nat → K) (hcheck : checkBasisG g N loops cert = true)
    (hloops : ∀ loop ∈ loops, walkRise N g u (loopPairs loop) = 0) (e : Edge K) (he : e ∈ g) :
    walkRise N g u (openPairs (cert.path e.a)) + sumTo N (fun idx => edgeUnit e idx * u idx)
      - walkRise N g u (openPairs (cert.path e.b)) = 0 := by
  obtain ⟨coef, hcoef⟩ := checkEdges_mem g N loops cert g cert.coefs hcheck e he
  have hspec := checkEdge_spec g N loops cert e coef hcoef
  simp only [walkRise]
  rw [← sumTo_add, ← sumTo_sub]
  have h1 : ∀ idx, idx < N →
      inc g (openPairs (cert.path e.a)) idx * u idx + edgeUnit e idx * u idx
        - inc g (openPairs (cert.path e.b)) idx * u idx
      = lsum ((coef.zip loops).map (fun cl => cl.1 * (inc g (loopPairs cl.2) idx * u idx))) := by
    intro idx hidx
    have := hspec idx hidx
    simp only [loopComb] at this
    have h2 : lsum ((coef.zip loops).map (fun cl => cl.1 * (inc g (loopPairs cl.2) idx * u idx)))
        = lsum ((coef.zip loops).map (fun cl => cl.1 * inc g (loopPairs cl.2) idx)) * u idx := by
      rw [lsum_map_mul_right]
      apply lsum_map_congr
      intro x _; ring
    rw [h2, ← this]; ring
  rw [sumTo_congr N _ _ h1, sumTo_lsum]
  apply lsum_map_zero
  intro cl hcl
  rw [sumTo_mul_left]
  have := hloops cl.2 (List.of_mem_zip hcl).2
  simp only [walkRise] at this
  rw [this, mul_zero]

theorem edgeUnit_sum (e : Edge K) (N : Nat) (u : Nat → K) (i : Nat) (c : Cpt K) (hc : e.cpt = some (i, c)) (hi : i < N) :
    sumTo N (fun idx => edgeUnit e idx * u idx) = u i := by
  simp only [edgeUnit, hc]
  rw [sumTo_ite_mul N i 1 u hi, one_mul]

theorem edgeUnit_sum_wire (e : Edge K) (N : Nat) (u : Nat → K) (hc : e.cpt = none) :
    sumTo N (fun idx => edgeUnit e idx * u idx) = 0 := by
  simp only [edgeUnit, hc, zero_mul]
  exact sumTo_zero N


/-! ### KCL by telescoping: loop currents leave every node as they enter it -/

/-- indicator of circuit node `k` (a dummy is wired to the node it stands for) -/
def nodeInd (k : Nat) : GNode → K
  | .real n => if n = k then 1 else 0
  | .dummy _ n => if n = k then 1 else 0

/-- indicator(second node) − indicator(first node) of component number `idx` -/
def cptW (cs : List (Cpt K)) (k idx : Nat) : K :=
  match cs[idx]? with
  | some c =>
    match nodes2 c with
    | some (n0, n1) => (if n1 = k then 1 else 0) - (if n0 = k then 1 else 0)
    | none => 0
  | none => 0

theorem pair_w (kind : Kind) (s : K) (cs : List (Cpt K)) (hdef : ∀ c ∈ cs, MeshOk kind s c) (k : Nat)
    (pq : GNode × GNode) (hadj : hasEdge (buildGraph cs) pq.1 pq.2 = true) :
    sumTo cs.length (fun i => pairSgn (buildGraph cs) pq i * cptW cs k i) = nodeInd k pq.2 - nodeInd k pq.1 := by
  rw [pairSgn_sum _ _ _ _ (fun i c h => (component_lt cs _ _ i c h).2)]
  obtain ⟨p, q⟩ := pq
  simp only at hadj ⊢
  obtain ⟨e, hfind, hmem, hj⟩ := find_joins (buildGraph cs) p q hadj
  have hcomp : component (buildGraph cs) p q = e.cpt := by simp [component, hfind]
  have heok := buildGraph_ok2 cs e hmem
  rw [joins_iff] at hj
  rw [hcomp]
  cases hc : e.cpt with
  | none =>
    simp only [EdgeOK2, hc] at heok
    obtain ⟨d, n, ha, hb⟩ := heok
    rcases hj with ⟨h1, h2⟩ | ⟨h1, h2⟩ <;>
      (rw [← h1, ← h2, ha, hb]; simp [nodeInd])
  | some ic =>
    obtain ⟨idx, c⟩ := ic
    simp only [EdgeOK2, hc] at heok
    obtain ⟨hcs, n0, n1, hn, hea, heb⟩ := heok
    obtain ⟨_, n0', n1', hn', hne⟩ := meshOk_nodes kind s c (hdef c (List.mem_of_getElem? hcs))
    rw [hn] at hn'
    simp only [Option.some.injEq, Prod.mk.injEq] at hn'
    obtain ⟨rfl, rfl⟩ := hn'
    have hw : cptW cs k idx = (if n1 = k then 1 else 0) - (if n0 = k then 1 else 0) := by
      simp [cptW, hcs, hn]
    have hbn : nodeInd (K := K) k e.b = if n1 = k then 1 else 0 := by
      rcases heb with h | ⟨d, h⟩ <;> simp [h, nodeInd]
    have hbne : e.b ≠ GNode.real n0 := by
      rcases heb with h | ⟨d, h⟩
      · rw [h]; simp; exact fun h' => hne h'.symm
      · rw [h]; simp
    simp only [hn, hw]
    rcases hj with ⟨h1, h2⟩ | ⟨h1, h2⟩
    · rw [← h1, ← h2, hbn, hea]
      simp [nodeInd]
    · rw [← h1, ← h2, hbn, if_neg hbne, hea]
      simp [nodeInd]

/-- around a simple cycle of the graph the node indicator rises sum to zero -/
theorem loop_w (kind : Kind) (s : K) (cs : List (Cpt K)) (hdef : ∀ c ∈ cs, MeshOk kind s c) (k : Nat)
    (loop : List GNode) (hcyc : isSimpleCycle (buildGraph cs) loop = true) :
    walkRise cs.length (buildGraph cs) (cptW cs k) (loopPairs loop) = 0 := by
  rw [walkRise_eq]
  rw [lsum_map_congr _ _ (fun pq => nodeInd k pq.2 - nodeInd k pq.1)
    (fun pq hpq => pair_w kind s cs hdef k pq (adjacent_of_cycle _ loop hcyc pq hpq))]
  cases loop with
  | nil => simp [loopPairs, lsum]
  | cons a t =>
    simp only [loopPairs]
    rw [pairsFrom_telescope (nodeInd k) a a t, sub_self]

/-- **KCL by telescoping**: the branch currents that mesh currents on simple cycles induce, weighted with the
    node indicator differences, sum to zero -- every loop current that enters node `k` leaves it -/
theorem kcl_telescope (kind : Kind) (s : K) (cs : List (Cpt K)) (hdef : ∀ c ∈ cs, MeshOk kind s c)
    (loops : List (List GNode)) (hcyc : ∀ loop ∈ loops, isSimpleCycle (buildGraph cs) loop = true)
    (im : Nat → K) (k : Nat) :
    sumTo cs.length (fun idx => branchJ (buildGraph cs) loops im idx * cptW cs k idx) = 0 := by
  simp only [branchJ]
  have h1 : ∀ idx, idx < cs.length →
      lsum (((List.range loops.length).zip loops).map (fun ml => inc (buildGraph cs) (loopPairs ml.2) idx * im ml.1))
        * cptW cs k idx
      = lsum (((List.range loops.length).zip loops).map
          (fun ml => im ml.1 * (inc (buildGraph cs) (loopPairs ml.2) idx * cptW cs k idx))) := by
    intro idx _
    rw [lsum_map_mul_right]
    apply lsum_map_congr
    intro x _; ring
  rw [sumTo_congr _ _ _ h1, sumTo_lsum]
  apply lsum_map_zero
  intro ml hml
  rw [sumTo_mul_left]
  have := loop_w kind s cs hdef k ml.2 (hcyc ml.2 (List.of_mem_zip hml).2)
  simp only [walkRise] at this
  rw [this, mul_zero]


/-! ### the component relation in impedance form gives the spec's laws -/

/-- a component whose voltage is `z·J + v0` (`voltage_equation`) and whose branch current, if it has one, is `J`:
    its current out of node `k` is that of a two-terminal element carrying `J`, its defining relation holds,
    and `J` is its current by the spec -/
theorem cpt_laws (kind : Kind) (s : K) (x : Ix → K) (c : Cpt K) (J : K) (n0 n1 : Nat) (z v0 : K)
    (hok : MeshOk kind s c) (hn : nodes2 c = some (n0, n1)) (hvol : volEq kind s c = some (z, v0))
    (hvd : vd x n0 n1 = z * J + v0) (hbr : ∀ m ∈ owned c, x (br m) = J) :
    (∀ k, outflow kind s x k c = twoTerm n0 n1 k J) ∧ (∀ p ∈ laws kind s x c, p.2 = 0) ∧
      (isV c = false → through kind s x c = J) := by
  cases c with
  | R a b r =>
    simp [nodes2] at hn; obtain ⟨rfl, rfl⟩ := hn
    simp [volEq] at hvol; obtain ⟨rfl, rfl⟩ := hvol
    have hr := hok.2
    have : vd x a b / r = J := by rw [hvd]; field_simp; ring
    exact ⟨fun k => by simp [outflow, this], by simp [laws], fun _ => by simp [through, this]⟩
  | Y a b y =>
    simp [nodes2] at hn; obtain ⟨rfl, rfl⟩ := hn
    simp [volEq] at hvol; obtain ⟨rfl, rfl⟩ := hvol
    have hy := hok.2
    have : y * vd x a b = J := by rw [hvd]; field_simp; ring
    exact ⟨fun k => by simp [outflow, this], by simp [laws], fun _ => by simp [through, this]⟩
  | Cap a b cc iv =>
    simp [nodes2] at hn; obtain ⟨rfl, rfl⟩ := hn
    obtain ⟨_, hsc, hk⟩ := hok
    have hs : s ≠ 0 := left_ne_zero_of_mul hsc
    have hcc : cc ≠ 0 := right_ne_zero_of_mul hsc
    have : capCurrent kind s cc iv (vd x a b) = J := by
      rcases hk with rfl | rfl
      · simp [volEq] at hvol; obtain ⟨rfl, rfl⟩ := hvol
        rw [hvd]; simp [capCurrent]; field_simp
      · cases iv with
        | none =>
          simp [volEq] at hvol; obtain ⟨rfl, rfl⟩ := hvol
          rw [hvd]; simp [capCurrent]; field_simp
        | some iv =>
          simp [volEq] at hvol; obtain ⟨rfl, rfl⟩ := hvol
          rw [hvd]; simp [capCurrent]; field_simp; ring
    exact ⟨fun k => by simp [outflow, this], by simp [laws], fun _ => by simp [through, this]⟩
  | Ind a b m l i0 coup =>
    simp [nodes2] at hn; obtain ⟨rfl, rfl⟩ := hn
    obtain ⟨_, rfl, hk⟩ := hok
    have hJ : x (br m) = J := hbr m (by simp [owned])
    refine ⟨fun k => by simp [outflow, hJ], ?_, fun _ => by simp [through, hJ]⟩
    intro p hp
    cases kind with
    | time => exact absurd rfl hk
    | dc =>
      simp [volEq] at hvol; obtain ⟨rfl, rfl⟩ := hvol
      simp [laws] at hp; subst hp
      simp only; rw [hvd]; ring
    | lap =>
      simp [volEq] at hvol; obtain ⟨rfl, rfl⟩ := hvol
      simp [laws] at hp; subst hp
      simp only [mutualDrop, List.map_nil, lsum]; rw [hvd, hJ]; ring
    | ivp =>
      cases i0 with
      | none =>
        simp [volEq] at hvol; obtain ⟨rfl, rfl⟩ := hvol
        simp [laws] at hp; subst hp
        simp only [mutualDrop, mutualIC, List.map_nil, lsum]; rw [hvd, hJ]; ring
      | some i0 =>
        simp [volEq] at hvol; obtain ⟨rfl, rfl⟩ := hvol
        simp [laws] at hp; subst hp
        simp only [mutualDrop, mutualIC, List.map_nil, lsum]; rw [hvd, hJ]; ring
  | V a b m v =>
    simp [nodes2] at hn; obtain ⟨rfl, rfl⟩ := hn
    simp [volEq] at hvol; obtain ⟨rfl, rfl⟩ := hvol
    have hJ : x (br m) = J := hbr m (by simp [owned])
    refine ⟨fun k => by simp [outflow, hJ], ?_, fun h => by simp [isV] at h⟩
    intro p hp
    simp [laws] at hp; subst hp
    simp only; rw [hvd]; ring
  | _ => simp [MeshOk] at hok

/-- with no branch current claimed twice, the owner of branch `m` is the component that lists it -/
theorem ownerIdx_eq (cs : List (Cpt K)) (hwf : (cs.flatMap owned).Nodup) (idx : Nat) (c : Cpt K)
    (hc : cs[idx]? = some c) (m : Nat) (hm : m ∈ owned c) : ownerIdx cs m = some idx := by
  induction cs generalizing idx with
  | nil => simp at hc
  | cons a t ih =>
    simp only [List.flatMap_cons, List.nodup_append] at hwf
    obtain ⟨_, hnt, hdisj⟩ := hwf
    simp only [ownerIdx, List.findIdx?_cons]
    cases idx with
    | zero =>
      simp only [List.getElem?_cons_zero, Option.some.injEq] at hc
      subst hc
      simp [hm]
    | succ j =>
      simp only [List.getElem?_cons_succ] at hc
      have hmt : m ∈ t.flatMap owned := List.mem_flatMap.mpr ⟨c, List.mem_of_getElem? hc, hm⟩
      have hna : (owned a).contains m = false := by
        by_contra h
        simp only [Bool.not_eq_false, List.contains_iff_mem] at h
        exact hdisj m h m hmt rfl
      simp only [hna, Bool.false_eq_true, if_false]
      have := ih hnt j hc
      simp only [ownerIdx] at this
      rw [this]; rfl


/-! ### the solution determined by the mesh currents -/

/-- mesh currents that satisfy every mesh equation: the edge rises −(z·J + v0) sum to zero around every loop -/
theorem loops_vanish (kind : Kind) (s : K) (cs : List (Cpt K)) (loops : List (List GNode)) (im : Nat → K)
    (hdef : ∀ c ∈ cs, MeshOk kind s c)
    (hcyc : ∀ loop ∈ loops, isSimpleCycle (buildGraph cs) loop = true)
    (heqs : ∀ loop ∈ loops, ∀ f, meshEq true kind s (buildGraph cs) loops loop = some f → f.eval im = 0) :
    ∀ loop ∈ loops, walkRise cs.length (buildGraph cs) (edgeRise kind s cs (buildGraph cs) loops im)
      (loopPairs loop) = 0 := by
  intro loop hl
  obtain ⟨f, hf⟩ := Option.isSome_iff_exists.mp (meshEq_isSome kind s cs loops hdef loop)
  rw [← meshEq_rise kind s cs loops im hdef hcyc loop f hf]
  exact heqs loop hl f hf

theorem volt_meshSolution (kind : Kind) (s : K) (cs : List (Cpt K)) (loops : List (List GNode)) (im : Nat → K)
    (cert : BasisCert K) (k : Nat) :
    volt (meshSolution kind s cs loops im cert) k =
      potential kind s cs loops im cert (.real k) - potential kind s cs loops im cert (.real 0) := by
  cases k with
  | zero => simp [volt]
  | succ k => simp [volt, meshSolution]

/-- the voltage across every component, in the solution the mesh currents determine, is `z·J + v0` -/
theorem meshSolution_vd [DecidableEq K] (kind : Kind) (s : K) (cs : List (Cpt K)) (loops : List (List GNode))
    (im : Nat → K) (cert : BasisCert K) (hdef : ∀ c ∈ cs, MeshOk kind s c)
    (hbasis : checkBasis cs loops cert = true)
    (hloops : ∀ loop ∈ loops, walkRise cs.length (buildGraph cs) (edgeRise kind s cs (buildGraph cs) loops im)
      (loopPairs loop) = 0)
    (idx : Nat) (c : Cpt K) (hc : cs[idx]? = some c) :
    ∃ n0 n1 z v0, nodes2 c = some (n0, n1) ∧ volEq kind s c = some (z, v0) ∧
      vd (meshSolution kind s cs loops im cert) n0 n1 = z * branchJ (buildGraph cs) loops im idx + v0 := by
  have hmok := hdef c (List.mem_of_getElem? hc)
  obtain ⟨_, n0, n1, hn, _⟩ := meshOk_nodes kind s c hmok
  obtain ⟨z, v0, hvol, _⟩ := meshOk_volEq kind s c hmok
  refine ⟨n0, n1, z, v0, hn, hvol, ?_⟩
  have hlt : idx < cs.length := (List.getElem?_eq_some_iff.mp hc).1
  have hu : edgeRise kind s cs (buildGraph cs) loops im idx = -(z * branchJ (buildGraph cs) loops im idx + v0) := by
    simp [edgeRise, hc, hvol]
  have hkvl := kvl_complete (buildGraph cs) cs.length loops cert (edgeRise kind s cs (buildGraph cs) loops im)
    hbasis hloops
  obtain ⟨e, he, hecpt, hea, heb⟩ := buildGraph_has cs idx c n0 n1 hc hn
  have h1 := hkvl e he
  rw [edgeUnit_sum e _ _ idx c hecpt hlt, hu, hea] at h1
  simp only [vd, volt_meshSolution, potential]
  rcases heb with heb | ⟨w, hw, hwc, hwa, hwb⟩
  · rw [heb] at h1
    linear_combination h1
  · have h2 := hkvl w hw
    rw [edgeUnit_sum_wire w _ _ hwc, hwa, hwb] at h2
    linear_combination h1 + h2

/-- **the mesh solution obeys the circuit laws, component by component** -/
theorem meshSolution_cpt [DecidableEq K] (kind : Kind) (s : K) (cs : List (Cpt K)) (loops : List (List GNode))
    (im : Nat → K) (cert : BasisCert K) (hdef : ∀ c ∈ cs, MeshOk kind s c)
    (hwf : (cs.flatMap owned).Nodup)
    (hbasis : checkBasis cs loops cert = true)
    (hloops : ∀ loop ∈ loops, walkRise cs.length (buildGraph cs) (edgeRise kind s cs (buildGraph cs) loops im)
      (loopPairs loop) = 0)
    (idx : Nat) (c : Cpt K) (hc : cs[idx]? = some c) :
    (∀ k, outflow kind s (meshSolution kind s cs loops im cert) k c =
        -(branchJ (buildGraph cs) loops im idx * cptW cs k idx)) ∧
    (∀ p ∈ laws kind s (meshSolution kind s cs loops im cert) c, p.2 = 0) ∧
    (isV c = false → through kind s (meshSolution kind s cs loops im cert) c = branchJ (buildGraph cs) loops im idx) := by
  obtain ⟨n0, n1, z, v0, hn, hvol, hvd⟩ := meshSolution_vd kind s cs loops im cert hdef hbasis hloops idx c hc
  have hbr : ∀ m ∈ owned c, meshSolution kind s cs loops im cert (br m) = branchJ (buildGraph cs) loops im idx := by
    intro m hm
    simp [meshSolution, ownerIdx_eq cs hwf idx c hc m hm]
  obtain ⟨h1, h2, h3⟩ := cpt_laws kind s _ c _ n0 n1 z v0 (hdef c (List.mem_of_getElem? hc)) hn hvol hvd hbr
  refine ⟨fun k => ?_, h2, h3⟩
  rw [h1 k]
  simp only [twoTerm, cptW, hc, hn]
  split_ifs <;> ring

/-- **KCL** for the mesh solution at every node -/
theorem meshSolution_kcl [DecidableEq K] (kind : Kind) (s : K) (cs : List (Cpt K)) (loops : List (List GNode))
    (im : Nat → K) (cert : BasisCert K) (hdef : ∀ c ∈ cs, MeshOk kind s c)
    (hwf : (cs.flatMap owned).Nodup)
    (hcyc : ∀ loop ∈ loops, isSimpleCycle (buildGraph cs) loop = true)
    (hbasis : checkBasis cs loops cert = true)
    (hloops : ∀ loop ∈ loops, walkRise cs.length (buildGraph cs) (edgeRise kind s cs (buildGraph cs) loops im)
      (loopPairs loop) = 0) (k : Nat) :
    lsum (cs.map (outflow kind s (meshSolution kind s cs loops im cert) k)) = 0 := by
  rw [lsum_map_eq_sumTo]
  have h1 : ∀ i, i < cs.length →
      ((cs[i]?).map (outflow kind s (meshSolution kind s cs loops im cert) k)).getD 0 = -(branchJ (buildGraph cs) loops im i * cptW cs k i) := by
    intro i hi
    have hc : cs[i]? = some cs[i] := List.getElem?_eq_getElem hi
    rw [hc]
    simp only [Option.map_some, Option.getD_some]
    exact (meshSolution_cpt kind s cs loops im cert hdef hwf hbasis hloops i _ hc).1 k
  rw [sumTo_congr _ _ _ h1]
  have := kcl_telescope kind s cs hdef loops hcyc im k
  have h2 : sumTo cs.length (fun i => -(branchJ (buildGraph cs) loops im i * cptW cs k i))
      = (-1) * sumTo cs.length (fun i => branchJ (buildGraph cs) loops im i * cptW cs k i) := by
    rw [← sumTo_mul_left]; apply sumTo_congr; intro i _; ring
  rw [h2, this, mul_zero]


/-! ### concrete circuits for the non-vacuity examples of Props/C15Mesh.lean -/

/-- certificate for `exCkt` (V1 1 0 6; R1 1 2 3; R2 2 0 5) with the loop 0-1-2: walks 0, 0-1, 0-1-2; the edges of
    V1 and R1 lie on the walks (coefficient 0), R2 closes the loop (coefficient 1) -/
def exCert : BasisCert ℚ :=
  ⟨[(.real 0, [.real 0]), (.real 1, [.real 0, .real 1]), (.real 2, [.real 0, .real 1, .real 2])], [[0], [0], [1]]⟩

theorem exCert_ok : checkBasis exCkt [exLoop] exCert = true := by decide +kernel

theorem exMeshEq : ∀ loop ∈ [exLoop], ∀ f, meshEq true .dc (0 : ℚ) (buildGraph exCkt) [exLoop] loop = some f →
    f.eval (fun _ => 3/4) = 0 := by
  intro loop hl f hf
  simp only [List.mem_singleton] at hl
  subst hl
  have : (meshEq true .dc (0 : ℚ) (buildGraph exCkt) [exLoop] exLoop).map (MeshForm.eval (fun _ => 3/4)) = some 0 := by
    decide +kernel
  rw [hf] at this
  simpa using this

/-- a circuit with a parallel component (dummy node `*0` in front of R3, wired to node 0):
    V1 1 0 6; R1 1 2 3; R2 2 0 5; R3 2 0 7; meshes 0-1-2 and 0-2-*0 with currents 72/71 and 30/71 -/
def parCkt : List (Cpt ℚ) := [.V 1 0 0 6, .R 1 2 3, .R 2 0 5, .R 2 0 7]
def parLoops : List (List GNode) := [[.real 0, .real 1, .real 2], [.real 0, .real 2, .dummy 0 0]]
def parCert : BasisCert ℚ :=
  ⟨[(.real 0, [.real 0]), (.real 1, [.real 0, .real 1]), (.real 2, [.real 0, .real 1, .real 2]),
    (.dummy 0 0, [.real 0, .real 1, .real 2, .dummy 0 0])],
   [[0, 0], [0, 0], [1, 0], [0, 0], [1, 1]]⟩
def parIm : Nat → ℚ := fun m => if m = 0 then 72/71 else 30/71

theorem parLoops_cycles : ∀ loop ∈ parLoops, isSimpleCycle (buildGraph parCkt) loop = true := by decide
theorem parCert_ok : checkBasis parCkt parLoops parCert = true := by decide +kernel
theorem parMeshEq : ∀ loop ∈ parLoops, ∀ f, meshEq true .dc (0 : ℚ) (buildGraph parCkt) parLoops loop = some f →
    f.eval parIm = 0 := by
  have h : ∀ loop ∈ parLoops,
      (meshEq true .dc (0 : ℚ) (buildGraph parCkt) parLoops loop).map (MeshForm.eval parIm) = some 0 := by
    decide +kernel
  intro loop hl f hf
  have := h loop hl
  rw [hf] at this
  simpa using this

end Lcapy.Formulations
