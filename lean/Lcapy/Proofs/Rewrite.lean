/-
  Helper lemmas for C05: Thevenin / Norton forms of the two-terminal element classes, chains and
  groups by induction, semantics of `TT.toCpt` in terms of `outflow` / `laws`.
-/
import Lcapy.Model.Rewrite
import Lcapy.Spec.PortRel
import Lcapy.Proofs.MNA
import Mathlib.Tactic.Ring
import Mathlib.Tactic.FieldSimp
import Mathlib.Tactic.LinearCombination
import Mathlib.Algebra.Field.Basic
namespace Lcapy.MNA
variable {K : Type} [Field K]

/-! ### sums -/

theorem sumVals_eq_sumK (l : List K) : Rewrite.sumVals l = sumK l := by
  induction l with
  | nil => rfl
  | cons h t ih => simp [Rewrite.sumVals, sumK, ih]

theorem sumK_append (a b : List K) : sumK (a ++ b) = sumK a + sumK b := by
  induction a with
  | nil => simp [sumK]
  | cons h t ih => simp [sumK, ih, add_assoc]

theorem sumK_perm {a b : List K} (h : a.Perm b) : sumK a = sumK b := by
  induction h with
  | nil => rfl
  | cons x _ ih => simp [sumK, ih]
  | swap x y l => simp [sumK]; ring
  | trans _ _ ih1 ih2 => rw [ih1, ih2]

theorem sumK_map_zero {α : Type} (l : List α) : sumK (l.map (fun _ => (0 : K))) = 0 := by
  induction l with
  | nil => rfl
  | cons h t ih => simp only [List.map_cons, sumK, ih, add_zero]

theorem sumK_map_mul (c : K) (l : List K) : sumK (l.map (fun x => c * x)) = c * sumK l := by
  induction l with
  | nil => simp [sumK]
  | cons h t ih => simp [sumK, ih]; ring

theorem sumK_map_mul_right (c : K) (l : List K) : sumK (l.map (fun x => x * c)) = sumK l * c := by
  induction l with
  | nil => simp [sumK]
  | cons h t ih => simp [sumK, ih]; ring

/-! ### Thevenin and Norton forms -/

/-- `e` behaves as `v = z·i + e0` -/
def Thev (kind : Kind) (s : K) (e : TT K) (z e0 : K) : Prop := ∀ v i, TT.rel kind s e v i ↔ v = z * i + e0

/-- `e` behaves as `i = y·v + j0` -/
def Nort (kind : Kind) (s : K) (e : TT K) (y j0 : K) : Prop := ∀ v i, TT.rel kind s e v i ↔ i = y * v + j0

theorem chain_thev (kind : Kind) (s : K) (l : List (TT K × K × K))
    (h : ∀ p ∈ l, Thev kind s p.1 p.2.1 p.2.2) (v i : K) :
    chainRel kind s (l.map (·.1)) v i ↔ v = sumK (l.map (·.2.1)) * i + sumK (l.map (·.2.2)) := by
  induction l generalizing v with
  | nil => simp [chainRel, sumK]
  | cons p t ih =>
    have hp := h p List.mem_cons_self
    have ht := ih (fun q hq => h q (List.mem_cons_of_mem _ hq))
    simp only [List.map_cons, chainRel, sumK]
    constructor
    · rintro ⟨v1, v', rfl, h1, h2⟩
      rw [hp v1 i] at h1
      rw [ht v'] at h2
      rw [h1, h2]; ring
    · intro hv
      refine ⟨p.2.1 * i + p.2.2, sumK (t.map (·.2.1)) * i + sumK (t.map (·.2.2)), ?_, (hp _ _).mpr rfl, (ht _).mpr rfl⟩
      rw [hv]; ring

theorem group_nort (kind : Kind) (s : K) (l : List (TT K × K × K))
    (h : ∀ p ∈ l, Nort kind s p.1 p.2.1 p.2.2) (v i : K) :
    groupRel kind s (l.map (·.1)) v i ↔ i = sumK (l.map (·.2.1)) * v + sumK (l.map (·.2.2)) := by
  induction l generalizing i with
  | nil => simp [groupRel, sumK]
  | cons p t ih =>
    have hp := h p List.mem_cons_self
    have ht := ih (fun q hq => h q (List.mem_cons_of_mem _ hq))
    simp only [List.map_cons, groupRel, sumK]
    constructor
    · rintro ⟨i1, i', rfl, h1, h2⟩
      rw [hp v i1] at h1
      rw [ht i'] at h2
      rw [h1, h2]; ring
    · intro hv
      refine ⟨p.2.1 * v + p.2.2, sumK (t.map (·.2.1)) * v + sumK (t.map (·.2.2)), ?_, (hp _ _).mpr rfl, (ht _).mpr rfl⟩
      rw [hv]; ring

theorem capCurrent_ivp (s c : K) (v0 : Option K) (v : K) :
    capCurrent .ivp s c v0 v = s * c * v - c * icv v0 := by
  cases v0 <;> simp [capCurrent, icv]

theorem thev_R (kind : Kind) (s r : K) (hr : r ≠ 0) : Thev kind s (.R r) r 0 := by
  intro v i; simp only [TT.rel]
  constructor
  · intro h; rw [h]; field_simp; ring
  · intro h; rw [h]; field_simp; ring

theorem thev_Z (kind : Kind) (s z : K) (hz : z ≠ 0) : Thev kind s (.Z z) z 0 := by
  intro v i; simp only [TT.rel]
  constructor
  · intro h; rw [h]; field_simp; ring
  · intro h; rw [h]; field_simp; ring

theorem thev_Y (kind : Kind) (s y : K) (hy : y ≠ 0) : Thev kind s (.Y y) (1 / y) 0 := by
  intro v i; simp only [TT.rel]
  constructor
  · intro h; rw [h]; field_simp; ring
  · intro h; rw [h]; field_simp; ring

theorem thev_V (kind : Kind) (s e : K) : Thev kind s (.V e) 0 e := by
  intro v i; simp [TT.rel]

/-- impedance and source term of an inductor in each analysis kind -/
def indThev (kind : Kind) (s l : K) (i0 : Option K) : K × K :=
  match kind with
  | .dc => (0, 0)
  | .time => (0, 0)
  | .lap => (s * l, 0)
  | .ivp => (s * l, -(l * icv i0))

theorem thev_L (kind : Kind) (s l : K) (i0 : Option K) :
    Thev kind s (.L l i0) (indThev kind s l i0).1 (indThev kind s l i0).2 := by
  intro v i
  cases kind <;> simp [TT.rel, indThev] <;> constructor <;> intro h <;> rw [h] <;> ring

theorem thev_C_lap (s c : K) (v0 : Option K) (hs : s ≠ 0) (hc : c ≠ 0) :
    Thev .lap s (.C c v0) (1 / (s * c)) 0 := by
  intro v i; simp only [TT.rel, capCurrent]
  constructor
  · intro h; rw [h]; field_simp; ring
  · intro h; rw [h]; field_simp; ring

theorem thev_C_ivp (s c : K) (v0 : Option K) (hs : s ≠ 0) (hc : c ≠ 0) :
    Thev .ivp s (.C c v0) (1 / (s * c)) (icv v0 / s) := by
  intro v i; simp only [TT.rel, capCurrent_ivp]
  constructor
  · intro h; rw [h]; field_simp; ring
  · intro h; rw [h]; field_simp; ring

theorem nort_R (kind : Kind) (s r : K) : Nort kind s (.R r) (1 / r) 0 := by
  intro v i; simp only [TT.rel]
  constructor <;> intro h <;> rw [h] <;> ring

theorem nort_Z (kind : Kind) (s z : K) : Nort kind s (.Z z) (1 / z) 0 := by
  intro v i; simp only [TT.rel]
  constructor <;> intro h <;> rw [h] <;> ring

theorem nort_Y (kind : Kind) (s y : K) : Nort kind s (.Y y) y 0 := by
  intro v i; simp only [TT.rel]
  constructor <;> intro h <;> rw [h] <;> ring

theorem nort_I (kind : Kind) (s j : K) : Nort kind s (.I j) 0 (-j) := by
  intro v i; simp [TT.rel]

/-- admittance and source term of a capacitor in each analysis kind -/
def capNort (kind : Kind) (s c : K) (v0 : Option K) : K × K :=
  match kind with
  | .dc => (0, 0)
  | .time => (0, 0)
  | .lap => (s * c, 0)
  | .ivp => (s * c, -(c * icv v0))

theorem nort_C (kind : Kind) (s c : K) (v0 : Option K) :
    Nort kind s (.C c v0) (capNort kind s c v0).1 (capNort kind s c v0).2 := by
  intro v i
  cases kind
  · simp [TT.rel, capCurrent, capNort]
  · simp only [TT.rel, capCurrent, capNort]; constructor <;> intro h <;> rw [h] <;> ring
  · simp only [TT.rel, capCurrent_ivp, capNort]; constructor <;> intro h <;> rw [h] <;> ring
  · simp [TT.rel, capCurrent, capNort]

theorem nort_L_lap (s l : K) (i0 : Option K) (hs : s ≠ 0) (hl : l ≠ 0) :
    Nort .lap s (.L l i0) (1 / (s * l)) 0 := by
  intro v i; simp only [TT.rel]
  constructor
  · intro h; rw [h]; field_simp; ring
  · intro h; rw [h]; field_simp; ring

theorem nort_L_ivp (s l : K) (i0 : Option K) (hs : s ≠ 0) (hl : l ≠ 0) :
    Nort .ivp s (.L l i0) (1 / (s * l)) (icv i0 / s) := by
  intro v i; simp only [TT.rel]
  constructor
  · intro h; rw [h]; field_simp; ring
  · intro h; rw [h]; field_simp; ring

/-! ### orientation -/

theorem icv_neg (o : Option K) : icv (o.map (fun x => -x)) = -icv o := by
  cases o <;> simp [icv]

theorem rel_flip (kind : Kind) (s : K) (e : TT K) (v i : K) :
    TT.rel kind s e.flip v i ↔ TT.rel kind s e (-v) (-i) := by
  cases e with
  | R r => simp only [TT.rel, TT.flip]; constructor <;> intro h <;> linear_combination (-1 : K) * h
  | Z z => simp only [TT.rel, TT.flip]; constructor <;> intro h <;> linear_combination (-1 : K) * h
  | Y y => simp only [TT.rel, TT.flip]; constructor <;> intro h <;> linear_combination (-1 : K) * h
  | V e => simp only [TT.rel, TT.flip]; constructor <;> intro h <;> linear_combination (-1 : K) * h
  | I j => simp only [TT.rel, TT.flip]; constructor <;> intro h <;> linear_combination (-1 : K) * h
  | C c v0 =>
    cases kind
    · simp only [TT.rel, TT.flip, capCurrent]; constructor <;> intro h <;> linear_combination (-1 : K) * h
    · simp only [TT.rel, TT.flip, capCurrent]; constructor <;> intro h <;> linear_combination (-1 : K) * h
    · simp only [TT.rel, TT.flip, capCurrent_ivp, icv_neg]; constructor <;> intro h <;> linear_combination (-1 : K) * h
    · simp only [TT.rel, TT.flip, capCurrent]; constructor <;> intro h <;> linear_combination (-1 : K) * h
  | L l i0 =>
    cases kind
    · simp only [TT.rel, TT.flip]; constructor <;> intro h <;> linear_combination (-1 : K) * h
    · simp only [TT.rel, TT.flip]; constructor <;> intro h <;> linear_combination (-1 : K) * h
    · simp only [TT.rel, TT.flip, icv_neg]; constructor <;> intro h <;> linear_combination (-1 : K) * h
    · simp only [TT.rel, TT.flip]; constructor <;> intro h <;> linear_combination (-1 : K) * h

/-! ### netlists: splitting `Laws` -/
open Ix

theorem kclAt_append (kind : Kind) (s : K) (a b : List (Cpt K)) (x : Ix → K) (k : Nat) :
    kclAt kind s (a ++ b) x k = kclAt kind s a x k + kclAt kind s b x k := by
  simp [kclAt, lsum_append]

theorem lawsOf_append (kind : Kind) (s : K) (a b : List (Cpt K)) (x : Ix → K) :
    lawsOf kind s (a ++ b) x ↔ lawsOf kind s a x ∧ lawsOf kind s b x := by
  simp only [lawsOf, List.mem_append]
  constructor
  · intro h; exact ⟨fun c hc => h c (Or.inl hc), fun c hc => h c (Or.inr hc)⟩
  · rintro ⟨h1, h2⟩ c (hc | hc)
    · exact h1 c hc
    · exact h2 c hc

theorem Laws_iff (kind : Kind) (s : K) (cs : List (Cpt K)) (x : Ix → K) :
    Laws kind s cs x ↔ (∀ k, k ≠ 0 → kclAt kind s cs x k = 0) ∧ lawsOf kind s cs x := Iff.rfl

theorem volt_congr {R : Ix → Prop} {x y : Ix → K} (h : ∀ i, R i → y i = x i) (n : Nat) (hn : R (node n)) :
    volt y n = volt x n := by
  cases n with
  | zero => rfl
  | succ k => exact h _ hn

theorem mutualDrop_congr (s : K) (x y : Ix → K) (coup : List (Nat × K × Option K))
    (h : ∀ p ∈ coup, y (br p.1) = x (br p.1)) : mutualDrop s y coup = mutualDrop s x coup := by
  induction coup with
  | nil => rfl
  | cons p t ih =>
    simp only [mutualDrop, List.map_cons, lsum] at *
    rw [h p List.mem_cons_self, ih (fun q hq => h q (List.mem_cons_of_mem _ hq))]

set_option linter.unusedSimpArgs false
set_option linter.unusedTactic false
set_option linter.unreachableTactic false
set_option linter.unnecessarySeqFocus false
set_option linter.unusedVariables false

/-- a component's current and laws only read the unknowns it mentions -/
theorem outflow_congr (kind : Kind) (s : K) {R : Ix → Prop} {x y : Ix → K} (h : ∀ i, R i → y i = x i)
    (c : Cpt K) (hc : ∀ i ∈ mentions c, R i) (k : Nat) : outflow kind s y k c = outflow kind s x k c := by
  have hv : ∀ n, node n ∈ mentions c → volt y n = volt x n := fun n hn => volt_congr h n (hc _ hn)
  have hb : ∀ m, br m ∈ mentions c → y (br m) = x (br m) := fun m hm => h _ (hc _ hm)
  cases c <;> simp [mentions] at hv hb <;> simp [outflow, vd, hv, hb]

theorem laws_congr (kind : Kind) (s : K) {R : Ix → Prop} {x y : Ix → K} (h : ∀ i, R i → y i = x i)
    (c : Cpt K) (hc : ∀ i ∈ mentions c, R i) : laws kind s y c = laws kind s x c := by
  have hv : ∀ n, node n ∈ mentions c → volt y n = volt x n := fun n hn => volt_congr h n (hc _ hn)
  have hb : ∀ m, br m ∈ mentions c → y (br m) = x (br m) := fun m hm => h _ (hc _ hm)
  cases c with
  | Ind n1 n2 m l i0 coup =>
    have hm : mutualDrop s y coup = mutualDrop s x coup :=
      mutualDrop_congr s x y coup (fun p hp => hb p.1 (by simp [mentions]; exact Or.inr ⟨p.2.1, p.2.2, hp⟩))
    simp [mentions] at hv hb
    cases kind <;> simp [laws, vd, hv, hb, hm]
  | _ => simp [mentions] at hv hb <;> simp [laws, vd, hv, hb]

/-- a component draws no current at a node it does not mention -/
theorem outflow_unmentioned (kind : Kind) (s : K) (x : Ix → K) (c : Cpt K) (k : Nat) (hk0 : k ≠ 0)
    (hk : node k ∉ mentions c) : outflow kind s x k c = 0 := by
  cases c <;> simp [mentions] at hk <;> simp [outflow, twoTerm] <;> (try split_ifs) <;> simp_all

/-! ### `Simulates` is a preorder and a congruence for placing a sub-netlist in a context -/

theorem kclAt_supported_zero (kind : Kind) (s : K) {R : Ix → Prop} (t : List (Cpt K)) (ht : SupportedIn R t)
    (x : Ix → K) (k : Nat) (hk0 : k ≠ 0) (hk : ¬ R (node k)) : kclAt kind s t x k = 0 := by
  induction t with
  | nil => rfl
  | cons c t ih =>
    have hc : outflow kind s x k c = 0 :=
      outflow_unmentioned kind s x c k hk0 (fun hm => hk (ht c List.mem_cons_self _ hm))
    have := ih (fun c' hc' => ht c' (List.mem_cons_of_mem _ hc'))
    simp only [kclAt, List.map_cons, lsum] at *
    rw [hc, this, add_zero]

theorem kclAt_supported_congr (kind : Kind) (s : K) {R : Ix → Prop} (t : List (Cpt K)) (ht : SupportedIn R t)
    {x y : Ix → K} (h : ∀ i, R i → y i = x i) (k : Nat) : kclAt kind s t y k = kclAt kind s t x k := by
  induction t with
  | nil => rfl
  | cons c t ih =>
    have hc := outflow_congr kind s h c (ht c List.mem_cons_self) k
    have := ih (fun c' hc' => ht c' (List.mem_cons_of_mem _ hc'))
    simp only [kclAt, List.map_cons, lsum] at *
    rw [hc, this]

theorem lawsOf_supported_congr (kind : Kind) (s : K) {R : Ix → Prop} (t : List (Cpt K)) (ht : SupportedIn R t)
    {x y : Ix → K} (h : ∀ i, R i → y i = x i) : lawsOf kind s t y ↔ lawsOf kind s t x := by
  simp only [lawsOf]
  constructor
  · intro hl c hc p hp
    rw [← laws_congr kind s h c (ht c hc)] at hp
    exact hl c hc p hp
  · intro hl c hc p hp
    rw [laws_congr kind s h c (ht c hc)] at hp
    exact hl c hc p hp

theorem Simulates.refl (kind : Kind) (s : K) (R : Ix → Prop) (a : List (Cpt K)) : Simulates kind s R a a :=
  fun x hl hk => ⟨x, fun _ _ => rfl, hl, hk, fun _ _ _ => rfl⟩

theorem Simulates.trans {kind : Kind} {s : K} {R : Ix → Prop} {a b c : List (Cpt K)}
    (h1 : Simulates kind s R a b) (h2 : Simulates kind s R b c) : Simulates kind s R a c := by
  intro x hl hk
  obtain ⟨y, hy, hly, hky, hry⟩ := h1 x hl hk
  obtain ⟨z, hz, hlz, hkz, hrz⟩ := h2 y hly hky
  exact ⟨z, fun i hi => (hz i hi).trans (hy i hi), hlz, hkz, fun k hk0 hR => (hrz k hk0 hR).trans (hry k hk0 hR)⟩

/-- retaining less is easier -/
theorem Simulates.mono {kind : Kind} {s : K} {R R' : Ix → Prop} {a b : List (Cpt K)}
    (h : Simulates kind s R a b) (hsub : ∀ i, R' i → R i) : Simulates kind s R' a b := by
  intro x hl hk
  obtain ⟨y, hy, hly, hky, hry⟩ := h x hl (fun k hk0 hR => hk k hk0 (fun hR' => hR (hsub _ hR')))
  refine ⟨y, fun i hi => hy i (hsub _ hi), hly, ?_, fun k hk0 hR' => hry k hk0 (hsub _ hR')⟩
  intro k hk0 hR'
  by_cases hR : R (node k)
  · rw [hry k hk0 hR]; exact hk k hk0 hR'
  · exact hky k hk0 hR

/-- placing both sub-netlists next to the same components that only read retained unknowns -/
theorem Simulates.context {kind : Kind} {s : K} {R : Ix → Prop} {a b : List (Cpt K)}
    (h : Simulates kind s R a b) (l r : List (Cpt K)) (hl : SupportedIn R l) (hr : SupportedIn R r) :
    Simulates kind s R (l ++ a ++ r) (l ++ b ++ r) := by
  intro x hlaw hk
  simp only [lawsOf_append] at hlaw
  obtain ⟨⟨hll, hla⟩, hlr⟩ := hlaw
  have hka : ∀ k, k ≠ 0 → ¬ R (node k) → kclAt kind s a x k = 0 := by
    intro k hk0 hR
    have := hk k hk0 hR
    simp only [kclAt_append, kclAt_supported_zero kind s l hl x k hk0 hR,
      kclAt_supported_zero kind s r hr x k hk0 hR, zero_add, add_zero] at this
    exact this
  obtain ⟨y, hy, hlb, hkb, hrb⟩ := h x hla hka
  refine ⟨y, hy, ?_, ?_, ?_⟩
  · simp only [lawsOf_append]
    exact ⟨⟨(lawsOf_supported_congr kind s l hl hy).mpr hll, hlb⟩, (lawsOf_supported_congr kind s r hr hy).mpr hlr⟩
  · intro k hk0 hR
    simp only [kclAt_append, kclAt_supported_zero kind s l hl y k hk0 hR,
      kclAt_supported_zero kind s r hr y k hk0 hR, hkb k hk0 hR, zero_add, add_zero]
  · intro k hk0 hR
    simp only [kclAt_append, kclAt_supported_congr kind s l hl hy k, kclAt_supported_congr kind s r hr hy k,
      hrb k hk0 hR]

/-! ### semantics of `TT.toCpt` -/

theorem lawsOf_singleton (kind : Kind) (s : K) (c : Cpt K) (x : Ix → K) :
    lawsOf kind s [c] x ↔ ∀ p ∈ laws kind s x c, p.2 = 0 := by
  simp [lawsOf]

theorem lawsOf_cons (kind : Kind) (s : K) (c : Cpt K) (t : List (Cpt K)) (x : Ix → K) :
    lawsOf kind s (c :: t) x ↔ lawsOf kind s [c] x ∧ lawsOf kind s t x := by
  rw [show c :: t = [c] ++ t from rfl, lawsOf_append]

theorem kclAt_cons (kind : Kind) (s : K) (c : Cpt K) (t : List (Cpt K)) (x : Ix → K) (k : Nat) :
    kclAt kind s (c :: t) x k = outflow kind s x k c + kclAt kind s t x k := rfl

theorem kclAt_nil (kind : Kind) (s : K) (x : Ix → K) (k : Nat) : kclAt kind s ([] : List (Cpt K)) x k = 0 := rfl

theorem outflow_toCpt (kind : Kind) (s : K) (e : TT K) (a b m : Nat) (x : Ix → K) (k : Nat) :
    outflow kind s x k (e.toCpt a b m) = twoTerm a b k (e.cur kind s a b m x) := by
  cases e <;> simp [TT.toCpt, outflow, TT.cur]

theorem lawsOf_toCpt (kind : Kind) (s : K) (e : TT K) (a b m : Nat) (x : Ix → K) :
    lawsOf kind s [e.toCpt a b m] x ↔ TT.rel kind s e (vd x a b) (e.cur kind s a b m x) := by
  rw [lawsOf_singleton]
  cases e with
  | L l i0 =>
    cases kind <;> cases i0 <;>
      simp [TT.toCpt, laws, TT.rel, TT.cur, mutualDrop, mutualIC, lsum, icv, sub_eq_zero]
  | V e => simp [TT.toCpt, laws, TT.rel, TT.cur, sub_eq_zero]
  | _ => simp [TT.toCpt, laws, TT.rel, TT.cur]

/-- the current of the component is the one the relation prescribes, once the owned branch
    unknown (if any) carries it -/
theorem cur_of_rel (kind : Kind) (s : K) (e : TT K) (a b m : Nat) (y : Ix → K) (v i : K)
    (hv : vd y a b = v) (hb : y (br m) = i) (h : TT.rel kind s e v i) : e.cur kind s a b m y = i := by
  cases e <;> simp_all [TT.cur, TT.rel]

/-! ### assignments edited at a few unknowns -/

theorem volt_of_nodes_eq {x y : Ix → K} (n : Nat) (h : n ≠ 0 → y (node n) = x (node n)) : volt y n = volt x n := by
  cases n with
  | zero => rfl
  | succ k => exact h (Nat.succ_ne_zero k)

theorem volt_nonzero (x : Ix → K) (n : Nat) (h : n ≠ 0) : volt x n = x (node n) := by
  cases n with
  | zero => exact absurd rfl h
  | succ k => rfl

theorem twoTerm_series (a b c k : Nat) (i : K) (hk : k ≠ b) :
    twoTerm a b k i + twoTerm b c k i = twoTerm a c k i := by
  have : b ≠ k := fun h => hk h.symm
  simp only [twoTerm, this, if_false]; ring

theorem twoTerm_add (a b k : Nat) (i j : K) : twoTerm a b k i + twoTerm a b k j = twoTerm a b k (i + j) := by
  simp only [twoTerm]; split_ifs <;> ring

theorem twoTerm_swap (a b k : Nat) (i : K) : twoTerm a b k (-i) = twoTerm b a k i := by
  simp only [twoTerm]; split_ifs <;> ring

theorem vd_add (x : Ix → K) (a b c : Nat) : vd x a b + vd x b c = vd x a c := by simp [vd]

theorem vd_swap (x : Ix → K) (a b : Nat) : vd x a b = -vd x b a := by simp [vd]

theorem chainRel_pair (kind : Kind) (s : K) (e1 e2 : TT K) (v i : K) :
    chainRel kind s [e1, e2] v i ↔ ∃ v1 v2, v = v1 + v2 ∧ TT.rel kind s e1 v1 i ∧ TT.rel kind s e2 v2 i := by
  simp only [chainRel]
  constructor
  · rintro ⟨v1, v', rfl, h1, v2, v'', rfl, h2, rfl⟩
    exact ⟨v1, v2, by ring, h1, h2⟩
  · rintro ⟨v1, v2, rfl, h1, h2⟩
    exact ⟨v1, v2, rfl, h1, v2, 0, (add_zero _).symm, h2, rfl⟩

theorem groupRel_pair (kind : Kind) (s : K) (e1 e2 : TT K) (v i : K) :
    groupRel kind s [e1, e2] v i ↔ ∃ i1 i2, i = i1 + i2 ∧ TT.rel kind s e1 v i1 ∧ TT.rel kind s e2 v i2 := by
  simp only [groupRel]
  constructor
  · rintro ⟨i1, i', rfl, h1, i2, i'', rfl, h2, rfl⟩
    exact ⟨i1, i2, by ring, h1, h2⟩
  · rintro ⟨i1, i2, rfl, h1, h2⟩
    exact ⟨i1, i2, rfl, h1, i2, 0, (add_zero _).symm, h2, rfl⟩

theorem chain_of_thev {α : Type} (kind : Kind) (s : K) (f : α → TT K) (z e0 : α → K) (l : List α)
    (h : ∀ a ∈ l, Thev kind s (f a) (z a) (e0 a)) (v i : K) :
    chainRel kind s (l.map f) v i ↔ v = sumK (l.map z) * i + sumK (l.map e0) := by
  have := chain_thev kind s (l.map (fun a => (f a, z a, e0 a)))
    (by intro p hp; obtain ⟨a, ha, rfl⟩ := List.mem_map.mp hp; exact h a ha) v i
  simpa [List.map_map, Function.comp_def] using this

theorem group_of_nort {α : Type} (kind : Kind) (s : K) (f : α → TT K) (y j0 : α → K) (l : List α)
    (h : ∀ a ∈ l, Nort kind s (f a) (y a) (j0 a)) (v i : K) :
    groupRel kind s (l.map f) v i ↔ i = sumK (l.map y) * v + sumK (l.map j0) := by
  have := group_nort kind s (l.map (fun a => (f a, y a, j0 a)))
    (by intro p hp; obtain ⟨a, ha, rfl⟩ := List.mem_map.mp hp; exact h a ha) v i
  simpa [List.map_map, Function.comp_def] using this

/-- signed value of a polarised quantity: `true` = along the direction of traversal -/
def sgn (σ : Bool) (v : K) : K := if σ then v else -v

theorem sumK_map_neg (l : List K) : sumK (l.map (fun x => -x)) = -sumK l := by
  induction l with
  | nil => simp [sumK]
  | cons h t ih => simp [sumK, ih]; ring

theorem sumK_map_div (c : K) (l : List K) : sumK (l.map (fun x => x / c)) = sumK l / c := by
  induction l with
  | nil => simp [sumK]
  | cons h t ih => simp [sumK, ih]; ring

theorem sumK_map_map {α : Type} (f : α → K) (g : K → K) (l : List α) : (l.map f).map g = l.map (fun a => g (f a)) := by
  simp [List.map_map, Function.comp_def]

section sums
variable {α : Type}

theorem sumK_mul_left (c : K) (f : α → K) (l : List α) : sumK (l.map (fun a => c * f a)) = c * sumK (l.map f) := by
  induction l with
  | nil => simp [sumK]
  | cons h t ih => simp [sumK, ih]; ring

theorem sumK_neg (f : α → K) (l : List α) : sumK (l.map (fun a => -f a)) = -sumK (l.map f) := by
  induction l with
  | nil => simp [sumK]
  | cons h t ih => simp [sumK, ih]; ring

theorem sumK_div_right (c : K) (f : α → K) (l : List α) : sumK (l.map (fun a => f a / c)) = sumK (l.map f) / c := by
  induction l with
  | nil => simp [sumK]
  | cons h t ih => simp [sumK, ih]; ring

theorem sumK_mul_right (c : K) (f : α → K) (l : List α) : sumK (l.map (fun a => f a * c)) = sumK (l.map f) * c := by
  induction l with
  | nil => simp [sumK]
  | cons h t ih => simp [sumK, ih]; ring

theorem sumK_congr (f g : α → K) (l : List α) (h : ∀ a ∈ l, f a = g a) : sumK (l.map f) = sumK (l.map g) := by
  induction l with
  | nil => rfl
  | cons x t ih =>
    simp only [List.map_cons, sumK]
    rw [h x List.mem_cons_self, ih (fun a ha => h a (List.mem_cons_of_mem _ ha))]
end sums

/-- source term of a capacitor written in Thevenin form / of an inductor written in Norton form -/
def icTerm (kind : Kind) (s ic : K) : K :=
  match kind with
  | .ivp => ic / s
  | _ => 0

theorem thev_C (kind : Kind) (hk : kind = .lap ∨ kind = .ivp) (s c : K) (v0 : Option K) (hs : s ≠ 0) (hc : c ≠ 0) :
    Thev kind s (.C c v0) (1 / (s * c)) (icTerm kind s (icv v0)) := by
  rcases hk with rfl | rfl
  · exact thev_C_lap s c v0 hs hc
  · exact thev_C_ivp s c v0 hs hc

theorem nort_L (kind : Kind) (hk : kind = .lap ∨ kind = .ivp) (s l : K) (i0 : Option K) (hs : s ≠ 0) (hl : l ≠ 0) :
    Nort kind s (.L l i0) (1 / (s * l)) (icTerm kind s (icv i0)) := by
  rcases hk with rfl | rfl
  · exact nort_L_lap s l i0 hs hl
  · exact nort_L_ivp s l i0 hs hl

theorem icv_orient_L (σ : Bool) (l : K) (i0 : Option K) :
    (TT.L l i0).orient σ = TT.L l (if σ then i0 else i0.map (fun x => -x)) := by
  cases σ <;> simp [TT.orient, TT.flip]

theorem icv_orient_C (σ : Bool) (c : K) (v0 : Option K) :
    (TT.C c v0).orient σ = TT.C c (if σ then v0 else v0.map (fun x => -x)) := by
  cases σ <;> simp [TT.orient, TT.flip]

theorem icv_signed (σ : Bool) (o : Option K) : icv (if σ then o else o.map (fun x => -x)) = sgn σ (icv o) := by
  cases σ <;> simp [sgn, icv_neg]

end Lcapy.MNA
