import Lcapy.Spec.DT
import Mathlib.RingTheory.PowerSeries.Basic
import Mathlib.RingTheory.PowerSeries.Derivative
import Mathlib.RingTheory.PowerSeries.Inverse
import Mathlib.RingTheory.PowerSeries.NoZeroDivisors
import Mathlib.RingTheory.RootsOfUnity.PrimitiveRoots
import Mathlib.Algebra.Ring.GeomSum
import Mathlib.Tactic.Ring
import Mathlib.Tactic.FieldSimp
import Mathlib.Tactic.LinearCombination

namespace Lcapy.DT
open PowerSeries
variable {K : Type} [Field K]
set_option linter.unusedSimpArgs false

noncomputable def toPS (l : List K) : K⟦X⟧ := PowerSeries.mk (fun n => l.getD n 0)

@[simp] theorem toPS_nil : toPS ([] : List K) = 0 := by
  ext n; simp [toPS]

theorem toPS_cons (a : K) (l : List K) : toPS (a :: l) = C a + X * toPS l := by
  ext n
  cases n with
  | zero => simp [toPS]
  | succ n => simp [toPS, coeff_succ_X_mul]

@[simp] theorem natK_eq (n : ℕ) : (natK n : K) = (n : K) := by
  induction n with
  | zero => simp [natK]
  | succ n ih => simp [natK, ih]

@[simp] theorem powK_eq (a : K) (n : ℕ) : powK a n = a ^ n := by
  induction n with
  | zero => simp [powK]
  | succ n ih => simp [powK, ih, pow_succ]

@[simp] theorem intK_eq (i : ℤ) : (intK i : K) = (i : K) := by
  cases i with
  | ofNat n => simp [intK]
  | negSucc n => simp [intK, Int.negSucc_eq]

@[simp] theorem zpowK_eq (a : K) (i : ℤ) : zpowK a i = a ^ i := by
  cases i with
  | ofNat n => simp [zpowK]
  | negSucc n => simp [zpowK, zpow_negSucc]

theorem toPS_padd (p q : List K) : toPS (padd p q) = toPS p + toPS q := by
  induction p generalizing q with
  | nil => simp [padd]
  | cons a p ih =>
    cases q with
    | nil => simp [padd]
    | cons b q => simp only [padd, toPS_cons, ih, map_add]; ring

theorem toPS_pscale (c : K) (p : List K) : toPS (pscale c p) = C c * toPS p := by
  induction p with
  | nil => simp [pscale]
  | cons a p ih =>
    simp only [pscale, List.map_cons, toPS_cons, map_mul] at ih ⊢
    rw [ih]; ring

theorem toPS_pneg (p : List K) : toPS (pneg p) = - toPS p := by
  induction p with
  | nil => simp [pneg]
  | cons a p ih =>
    simp only [pneg, List.map_cons, toPS_cons, map_neg] at ih ⊢
    rw [ih]; ring

theorem toPS_psub (p q : List K) : toPS (psub p q) = toPS p - toPS q := by
  simp [psub, toPS_padd, toPS_pneg, sub_eq_add_neg]

theorem toPS_pmul (p q : List K) : toPS (pmul p q) = toPS p * toPS q := by
  induction p with
  | nil => simp [pmul]
  | cons a p ih =>
    simp only [pmul, toPS_padd, toPS_pscale, toPS_cons, ih, map_zero]; ring

theorem toPS_pshift (d : ℕ) (p : List K) : toPS (pshift d p) = X ^ d * toPS p := by
  induction d with
  | zero => simp [pshift]
  | succ d ih =>
    simp only [pshift, List.replicate_succ, List.cons_append, toPS_cons, map_zero] at ih ⊢
    rw [ih]; ring

theorem rescale_C' (a c : K) : rescale a (C c : K⟦X⟧) = C c := by
  ext n
  cases n <;> simp [coeff_rescale, coeff_C]

theorem toPS_pdilateFrom (a s : K) (p : List K) :
    toPS (pdilateFrom a s p) = C s * rescale a (toPS p) := by
  induction p generalizing s with
  | nil => simp [pdilateFrom]
  | cons c p ih =>
    simp only [pdilateFrom, toPS_cons, ih, map_add, map_mul, rescale_X, rescale_C']
    ring

theorem toPS_pdilate (a : K) (p : List K) : toPS (pdilate a p) = rescale a (toPS p) := by
  simp [pdilate, toPS_pdilateFrom]

theorem toPS_pderivFrom (j : K) (p : List K) :
    toPS (pderivFrom j p) = C j * toPS p + X * d⁄dX K (toPS p) := by
  induction p generalizing j with
  | nil => simp [pderivFrom]
  | cons c p ih =>
    simp only [pderivFrom, toPS_cons, ih, map_add, map_mul, Derivation.leibniz]
    simp; ring

theorem toPS_pderivW (p : List K) : toPS (pderivW p) = X * d⁄dX K (toPS p) := by
  simp [pderivW, toPS_pderivFrom]


/-- a one-sided sequence extended by zero to negative indices -/
def extZ (x : ℕ → K) : ℤ → K := fun i => if 0 ≤ i then x i.toNat else 0

theorem bsum_extZ_neg (a : List K) (x : ℕ → K) (i : ℤ) (hi : i < 0) : bsum a (extZ x) i = 0 := by
  induction a generalizing i with
  | nil => simp [bsum]
  | cons c cs ih =>
    have h1 : ¬ (0 ≤ i) := by omega
    simp [bsum, extZ, h1, ih (i - 1) (by omega)]

theorem coeff_toPS_mul (a : List K) (S : K⟦X⟧) (n : ℕ) :
    coeff n (toPS a * S) = bsum a (extZ (fun m => coeff m S)) n := by
  induction a generalizing n with
  | nil => simp [bsum]
  | cons c cs ih =>
    rw [toPS_cons, add_mul, map_add, coeff_C_mul, mul_assoc]
    cases n with
    | zero =>
      simp [bsum, extZ, bsum_extZ_neg]
    | succ n =>
      rw [coeff_succ_X_mul, ih]
      simp [bsum, extZ]
      intro h; omega

theorem headD_eq (l : List K) : l.headD 0 = constantCoeff (toPS l) := by
  cases l <;> simp [toPS_cons]

/-- `r` (a rational function of w = z⁻¹ with no advance) is the unilateral z-transform of `x`:
    `den(w) * Σ x[n] w^n = num(w)` as formal power series, and `den(0) ≠ 0` so that this
    determines every `x[n]`. -/
def IsZT (x : ℕ → K) (r : ZR K) : Prop :=
  r.adv = 0 ∧ toPS r.den * PowerSeries.mk x = toPS r.num ∧ r.den.headD 0 ≠ 0

theorem IsZT.scale {x : ℕ → K} {r : ZR K} (h : IsZT x r) (c : K) :
    IsZT (fun n => c * x n) (ZR.scale c r) := by
  obtain ⟨h0, h1, h2⟩ := h
  refine ⟨h0, ?_, h2⟩
  have : PowerSeries.mk (fun n => c * x n) = C c * PowerSeries.mk x := by ext n; simp
  simp only [ZR.scale, toPS_pscale, this, ← h1]; ring

theorem IsZT.add {x y : ℕ → K} {r s : ZR K} (hr : IsZT x r) (hs : IsZT y s) :
    IsZT (fun n => x n + y n) (ZR.add r s) := by
  obtain ⟨h0, h1, h2⟩ := hr
  obtain ⟨g0, g1, g2⟩ := hs
  have : PowerSeries.mk (fun n => x n + y n) = PowerSeries.mk x + PowerSeries.mk y := by ext n; simp
  refine ⟨by simp [ZR.add, h0, g0], ?_, ?_⟩
  · simp only [ZR.add, h0, g0, Nat.max_self, Nat.sub_self, toPS_padd, toPS_pshift, toPS_pmul, this,
      ← h1, ← g1]
    ring
  · simp only [ZR.add, headD_eq, toPS_pmul, map_mul] at *
    exact mul_ne_zero h2 g2

theorem IsZT.dilate {x : ℕ → K} {r : ZR K} (h : IsZT x r) (a : K) :
    IsZT (fun n => a ^ n * x n) (ZR.dilate a r) := by
  obtain ⟨h0, h1, h2⟩ := h
  refine ⟨h0, ?_, ?_⟩
  · simp only [ZR.dilate, h0, toPS_pscale, toPS_pdilate, ← rescale_mk, ← h1, map_mul]
    simp
  · simp only [ZR.dilate, headD_eq, toPS_pdilate] at *
    rw [← coeff_zero_eq_constantCoeff_apply, coeff_rescale]
    simpa using h2

theorem mk_mulN (x : ℕ → K) :
    PowerSeries.mk (fun n => (n : K) * x n) = X * d⁄dX K (PowerSeries.mk x) := by
  ext n
  cases n with
  | zero => simp
  | succ n => simp [coeff_succ_X_mul, coeff_derivative]; ring

theorem IsZT.mulN {x : ℕ → K} {r : ZR K} (h : IsZT x r) :
    IsZT (fun n => (n : K) * x n) (ZR.mulN r) := by
  obtain ⟨h0, h1, h2⟩ := h
  refine ⟨h0, ?_, ?_⟩
  · have hd := congrArg (d⁄dX K) h1
    rw [Derivation.leibniz] at hd
    simp only [ZR.mulN, h0, toPS_padd, toPS_pscale, toPS_psub, toPS_pmul, toPS_pderivW, mk_mulN,
      natK_eq, Nat.cast_zero, neg_zero, map_zero, zero_mul, zero_add, smul_eq_mul] at hd ⊢
    rw [← h1] at hd ⊢
    linear_combination (toPS r.den * X) * hd
  · simp only [ZR.mulN, headD_eq, toPS_pmul, map_mul] at *
    exact mul_ne_zero h2 h2


theorem toPS_one : toPS ([1] : List K) = 1 := by simp [toPS_cons]
theorem toPS_one_sub : toPS ([1, -1] : List K) = 1 - X := by simp [toPS_cons]; ring

theorem isZT_imp (d : ℤ) (hd : 0 ≤ d) :
    IsZT (fun n : ℕ => (Base.imp d : Base K).val n) (ztBase (.imp d)) := by
  refine ⟨by simp [ztBase, hd], ?_, by simp [ztBase, hd]⟩
  simp only [ztBase, hd, ↓reduceIte, toPS_one, one_mul, toPS_pshift, mul_one]
  ext n
  simp only [coeff_mk, Base.val, coeff_X_pow]
  congr 1
  apply propext
  constructor <;> intro h <;> omega

theorem isZT_step (d : ℤ) (hd : 0 ≤ d) :
    IsZT (fun n : ℕ => (Base.step d : Base K).val n) (ztBase (.step d)) := by
  refine ⟨by simp [ztBase, hd], ?_, by simp [ztBase, hd]⟩
  simp only [ztBase, hd, ↓reduceIte, toPS_one, toPS_pshift, mul_one]
  ext n
  rw [coeff_toPS_mul]
  simp only [bsum, extZ, coeff_mk, Base.val, coeff_X_pow]
  cases n with
  | zero => simp; split_ifs <;> first | rfl | omega
  | succ n => simp; split_ifs <;> first | omega | simp

theorem isZT_one : IsZT (fun n : ℕ => (Base.one : Base K).val n) (ztBase .one) := by
  refine ⟨by simp [ztBase], ?_, by simp [ztBase]⟩
  ext n
  rw [coeff_toPS_mul]
  simp only [ztBase, bsum, extZ, coeff_mk, Base.val, toPS_one]
  cases n with
  | zero => simp
  | succ n =>
    have h : (0:ℤ) ≤ (n:ℤ) + 1 := by omega
    simp [h]


theorem rot_rec (cb sb : K) (h : cb ^ 2 + sb ^ 2 = 1) (n : ℕ) :
    (rotPow cb sb (n + 2)).1 = (cb + cb) * (rotPow cb sb (n + 1)).1 - (rotPow cb sb n).1 ∧
    (rotPow cb sb (n + 2)).2 = (cb + cb) * (rotPow cb sb (n + 1)).2 - (rotPow cb sb n).2 := by
  simp only [rotPow]
  constructor
  · linear_combination (-(rotPow cb sb n).1) * h
  · linear_combination (-(rotPow cb sb n).2) * h

theorem isZT_cos (cb sb cc sc : K) (h : cb ^ 2 + sb ^ 2 = 1) :
    IsZT (fun n : ℕ => (Base.cos cb sb cc sc).val n) (ztBase (.cos cb sb cc sc)) := by
  refine ⟨by simp [ztBase], ?_, by simp [ztBase]⟩
  ext n
  rw [coeff_toPS_mul]
  simp only [ztBase, bsum, extZ, coeff_mk, Base.val, rotZ, toPS_cons, toPS_nil]
  rcases n with _ | _ | n
  · simp [rotPow, rotZ]
  · simp [rotPow, rotZ, coeff_succ_X_mul]; ring
  · obtain ⟨h1, h2⟩ := rot_rec cb sb h n
    have e1 : (0:ℤ) ≤ ((n + 1 + 1 : ℕ) : ℤ) - 1 := by omega
    have e2 : (0:ℤ) ≤ ((n + 1 + 1 : ℕ) : ℤ) - 1 - 1 := by omega
    have t1 : (((n + 1 + 1 : ℕ) : ℤ) - 1).toNat = n + 1 := by omega
    have t2 : (((n + 1 + 1 : ℕ) : ℤ) - 1 - 1).toNat = n := by omega
    simp only [e1, e2, t1, t2, ↓reduceIte, Int.toNat_natCast, Int.natCast_nonneg, Int.ofNat_eq_natCast, rotZ]
    simp [coeff_succ_X_mul, h1, h2]
    ring

theorem isZT_sin (cb sb cc sc : K) (h : cb ^ 2 + sb ^ 2 = 1) :
    IsZT (fun n : ℕ => (Base.sin cb sb cc sc).val n) (ztBase (.sin cb sb cc sc)) := by
  refine ⟨by simp [ztBase], ?_, by simp [ztBase]⟩
  ext n
  rw [coeff_toPS_mul]
  simp only [ztBase, bsum, extZ, coeff_mk, Base.val, rotZ, toPS_cons, toPS_nil]
  rcases n with _ | _ | n
  · simp [rotPow, rotZ]
  · simp [rotPow, rotZ, coeff_succ_X_mul]; ring
  · obtain ⟨h1, h2⟩ := rot_rec cb sb h n
    have e1 : (0:ℤ) ≤ ((n + 1 + 1 : ℕ) : ℤ) - 1 := by omega
    have e2 : (0:ℤ) ≤ ((n + 1 + 1 : ℕ) : ℤ) - 1 - 1 := by omega
    have t1 : (((n + 1 + 1 : ℕ) : ℤ) - 1).toNat = n + 1 := by omega
    have t2 : (((n + 1 + 1 : ℕ) : ℤ) - 1 - 1).toNat = n := by omega
    simp only [e1, e2, t1, t2, ↓reduceIte, Int.toNat_natCast, Int.natCast_nonneg, Int.ofNat_eq_natCast, rotZ]
    simp [coeff_succ_X_mul, h1, h2]
    ring


theorem mk_gate (x : ℕ → K) (g : ℕ) :
    PowerSeries.mk (fun n => if g ≤ n then x n else 0)
      = PowerSeries.mk x - toPS ((List.range g).map x) := by
  ext n
  simp only [coeff_mk, map_sub, toPS]
  by_cases h : n < g
  · have : ¬ g ≤ n := by omega
    rw [List.getD_eq_getElem _ _ (by simpa using h)]
    simp [this]
  · have : g ≤ n := by omega
    rw [List.getD_eq_default _ _ (by simpa using this)]
    simp [this]

theorem isZT_gstep (isSin : Bool) (g : ℤ) (cb sb cc sc : K) (h : cb ^ 2 + sb ^ 2 = 1) :
    IsZT (fun n : ℕ => (Base.gated isSin false g cb sb cc sc).val n)
      (ztBase (.gated isSin false g cb sb cc sc)) := by
  have hx : ∀ n : ℕ, (Base.gated isSin false g cb sb cc sc).val n
      = if g.toNat ≤ n then trigVal isSin cb sb cc sc n else 0 := by
    intro n
    have : (g ≤ (n : ℤ)) ↔ g.toNat ≤ n := by omega
    simp only [Base.val, this]
    split_ifs <;> simp
  have e : (fun n : ℕ => (Base.gated isSin false g cb sb cc sc).val n)
      = fun n : ℕ => if g.toNat ≤ n then (fun m : ℕ => trigVal isSin cb sb cc sc m) n else 0 := funext hx
  rw [e]
  cases isSin with
  | false =>
    obtain ⟨_, h1, h2⟩ := isZT_cos cb sb cc sc h
    have ev : (fun n : ℕ => (Base.cos cb sb cc sc).val n) = fun m : ℕ => trigVal false cb sb cc sc m := by
      funext n; simp [Base.val, trigVal]
    rw [ev] at h1
    refine ⟨rfl, ?_, by simp [ztBase]⟩
    simp only [ztBase, Bool.false_eq_true, ↓reduceIte, toPS_psub, toPS_pmul, mk_gate, mul_sub] at h1 ⊢
    rw [h1]; rfl
  | true =>
    obtain ⟨_, h1, h2⟩ := isZT_sin cb sb cc sc h
    have ev : (fun n : ℕ => (Base.sin cb sb cc sc).val n) = fun m : ℕ => trigVal true cb sb cc sc m := by
      funext n; simp [Base.val, trigVal]
    rw [ev] at h1
    refine ⟨rfl, ?_, by simp [ztBase]⟩
    simp only [ztBase, ↓reduceIte, toPS_psub, toPS_pmul, mk_gate, mul_sub] at h1 ⊢
    rw [h1]; rfl

theorem isZT_gimp (isSin : Bool) (g : ℤ) (hg : 0 ≤ g) (cb sb cc sc : K) :
    IsZT (fun n : ℕ => (Base.gated isSin true g cb sb cc sc).val n)
      (ztBase (.gated isSin true g cb sb cc sc)) := by
  have h1 : IsZT (fun n : ℕ => trigVal isSin cb sb cc sc g * (Base.imp g : Base K).val n)
      (ZR.scale (trigVal isSin cb sb cc sc g) (ztBase (.imp g))) :=
    (isZT_imp (K := K) g hg).scale (trigVal isSin cb sb cc sc g)
  have e : ZR.scale (trigVal isSin cb sb cc sc g) (ztBase (.imp g))
      = ztBase (.gated isSin true g cb sb cc sc) := by
    simp [ztBase, ZR.scale, hg]
  have ef : (fun n : ℕ => (Base.gated isSin true g cb sb cc sc).val n)
      = fun n : ℕ => trigVal isSin cb sb cc sc g * (Base.imp g : Base K).val n := by
    funext n
    simp only [Base.val]
    split_ifs with h
    · rw [h]
    · ring
  rw [ef, ← e]
  exact h1

/-- side condition under which the closed form of a base sequence is claimed: delays are
    non-negative (advances are finding F17); `cos b, sin b` lie on the unit circle -/
def Base.ok : Base K → Prop
  | .imp d => 0 ≤ d
  | .step d => 0 ≤ d
  | .one => True
  | .cos cb sb _ _ => cb ^ 2 + sb ^ 2 = 1
  | .sin cb sb _ _ => cb ^ 2 + sb ^ 2 = 1
  | .gated _ true g _ _ _ _ => 0 ≤ g
  | .gated _ false _ cb sb _ _ => cb ^ 2 + sb ^ 2 = 1

theorem isZT_base (b : Base K) (h : b.ok) : IsZT (fun n : ℕ => b.val n) (ztBase b) := by
  cases b with
  | imp d => exact isZT_imp d h
  | step d => exact isZT_step d h
  | one => exact isZT_one
  | cos cb sb cc sc => exact isZT_cos cb sb cc sc h
  | sin cb sb cc sc => exact isZT_sin cb sb cc sc h
  | gated isSin byImp g cb sb cc sc =>
    cases byImp with
    | true => exact isZT_gimp isSin g h cb sb cc sc
    | false => exact isZT_gstep isSin g cb sb cc sc h

theorem IsZT.iterMulN {x : ℕ → K} {r : ZR K} (h : IsZT x r) (p : ℕ) :
    IsZT (fun n => (n : K) ^ p * x n) (iter ZR.mulN p r) := by
  induction p with
  | zero => simpa [iter] using h
  | succ p ih =>
    have := ih.mulN
    simp only [iter]
    convert this using 2
    ring

theorem IsZT.congr {x y : ℕ → K} {r : ZR K} (h : IsZT x r) (e : ∀ n, x n = y n) : IsZT y r := by
  have : x = y := funext e
  rwa [← this]

theorem isZT_term (t : CTerm K) (h : t.base.ok) : IsZT (fun n : ℕ => t.val n) (ztTerm t) := by
  have := (((isZT_base t.base h).dilate t.a).iterMulN t.p).scale t.coef
  refine this.congr (fun n => ?_)
  simp [CTerm.val]
  ring

theorem isZT_zero : IsZT (fun _ : ℕ => (0 : K)) ZR.zero := by
  refine ⟨rfl, ?_, by simp [ZR.zero]⟩
  ext n; simp [ZR.zero, coeff_toPS_mul, bsum, extZ]

theorem isZT_sig (ts : List (CTerm K)) (h : ∀ t ∈ ts, t.base.ok) :
    IsZT (fun n : ℕ => sigVal ts n) (ztSig ts) := by
  induction ts with
  | nil => simpa [sigVal, ztSig] using isZT_zero
  | cons t ts ih =>
    have h1 := isZT_term t (h t (by simp))
    have h2 := ih (fun t ht => h t (by simp [ht]))
    simpa [sigVal, ztSig] using h1.add h2


theorem toPS_head_tail (l : List K) : toPS l = C (l.headD 0) + X * toPS l.tail := by
  cases l <;> simp [toPS_cons]

theorem ldStep_spec (den r : List K) (h : den.headD 0 ≠ 0) :
    toPS r = C (ldStep den r).1 * toPS den + X * toPS (ldStep den r).2 := by
  have e := toPS_head_tail (psub r (pscale (r.headD 0 / den.headD 0) den))
  have h0 : (psub r (pscale (r.headD 0 / den.headD 0) den)).headD 0 = 0 := by
    rw [headD_eq, toPS_psub, toPS_pscale, map_sub, map_mul, ← headD_eq, ← headD_eq]
    generalize r.headD 0 = a
    generalize den.headD 0 = d at h
    simp only [constantCoeff_C]
    field_simp
    ring
  rw [h0, toPS_psub, toPS_pscale, map_zero] at e
  simp only [ldStep]
  linear_combination e

/-- remainder after n long-division steps -/
def remFrom (den : List K) : ℕ → List K → List K
  | 0, r => r
  | n + 1, r => remFrom den n (ldStep den r).2

theorem seriesFrom_spec (den : List K) (h : den.headD 0 ≠ 0) (n : ℕ) (r : List K) :
    toPS r = toPS den * toPS (seriesFrom den n r) + X ^ n * toPS (remFrom den n r) := by
  induction n generalizing r with
  | zero => simp [seriesFrom, remFrom]
  | succ n ih =>
    have e := ldStep_spec den r h
    have e2 := ih (ldStep den r).2
    simp only [seriesFrom, remFrom, toPS_cons]
    rw [e] at *
    linear_combination X * e2

theorem seriesFrom_length (den : List K) (n : ℕ) (r : List K) : (seriesFrom den n r).length = n := by
  induction n generalizing r with
  | zero => simp [seriesFrom]
  | succ n ih => simp [seriesFrom, ih]

theorem coeff_toPS (l : List K) (i : ℕ) : coeff i (toPS l) = l.getD i 0 := by simp [toPS]

/-- long division computes THE power series of num/den: any S with den * S = num has the
    computed coefficients -/
theorem series_unique (num den : List K) (h : den.headD 0 ≠ 0) (S : K⟦X⟧)
    (hS : toPS den * S = toPS num) (n i : ℕ) (hi : i < n) :
    (series num den n).getD i 0 = coeff i S := by
  have e := seriesFrom_spec den h n num
  rw [← hS] at e
  have hc : constantCoeff (toPS den) ≠ 0 := by rwa [← headD_eq]
  have hinv := PowerSeries.mul_inv_cancel (toPS den) hc
  have key : S - toPS (seriesFrom den n num) = X ^ n * (toPS (remFrom den n num) * (toPS den)⁻¹) := by
    have : S - toPS (seriesFrom den n num)
        = (toPS den * (toPS den)⁻¹) * (S - toPS (seriesFrom den n num)) := by rw [hinv]; ring
    rw [this]
    linear_combination ((toPS den)⁻¹) * e
  have hd : X ^ n ∣ S - toPS (seriesFrom den n num) := ⟨_, key⟩
  have := (X_pow_dvd_iff.mp hd) i hi
  rw [map_sub, coeff_toPS, sub_eq_zero] at this
  exact this.symm

theorem series_eq_of_isZT {x : ℕ → K} {r : ZR K} (h : IsZT x r) (n : ℕ) :
    series r.num r.den n = (List.range n).map x := by
  apply List.ext_getElem
  · simp [series, seriesFrom_length]
  · intro i h1 h2
    have := series_unique r.num r.den h.2.2 (PowerSeries.mk x) h.2.1 n i (by simpa [series, seriesFrom_length] using h1)
    rw [List.getD_eq_getElem _ _ h1] at this
    simp [this]


theorem dot_eq_bsum (cs l : List K) (y : ℤ → K) (i : ℤ) (hl : cs.length ≤ l.length)
    (h : ∀ k : ℕ, k < cs.length → l.getD k 0 = y (i - k)) : dot cs l = bsum cs y i := by
  induction cs generalizing l i with
  | nil => simp [dot, bsum]
  | cons c cs ih =>
    cases l with
    | nil => simp at hl
    | cons v l =>
      simp only [dot, bsum]
      have h0 := h 0 (by simp)
      simp at h0
      rw [h0, ih l (i - 1) (by simpa using hl)]
      intro k hk
      have := h (k + 1) (by simpa using hk)
      simp only [List.getD_cons_succ] at this
      rw [this]; congr 1; push_cast; omega

/-- the output of the recursion as a two-sided sequence: `y[i]` for i ≥ 0 from `respRun`,
    `y[-1-i] = ic[i]` -/
def respY (b a : List K) (x : ℤ → K) (ic : List K) (i : ℤ) : K :=
  if 0 ≤ i then (respRun b a x ic (i.toNat + 1)).headD 0 else ic.getD (-i - 1).toNat 0

theorem respRun_length (b a : List K) (x : ℤ → K) (ic : List K) (n : ℕ) :
    (respRun b a x ic n).length = n + ic.length := by
  induction n with
  | zero => simp [respRun]
  | succ n ih => simp [respRun, ih]; omega

theorem respRun_getD (b a : List K) (x : ℤ → K) (ic : List K) (n k : ℕ) (hk : k < n + ic.length) :
    (respRun b a x ic n).getD k 0 = respY b a x ic ((n : ℤ) - 1 - k) := by
  induction n generalizing k with
  | zero =>
    have h1 : ¬ (0 ≤ ((0 : ℕ) : ℤ) - 1 - (k : ℤ)) := by omega
    have h2 : (-(((0 : ℕ) : ℤ) - 1 - (k : ℤ)) - 1).toNat = k := by omega
    simp only [respRun, respY, h1, h2, ↓reduceIte]
  | succ n ih =>
    cases k with
    | zero =>
      have h1 : (0 : ℤ) ≤ ((n + 1 : ℕ) : ℤ) - 1 - ((0 : ℕ) : ℤ) := by omega
      have h2 : (((n + 1 : ℕ) : ℤ) - 1 - ((0 : ℕ) : ℤ)).toNat = n := by omega
      simp only [respY, h1, h2, ↓reduceIte]
      simp [respRun]
    | succ k =>
      have := ih k (by omega)
      simp only [respRun, List.getD_cons_succ, this]
      congr 1; omega

/-- the model of `DLTIFilter.response` satisfies the difference equation at every n ≥ 0 -/
theorem resp_recursion (b a : List K) (x : ℤ → K) (ic : List K) (ha : a.headD 0 ≠ 0)
    (hlen : a.length = ic.length + 1) (n : ℕ) :
    bsum a (respY b a x ic) n = bsum b x n := by
  cases a with
  | nil => simp at hlen
  | cons a0 atl =>
    simp only [List.headD_cons] at ha
    simp only [bsum]
    have hd : dot atl (respRun b (a0 :: atl) x ic n) = bsum atl (respY b (a0 :: atl) x ic) ((n : ℤ) - 1) := by
      apply dot_eq_bsum
      · rw [respRun_length]; simp at hlen; omega
      · intro k hk
        rw [respRun_getD]; simp at hlen; omega
    rw [← hd]
    have h1 : (0 : ℤ) ≤ (n : ℤ) := by omega
    simp only [respY, h1, ↓reduceIte, Int.toNat_natCast, respRun, List.headD_cons, respStep, List.tail_cons]
    field_simp
    simp


theorem getD_allzero (l : List K) (h : ∀ v ∈ l, v = 0) (k : ℕ) : l.getD k 0 = 0 := by
  by_cases hk : k < l.length
  · rw [List.getD_eq_getElem _ _ hk]; exact h _ (List.getElem_mem hk)
  · exact List.getD_eq_default _ _ (by omega : l.length ≤ k)

theorem extZ_of_causal (x : ℤ → K) (hx : ∀ i, i < 0 → x i = 0) :
    extZ (fun m : ℕ => x m) = x := by
  funext i
  by_cases h : 0 ≤ i
  · simp [extZ, h, Int.toNat_of_nonneg h]
  · simp [extZ, h, hx i (by omega)]

/-- zero initial conditions, causal input: `A(w) Y(w) = B(w) X(w)` as formal power series -/
theorem recursion_ps (b a : List K) (x : ℤ → K) (ic : List K) (ha : a.headD 0 ≠ 0)
    (hlen : a.length = ic.length + 1) (hic : ∀ v ∈ ic, v = 0) (hx : ∀ i, i < 0 → x i = 0) :
    toPS a * PowerSeries.mk (fun n : ℕ => respY b a x ic n) = toPS b * PowerSeries.mk (fun n : ℕ => x n) := by
  ext n
  rw [coeff_toPS_mul, coeff_toPS_mul]
  have e1 : extZ (fun m => coeff m (PowerSeries.mk (fun n : ℕ => respY b a x ic n))) = respY b a x ic := by
    simp only [coeff_mk]
    apply extZ_of_causal
    intro i hi
    have : ¬ (0 ≤ i) := by omega
    simp only [respY, this, ↓reduceIte, getD_allzero ic hic]
  have e2 : extZ (fun m => coeff m (PowerSeries.mk (fun n : ℕ => x n))) = x := by
    simp only [coeff_mk]
    exact extZ_of_causal x hx
  rw [e1, e2]
  exact resp_recursion b a x ic ha hlen n

/-- impulse response = coefficients of B/A by long division -/
def hCoeff (b a : List K) (i : ℕ) : K := (series b a (i + 1)).getD i 0

theorem toPS_a_mul_h (b a : List K) (ha : a.headD 0 ≠ 0) :
    toPS a * PowerSeries.mk (hCoeff b a) = toPS b := by
  have hc : constantCoeff (toPS a) ≠ 0 := by rwa [← headD_eq]
  have hS : toPS a * (toPS b * (toPS a)⁻¹) = toPS b := by
    rw [mul_comm (toPS b), ← mul_assoc, PowerSeries.mul_inv_cancel _ hc, one_mul]
  have : PowerSeries.mk (hCoeff b a) = toPS b * (toPS a)⁻¹ := by
    ext i
    simp only [coeff_mk, hCoeff]
    exact series_unique b a ha _ hS (i + 1) i (by omega)
  rw [this, hS]

theorem recursion_is_convolution' (b a : List K) (x : ℤ → K) (ic : List K) (ha : a.headD 0 ≠ 0)
    (hlen : a.length = ic.length + 1) (hic : ∀ v ∈ ic, v = 0) (hx : ∀ i, i < 0 → x i = 0) (n : ℕ) :
    respY b a x ic n = ∑ p ∈ Finset.antidiagonal n, hCoeff b a p.1 * x p.2 := by
  have h1 := recursion_ps b a x ic ha hlen hic hx
  have h2 := toPS_a_mul_h b a ha
  have hc : constantCoeff (toPS a) ≠ 0 := by rwa [← headD_eq]
  have hne : toPS a ≠ 0 := by
    intro h0; rw [h0] at hc; simp at hc
  have : PowerSeries.mk (fun n : ℕ => respY b a x ic n)
      = PowerSeries.mk (hCoeff b a) * PowerSeries.mk (fun n : ℕ => x n) := by
    apply mul_left_cancel₀ hne
    rw [h1, ← mul_assoc, h2]
  have e := congrArg (coeff n) this
  simpa [coeff_mul] using e


theorem dftSum_congr (x y : ℕ → K) (q : K) (N : ℕ) (h : ∀ n, n < N → x n = y n) :
    dftSum x q N = dftSum y q N := by
  induction N with
  | zero => rfl
  | succ N ih =>
    simp only [dftSum]
    rw [ih (fun n hn => h n (by omega)), h N (by omega)]

theorem dftSum_smul (c : K) (x : ℕ → K) (q : K) (N : ℕ) :
    dftSum (fun n => c * x n) q N = c * dftSum x q N := by
  induction N with
  | zero => simp [dftSum]
  | succ N ih => simp only [dftSum, ih]; ring

theorem dftSum_add (x y : ℕ → K) (q : K) (N : ℕ) :
    dftSum (fun n => x n + y n) q N = dftSum x q N + dftSum y q N := by
  induction N with
  | zero => simp [dftSum]
  | succ N ih => simp only [dftSum, ih]; ring

theorem dftSum_zero (q : K) (N : ℕ) : dftSum (fun _ => (0 : K)) q N = 0 := by
  induction N with
  | zero => rfl
  | succ N ih => simp [dftSum, ih]

/-- `Σ_{l ≤ n < N} r^n`, written with the weight `a^n` in the sequence and `q^n` in the kernel -/
theorem geo0 (a q : K) (h : 1 - a * q ≠ 0) (l N : ℕ) (hl : l ≤ N) :
    dftSum (fun n => if l ≤ n then a ^ n else 0) q N = ((a * q) ^ l - (a * q) ^ N) / (1 - a * q) := by
  induction N with
  | zero =>
    have : l = 0 := by omega
    simp [dftSum, this]
  | succ N ih =>
    simp only [dftSum, powK_eq]
    by_cases h1 : l ≤ N
    · rw [ih h1]; simp only [h1, ↓reduceIte]; field_simp; ring
    · have e : l = N + 1 := by omega
      have z : dftSum (fun n => if l ≤ n then a ^ n else 0) q N = 0 := by
        rw [dftSum_congr _ (fun _ => 0) q N (fun n hn => by simp; intro; omega), dftSum_zero]
      rw [z]; simp [h1, e]

theorem geo1 (a q : K) (h : 1 - a * q ≠ 0) (l N : ℕ) (hl : l ≤ N) :
    dftSum (fun n => if l ≤ n then (n : K) * a ^ n else 0) q N
      = ((a * q) ^ l * ((l : K) + a * q * (1 - (l : K))) - (a * q) ^ N * ((N : K) - a * q * ((N : K) - 1)))
        / ((1 - a * q) * (1 - a * q)) := by
  induction N with
  | zero =>
    have : l = 0 := by omega
    simp [dftSum, this]
  | succ N ih =>
    simp only [dftSum, powK_eq]
    by_cases h1 : l ≤ N
    · rw [ih h1]; simp only [h1, ↓reduceIte]; push_cast; field_simp; ring
    · have e : l = N + 1 := by omega
      have z : dftSum (fun n => if l ≤ n then (n : K) * a ^ n else 0) q N = 0 := by
        rw [dftSum_congr _ (fun _ => 0) q N (fun n hn => by simp; intro; omega), dftSum_zero]
      rw [z]; simp [h1, e]; ring_nf

theorem spec0 (l N : ℕ) (hl : l ≤ N) :
    dftSum (fun n => if l ≤ n then (1 : K) else 0) 1 N = (N : K) - (l : K) := by
  induction N with
  | zero =>
    have : l = 0 := by omega
    simp [dftSum, this]
  | succ N ih =>
    simp only [dftSum, powK_eq]
    by_cases h1 : l ≤ N
    · rw [ih h1]; simp [h1]; ring
    · have e : l = N + 1 := by omega
      have z : dftSum (fun n => if l ≤ n then (1 : K) else 0) 1 N = 0 := by
        rw [dftSum_congr _ (fun _ => 0) 1 N (fun n hn => by simp; omega), dftSum_zero]
      rw [z]; simp [h1, e]

theorem spec1 (l N : ℕ) (hl : l ≤ N) :
    (1 + 1) * dftSum (fun n => if l ≤ n then (n : K) else 0) 1 N
      = (N : K) * ((N : K) - 1) - (l : K) * ((l : K) - 1) := by
  induction N with
  | zero =>
    have : l = 0 := by omega
    simp [dftSum, this]
  | succ N ih =>
    simp only [dftSum, powK_eq]
    by_cases h1 : l ≤ N
    · rw [mul_add, ih h1]; simp [h1]; ring
    · have e : l = N + 1 := by omega
      have z : dftSum (fun n => if l ≤ n then (n : K) else 0) 1 N = 0 := by
        rw [dftSum_congr _ (fun _ => 0) 1 N (fun n hn => by simp; intro; omega), dftSum_zero]
      rw [z]; simp [h1, e]

/-- at the bin where `a q = 1` the kernel and the geometric weight cancel -/
theorem dftSum_root_bin (wt : ℕ → K) (a q : K) (haq : a * q = 1) (N : ℕ) :
    dftSum (fun n => wt n * a ^ n) q N = dftSum wt 1 N := by
  induction N with
  | zero => rfl
  | succ N ih =>
    simp only [dftSum, ih, powK_eq, one_pow, mul_one]
    rw [mul_assoc, ← mul_pow, haq, one_pow, mul_one]

section dftsound
variable [DecidableEq K]

omit [DecidableEq K] in
/-- the value of a step-like term at n ≥ 0 -/
theorem steplike_val (t : CTerm K) (l : ℕ)
    (hb : t.base = .one ∧ l = 0 ∨ ∃ d : ℤ, t.base = .step d ∧ l = d.toNat) (n : ℕ) :
    t.val n = t.coef * ((n : K) ^ t.p * (if l ≤ n then t.a ^ n else 0)) := by
  rcases hb with ⟨hb, rfl⟩ | ⟨d, hb, rfl⟩
  · simp [CTerm.val, hb, Base.val]; ring
  · simp only [CTerm.val, hb, Base.val, powK_eq, intK_eq, zpowK_eq, Int.cast_natCast, zpow_natCast]
    have : (d ≤ (n : ℤ)) ↔ d.toNat ≤ n := by omega
    simp only [this]
    split_ifs <;> ring

theorem dft_steplike_sound (numeric : Bool) (t : CTerm K) (N : ℕ) (q : K) (hq : q ^ N = 1)
    (h2 : (1 + 1 : K) ≠ 0) (l : ℕ)
    (hb : t.base = .one ∧ l = 0 ∨ ∃ d : ℤ, t.base = .step d ∧ l = d.toNat)
    (hsym : numeric = false → l ≤ N)
    (v : K) (hv : dftTerm numeric t N q = some v) :
    v = dftSum (fun n => t.val n) q N := by
  rw [dftSum_congr _ _ q N (fun n _ => steplike_val t l hb n), dftSum_smul]
  have hl' : (match t.base with | .step d => d.toNat | _ => 0) = l := by
    rcases hb with ⟨hb, rfl⟩ | ⟨d, hb, rfl⟩ <;> simp [hb]
  have hv' : (if numeric = true ∧ N ≤ l then some 0 else
      (if t.a = 1 then (if q = 1 then dftGeoSpecial t.p l N else dftGeoGeneral t.p l N q 1)
        else if numeric = true ∧ powK t.a N = 1 ∧ t.a * q = 1 then dftGeoSpecial t.p l N
        else dftGeoGeneral t.p l N (t.a * q) (powK t.a N)).map (fun v => t.coef * v)) = some v := by
    rcases hb with ⟨hb, rfl⟩ | ⟨d, hb, rfl⟩ <;> simpa [dftTerm, hb] using hv
  clear hv hl'
  by_cases hN : numeric = true ∧ N ≤ l
  · simp only [hN, and_self, ↓reduceIte, Option.some.injEq] at hv'
    rw [← hv', dftSum_congr _ (fun _ => 0) q N (fun n hn => by
      have : ¬ l ≤ n := by omega
      simp [this]), dftSum_zero]
    simp
  · have hl : l ≤ N := by
      by_cases hn : numeric = true
      · simp only [hn, true_and, not_le] at hN; omega
      · exact hsym (by simpa using hn)
    simp only [hN, ↓reduceIte, Option.map_eq_some_iff] at hv'
    obtain ⟨w, hw, rfl⟩ := hv'
    congr 1
    by_cases ha : t.a = 1
    · simp only [ha, ↓reduceIte, one_pow] at hw ⊢
      by_cases hq1 : q = 1
      · subst hq1
        simp only [↓reduceIte, dftGeoSpecial] at hw
        rcases hp : t.p with _ | _ | p
        · simp only [hp, Option.some.injEq, natK_eq] at hw
          rw [← hw, ← spec0 l N hl]
          exact dftSum_congr _ _ _ _ (fun n _ => by simp)
        · simp only [hp, Option.some.injEq, natK_eq] at hw
          have := spec1 (K := K) l N hl
          have e : dftSum (fun n : ℕ => (n : K) ^ (0 + 1) * if l ≤ n then (1 : K) else 0) 1 N
              = dftSum (fun n : ℕ => if l ≤ n then (n : K) else 0) 1 N :=
            dftSum_congr _ _ _ _ (fun n _ => by split_ifs <;> simp)
          rw [← hw, e, div_eq_iff h2, ← this]; ring
        · simp [hp] at hw
      · simp only [hq1, ↓reduceIte, dftGeoGeneral] at hw
        have h1 : (1 : K) - 1 * q ≠ 0 := by
          intro h; apply hq1; linear_combination -h
        have h1' : ¬ ((1 : K) - q = 0) := by simpa using h1
        simp only [h1', ↓reduceIte] at hw
        rcases hp : t.p with _ | _ | p
        · simp only [hp, Option.some.injEq, powK_eq] at hw
          have := geo0 1 q h1 l N hl
          simp only [one_pow, one_mul, hq] at this
          rw [← hw, ← this]
          exact dftSum_congr _ _ _ _ (fun n _ => by simp)
        · simp only [hp, Option.some.injEq, powK_eq, natK_eq] at hw
          have := geo1 1 q h1 l N hl
          simp only [one_pow, one_mul, hq, mul_one] at this
          have e : dftSum (fun n : ℕ => (n : K) ^ (0 + 1) * if l ≤ n then (1 : K) else 0) q N
              = dftSum (fun n : ℕ => if l ≤ n then (n : K) else 0) q N :=
            dftSum_congr _ _ _ _ (fun n _ => by split_ifs <;> simp)
          rw [← hw, e, this]; ring
        · simp [hp] at hw
    · simp only [ha, ↓reduceIte] at hw
      by_cases hr : numeric = true ∧ powK t.a N = 1 ∧ t.a * q = 1
      · rw [if_pos hr] at hw
        obtain ⟨_, _, haq⟩ := hr
        simp only [dftGeoSpecial] at hw
        rcases hp : t.p with _ | _ | p
        · simp only [hp, Option.some.injEq, natK_eq] at hw
          rw [← hw, ← spec0 l N hl, ← dftSum_root_bin _ t.a q haq N]
          exact dftSum_congr _ _ _ _ (fun n _ => by split_ifs <;> simp)
        · simp only [hp, Option.some.injEq, natK_eq] at hw
          have := spec1 (K := K) l N hl
          rw [← dftSum_root_bin _ t.a q haq N] at this
          have e : dftSum (fun n : ℕ => (n : K) ^ (0 + 1) * if l ≤ n then t.a ^ n else 0) q N
              = dftSum (fun n : ℕ => (if l ≤ n then (n : K) else 0) * t.a ^ n) q N :=
            dftSum_congr _ _ _ _ (fun n _ => by split_ifs <;> simp)
          rw [← hw, e, div_eq_iff h2, ← this]; ring
        · simp [hp] at hw
      rw [if_neg hr] at hw
      simp only [dftGeoGeneral] at hw
      by_cases h1 : (1 : K) - t.a * q = 0
      · simp [h1] at hw
      · simp only [h1, ↓reduceIte] at hw
        have hN' : (t.a * q) ^ N = t.a ^ N := by rw [mul_pow, hq, mul_one]
        rcases hp : t.p with _ | _ | p
        · simp only [hp, Option.some.injEq, powK_eq] at hw
          have := geo0 t.a q h1 l N hl
          rw [hN'] at this
          rw [← hw, ← this]
          exact dftSum_congr _ _ _ _ (fun n _ => by simp)
        · simp only [hp, Option.some.injEq, powK_eq, natK_eq] at hw
          have := geo1 t.a q h1 l N hl
          rw [hN'] at this
          rw [← hw, ← this]
          exact dftSum_congr _ _ _ _ (fun n _ => by split_ifs <;> simp)
        · simp [hp] at hw

end dftsound

theorem dftSum_single (m : ℕ) (y q : K) (N : ℕ) :
    dftSum (fun n => if n = m then y else 0) q N = if m < N then y * q ^ m else 0 := by
  induction N with
  | zero => simp [dftSum]
  | succ N ih =>
    simp only [dftSum, ih, powK_eq]
    by_cases h1 : m < N
    · have : N ≠ m := by omega
      simp [h1, this, Nat.lt_succ_of_lt h1]
    · by_cases h2 : N = m
      · subst h2; simp
      · have : ¬ m < N + 1 := by omega
        simp [h1, h2, this]

section dftsound2
variable [DecidableEq K]

theorem dft_imp_sound (numeric : Bool) (t : CTerm K) (N : ℕ) (q : K) (d : ℤ)
    (hb : t.base = .imp d)
    (v : K) (hv : dftTerm numeric t N q = some v) :
    v = dftSum (fun n => t.val n) q N := by
  simp only [dftTerm, hb] at hv
  by_cases hr : 0 ≤ d ∧ d < N
  · obtain ⟨m, rfl⟩ : ∃ m : ℕ, d = m := ⟨d.toNat, by omega⟩
    have hm : m < N := by omega
    have hval : ∀ n : ℕ, t.val n = if n = m then t.coef * (m : K) ^ t.p * t.a ^ m else 0 := by
      intro n
      simp only [CTerm.val, hb, Base.val, powK_eq, intK_eq, zpowK_eq, Int.cast_natCast, zpow_natCast,
        Nat.cast_inj]
      split_ifs with h <;> simp [h]
    rw [dftSum_congr _ _ q N (fun n _ => hval n), dftSum_single]
    simp only [hr, and_self, ↓reduceIte, Option.some.injEq, hm] at hv ⊢
    rw [← hv]
    simp only [powK_eq, intK_eq, zpowK_eq, Int.cast_natCast, zpow_natCast]
  · simp only [hr, ↓reduceIte, Option.some.injEq] at hv
    rw [← hv, dftSum_congr _ (fun _ => 0) q N (fun n hn => by
      have : ¬ ((n : ℤ) = d) := by omega
      simp [CTerm.val, hb, Base.val, this]), dftSum_zero]

/-- all terms of a signal: if the model returns a value it is the defining sum -/
def dftOk (numeric : Bool) (N : ℕ) (t : CTerm K) : Prop :=
  match t.base with
  | .step d => numeric = false → d.toNat ≤ N
  | _ => True

theorem dft_term_sound (numeric : Bool) (t : CTerm K) (N : ℕ) (q : K) (hq : q ^ N = 1)
    (h2 : (1 + 1 : K) ≠ 0) (hok : dftOk numeric N t)
    (v : K) (hv : dftTerm numeric t N q = some v) :
    v = dftSum (fun n => t.val n) q N := by
  rcases hb : t.base with d | d | _ | _ | _ | _
  · exact dft_imp_sound numeric t N q d hb v hv
  · exact dft_steplike_sound numeric t N q hq h2 d.toNat (Or.inr ⟨d, hb, rfl⟩)
      (by simpa [dftOk, hb] using hok) v hv
  · exact dft_steplike_sound numeric t N q hq h2 0 (Or.inl ⟨hb, rfl⟩) (by simp) v hv
  · simp [dftTerm, hb] at hv
  · simp [dftTerm, hb] at hv
  · simp [dftTerm, hb] at hv

theorem dft_sig_sound (numeric : Bool) (ts : List (CTerm K)) (N : ℕ) (q : K) (hq : q ^ N = 1)
    (h2 : (1 + 1 : K) ≠ 0) (hok : ∀ t ∈ ts, dftOk numeric N t)
    (v : K) (hv : dftSig numeric ts N q = some v) :
    v = dftSum (fun n => sigVal ts n) q N := by
  induction ts generalizing v with
  | nil =>
    simp [dftSig] at hv
    rw [← hv]; simp [sigVal, dftSum_zero]
  | cons t ts ih =>
    simp only [dftSig] at hv
    rcases h1 : dftTerm numeric t N q with _ | a
    · simp [h1] at hv
    · rcases h3 : dftSig numeric ts N q with _ | b
      · simp [h1, h3] at hv
      · simp [h1, h3] at hv
        have e1 := dft_term_sound numeric t N q hq h2 (hok t (by simp)) a h1
        have e2 := ih (fun t ht => hok t (by simp [ht])) b h3
        rw [← hv, e1, e2, ← dftSum_add]
        simp [sigVal]

end dftsound2
section orth
open Finset

theorem dftSum_eq_sum (x : ℕ → K) (q : K) (N : ℕ) :
    dftSum x q N = ∑ i ∈ range N, x i * q ^ i := by
  induction N with
  | zero => simp [dftSum]
  | succ N ih => simp [dftSum, ih, sum_range_succ]

/-- orthogonality of the N-th roots of unity -/
theorem root_orth (N : ℕ) (ω : K) (hω : IsPrimitiveRoot ω N) (m n : ℕ) (hm : m < N) (hn : n < N) :
    ∑ k ∈ range N, (ω ^ k) ^ m * ((ω⁻¹) ^ n) ^ k = if m = n then (N : K) else 0 := by
  have hω0 : ω ≠ 0 := hω.ne_zero (by omega)
  have e : ∀ k, (ω ^ k) ^ m * ((ω⁻¹) ^ n) ^ k = (ω ^ m * (ω⁻¹) ^ n) ^ k := by
    intro k; rw [mul_pow, ← pow_mul, ← pow_mul, ← pow_mul, mul_comm k m]
  simp only [e]
  by_cases h : m = n
  · subst h
    have : ω ^ m * ω⁻¹ ^ m = 1 := by rw [← mul_pow, mul_inv_cancel₀ hω0, one_pow]
    simp only [this, one_pow, sum_const, card_range, ↓reduceIte, nsmul_eq_mul, mul_one]
  · simp only [h, ↓reduceIte]
    set ζ := ω ^ m * (ω⁻¹) ^ n with hζ
    have hζN : ζ ^ N = 1 := by
      rw [hζ, mul_pow, ← pow_mul, ← pow_mul, mul_comm m N, mul_comm n N, pow_mul, pow_mul, hω.pow_eq_one,
        inv_pow, hω.pow_eq_one]; simp
    have hζ1 : ζ - 1 ≠ 0 := by
      intro h1
      apply h
      apply hω.pow_inj hm hn
      have : ζ = 1 := by linear_combination h1
      rw [hζ, inv_pow] at this
      field_simp at this
      exact this
    have := geom_sum_mul ζ N
    rw [hζN, sub_self] at this
    exact (mul_eq_zero.mp this).resolve_right hζ1

/-- the inverse DFT sum applied to the DFT returns `N x[n]` -/
theorem idft_dft' (N : ℕ) (ω : K) (hω : IsPrimitiveRoot ω N) (x : ℕ → K) (n : ℕ) (hn : n < N) :
    dftSum (fun k => dftSum x (ω ^ k) N) ((ω⁻¹) ^ n) N = (N : K) * x n := by
  simp only [dftSum_eq_sum]
  simp only [sum_mul]
  rw [sum_comm]
  have : ∀ m ∈ range N, ∑ k ∈ range N, x m * (ω ^ k) ^ m * ((ω⁻¹) ^ n) ^ k
      = x m * (if m = n then (N : K) else 0) := by
    intro m hm
    rw [← root_orth N ω hω m n (mem_range.mp hm) hn, mul_sum]
    apply sum_congr rfl; intro k _; ring
  rw [sum_congr rfl this]
  simp [hn]; ring

end orth
section ini
open PowerSeries

/-- the two-sided sequence that is `l[i]` at index `-1-i` and 0 at n ≥ 0 -/
def negSeq (l : List K) : ℤ → K := fun i => if 0 ≤ i then 0 else l.getD (-i - 1).toNat 0

theorem dot_nil_right (c : List K) : dot c ([] : List K) = 0 := by cases c <;> simp [dot]

theorem bsum_negSeq_neg (c l : List K) (j : ℕ) :
    bsum c (negSeq l) (-1 - (j : ℤ)) = dot c (l.drop j) := by
  induction c generalizing j with
  | nil => simp [bsum, dot]
  | cons c0 cs ih =>
    have h1 : ¬ (0 ≤ -1 - (j : ℤ)) := by omega
    have h2 : (-(-1 - (j : ℤ)) - 1).toNat = j := by omega
    have h3 : -1 - (j : ℤ) - 1 = -1 - ((j + 1 : ℕ) : ℤ) := by push_cast; ring
    simp only [bsum, negSeq, h1, h2, ↓reduceIte]
    rw [h3, ih (j + 1)]
    by_cases hj : j < l.length
    · rw [List.drop_eq_getElem_cons hj, List.getD_eq_getElem _ _ hj]; simp [dot]
    · have : l.length ≤ j := by omega
      rw [List.drop_eq_nil_of_le this, List.drop_eq_nil_of_le (by omega), List.getD_eq_default _ _ this]
      simp [dot_nil_right]

theorem bsum_negSeq_pos (c l : List K) (m : ℕ) :
    bsum c (negSeq l) (m : ℤ) = dot (c.drop (m + 1)) l := by
  induction c generalizing m with
  | nil => simp [bsum, dot]
  | cons c0 cs ih =>
    have h1 : (0 : ℤ) ≤ (m : ℤ) := by omega
    simp only [bsum, negSeq, h1, ↓reduceIte, mul_zero, zero_add, List.drop_succ_cons]
    cases m with
    | zero =>
      have := bsum_negSeq_neg cs l 0
      simpa using this
    | succ m =>
      have : ((m + 1 : ℕ) : ℤ) - 1 = (m : ℤ) := by push_cast; ring
      rw [this, ih m]

theorem bsum_add (c : List K) (u v : ℤ → K) (i : ℤ) :
    bsum c (fun j => u j + v j) i = bsum c u i + bsum c v i := by
  induction c generalizing i with
  | nil => simp [bsum]
  | cons c0 cs ih => simp only [bsum, ih]; ring

/-- zero-input response: with `x[n] = 0` for n ≥ 0, `x[-1-i] = xic[i]`, `y[-1-i] = ic[i]`, the output of the
    recursion for n ≥ 0 has the z-transform `iniNum / a` (the model of `zdomain_initial_response`). -/
theorem initial_response_ps (b a ic xic : List K) (ha : a.headD 0 ≠ 0)
    (hlen : a.length = ic.length + 1) :
    toPS a * PowerSeries.mk (fun n : ℕ => respY b a (negSeq xic) ic n) = toPS (iniNum b a ic xic) := by
  ext n
  rw [coeff_toPS_mul, coeff_toPS]
  simp only [coeff_mk]
  have hsplit : respY b a (negSeq xic) ic
      = fun j => extZ (fun m : ℕ => respY b a (negSeq xic) ic m) j + negSeq ic j := by
    funext j
    by_cases hj : 0 ≤ j
    · simp [extZ, negSeq, hj, Int.toNat_of_nonneg hj]
    · simp [extZ, negSeq, hj, respY]
  have hrec := resp_recursion b a (negSeq xic) ic ha hlen n
  rw [hsplit, bsum_add, bsum_negSeq_pos, bsum_negSeq_pos] at hrec
  have hval : (iniNum b a ic xic).getD n 0 = dot (b.drop (n + 1)) xic - dot (a.drop (n + 1)) ic := by
    simp only [iniNum]
    by_cases hn : n < max a.length b.length - 1
    · rw [List.getD_eq_getElem _ _ (by simpa using hn)]; simp
    · rw [List.getD_eq_default _ _ (by simpa using hn)]
      rw [List.drop_eq_nil_of_le (by omega), List.drop_eq_nil_of_le (by omega)]
      simp [dot]
  rw [hval]
  linear_combination hrec

end ini
section specexec
variable [DecidableEq K]
set_option linter.unusedSectionVars false

theorem firstDiff_self (l : List K) (i : ℕ) : firstDiff l l i = none := by
  induction l generalizing i with
  | nil => simp [firstDiff]
  | cons a l ih => simp [firstDiff, ih]

/-- the executable spec predicate used by the oracle accepts exactly what `IsZT` describes:
    on a closed form that is the z-transform it finds no wrong coefficient, for every bound N -/
theorem ztSpecCheck_of_isZT (x : ℤ → K) (r : ZR K) (h : IsZT (fun n : ℕ => x n) r) (N : ℕ) :
    ztSpecCheck x r N = none := by
  obtain ⟨h0, h1, h2⟩ := h
  have hs := series_eq_of_isZT (x := fun n : ℕ => x n) ⟨h0, h1, h2⟩ (N + 1)
  simp only [ztSpecCheck, h2, ↓reduceIte, h0, Nat.zero_add, List.replicate_zero, List.nil_append, hs]
  exact firstDiff_self _ 0

end specexec
section seqfilter

/-- a value list as a two-sided sequence: zero before the first sample and after the last -/
def litZ (x : List K) : ℤ → K := fun i => if 0 ≤ i then x.getD i.toNat 0 else 0

theorem lfilter_getD (b a x : List K) (n : ℕ) (hn : n < x.length) :
    (lfilterPy b a x).getD n 0 = respY b a (litZ x) (List.replicate (a.length - 1) 0) n := by
  have h0 : (0 : ℤ) ≤ (n : ℤ) := by omega
  rw [List.getD_eq_getElem _ _ (by simpa [lfilterPy] using hn)]
  simp only [lfilterPy, List.getElem_map, List.getElem_range, respY, h0, ↓reduceIte, Int.toNat_natCast]
  rfl

theorem litZ_causal (x : List K) (i : ℤ) (hi : i < 0) : litZ x i = 0 := by
  have : ¬ (0 ≤ i) := by omega
  simp [litZ, this]

theorem litZ_append_zeros (x : List K) (k : ℕ) : litZ (x ++ List.replicate k 0) = litZ x := by
  funext i
  by_cases hi : 0 ≤ i
  · simp only [litZ, hi, ↓reduceIte]
    by_cases h1 : i.toNat < x.length
    · rw [List.getD_eq_getElem _ _ (by simp; omega), List.getD_eq_getElem _ _ h1, List.getElem_append_left h1]
    · rw [List.getD_eq_default x _ (by omega)]
      by_cases h2 : i.toNat < (x ++ List.replicate k 0).length
      · rw [List.getD_eq_getElem _ _ h2, List.getElem_append_right (by omega)]; simp
      · rw [List.getD_eq_default _ _ (by omega)]
  · simp [litZ, hi]

theorem lfilter_recursion (b a x : List K) (ha : a.headD 0 ≠ 0) (n : ℕ) :
    bsum a (respY b a (litZ x) (List.replicate (a.length - 1) 0)) n = bsum b (litZ x) n := by
  have : a.length = (List.replicate (a.length - 1) (0 : K)).length + 1 := by
    cases a with
    | nil => simp at ha
    | cons _ _ => simp
  exact resp_recursion b a (litZ x) _ ha this n

theorem lfilter_convolution (b a x : List K) (ha : a.headD 0 ≠ 0) (n : ℕ) (hn : n < x.length) :
    (lfilterPy b a x).getD n 0 = ∑ p ∈ Finset.antidiagonal n, hCoeff b a p.1 * litZ x p.2 := by
  have hl : a.length = (List.replicate (a.length - 1) (0 : K)).length + 1 := by
    cases a with
    | nil => simp at ha
    | cons _ _ => simp
  rw [lfilter_getD b a x n hn]
  exact recursion_is_convolution' b a (litZ x) _ ha hl (by intro v hv; exact (List.mem_replicate.mp hv).2)
    (litZ_causal x) n

theorem convolve_getD (x h : List K) (hx : x ≠ []) (hh : h ≠ []) (n : ℕ)
    (hn : n < x.length + (h.length - 1)) :
    (convolvePy x h).getD n 0 = convAt h (litZ x) n := by
  have e : convolvePy x h = lfilterPy h [1] (x ++ List.replicate (h.length - 1) 0) := by
    simp [convolvePy, hx, hh]
  rw [e, lfilter_getD _ _ _ n (by simpa using hn), litZ_append_zeros]
  have h0 : (0 : ℤ) ≤ (n : ℤ) := by omega
  simp [respY, h0, respRun, respStep, dot, convAt]

end seqfilter
end Lcapy.DT
