/-
  Analytic anchors for C12 (the only file of the property that imports analysis from Mathlib):
  where an integral exists, the formal pair of `Spec/Fourier.lean` is the integral.
-/
import Mathlib.Analysis.SpecialFunctions.ImproperIntegrals
import Mathlib.Analysis.SpecialFunctions.Gaussian.FourierTransform
namespace Lcapy.Fourier.Anchors
open Complex MeasureTheory

/-- ∫₀^∞ e^{−αt} e^{−j2πft} dt = 1/(α + j2πf)  for Re α > 0 -/
theorem one_sided_exponential (al : ℂ) (f : ℝ) (h : 0 < al.re) :
    ∫ t in Set.Ioi (0 : ℝ), Complex.exp (-al * t) * Complex.exp (-(2 * Real.pi * f * t) * Complex.I)
      = 1 / (al + 2 * Real.pi * f * Complex.I) := by
  have hre : (-(al + 2 * Real.pi * f * Complex.I)).re < 0 := by
    simp; linarith
  have key := integral_exp_mul_complex_Ioi hre 0
  have hne : al + 2 * Real.pi * f * Complex.I ≠ 0 := by
    intro h0
    have := congrArg Complex.re h0
    simp at this
    linarith
  have hcongr : ∀ t : ℝ, Complex.exp (-al * t) * Complex.exp (-(2 * Real.pi * f * t) * Complex.I)
      = Complex.exp (-(al + 2 * Real.pi * f * Complex.I) * t) := by
    intro t
    rw [← Complex.exp_add]
    congr 1
    ring
  simp_rw [hcongr]
  rw [key]
  simp only [Complex.ofReal_zero, mul_zero, Complex.exp_zero]
  field_simp

/-- 𝓕{e^{−πt²}}(f) = e^{−πf²} -/
theorem gaussian :
    FourierTransform.fourier (fun t : ℝ => Complex.exp (-Real.pi * (t : ℂ) ^ 2)) = fun f : ℝ => Complex.exp (-Real.pi * (f : ℂ) ^ 2) := by
  have h := fourier_gaussian_pi (b := 1) (by simp)
  simpa using h

end Lcapy.Fourier.Anchors
