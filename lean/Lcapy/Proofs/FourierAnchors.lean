/-
  Analytic anchors for C12 (the only file of the property that imports analysis from Mathlib):
  where an integral exists, the formal pair of `Spec/Fourier.lean` is the integral.
-/
import Mathlib.Analysis.SpecialFunctions.ImproperIntegrals
import Mathlib.Analysis.SpecialFunctions.Gaussian.FourierTransform
import Mathlib.Analysis.SpecialFunctions.Integrals.Basic
namespace Lcapy.Fourier.Anchors
open Complex MeasureTheory

/-- ∫₀^∞ e^{−αt} e^{−j2πft} dt = 1/(α + j2πf)  for Re α > 0 -/
theorem one_sided_exponential (al : ℂ) (f : ℝ) (h : 0 < al.re) :
    ∫ t in Set.Ioi (0 : ℝ), Complex.exp (-al * t) * Complex.exp (-(2 * Real.pi * f * t) * Complex.I)
      = 1 / (al + 2 * Real.pi * f * Complex.I) := by
  have hre : (-(al + 2 * Real.pi * f * Complex.I)).re < 0 := by
    simp; linarith
  have key := integral_exp_mul_complex_Ioi hre 0
  have hne : al + 2 * Real.pi * f * Complex.I ≠ 0 := by
    intro h0
    have := congrArg Complex.re h0
    simp at this
    linarith
  have hcongr : ∀ t : ℝ, Complex.exp (-al * t) * Complex.exp (-(2 * Real.pi * f * t) * Complex.I)
      = Complex.exp (-(al + 2 * Real.pi * f * Complex.I) * t) := by
    intro t
    rw [← Complex.exp_add]
    congr 1
    ring
  simp_rw [hcongr]
  rw [key]
  simp only [Complex.ofReal_zero, mul_zero, Complex.exp_zero]
  field_simp

/-- 𝓕{e^{−πt²}}(f) = e^{−πf²} -/
theorem gaussian :
    FourierTransform.fourier (fun t : ℝ => Complex.exp (-Real.pi * (t : ℂ) ^ 2)) = fun f : ℝ => Complex.exp (-Real.pi * (f : ℂ) ^ 2) := by
  have h := fourier_gaussian_pi (b := 1) (by simp)
  simpa using h


section
open intervalIntegral

theorem kernel_ne_zero (f : ℝ) (hf : f ≠ 0) : -((2 * Real.pi * f : ℝ) : ℂ) * Complex.I ≠ 0 := by
  have h : (2 * Real.pi * f : ℝ) ≠ 0 := mul_ne_zero (mul_ne_zero two_ne_zero Real.pi_ne_zero) hf
  exact mul_ne_zero (neg_ne_zero.mpr (ofReal_ne_zero.mpr h)) I_ne_zero

/-- rect ⟷ sinc:  ∫_{−1/2}^{1/2} e^{−j2πft} dt = sin(πf)/(πf)   (f ≠ 0; at f = 0 the integral is 1) -/
theorem rect_sinc (f : ℝ) (hf : f ≠ 0) :
    ∫ t in (-(1/2) : ℝ)..(1/2), Complex.exp (-((2 * Real.pi * f : ℝ) : ℂ) * Complex.I * t)
      = ((Real.sin (Real.pi * f) / (Real.pi * f) : ℝ) : ℂ) := by
  have hc := kernel_ne_zero f hf
  rw [integral_exp_mul_complex hc]
  have hpf : ((Real.pi * f : ℝ) : ℂ) ≠ 0 := ofReal_ne_zero.mpr (mul_ne_zero Real.pi_ne_zero hf)
  have e1 : -((2 * Real.pi * f : ℝ) : ℂ) * Complex.I * ((1 / 2 : ℝ) : ℂ) = -(((Real.pi * f : ℝ) : ℂ)) * Complex.I := by
    push_cast; ring
  have e2 : -((2 * Real.pi * f : ℝ) : ℂ) * Complex.I * ((-(1 / 2) : ℝ) : ℂ) = (((Real.pi * f : ℝ) : ℂ)) * Complex.I := by
    push_cast; ring
  rw [e1, e2]
  have e0 : -((2 * Real.pi * f : ℝ) : ℂ) * Complex.I = -(2 * ((Real.pi * f : ℝ) : ℂ)) * Complex.I := by push_cast; ring
  rw [e0, ofReal_div, ofReal_sin, Complex.sin]
  generalize ((Real.pi * f : ℝ) : ℂ) = x at *
  have hI : Complex.I ≠ 0 := I_ne_zero
  field_simp
  ring_nf
  rw [Complex.I_sq]; ring

theorem rect_sinc_zero : ∫ t in (-(1/2) : ℝ)..(1/2), Complex.exp (-((2 * Real.pi * (0:ℝ) : ℝ) : ℂ) * Complex.I * t) = 1 := by
  simp; norm_num


/-- antiderivatives of (1 ∓ t) e^{ct} -/
theorem hasDerivAt_tri_right (c : ℂ) (hc : c ≠ 0) (x : ℝ) :
    HasDerivAt (fun t : ℝ => (1 - (t : ℂ)) * Complex.exp (c * t) / c + Complex.exp (c * t) / c ^ 2)
      ((1 - (x : ℂ)) * Complex.exp (c * x)) x := by
  have h1 : HasDerivAt (fun t : ℝ => (t : ℂ)) 1 x := Complex.ofRealCLM.hasDerivAt
  have h3 : HasDerivAt (fun t : ℝ => Complex.exp (c * t)) (Complex.exp (c * x) * (c * 1)) x := (h1.const_mul c).cexp
  have h4 : HasDerivAt (fun t : ℝ => 1 - (t : ℂ)) (0 - 1) x := (hasDerivAt_const x (1 : ℂ)).fun_sub h1
  have h5 := ((h4.fun_mul h3).div_const c).fun_add (h3.div_const (c ^ 2))
  refine h5.congr_deriv ?_
  field_simp; ring

theorem hasDerivAt_tri_left (c : ℂ) (hc : c ≠ 0) (x : ℝ) :
    HasDerivAt (fun t : ℝ => (1 + (t : ℂ)) * Complex.exp (c * t) / c - Complex.exp (c * t) / c ^ 2)
      ((1 + (x : ℂ)) * Complex.exp (c * x)) x := by
  have h1 : HasDerivAt (fun t : ℝ => (t : ℂ)) 1 x := Complex.ofRealCLM.hasDerivAt
  have h3 : HasDerivAt (fun t : ℝ => Complex.exp (c * t)) (Complex.exp (c * x) * (c * 1)) x := (h1.const_mul c).cexp
  have h4 : HasDerivAt (fun t : ℝ => 1 + (t : ℂ)) (0 + 1) x := (hasDerivAt_const x (1 : ℂ)).fun_add h1
  have h5 := ((h4.fun_mul h3).div_const c).fun_sub (h3.div_const (c ^ 2))
  refine h5.congr_deriv ?_
  field_simp; ring

/-- tri ⟷ sinc²:  ∫_{−1}^{1} (1 − |t|) e^{−j2πft} dt = (sin(πf)/(πf))²   (f ≠ 0) -/
theorem tri_sinc2 (f : ℝ) (hf : f ≠ 0) :
    ∫ t in (-1 : ℝ)..1, ((1 - |t| : ℝ) : ℂ) * Complex.exp (-((2 * Real.pi * f : ℝ) : ℂ) * Complex.I * t)
      = (((Real.sin (Real.pi * f) / (Real.pi * f)) ^ 2 : ℝ) : ℂ) := by
  have hc := kernel_ne_zero f hf
  set c : ℂ := -((2 * Real.pi * f : ℝ) : ℂ) * Complex.I with hcdef
  have hcont : ∀ a b : ℝ, IntervalIntegrable (fun t : ℝ => ((1 - |t| : ℝ) : ℂ) * Complex.exp (c * t)) volume a b := by
    intro a b
    apply Continuous.intervalIntegrable
    fun_prop
  rw [← integral_add_adjacent_intervals (hcont (-1) 0) (hcont 0 1)]
  have hL : ∫ t in (-1 : ℝ)..0, ((1 - |t| : ℝ) : ℂ) * Complex.exp (c * t)
      = ∫ t in (-1 : ℝ)..0, (1 + (t : ℂ)) * Complex.exp (c * t) := by
    apply integral_congr
    intro t ht
    rw [Set.uIcc_of_le (by norm_num : (-1 : ℝ) ≤ 0)] at ht
    simp only [abs_of_nonpos ht.2]; push_cast; ring
  have hR : ∫ t in (0 : ℝ)..1, ((1 - |t| : ℝ) : ℂ) * Complex.exp (c * t)
      = ∫ t in (0 : ℝ)..1, (1 - (t : ℂ)) * Complex.exp (c * t) := by
    apply integral_congr
    intro t ht
    rw [Set.uIcc_of_le (by norm_num : (0 : ℝ) ≤ 1)] at ht
    simp only [abs_of_nonneg ht.1]; push_cast; ring
  rw [hL, hR]
  rw [integral_eq_sub_of_hasDerivAt (fun x _ => hasDerivAt_tri_left c hc x)
        ((Continuous.intervalIntegrable (by fun_prop) _ _)),
      integral_eq_sub_of_hasDerivAt (fun x _ => hasDerivAt_tri_right c hc x)
        ((Continuous.intervalIntegrable (by fun_prop) _ _))]
  simp only [ofReal_zero, ofReal_one, ofReal_neg, mul_zero, Complex.exp_zero, add_zero, sub_self, zero_mul, zero_div, mul_one,
    add_neg_cancel, sub_zero, zero_add, zero_sub]
  have e0 : c = -(2 * ((Real.pi * f : ℝ) : ℂ)) * Complex.I := by rw [hcdef]; push_cast; ring
  rw [ofReal_pow, ofReal_div, ofReal_sin, Complex.sin]
  rw [e0] at hc ⊢
  have hx : ((Real.pi * f : ℝ) : ℂ) ≠ 0 := ofReal_ne_zero.mpr (mul_ne_zero Real.pi_ne_zero hf)
  generalize ((Real.pi * f : ℝ) : ℂ) = x at *
  have hI : Complex.I ≠ 0 := I_ne_zero
  have e1 : Complex.exp (-(2 * x) * Complex.I) = Complex.exp (-x * Complex.I) ^ 2 := by
    rw [← Complex.exp_nat_mul]; congr 1; ring
  have e2 : Complex.exp (-(2 * x) * Complex.I * -1) = Complex.exp (x * Complex.I) ^ 2 := by
    rw [← Complex.exp_nat_mul]; congr 1; ring
  have e3 : Complex.exp (-x * Complex.I) * Complex.exp (x * Complex.I) = 1 := by
    rw [← Complex.exp_add]; simp
  rw [e1, e2]
  generalize Complex.exp (-x * Complex.I) = A at *
  generalize Complex.exp (x * Complex.I) = B at *
  have key : A ^ 2 + B ^ 2 - 2 = (A - B) ^ 2 := by linear_combination 2 * e3
  have hI2 : Complex.I ^ 2 = -1 := Complex.I_sq
  have lhs : 1 / (-(2 * x) * Complex.I) - 1 / (-(2 * x) * Complex.I) ^ 2 - -(B ^ 2 / (-(2 * x) * Complex.I) ^ 2) +
      (A ^ 2 / (-(2 * x) * Complex.I) ^ 2 - (1 / (-(2 * x) * Complex.I) + 1 / (-(2 * x) * Complex.I) ^ 2))
      = (A ^ 2 + B ^ 2 - 2) / (-(2 * x) * Complex.I) ^ 2 := by
    field_simp; ring
  rw [lhs, key]
  have den : (-(2 * x) * Complex.I) ^ 2 = -(4 * x ^ 2) := by ring_nf; rw [hI2]; ring
  rw [den]
  field_simp
  ring_nf
  rw [hI2]; ring


/-- two-sided exponential:  ∫_{−∞}^{∞} e^{−α|t|} e^{−j2πft} dt = 1/(α + j2πf) + 1/(α − j2πf) = 2α/(α² + (2πf)²)   (α > 0)
    — the sum of the pair `expu 0 α ⟷ cpole 1 α` and of its reflection, as the formal class represents `e^{−α|t|}` -/
theorem two_sided_exponential (al f : ℝ) (h : 0 < al) :
    ∫ t : ℝ, Complex.exp (-(al : ℂ) * ((|t| : ℝ) : ℂ)) * Complex.exp (-((2 * Real.pi * f : ℝ) : ℂ) * Complex.I * t)
      = 1 / ((al : ℂ) + ((2 * Real.pi * f : ℝ) : ℂ) * Complex.I) + 1 / ((al : ℂ) - ((2 * Real.pi * f : ℝ) : ℂ) * Complex.I) := by
  set w : ℂ := ((2 * Real.pi * f : ℝ) : ℂ) with hw
  have hwre : (w * Complex.I).re = 0 := by simp [hw]
  have hLre : 0 < ((al : ℂ) - w * Complex.I).re := by simp [hw]; exact h
  have hRre : (-((al : ℂ) + w * Complex.I)).re < 0 := by simp [hw]; exact h
  -- the integrand on each half line
  have eL : ∀ t ∈ Set.Iic (0 : ℝ), Complex.exp (-(al : ℂ) * ((|t| : ℝ) : ℂ)) * Complex.exp (-w * Complex.I * t)
      = Complex.exp (((al : ℂ) - w * Complex.I) * t) := by
    intro t ht
    rw [abs_of_nonpos ht, ← Complex.exp_add]; congr 1; push_cast; ring
  have eR : ∀ t ∈ Set.Ioi (0 : ℝ), Complex.exp (-(al : ℂ) * ((|t| : ℝ) : ℂ)) * Complex.exp (-w * Complex.I * t)
      = Complex.exp (-((al : ℂ) + w * Complex.I) * t) := by
    intro t ht
    rw [abs_of_pos ht, ← Complex.exp_add]; congr 1; ring
  have iL : IntegrableOn (fun t : ℝ => Complex.exp (-(al : ℂ) * ((|t| : ℝ) : ℂ)) * Complex.exp (-w * Complex.I * t)) (Set.Iic 0) :=
    (integrableOn_exp_mul_complex_Iic hLre 0).congr_fun (fun t ht => (eL t ht).symm) measurableSet_Iic
  have iR : IntegrableOn (fun t : ℝ => Complex.exp (-(al : ℂ) * ((|t| : ℝ) : ℂ)) * Complex.exp (-w * Complex.I * t)) (Set.Ioi 0) :=
    (integrableOn_exp_mul_complex_Ioi hRre 0).congr_fun (fun t ht => (eR t ht).symm) measurableSet_Ioi
  rw [← integral_Iic_add_Ioi iL iR, setIntegral_congr_fun measurableSet_Iic eL, setIntegral_congr_fun measurableSet_Ioi eR,
    integral_exp_mul_complex_Iic hLre, integral_exp_mul_complex_Ioi hRre]
  have h1 : (al : ℂ) + w * Complex.I ≠ 0 := by
    intro h0; have := congrArg Complex.re h0; simp [hw] at this; linarith
  have h2 : (al : ℂ) - w * Complex.I ≠ 0 := by
    intro h0; have := congrArg Complex.re h0; simp [hw] at this; linarith
  simp only [ofReal_zero, mul_zero, Complex.exp_zero]
  field_simp
  ring

/-- … in closed form -/
theorem two_sided_exponential_closed (al f : ℝ) (h : 0 < al) :
    ∫ t : ℝ, Complex.exp (-(al : ℂ) * ((|t| : ℝ) : ℂ)) * Complex.exp (-((2 * Real.pi * f : ℝ) : ℂ) * Complex.I * t)
      = ((2 * al / (al ^ 2 + (2 * Real.pi * f) ^ 2) : ℝ) : ℂ) := by
  rw [two_sided_exponential al f h]
  have h1 : (al : ℂ) + ((2 * Real.pi * f : ℝ) : ℂ) * Complex.I ≠ 0 := by
    intro h0; have := congrArg Complex.re h0; simp at this; linarith
  have h2 : (al : ℂ) - ((2 * Real.pi * f : ℝ) : ℂ) * Complex.I ≠ 0 := by
    intro h0; have := congrArg Complex.re h0; simp at this; linarith
  have e : ((2 * al / (al ^ 2 + (2 * Real.pi * f) ^ 2) : ℝ) : ℂ)
      = 2 * (al : ℂ) / (((al : ℂ) + ((2 * Real.pi * f : ℝ) : ℂ) * Complex.I) * ((al : ℂ) - ((2 * Real.pi * f : ℝ) : ℂ) * Complex.I)) := by
    have : ((al : ℂ) + ((2 * Real.pi * f : ℝ) : ℂ) * Complex.I) * ((al : ℂ) - ((2 * Real.pi * f : ℝ) : ℂ) * Complex.I)
        = ((al ^ 2 + (2 * Real.pi * f) ^ 2 : ℝ) : ℂ) := by
      push_cast; ring_nf; rw [Complex.I_sq]; ring
    rw [this]; push_cast; ring
  rw [e]
  generalize ((2 * Real.pi * f : ℝ) : ℂ) = w at *
  field_simp
  ring


end

end Lcapy.Fourier.Anchors
