/-
  Lemmas for `Lcapy/Model/RatfunFmt.lean` (C11, round 3): coefficient lists, degrees, top-and-bottom
  scaling, rationalisation, the reciprocal variable, the simplify loops, root dictionaries.
  The lemmas here are stated for DECODED parameters (literal strings); Props/C11b.lean instantiates them with
  the constants generated from the source text.
-/
import Lcapy.Model.RatfunFmt
import Lcapy.Proofs.PolyRatfun
import Lcapy.Proofs.PolySynth
namespace Lcapy.RatfunFmt
open Lcapy.Poly Lcapy.Ratfun
variable {K : Type} [Field K] [DecidableEq K]
set_option linter.unusedSimpArgs false
set_option linter.unusedVariables false
set_option linter.unusedSectionVars false

/-! ### coefficient lists -/

theorem foldl_high (cs : List K) (a x : K) :
    cs.foldl (fun acc c => acc * x + c) a = a * x ^ cs.length + evalHigh cs x := by
  induction cs generalizing a with
  | nil => simp [evalHigh]
  | cons c cs ih =>
    simp only [List.foldl_cons, evalHigh, List.length_cons]
    rw [ih, ih (0 * x + c)]
    ring

theorem evalHigh_cons (c : K) (cs : List K) (x : K) :
    evalHigh (c :: cs) x = c * x ^ cs.length + evalHigh cs x := by
  simp only [evalHigh, List.foldl_cons]
  rw [foldl_high]; simp [evalHigh]

theorem evalHigh_append_single (cs : List K) (c x : K) : evalHigh (cs ++ [c]) x = evalHigh cs x * x + c := by
  simp [evalHigh, List.foldl_append]

theorem evalHigh_reverse (p : List K) (x : K) : evalHigh p.reverse x = Poly.eval p x := by
  induction p with
  | nil => simp [evalHigh]
  | cons a p ih => rw [List.reverse_cons, evalHigh_append_single, ih, eval_cons]; ring

/-- **coeffs**: the coefficient list `all_coeffs()` re-assembles to the polynomial. -/
theorem evalHigh_allCoeffs (p : List K) (x : K) : evalHigh (allCoeffs p) x = Poly.eval p x := by
  unfold allCoeffs
  cases h : trim p with
  | nil =>
    have := eval_trim p x
    rw [h] at this
    simp [evalHigh, ← this]
  | cons b q => simp only []; rw [evalHigh_reverse, ← h, eval_trim]

theorem foldl_map_div (cs : List K) (a d x : K) :
    (cs.map (fun c => c / d)).foldl (fun acc c => acc * x + c) (a / d) =
      cs.foldl (fun acc c => acc * x + c) a / d := by
  induction cs generalizing a with
  | nil => simp
  | cons c cs ih =>
    simp only [List.map_cons, List.foldl_cons]
    rw [← ih]; congr 1; ring

theorem evalHigh_map_div (cs : List K) (d x : K) :
    evalHigh (cs.map (fun c => c / d)) x = evalHigh cs x / d := by
  have := foldl_map_div cs 0 d x
  simpa [evalHigh] using this

theorem allCoeffs_of_lc_ne_zero {p : List K} (h : lc p ≠ 0) : allCoeffs p = (trim p).reverse := by
  unfold allCoeffs
  cases ht : trim p with
  | nil => exact absurd ((lc_eq_zero_iff p).2 ht) h
  | cons b q => rfl

theorem head_reverse_getLastD (q : List K) (hq : q ≠ []) : q.reverse.getD 0 0 = q.getLastD 0 := by
  rcases List.eq_nil_or_concat q with h1 | ⟨l, a, h1⟩
  · exact absurd h1 hq
  · subst h1; simp

/-- the coefficient at Python index 0 of `all_coeffs()` is the leading coefficient -/
theorem pyIndex_zero_allCoeffs {p : List K} (h : lc p ≠ 0) : pyIndex (allCoeffs p) 0 = lc p := by
  have hne : trim p ≠ [] := fun h0 => h ((lc_eq_zero_iff p).2 h0)
  rw [allCoeffs_of_lc_ne_zero h]
  simp only [pyIndex, ge_iff_le, le_refl, if_true, Int.toNat_zero]
  rw [head_reverse_getLastD _ hne]; rfl

theorem length_allCoeffs {p : List K} (h : lc p ≠ 0) : (allCoeffs p).length = degree p + 1 := by
  have hne : trim p ≠ [] := fun h0 => h ((lc_eq_zero_iff p).2 h0)
  rw [allCoeffs_of_lc_ne_zero h, List.length_reverse, degree]
  have := List.length_pos_iff.mpr hne
  omega

/-- **normcoeffs** (normalising index 0): `LC · (normalised polynomial) = polynomial` -/
theorem normCoeffs_value {p : List K} (h : lc p ≠ 0) (x : K) :
    lc p * evalHigh (normCoeffs 0 p) x = Poly.eval p x := by
  unfold normCoeffs
  simp only []
  rw [evalHigh_map_div, pyIndex_zero_allCoeffs h, evalHigh_allCoeffs]
  field_simp

/-- … and the highest coefficient of the normalised list is 1 -/
theorem normCoeffs_head {p : List K} (h : lc p ≠ 0) : (normCoeffs 0 p).head? = some 1 := by
  have hne : trim p ≠ [] := fun h0 => h ((lc_eq_zero_iff p).2 h0)
  have h0 := pyIndex_zero_allCoeffs h
  unfold normCoeffs
  simp only []
  rw [h0, allCoeffs_of_lc_ne_zero h]
  obtain ⟨l, a, hl⟩ : ∃ l a, trim p = l ++ [a] := by
    rcases List.eq_nil_or_concat (trim p) with h1 | ⟨l, a, h1⟩
    · exact absurd h1 hne
    · exact ⟨l, a, by simpa using h1⟩
  have ha : a = lc p := by simp [lc, hl]
  rw [hl]
  simp only [List.reverse_append, List.reverse_cons, List.reverse_nil, List.nil_append, List.cons_append,
    List.map_cons, List.head?_cons, Option.some.injEq]
  rw [ha]; field_simp

/-! ### top and bottom -/

theorem eval_expandOver (f : RExpr K) (cs : List K) (m : Nat) (env : Env K) :
    (expandOver f cs m).eval env = env.x ^ m * Poly.eval cs env.x / f.eval env := by
  induction cs generalizing m with
  | nil => simp [expandOver, RExpr.eval]
  | cons c cs ih =>
    simp only [expandOver, RExpr.eval, ih, npow_eq, eval_cons, pow_succ]
    ring

/-- `divide_top_and_bottom`: both sides divided by the factor -/
theorem topBottom_div_value (R : RF K) (f : RExpr K) (env : Env K) (hE0 : env.E 0 = 1)
    (hf : f.eval env ≠ 0) :
    ∃ e, topBottom ["N", "Div", "factor"] ["D", "Div", "factor"] ["N", "Div", "D"] R f = some e ∧
      e.eval env = R.value env := by
  refine ⟨_, rfl, ?_⟩
  simp only [RExpr.eval, eval_expandOver, eval_delayFactor (Or.inl rfl) env hE0, eval_undefFactor, RF.value,
    pow_zero, one_mul]
  by_cases hA : Poly.eval R.A env.x = 0
  · simp [hA]
  · field_simp

/-- `multiply_top_and_bottom`: both sides multiplied by the factor -/
theorem topBottom_mul_value (R : RF K) (f : RExpr K) (env : Env K) (hE0 : env.E 0 = 1)
    (hf : f.eval env ≠ 0) :
    ∃ e, topBottom ["N", "Mult", "factor"] ["D", "Mult", "factor"] ["N", "Div", "D"] R f = some e ∧
      e.eval env = R.value env := by
  refine ⟨_, rfl, ?_⟩
  simp only [RExpr.eval, eval_delayFactor (Or.inl rfl) env hE0, eval_undefFactor, RF.value]
  by_cases hA : Poly.eval R.A env.x = 0
  · simp [hA]
  · field_simp

/-! ### `Ratfun.coeffs`, `Expr.ba` -/

theorem head_allCoeffs {p : List K} (h : lc p ≠ 0) : (allCoeffs p).head? = some (lc p) := by
  have hne : trim p ≠ [] := fun h0 => h ((lc_eq_zero_iff p).2 h0)
  rw [allCoeffs_of_lc_ne_zero h]
  rcases List.eq_nil_or_concat (trim p) with h1 | ⟨l, a, h1⟩
  · exact absurd h1 hne
  · have ha : a = lc p := by simp [lc, h1]
    rw [h1]; simp [ha]

theorem rfCoeffs_value (R : RF K) :
    ∃ b a, rfCoeffs ["Bpoly", "Apoly"] R = some (b, a) ∧
      ∀ x, evalHigh b x = Poly.eval R.B x ∧ evalHigh a x = Poly.eval R.A x :=
  ⟨_, _, rfl, fun x => ⟨evalHigh_allCoeffs _ x, evalHigh_allCoeffs _ x⟩⟩

/-- `ba` with `a = D.coeffs()`, `b = N.coeffs()`, `a0 = a[0]` -/
theorem ba_value (R : RF K) (hA : lc R.A ≠ 0) :
    ∃ b a, ba "D" "N" 0 R = some (b, a) ∧
      (∀ x, evalHigh b x / evalHigh a x = Poly.eval R.B x / Poly.eval R.A x) ∧ a.head? = some 1 := by
  have h0 := pyIndex_zero_allCoeffs hA
  by_cases h1 : pyIndex (allCoeffs R.A) 0 = 1
  · refine ⟨allCoeffs R.B, allCoeffs R.A, ?_, fun x => ?_, ?_⟩
    · show (if pyIndex (allCoeffs R.A) 0 = 1 then _ else _) = _
      rw [if_pos h1]
    · rw [evalHigh_allCoeffs, evalHigh_allCoeffs]
    · rw [head_allCoeffs hA, ← h0, h1]
  · refine ⟨(allCoeffs R.B).map (fun x => x / pyIndex (allCoeffs R.A) 0),
      (allCoeffs R.A).map (fun x => x / pyIndex (allCoeffs R.A) 0), ?_, fun x => ?_, ?_⟩
    · show (if pyIndex (allCoeffs R.A) 0 = 1 then _ else _) = _
      rw [if_neg h1]
    · rw [evalHigh_map_div, evalHigh_map_div, evalHigh_allCoeffs, evalHigh_allCoeffs, h0]
      field_simp
    · exact normCoeffs_head hA

/-! ### degrees -/

theorem getD_trim (p : List K) (m : Nat) : (trim p).getD m 0 = p.getD m 0 := by
  induction p generalizing m with
  | nil => simp [trim]
  | cons a p ih =>
    simp only [trim]
    cases hq : trim p with
    | nil =>
      have ih' : ∀ m, p.getD m 0 = 0 := fun m => by rw [← ih m, hq]; simp
      have ih'' : ∀ m, p[m]?.getD (0 : K) = 0 := fun m => by simpa using ih' m
      cases m with
      | zero => by_cases ha : a = 0 <;> simp [ha]
      | succ m => by_cases ha : a = 0 <;> simp [ha, ih'' m]
    | cons b q =>
      cases m with
      | zero => simp
      | succ m => simp only [List.getD_cons_succ]; rw [← ih m, hq]

theorem getD_getLastD (q : List K) (hq : q ≠ []) : q.getD (q.length - 1) 0 = q.getLastD 0 := by
  rcases List.eq_nil_or_concat q with h1 | ⟨l, a, h1⟩
  · exact absurd h1 hq
  · subst h1; simp

/-- the degree is the index of the last non-zero coefficient -/
theorem sdegree_fin {p : List K} {n : Nat} (h : sdegree p = .fin n) :
    p.getD n 0 ≠ 0 ∧ ∀ m, n < m → p.getD m 0 = 0 := by
  unfold sdegree at h
  cases hq : trim p with
  | nil => rw [hq] at h; simp at h
  | cons b q =>
    rw [hq] at h
    simp only [Deg.fin.injEq] at h
    have hne : trim p ≠ [] := by rw [hq]; simp
    have hl : (trim p).getLastD 0 ≠ 0 := by
      rcases trim_getLastD p with h1 | h1
      · exact absurd h1 hne
      · exact h1
    have hn : n = (trim p).length - 1 := by rw [hq]; exact h.symm
    constructor
    · rw [← getD_trim, hn, getD_getLastD _ hne]; exact hl
    · intro m hm
      rw [← getD_trim, List.getD_eq_getElem?_getD, List.getElem?_eq_none (by
        have := List.length_pos_iff.mpr hne
        omega)]
      rfl

/-- `−∞`: every coefficient vanishes -/
theorem sdegree_negInf {p : List K} (h : sdegree p = .negInf) : ∀ m, p.getD m 0 = 0 := by
  unfold sdegree at h
  cases hq : trim p with
  | nil => intro m; rw [← getD_trim, hq]; simp
  | cons b q => rw [hq] at h; simp at h

theorem sdegree_negInf_eval {p : List K} (h : sdegree p = .negInf) (x : K) : Poly.eval p x = 0 := by
  unfold sdegree at h
  cases hq : trim p with
  | nil => rw [← eval_trim, hq]; rfl
  | cons b q => rw [hq] at h; simp at h

theorem sdegree_eq_degree {p : List K} (h : lc p ≠ 0) : sdegree p = .fin (degree p) := by
  have hne : trim p ≠ [] := fun h0 => h ((lc_eq_zero_iff p).2 h0)
  unfold sdegree degree
  cases hq : trim p with
  | nil => exact absurd hq hne
  | cons b q => rfl

/-! ### `as_N_D(monic_denominator=True)`, `expandcanonical` -/

theorem asNDMonic_value (R : RF K) (env : Env K) (hE0 : env.E 0 = 1) (hA : Poly.eval R.A env.x ≠ 0) :
    ∃ n d, asNDMonic "LC" "monic" R = some (n, d) ∧ n.eval env / d.eval env = R.value env := by
  have hlc := lc_ne_zero_of_eval hA
  refine ⟨_, _, rfl, ?_⟩
  simp only [RExpr.eval, eval_delayFactor (Or.inl rfl) env hE0, eval_undefFactor, RF.value, eval_monic, eval_smul]
  field_simp

theorem expandcanonicalSrc_value {σ : K} (R : RF K) (env : Env K) (h : DelayOK σ R) (hE0 : env.E 0 = 1) :
    ∃ e, expandcanonicalSrc σ true "A" R = some e ∧ e.eval env = R.value env :=
  ⟨_, rfl, expandcanonical_value_gen R env h hE0⟩

/-! ### `canonical` with its unit-factor branches -/

theorem eval_of_polyIsConst_one {p : List K} (h : polyIsConst p 1 = true) (x : K) : Poly.eval p x = 1 := by
  have ht : trim p = [1] := by
    simpa [polyIsConst, intK] using h
  rw [← eval_trim, ht]; simp

theorem eqConst_one (g : K) : eqConst g 1 = decide (g = 1) := by simp [eqConst, intK]

theorem canonicalBr_fc_value {σ : K} (R : RF K) (env : Env K) (h : DelayOK σ R) (hE0 : env.E 0 = 1)
    (hA : Poly.eval R.A env.x ≠ 0) :
    (canonicalBr σ true [1, 1, -99] "top" R).eval env = R.value env := by
  have hlc := lc_ne_zero_of_eval hA
  have hBv : Poly.eval R.B env.x / lc R.B * (lc R.B / lc R.A) = Poly.eval R.B env.x / lc R.A := by
    by_cases hB : lc R.B = 0
    · simp [hB, eval_of_lc_zero hB]
    · field_simp
  obtain ⟨core, hcd⟩ : ∃ core : RExpr K, core = (if polyIsConst (monic R.A) 1 then RExpr.poly (monic R.B)
        else RExpr.mul (.poly (monic R.B)) (.inv (.poly (monic R.A)))) := ⟨_, rfl⟩
  have hcore : core.eval env = Poly.eval R.B env.x / lc R.B / (Poly.eval R.A env.x / lc R.A) := by
    rw [hcd]
    split
    · rename_i hD
      have := eval_of_polyIsConst_one hD env.x
      rw [eval_monic] at this
      simp only [RExpr.eval, eval_monic, this]; simp
    · simp only [RExpr.eval, eval_monic]; ring
  have hu : canonicalBr σ true [1, 1, -99] "top" R =
      .mul (if (decide (R.delay = 0) && eqConst (lc R.B / lc R.A) 1) = true then core
            else .mul (.mul (.const (lc R.B / lc R.A)) (delayFactor σ R)) core) (undefFactor R) := by
    rw [hcd]; rfl
  rw [hu]
  simp only [RExpr.eval, eval_undefFactor, RF.value]
  by_cases hk : (decide (R.delay = 0) && eqConst (lc R.B / lc R.A) 1) = true
  · rw [if_pos hk, hcore]
    rw [eqConst_one] at hk
    have hk' : R.delay = 0 ∧ lc R.B / lc R.A = 1 := by simpa using hk
    rw [hk'.1]
    simp only [neg_zero, zero_mul, hE0, mul_one]
    have : Poly.eval R.B env.x / lc R.B = Poly.eval R.B env.x / lc R.A := by rw [← hBv, hk'.2, mul_one]
    rw [this]; field_simp
  · rw [if_neg hk]
    simp only [RExpr.eval, hcore, eval_delayFactor h env hE0]
    have e2 : lc R.B / lc R.A * env.E (-R.delay * env.x) * (Poly.eval R.B env.x / lc R.B / (Poly.eval R.A env.x / lc R.A)) =
        (Poly.eval R.B env.x / lc R.B * (lc R.B / lc R.A)) / (Poly.eval R.A env.x / lc R.A) * env.E (-R.delay * env.x) := by ring
    rw [e2, hBv]; field_simp

theorem canonicalBr_value {σ : K} (R : RF K) (env : Env K) (h : DelayOK σ R) (hE0 : env.E 0 = 1)
    (hA : Poly.eval R.A env.x ≠ 0) :
    (canonicalBr σ false [-99, 1, 1] "top" R).eval env = R.value env := by
  have hlc := lc_ne_zero_of_eval hA
  obtain ⟨core, hcd⟩ : ∃ core : RExpr K, core = (if polyIsConst (monic R.A) 1 then RExpr.poly (smul (1 / lc R.A) R.B)
        else if polyIsConst (smul (1 / lc R.A) R.B) 1 then RExpr.inv (.poly (monic R.A))
        else RExpr.mul (.poly (smul (1 / lc R.A) R.B)) (.inv (.poly (monic R.A)))) := ⟨_, rfl⟩
  have hcore : core.eval env = Poly.eval R.B env.x / Poly.eval R.A env.x := by
    rw [hcd]
    split
    · rename_i hD
      have := eval_of_polyIsConst_one hD env.x
      rw [eval_monic] at this
      have hAe : Poly.eval R.A env.x = lc R.A := by field_simp at this; exact this
      simp only [RExpr.eval, eval_smul, hAe]; field_simp
    · split
      · rename_i hN
        have := eval_of_polyIsConst_one hN env.x
        rw [eval_smul] at this
        have hBe : Poly.eval R.B env.x = lc R.A := by field_simp at this; exact this
        simp only [RExpr.eval, eval_monic, hBe]; field_simp
      · simp only [RExpr.eval, eval_monic, eval_smul]; field_simp
  have hu : canonicalBr σ false [-99, 1, 1] "top" R = .mul (.mul core (delayFactor σ R)) (undefFactor R) := by
    rw [hcd]; rfl
  rw [hu]
  simp only [RExpr.eval, eval_undefFactor, RF.value, eval_delayFactor h env hE0]
  rw [hcore]

/-! ### the simplify loops -/

theorem eval_foldl_mul (l : List (RExpr K)) (f0 : RExpr K) (env : Env K) :
    (l.foldl RExpr.mul f0).eval env = f0.eval env * (l.map (fun e => e.eval env)).prod := by
  induction l generalizing f0 with
  | nil => simp
  | cons a l ih => simp only [List.foldl_cons, ih, RExpr.eval, List.map_cons, List.prod_cons]; ring

theorem eval_foldl_add (l : List (RExpr K)) (f0 : RExpr K) (env : Env K) :
    (l.foldl RExpr.add f0).eval env = f0.eval env + (l.map (fun e => e.eval env)).sum := by
  induction l generalizing f0 with
  | nil => simp
  | cons a l ih => simp only [List.foldl_cons, ih, RExpr.eval, List.map_cons, List.sum_cons]; ring

theorem map_simp_eval (simp : RExpr K → RExpr K) (env : Env K) (hs : ∀ e, (simp e).eval env = e.eval env)
    (l : List (RExpr K)) : (l.map simp).map (fun e => e.eval env) = l.map (fun e => e.eval env) := by
  induction l with
  | nil => rfl
  | cons a l ih => simp only [List.map_cons, hs a, ih]

/-- `result = factors[0]; for factor in factors[1:]: result *= simp(factor)` -/
theorem simplifyFactors_value (simp : RExpr K → RExpr K) (env : Env K)
    (hs : ∀ e, (simp e).eval env = e.eval env) (fs : List (RExpr K)) (hne : fs ≠ []) :
    ∃ e, simplifyFactors 0 1 "Mult" simp fs = some e ∧ e.eval env = (fs.map (fun e => e.eval env)).prod := by
  cases fs with
  | nil => exact absurd rfl hne
  | cons f0 rest =>
    refine ⟨_, rfl, ?_⟩
    simp only [Int.toNat_one, List.drop_one, List.tail_cons]
    rw [eval_foldl_mul, map_simp_eval simp env hs]
    simp

/-- `result = 0; for term in terms: result += simp(term)` -/
theorem simplifyTerms_value (simp : RExpr K → RExpr K) (env : Env K)
    (hs : ∀ e, (simp e).eval env = e.eval env) (ts : List (RExpr K)) :
    ∃ e, simplifyTerms 0 "Add" simp ts = some e ∧ e.eval env = (ts.map (fun e => e.eval env)).sum := by
  refine ⟨_, rfl, ?_⟩
  rw [eval_foldl_add, map_simp_eval simp env hs]
  simp [RExpr.eval]

theorem rfFactors_value (R : RF K) (env : Env K) (hE0 : env.E 0 = 1) :
    ((rfFactors R).map (fun e => e.eval env)).prod = R.value env := by
  simp only [rfFactors, List.map_cons, List.map_nil, List.prod_cons, List.prod_nil, RExpr.eval,
    eval_delayFactor (Or.inl rfl) env hE0, eval_undefFactor, RF.value]
  ring

theorem rfTerms_value (R : RF K) (cs : List K) (m : Nat) (env : Env K) (hE0 : env.E 0 = 1) :
    ((rfTerms R cs m).map (fun e => e.eval env)).sum =
      env.x ^ m * Poly.eval cs env.x / Poly.eval R.A env.x * env.E (-R.delay * env.x) * npow env.u R.nu := by
  induction cs generalizing m with
  | nil => simp [rfTerms]
  | cons c cs ih =>
    simp only [rfTerms, List.map_cons, List.sum_cons, ih, RExpr.eval, eval_delayFactor (Or.inl rfl) env hE0,
      eval_undefFactor, npow_eq, eval_cons, pow_succ]
    ring

theorem expandResponse_value (R : RF K) (env : Env K) (hE0 : env.E 0 = 1) :
    (expandResponse R).eval env = R.value env := by
  unfold expandResponse
  rw [eval_foldl_add, rfTerms_value R R.B 0 env hE0, RF.value]
  simp [RExpr.eval]

/-! ### `recippartfrac` -/

theorem recipRF_value (R : RF K) (env : Env K) (hd : R.delay = 0) (hx : env.x ≠ 0)
    (hA : Poly.eval R.A env.x ≠ 0) :
    Poly.eval (recipRF R).A (1 / env.x) ≠ 0 ∧
      (recipRF R).value ⟨1 / env.x, env.E, env.u⟩ = R.value env := by
  have hxy : env.x * (1 / env.x) = 1 := by field_simp
  have hm : 0 < max R.B.length R.A.length := by
    rcases Nat.eq_zero_or_pos (max R.B.length R.A.length) with h0 | h0
    · have : R.A.length = 0 := by have := le_max_right R.B.length R.A.length; omega
      have hA0 : R.A = [] := List.length_eq_zero_iff.mp this
      rw [hA0] at hA; simp at hA
    · exact h0
  have eB := Synth.eval_revPad R.B _ env.x (1 / env.x) hxy hm (le_max_left _ _)
  have eA := Synth.eval_revPad R.A _ env.x (1 / env.x) hxy hm (le_max_right _ _)
  have hp : env.x ^ (max R.B.length R.A.length - 1) ≠ 0 := pow_ne_zero _ hx
  have hA' : Poly.eval (revPad R.A (max R.B.length R.A.length)) (1 / env.x) ≠ 0 := by
    intro h0; apply hA; rw [← eA, h0]; ring
  refine ⟨hA', ?_⟩
  simp only [RF.value, recipRF, hd]
  rw [← eB, ← eA]
  simp only [neg_zero, zero_mul]
  field_simp

theorem recippartfrac_value_gen {σ : K} (R : RF K) (Q : List K) (poles : List (K × Nat))
    (terms : List (K × K × Nat)) (env : Env K) (hE0 : env.E 0 = 1) (hd : R.delay = 0) (hx : env.x ≠ 0)
    (hA : Poly.eval R.A env.x ≠ 0)
    (hc : pfCheck (recipRF R).B (recipRF R).A Q poles terms = true) :
    ∃ e env', recippartfrac σ "inv" "inv" R Q terms env = some (e, env') ∧ e.eval env' = R.value env := by
  obtain ⟨hA', hv⟩ := recipRF_value R env hd hx hA
  refine ⟨partfrac σ (recipRF R) Q terms, ⟨1 / env.x, env.E, env.u⟩, ?_, ?_⟩
  · unfold recippartfrac
    rw [if_pos hd]; rfl
  · rw [← hv]
    exact partfrac_value_gen (recipRF R) Q poles terms ⟨1 / env.x, env.E, env.u⟩ (Or.inr hd) hE0 hA' hc

/-! ### `rationalize_denominator` -/

theorem rationalize_value (N D : CP K) (x : K)
    (h : Poly.eval D.re x ^ 2 + Poly.eval D.im x ^ 2 ≠ 0) :
    ∃ r, rationalize "conj" ["real", "imag"] [2, 2] "Add" ["N", "Div", "D"] N D = some r ∧
      Poly.eval r.2 x = Poly.eval D.re x ^ 2 + Poly.eval D.im x ^ 2 ∧
      cmul (rationalizeValue r x) (D.eval x) = N.eval x := by
  refine ⟨(CP.mul N D.conj, Poly.add (Poly.pow D.re 2) (Poly.pow D.im 2)), rfl, ?_, ?_⟩
  · simp only [eval_add, eval_pow]
  · have hd : Poly.eval (Poly.add (Poly.pow D.re 2) (Poly.pow D.im 2)) x =
        Poly.eval D.re x ^ 2 + Poly.eval D.im x ^ 2 := by simp only [eval_add, eval_pow]
    simp only [rationalizeValue, cmul, CP.eval, CP.mul, CP.conj, hd, eval_sub, eval_add, eval_mul, eval_neg]
    ext
    · simp only; field_simp; ring
    · simp only; field_simp; ring

/-! ### root dictionaries -/

theorem rootsValue_addRoot (r : K) (n : Nat) (l : List (K × Nat)) (x : K) :
    rootsValue (addRoot r n l) x = (x - r) ^ n * rootsValue l x := by
  induction l with
  | nil => simp [addRoot, rootsValue]
  | cons qm rest ih =>
    obtain ⟨q, m⟩ := qm
    simp only [addRoot]
    by_cases hq : q = r
    · subst hq; simp only [if_true, rootsValue, List.map_cons, List.prod_cons, pow_add]; ring
    · simp only [hq, if_false]
      simp only [rootsValue, List.map_cons, List.prod_cons] at ih ⊢
      rw [ih]; ring

theorem mult_addRoot (r : K) (n : Nat) (l : List (K × Nat)) :
    ((addRoot r n l).map (fun rn => rn.2)).sum = n + (l.map (fun rn => rn.2)).sum := by
  induction l with
  | nil => simp [addRoot]
  | cons qm rest ih =>
    obtain ⟨q, m⟩ := qm
    simp only [addRoot]
    by_cases hq : q = r
    · simp only [hq, if_true, List.map_cons, List.sum_cons]; omega
    · simp only [hq, if_false, List.map_cons, List.sum_cons, ih]; omega

theorem keys_addRoot (r : K) (n : Nat) (l : List (K × Nat)) :
    (addRoot r n l).map (fun rn => rn.1) =
      if r ∈ l.map (fun rn => rn.1) then l.map (fun rn => rn.1) else l.map (fun rn => rn.1) ++ [r] := by
  induction l with
  | nil => simp [addRoot]
  | cons qm rest ih =>
    obtain ⟨q, m⟩ := qm
    simp only [addRoot]
    by_cases hq : q = r
    · subst hq; simp
    · have hq' : r ≠ q := fun h => hq h.symm
      simp only [hq, if_false, List.map_cons, ih, List.mem_cons, hq', false_or]
      split <;> simp

theorem nodup_addRoot (r : K) (n : Nat) (l : List (K × Nat)) (h : (l.map (fun rn => rn.1)).Nodup) :
    ((addRoot r n l).map (fun rn => rn.1)).Nodup := by
  rw [keys_addRoot]
  split
  · exact h
  · rename_i hr
    rw [List.nodup_append]
    refine ⟨h, by simp, ?_⟩
    intro a ha b hb
    simp only [List.mem_singleton] at hb
    subst hb
    intro hab; subst hab; exact hr ha

theorem foldl_addRoot (l acc : List (K × Nat)) (x : K) :
    rootsValue (l.foldl (fun acc rn => addRoot rn.1 rn.2 acc) acc) x = rootsValue l x * rootsValue acc x ∧
    ((l.foldl (fun acc rn => addRoot rn.1 rn.2 acc) acc).map (fun rn => rn.2)).sum =
      (l.map (fun rn => rn.2)).sum + (acc.map (fun rn => rn.2)).sum ∧
    ((acc.map (fun rn => rn.1)).Nodup →
      ((l.foldl (fun acc rn => addRoot rn.1 rn.2 acc) acc).map (fun rn => rn.1)).Nodup) := by
  induction l generalizing acc with
  | nil => simp [rootsValue]
  | cons rn rest ih =>
    obtain ⟨r, n⟩ := rn
    obtain ⟨h1, h2, h3⟩ := ih (addRoot r n acc)
    simp only [List.foldl_cons]
    refine ⟨?_, ?_, fun hn => h3 (nodup_addRoot r n acc hn)⟩
    · rw [h1, rootsValue_addRoot]; simp only [rootsValue, List.map_cons, List.prod_cons]; ring
    · rw [h2, mult_addRoot]; simp only [List.map_cons, List.sum_cons]; omega

/-- the merging loop keeps the product, the total multiplicity, and produces distinct keys -/
theorem mergeRoots_spec (l : List (K × Nat)) :
    ∃ d, mergeRoots "Add" l = some d ∧ (∀ x, rootsValue d x = rootsValue l x) ∧
      (d.map (fun rn => rn.2)).sum = (l.map (fun rn => rn.2)).sum ∧ (d.map (fun rn => rn.1)).Nodup := by
  refine ⟨_, rfl, fun x => ?_, ?_, ?_⟩
  · rw [(foldl_addRoot l [] x).1]; simp [rootsValue]
  · rw [(foldl_addRoot l [] 0).2.1]; simp
  · exact (foldl_addRoot l [] 0).2.2 (by simp)

theorem rootsAsList_spec (l : List (K × Nat)) :
    ∃ rs, rootsAsList "n" l = some rs ∧ (∀ x, (rs.map (fun r => x - r)).prod = rootsValue l x) ∧
      rs.length = (l.map (fun rn => rn.2)).sum := by
  refine ⟨_, rfl, fun x => ?_, ?_⟩
  · induction l with
    | nil => simp [rootsValue]
    | cons rn rest ih =>
      obtain ⟨r, n⟩ := rn
      simp only [List.flatMap_cons, List.map_append, List.prod_append, ih, rootsValue, List.map_cons,
        List.prod_cons, List.map_replicate, List.prod_replicate]
  · induction l with
    | nil => simp
    | cons rn rest ih =>
      obtain ⟨r, n⟩ := rn
      simp only [List.flatMap_cons, List.length_append, List.length_replicate, ih, List.map_cons, List.sum_cons]

/-! ### strictly proper functions have no polynomial part -/

theorem getD_add (p q : List K) (m : Nat) : (Poly.add p q).getD m 0 = p.getD m 0 + q.getD m 0 := by
  induction p generalizing q m with
  | nil => simp [Poly.add]
  | cons a p ih =>
    cases q with
    | nil => simp [Poly.add]
    | cons b q =>
      cases m with
      | zero => simp [Poly.add]
      | succ m => simp only [Poly.add, List.getD_cons_succ]; exact ih q m

theorem getD_smul (c : K) (p : List K) (m : Nat) : (smul c p).getD m 0 = c * p.getD m 0 := by
  induction p generalizing m with
  | nil => simp [smul]
  | cons a p ih =>
    cases m with
    | zero => simp [smul]
    | succ m => simpa [smul] using ih m

theorem getD_neg (p : List K) (m : Nat) : (Poly.neg p).getD m 0 = - p.getD m 0 := by
  induction p generalizing m with
  | nil => simp [Poly.neg]
  | cons a p ih =>
    cases m with
    | zero => simp [Poly.neg]
    | succ m => simpa [Poly.neg] using ih m

theorem getD_dropLast (S : List K) (m : Nat) :
    S.dropLast.getD m 0 = if m < S.length - 1 then S.getD m 0 else 0 := by
  induction S generalizing m with
  | nil => simp
  | cons a S ih =>
    cases S with
    | nil => simp
    | cons b S =>
      cases m with
      | zero => simp
      | succ m =>
        have := ih m
        simp only [List.dropLast_cons_cons, List.getD_cons_succ, List.length_cons] at this ⊢
        rw [this]
        simp only [Nat.add_sub_cancel]
        by_cases h : m < S.length <;> simp [h]

theorem getD_of_trim_length_le (p : List K) (m : Nat) (h : (trim p).length ≤ m) : p.getD m 0 = 0 := by
  rw [← getD_trim, List.getD_eq_getElem?_getD, List.getElem?_eq_none h]; rfl

theorem length_trim_tail_le (a : K) (p : List K) : (trim p).length ≤ (trim (a :: p)).length := by
  simp only [trim]
  cases h : trim p with
  | nil => simp
  | cons b q => simp

theorem eval_all_zero (q : List K) (h : ∀ c ∈ q, c = 0) (x : K) : Poly.eval q x = 0 := by
  induction q with
  | nil => rfl
  | cons a q ih =>
    have ha : a = 0 := h a (by simp)
    simp [ha, ih (fun c hc => h c (List.mem_cons_of_mem _ hc))]

/-- dividing a polynomial of smaller degree: the quotient has only zero coefficients and the remainder has the
    coefficients of the dividend -/
theorem divmodT_small (B A' : List K) (hlast : A'.getLastD 0 ≠ 0) (hlt : (trim B).length < A'.length) :
    (∀ c ∈ (divmodT B A').1, c = 0) ∧ ∀ m, (divmodT B A').2.getD m 0 = B.getD m 0 := by
  induction B with
  | nil => simp [divmodT]
  | cons a B ih =>
    have hlt' : (trim B).length < A'.length := lt_of_le_of_lt (length_trim_tail_le a B) hlt
    obtain ⟨ih1, ih2⟩ := ih hlt'
    have hrl := (divmodT_spec B A' hlast).2
    have hS : ∀ m, (a :: (divmodT B A').2).getD m 0 = (a :: B).getD m 0 := by
      intro m
      cases m with
      | zero => simp
      | succ m => simp only [List.getD_cons_succ]; exact ih2 m
    simp only [divmodT]
    split
    · refine ⟨?_, hS⟩
      intro c hc
      simp only [List.mem_cons] at hc
      rcases hc with h | h
      · exact h
      · exact ih1 c h
    · rename_i hge
      have hlen : (a :: (divmodT B A').2).length = A'.length := by
        simp only [List.length_cons] at hge ⊢; omega
      have hne : (a :: (divmodT B A').2) ≠ [] := by simp
      have hz : (a :: (divmodT B A').2).getLastD 0 = 0 := by
        rw [← getD_getLastD _ hne, hlen, hS]
        exact getD_of_trim_length_le _ _ (by omega)
      refine ⟨?_, ?_⟩
      · intro c hc
        simp only [List.mem_cons] at hc
        rcases hc with h | h
        · rw [h, hz]; simp
        · exact ih1 c h
      · intro m
        show (Poly.sub _ _).getD m 0 = _
        rw [hz]
        simp only [Poly.sub, getD_add, getD_neg, getD_smul, zero_div, zero_mul, neg_zero, add_zero]
        rw [getD_dropLast, hlen]
        by_cases hm : m < A'.length - 1
        · simp only [hm, if_true]; exact hS m
        · simp only [hm, if_false]
          exact (getD_of_trim_length_le _ _ (by omega)).symm

theorem trim_length_of_lt {B A : List K} (h : Deg.lt (sdegree B) (sdegree A) = true) :
    (trim B).length < (trim A).length := by
  unfold sdegree at h
  cases hb : trim B with
  | nil =>
    cases ha : trim A with
    | nil => rw [hb, ha] at h; simp [Deg.lt] at h
    | cons c q => simp
  | cons b p =>
    cases ha : trim A with
    | nil => rw [hb, ha] at h; simp [Deg.lt] at h
    | cons c q =>
      rw [hb, ha] at h
      simp only [Deg.lt, List.length_cons, Nat.add_sub_cancel, decide_eq_true_eq] at h
      simp only [List.length_cons]; omega

/-- strictly proper: long division returns a zero quotient and the numerator as remainder -/
theorem strictlyProper_quotient (R : RF K) (hA : lc R.A ≠ 0)
    (h : Deg.lt (sdegree R.B) (sdegree R.A) = true) (x : K) :
    Poly.eval (asQMA R).1 x = 0 ∧ Poly.eval (asQMA R).2.1 x = Poly.eval R.B x := by
  have hs := divmodT_small R.B (trim R.A) hA (trim_length_of_lt h)
  have hq : Poly.eval (divmod R.B R.A).1 x = 0 := eval_all_zero _ hs.1 x
  have hd := (divmod_spec' R.B R.A hA).1 x
  refine ⟨hq, ?_⟩
  show Poly.eval (divmod R.B R.A).2 x = _
  rw [hd, hq]; ring

end Lcapy.RatfunFmt
