/-
  Helper lemmas for the N-source form of superposition (C03 `each_source_alone`):
  the residual splits into a homogeneous part (depends on the shape of the netlist only, additive in
  the unknowns) and the source part (right-hand side), and a netlist whose independent quantities are
  all zero has no source part.
-/
import Lcapy.Proofs.Linear
namespace Lcapy.MNA
open Ix
variable {K : Type} [Field K]
set_option linter.unusedSimpArgs false

/-- the component with every independent quantity (source value, initial condition) set to zero -/
def Cpt.zeroSrc (c : Cpt K) : Cpt K := c.mapSrc (fun _ => 0)

/-- every netlist in which exactly ONE component keeps its independent quantities and all the others
    are zeroed (`kill_except`), in the order of the components.  For a component without independent
    quantities the entry is the fully killed netlist, whose response is zero when it is well posed. -/
def alone : List (Cpt K) → List (List (Cpt K))
  | [] => []
  | c :: t => (c :: killAll t) :: (alone t).map (fun a => c.zeroSrc :: a)

/-- pointwise sum of a list of assignments -/
def sumX : List (Ix → K) → (Ix → K)
  | [] => fun _ => 0
  | x :: t => fun i => x i + sumX t i

theorem alone_length (cs : List (Cpt K)) : (alone cs).length = cs.length := by
  induction cs with
  | nil => rfl
  | cons c t ih => simp [alone, ih]

/-- homogeneous part of one component's residual: A·x restricted to the component -/
def homog (kind : Kind) (s : K) (c : Cpt K) (x : Ix → K) (r : Ix) : K :=
  lhsSum r (ground x) (stamp kind s c).lhs

theorem residual_eq_homog (kind : Kind) (s : K) (c : Cpt K) (x : Ix → K) (r : Ix) :
    residual (stamp kind s c) x r = homog kind s c x r - rhsSum r (stamp kind s c).rhs := rfl

theorem zeroSrc_rhs (kind : Kind) (s : K) (c : Cpt K) (r : Ix) :
    rhsSum r (stamp kind s c.zeroSrc).rhs = 0 := by
  have h := stamp_rhs_scale kind s (0 : K) c r
  have hf : (fun v : K => (0 : K) * v) = fun _ => 0 := by funext v; simp
  rw [hf] at h
  simpa [Cpt.zeroSrc] using h

theorem residual_zeroSrc (kind : Kind) (s : K) (c : Cpt K) (x : Ix → K) (r : Ix) :
    residual (stamp kind s c.zeroSrc) x r = homog kind s c x r := by
  rw [residual_eq_homog, zeroSrc_rhs, sub_zero]
  simp [homog, Cpt.zeroSrc, stamp_lhs_mapSrc]

theorem homog_add (kind : Kind) (s : K) (c : Cpt K) (x y : Ix → K) (r : Ix) :
    homog kind s c (fun i => x i + y i) r = homog kind s c x r + homog kind s c y r := by
  simp [homog, ground_add, lhsSum_add]

theorem homog_zero (kind : Kind) (s : K) (c : Cpt K) (r : Ix) :
    homog kind s c (fun _ => 0) r = 0 := by
  have h := lhsSum_smul r (0 : K) (ground (fun _ => (0 : K))) (stamp kind s c).lhs
  have hg : ground (fun _ : Ix => (0 : K)) = fun _ => 0 := by
    funext i; cases i with
    | node k => cases k <;> simp [ground]
    | br m => simp [ground]
  simp only [homog, hg] at h ⊢
  simpa using h

/-- homogeneous part of a whole netlist -/
def homogAll (kind : Kind) (s : K) (cs : List (Cpt K)) (x : Ix → K) (r : Ix) : K :=
  lsum (cs.map (fun c => homog kind s c x r))

theorem homogAll_add (kind : Kind) (s : K) (cs : List (Cpt K)) (x y : Ix → K) (r : Ix) :
    homogAll kind s cs (fun i => x i + y i) r = homogAll kind s cs x r + homogAll kind s cs y r := by
  induction cs with
  | nil => simp [homogAll, lsum]
  | cons c t ih =>
    simp only [homogAll, List.map_cons, lsum] at ih ⊢
    rw [ih, homog_add]; ring

theorem homogAll_zero (kind : Kind) (s : K) (cs : List (Cpt K)) (r : Ix) :
    homogAll kind s cs (fun _ => 0) r = 0 := by
  induction cs with
  | nil => simp [homogAll, lsum]
  | cons c t ih =>
    simp only [homogAll, List.map_cons, lsum] at ih ⊢
    rw [ih, homog_zero]; ring

theorem residual_killAll (kind : Kind) (s : K) (cs : List (Cpt K)) (x : Ix → K) (r : Ix) :
    residual (stampAll kind s (killAll cs)) x r = homogAll kind s cs x r := by
  rw [residual_stampAll]
  simp only [killAll, homogAll, List.map_map]
  congr 1
  apply List.map_congr_left
  intro c _
  exact residual_zeroSrc kind s c x r

/-- the residual of a netlist is its homogeneous part at x minus its homogeneous part … plus sources:
    adding any y to the unknowns adds exactly the homogeneous part of y -/
theorem residual_shift (kind : Kind) (s : K) (cs : List (Cpt K)) (x y : Ix → K) (r : Ix) :
    residual (stampAll kind s cs) (fun i => x i + y i) r =
      residual (stampAll kind s cs) x r + homogAll kind s cs y r := by
  simp only [residual_stampAll, homogAll]
  induction cs with
  | nil => simp [lsum]
  | cons c t ih =>
    simp only [List.map_cons, lsum]
    rw [ih, residual_eq_homog, residual_eq_homog, homog_add]; ring

/-- sum over the `alone` family of the residuals at the corresponding assignments -/
def sumRes (kind : Kind) (s : K) (r : Ix) : List (List (Cpt K)) → List (Ix → K) → K
  | a :: as, x :: xs => residual (stampAll kind s a) x r + sumRes kind s r as xs
  | _, _ => 0

theorem sumRes_cons_map (kind : Kind) (s : K) (r : Ix) (c : Cpt K) (as : List (List (Cpt K)))
    (xs : List (Ix → K)) (hl : as.length = xs.length) :
    sumRes kind s r (as.map (fun a => c.zeroSrc :: a)) xs =
      homog kind s c (sumX xs) r + sumRes kind s r as xs := by
  induction as generalizing xs with
  | nil =>
    cases xs with
    | nil => simp [sumRes, sumX, homog_zero]
    | cons x t => simp at hl
  | cons a as ih =>
    cases xs with
    | nil => simp at hl
    | cons x t =>
      simp only [List.length_cons, Nat.add_right_cancel_iff] at hl
      simp only [List.map_cons, sumRes, sumX]
      rw [ih t hl, homog_add]
      have : residual (stampAll kind s (c.zeroSrc :: a)) x r =
          homog kind s c x r + residual (stampAll kind s a) x r := by
        rw [residual_stampAll, residual_stampAll]
        simp only [List.map_cons, lsum, residual_zeroSrc]
      rw [this]; ring

/-- KEY IDENTITY: the residuals of the single-source netlists at their own assignments add up to the
    residual of the full netlist at the sum of the assignments.  Any netlist, any number of sources. -/
theorem sumRes_alone (kind : Kind) (s : K) (r : Ix) (cs : List (Cpt K)) (xs : List (Ix → K))
    (hl : xs.length = cs.length) :
    sumRes kind s r (alone cs) xs = residual (stampAll kind s cs) (sumX xs) r := by
  induction cs generalizing xs with
  | nil =>
    cases xs with
    | nil => simp [alone, sumRes, sumX, residual_stampAll, lsum]
    | cons x t => simp at hl
  | cons c t ih =>
    cases xs with
    | nil => simp at hl
    | cons x xs' =>
      simp only [List.length_cons, Nat.add_right_cancel_iff] at hl
      simp only [alone, sumRes, sumX]
      rw [sumRes_cons_map kind s r c (alone t) xs' (by rw [alone_length, hl]), ih xs' hl]
      have h1 : residual (stampAll kind s (c :: killAll t)) x r =
          residual (stamp kind s c) x r + homogAll kind s t x r := by
        rw [residual_stampAll]
        simp only [List.map_cons, lsum]
        rw [← residual_stampAll, residual_killAll]
      have h2 : residual (stampAll kind s (c :: t)) (fun i => x i + sumX xs' i) r =
          residual (stamp kind s c) (fun i => x i + sumX xs' i) r +
            residual (stampAll kind s t) (fun i => x i + sumX xs' i) r := by
        rw [residual_stampAll]
        simp only [List.map_cons, lsum]
        rw [← residual_stampAll]
      rw [h1, h2, residual_eq_homog, residual_eq_homog, homog_add]
      have h3 : residual (stampAll kind s t) (fun i => x i + sumX xs' i) r =
          residual (stampAll kind s t) (sumX xs') r + homogAll kind s t x r := by
        have := residual_shift kind s t (sumX xs') x r
        have hc : (fun i => sumX xs' i + x i) = fun i => x i + sumX xs' i := by
          funext i; ring
        rw [hc] at this
        exact this
      rw [h3]; ring

end Lcapy.MNA
