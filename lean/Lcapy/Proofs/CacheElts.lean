/- C16: helper lemmas on the element dictionary and its incidence counters (core Lean only). -/
import Lcapy.Proofs.CacheTab
set_option linter.unusedSimpArgs false
set_option linter.unusedVariables false
namespace Lcapy.Cache

theorem findElt_none (E : List Elt) (nm : String) : findElt E nm = none ↔ ∀ x ∈ E, x.name ≠ nm := by
  induction E with
  | nil => simp [findElt]
  | cons x xs ih =>
    unfold findElt at ih ⊢
    by_cases hx : x.name = nm <;> simp [List.find?, hx, ih]

theorem findElt_some_mem (E : List Elt) (nm : String) (e : Elt) (h : findElt E nm = some e) : e ∈ E ∧ e.name = nm := by
  unfold findElt at h
  have h1 := List.mem_of_find?_eq_some h
  have h2 := List.find?_some h
  simp at h2
  exact ⟨h1, h2⟩

theorem upsert_new_count (E : List Elt) (e : Elt) (n : String) (h : findElt E e.name = none) :
    incCount (upsert E e) n = incCount E n + contribC e n := by
  induction E with
  | nil => simp [upsert, incCount, contribC]
  | cons x xs ih =>
    have hx : ¬ x.name = e.name := by
      have := (findElt_none _ _).1 h x (List.mem_cons_self ..); exact this
    have h' : findElt xs e.name = none := by
      rw [findElt_none] at h ⊢; intro y hy; exact h y (List.mem_cons_of_mem _ hy)
    simp [upsert, hx, incCount, ih h']; omega

theorem upsert_new_deg (E : List Elt) (e : Elt) (n : String) (h : findElt E e.name = none) :
    incDeg (upsert E e) n = incDeg E n + contribD e n := by
  induction E with
  | nil => simp [upsert, incDeg, contribD]
  | cons x xs ih =>
    have hx : ¬ x.name = e.name := by
      have := (findElt_none _ _).1 h x (List.mem_cons_self ..); exact this
    have h' : findElt xs e.name = none := by
      rw [findElt_none] at h ⊢; intro y hy; exact h y (List.mem_cons_of_mem _ hy)
    simp [upsert, hx, incDeg, ih h']; omega

theorem upsert_old_count (E : List Elt) (e old : Elt) (n : String) (h : findElt E e.name = some old) :
    incCount (upsert E e) n + contribC old n = incCount E n + contribC e n := by
  induction E with
  | nil => simp [findElt] at h
  | cons x xs ih =>
    by_cases hx : x.name = e.name
    · have : old = x := by unfold findElt at h; simp [List.find?, hx] at h; exact h.symm
      subst this
      simp [upsert, hx, incCount, contribC]; omega
    · have h' : findElt xs e.name = some old := by
        unfold findElt at h ⊢; simpa [List.find?, hx] using h
      have := ih h'
      simp [upsert, hx, incCount]; omega

theorem upsert_old_deg (E : List Elt) (e old : Elt) (n : String) (h : findElt E e.name = some old) :
    incDeg (upsert E e) n + contribD old n = incDeg E n + contribD e n := by
  induction E with
  | nil => simp [findElt] at h
  | cons x xs ih =>
    by_cases hx : x.name = e.name
    · have : old = x := by unfold findElt at h; simp [List.find?, hx] at h; exact h.symm
      subst this
      simp [upsert, hx, incDeg, contribD]; omega
    · have h' : findElt xs e.name = some old := by
        unfold findElt at h ⊢; simpa [List.find?, hx] using h
      have := ih h'
      simp [upsert, hx, incDeg]; omega

theorem eraseName_notin (E : List Elt) (nm : String) (h : ∀ x ∈ E, x.name ≠ nm) : eraseName E nm = E := by
  induction E with
  | nil => rfl
  | cons x xs ih =>
    have hx : ¬ x.name = nm := h x (List.mem_cons_self ..)
    simp [eraseName, hx, ih (fun y hy => h y (List.mem_cons_of_mem _ hy))]

theorem eraseName_count (E : List Elt) (nm : String) (e : Elt) (n : String)
    (h : findElt E nm = some e) (hu : uniqueNames E) :
    incCount (eraseName E nm) n + contribC e n = incCount E n := by
  induction E with
  | nil => simp [findElt] at h
  | cons x xs ih =>
    by_cases hx : x.name = nm
    · have : e = x := by unfold findElt at h; simp [List.find?, hx] at h; exact h.symm
      subst this
      have hn : ∀ y ∈ xs, y.name ≠ nm := fun y hy => hx ▸ hu.1 y hy
      simp [eraseName, hx, incCount, contribC, eraseName_notin xs nm hn]; omega
    · have h' : findElt xs nm = some e := by
        unfold findElt at h ⊢; simpa [List.find?, hx] using h
      have := ih h' hu.2
      simp [eraseName, hx, incCount]; omega

theorem eraseName_deg (E : List Elt) (nm : String) (e : Elt) (n : String)
    (h : findElt E nm = some e) (hu : uniqueNames E) :
    incDeg (eraseName E nm) n + contribD e n = incDeg E n := by
  induction E with
  | nil => simp [findElt] at h
  | cons x xs ih =>
    by_cases hx : x.name = nm
    · have : e = x := by unfold findElt at h; simp [List.find?, hx] at h; exact h.symm
      subst this
      have hn : ∀ y ∈ xs, y.name ≠ nm := fun y hy => hx ▸ hu.1 y hy
      simp [eraseName, hx, incDeg, contribD, eraseName_notin xs nm hn]; omega
    · have h' : findElt xs nm = some e := by
        unfold findElt at h ⊢; simpa [List.find?, hx] using h
      have := ih h' hu.2
      simp [eraseName, hx, incDeg]; omega

theorem mem_upsert (E : List Elt) (e y : Elt) (h : y ∈ upsert E e) : y = e ∨ y ∈ E := by
  induction E with
  | nil => simp [upsert] at h; exact Or.inl h
  | cons x xs ih =>
    by_cases hx : x.name = e.name
    · simp [upsert, hx] at h
      rcases h with h | h
      · exact Or.inl h
      · exact Or.inr (List.mem_cons_of_mem _ h)
    · simp [upsert, hx] at h
      rcases h with h | h
      · subst h; exact Or.inr (List.mem_cons_self ..)
      · rcases ih h with h2 | h2
        · exact Or.inl h2
        · exact Or.inr (List.mem_cons_of_mem _ h2)

theorem uniqueNames_upsert (E : List Elt) (e : Elt) (hu : uniqueNames E) : uniqueNames (upsert E e) := by
  induction E with
  | nil => simp [upsert, uniqueNames]
  | cons x xs ih =>
    by_cases hx : x.name = e.name
    · simp only [upsert, hx, if_true, uniqueNames]
      exact ⟨fun y hy => hx ▸ hu.1 y hy, hu.2⟩
    · simp only [upsert, hx, if_false, uniqueNames]
      refine ⟨fun y hy => ?_, ih hu.2⟩
      rcases mem_upsert xs e y hy with h | h
      · subst h; exact fun h2 => hx h2.symm
      · exact hu.1 y h

theorem mem_eraseName (E : List Elt) (nm : String) (y : Elt) (h : y ∈ eraseName E nm) : y ∈ E := by
  induction E with
  | nil => simp [eraseName] at h
  | cons x xs ih =>
    by_cases hx : x.name = nm
    · simp [eraseName, hx] at h; exact List.mem_cons_of_mem _ (ih h)
    · simp [eraseName, hx] at h
      rcases h with h | h
      · subst h; exact List.mem_cons_self ..
      · exact List.mem_cons_of_mem _ (ih h)

theorem uniqueNames_eraseName (E : List Elt) (nm : String) (hu : uniqueNames E) : uniqueNames (eraseName E nm) := by
  induction E with
  | nil => simp [eraseName, uniqueNames]
  | cons x xs ih =>
    by_cases hx : x.name = nm
    · simp only [eraseName, hx, if_true]; exact ih hu.2
    · simp only [eraseName, hx, if_false, uniqueNames]
      exact ⟨fun y hy => hu.1 y (mem_eraseName xs nm y hy), ih hu.2⟩

/-! ### the table built from scratch has the incidence counters -/

theorem foldl_attachElt_count (E : List Elt) (t : NodeTab) (n : String) :
    countOf (E.foldl attachElt t) n = countOf t n + incCount E n := by
  induction E generalizing t with
  | nil => simp [incCount]
  | cons e es ih => simp only [List.foldl, ih, attachElt_count, incCount]; omega

theorem foldl_attachElt_deg (E : List Elt) (t : NodeTab) (n : String) :
    degOf (E.foldl attachElt t) n = degOf t n + incDeg E n := by
  induction E generalizing t with
  | nil => simp [incDeg]
  | cons e es ih => simp only [List.foldl, ih, attachElt_deg, incDeg]; omega

theorem buildTab_count (E : List Elt) (n : String) : countOf (buildTab E) n = incCount E n := by
  simp [buildTab, foldl_attachElt_count, countOf]

theorem buildTab_deg (E : List Elt) (n : String) : degOf (buildTab E) n = incDeg E n := by
  simp [buildTab, foldl_attachElt_deg, degOf]

end Lcapy.Cache
