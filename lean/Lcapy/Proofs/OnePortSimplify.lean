/-
  Helper lemmas for C07: every `_combine` rule preserves the relation of the pair.
-/
import Lcapy.Proofs.OnePort
namespace Lcapy.OnePort
set_option linter.unusedSectionVars false
variable {K : Type} [Field K] [DecidableEq K]

/-- side conditions of the rules that divide: the combined value exists (the code would produce
    `zoo`/`nan` otherwise) and reactive elements are evaluated away from s = 0 -/
def combGuard (s : K) : Op → Leaf K → Leaf K → Prop
  | .ser, .G g1, .G g2 => g1 ≠ 0 ∧ g2 ≠ 0 ∧ g1 + g2 ≠ 0
  | .ser, .C c1 _, .C c2 _ => s ≠ 0 ∧ c1 ≠ 0 ∧ c2 ≠ 0 ∧ c1 + c2 ≠ 0
  | .par, .R r1, .R r2 => r1 ≠ 0 ∧ r2 ≠ 0 ∧ r1 + r2 ≠ 0
  | .par, .L l1 _, .L l2 _ => s ≠ 0 ∧ l1 ≠ 0 ∧ l2 ≠ 0 ∧ l1 + l2 ≠ 0
  | _, _, _ => True

theorem optEq_ic (a b : Option K) (h : optEq a b = true) : ic a = ic b := by
  cases a <;> cases b <;> simp_all [optEq, ic]

theorem icSum_ic (a b : Option K) : ic (icSum a b) = ic a + ic b := by
  cases a <;> cases b <;> simp [icSum, ic]

/-- the relation of a two-element Ser / Par -/
def pairRel (s : K) (op : Op) (a b : Leaf K) (v i : K) : Prop :=
  match op with
  | .ser => ∃ v1 v2, a.rel s v1 i ∧ b.rel s v2 i ∧ v = v1 + v2
  | .par => ∃ i1 i2, a.rel s v i1 ∧ b.rel s v i2 ∧ i = i1 + i2

theorem pairRel_mk (s : K) (op : Op) (a b : Leaf K) (v i : K) :
    (mk op [.leaf a, .leaf b]).rel s v i ↔ pairRel s op a b v i := by
  cases op
  · simp only [mk, Net.rel, relSer, SerRel, pairRel]
    constructor
    · rintro ⟨v1, v2, h1, ⟨v3, v4, h3, h4, rfl⟩, rfl⟩; subst h4; exact ⟨v1, v3, h1, h3, by ring⟩
    · rintro ⟨v1, v2, h1, h2, rfl⟩; exact ⟨v1, v2, h1, ⟨v2, 0, h2, rfl, by ring⟩, rfl⟩
  · simp only [mk, Net.rel, relPar, ParRel, pairRel]
    constructor
    · rintro ⟨i1, i2, h1, ⟨i3, i4, h3, h4, rfl⟩, rfl⟩; subst h4; exact ⟨i1, i3, h1, h3, by ring⟩
    · rintro ⟨i1, i2, h1, h2, rfl⟩; exact ⟨i1, i2, h1, ⟨i2, 0, h2, rfl, by ring⟩, rfl⟩

theorem isVzero_rel (s : K) (l : Leaf K) (h : l.isVzero = true) (v i : K) : l.rel s v i ↔ v = 0 := by
  unfold Leaf.isVzero at h; split at h <;> simp_all [Leaf.rel]
theorem isRZzero_rel (s : K) (l : Leaf K) (h : l.isRZzero = true) (v i : K) : l.rel s v i ↔ v = 0 := by
  unfold Leaf.isRZzero at h; split at h <;> simp_all [Leaf.rel, relR]
theorem isIzero_rel (s : K) (l : Leaf K) (h : l.isIzero = true) (v i : K) : l.rel s v i ↔ i = 0 := by
  unfold Leaf.isIzero at h; split at h <;> simp_all [Leaf.rel]
theorem isYGzero_rel (s : K) (l : Leaf K) (h : l.isYGzero = true) (v i : K) : l.rel s v i ↔ i = 0 := by
  unfold Leaf.isYGzero at h; split at h <;> simp_all [Leaf.rel]

theorem ser_zero_left (s : K) (a b : Leaf K) (h : ∀ v i, a.rel s v i ↔ v = 0) (v i : K) :
    pairRel s .ser a b v i ↔ b.rel s v i := by
  simp only [pairRel, h]
  constructor
  · rintro ⟨v1, v2, rfl, h2, rfl⟩; simpa using h2
  · intro h2; exact ⟨0, v, rfl, h2, by ring⟩
theorem ser_zero_right (s : K) (a b : Leaf K) (h : ∀ v i, b.rel s v i ↔ v = 0) (v i : K) :
    pairRel s .ser a b v i ↔ a.rel s v i := by
  simp only [pairRel, h]
  constructor
  · rintro ⟨v1, v2, h1, rfl, rfl⟩; simpa using h1
  · intro h1; exact ⟨v, 0, h1, rfl, by ring⟩
theorem par_zero_left (s : K) (a b : Leaf K) (h : ∀ v i, a.rel s v i ↔ i = 0) (v i : K) :
    pairRel s .par a b v i ↔ b.rel s v i := by
  simp only [pairRel, h]
  constructor
  · rintro ⟨i1, i2, rfl, h2, rfl⟩; simpa using h2
  · intro h2; exact ⟨0, i, rfl, h2, by ring⟩
theorem par_zero_right (s : K) (a b : Leaf K) (h : ∀ v i, b.rel s v i ↔ i = 0) (v i : K) :
    pairRel s .par a b v i ↔ a.rel s v i := by
  simp only [pairRel, h]
  constructor
  · rintro ⟨i1, i2, h1, rfl, rfl⟩; simpa using h1
  · intro h1; exact ⟨i, 0, h1, rfl, by ring⟩

theorem combineDiff_sound (s : K) (op : Op) (a b y : Leaf K) (h : combineDiff op a b = .one y) (v i : K) :
    pairRel s op a b v i ↔ y.rel s v i := by
  unfold combineDiff at h
  cases op <;> simp only at h
  · split at h
    · rename_i hz; cases h; exact ser_zero_left s a b (isVzero_rel s a hz) v i
    · split at h
      · rename_i hz; cases h; exact ser_zero_right s a b (isVzero_rel s b hz) v i
      · split at h
        · rename_i hz; cases h; exact ser_zero_left s a b (isRZzero_rel s a hz) v i
        · split at h
          · rename_i hz; cases h; exact ser_zero_right s a b (isRZzero_rel s b hz) v i
          · cases h
  · split at h
    · rename_i hz; cases h; exact par_zero_left s a b (isIzero_rel s a hz) v i
    · split at h
      · rename_i hz; cases h; exact par_zero_right s a b (isIzero_rel s b hz) v i
      · split at h
        · rename_i hz; cases h; exact par_zero_left s a b (isYGzero_rel s a hz) v i
        · split at h
          · rename_i hz; cases h; exact par_zero_right s a b (isYGzero_rel s b hz) v i
          · cases h

theorem combineSame_sound (s : K) (op : Op) (a b y : Leaf K) (h : combineSame op a b = .one y)
    (hg : combGuard s op a b) (v i : K) : pairRel s op a b v i ↔ y.rel s v i := by
  unfold combineSame at h
  split at h <;> cases op <;> (try simp only at h) <;> (try (cases h; done))
  -- R R
  · cases h; simp only [pairRel, Leaf.rel, relR]
    constructor
    · rintro ⟨v1, v2, rfl, rfl, rfl⟩; ring
    · intro h; exact ⟨_, _, rfl, rfl, by rw [h]; ring⟩
  · cases h; obtain ⟨h1, h2, h3⟩ := hg; simp only [pairRel, Leaf.rel, relR]
    constructor
    · rintro ⟨i1, i2, e1, e2, rfl⟩; grind
    · intro h; rename_i _ _ r1 r2
      exact ⟨v / r1, v / r2, by field_simp, by field_simp, by grind⟩
  -- G G
  · cases h; obtain ⟨h1, h2, h3⟩ := hg; simp only [pairRel, Leaf.rel]
    constructor
    · rintro ⟨v1, v2, e1, e2, rfl⟩; grind
    · intro h; rename_i _ _ g1 g2
      exact ⟨i / g1, i / g2, by field_simp, by field_simp, by grind⟩
  · cases h; simp only [pairRel, Leaf.rel]
    constructor
    · rintro ⟨i1, i2, rfl, rfl, rfl⟩; ring
    · intro h; exact ⟨_, _, rfl, rfl, by rw [h]; ring⟩
  -- L L
  · split at h
    · rename_i he; cases h; have := optEq_ic _ _ he
      simp only [pairRel, Leaf.rel, relL]
      constructor
      · rintro ⟨v1, v2, rfl, rfl, rfl⟩; rw [this]; ring
      · intro h; exact ⟨_, _, rfl, rfl, by rw [h, this]; ring⟩
    · cases h
  · cases h; obtain ⟨hs, h1, h2, h3⟩ := hg; simp only [pairRel, Leaf.rel, relL, icSum_ic]
    have m1 := mul_ne_zero hs h1; have m2 := mul_ne_zero hs h2
    constructor
    · rintro ⟨i1, i2, e1, e2, rfl⟩; grind
    · intro h; rename_i _ _ l1 i01 l2 i02
      exact ⟨(v + l1 * ic i01) / (s * l1), (v + l2 * ic i02) / (s * l2), by field_simp; ring, by field_simp; ring, by grind⟩
  -- C C
  · cases h; obtain ⟨hs, h1, h2, h3⟩ := hg; simp only [pairRel, Leaf.rel, relC, icSum_ic]
    have m1 := mul_ne_zero hs h1; have m2 := mul_ne_zero hs h2
    constructor
    · rintro ⟨v1, v2, e1, e2, rfl⟩; grind
    · intro h; rename_i _ _ c1 v01 c2 v02
      exact ⟨(i + c1 * ic v01) / (s * c1), (i + c2 * ic v02) / (s * c2), by field_simp; ring, by field_simp; ring, by grind⟩
  · split at h
    · rename_i he; cases h; have := optEq_ic _ _ he
      simp only [pairRel, Leaf.rel, relC]
      constructor
      · rintro ⟨i1, i2, rfl, rfl, rfl⟩; rw [this]; ring
      · intro h; exact ⟨_, _, rfl, rfl, by rw [h, this]; ring⟩
    · cases h
  -- Vdc Vdc, V V
  · cases h; simp only [pairRel, Leaf.rel]
    constructor
    · rintro ⟨v1, v2, rfl, rfl, rfl⟩; rfl
    · intro h; exact ⟨_, _, rfl, rfl, h⟩
  · cases h; simp only [pairRel, Leaf.rel]
    constructor
    · rintro ⟨v1, v2, rfl, rfl, rfl⟩; rfl
    · intro h; exact ⟨_, _, rfl, rfl, h⟩
  -- Idc Idc, I I
  · cases h; simp only [pairRel, Leaf.rel]
    constructor
    · rintro ⟨i1, i2, rfl, rfl, rfl⟩; ring
    · intro h; exact ⟨_, _, rfl, rfl, by rw [h]; ring⟩
  · cases h; simp only [pairRel, Leaf.rel]
    constructor
    · rintro ⟨i1, i2, rfl, rfl, rfl⟩; ring
    · intro h; exact ⟨_, _, rfl, rfl, by rw [h]; ring⟩

end Lcapy.OnePort
