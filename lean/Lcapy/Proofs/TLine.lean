/-
  C10 — hyperbolic forms: soundness of the series oracle, closed form of the partial sums of `tline_end`.
-/
import Lcapy.Proofs.LaplaceDS
import Lcapy.Model.TLine
namespace Lcapy.Laplace
variable {K : Type} [Field K]

theorem eval_monomial (c w : K) (k : Nat) : Poly.eval (monomial c k) w = c * w ^ k := by
  induction k with
  | zero => simp [monomial]
  | succ k ih => simp [monomial, ih]; ring

theorem eval_seriesPoly (terms : List (K × Nat)) (w : K) :
    Poly.eval (seriesPoly terms) w = (terms.map (fun x => x.1 * w ^ x.2)).sum := by
  induction terms with
  | nil => simp [seriesPoly]
  | cons x r ih => obtain ⟨c, k⟩ := x; simp [seriesPoly, Poly.eval_add, eval_monomial, ih]

/-- a list whose coefficients of order ≤ K vanish is `w^{K+1}` times the rest -/
theorem lowZero_eval [DecidableEq K] (w : K) : ∀ (k : Nat) (p : Poly K), lowZero k p = true →
    Poly.eval p w = w ^ (k + 1) * Poly.eval (p.drop (k + 1)) w := by
  intro k
  induction k with
  | zero =>
    intro p h
    cases p with
    | nil => simp
    | cons a p => simp [lowZero] at h; simp [h]
  | succ k ih =>
    intro p h
    cases p with
    | nil => simp
    | cons a p =>
      simp only [lowZero, Bool.and_eq_true, decide_eq_true_eq] at h
      simp only [Poly.eval_cons, h.1, zero_add, List.drop_succ_cons, ih p h.2]; ring

/-- soundness of the series oracle: accepted terms differ from `P/Q` by `w^{K+1}·W(w)/Q(w)` with `W` a polynomial -/
theorem series_check_sound' [DecidableEq K] (P Q : Poly K) (terms : List (K × Nat)) (k : Nat)
    (h : seriesCheck P Q terms k = true) :
    ∃ W : Poly K, ∀ w, Poly.eval Q w ≠ 0 →
      (terms.map (fun x => x.1 * w ^ x.2)).sum = Poly.eval P w / Poly.eval Q w + w ^ (k + 1) * (Poly.eval W w / Poly.eval Q w) := by
  refine ⟨(Poly.add (Poly.mul Q (seriesPoly terms)) (Poly.smul (-1) P)).drop (k + 1), ?_⟩
  intro w hQ
  have := lowZero_eval w k _ h
  rw [Poly.eval_add, Poly.eval_mul, Poly.eval_smul, eval_seriesPoly] at this
  field_simp
  linear_combination this

/-- partial sums of a geometric echo series: `(1 − g w²) Σ_{i<N} g^i w^{2i+1} = w (1 − (g w²)^N)` -/
theorem geom_echo (g w : K) (N : Nat) :
    (1 - g * w ^ 2) * ((List.range N).map (fun i => g ^ i * w ^ (2 * i + 1))).sum = w * (1 - (g * w ^ 2) ^ N) := by
  induction N with
  | zero => simp
  | succ N ih =>
    rw [List.range_succ, List.map_append, List.sum_append, mul_add, ih]
    simp only [List.map_cons, List.map_nil, List.sum_cons, List.sum_nil, add_zero]
    ring

end Lcapy.Laplace
