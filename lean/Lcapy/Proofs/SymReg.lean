/- C16: lemmas on the symbol registry / context machine (core Lean only). -/
import Lcapy.Model.SymReg
set_option linter.unusedSimpArgs false
set_option linter.unusedVariables false
namespace Lcapy.SymReg

theorem lookup_put_self {α : Type} (l : List (String × α)) (n : String) (a : α) : (put l n a).lookup n = some a := by
  induction l with
  | nil => simp [put, List.lookup]
  | cons p ps ih =>
    by_cases h : p.1 = n
    · simp [put, h, List.lookup]
    · have : (n == p.1) = false := by simpa using fun e => h e.symm
      simp [put, h, List.lookup, this, ih]

theorem lookup_put_other {α : Type} (l : List (String × α)) (n m : String) (a : α) (h : m ≠ n) :
    (put l n a).lookup m = l.lookup m := by
  induction l with
  | nil =>
    have : (m == n) = false := by simpa using h
    simp [put, List.lookup, this]
  | cons p ps ih =>
    by_cases hp : p.1 = n
    · have h1 : (m == n) = false := by simpa using h
      have h2 : (m == p.1) = false := by rw [hp]; exact h1
      simp [put, hp, List.lookup, h1, h2]
    · by_cases hm : m = p.1
      · subst hm; simp [put, hp, List.lookup]
      · have h2 : (m == p.1) = false := by simpa using hm
        simp [put, hp, List.lookup, h2, ih]

theorem lookup_drop_self {α : Type} (l : List (String × α)) (n : String) : (drop l n).lookup n = none := by
  induction l with
  | nil => rfl
  | cons p ps ih =>
    by_cases h : p.1 = n
    · simp [drop, List.filter, h] at ih ⊢; exact ih
    · have : (n == p.1) = false := by simpa using fun e => h e.symm
      simp [drop, List.filter, h, List.lookup, this] at ih ⊢; exact ih

theorem lookup_drop_other {α : Type} (l : List (String × α)) (n m : String) (h : m ≠ n) :
    (drop l n).lookup m = l.lookup m := by
  induction l with
  | nil => rfl
  | cons p ps ih =>
    by_cases hp : p.1 = n
    · have h2 : (m == p.1) = false := by rw [hp]; simpa using h
      have h3 : (m == n) = false := by simpa using h
      simp [drop, List.filter, hp, List.lookup, h2, h3] at ih ⊢; exact ih
    · by_cases hm : m = p.1
      · subst hm; simp [drop, List.filter, hp, List.lookup]
      · have h2 : (m == p.1) = false := by simpa using hm
        simp [drop, List.filter, hp, List.lookup, h2] at ih ⊢; exact ih

/-! ### the one-name machine simulates the registry -/

theorem view_declare (s : St) (n m : String) (a : Assum) :
    view (declare s m a) n = effStep cfg (view s n) n (.declare m a) := by
  unfold declare effStep view
  by_cases hm : m = n
  · subst hm
    simp only [if_true]
    split
    · rfl
    · simp [lookup_put_self]
  · have hn : n ≠ m := fun e => hm e.symm
    simp only [hm, if_false]
    split
    · rfl
    · simp [lookup_put_other _ _ _ _ hn]

theorem view_use (s : St) (n m : String) (a : Assum) :
    view (use s m a).1 n = effStep cfg (view s n) n (.use m a) := by
  unfold use effStep view
  by_cases hm : m = n
  · subst hm
    simp only [if_true]
    cases h1 : s.reg.lookup m with
    | some b => simp [h1]
    | none =>
      cases h2 : s.kinds.lookup m with
      | some k => simp [h1, h2]
      | none => simp [h1, h2, lookup_put_self]
  · have hn : n ≠ m := fun e => hm e.symm
    simp only [hm, if_false]
    cases h1 : s.reg.lookup m with
    | some b => rfl
    | none =>
      simp only []
      split
      · rfl
      · simp [lookup_put_other _ _ _ _ hn]

theorem view_delete (s : St) (n m : String) :
    view (delete cfg s m) n = effStep cfg (view s n) n (.delete m) := by
  unfold delete effStep view
  by_cases hm : m = n
  · subst hm
    cases hc : cfg.deleteCleansKinds <;> simp [hc, lookup_drop_self]
  · have hn : n ≠ m := fun e => hm e.symm
    cases hc : cfg.deleteCleansKinds <;> simp [hm, hc, lookup_drop_other _ _ _ hn]

theorem view_enter (s : St) (c : Nat) (n : String) : view (enter s c) n = view s n := rfl
theorem view_leave (s : St) (n : String) : view (leave s) n = view s n := by
  unfold leave; cases s.stack <;> rfl

/-- a `use` of `m` with the default assumption, seen from `n` -/
def effUse (v : Option Assum × Option String) (n m : String) : Option Assum × Option String :=
  if m = n then (match v.1 with
    | some _ => v
    | none => if v.2.isSome then v else (some "positive", some "expr")) else v

theorem effUse_idem (v : Option Assum × Option String) (n m : String) : effUse (effUse v n m) n m = effUse v n m := by
  unfold effUse
  by_cases h : m = n
  · simp only [h, if_true]
    obtain ⟨v1, v2⟩ := v
    cases v1 with
    | some b => rfl
    | none => cases v2 <;> simp
  · simp [h]

theorem view_useAll (s : St) (ns : List String) (n : String) :
    view (useAll s ns) n = ns.foldl (fun v m => effUse v n m) (view s n) := by
  induction ns generalizing s with
  | nil => rfl
  | cons m ms ih =>
    simp only [useAll, List.foldl]
    rw [ih, view_use (cfg := ⟨true, true⟩)]
    rfl

theorem fold_effUse_not_mem (ns : List String) (n : String) (v : Option Assum × Option String) (h : ns.contains n = false) :
    ns.foldl (fun v m => effUse v n m) v = v := by
  induction ns generalizing v with
  | nil => rfl
  | cons m ms ih =>
    simp only [List.contains_cons, Bool.or_eq_false_iff] at h
    have hm : ¬ m = n := by
      intro e; have := h.1; simp [e] at this
    simp only [List.foldl]
    rw [ih _ h.2]
    simp [effUse, hm]

theorem fold_effUse_fixed (ns : List String) (n : String) (v : Option Assum × Option String) (hv : effUse v n n = v) :
    ns.foldl (fun v m => effUse v n m) v = v := by
  induction ns generalizing v with
  | nil => rfl
  | cons m ms ih =>
    simp only [List.foldl]
    by_cases hm : m = n
    · subst hm; rw [hv]; exact ih _ hv
    · have : effUse v n m = v := by simp [effUse, hm]
      rw [this]; exact ih _ hv

theorem fold_effUse_mem (ns : List String) (n : String) (v : Option Assum × Option String) (h : ns.contains n = true) :
    ns.foldl (fun v m => effUse v n m) v = effUse v n n := by
  induction ns generalizing v with
  | nil => simp at h
  | cons m ms ih =>
    simp only [List.foldl]
    by_cases hm : m = n
    · subst hm
      exact fold_effUse_fixed ms m _ (effUse_idem v m m)
    · have h' : ms.contains n = true := by
        simp only [List.contains_cons, Bool.or_eq_true] at h
        rcases h with h | h
        · exfalso; apply hm; have : n = m := by simpa using h
          exact this.symm
        · exact h
      have : effUse v n m = v := by simp [effUse, hm]
      rw [this]; exact ih _ h'

theorem view_step (cfg : Cfg) (s : St) (n : String) (op : Op) :
    view (step cfg s op).1 n = effStep cfg (view s n) n op := by
  cases op with
  | declare m a => exact view_declare s n m a
  | use m a => exact view_use s n m a
  | delete m => exact view_delete s n m
  | enter c => rfl
  | leave => exact view_leave s n
  | add c ns ok =>
    have h1 : view (step cfg s (.add c ns ok)).1 n = view (useAll (enter s c) ns) n := by
      simp only [step]; split
      · exact view_leave _ n
      · rfl
    rw [h1, view_useAll, view_enter]
    simp only [effStep]
    cases hc : ns.contains n with
    | false => simp [fold_effUse_not_mem ns n _ hc]
    | true => rw [fold_effUse_mem ns n _ hc]; simp only [effUse, if_true]; rfl

theorem view_run (cfg : Cfg) (h : List Op) (s : St) (n : String) :
    view (run cfg s h) n = effective cfg (view s n) n h := by
  induction h generalizing s with
  | nil => rfl
  | cons op ops ih => simp only [run, effective]; rw [ih, view_step]

theorem effStep_not_mentions (cfg : Cfg) (v : Option Assum × Option String) (n : String) (op : Op) (h : op.mentions n = false) :
    effStep cfg v n op = v := by
  cases op <;> simp_all [Op.mentions, effStep]

theorem effective_restrict (cfg : Cfg) (h : List Op) (v : Option Assum × Option String) (n : String) :
    effective cfg v n (restrict h n) = effective cfg v n h := by
  induction h generalizing v with
  | nil => rfl
  | cons op ops ih =>
    simp only [restrict, List.filter] at ih ⊢
    cases hm : op.mentions n with
    | true => simp only [effective]; exact ih _
    | false => simp only [effective, effStep_not_mentions cfg v n op hm]; exact ih _

theorem use_answer (s : St) (n : String) (a : Assum) : (use s n a).2 = useAnswer (view s n) a := by
  unfold use useAnswer view
  cases h1 : s.reg.lookup n with
  | some b => simp
  | none => simp only []; split <;> simp

/-! ### contexts -/

theorem useAll_ctx (s : St) (ns : List String) : (useAll s ns).cur = s.cur ∧ (useAll s ns).stack = s.stack := by
  induction ns generalizing s with
  | nil => exact ⟨rfl, rfl⟩
  | cons m ms ih =>
    simp only [useAll]
    obtain ⟨h1, h2⟩ := ih (use s m "positive").1
    have : (use s m "positive").1.cur = s.cur ∧ (use s m "positive").1.stack = s.stack := by
      unfold use
      cases s.reg.lookup m with
      | some b => exact ⟨rfl, rfl⟩
      | none => simp only []; split <;> exact ⟨rfl, rfl⟩
    exact ⟨h1.trans this.1, h2.trans this.2⟩

end Lcapy.SymReg
