/- C16: operations on one instance leave every other instance untouched (core Lean only). -/
import Lcapy.Proofs.CacheInv
set_option linter.unusedSimpArgs false
set_option linter.unusedVariables false
namespace Lcapy.Cache

variable {cfg : Config}

theorem set_other {α : Type} (l : List α) (i k : Nat) (a : α) (h : k ≠ i) : (l.set i a)[k]? = l[k]? := by
  simp [List.getElem?_set, Ne.symm h]

theorem invalidate_other (w : World) (i k : Nat) (h : k ≠ i) : (invalidate cfg w i).insts[k]? = w.insts[k]? := by
  unfold invalidate
  cases hi : w.insts[i]? with
  | none => rfl
  | some inst => simp [set_other _ _ _ _ h]

theorem addRaw_other (w : World) (i k : Nat) (e : Elt) (h : k ≠ i) : (addRaw cfg w i e).1.insts[k]? = w.insts[k]? := by
  unfold addRaw
  cases hi : w.insts[i]? with
  | none => rfl
  | some inst => simp [set_other _ _ _ _ h]

theorem add_other (w : World) (i k : Nat) (e : Elt) (h : k ≠ i) : (add cfg w i e).1.insts[k]? = w.insts[k]? := by
  unfold add
  have h1 := addRaw_other (cfg := cfg) w i k e h
  generalize addRaw cfg w i e = r at h1 ⊢
  obtain ⟨w1, ok⟩ := r
  simp only []
  split
  · simp only []; rw [invalidate_other _ _ _ h]; exact h1
  · exact h1

theorem addLines_other (w : World) (i k : Nat) (es : List Elt) (h : k ≠ i) : (addLines cfg w i es).1.insts[k]? = w.insts[k]? := by
  unfold addLines
  cases hi : w.insts[i]? with
  | none => rfl
  | some inst =>
    simp only []
    split
    · simp only []; rw [invalidate_other _ _ _ h]; simp [set_other _ _ _ _ h]
    · simp [set_other _ _ _ _ h]

theorem remove_other (w : World) (i k : Nat) (nm : String) (h : k ≠ i) : (remove cfg w i nm).1.insts[k]? = w.insts[k]? := by
  unfold remove
  cases hi : w.insts[i]? with
  | none => rfl
  | some inst =>
    simp only []
    cases ho : findElt inst.elts nm with
    | none => rfl
    | some e =>
      simp only []
      have hw0 : ∀ w0 : World, w0 = (if cfg.removeInvalidates = true then invalidate cfg w i else w) → w0.insts[k]? = w.insts[k]? := by
        intro w0 hw0; subst hw0; split
        · exact invalidate_other _ _ _ h
        · rfl
      generalize hg : (if cfg.removeInvalidates = true then invalidate cfg w i else w) = w0
      have hk := hw0 w0 hg.symm
      cases hi0 : w0.insts[i]? with
      | none => simpa using hk
      | some inst0 =>
        simp only []
        cases detachAll cfg.keepConnectedNode inst0.tab (cfg.removeSel.pick e.nodes) e.counted with
        | inl t => simp [set_other _ _ _ _ h, hk]
        | inr t => simp [set_other _ _ _ _ h, hk]

theorem readSlot_other (w : World) (i k : Nat) (d : String) (h : k ≠ i) : (readSlot cfg w i d).1.insts[k]? = w.insts[k]? := by
  unfold readSlot
  cases hi : w.insts[i]? with
  | none => rfl
  | some inst =>
    simp only []
    cases hk : cfg.kindOf d with
    | none => rfl
    | some kd =>
      simp only []
      cases hl : liveMemo cfg w i inst d with
      | some m => rfl
      | none =>
        cases kd <;> simp [set_other _ _ _ _ h]

theorem readSlots_other (ds : List String) (w : World) (i k : Nat) (h : k ≠ i) :
    (readSlots cfg i w ds).1.insts[k]? = w.insts[k]? := by
  induction ds generalizing w with
  | nil => rfl
  | cons d ds ih => simp only [readSlots]; rw [ih, readSlot_other _ _ _ _ h]

theorem newInst_other (w : World) (k : Nat) (h : k < w.insts.length) : (newInst cfg w).insts[k]? = w.insts[k]? := by
  simp [newInst, List.getElem?_append, h]

theorem addRaw_fold_other (es : List Elt) (w : World) (j k : Nat) (h : k ≠ j) :
    (es.foldl (fun w e => (addRaw cfg w j e).1) w).insts[k]? = w.insts[k]? := by
  induction es generalizing w with
  | nil => rfl
  | cons e es ih => simp only [List.foldl]; rw [ih, addRaw_other _ _ _ _ h]

theorem readSlot_length (w : World) (i : Nat) (d : String) : (readSlot cfg w i d).1.insts.length = w.insts.length := by
  unfold readSlot
  cases hi : w.insts[i]? with
  | none => rfl
  | some inst =>
    simp only []
    cases hk : cfg.kindOf d with
    | none => rfl
    | some kd =>
      simp only []
      cases hl : liveMemo cfg w i inst d with
      | some m => rfl
      | none => cases kd <;> simp

theorem readSlots_length (ds : List String) (w : World) (i : Nat) : (readSlots cfg i w ds).1.insts.length = w.insts.length := by
  induction ds generalizing w with
  | nil => rfl
  | cons d ds ih => simp only [readSlots]; rw [ih, readSlot_length]

theorem damage_other (w : World) (i k : Nat) (q : String) (h : k ≠ i) : (damage cfg w i q).insts[k]? = w.insts[k]? := by
  unfold damage
  cases hi : w.insts[i]? with
  | none => rfl
  | some inst => simp [set_other _ _ _ _ h]

theorem query_other (w : World) (i k : Nat) (q : String) (h : k ≠ i) : (query cfg w i q).1.insts[k]? = w.insts[k]? := by
  simp only [query]; rw [damage_other _ _ _ _ h, readSlots_other _ _ _ _ h]

theorem query_length (w : World) (i : Nat) (q : String) : (query cfg w i q).1.insts.length = w.insts.length := by
  simp only [query]; rw [damage_length, readSlots_length]

theorem derive_other (w : World) (i k : Nat) (pre : String) (es : List Elt) (h : k ≠ i) (hk : k < w.insts.length) :
    (derive cfg w i pre es).insts[k]? = w.insts[k]? := by
  unfold derive
  have hlen : (query cfg w i pre).1.insts.length = w.insts.length := query_length _ _ _
  rw [addRaw_fold_other _ _ _ _ (by rw [hlen]; exact Nat.ne_of_lt hk), newInst_other _ _ (by rw [hlen]; exact hk)]
  exact query_other _ _ _ _ h

/-- the source of a derived circuit keeps its elements and node table -/
theorem derive_source (w : World) (i : Nat) (pre : String) (es : List Elt) (hi : i < w.insts.length) :
    ((derive cfg w i pre es).insts[i]?).map (fun x : Inst => (x.elts, x.tab)) = (w.insts[i]?).map (fun x : Inst => (x.elts, x.tab)) := by
  unfold derive
  have hlen : (query cfg w i pre).1.insts.length = w.insts.length := query_length _ _ _
  rw [addRaw_fold_other _ _ _ _ (by rw [hlen]; exact Nat.ne_of_lt hi), newInst_other _ _ (by rw [hlen]; exact hi)]
  -- reading memo slots changes neither elements nor table
  have : ∀ (ds : List String) (w : World), ((readSlots cfg i w ds).1.insts[i]?).map (fun x : Inst => (x.elts, x.tab)) = (w.insts[i]?).map (fun x : Inst => (x.elts, x.tab)) := by
    intro ds
    induction ds with
    | nil => intro w; rfl
    | cons d ds ih =>
      intro w
      simp only [readSlots]
      rw [ih]
      unfold readSlot
      cases hi : w.insts[i]? with
      | none => simp [hi]
      | some inst =>
        simp only []
        cases hk : cfg.kindOf d with
        | none => simp [hi]
        | some kd =>
          simp only []
          cases hl : liveMemo cfg w i inst d with
          | some m => simp [hi]
          | none =>
            have hlt : i < w.insts.length := by
              rcases Nat.lt_or_ge i w.insts.length with h1 | h1
              · exact h1
              · rw [List.getElem?_eq_none h1] at hi; cases hi
            have hge : w.insts[i] = inst := by
              have := List.getElem?_eq_getElem hlt; rw [hi] at this; exact (Option.some.inj this).symm
            cases kd <;> simp [hi, List.getElem?_set, hlt, hge]
  simp only [query]
  rw [damage_abs]
  exact this _ _

theorem lookup_mem {α : Type} (l : List (String × α)) (s : String) (k : α) (h : l.lookup s = some k) : (s, k) ∈ l := by
  induction l with
  | nil => simp [List.lookup] at h
  | cons x xs ih =>
    obtain ⟨a, b⟩ := x
    by_cases hs : s = a
    · subst hs; simp [List.lookup] at h; subst h; exact List.mem_cons_self ..
    · have : (s == a) = false := by simpa using hs
      simp [List.lookup, this] at h
      exact List.mem_cons_of_mem _ (ih h)

/-- with the three flags set, admissibility is just: public operation -/
theorem runOK_of_flags (cfg : Config) (hadd : cfg.addInvalidates = true) (hmulti : cfg.addMultiInvalidates = true) (hrem : cfg.removeInvalidates = true)
    (hdet : cfg.overrideDetaches = true) (hrsel : cfg.removeSel = .all) (hosel : cfg.overrideSel = .all) (ops : List Op) (w : World)
    (hpub : ∀ op ∈ ops, op.isPublic) (hok : NoRaise cfg w ops) : RunOK cfg w ops := by
  induction ops generalizing w with
  | nil => trivial
  | cons op ops ih =>
    refine ⟨?_, hok.1, ih _ (fun o ho => hpub o (List.mem_cons_of_mem _ ho)) hok.2⟩
    have hp := hpub op (List.mem_cons_self ..)
    cases op with
    | addFail i es e late =>
      have h1 := hok.1
      simp only [step, addFail] at h1
      cases hw : w.insts[i]? <;> simp [hw] at h1
    | _ => simp_all [Op.admissible, Op.isPublic]

end Lcapy.Cache
