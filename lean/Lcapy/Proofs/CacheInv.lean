/- C16: the invariant of the cache model is preserved by every admissible step (core Lean only). -/
import Lcapy.Spec.Cache
import Lcapy.Proofs.CacheElts
set_option linter.unusedSimpArgs false
set_option linter.unusedVariables false
namespace Lcapy.Cache

variable {cfg : Config} {G : String → Bool}

theorem inv_empty : Inv cfg G World.empty := by
  refine ⟨?_, ?_, ?_⟩ <;> simp [World.empty]

theorem tabOK_build (E : List Elt) : TabOK ⟨E, buildTab E, []⟩ :=
  fun n => ⟨buildTab_count E n, buildTab_deg E n⟩

theorem inv_build (E : List Elt) (hu : uniqueNames E) : Inv cfg G (build E) := by
  refine ⟨?_, ?_, ?_⟩
  · intro i inst hi
    cases i with
    | zero => simp [build] at hi; subst hi; exact ⟨tabOK_build E, hu⟩
    | succ j => simp [build] at hi
  · intro i inst hi m hm
    cases i with
    | zero => simp [build] at hi; subst hi; simp at hm
    | succ j => simp [build] at hi
  · simp [build]

theorem inv_clock {w : World} (h : Inv cfg G w) (c : Nat) : Inv cfg G { w with clock := c } :=
  ⟨h.tab, h.memo, h.lru⟩

theorem inv_lru_sub {w : World} (h : Inv cfg G w) (l : List (Nat × Memo)) (hl : ∀ p ∈ l, p ∈ w.lru) :
    Inv cfg G { w with lru := l } :=
  ⟨h.tab, h.memo, fun p hp => h.lru p (hl p hp)⟩

/-- replacing instance `i` -/
theorem inv_setInst {w : World} (h : Inv cfg G w) (i : Nat) (inst' : Inst)
    (htab : TabOK inst' ∧ uniqueNames inst'.elts)
    (hmemo : ∀ m ∈ inst'.memo, (cfg.kindOf m.slot).isSome = true ∧ GoodMemo G inst'.elts m)
    (hlru : ∀ p ∈ w.lru, p.1 = i → GoodMemo G inst'.elts p.2) :
    Inv cfg G { w with insts := w.insts.set i inst' } := by
  refine ⟨?_, ?_, ?_⟩
  · intro j instj hj
    simp only [List.getElem?_set] at hj
    by_cases hij : i = j
    · subst hij
      by_cases hlt : i < w.insts.length
      · simp [hlt] at hj; subst hj; exact htab
      · simp [hlt] at hj
    · simp [hij] at hj; exact h.tab j instj hj
  · intro j instj hj
    simp only [List.getElem?_set] at hj
    by_cases hij : i = j
    · subst hij
      by_cases hlt : i < w.insts.length
      · simp [hlt] at hj; subst hj; exact hmemo
      · simp [hlt] at hj
    · simp [hij] at hj; exact h.memo j instj hj
  · intro p hp
    obtain ⟨h1, h2, h3⟩ := h.lru p hp
    refine ⟨h1, by simpa using h2, ?_⟩
    intro instj hj
    simp only [List.getElem?_set] at hj
    by_cases hij : i = p.1
    · by_cases hlt : i < w.insts.length
      · simp [hij, hlt] at hj
        have : w.insts.length > p.1 := h2
        simp [hij ▸ hlt] at hj
        subst hj; exact hlru p hp hij.symm
      · exfalso; exact hlt (hij ▸ h2)
    · simp [hij] at hj; exact h3 instj hj

theorem mem_clearMemos {ms : List Memo} {m : Memo} (h : m ∈ clearMemos cfg ms) : m ∈ ms ∧ cfg.isCleared m.slot = false := by
  simp [clearMemos, List.mem_filter] at h; exact h

theorem mem_clearLru {l : List (Nat × Memo)} {p : Nat × Memo} (h : p ∈ clearLru cfg l) : p ∈ l ∧ cfg.isCleared p.2.slot = false := by
  simp [clearLru, List.mem_filter] at h; exact h

/-- the shape every successful public mutation ends in: the instance gets new elements and a new
    table, its memo slots and the class-level slots went through `_invalidate` -/
theorem inv_mutated (hc : CfgOK cfg G) {w : World} (h : Inv cfg G w) (i : Nat) (inst : Inst)
    (hi : w.insts[i]? = some inst) (E' : List Elt) (t' : NodeTab) (c : Nat)
    (htab : TabOK ⟨E', t', clearMemos cfg inst.memo⟩) (hu : uniqueNames E') :
    Inv cfg G { insts := w.insts.set i ⟨E', t', clearMemos cfg inst.memo⟩, lru := clearLru cfg w.lru, clock := c } := by
  have h1 : Inv cfg G { w with lru := clearLru cfg w.lru } := inv_lru_sub h _ (fun p hp => (mem_clearLru hp).1)
  have h2 := inv_setInst h1 i ⟨E', t', clearMemos cfg inst.memo⟩ ⟨htab, hu⟩ ?_ ?_
  · exact inv_clock h2 c
  · intro m hm
    obtain ⟨hm1, hm2⟩ := mem_clearMemos hm
    obtain ⟨hk, _⟩ := h.memo i inst hi m hm1
    refine ⟨hk, fun hG => ?_⟩
    have := hc.cleared m.slot hG hk
    simp [this] at hm2
  · intro p hp _ hG
    obtain ⟨hp1, hp2⟩ := mem_clearLru hp
    obtain ⟨hk, _, _⟩ := h.lru p hp1
    have := hc.cleared p.2.slot hG hk
    simp [this] at hp2

theorem tabOK_empty : TabOK ⟨[], [], []⟩ := fun n => by simp [countOf, degOf, incCount, incDeg]

theorem inv_newInst {w : World} (h : Inv cfg G w) : Inv cfg G (newInst cfg w) := by
  have hl : ∀ p ∈ (if cfg.initInvalidates then clearLru cfg w.lru else w.lru), p ∈ w.lru := by
    intro p hp; split at hp
    · exact (mem_clearLru hp).1
    · exact hp
  refine ⟨?_, ?_, ?_⟩
  · intro j instj hj
    simp only [newInst, List.getElem?_append] at hj
    split at hj
    · exact h.tab j instj hj
    · rename_i hlt
      have : j - w.insts.length = 0 ∨ j - w.insts.length ≥ 1 := by omega
      rcases this with h0 | h0
      · simp [h0] at hj; subst hj; exact ⟨tabOK_empty, by simp [uniqueNames]⟩
      · have : ([({ elts := [], tab := [], memo := [] } : Inst)])[j - w.insts.length]? = none := by
          apply List.getElem?_eq_none; simp; omega
        simp [this] at hj
  · intro j instj hj
    simp only [newInst, List.getElem?_append] at hj
    split at hj
    · exact h.memo j instj hj
    · have : j - w.insts.length = 0 ∨ j - w.insts.length ≥ 1 := by omega
      rcases this with h0 | h0
      · simp [h0] at hj; subst hj; simp
      · have : ([({ elts := [], tab := [], memo := [] } : Inst)])[j - w.insts.length]? = none := by
          apply List.getElem?_eq_none; simp; omega
        simp [this] at hj
  · intro p hp
    obtain ⟨h1, h2, h3⟩ := h.lru p (hl p hp)
    refine ⟨h1, by simp [newInst]; omega, ?_⟩
    intro instj hj
    simp only [newInst, List.getElem?_append, h2, if_true] at hj
    exact h3 instj hj

/-- table and dictionary after `_add` of a new name -/
theorem tabOK_add_new (inst : Inst) (e : Elt) (ms : List Memo) (ht : TabOK inst) (hn : findElt inst.elts e.name = none) :
    TabOK ⟨upsert inst.elts e, attachElt inst.tab e, ms⟩ := by
  intro n
  obtain ⟨h1, h2⟩ := ht n
  refine ⟨?_, ?_⟩
  · show countOf (attachElt inst.tab e) n = incCount (upsert inst.elts e) n
    rw [attachElt_count, upsert_new_count _ _ _ hn, h1]; rfl
  · show degOf (attachElt inst.tab e) n = incDeg (upsert inst.elts e) n
    rw [attachElt_deg, upsert_new_deg _ _ _ hn, h2]; rfl

/-- table and dictionary after `_add` over an existing name when the old component is detached -/
theorem tabOK_add_override (inst : Inst) (e old : Elt) (t2 : NodeTab) (ms : List Memo) (ht : TabOK inst)
    (ho : findElt inst.elts e.name = some old)
    (keep : Bool) (hd : detachAll keep (attachElt inst.tab e) old.nodes old.counted = .inr t2) :
    TabOK ⟨upsert inst.elts e, t2, ms⟩ := by
  intro n
  obtain ⟨h1, h2⟩ := ht n
  have c1 := detachAll_count _ _ _ _ _ hd n
  have d1 := detachAll_deg _ _ _ _ _ hd n
  have c2 := upsert_old_count _ _ _ n ho
  have d2 := upsert_old_deg _ _ _ n ho
  rw [attachElt_count] at c1
  rw [attachElt_deg] at d1
  simp only [contribC, contribD] at c2 d2
  refine ⟨?_, ?_⟩
  · show countOf t2 n = incCount (upsert inst.elts e) n
    rw [c1, h1]; omega
  · show degOf t2 n = incDeg (upsert inst.elts e) n
    rw [d1, h2]; omega

theorem tabOK_remove (inst : Inst) (nm : String) (e : Elt) (t2 : NodeTab) (ms : List Memo) (ht : TabOK inst)
    (hu : uniqueNames inst.elts) (ho : findElt inst.elts nm = some e)
    (keep : Bool) (hd : detachAll keep inst.tab e.nodes e.counted = .inr t2) :
    TabOK ⟨eraseName inst.elts nm, t2, ms⟩ := by
  intro n
  obtain ⟨h1, h2⟩ := ht n
  have c1 := detachAll_count _ _ _ _ _ hd n
  have d1 := detachAll_deg _ _ _ _ _ hd n
  have c2 := eraseName_count _ _ _ n ho hu
  have d2 := eraseName_deg _ _ _ n ho hu
  simp only [contribC, contribD] at c2 d2
  refine ⟨?_, ?_⟩
  · show countOf t2 n = incCount (eraseName inst.elts nm) n
    rw [c1, h1]; omega
  · show degOf t2 n = incDeg (eraseName inst.elts nm) n
    rw [d1, h2]; omega

theorem invalidate_set (w : World) (i : Nat) (inst' : Inst) (hlt : i < w.insts.length) :
    invalidate cfg { w with insts := w.insts.set i inst' } i =
      { insts := w.insts.set i { inst' with memo := clearMemos cfg inst'.memo }, lru := clearLru cfg w.lru, clock := w.clock } := by
  simp [invalidate, List.getElem?_set, hlt, List.set_set]

theorem inv_add (hc : CfgOK cfg G) {w : World} (h : Inv cfg G w) (i : Nat) (e : Elt)
    (hadm : (Op.add i e).admissible cfg w) (hok : (add cfg w i e).2 = true) :
    Inv cfg G (add cfg w i e).1 := by
  obtain ⟨hinv, hover⟩ := hadm
  unfold add addRaw at hok ⊢
  cases hi : w.insts[i]? with
  | none => simp [hi] at hok
  | some inst =>
    have hlt : i < w.insts.length := by
      rcases Nat.lt_or_ge i w.insts.length with h1 | h1
      · exact h1
      · rw [List.getElem?_eq_none h1] at hi; cases hi
    obtain ⟨ht, hu⟩ := h.tab i inst hi
    have helts : eltsOf w i = inst.elts := by simp [eltsOf, hi]
    simp only [hi] at hok ⊢
    unfold addRawInst at hok ⊢
    cases ho : findElt inst.elts e.name with
    | none =>
      simp only [ho, hinv, Bool.and_self, if_true] at hok ⊢
      rw [invalidate_set w i _ hlt]
      exact inv_mutated hc h i inst hi _ _ _ (tabOK_add_new inst e _ ht ho) (uniqueNames_upsert _ _ hu)
    | some old =>
      have hdet : cfg.overrideDetaches = true ∧ cfg.overrideSel = .all := by
        rcases hover with h1 | h1
        · exact h1
        · rw [helts, ho] at h1; cases h1
      simp only [ho, hdet.1, hdet.2, DetachSel.pick, if_true] at hok ⊢
      cases hd : detachAll cfg.keepConnectedNode (attachElt inst.tab e) old.nodes old.counted with
      | inl t2 => simp [hd] at hok
      | inr t2 =>
        simp only [hd, hinv, Bool.and_self, if_true] at hok ⊢
        rw [invalidate_set w i _ hlt]
        exact inv_mutated hc h i inst hi _ _ _ (tabOK_add_override inst e old t2 _ ht ho _ hd) (uniqueNames_upsert _ _ hu)

/-- one `_add` that completes keeps table and dictionary consistent and does not touch the memo slots -/
theorem addRawInst_ok (inst : Inst) (e : Elt) (ht : TabOK inst) (hu : uniqueNames inst.elts)
    (hadm : (cfg.overrideDetaches = true ∧ cfg.overrideSel = .all) ∨ findElt inst.elts e.name = none)
    (hok : (addRawInst cfg inst e).2 = true) :
    TabOK (addRawInst cfg inst e).1 ∧ uniqueNames (addRawInst cfg inst e).1.elts ∧
    (addRawInst cfg inst e).1.memo = inst.memo ∧ (addRawInst cfg inst e).1.elts = upsert inst.elts e := by
  unfold addRawInst at hok ⊢
  cases ho : findElt inst.elts e.name with
  | none =>
    simp only [ho]
    exact ⟨tabOK_add_new inst e _ ht ho, uniqueNames_upsert _ _ hu, trivial, trivial⟩
  | some old =>
    have hdet : cfg.overrideDetaches = true ∧ cfg.overrideSel = .all := by
      rcases hadm with h1 | h1
      · exact h1
      · rw [ho] at h1; cases h1
    simp only [ho, hdet.1, hdet.2, DetachSel.pick, if_true] at hok ⊢
    cases hd : detachAll cfg.keepConnectedNode (attachElt inst.tab e) old.nodes old.counted with
    | inl t2 => simp [hd] at hok
    | inr t2 =>
      simp only [hd]
      exact ⟨tabOK_add_override inst e old t2 _ ht ho _ hd, uniqueNames_upsert _ _ hu, trivial, trivial⟩

theorem addLinesInst_ok (es : List Elt) (inst : Inst) (ht : TabOK inst) (hu : uniqueNames inst.elts)
    (hadm : (cfg.overrideDetaches = true ∧ cfg.overrideSel = .all) ∨ (uniqueNames es ∧ ∀ e ∈ es, findElt inst.elts e.name = none))
    (hok : (addLinesInst cfg inst es).2 = true) :
    TabOK (addLinesInst cfg inst es).1 ∧ uniqueNames (addLinesInst cfg inst es).1.elts ∧
    (addLinesInst cfg inst es).1.memo = inst.memo := by
  induction es generalizing inst with
  | nil => exact ⟨ht, hu, rfl⟩
  | cons e es ih =>
    simp only [addLinesInst] at hok ⊢
    cases h1 : (addRawInst cfg inst e).2 with
    | false => simp [h1] at hok
    | true =>
      simp only [h1, if_true] at hok ⊢
      have hadm1 : (cfg.overrideDetaches = true ∧ cfg.overrideSel = .all) ∨ findElt inst.elts e.name = none := by
        rcases hadm with h | h
        · exact Or.inl h
        · exact Or.inr (h.2 e (List.mem_cons_self ..))
      obtain ⟨ht1, hu1, hm1, he1⟩ := addRawInst_ok (cfg := cfg) inst e ht hu hadm1 h1
      have hadm2 : (cfg.overrideDetaches = true ∧ cfg.overrideSel = .all) ∨ (uniqueNames es ∧ ∀ x ∈ es, findElt (addRawInst cfg inst e).1.elts x.name = none) := by
        rcases hadm with h | h
        · exact Or.inl h
        · refine Or.inr ⟨h.1.2, ?_⟩
          intro x hx
          rw [he1, findElt_none]
          intro y hy
          rcases mem_upsert _ _ _ hy with hy | hy
          · subst hy; exact fun h2 => h.1.1 x hx h2.symm
          · exact (findElt_none _ _).1 (h.2 x (List.mem_cons_of_mem _ hx)) y hy
      obtain ⟨ht2, hu2, hm2⟩ := ih _ ht1 hu1 hadm2 hok
      exact ⟨ht2, hu2, hm2.trans hm1⟩

theorem inv_addLines (hc : CfgOK cfg G) {w : World} (h : Inv cfg G w) (i : Nat) (es : List Elt)
    (hadm : (Op.addLines i es).admissible cfg w) (hok : (addLines cfg w i es).2 = true) :
    Inv cfg G (addLines cfg w i es).1 := by
  obtain ⟨hinv, hover⟩ := hadm
  unfold addLines at hok ⊢
  cases hi : w.insts[i]? with
  | none => simp [hi] at hok
  | some inst =>
    have hlt : i < w.insts.length := by
      rcases Nat.lt_or_ge i w.insts.length with h1 | h1
      · exact h1
      · rw [List.getElem?_eq_none h1] at hi; cases hi
    obtain ⟨ht, hu⟩ := h.tab i inst hi
    have helts : eltsOf w i = inst.elts := by simp [eltsOf, hi]
    rw [helts] at hover
    simp only [hi] at hok ⊢
    cases hr : (addLinesInst cfg inst es).2 with
    | false => simp [hr] at hok
    | true =>
      obtain ⟨ht2, hu2, hm2⟩ := addLinesInst_ok (cfg := cfg) es inst ht hu hover hr
      simp only [hr, hinv, Bool.and_self, if_true]
      rw [invalidate_set w i _ hlt, hm2]
      exact inv_mutated hc h i inst hi _ _ _ ht2 hu2

theorem inv_remove (hc : CfgOK cfg G) {w : World} (h : Inv cfg G w) (i : Nat) (nm : String)
    (hadm : (Op.remove i nm).admissible cfg w) (hok : (remove cfg w i nm).2 = true) :
    Inv cfg G (remove cfg w i nm).1 := by
  have hinv : cfg.removeInvalidates = true := hadm.1
  have hsel : cfg.removeSel = .all := hadm.2
  unfold remove at hok ⊢
  cases hi : w.insts[i]? with
  | none => simp [hi] at hok
  | some inst =>
    have hlt : i < w.insts.length := by
      rcases Nat.lt_or_ge i w.insts.length with h1 | h1
      · exact h1
      · rw [List.getElem?_eq_none h1] at hi; cases hi
    obtain ⟨ht, hu⟩ := h.tab i inst hi
    simp only [hi] at hok ⊢
    cases ho : findElt inst.elts nm with
    | none => simp [ho] at hok
    | some e =>
      have hinvd : invalidate cfg w i = { insts := w.insts.set i { inst with memo := clearMemos cfg inst.memo },
                                          lru := clearLru cfg w.lru, clock := w.clock } := by
        simp [invalidate, hi]
      simp only [ho, hinv, hsel, DetachSel.pick, if_true, hinvd, List.getElem?_set, hlt] at hok ⊢
      cases hd : detachAll cfg.keepConnectedNode inst.tab e.nodes e.counted with
      | inl t2 => simp [hd] at hok
      | inr t2 =>
        simp only [hd, List.set_set] at hok ⊢
        exact inv_mutated hc h i inst hi _ _ _ (tabOK_remove inst nm e t2 _ ht hu ho _ hd) (uniqueNames_eraseName _ _ hu)

/-! ### reading memoised members -/

theorem liveMemo_good {w : World} (h : Inv cfg G w) (i : Nat) (inst : Inst) (hi : w.insts[i]? = some inst)
    (d : String) (m : Memo) (hm : liveMemo cfg w i inst d = some m) :
    m.slot = d ∧ GoodMemo G inst.elts m := by
  unfold liveMemo at hm
  cases hk : cfg.kindOf d with
  | none => simp [hk] at hm
  | some k =>
    cases k with
    | lru =>
      simp only [hk, Option.map_eq_some_iff] at hm
      obtain ⟨p, hp, rfl⟩ := hm
      have hp1 := List.mem_of_find?_eq_some hp
      have hp2 := List.find?_some hp
      simp at hp2
      obtain ⟨_, _, h3⟩ := h.lru p hp1
      exact ⟨hp2.2, h3 inst (hp2.1 ▸ hi)⟩
    | cprop =>
      simp only [hk] at hm
      have hp1 := List.mem_of_find?_eq_some hm
      have hp2 := List.find?_some hm
      simp at hp2
      exact ⟨hp2, (h.memo i inst hi m hp1).2⟩
    | hasattr =>
      simp only [hk] at hm
      have hp1 := List.mem_of_find?_eq_some hm
      have hp2 := List.find?_some hm
      simp at hp2
      exact ⟨hp2, (h.memo i inst hi m hp1).2⟩

/-- the entry computed for a slot of `G` in a world satisfying the invariant is clean -/
theorem computed_clean (hc : CfgOK cfg G) {w : World} (h : Inv cfg G w) (i : Nat) (inst : Inst)
    (hi : w.insts[i]? = some inst) (d : String) (hG : G d = true) :
    ((cfg.depsOf d).all (fun x => match liveMemo cfg w i inst x with
        | some m => memoGood inst.elts m
        | none => true)) = true := by
  rw [List.all_eq_true]
  intro x hx
  have hGx := hc.closed d hG x hx
  cases hl : liveMemo cfg w i inst x with
  | none => rfl
  | some m =>
    obtain ⟨hs, hg⟩ := liveMemo_good h i inst hi x m hl
    obtain ⟨h1, h2⟩ := hg (hs ▸ hGx)
    simp [memoGood, h1, h2]

/-- `readSlot` keeps the invariant, does not touch elements or tables, and for a memoised slot
    of `G` hands out an entry computed from the current elements -/
theorem readSlot_spec (hc : CfgOK cfg G) {w : World} (h : Inv cfg G w) (i : Nat) (d : String) :
    Inv cfg G (readSlot cfg w i d).1 ∧
    (readSlot cfg w i d).1.insts.length = w.insts.length ∧
    (∀ j : Nat, ((readSlot cfg w i d).1.insts[j]?).map (fun x : Inst => (x.elts, x.tab)) = (w.insts[j]?).map (fun x : Inst => (x.elts, x.tab))) ∧
    (∀ inst, w.insts[i]? = some inst →
      ((cfg.kindOf d).isSome = false → (readSlot cfg w i d).2 = none) ∧
      ((cfg.kindOf d).isSome = true → G d = true →
        ∃ m, (readSlot cfg w i d).2 = some m ∧ m.ver = inst.elts ∧ m.clean = true)) := by
  unfold readSlot
  cases hi : w.insts[i]? with
  | none => simp [h]
  | some inst =>
    have hlt : i < w.insts.length := by
      rcases Nat.lt_or_ge i w.insts.length with h1 | h1
      · exact h1
      · rw [List.getElem?_eq_none h1] at hi; cases hi
    cases hk : cfg.kindOf d with
    | none => simp [h]
    | some k =>
      cases hl : liveMemo cfg w i inst d with
      | some m =>
        obtain ⟨hs, hg⟩ := liveMemo_good h i inst hi d m hl
        simp only [hl]
        refine ⟨by simpa using h, by simp, by simp, ?_⟩
        intro inst' hi'
        cases hi'
        refine ⟨by simp, fun _ hG => ⟨m, by simp, hg (hs ▸ hG)⟩⟩
      | none =>
        simp only [hl]
        have hclean := fun hG => computed_clean hc h i inst hi d hG
        have hsub : ∀ p ∈ (if cfg.spawns.contains d && cfg.initInvalidates then clearLru cfg w.lru else w.lru), p ∈ w.lru := by
          intro p hp; split at hp
          · exact (mem_clearLru hp).1
          · exact hp
        have hgood : GoodMemo G inst.elts ⟨d, inst.elts, w.clock, (cfg.depsOf d).all (fun x => match liveMemo cfg w i inst x with
              | some m => memoGood inst.elts m
              | none => true)⟩ := fun hG => ⟨rfl, hclean hG⟩
        cases k with
        | lru =>
          simp only []
          refine ⟨?_, by simp, by simp, ?_⟩
          · refine ⟨h.tab, h.memo, ?_⟩
            intro p hp
            simp only [List.mem_cons] at hp
            rcases hp with hp | hp
            · subst hp
              refine ⟨by simp [hk], hlt, ?_⟩
              intro inst' hi'
              simp only [hi] at hi'; cases hi'
              exact hgood
            · exact h.lru p (hsub p (List.mem_filter.1 hp).1)
          · intro inst' hi'
            cases hi'
            exact ⟨by simp, fun _ hG => ⟨_, rfl, rfl, hclean hG⟩⟩
        | cprop =>
          simp only []
          refine ⟨?_, by simp, ?_, ?_⟩
          · have h1 := inv_lru_sub h _ hsub
            refine inv_setInst h1 i _ (h.tab i inst hi) ?_ ?_
            · intro m hm
              simp only [List.mem_cons] at hm
              rcases hm with hm | hm
              · subst hm; exact ⟨by simp [hk], hgood⟩
              · exact h.memo i inst hi m hm
            · intro p hp hpi
              obtain ⟨_, _, h3⟩ := h.lru p (hsub p hp)
              exact h3 inst (hpi ▸ hi)
          · intro j
            simp only [List.getElem?_set]
            by_cases hij : i = j
            · subst hij
              have hge : w.insts[i] = inst := by
                have := List.getElem?_eq_getElem hlt; rw [hi] at this; exact (Option.some.inj this).symm
              simp [hlt, hi, hge]
            · simp [hij]
          · intro inst' hi'
            cases hi'
            exact ⟨by simp, fun _ hG => ⟨_, rfl, rfl, hclean hG⟩⟩
        | hasattr =>
          simp only []
          refine ⟨?_, by simp, ?_, ?_⟩
          · have h1 := inv_lru_sub h _ hsub
            refine inv_setInst h1 i _ (h.tab i inst hi) ?_ ?_
            · intro m hm
              simp only [List.mem_cons] at hm
              rcases hm with hm | hm
              · subst hm; exact ⟨by simp [hk], hgood⟩
              · exact h.memo i inst hi m hm
            · intro p hp hpi
              obtain ⟨_, _, h3⟩ := h.lru p (hsub p hp)
              exact h3 inst (hpi ▸ hi)
          · intro j
            simp only [List.getElem?_set]
            by_cases hij : i = j
            · subst hij
              have hge : w.insts[i] = inst := by
                have := List.getElem?_eq_getElem hlt; rw [hi] at this; exact (Option.some.inj this).symm
              simp [hlt, hi, hge]
            · simp [hij]
          · intro inst' hi'
            cases hi'
            exact ⟨by simp, fun _ hG => ⟨_, rfl, rfl, hclean hG⟩⟩

/-- canonical provenance: every memoised slot was computed from `E` and is clean -/
def canonProv (cfg : Config) (E : Ver) (ds : List String) : Prov :=
  ds.map (fun d => (d, if (cfg.kindOf d).isSome then some (E, true) else none))

theorem readSlots_spec (hc : CfgOK cfg G) (ds : List String) {w : World} (h : Inv cfg G w) (i : Nat) :
    Inv cfg G (readSlots cfg i w ds).1 ∧
    (readSlots cfg i w ds).1.insts.length = w.insts.length ∧
    (∀ j : Nat, ((readSlots cfg i w ds).1.insts[j]?).map (fun x : Inst => (x.elts, x.tab)) = (w.insts[j]?).map (fun x : Inst => (x.elts, x.tab))) ∧
    (∀ inst, w.insts[i]? = some inst → (∀ d ∈ ds, G d = true) →
      (readSlots cfg i w ds).2 = canonProv cfg inst.elts ds) := by
  induction ds generalizing w with
  | nil => simp [readSlots, h, canonProv]
  | cons d ds ih =>
    obtain ⟨h1, hlen1, hsame1, hval1⟩ := readSlot_spec hc h i d
    obtain ⟨h2, hlen2, hsame2, hval2⟩ := ih h1
    simp only [readSlots]
    refine ⟨h2, by rw [hlen2, hlen1], fun j => by rw [hsame2 j, hsame1 j], ?_⟩
    intro inst hi hG
    have hs := hsame1 i
    rw [hi] at hs
    cases hi1 : (readSlot cfg w i d).1.insts[i]? with
    | none => simp [hi1] at hs
    | some inst1 =>
      simp [hi1] at hs
      have hv2 := hval2 inst1 hi1 (fun x hx => hG x (List.mem_cons_of_mem _ hx))
      rw [hv2, hs.1]
      obtain ⟨hn, hsome⟩ := hval1 inst hi
      simp only [canonProv, List.map_cons]
      congr 1
      cases hk : (cfg.kindOf d).isSome with
      | false => simp [hn hk]
      | true =>
        obtain ⟨m, hm, hv, hcl⟩ := hsome hk (hG d (List.mem_cons_self ..))
        simp [hm, hv, hcl]


/-! ### a query that mutates cached objects -/

theorem dirty_slot (ds : List String) (m : Memo) : (dirty ds m).slot = m.slot := by
  unfold dirty; split <;> rfl

theorem dirty_good {ds : List String} (hd : ∀ d ∈ ds, G d = false) {E : Ver} {m : Memo} (hg : GoodMemo G E m) :
    GoodMemo G E (dirty ds m) := by
  intro hG
  rw [dirty_slot] at hG
  unfold dirty
  split
  · rename_i hc
    have : m.slot ∈ ds := by simpa using hc
    rw [hd _ this] at hG; cases hG
  · exact hg hG

theorem damagedBy_nodamage (hc : CfgOK cfg G) (q : String) : ∀ d ∈ cfg.damagedBy q, G d = false := by
  intro d hd
  simp only [Config.damagedBy, List.mem_map, List.mem_filter] at hd
  obtain ⟨p, ⟨hp, _⟩, rfl⟩ := hd
  exact hc.nodamage p hp

theorem damage_length (w : World) (i : Nat) (q : String) : (damage cfg w i q).insts.length = w.insts.length := by
  unfold damage
  cases hi : w.insts[i]? with
  | none => rfl
  | some inst => simp

theorem damage_abs (w : World) (i : Nat) (q : String) (j : Nat) :
    ((damage cfg w i q).insts[j]?).map (fun x : Inst => (x.elts, x.tab)) = (w.insts[j]?).map (fun x : Inst => (x.elts, x.tab)) := by
  unfold damage
  cases hi : w.insts[i]? with
  | none => rfl
  | some inst =>
    simp only [List.getElem?_set]
    by_cases hij : i = j
    · subst hij
      by_cases hlt : i < w.insts.length
      · have hge : w.insts[i] = inst := by
          have := List.getElem?_eq_getElem hlt; rw [hi] at this; exact (Option.some.inj this).symm
        simp [hlt, hi, hge]
      · simp [hlt]
    · simp [hij]

theorem inv_damage (hc : CfgOK cfg G) {w : World} (h : Inv cfg G w) (i : Nat) (q : String) :
    Inv cfg G (damage cfg w i q) := by
  unfold damage
  cases hi : w.insts[i]? with
  | none => exact h
  | some inst =>
    have hlt : i < w.insts.length := by
      rcases Nat.lt_or_ge i w.insts.length with h1 | h1
      · exact h1
      · rw [List.getElem?_eq_none h1] at hi; cases hi
    have hnd := damagedBy_nodamage hc q
    refine ⟨?_, ?_, ?_⟩
    · intro j instj hj
      simp only [List.getElem?_set] at hj
      by_cases hij : i = j
      · subst hij; simp [hlt] at hj; subst hj; exact h.tab i inst hi
      · simp [hij] at hj; exact h.tab j instj hj
    · intro j instj hj
      simp only [List.getElem?_set] at hj
      by_cases hij : i = j
      · subst hij; simp [hlt] at hj; subst hj
        intro m hm
        simp only [List.mem_map] at hm
        obtain ⟨m0, hm0, rfl⟩ := hm
        obtain ⟨hk, hg⟩ := h.memo i inst hi m0 hm0
        exact ⟨by rw [dirty_slot]; exact hk, dirty_good hnd hg⟩
      · simp [hij] at hj; exact h.memo j instj hj
    · intro p hp
      simp only [List.mem_map] at hp
      obtain ⟨p0, hp0, rfl⟩ := hp
      obtain ⟨h1, h2, h3⟩ := h.lru p0 hp0
      by_cases hpi : p0.1 = i
      · simp only [hpi, if_true]
        refine ⟨by rw [dirty_slot]; exact h1, by simpa [hpi] using hlt, ?_⟩
        intro instj hj
        simp [List.getElem?_set, hlt] at hj; subst hj
        exact dirty_good hnd (h3 inst (hpi ▸ hi))
      · simp only [hpi, if_false]
        refine ⟨h1, by simpa using h2, ?_⟩
        intro instj hj
        simp only [List.getElem?_set] at hj
        have : ¬ i = p0.1 := fun e => hpi e.symm
        simp [this] at hj
        exact h3 instj hj

/-- `query` = `readSlots` followed by the damage: invariant, shape and provenance -/
theorem query_spec (hc : CfgOK cfg G) {w : World} (h : Inv cfg G w) (i : Nat) (q : String) :
    Inv cfg G (query cfg w i q).1 ∧
    (query cfg w i q).1.insts.length = w.insts.length ∧
    (∀ j : Nat, ((query cfg w i q).1.insts[j]?).map (fun x : Inst => (x.elts, x.tab)) = (w.insts[j]?).map (fun x : Inst => (x.elts, x.tab))) ∧
    (∀ inst, w.insts[i]? = some inst → (∀ d ∈ cfg.readsOf q, G d = true) →
      (query cfg w i q).2 = canonProv cfg inst.elts (cfg.readsOf q)) := by
  obtain ⟨h1, h2, h3, h4⟩ := readSlots_spec hc (cfg.readsOf q) h i
  refine ⟨inv_damage hc h1 i q, ?_, ?_, h4⟩
  · simp only [query]; rw [damage_length, h2]
  · intro j; simp only [query]; rw [damage_abs, h3]

theorem upsert_new_eq (E : List Elt) (e : Elt) (h : findElt E e.name = none) : upsert E e = E ++ [e] := by
  induction E with
  | nil => rfl
  | cons x xs ih =>
    have hx : ¬ x.name = e.name := (findElt_none _ _).1 h x (List.mem_cons_self ..)
    have h' : findElt xs e.name = none := by
      rw [findElt_none] at h ⊢; intro y hy; exact h y (List.mem_cons_of_mem _ hy)
    simp [upsert, hx, ih h']

/-- `_add` on an instance that holds no memo entry at all (a netlist under construction) -/
theorem inv_addRaw_fresh {w : World} (h : Inv cfg G w) (j : Nat) (inst : Inst) (hj : w.insts[j]? = some inst)
    (hm : inst.memo = []) (hl : ∀ p ∈ w.lru, p.1 ≠ j) (e : Elt) (hn : findElt inst.elts e.name = none) :
    Inv cfg G (addRaw cfg w j e).1 ∧ (addRaw cfg w j e).1.lru = w.lru ∧
    (addRaw cfg w j e).1.insts = w.insts.set j ⟨upsert inst.elts e, attachElt inst.tab e, []⟩ := by
  obtain ⟨ht, hu⟩ := h.tab j inst hj
  simp only [addRaw, hj, addRawInst, hn]
  refine ⟨?_, trivial, by simp [hm]⟩
  refine inv_setInst h j _ ⟨tabOK_add_new inst e _ ht hn, uniqueNames_upsert _ _ hu⟩ ?_ ?_
  · simp [hm]
  · intro p hp hpj; exact absurd hpj (hl p hp)

theorem inv_addRaw_fold (es : List Elt) {w : World} (h : Inv cfg G w) (j : Nat) (inst : Inst)
    (hj : w.insts[j]? = some inst) (hm : inst.memo = []) (hl : ∀ p ∈ w.lru, p.1 ≠ j)
    (hu : uniqueNames es) (hnew : ∀ x ∈ es, findElt inst.elts x.name = none) :
    Inv cfg G (es.foldl (fun w e => (addRaw cfg w j e).1) w) ∧
    (∀ k : Nat, k ≠ j → (es.foldl (fun w e => (addRaw cfg w j e).1) w).insts[k]? = w.insts[k]?) ∧
    (es.foldl (fun w e => (addRaw cfg w j e).1) w).lru = w.lru ∧
    (es.foldl (fun w e => (addRaw cfg w j e).1) w).insts.length = w.insts.length := by
  induction es generalizing w inst with
  | nil => simp [h]
  | cons e es ih =>
    have hlt : j < w.insts.length := by
      rcases Nat.lt_or_ge j w.insts.length with h1 | h1
      · exact h1
      · rw [List.getElem?_eq_none h1] at hj; cases hj
    obtain ⟨h1, hl1, hi1⟩ := inv_addRaw_fresh h j inst hj hm hl e (hnew e (List.mem_cons_self ..))
    have hj1 : (addRaw cfg w j e).1.insts[j]? = some ⟨upsert inst.elts e, attachElt inst.tab e, []⟩ := by
      rw [hi1]; simp [List.getElem?_set, hlt]
    have hnew1 : ∀ x ∈ es, findElt (upsert inst.elts e) x.name = none := by
      intro x hx
      rw [findElt_none]
      intro y hy
      rcases mem_upsert _ _ _ hy with hy | hy
      · subst hy; exact fun h2 => hu.1 x hx h2.symm
      · exact (findElt_none _ _).1 (hnew x (List.mem_cons_of_mem _ hx)) y hy
    obtain ⟨h2, hk2, hl2, hlen2⟩ := ih h1 _ hj1 rfl (by rw [hl1]; exact hl) hu.2 hnew1
    simp only [List.foldl]
    refine ⟨h2, ?_, by rw [hl2, hl1], by rw [hlen2, hi1]; simp⟩
    intro k hk
    rw [hk2 k hk, hi1]
    simp [List.getElem?_set, Ne.symm hk]

theorem inv_derive (hc : CfgOK cfg G) {w : World} (h : Inv cfg G w) (i : Nat) (pre : String) (es : List Elt)
    (hu : uniqueNames es) : Inv cfg G (derive cfg w i pre es) := by
  unfold derive
  obtain ⟨h1, _, _, _⟩ := query_spec hc h i pre
  have h2 := inv_newInst (cfg := cfg) h1
  have hj : (newInst cfg (query cfg w i pre).1).insts[(query cfg w i pre).1.insts.length]? = some ⟨[], [], []⟩ := by
    simp [newInst]
  have hl : ∀ p ∈ (newInst cfg (query cfg w i pre).1).lru, p.1 ≠ (query cfg w i pre).1.insts.length := by
    intro p hp
    have hp' : p ∈ (query cfg w i pre).1.lru := by
      simp only [newInst] at hp; split at hp
      · exact (mem_clearLru hp).1
      · exact hp
    have := (h1.lru p hp').2.1
    exact Nat.ne_of_lt this
  exact (inv_addRaw_fold es h2 _ _ hj rfl hl hu (fun x _ => by simp [findElt])).1

theorem inv_step (hc : CfgOK cfg G) {w : World} (h : Inv cfg G w) (op : Op)
    (hadm : op.admissible cfg w) (hok : (step cfg w op).2 = true) : Inv cfg G (step cfg w op).1 := by
  have hclk := inv_clock h (w.clock + 1)
  cases op with
  | new => exact inv_newInst hclk
  | add i e => exact inv_add hc hclk i e hadm hok
  | addRaw i e => exact absurd hadm (by simp [Op.admissible])
  | addLines i es => exact inv_addLines hc hclk i es hadm hok
  | remove i nm => exact inv_remove hc hclk i nm hadm hok
  | query i q => exact (query_spec hc hclk i q).1
  | derive i pre es => exact inv_derive hc hclk i pre es hadm
  | addFail i es e late => simp [step, addFail] at hok; cases hw : w.insts[i]? <;> simp [hw] at hok

theorem inv_run (hc : CfgOK cfg G) (ops : List Op) {w : World} (h : Inv cfg G w) (hr : RunOK cfg w ops) :
    Inv cfg G (run cfg w ops) := by
  induction ops generalizing w with
  | nil => exact h
  | cons op ops ih => exact ih (inv_step hc h op hr.1 hr.2.1) hr.2.2

end Lcapy.Cache
