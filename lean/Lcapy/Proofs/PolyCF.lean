/-
  Continued-fraction expansion (`Expr.continued_fraction_coeffs`, `as_continued_fraction`):
  Euclid step, termination measure, value.  Shared by Props/C11.lean and Props/C19.lean.
-/
import Lcapy.Model.Ratfun
import Lcapy.Proofs.Poly
namespace Lcapy.Ratfun
open Lcapy.Poly
variable {K : Type} [Field K] [DecidableEq K]
set_option linter.unusedSimpArgs false
set_option linter.unusedVariables false
set_option linter.unusedSectionVars false

theorem lc_eq_getLastD_trim (p : List K) : lc p = (trim p).getLastD 0 := rfl

/-- Euclid step: `N = q x^k · D + N₂` -/
theorem cfStep_eval {N D : List K} {q : K} {k : Nat} {N2 : List K} (h : cfStep N D = some (q, k, N2))
    (hD : lc D ≠ 0) (x : K) :
    Poly.eval N x = q * x ^ k * Poly.eval D x + Poly.eval N2 x := by
  unfold cfStep at h
  simp only at h
  split at h
  · simp at h
  · rename_i hge
    simp only [Option.some.injEq, Prod.mk.injEq] at h
    obtain ⟨hq, hk, hN2⟩ := h
    subst hN2
    subst hq
    have hN := eval_dropLast (trim N) x
    have hDd := eval_dropLast (trim D) x
    rw [eval_trim] at hN hDd
    rw [← lc_eq_getLastD_trim] at hN hDd
    have hDlen : 0 < (trim D).length := by
      rcases Nat.eq_zero_or_pos (trim D).length with h0 | h0
      · exact absurd ((lc_eq_zero_iff D).2 (List.length_eq_zero_iff.1 h0)) hD
      · exact h0
    have hpow : x ^ ((trim N).length - 1) = x ^ k * x ^ ((trim D).length - 1) := by
      rw [← pow_add]; congr 1; omega
    rw [eval_trim, eval_sub, eval_append, eval_replicate_zero, List.length_replicate, eval_smul, hk]
    have hc : lc N / lc D * lc D = lc N := by field_simp
    rw [hpow] at hN
    linear_combination hN - lc N / lc D * x ^ k * hDd - x ^ k * x ^ ((trim D).length - 1) * hc

theorem trim_trim (p : List K) : trim (trim p) = trim p := by
  rcases trim_getLastD p with h | h
  · rw [h]; rfl
  · exact trim_of_getLastD_ne_zero _ h

/-- the remainder of a step is strictly shorter than the dividend -/
theorem cfStep_length {N D : List K} {q : K} {k : Nat} {N2 : List K} (h : cfStep N D = some (q, k, N2))
    (hD : lc D ≠ 0) : (trim N2).length < (trim N).length ∧ (trim D).length ≤ (trim N).length := by
  unfold cfStep at h
  simp only at h
  split at h
  · simp at h
  · rename_i hge
    simp only [Option.some.injEq, Prod.mk.injEq] at h
    obtain ⟨hq, hk, hN2⟩ := h
    subst hN2
    have hDlen : 0 < (trim D).length := by
      rcases Nat.eq_zero_or_pos (trim D).length with h0 | h0
      · exact absurd ((lc_eq_zero_iff D).2 (List.length_eq_zero_iff.1 h0)) hD
      · exact h0
    rw [trim_trim]
    have h1 := length_trim_le (Poly.sub (trim N).dropLast (List.replicate ((trim N).length - (trim D).length) 0 ++ smul (lc N / lc D) (trim D).dropLast))
    have h2 := length_sub_le (trim N).dropLast (List.replicate ((trim N).length - (trim D).length) 0 ++ smul (lc N / lc D) (trim D).dropLast)
    simp only [List.length_append, List.length_replicate, length_smul, List.length_dropLast] at h2
    constructor
    · omega
    · omega

/-- **termination**: with fuel at least `|N| + |D|` (numbers of coefficients) the recursion never
    runs out of fuel; it stops with coefficients or at a negative power. -/
theorem cfRun_fuel (fuel : Nat) (N D : List K) (hD : lc D ≠ 0)
    (hf : (trim N).length + (trim D).length ≤ fuel) : cfRun fuel N D ≠ .fuelOut := by
  induction fuel generalizing N D with
  | zero =>
    exfalso
    have : trim D = [] := List.length_eq_zero_iff.1 (by omega)
    exact hD ((lc_eq_zero_iff D).2 this)
  | succ fuel ih =>
    simp only [cfRun]
    cases hs : cfStep N D with
    | none => simp
    | some v =>
      obtain ⟨q, k, N2⟩ := v
      simp only
      by_cases hz : isZero N2 = true
      · simp [hz]
      · simp only [hz, if_false, Bool.false_eq_true]
        have hl := cfStep_length hs hD
        have hN2 : lc N2 ≠ 0 := by
          intro h0
          apply hz
          simp [isZero, (lc_eq_zero_iff N2).1 h0]
        have := ih D N2 hN2 (by omega)
        cases hr : cfRun fuel D N2 with
        | ok rest => simp
        | negPower => simp
        | fuelOut => exact absurd hr this

/-- the continued-fraction expression is defined at `x`: no intermediate denominator vanishes there -/
def cfDefined : Nat → List K → List K → K → Bool
  | 0, _, _, _ => true
  | fuel + 1, N, D, x =>
    decide (Poly.eval D x ≠ 0) &&
    match cfStep N D with
    | none => true
    | some (_, _, N2) => if isZero N2 then true else cfDefined fuel D N2 x

theorem cfRun_ne_nil (fuel : Nat) (N D : List K) (cs : List (K × Nat)) (h : cfRun fuel N D = .ok cs) : cs ≠ [] := by
  cases fuel with
  | zero => simp [cfRun] at h
  | succ fuel =>
    simp only [cfRun] at h
    cases hs : cfStep N D with
    | none => simp [hs] at h
    | some v =>
      obtain ⟨q, k, N2⟩ := v
      simp only [hs] at h
      by_cases hz : isZero N2 = true
      · simp only [hz, if_true, CFRes.ok.injEq] at h; subst h; simp
      · simp only [hz, if_false, Bool.false_eq_true] at h
        cases hr : cfRun fuel D N2 with
        | ok rest => simp only [hr, CFRes.ok.injEq] at h; subst h; simp
        | negPower => simp [hr] at h
        | fuelOut => simp [hr] at h

/-- **value of the continued fraction** -/
theorem cfExpr_value (fuel : Nat) (N D : List K) (cs : List (K × Nat)) (env : Env K)
    (h : cfRun fuel N D = .ok cs) (hdef : cfDefined fuel N D env.x = true) :
    (cfExpr cs).eval env = Poly.eval N env.x / Poly.eval D env.x := by
  induction fuel generalizing N D cs with
  | zero => simp [cfRun] at h
  | succ fuel ih =>
    simp only [cfRun] at h
    simp only [cfDefined, Bool.and_eq_true, decide_eq_true_eq] at hdef
    obtain ⟨hDx, hrest⟩ := hdef
    have hD := lc_ne_zero_of_eval hDx
    cases hs : cfStep N D with
    | none => simp [hs] at h
    | some v =>
      obtain ⟨q, k, N2⟩ := v
      simp only [hs] at h hrest
      have hev := cfStep_eval hs hD env.x
      by_cases hz : isZero N2 = true
      · simp only [hz, if_true, CFRes.ok.injEq] at h
        subst h
        simp only [cfExpr, RExpr.eval, npow_eq]
        rw [hev, eval_of_isZero hz]; field_simp; ring
      · simp only [hz, if_false, Bool.false_eq_true] at h hrest
        cases hr : cfRun fuel D N2 with
        | ok rest =>
          simp only [hr, CFRes.ok.injEq] at h
          subst h
          have hne := cfRun_ne_nil fuel D N2 rest hr
          have hv := ih D N2 rest hr hrest
          have hN2x : Poly.eval N2 env.x ≠ 0 := by
            cases fuel with
            | zero => simp [cfRun] at hr
            | succ f =>
              simp only [cfDefined, Bool.and_eq_true, decide_eq_true_eq] at hrest
              exact hrest.1
          cases rest with
          | nil => exact absurd rfl hne
          | cons r rs =>
            simp only [cfExpr, RExpr.eval, npow_eq, hv]
            rw [hev]; field_simp
        | negPower => simp [hr] at h
        | fuelOut => simp [hr] at h

end Lcapy.Ratfun
