/-
  Helper lemmas for C07 (one-port part): leaves, series/parallel composition of lines.
-/
import Lcapy.Model.OnePort
import Lcapy.Spec.OnePortExec
import Mathlib.Tactic.FieldSimp
import Mathlib.Tactic.Ring
import Mathlib.Tactic.LinearCombination
import Mathlib.Algebra.Field.Basic
namespace Lcapy.OnePort
set_option linter.unusedSectionVars false
variable {K : Type} [Field K] [DecidableEq K]

/-! ### Thévenin / Norton form of every leaf -/

theorem xtal_thev (s c0 r1 l1 c1 : K) (h1 : s * c1 ≠ 0) (h0 : s * c0 ≠ 0)
    (hz : serRLC s r1 l1 c1 ≠ 0) (hy : 0 + 1 / serRLC s r1 l1 c1 + 1 / (1 / (s * c0)) ≠ 0) (v i : K) :
    (Leaf.Xtal c0 r1 l1 c1).rel s v i ↔ v = 0 + (Leaf.Xtal c0 r1 l1 c1).imp s * i := by
  simp only [Leaf.rel, Leaf.imp, ParRel, SerRel, relR, relL, relC, ic, mul_zero, sub_zero]
  obtain ⟨z, hzdef⟩ : ∃ z, z = serRLC s r1 l1 c1 := ⟨_, rfl⟩
  rw [← hzdef] at hz hy ⊢
  have hz' : z = r1 + s * l1 + 1 / (s * c1) := by rw [hzdef]; simp [serRLC]
  have hyy : 1 / z + s * c0 ≠ 0 := by
    intro h; apply hy; rw [zero_add, one_div_one_div]; exact h
  constructor
  · rintro ⟨i1, i2, ⟨v1, v2, ⟨v3, v4, h3, h4, rfl⟩, h5, rfl⟩, h6, rfl⟩
    subst h3 h4
    grind
  · intro h
    refine ⟨v / z, s * c0 * v, ⟨r1 * (v / z) + s * l1 * (v / z), (v / z) / (s * c1), ⟨r1 * (v / z), s * l1 * (v / z), rfl, rfl, rfl⟩, ?_, ?_⟩, rfl, ?_⟩
    · grind
    · grind
    · grind

theorem fb_thev (s rs rp cp lp : K) (hr : rp ≠ 0) (hl : s * lp ≠ 0) (hc : s * cp ≠ 0)
    (hy : parRLC s rp lp cp ≠ 0) (v i : K) :
    (Leaf.FB rs rp cp lp).rel s v i ↔ v = 0 + (Leaf.FB rs rp cp lp).imp s * i := by
  simp only [Leaf.rel, Leaf.imp, ParRel, SerRel, relR, relL, relC, ic, mul_zero, sub_zero]
  obtain ⟨y, hydef⟩ : ∃ y, y = parRLC s rp lp cp := ⟨_, rfl⟩
  rw [← hydef] at hy ⊢
  have hy' : y = 1 / rp + 1 / (s * lp) + s * cp := by
    rw [hydef]; simp only [parRLC, zero_add, one_div_one_div]
  have hs : s ≠ 0 := left_ne_zero_of_mul hl
  have hlp : lp ≠ 0 := right_ne_zero_of_mul hl
  have hcp : cp ≠ 0 := right_ne_zero_of_mul hc
  constructor
  · rintro ⟨v1, v2, rfl, ⟨i1, i2, ⟨i3, i4, h3, h4, rfl⟩, h5, h6⟩, rfl⟩
    have e3 : i3 = v2 / rp := by grind
    have e4 : i4 = v2 / (s * lp) := by grind
    have : i = y * v2 := by rw [h6, h5, e3, e4, hy']; grind
    grind
  · intro h
    have hv : v = rs * i + i / y := by grind
    refine ⟨rs * i, i / y, rfl, ⟨(i / y) / rp + (i / y) / (s * lp), s * cp * (i / y), ⟨(i / y) / rp, (i / y) / (s * lp), ?_, ?_, rfl⟩, rfl, ?_⟩, hv⟩
    · grind
    · grind
    · have : (i / y) / rp + (i / y) / (s * lp) + s * cp * (i / y) = y * (i / y) := by rw [hy']; grind
      grind

theorem leaf_thev (s : K) (l : Leaf K) (h : l.tOK s = true) (v i : K) :
    l.rel s v i ↔ v = l.voc s + l.imp s * i := by
  cases l with
  | R r => simp [Leaf.rel, relR, Leaf.voc, Leaf.imp]
  | G g =>
    simp only [Leaf.tOK, decide_eq_true_eq] at h
    simp only [Leaf.rel, Leaf.voc, Leaf.imp, zero_add]
    constructor <;> (rintro rfl; grind)
  | L l i0 => simp only [Leaf.rel, relL, Leaf.voc, Leaf.imp]; constructor <;> (rintro rfl; ring)
  | C c v0 =>
    simp only [Leaf.tOK, decide_eq_true_eq] at h
    have hs : s ≠ 0 := left_ne_zero_of_mul h
    have hc : c ≠ 0 := right_ne_zero_of_mul h
    simp only [Leaf.rel, relC, Leaf.voc, Leaf.imp]
    constructor <;> (rintro rfl; grind)
  | Y y =>
    simp only [Leaf.tOK, decide_eq_true_eq] at h
    simp only [Leaf.rel, Leaf.voc, Leaf.imp, zero_add]
    constructor <;> (rintro rfl; grind)
  | Z z => simp [Leaf.rel, Leaf.voc, Leaf.imp]
  | V k e => simp [Leaf.rel, Leaf.voc, Leaf.imp]
  | I k j => simp [Leaf.tOK] at h
  | CPE k a =>
    simp only [Leaf.tOK, decide_eq_true_eq] at h
    simp only [Leaf.rel, Leaf.voc, Leaf.imp, zero_add]
    constructor <;> (rintro rfl; grind)
  | Xtal c0 r1 l1 c1 =>
    simp only [Leaf.tOK, Bool.and_eq_true, decide_eq_true_eq] at h
    obtain ⟨⟨⟨h1, h0⟩, hz⟩, hy⟩ := h
    simpa [Leaf.voc] using xtal_thev s c0 r1 l1 c1 h1 h0 hz hy v i
  | FB rs rp cp lp =>
    simp only [Leaf.tOK, Bool.and_eq_true, decide_eq_true_eq] at h
    obtain ⟨⟨⟨hr, hl⟩, hc⟩, hy⟩ := h
    simpa [Leaf.voc] using fb_thev s rs rp cp lp hr hl hc hy v i

/-- a Thévenin line with Z ≠ 0 is the Norton line with Y = 1/Z, Isc = Voc·Y -/
theorem thev_to_nort (R : K → K → Prop) (E Z : K) (hz : Z ≠ 0)
    (h : ∀ v i, R v i ↔ v = E + Z * i) (v i : K) : R v i ↔ i = 1 / Z * v - E * (1 / Z) := by
  rw [h]; constructor <;> (intro h; grind)

/-- a Norton line with Y ≠ 0 is the Thévenin line with Z = 1/Y, Voc = Isc·Z -/
theorem nort_to_thev (R : K → K → Prop) (J Y : K) (hy : Y ≠ 0)
    (h : ∀ v i, R v i ↔ i = Y * v - J) (v i : K) : R v i ↔ v = J * (1 / Y) + 1 / Y * i := by
  rw [h]; constructor <;> (intro h; grind)

theorem leaf_nort (s : K) (l : Leaf K) (h : l.nOK s = true) (v i : K) :
    l.rel s v i ↔ i = l.adm s * v - l.isc s := by
  have gen : ∀ l : Leaf K, l.tOK s = true → l.imp s ≠ 0 → l.adm s = 1 / l.imp s →
      l.isc s = l.voc s * l.adm s → (l.rel s v i ↔ i = l.adm s * v - l.isc s) := by
    intro l ht hz ha hi
    rw [hi, ha]
    exact thev_to_nort _ _ _ hz (leaf_thev s l ht) v i
  cases l with
  | R r =>
    simp only [Leaf.nOK, decide_eq_true_eq] at h
    exact gen _ rfl h rfl rfl
  | G g =>
    simp only [Leaf.nOK, decide_eq_true_eq] at h
    exact gen _ (by simp [Leaf.tOK, h]) (by simp [Leaf.imp, h]) rfl rfl
  | L l i0 =>
    simp only [Leaf.nOK, decide_eq_true_eq] at h
    exact gen _ rfl h rfl rfl
  | C c v0 =>
    simp only [Leaf.nOK, Bool.and_eq_true, decide_eq_true_eq] at h
    exact gen _ (by simp [Leaf.tOK, h.1]) (by simp only [Leaf.imp]; exact one_div_ne_zero h.1) rfl rfl
  | Y y => simp [Leaf.rel, Leaf.adm, Leaf.isc, Leaf.voc]
  | Z z =>
    simp only [Leaf.nOK, decide_eq_true_eq] at h
    exact gen _ rfl h rfl rfl
  | V k e => simp [Leaf.nOK] at h
  | I k j => simp [Leaf.rel, Leaf.adm, Leaf.isc]
  | CPE k a =>
    simp only [Leaf.nOK, decide_eq_true_eq] at h
    exact gen _ (by simp [Leaf.tOK, h]) (by simp only [Leaf.imp]; exact one_div_ne_zero h) rfl rfl
  | Xtal c0 r1 l1 c1 =>
    simp only [Leaf.nOK, Bool.and_eq_true, decide_eq_true_eq] at h
    exact gen _ h.1 h.2 rfl rfl
  | FB rs rp cp lp =>
    simp only [Leaf.nOK, Bool.and_eq_true, decide_eq_true_eq] at h
    exact gen _ h.1 h.2 rfl rfl

end Lcapy.OnePort
