/-
  Helper definitions and lemmas for C06 (tokeniser, argument quoting).  Core Lean only.
-/
import Lcapy.Spec.NetlistExec
namespace Lcapy.Parser

theorem step_of_scanStep (ds : List Char) (parts : List Str) (cur : Str) (bad : Bool) (b b' : BSt) (c : Char)
    (h : scanStep ds b c = some b') :
    step ds ⟨parts, cur, b.1, b.2, bad⟩ c = ⟨parts, c :: cur, b'.1, b'.2, bad⟩ := by
  obtain ⟨cl, st⟩ := b
  unfold scanStep at h
  unfold step
  simp only at h ⊢
  split at h
  · cases h
  · rename_i h1
    simp only [h1]
    split at h
    · rename_i h2
      simp only [h2]
      cases st with
      | nil => simp at h; subst h; simp
      | cons x r => simp at h; subst h; simp
    · rename_i h2
      simp only [h2]
      split at h
      · rename_i h3; simp at h; subst h; simp [h3]
      · rename_i h3
        split at h
        · rename_i h4; simp at h; subst h; simp [h3, h4]
        · rename_i h4
          split at h
          · cases h
          · rename_i h5; simp at h; subst h; simp [h3, h4, h5]

theorem fold_scan (ds : List Char) (t : Str) : ∀ (parts : List Str) (cur : Str) (bad : Bool) (b b' : BSt),
    scan ds t b = some b' →
    t.foldl (step ds) ⟨parts, cur, b.1, b.2, bad⟩ = ⟨parts, t.reverse ++ cur, b'.1, b'.2, bad⟩ := by
  induction t with
  | nil => intro parts cur bad b b' h; simp [scan] at h; subst h; simp
  | cons c t ih =>
    intro parts cur bad b b' h
    simp only [scan] at h
    cases hs : scanStep ds b c with
    | none => simp [hs] at h
    | some b1 =>
      simp only [hs] at h
      simp only [List.foldl_cons]
      rw [step_of_scanStep ds parts cur bad b b1 c hs, ih parts (c :: cur) bad b1 b' h]
      simp

theorem atomic_scan {ds : List Char} {t : Str} (h : atomic ds t = true) : scan ds t (none, []) = some (none, []) := by
  unfold atomic at h
  simp only [Bool.and_eq_true] at h
  obtain ⟨_, h2⟩ := h
  split at h2
  · rename_i heq; exact heq
  · cases h2

theorem atomic_fold {ds : List Char} {t : Str} (h : atomic ds t = true) (parts : List Str) (cur : Str) (bad : Bool) :
    t.foldl (step ds) ⟨parts, cur, none, [], bad⟩ = ⟨parts, t.reverse ++ cur, none, [], bad⟩ :=
  fold_scan ds t parts cur bad (none, []) (none, []) (atomic_scan h)

theorem atomic_ne_nil {ds : List Char} {t : Str} (h : atomic ds t = true) : t ≠ [] := by
  unfold atomic at h
  intro ht; subst ht; simp at h

theorem step_delim (ds : List Char) (parts : List Str) (t : Str) (d : Char) (bad : Bool)
    (hd : ds.contains d = true) (ht : t ≠ []) :
    step ds ⟨parts, t.reverse, none, [], bad⟩ d = ⟨t :: parts, [], none, [], bad⟩ := by
  unfold step
  have : t.reverse.isEmpty = false := by
    cases t with
    | nil => exact absurd rfl ht
    | cons a b => simp
  have hd' : d ∈ ds := by simpa using hd
  simp [hd', this]

theorem split_join_aux (ds : List Char) (sep last : Char) (hsep : ds.contains sep = true) (hlast : ds.contains last = true)
    (ts : List Str) (h : ∀ t ∈ ts, atomic ds t = true) :
    ∀ parts, ((joinWith [sep] ts ++ [last]).foldl (step ds) ⟨parts, [], none, [], false⟩)
      = ⟨ts.reverse ++ parts, [], none, [], false⟩ := by
  induction ts with
  | nil =>
    intro parts
    have hl' : last ∈ ds := by simpa using hlast
    simp [joinWith, step, hl']
  | cons t ts ih =>
    intro parts
    have hp := h t (by simp)
    have hne := atomic_ne_nil hp
    cases ts with
    | nil =>
      simp only [joinWith, List.foldl_append, List.foldl_cons, List.foldl_nil]
      rw [atomic_fold hp]
      simp only [List.append_nil]
      rw [step_delim ds parts t last false hlast hne]
      simp
    | cons t2 ts2 =>
      have ih' := ih (fun u hu => h u (by simp [hu])) (t :: parts)
      simp only [joinWith, List.append_assoc, List.cons_append, List.nil_append, List.foldl_append, List.foldl_cons] at ih' ⊢
      rw [atomic_fold hp]
      simp only [List.append_nil]
      rw [step_delim ds parts t sep false hsep hne]
      simpa using ih'

/-- scanning distributes over concatenation -/
theorem scan_append (ds : List Char) (a b : Str) (s : BSt) :
    scan ds (a ++ b) s = (scan ds a s).bind (scan ds b) := by
  induction a generalizing s with
  | nil => simp [scan]
  | cons c a ih =>
    simp only [List.cons_append, scan]
    cases scanStep ds s c with
    | none => simp
    | some s' => simpa using ih s'

end Lcapy.Parser
