import Lcapy.Driver.Loop
import Lcapy.Driver.C08
import Lcapy.Driver.C08Net
def main : IO Unit := Lcapy.Driver.runDriver [Lcapy.Driver.C08.handle, Lcapy.Driver.C08Net.handle]
