import Lcapy.Driver.Loop
import Lcapy.Driver.C08
def main : IO Unit := Lcapy.Driver.runDriver [Lcapy.Driver.C08.handle]
