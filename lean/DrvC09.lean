import Lcapy.Driver.Loop
import Lcapy.Driver.C09
def main : IO Unit := Lcapy.Driver.runDriver [Lcapy.Driver.C09.handle]
