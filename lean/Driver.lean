/-
  Line-protocol driver over the executable models and spec predicates.
  One request per line on stdin, one reply line on stdout.  Every request is self-contained
  (no driver state), so replies depend only on the request text.
  Imports only Mathlib-free modules, so it links as a native executable.
-/
import Lcapy.Driver.C08

def handlers : List (List String → Option String) :=
  [Lcapy.Driver.C08.handle]

def dispatch (line : String) : String :=
  let toks := (line.trimAscii.toString.splitOn " ").filter (· ≠ "")
  match toks with
  | [] => "empty"
  | ["ping"] => "pong"
  | _ =>
    match handlers.findSome? (fun h => h toks) with
    | some r => r
    | none => "unknown-request"

partial def loop (hin : IO.FS.Stream) (hout : IO.FS.Stream) : IO Unit := do
  let line ← hin.getLine
  if line.isEmpty then return ()
  hout.putStrLn (dispatch line)
  hout.flush
  loop hin hout

def main : IO Unit := do
  loop (← IO.getStdin) (← IO.getStdout)
